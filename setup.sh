#!/bin/bash
# Offline build of the Coq development (full .vo build, no -vos), from files on disk only.
set -e
cd "$(dirname "$0")"
export PYTHONHASHSEED=0 PYTHONDONTWRITEBYTECODE=1 PYTHONPATH="${VERIF_REPO:-/repo}:$(pwd)/harness"
mkdir -p coq/Gen evidence/replay
/venv/bin/python - <<'PY'
import sys
import common
ok, log = common.coq_make()
print(log[-4000:])
sys.exit(0 if ok else 1)
PY
if grep -rnE '\b(Admitted|admit|Axiom|Parameter|Conjecture)\b|Unset Guard|bypass_check' coq/Base coq/Model coq/Proofs coq/Properties --include=*.v | grep -v '^\S*:\s*[0-9]*:\s*(\*' ; then
  echo "forbidden declaration found" >&2; exit 1
fi
echo "setup ok"
