#!/bin/bash
# Offline build of the Coq development (full .vo build, no -vos), from files on disk only.
# Builds the property files of every check claimed in MANIFEST.json (and everything they depend on).
set -e
cd "$(dirname "$0")"
export PYTHONHASHSEED=0 PYTHONDONTWRITEBYTECODE=1 PYTHONPATH="${VERIF_REPO:-/repo}:$(pwd)/harness"
mkdir -p coq/Gen evidence/replay
/venv/bin/python - <<'PY'
import importlib, json, sys
import common
man = json.load(open("MANIFEST.json"))
targets = []
for c in man["checks"]:
    m = importlib.import_module("p" + c["property_id"])
    targets += [f[:-2] + ".vo" for f in m.PROPERTY_FILES]
ok, log = common.coq_make(sorted(set(targets)))
print(log[-4000:])
sys.exit(0 if ok else 1)
PY
if grep -rnE '\b(Admitted|admit|Axiom|Parameter|Conjecture)\b|Unset Guard|bypass_check' coq/Base coq/Model coq/Proofs coq/Properties --include=*.v | grep -vE '^\S+:[0-9]+:\s*\(\*' | grep -vE '\(\*[^)]*\b(Admitted|admit|Axiom|Parameter|Conjecture)\b' ; then
  echo "forbidden declaration found" >&2; exit 1
fi
echo "setup ok"
