(* C20, the multi-action clause for sub-actions that are themselves sequential multi-actions.  Statements only. *)
From Bobo Require Import Base.Prelude Model.Action Model.ActionTree Proofs.ActionProofs Proofs.ActionTreeProofs.

(* a multi-action is determined by what its sub-actions yield: flag = conjunction of the executed ones' flags,
   data = their (success, data) tuples in order (a nested multi-action contributes ONE entry), log = their logs *)
Theorem C20tree_exec_spec : forall stop subs,
  exec (AMulti stop subs) =
  (forallb r_ok (ran stop (map exec subs)),
   RList (map (fun r => (r_ok r, r_data r)) (ran stop (map exec subs))),
   concat (map r_log (ran stop (map exec subs)))).
Proof. exact exec_multi_spec. Qed.
Print Assumptions C20tree_exec_spec.

Theorem C20tree_one_entry_per_executed_sub : forall stop subs,
  exists k, (k <= length subs)%nat /\
    r_data (exec (AMulti stop subs)) = RList (map (fun a => (r_ok (exec a), r_data (exec a))) (firstn k subs)) /\
    r_log (exec (AMulti stop subs)) = concat (map (fun a => r_log (exec a)) (firstn k subs)) /\
    r_ok (exec (AMulti stop subs)) = forallb (fun a => r_ok (exec a)) (firstn k subs).
Proof. exact multi_reports_one_entry_per_executed_sub. Qed.
Print Assumptions C20tree_one_entry_per_executed_sub.

Theorem C20tree_nostop_runs_all : forall subs,
  r_data (exec (AMulti false subs)) = RList (map (fun a => (r_ok (exec a), r_data (exec a))) subs) /\
  r_log (exec (AMulti false subs)) = concat (map (fun a => r_log (exec a)) subs).
Proof. exact multi_nostop_runs_all. Qed.
Print Assumptions C20tree_nostop_runs_all.

Theorem C20tree_stop_after_first_failure : forall pre a post,
  forallb (fun x => r_ok (exec x)) pre = true -> r_ok (exec a) = false ->
  r_log (exec (AMulti true (pre ++ a :: post))) = concat (map (fun x => r_log (exec x)) (pre ++ [a])) /\
  r_data (exec (AMulti true (pre ++ a :: post))) = RList (map (fun x => (r_ok (exec x), r_data (exec x))) (pre ++ [a])) /\
  r_ok (exec (AMulti true (pre ++ a :: post))) = false.
Proof. exact multi_stop_after_first_failure. Qed.
Print Assumptions C20tree_stop_after_first_failure.

Theorem C20tree_leaves_agree_with_flat_model : forall stop outs,
  exec (AMulti stop (leaves_from 0 outs)) =
  (fst (multi_exec stop outs), RList (map (fun o => (fst o, RVal (snd o))) (snd (multi_exec stop outs))),
   multi_trace stop outs).
Proof. exact tree_of_leaves_is_flat_model. Qed.
Print Assumptions C20tree_leaves_agree_with_flat_model.

Theorem C20tree_inlining_nested_refuted :
  exec (AMulti true nest_ex) =
    (false, RList [(true, RVal 10); (false, RList [(false, RVal 11); (true, RVal 12)])], [0; 1; 2]%nat) /\
  exec (AMulti true (inline_nested nest_ex)) =
    (false, RList [(true, RVal 10); (false, RVal 11)], [0; 1]%nat).
Proof. exact inlining_nested_refuted. Qed.
Print Assumptions C20tree_inlining_nested_refuted.
