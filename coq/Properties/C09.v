(* C09  Replicated run state survives the wire unchanged.  Statements only; proofs are in Proofs/WireProofs.v.

   Vocabulary (Model/Wire.v):
   - a run record `rserial` = run id, phenomenon and pattern name, block index and a history; a history is an
     insertion-ordered list of (group name, events); an event is Simple | Complex (with its own history, to any
     depth) | Action; event data are arbitrary JSON values (`json`);
   - `wf_rserial` / `wf_msg` are exactly what the constructors accept (BoboRunSerial: run id and phenomenon
     name non-empty, block index >= 1, history.size() >= 1; BoboEvent: event id non-empty; complex / action:
     names non-empty; BoboHistory: a dict, so group names are distinct, and no group is empty) together with
     "the data is a JSON value as Python holds one" (`jvalid`: distinct dict keys, text strings, finite floats);
   - `dumps` / `loads` stand for CPython's json.dumps / json.loads, `encrypt` / `decrypt` for the crypto object;
     they are parameters, and what is assumed of them is written out as premises of each theorem;
   - `f` is the number of nested from_json_str activations the receiver may use (the interpreter's recursion
     limit); every theorem holds for every f that is at least the nesting depth of the state. *)
From Bobo Require Import Base.Prelude Model.IdGen Model.Wire Proofs.WireProofs.

(* Any run record -- any identifiers, any position, any grouped history of simple, complex and action events
   nested to any depth, any group names (the empty one included) in any order, any JSON data -- is
   reconstructed with identical content from its JSON text: from_json_str(to_json_str(r)) = r.  Equality of
   `rserial` values is equality of every identifier, the index, the group order, the event order within each
   group, the event kinds, the timestamps and the data. *)
Theorem C09_runserial_roundtrip :
  forall (dumps : json -> str) (loads : str -> option json),
    (forall j, jvalid j = true -> loads (dumps j) = Some j) ->
    (forall j, jvalid j = true -> str_ok (dumps j) = true) ->
    forall (r : rserial) (f : nat),
      wf_rserial r = true -> (rs_depth r <= f)%nat ->
      runserial_from_str loads f (runserial_to_str dumps r) = Some r.
Proof. exact runserial_roundtrip. Qed.
Print Assumptions C09_runserial_roundtrip.

(* Serialising the received record again gives the same text. *)
Theorem C09_reserialise_same_text :
  forall (dumps : json -> str) (loads : str -> option json),
    (forall j, jvalid j = true -> loads (dumps j) = Some j) ->
    (forall j, jvalid j = true -> str_ok (dumps j) = true) ->
    forall (r r' : rserial) (f : nat),
      wf_rserial r = true -> (rs_depth r <= f)%nat ->
      runserial_from_str loads f (runserial_to_str dumps r) = Some r' ->
      runserial_to_str dumps r' = runserial_to_str dumps r.
Proof. exact reserialise_same_text. Qed.
Print Assumptions C09_reserialise_same_text.

(* The header "{urn} {id_key} {type} {flags} {json}" is split back into exactly its five fields, for any urn
   and id key without a space (BoboDevice rejects spaces), any integers, and ANY payload text -- spaces, NUL
   and the frame marker BOBO included. *)
Theorem C09_split_format_inverse :
  forall (urn key : str) (ty fl : Z) (payload : str),
    ~ In SP urn -> ~ In SP key ->
    split_plaintext (format urn key ty fl payload) = Some (urn, key, ty, fl, payload).
Proof. exact split_format. Qed.
Print Assumptions C09_split_format_inverse.

(* ... so two different (urn, key, type, flags, payload) never give the same plaintext *)
Theorem C09_format_injective :
  forall u1 k1 t1 f1 p1 u2 k2 t2 f2 p2,
    ~ In SP u1 -> ~ In SP k1 -> ~ In SP u2 -> ~ In SP k2 ->
    format u1 k1 t1 f1 p1 = format u2 k2 t2 f2 p2 ->
    u1 = u2 /\ k1 = k2 /\ t1 = t2 /\ f1 = f2 /\ p1 = p2.
Proof. exact format_inj. Qed.
Print Assumptions C09_format_injective.

(* A whole message -- the three lists completed / halted / updated of run records behind a header -- is split
   and decoded (_split_plaintext, then _incoming_from_json with the object hook) into the same header fields
   and the same three lists, and serialising the received lists again gives the same text. *)
Theorem C09_message_roundtrip :
  forall (dumps : json -> str) (loads : str -> option json),
    (forall j, jvalid j = true -> loads (dumps j) = Some j) ->
    (forall j, jvalid j = true -> str_ok (dumps j) = true) ->
    forall (urn key : str) (ty fl : Z) (m : msg) (f : nat),
      ~ In SP urn -> ~ In SP key -> wf_msg m = true -> (msg_depth m <= f)%nat ->
      split_plaintext (format urn key ty fl (msg_to_str dumps m)) = Some (urn, key, ty, fl, msg_to_str dumps m) /\
      msg_from_str loads f (msg_to_str dumps m) = Some m /\
      (forall m', msg_from_str loads f (msg_to_str dumps m) = Some m' -> msg_to_str dumps m' = msg_to_str dumps m).
Proof.
  exact (fun dumps loads H1 H2 urn key ty fl m f Hu Hk W Hd =>
           conj (split_format urn key ty fl _ Hu Hk)
                (conj (msg_roundtrip dumps loads H1 H2 m f W Hd)
                      (fun m' => reserialise_msg_same_text dumps loads H1 H2 m m' f W Hd))).
Qed.
Print Assumptions C09_message_roundtrip.

(* The whole path of the property: serialisation, header, encryption | decryption, header split, decoding.
   The cipher law is C17's round trip (a plaintext that does not end in U+0000 decrypts to itself; D14 is the
   exception and cannot occur here because the text of a dict ends in "}"). *)
Theorem C09_wire_roundtrip :
  forall (dumps : json -> str) (loads : str -> option json),
    (forall j, jvalid j = true -> loads (dumps j) = Some j) ->
    (forall j, jvalid j = true -> str_ok (dumps j) = true) ->
    forall (encrypt : str -> str -> list Z) (decrypt : list Z -> option str),
      (forall nonce s, str_ok s = true -> ends_nul s = false -> decrypt (encrypt nonce s) = Some s) ->
      (forall kv, jvalid (JObj kv) = true -> exists t, dumps (JObj kv) = t ++ [RBRACE]) ->
      forall (nonce urn key : str) (ty fl : Z) (m : msg) (f : nat),
        str_ok urn = true -> str_ok key = true -> ~ In SP urn -> ~ In SP key ->
        wf_msg m = true -> (msg_depth m <= f)%nat ->
        receive loads decrypt f (send dumps encrypt nonce urn key ty fl m) = Some (urn, key, ty, fl, m).
Proof. exact wire_roundtrip. Qed.
Print Assumptions C09_wire_roundtrip.

(* The premises about dumps / loads / encrypt / decrypt are satisfiable (so the theorems above are not
   vacuous): the concrete codec of Model/Wire.v, which the correspondence check runs, satisfies all of them. *)
Theorem C09_laws_satisfiable :
  exists (dumps : json -> str) (loads : str -> option json)
         (encrypt : str -> str -> list Z) (decrypt : list Z -> option str),
    (forall j, jvalid j = true -> loads (dumps j) = Some j) /\
    (forall j, jvalid j = true -> str_ok (dumps j) = true) /\
    (forall nonce s, str_ok s = true -> ends_nul s = false -> decrypt (encrypt nonce s) = Some s) /\
    (forall kv, jvalid (JObj kv) = true -> exists t, dumps (JObj kv) = t ++ [RBRACE]).
Proof.
  exact (ex_intro _ tdumps (ex_intro _ tloads (ex_intro _ tencrypt (ex_intro _ tdecrypt
           (conj (fun j _ => tloads_tdumps j)
                 (conj tdumps_text
                       (conj (fun n s _ H => tcrypto_roundtrip n s H)
                             (fun kv _ => tdumps_obj_brace kv)))))))).
Qed.
Print Assumptions C09_laws_satisfiable.

(* ---- non-vacuity: a state with all three event kinds, nesting depth 3, the empty group name, NUL, quotes,
   a backslash and the marker BOBO inside identifiers, group names and data, int / float data at the edges *)
Definition ex_simple : event :=
  Simple [101; 32; 0; 66; 79; 66; 79] 5
         (JObj [([99; 111; 109; 112; 108; 101; 116; 101; 100], JArr [JInt 9223372036854775808; JFloat 9223372036854775808;
                                                                    JNull; JBool true; JStr [34; 92; 0; 233; 128512]])]).
Definition ex_action : event := Action [97] 7 (JInt (-1)) [112] [113] [97; 99; 116] false.
Definition ex_c1 : event := Complex [99; 49] 6 JNull [112] [113] [([], [ex_simple]); ([103; 34; 92], [ex_simple; ex_action])].
Definition ex_c2 : event := Complex [99; 50] 8 (JArr []) [112] [113] [([120], [ex_c1]); ([], [ex_action])].
Definition ex_record : rserial := mkRS [114; 0] [112] [] 3 [([103], [ex_c2; ex_simple]); ([], [ex_c1])].
Definition ex_msg : msg := ([ex_record], [], [ex_record; ex_record]).

Example C09_example_wf : wf_msg ex_msg = true /\ msg_depth ex_msg = 3%nat.
Proof. vm_compute. split; reflexivity. Qed.

(* the model really runs: the example goes through the model's send and receive with the concrete codec *)
Example C09_example_runs :
  receive tloads tdecrypt 3 (send tdumps tencrypt [] [117; 0; 66; 79; 66; 79] [107; 34] 2 1 ex_msg)
  = Some ([117; 0; 66; 79; 66; 79], [107; 34], 2, 1, ex_msg).
Proof. vm_compute. reflexivity. Qed.

(* header split on a payload with spaces, NUL and BOBO, negative integers *)
Example C09_example_split :
  split_plaintext (format [117] [107] (-12) 0 [32; 32; 0; 66; 79; 66; 79; 32])
  = Some ([117], [107], -12, 0, [32; 32; 0; 66; 79; 66; 79; 32]).
Proof. vm_compute. reflexivity. Qed.

(* the validity premise is needed: a record the receiving constructor rejects (empty run id) does not decode,
   and with too small a recursion budget neither does a valid one *)
Example C09_example_rejected :
  runserial_from_str tloads 3 (runserial_to_str tdumps (mkRS [] [112] [] 1 [([103], [ex_action])])) = None /\
  runserial_from_str tloads 2 (runserial_to_str tdumps ex_record) = None.
Proof. vm_compute. split; reflexivity. Qed.
