(* C13  A singleton pattern never has two active runs.  Statements only. *)
From Bobo Require Import Base.Prelude Base.History Model.Pattern Model.Run Model.Decider.
From Bobo Require Import Proofs.RunProofs Proofs.DeciderLemmas Proofs.DeciderProofs Proofs.StepProofs.

Section C13.
  Variable E : Type.

  (* After every history of local events and ARBITRARY remote messages (any records in any of the three
     lists: same or different run ids, duplicates, any order, stale or unknown patterns), an instance holds
     at most one active run of a pattern declared singleton. *)
  Theorem C13_singleton_at_most_one : forall cfg ops (s : dstate E) ph pat p,
    cfg_wf E cfg -> run_ops E cfg d_init ops = Some s ->
    get_pattern cfg ph pat = Some p -> p_single p = true -> (length (bucket ph pat (d_runs s)) <= 1)%nat.
  Proof.
    intros cfg ops s ph pat p Hc Hr. destruct (Inv_reachable E cfg ops s Hc Hr) as [_ [_ [_ H]]]. exact (H ph pat p).
  Qed.

  (* the same, as step invariants (also for the pinned-commit variants of the remote path) *)
  Theorem C13_local_step_preserves : forall cfg (s s' : dstate E) (e : E) n,
    cfg_wf E cfg -> local_step cfg s e = Ok (s', n) -> Inv E cfg (d_runs s) -> Inv E cfg (d_runs s').
  Proof. exact (Inv_local_step E). Qed.

  Theorem C13_remote_preserves : forall fixed d3 cfg (s s' : dstate E) (m n : note E),
    remote_apply_gen fixed d3 cfg s m = (s', n) -> Inv E cfg (d_runs s) -> Inv E cfg (d_runs s').
  Proof. exact (Inv_remote_apply E). Qed.

  (* A new run can start as soon as the current one has completed or halted: if the event on which the
     active run finishes is accepted by the first block, the new run is active after that very step. *)
  Theorem C13_singleton_restart : forall cfg (s s' : dstate E) (e : E) (n : note E) ph (p : pattern E),
    cfg_wf E cfg -> In (ph, p) (cfg_pats cfg) ->
    p_single p = true -> (1 < length (p_blocks p))%nat -> first_match p e = true ->
    (forall r, In r (bucket ph (p_name p) (d_runs s)) -> after_event e r = None) ->
    local_step cfg s e = Ok (s', n) ->
    exists id, bucket ph (p_name p) (d_runs s') = [new_run id ph p e].
  Proof. exact (singleton_restart E). Qed.
End C13.
Print Assumptions C13_singleton_at_most_one.
Print Assumptions C13_local_step_preserves.
Print Assumptions C13_remote_preserves.
Print Assumptions C13_singleton_restart.

(* non-vacuity: singleton pattern a;b: a a b a -> one run, then restart *)
From Bobo Require Import Model.PredLang.
Example C13_example :
  run_decider (CD [(1, [PD 1 [BD [PDataEq 1] 1 false false false false; BD [PDataEq 2] 2 false false false false]
                        [] [] true])] 5 100,
               [OLocal (mkEv 0 0 0 1 0 0); OLocal (mkEv 1 1 0 1 0 0); OLocal (mkEv 2 2 0 2 0 0);
                OLocal (mkEv 3 3 0 1 0 0)]) <> [].
Proof. vm_compute. discriminate. Qed.
