(* C04  Replicas converge under every message interleaving.  Statements only.
   Model/Converge.v: status lattice Absent < Active(i,n) < Halted < Completed and the abstract replication
   system (local steps grow statuses and announce every change; a delivered message is ANY list of facts
   announced earlier and is joined in by taking the maximum - this covers delay, reordering across peers,
   duplication, re-delivery of unacknowledged messages, the backlog merge and snapshots).
   Model/ConvergeC.v + Proofs/JoinProofs, LocalProofs, SimProofs: the DECIDER MODEL is an instance of that system
   (proved: P1 a local decider step only grows `cstatus` and its note names every run whose status changed with
   its new status; P2 `cstatus` after remote_apply is the join of the status before and the facts of the
   message), for non-singleton patterns, finished-run memory enabled and with room, messages whose records name
   existing patterns consistently with the owner of each run id, and notes that respect that ownership.  Hence
   convergence holds for every execution of the decider model itself (C04_model_convergence). *)
From Bobo Require Import Base.Prelude Base.History Model.Pattern Model.Run Model.Decider Model.Converge.
From Bobo Require Import Proofs.RunProofs Proofs.DeciderLemmas Proofs.DeciderProofs Proofs.StepProofs.
From Bobo Require Import Model.Cluster Model.ConvergeC.
From Bobo Require Import Proofs.RemoteProofs Proofs.ConvergeProofs Proofs.JoinProofs Proofs.LocalProofs Proofs.SimProofs.
From Bobo Require Import Model.PredLang Proofs.ConvergeExample.

(* once every announcement has reached every instance, all instances hold every run at the same status:
   same set of partially completed runs, at the same positions; for EVERY execution of the abstract system *)
Theorem C04_convergence : forall n a,
  asteps a_init a -> all_delivered n a -> forall j k id, (j < n)%nat -> (k < n)%nat -> a_status a j id = a_status a k id.
Proof. exact convergence_reachable. Qed.

(* a run completed anywhere is completed (hence reported as a complex event) everywhere *)
Theorem C04_completed_everywhere : forall n a i id,
  asteps a_init a -> all_delivered n a -> (i < n)%nat -> a_status a i id = Completed ->
  forall j, (j < n)%nat -> a_status a j id = Completed.
Proof. exact completed_everywhere. Qed.

(* progress never moves a run backwards, along any execution *)
Theorem C04_never_backwards : forall a b,
  asteps a b -> forall j id, st_le (a_status a j id) (a_status b j id) = true.
Proof. exact asteps_monotone. Qed.

(* conflicts resolve as documented *)
Theorem C04_completion_beats_halt : st_max Halted Completed = Completed /\ st_max Completed Halted = Completed.
Proof. exact completed_beats_halt. Qed.
Theorem C04_halt_beats_progress : forall i n, st_max (Active i n) Halted = Halted /\ st_max Halted (Active i n) = Halted.
Proof. exact halt_beats_progress. Qed.
Theorem C04_status_order_is_total_order :
  (forall a, st_le a a = true) /\ (forall a b c, st_le a b = true -> st_le b c = true -> st_le a c = true) /\
  (forall a b, st_le a b = true -> st_le b a = true -> a = b) /\ (forall a b, st_le a b = true \/ st_le b a = true).
Proof. repeat split; [exact st_le_refl|exact st_le_trans|exact st_le_antisym|exact st_le_total]. Qed.

(* per-step facts proved for the decider model (support of P1 / P2) *)
Section Concrete.
  Variable E : Type.
  (* P2, resurrection half: a message never re-activates what it or the memory declares finished *)
  Theorem C04_model_no_resurrection : forall cfg (s s' : dstate E) (m n : note E) ph pat r',
    remote_apply cfg s m = (s', n) -> In r' (bucket ph pat (d_runs s')) ->
    (exists r, In r (bucket ph pat (d_runs s)) /\ r_id r = r_id r') \/
    (~ In (r_id r') (ids_of (n_comp m)) /\ ~ In (r_id r') (ids_of (n_halt m)) /\
     (c_maxcache cfg <> O -> remembered E s (r_id r') = false)).
  Proof. exact (no_resurrection E). Qed.
  (* P2, monotone half: no active run is dropped or moved backwards by the updated records of any message *)
  Theorem C04_model_updates_never_backwards : forall cfg d3 recs (rt rt' : runtab E) out ph pat,
    Inv E cfg rt -> apply_updated cfg d3 recs rt = (rt', out) ->
    forall r, In r (bucket ph pat rt) -> exists r', In r' (bucket ph pat rt') /\ run_le E r r'.
  Proof. exact (apply_updated_never_backwards E). Qed.
  (* P1, monotone half: a surviving run moved forward *)
  Theorem C04_model_local_never_backwards : forall (e : E) (r r' : run E),
    after_event e r = Some r' -> run_le E r r'.
  Proof. exact (after_event_run_le E). Qed.
End Concrete.

(* ---------- the decider model is an instance of the abstract system ---------- *)
(* P2: any well-formed message is applied as a join (and the invariants are kept) *)
Theorem C04_model_remote_is_join :
  forall (E : Type) (owner : Z -> Z * Z) cfg i (s s' : dstate E) (m n : note E),
    (forall ph pat p, get_pattern cfg ph pat = Some p -> p_single p = false) ->
    c_maxcache cfg <> O -> room cfg s m -> wf_msg owner cfg m ->
    Inv E cfg (d_runs s) -> owner_ok owner (d_runs s) ->
    remote_apply cfg s m = (s', n) ->
    (forall id, cstatus owner s' id = join_facts id (mfacts i m) (cstatus owner s id)) /\
    Inv E cfg (d_runs s') /\ owner_ok owner (d_runs s').
Proof. exact remote_join. Qed.

(* P1: a local step is monotone and truthful *)
Theorem C04_model_local_mono_truthful :
  forall (E : Type) (owner : Z -> Z * Z) cfg i (s s' : dstate E) (e : E) (n : note E),
    cfg_wf E cfg -> c_maxcache cfg <> O -> room cfg s n -> note_owned E owner n ->
    Inv E cfg (d_runs s) -> owner_ok owner (d_runs s) ->
    local_step cfg s e = Ok (s', n) ->
    (forall id, st_le (cstatus owner s id) (cstatus owner s' id) = true) /\
    (forall id, cstatus owner s' id <> cstatus owner s id -> In (i, id, cstatus owner s' id) (mfacts i n)) /\
    Inv E cfg (d_runs s') /\ owner_ok owner (d_runs s').
Proof. exact local_mono_truthful. Qed.

(* Convergence of the decider model: along EVERY execution made of local events at any instance and deliveries of
   ANY well-formed message whose facts were announced before (delay, reordering across peers, re-delivery, merged
   backlog, snapshot), once every announced fact has reached each of the n instances they all hold every run at
   the same status: the same partially completed runs at the same positions, the same finished runs *)
Theorem C04_model_convergence :
  forall (E : Type) (owner : Z -> Z * Z) (cfg : config E) (gen : nat -> nat -> Z),
    (forall ph pat p, get_pattern cfg ph pat = Some p -> p_single p = false) ->
    cfg_wf E cfg -> c_maxcache cfg <> O ->
    forall n c, csteps E owner cfg gen (c_init E) c -> all_delivered n (abs E owner c) ->
    forall j k id, (j < n)%nat -> (k < n)%nat -> cstatus owner (c_st E c j) id = cstatus owner (c_st E c k) id.
Proof. exact concrete_convergence. Qed.

(* what "delivered" means: after handling a message an instance is at least as advanced as every fact in it *)
Theorem C04_model_delivered_fact_reached :
  forall (E : Type) (owner : Z -> Z * Z) (cfg : config E) (gen : nat -> nat -> Z),
    (forall ph pat p, get_pattern cfg ph pat = Some p -> p_single p = false) -> c_maxcache cfg <> O ->
    forall i j c c' (m n : note E) f,
      good E owner cfg gen c -> wf_msg owner (icfg cfg gen j) m -> room (icfg cfg gen j) (c_st E c j) m ->
      remote_apply (icfg cfg gen j) (c_st E c j) m = (c_st E c' j, n) ->
      In f (mfacts i m) -> st_le (snd f) (cstatus owner (c_st E c' j) (snd (fst f))) = true.
Proof. exact delivered_fact_reached. Qed.

(* progress never moves a run backwards on any instance, along any execution of the decider model *)
Theorem C04_model_never_backwards :
  forall (E : Type) (owner : Z -> Z * Z) (cfg : config E) (gen : nat -> nat -> Z),
    (forall ph pat p, get_pattern cfg ph pat = Some p -> p_single p = false) ->
    cfg_wf E cfg -> c_maxcache cfg <> O ->
    forall c c', good E owner cfg gen c -> csteps E owner cfg gen c c' ->
    forall k id, st_le (cstatus owner (c_st E c k) id) (cstatus owner (c_st E c' k) id) = true.
Proof. exact concrete_never_backwards. Qed.

Print Assumptions C04_model_remote_is_join.
Print Assumptions C04_model_local_mono_truthful.
Print Assumptions C04_model_convergence.
Print Assumptions C04_model_delivered_fact_reached.
Print Assumptions C04_model_never_backwards.
Print Assumptions C04_convergence.
Print Assumptions C04_completed_everywhere.
Print Assumptions C04_never_backwards.
Print Assumptions C04_status_order_is_total_order.
Print Assumptions C04_model_no_resurrection.
Print Assumptions C04_model_updates_never_backwards.

(* non-vacuity of the premises: an execution exists and all_delivered is satisfiable (instance 0 starts run 7) *)
Example C04_example :
  exists a, asteps a_init a /\ all_delivered 1 a /\ a_status a 0%nat 7 = Active 1 1.
Proof.
  pose (f1 := (0%nat, 7, Active 1 1)).
  pose (a1 := mkA (fun k x => if Nat.eqb k 0 && Z.eqb x 7 then Active 1 1 else Absent) [f1]).
  exists a1. split; [|split; [|reflexivity]].
  - eapply AS_step; [apply AS_refl|].
    apply (A_local 0 a_init a1 [f1]).
    + intro x. reflexivity.
    + intros k x Hk0. simpl. destruct k; [congruence|reflexivity].
    + intros x H. simpl in H. simpl. destruct (Z.eqb_spec x 7) as [Hx|Hx]; [subst x; now left|congruence].
    + reflexivity.
  - intros f j Hj Hf. simpl in Hf. destruct Hf as [<-|[]]. destruct j; [reflexivity|lia].
Qed.

(* non-vacuity of C04_model_convergence on the DECIDER MODEL: two deciders, non-singleton pattern a ; b, event a at
   instance 0, its note delivered to instance 1 - a legal execution (every side condition of both steps proved on
   the concrete states) after which everything announced has been delivered and both hold run 1000 at Active 1 1 *)
Example C04_model_convergence_nonvacuous :
  (forall ph pat p, get_pattern cx_cfg ph pat = Some p -> p_single p = false) /\
  cfg_wf ev cx_cfg /\ c_maxcache cx_cfg <> O /\
  csteps ev cx_owner cx_cfg cx_gen (c_init ev) cx_c2 /\
  all_delivered 2 (abs ev cx_owner cx_c2) /\
  cstatus cx_owner (c_st ev cx_c2 0) 1000 = Active 1 1 /\ cstatus cx_owner (c_st ev cx_c2 1) 1000 = Active 1 1.
Proof.
  split; [exact cx_pat|]. split; [exact cx_cfg_wf|]. split; [discriminate|]. split; [exact cx_csteps|].
  split; [exact cx_all_delivered|exact cx_statuses].
Qed.
