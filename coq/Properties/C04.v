(* C04  Replicas converge under every message interleaving.  Statements only.
   Model/Converge.v: status lattice Absent < Active(i,n) < Halted < Completed and the abstract replication
   system (local steps grow statuses and announce every change; a delivered message is ANY list of facts
   announced earlier and is joined in by taking the maximum - this covers delay, reordering across peers,
   duplication, re-delivery of unacknowledged messages, the backlog merge and snapshots).
   The abstract theorem is proved in full.  Its tie to the decider model is PARTIAL: the two refinement
   premises - (P1) a local decider step only grows `status` and its note names every run whose status changed
   with its new status; (P2) `status` after remote_apply is the maximum of the status before and `msg_status`
   of the message - are checked on every generated step of model and implementation by the harness (stated
   for non-singleton patterns, finished-run memory enabled and large enough, run ids unique), and supported
   by the per-step theorems below, which are proved for the decider model itself. *)
From Bobo Require Import Base.Prelude Base.History Model.Pattern Model.Run Model.Decider Model.Converge.
From Bobo Require Import Proofs.RunProofs Proofs.DeciderLemmas Proofs.DeciderProofs Proofs.StepProofs.
From Bobo Require Import Proofs.RemoteProofs Proofs.ConvergeProofs.

(* once every announcement has reached every instance, all instances hold every run at the same status:
   same set of partially completed runs, at the same positions; for EVERY execution of the abstract system *)
Theorem C04_convergence : forall n a,
  asteps a_init a -> all_delivered n a -> forall j k id, (j < n)%nat -> (k < n)%nat -> a_status a j id = a_status a k id.
Proof. exact convergence_reachable. Qed.

(* a run completed anywhere is completed (hence reported as a complex event) everywhere *)
Theorem C04_completed_everywhere : forall n a i id,
  asteps a_init a -> all_delivered n a -> (i < n)%nat -> a_status a i id = Completed ->
  forall j, (j < n)%nat -> a_status a j id = Completed.
Proof. exact completed_everywhere. Qed.

(* progress never moves a run backwards, along any execution *)
Theorem C04_never_backwards : forall a b,
  asteps a b -> forall j id, st_le (a_status a j id) (a_status b j id) = true.
Proof. exact asteps_monotone. Qed.

(* conflicts resolve as documented *)
Theorem C04_completion_beats_halt : st_max Halted Completed = Completed /\ st_max Completed Halted = Completed.
Proof. exact completed_beats_halt. Qed.
Theorem C04_halt_beats_progress : forall i n, st_max (Active i n) Halted = Halted /\ st_max Halted (Active i n) = Halted.
Proof. exact halt_beats_progress. Qed.
Theorem C04_status_order_is_total_order :
  (forall a, st_le a a = true) /\ (forall a b c, st_le a b = true -> st_le b c = true -> st_le a c = true) /\
  (forall a b, st_le a b = true -> st_le b a = true -> a = b) /\ (forall a b, st_le a b = true \/ st_le b a = true).
Proof. repeat split; [exact st_le_refl|exact st_le_trans|exact st_le_antisym|exact st_le_total]. Qed.

(* per-step facts proved for the decider model (support of P1 / P2) *)
Section Concrete.
  Variable E : Type.
  (* P2, resurrection half: a message never re-activates what it or the memory declares finished *)
  Theorem C04_model_no_resurrection : forall cfg (s s' : dstate E) (m n : note E) ph pat r',
    remote_apply cfg s m = (s', n) -> In r' (bucket ph pat (d_runs s')) ->
    (exists r, In r (bucket ph pat (d_runs s)) /\ r_id r = r_id r') \/
    (~ In (r_id r') (ids_of (n_comp m)) /\ ~ In (r_id r') (ids_of (n_halt m)) /\
     (c_maxcache cfg <> O -> remembered E s (r_id r') = false)).
  Proof. exact (no_resurrection E). Qed.
  (* P2, monotone half: no active run is dropped or moved backwards by the updated records of any message *)
  Theorem C04_model_updates_never_backwards : forall cfg d3 recs (rt rt' : runtab E) out ph pat,
    Inv E cfg rt -> apply_updated cfg d3 recs rt = (rt', out) ->
    forall r, In r (bucket ph pat rt) -> exists r', In r' (bucket ph pat rt') /\ run_le E r r'.
  Proof. exact (apply_updated_never_backwards E). Qed.
  (* P1, monotone half: a surviving run moved forward *)
  Theorem C04_model_local_never_backwards : forall (e : E) (r r' : run E),
    after_event e r = Some r' -> run_le E r r'.
  Proof. exact (after_event_run_le E). Qed.
End Concrete.

Print Assumptions C04_convergence.
Print Assumptions C04_completed_everywhere.
Print Assumptions C04_never_backwards.
Print Assumptions C04_status_order_is_total_order.
Print Assumptions C04_model_no_resurrection.
Print Assumptions C04_model_updates_never_backwards.

(* non-vacuity: two instances; 0 starts run 7, 1 learns it, 1 halts it, 0 learns that: all delivered, equal *)
Example C04_example :
  exists a, asteps a_init a /\ all_delivered 2 a /\ a_status a 0%nat 7 = Halted /\ a_status a 1%nat 7 = Halted.
Proof.
  pose (f1 := (0%nat, 7, Active 1 1)). pose (f2 := (1%nat, 7, Halted)).
  pose (a1 := mkA (fun k id => if Nat.eqb k 0 && Z.eqb id 7 then Active 1 1 else Absent) [f1]).
  pose (a2 := mkA (fun k id => if Z.eqb id 7 then Active 1 1 else Absent) [f1]).
  pose (a3 := mkA (fun k id => if Z.eqb id 7 then (if Nat.eqb k 1 then Halted else Active 1 1) else Absent) [f1; f2]).
  pose (a4 := mkA (fun k id => if Z.eqb id 7 then Halted else Absent) [f1; f2]).
  assert (Hk : forall k, k <> 0%nat -> k <> 1%nat -> (k =? 1)%nat = false) by (intros k _ H; now apply Nat.eqb_neq).
  exists a4. split; [|split; [|split; reflexivity]].
  - eapply AS_step; [eapply AS_step; [eapply AS_step; [eapply AS_step; [apply AS_refl|]|]|]|].
    + apply (A_local 0 a_init a1 [f1]); simpl.
      * intro id. reflexivity.
      * intros k id Hk0. destruct k; [congruence|reflexivity].
      * intros id H. destruct (Z.eqb_spec id 7) as [->|]; [now left|congruence].
      * reflexivity.
    + apply (A_deliver 1 a1 a2 [f1]); simpl.
      * intros f [<-|[]]. now left.
      * intro id. unfold join_facts. simpl. destruct (Z.eqb_spec id 7) as [->|Hn]; simpl; [reflexivity|].
        destruct (Z.eqb_spec 7 id); [congruence|reflexivity].
      * intros k id Hk1. destruct k as [|[|k]]; simpl; [reflexivity|congruence|]. now destruct (Z.eqb id 7).
      * reflexivity.
    + apply (A_local 1 a2 a3 [f2]); simpl.
      * intro id. destruct (Z.eqb id 7); reflexivity.
      * intros k id Hk1. destruct k as [|[|k]]; simpl; try reflexivity. congruence.
      * intros id H. destruct (Z.eqb_spec id 7) as [->|]; [now left|congruence].
      * reflexivity.
    + apply (A_deliver 0 a3 a4 [f2]); simpl.
      * intros f [<-|[]]. right. now left.
      * intro id. unfold join_facts. simpl. destruct (Z.eqb_spec id 7) as [->|Hn]; simpl; [reflexivity|].
        destruct (Z.eqb_spec 7 id); [congruence|reflexivity].
      * intros k id Hk0. destruct k as [|[|k]]; simpl; [congruence| |]; destruct (Z.eqb id 7); reflexivity.
      * reflexivity.
  - intros f j Hj Hf. simpl in Hf. destruct Hf as [<-|[<-|[]]]; destruct j as [|[|j]]; try lia; reflexivity.
Qed.
