(* C02  One complex event, one action run, one action event per completed run.  Statements only.
   Model: Model/Engine.v (four FIFO task queues, blocking handler, BoboEngine wiring).
   EInv packages the conservation equations (see Proofs/EngineProofs.v for the field comments):
     entry = seen ++ decider queue ++ receiver queue (same data, FIFO);  completed = complex ++ producer queue;
     forwarder input = local complex events = handled ++ forwarder queue;  executions = one per handled complex
     event whose phenomenon has an action;  executions = reported by action events ++ handler queue;
     complex and action events re-enter the receiver exactly once;  contents of complex / action events. *)
From Bobo Require Import Base.Prelude Base.History Model.Pattern Model.Run Model.Decider Model.PredLang Model.Engine.
From Bobo Require Import Proofs.EngineProofs.

(* the invariant holds in every state reachable by ANY interleaving of add_data, update() and remote notes,
   for every engine configuration (times_* any naturals incl. 0 = run until no change, early_stop on/off,
   local_only on/off), every phenomenon set with or without action and datagen *)
Theorem C02_conservation_every_reachable_state :
  forall (cfg : config ev) (c : ecfg) (ops : list eop), EInv c (apply_ops cfg c e_init ops).
Proof. exact EInv_reachable. Qed.

(* it is preserved by one engine cycle from any state satisfying it *)
Theorem C02_conservation_engine_update :
  forall (cfg : config ev) (c : ecfg) s, EInv c s -> EInv c (engine_update cfg c s).
Proof. exact EInv_engine_update. Qed.

(* when all queues are empty: every datum accepted became exactly one event seen by the decider, in arrival order,
   with the same data; completed records and complex events correspond one to one; the executions are exactly one
   per (local) complex event of a phenomenon with an action; the action events report exactly the executions *)
Theorem C02_one_to_one_at_quiescence :
  forall (c : ecfg) s, EInv c s -> quiescent s ->
    map proj_item (g_entry (gh s)) = map proj_ev (g_seen (gh s)) /\
    g_completed (gh s) = map (fun x => (snd (fst x), snd x)) (g_complex (gh s)) /\
    g_exec (gh s) = flat_map (exec_of c)
                      (flat_map (fun x => if snd x || negb (local_only c) then [fst (fst x)] else []) (g_complex (gh s))) /\
    g_exec (gh s) = map snd (g_aevents (gh s)).
Proof. exact one_to_one_at_quiescence. Qed.

(* nothing is left stranded: whenever a task runs with a non-empty queue it consumes the head, for every
   iteration setting (the first update() call of a task in a cycle is unconditional) *)
Theorem C02_receiver_consumes_head : forall s it rest,
  q_r s = it :: rest -> q_r (fst (recv_update s)) = rest.
Proof. exact recv_consumes_head. Qed.
Theorem C02_decider_consumes_head : forall cfg s e rest,
  q_d s = e :: rest -> q_d (fst (dec_update cfg s)) = rest.
Proof. exact dec_consumes_head. Qed.
Theorem C02_producer_consumes_head : forall c s x rest,
  q_p s = x :: rest -> q_p (fst (prod_update c s)) = rest /\ snd (prod_update c s) = true.
Proof. exact prod_consumes_head. Qed.
Theorem C02_forwarder_consumes_head : forall c s ce rest,
  q_f s = ce :: rest -> q_f (fst (fwd_update c s)) = rest /\ snd (fwd_update c s) = true.
Proof. exact fwd_consumes_head. Qed.
Theorem C02_task_runs_at_least_once : forall f times early fuel s,
  run_task f times early (S fuel) s =
  let '(s', b) := f s in
  match times with
  | O => if b then loop_while f fuel s' else s'
  | S k => if negb b && early then s' else loop_times f early k s'
  end.
Proof. exact run_task_first. Qed.

(* `while task.update(): pass` terminates: the fuel engine_update passes is never exhausted
   (a task reports a change only when it shortened its own queues) *)
Theorem C02_while_loops_terminate : forall f measure,
  fuel_ok f measure -> forall fuel s, (measure s < fuel)%nat -> loop_while f fuel s = loop_while f (S fuel) s.
Proof. exact loop_while_fuel_enough. Qed.
Theorem C02_fuel_receiver : fuel_ok recv_update (fun s => length (q_r s)).
Proof. exact recv_fuel. Qed.
Theorem C02_fuel_decider : forall cfg, fuel_ok (dec_update cfg) (fun s => length (q_d s)).
Proof. exact dec_fuel. Qed.
Theorem C02_fuel_producer : forall c, fuel_ok (prod_update c) (fun s => length (q_p s)).
Proof. exact prod_fuel. Qed.
Theorem C02_fuel_forwarder : forall c, fuel_ok (fwd_update c) (fun s => (2 * length (q_f s) + length (q_h s))%nat).
Proof. exact fwd_fuel. Qed.

Print Assumptions C02_conservation_every_reachable_state.
Print Assumptions C02_conservation_engine_update.
Print Assumptions C02_one_to_one_at_quiescence.
Print Assumptions C02_forwarder_consumes_head.
Print Assumptions C02_task_runs_at_least_once.
Print Assumptions C02_while_loops_terminate.
Print Assumptions C02_fuel_forwarder.

(* non-vacuity: pattern a;b with action and datagen, stream a b, two cycles: quiescent, one complex event *)
Example C02_example :
  let ed := ED (CD [(1, [PD 1 [BD [PDataEq 1] 1 false false false false; BD [PDataEq 2] 2 false false false false]
                          [] [] false])] 0 100) 0 0 0 0 true true [(1, 77)] [(1, (5, true, 9))] in
  let s := apply_ops (mk_cfg (ed_cfg ed)) (mk_ecfg ed) e_init [EAdd 1; EAdd 2; EUpdate; EUpdate; EUpdate] in
  quiescent s /\ length (g_complex (gh s)) = 1%nat /\ length (g_aevents (gh s)) = 1%nat.
Proof. vm_compute. repeat split. Qed.
