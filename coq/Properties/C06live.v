(* C06  Link failures lose nothing - the HEALING half:
     "once connectivity returns ... each local run change is either delivered later from the per-peer backlog or
      superseded by a full state transfer, so that ... no run is left stale, missing or resurrected."
   Statements only.  Safety half (knowledge invariant, resync before incremental, supersession): Properties/C06.v.
   Models: Model/Replication.v (one BoboDistributedTCP instance, small-step, every interleaving of its outgoing
   thread with the decider's enqueues and the incoming thread), Model/ReplicationLive.v (vocabulary below),
   Model/Decider.v + the status lattice of C04 (Model/Converge.v, Model/ConvergeC.v) for the receiver.
   Proofs: Proofs/ReplicationLive.v, examples Proofs/ReplicationLiveEx.v.

   Vocabulary (Model/ReplicationLive.v).  i is the instance g, j one of its peers.
     healing point   a reachable state g0 in which i's outgoing loop is at the top of an iteration (g_pc = PIdle).
                     (If the link comes back in the middle of an iteration, take the end of that iteration.)
                     L = length (g_queue g0); "reported before the healing point" = listed in g_emitted g0.
     heal_ok j       one action of the healing phase: the clock does not step back, and IF the action hands a message
                     for j to the socket layer THEN it is delivered (outcome 0).  Nothing else is assumed: new local
                     changes are enqueued at any point, RESETs and address changes are handled at any point,
                     sends to other peers fail in any way, the snapshot is arbitrary.
     due_at          the clock premise the code needs, evaluated when the decision for j is taken (the step that
                     reads last_attempt of j): with cr = now - last_comms (as read), ar = now - last_attempt,
                         cr has reached period_resync  ->  ar has reached attempt_resync
                         otherwise                     ->  the iteration holds a queue item, or j's backlog is
                                                           empty, or ar has reached attempt_stash
                     ("reached" under the threshold convention of the code, `>=` in the pinned and repaired trees).
                     due_ok: due_at holds at every decision for j of the phase.
     iters           number of iterations started in the phase; the phase ends at the top of an iteration, so this is
                     the number of COMPLETE iterations.
     track           (r, d): r = L minus the iterations started so far (not below 0); d becomes true when an iteration
                     that started with r <= 1 takes its decision for j with due_at true.
     delivered_to g j idx n   (Model/Replication.v) some message that reached the socket layer for j covers the
                     idx-th reported note n: a SYNC containing n, or a RESYNC whose snapshot was taken after n was
                     reported.   vacuous n: n names no run at all.
   All theorems are about the REPAIRED step order (fixed = true: the tree after the fix of D9, which is what /repo
   runs; the harness infers the order from the code's behaviour on every run).  The pinned order does not satisfy the
   knowledge invariant they start from (C06_lost_note_refuted). *)
From Bobo Require Import Base.Prelude Base.History Model.Pattern Model.Run Model.Decider Model.PredLang Model.Converge Model.ConvergeC.
From Bobo Require Import Proofs.DeciderLemmas Proofs.DeciderProofs Proofs.RemoteProofs Proofs.ConvergeProofs
                         Proofs.JoinProofs Proofs.LocalProofs.
From Bobo Require Import Model.Outgoing Model.Replication Model.ReplicationLive.
From Bobo Require Import Proofs.OutgoingProofs Proofs.ReplicationProofs Proofs.ReplicationLive Proofs.ReplicationLiveEx.

(* ---- (1) heal_progress: bounded progress.  From any reachable healing point, for EVERY interleaving of the
   healing phase (enqueues keep arriving), if every decision for j finds the retry intervals elapsed, then after
   max(L,1) complete iterations - or any larger number - every note reported before the healing point has been
   delivered to j, in a SYNC or covered by a later RESYNC, and j's backlog is empty.
   Why max(L,1): each iteration takes exactly one queue item; the iteration that takes the k-th item sends it to j
   together with the whole backlog (or a RESYNC if j is in the RESYNC period); with an empty queue one iteration
   flushes the backlog / sends the RESYNC. *)
Theorem C06_heal_progress :
  forall (c : tcfg) (j : nat) (ps : list peer) (q : list Outgoing.note) (clock : Z) (g0 : gstate) (acts : list act),
    (forall k p, nth_error ps k = Some p -> 0 <= lc p) ->
    reach true c act_ok (ginit ps q clock) g0 -> g_pc g0 = PIdle -> (j < length (g_peers g0))%nat ->
    sched_ok (heal_ok j) true c g0 acts -> sched_ok (due_ok c j) true c g0 acts ->
    g_pc (mrun true c g0 acts) = PIdle ->
    (Nat.max (length (g_queue g0)) 1 <= iters c g0 acts)%nat ->
    forall p, nth_error (g_peers (mrun true c g0 acts)) j = Some p ->
      stash_empty p /\
      forall idx n, nth_error (g_emitted g0) idx = Some n -> delivered_to (mrun true c g0 acts) j idx n \/ vacuous n.
Proof. exact heal_progress. Qed.
Print Assumptions C06_heal_progress.

(* ---- (1') the same without assuming the clock premise at every iteration: iterations whose decision for j is held
   back by attempt_resync / attempt_stash are allowed anywhere in the phase (they do no harm and no good); what is
   needed is ONE iteration, the max(L,1)-th or a later one, whose decision for j has due_at true - that is exactly
   `snd (track ...) = true`.  This is the form the harness compares the real loop with (its healing schedules
   advance the clock by 1 s per round at first, so most iterations are not "due"). *)
Theorem C06_heal_progress_general :
  forall (c : tcfg) (j : nat) (ps : list peer) (q : list Outgoing.note) (clock : Z) (g0 : gstate) (acts : list act),
    (forall k p, nth_error ps k = Some p -> 0 <= lc p) ->
    reach true c act_ok (ginit ps q clock) g0 -> g_pc g0 = PIdle -> (j < length (g_peers g0))%nat ->
    sched_ok (heal_ok j) true c g0 acts ->
    g_pc (mrun true c g0 acts) = PIdle ->
    snd (track c j g0 acts (length (g_queue g0), false)) = true ->
    forall p, nth_error (g_peers (mrun true c g0 acts)) j = Some p ->
      stash_empty p /\
      forall idx n, nth_error (g_emitted g0) idx = Some n -> delivered_to (mrun true c g0 acts) j idx n \/ vacuous n.
Proof. exact heal_progress_track. Qed.
Print Assumptions C06_heal_progress_general.

(* the two forms are connected by: all decisions due + max(L,1) iterations  =>  d = true *)
Theorem C06_heal_bound :
  forall (c : tcfg) (j : nat) (g0 : gstate) (acts : list act),
    g_pc g0 = PIdle -> (j < length (g_peers g0))%nat ->
    sched_ok (due_ok c j) true c g0 acts ->
    g_pc (mrun true c g0 acts) = PIdle ->
    (Nat.max (length (g_queue g0)) 1 <= iters c g0 acts)%nat ->
    snd (track c j g0 acts (length (g_queue g0), false)) = true.
Proof. exact track_all_due. Qed.
Print Assumptions C06_heal_bound.

(* ---- (1'') j is not owed a RESYNC afterwards.  If in addition the incoming thread handles no RESET from j during
   the phase (a RESET handled after j's bookkeeping of the last iteration legitimately puts j back into the RESYNC
   period - the next iteration then sends the snapshot) and period_resync > 0, then at the end of the phase j is within
   the resynchronisation period, measured with the clock reading the last iteration decided with (g_now).
   General form: u = ctrack ... says that the last iteration's decision for j was due and no RESET from j was handled
   since that iteration began. *)
Theorem C06_heal_contact :
  forall (c : tcfg) (j : nat) (ps : list peer) (q : list Outgoing.note) (clock : Z) (g0 : gstate) (acts : list act),
    0 < p_resync c ->
    (forall k p, nth_error ps k = Some p -> 0 <= lc p) ->
    reach true c act_ok (ginit ps q clock) g0 -> g_pc g0 = PIdle -> (j < length (g_peers g0))%nat ->
    sched_ok (heal_ok j) true c g0 acts -> sched_ok (due_ok c j) true c g0 acts -> sched_ok (no_reset j) true c g0 acts ->
    g_pc (mrun true c g0 acts) = PIdle -> (1 <= iters c g0 acts)%nat ->
    forall p, nth_error (g_peers (mrun true c g0 acts)) j = Some p ->
      reached (cv_pr c) (g_now (mrun true c g0 acts) - lc p) (p_resync c) = false.
Proof. exact heal_contact_simple. Qed.
Print Assumptions C06_heal_contact.

Theorem C06_heal_contact_general :
  forall (c : tcfg) (j : nat), 0 < p_resync c ->
  forall (ps : list peer) (q : list Outgoing.note) (clock : Z) (g0 : gstate) (acts : list act),
    (forall k p, nth_error ps k = Some p -> 0 <= lc p) ->
    reach true c act_ok (ginit ps q clock) g0 -> g_pc g0 = PIdle -> (j < length (g_peers g0))%nat ->
    sched_ok (heal_ok j) true c g0 acts ->
    g_pc (mrun true c g0 acts) = PIdle ->
    ctrack c j g0 acts false = true ->
    forall p, nth_error (g_peers (mrun true c g0 acts)) j = Some p ->
      reached (cv_pr c) (g_now (mrun true c g0 acts) - lc p) (p_resync c) = false.
Proof. exact heal_contact. Qed.
Print Assumptions C06_heal_contact_general.

(* ---- (2) what the receiver holds.
   The outgoing model never looks into a note, so the numbers in a note may be read as LABELS OF RUN RECORDS:
   tbl : label -> record; conc tbl n is the decider-level message a note / payload n denotes.
   The receiver j is any run `rrun` of the decider model from a state satisfying the run-table invariant: local events
   and messages from anyone in any order (each with room in the finished-run memory, well-formed and owned, as in
   C04); ms = the messages it has applied.  Two interface premises tie sender, network and receiver together (both are
   checked by the harness on every schedule it explores, see harness/pC06.py):
     applied_all      every SYNC / RESYNC of i that names a run and reached the socket layer for j has been applied by j (the
                      network delivers what it accepted; _tcp_incoming queues it; _update applies it);
     snapshots_cover  every fact of a note reported before a snapshot was taken is matched in the snapshot by a
                      fact about the same run that is at least as advanced (C12: a run only moves forward at its
                      owner; finished runs are remembered - memory enabled and large enough).  It is PROVED from
                      the wiring of decider and tcp at the sender in (2'') below, and checked as it stands as well.
   Statement in the status lattice of C04 (Absent < Active(block, events) < Halted < Completed): for every note
   that (1) shows delivered, the receiver's status of every run named in it is at least the status the note reports. *)
Theorem C06_delivered_reaches_receiver :
  forall (E : Type) (owner : Z -> Z * Z) (cfg : Decider.config E) (tbl : Z -> rserial E) (i j : nat),
    (forall ph pat p, get_pattern cfg ph pat = Some p -> p_single p = false) -> cfg_wf E cfg -> c_maxcache cfg <> O ->
    forall (g : gstate) (sj0 : dstate E) (ms : list (Decider.note E)) (sj : dstate E),
      rgood E owner cfg sj0 -> rrun E owner cfg sj0 ms sj ->
      applied_all E tbl j g ms -> snapshots_cover E tbl i j g ->
      forall idx n, nth_error (g_emitted g) idx = Some n -> delivered_to g j idx n \/ vacuous n ->
      forall f, In f (mfacts i (conc E tbl n)) -> st_le (snd f) (cstatus owner sj (snd (fst f))) = true.
Proof. exact delivered_reaches. Qed.
Print Assumptions C06_delivered_reaches_receiver.

(* ---- (2') both halves, in the property's words.  After the healing phase (max(L,1) complete iterations with the
   retry intervals elapsed), for every note n the sender reported before the healing point:
     every run n reports completed is remembered as completed by the receiver;
     every run n reports halted is remembered by the receiver (as halted or completed);
     every run n reports active (updated) is finished at the receiver (remembered) or ACTIVE WITH THE SAME ID AT
     LEAST AS FAR (a later block, or the same block with at least as many accepted events) -
   nothing stale, nothing missing; with C05 (a remembered run is never active again) nothing resurrected.
   Finished-run memory enabled (c_maxcache <> 0) and large enough (`room` at every step of rrun), non-singleton. *)
Theorem C06_heal_receiver :
  forall (E : Type) (owner : Z -> Z * Z) (cfg : Decider.config E) (tbl : Z -> rserial E) (i : nat)
         (c : tcfg) (j : nat) (ps : list peer) (q : list Outgoing.note) (clock : Z) (g0 : gstate) (acts : list act)
         (sj0 : dstate E) (ms : list (Decider.note E)) (sj : dstate E),
    (forall ph pat p, get_pattern cfg ph pat = Some p -> p_single p = false) -> cfg_wf E cfg -> c_maxcache cfg <> O ->
    (forall k p, nth_error ps k = Some p -> 0 <= lc p) ->
    reach true c act_ok (ginit ps q clock) g0 -> g_pc g0 = PIdle -> (j < length (g_peers g0))%nat ->
    sched_ok (heal_ok j) true c g0 acts -> sched_ok (due_ok c j) true c g0 acts ->
    g_pc (mrun true c g0 acts) = PIdle ->
    (Nat.max (length (g_queue g0)) 1 <= iters c g0 acts)%nat ->
    rgood E owner cfg sj0 -> rrun E owner cfg sj0 ms sj ->
    applied_all E tbl j (mrun true c g0 acts) ms -> snapshots_cover E tbl i j (mrun true c g0 acts) ->
    forall idx n, nth_error (g_emitted g0) idx = Some n ->
      (forall rc, In rc (n_comp (conc E tbl n)) -> zmem (s_id rc) (ids_of (d_cc sj)) = true) /\
      (forall rc, In rc (n_halt (conc E tbl n)) -> remembered E sj (s_id rc) = true) /\
      (forall rc, In rc (n_upd (conc E tbl n)) -> remembered E sj (s_id rc) = true \/ at_least E owner sj rc).
Proof. exact heal_receiver. Qed.
Print Assumptions C06_heal_receiver.

(* ... and with the clock premise needed once only (form (1')) *)
Theorem C06_heal_receiver_general :
  forall (E : Type) (owner : Z -> Z * Z) (cfg : Decider.config E) (tbl : Z -> rserial E) (i : nat)
         (c : tcfg) (j : nat) (ps : list peer) (q : list Outgoing.note) (clock : Z) (g0 : gstate) (acts : list act)
         (sj0 : dstate E) (ms : list (Decider.note E)) (sj : dstate E),
    (forall ph pat p, get_pattern cfg ph pat = Some p -> p_single p = false) -> cfg_wf E cfg -> c_maxcache cfg <> O ->
    (forall k p, nth_error ps k = Some p -> 0 <= lc p) ->
    reach true c act_ok (ginit ps q clock) g0 -> g_pc g0 = PIdle -> (j < length (g_peers g0))%nat ->
    sched_ok (heal_ok j) true c g0 acts ->
    g_pc (mrun true c g0 acts) = PIdle ->
    snd (track c j g0 acts (length (g_queue g0), false)) = true ->
    rgood E owner cfg sj0 -> rrun E owner cfg sj0 ms sj ->
    applied_all E tbl j (mrun true c g0 acts) ms -> snapshots_cover E tbl i j (mrun true c g0 acts) ->
    forall idx n, nth_error (g_emitted g0) idx = Some n ->
      (forall rc, In rc (n_comp (conc E tbl n)) -> zmem (s_id rc) (ids_of (d_cc sj)) = true) /\
      (forall rc, In rc (n_halt (conc E tbl n)) -> remembered E sj (s_id rc) = true) /\
      (forall rc, In rc (n_upd (conc E tbl n)) -> remembered E sj (s_id rc) = true \/ at_least E owner sj rc).
Proof. exact heal_receiver_track. Qed.
Print Assumptions C06_heal_receiver_general.

(* ---- (2'') the sender's half of "superseded by a full state transfer", proved rather than assumed.
   snapshots_cover is a statement about the SENDER's decider.  Let the sender be a run `srun` of the decider model as
   well (local events, each reporting a note; messages from anyone; memory with room, notes owned), wired to its tcp
   layer as the code wires them (sender_wired): the notes handed to on_decider_update are the decider's notes in
   order, and a RESYNC payload is decider.snapshot() taken when exactly s_seen notes had been reported.  Then every
   snapshot covers every earlier note: a local step's note holds in the state it leads to (local_note_reached), later
   steps only move statuses up (C04 P1 / P2), and a snapshot says of every run exactly what the decider holds
   (snapshot_truthful). *)
Theorem C06_sender_snapshots_cover :
  forall (E : Type) (owner : Z -> Z * Z) (cfgS : Decider.config E) (tbl : Z -> rserial E) (i j : nat),
    (forall ph pat p, get_pattern cfgS ph pat = Some p -> p_single p = false) -> cfg_wf E cfgS -> c_maxcache cfgS <> O ->
    forall (g : gstate) (si0 : dstate E),
      rgood E owner cfgS si0 -> sender_wired E owner cfgS tbl j g si0 -> snapshots_cover E tbl i j g.
Proof. exact wired_snapshots_cover. Qed.
Print Assumptions C06_sender_snapshots_cover.

(* (2') with that premise replaced by the wiring: both deciders are runs of the decider model; what remains assumed
   is the plumbing - the receiver has applied what the network delivered (applied_all), the sender's tcp layer is fed
   by its decider (sender_wired) *)
Theorem C06_heal_receiver_wired :
  forall (E : Type) (owner : Z -> Z * Z) (cfg : Decider.config E) (tbl : Z -> rserial E) (i : nat)
         (c : tcfg) (j : nat) (cfgS : Decider.config E)
         (ps : list peer) (q : list Outgoing.note) (clock : Z) (g0 : gstate) (acts : list act)
         (sj0 : dstate E) (ms : list (Decider.note E)) (sj si0 : dstate E),
    (forall ph pat p, get_pattern cfg ph pat = Some p -> p_single p = false) -> cfg_wf E cfg -> c_maxcache cfg <> O ->
    (forall ph pat p, get_pattern cfgS ph pat = Some p -> p_single p = false) -> cfg_wf E cfgS -> c_maxcache cfgS <> O ->
    (forall k p, nth_error ps k = Some p -> 0 <= lc p) ->
    reach true c act_ok (ginit ps q clock) g0 -> g_pc g0 = PIdle -> (j < length (g_peers g0))%nat ->
    sched_ok (heal_ok j) true c g0 acts -> sched_ok (due_ok c j) true c g0 acts ->
    g_pc (mrun true c g0 acts) = PIdle ->
    (Nat.max (length (g_queue g0)) 1 <= iters c g0 acts)%nat ->
    rgood E owner cfg sj0 -> rrun E owner cfg sj0 ms sj ->
    applied_all E tbl j (mrun true c g0 acts) ms ->
    rgood E owner cfgS si0 -> sender_wired E owner cfgS tbl j (mrun true c g0 acts) si0 ->
    forall idx n, nth_error (g_emitted g0) idx = Some n ->
      (forall rc, In rc (n_comp (conc E tbl n)) -> zmem (s_id rc) (ids_of (d_cc sj)) = true) /\
      (forall rc, In rc (n_halt (conc E tbl n)) -> remembered E sj (s_id rc) = true) /\
      (forall rc, In rc (n_upd (conc E tbl n)) -> remembered E sj (s_id rc) = true \/ at_least E owner sj rc).
Proof. exact heal_receiver_wired. Qed.
Print Assumptions C06_heal_receiver_wired.

Theorem C06_heal_receiver_wired_general :
  forall (E : Type) (owner : Z -> Z * Z) (cfg : Decider.config E) (tbl : Z -> rserial E) (i : nat)
         (c : tcfg) (j : nat) (cfgS : Decider.config E)
         (ps : list peer) (q : list Outgoing.note) (clock : Z) (g0 : gstate) (acts : list act)
         (sj0 : dstate E) (ms : list (Decider.note E)) (sj si0 : dstate E),
    (forall ph pat p, get_pattern cfg ph pat = Some p -> p_single p = false) -> cfg_wf E cfg -> c_maxcache cfg <> O ->
    (forall ph pat p, get_pattern cfgS ph pat = Some p -> p_single p = false) -> cfg_wf E cfgS -> c_maxcache cfgS <> O ->
    (forall k p, nth_error ps k = Some p -> 0 <= lc p) ->
    reach true c act_ok (ginit ps q clock) g0 -> g_pc g0 = PIdle -> (j < length (g_peers g0))%nat ->
    sched_ok (heal_ok j) true c g0 acts ->
    g_pc (mrun true c g0 acts) = PIdle ->
    snd (track c j g0 acts (length (g_queue g0), false)) = true ->
    rgood E owner cfg sj0 -> rrun E owner cfg sj0 ms sj ->
    applied_all E tbl j (mrun true c g0 acts) ms ->
    rgood E owner cfgS si0 -> sender_wired E owner cfgS tbl j (mrun true c g0 acts) si0 ->
    forall idx n, nth_error (g_emitted g0) idx = Some n ->
      (forall rc, In rc (n_comp (conc E tbl n)) -> zmem (s_id rc) (ids_of (d_cc sj)) = true) /\
      (forall rc, In rc (n_halt (conc E tbl n)) -> remembered E sj (s_id rc) = true) /\
      (forall rc, In rc (n_upd (conc E tbl n)) -> remembered E sj (s_id rc) = true \/ at_least E owner sj rc).
Proof. exact heal_receiver_wired_track. Qed.
Print Assumptions C06_heal_receiver_wired_general.

(* ---- non-vacuity: every premise of each theorem is discharged for a concrete schedule with a failure, the healing
   point and the iterations, and the conclusion is shown on the concrete log (Proofs/ReplicationLiveEx.v).
   One peer, default periods (30, 60, 5, 5, 10). *)
(* A (C06_heal_progress, C06_heal_bound, C06_heal_contact).  Change 7 is reported, its SYNC at 1001 is refused
   (backlog); change 8 is reported.  Healing point: queue length 1.  ONE iteration at 1007, during which change 9 is
   reported: a single SYNC carries 8 (the item) and 7 (the backlog), the backlog is empty, the peer is in contact,
   change 9 waits in the queue. *)
Example C06_example_heal_backlog :
  let g := mrun true lv_cfg lv_g0A lv_healA in
  g_emitted lv_g0A = [lv_n1; lv_n2] /\ length (g_queue lv_g0A) = 1%nat /\ iters lv_cfg lv_g0A lv_healA = 1%nat /\
  (forall p, nth_error (g_peers g) 0 = Some p ->
     stash_empty p /\ reached (cv_pr lv_cfg) (g_now g - lc p) (p_resync lv_cfg) = false /\
     forall idx n, nth_error (g_emitted lv_g0A) idx = Some n -> delivered_to g 0 idx n \/ vacuous n) /\
  g_queue g = [lv_n3] /\
  map (fun e => match e with HAtt a => (mode_code (s_mode a), s_err a, s_pay a) | HReset _ => (-1, 0%nat, empty_note) end)
      (g_log g) = [(0, 0%nat, Outgoing.mkNote [] [] [8; 7]); (0, 2%nat, lv_n1)].
Proof. exact heal_exampleA. Qed.

(* B (C06_heal_progress_general, C06_heal_contact_general).  The SYNC of change 7 is refused at 1001, the retry of the
   backlog times out at 1058.  Healing point: queue empty, so max(L,1) = 1.  The iteration at 1062 finds the peer in the
   RESYNC period only 4 s after the last attempt: nothing is sent, d stays false.  Change 8 is reported.  The
   iteration at 1070 delivers a RESYNC whose snapshot was taken after 2 notes had been reported: d = true. *)
Example C06_example_heal_resync :
  let g := mrun true lv_cfg lv_g0B lv_healB in
  g_emitted lv_g0B = [lv_n1] /\ length (g_queue lv_g0B) = 0%nat /\ iters lv_cfg lv_g0B lv_healB = 2%nat /\
  track lv_cfg 0 lv_g0B (repeat lv_wait 4) (0%nat, false) = (0%nat, false) /\
  track lv_cfg 0 lv_g0B lv_healB (0%nat, false) = (0%nat, true) /\
  (forall p, nth_error (g_peers g) 0 = Some p ->
     stash_empty p /\ reached (cv_pr lv_cfg) (g_now g - lc p) (p_resync lv_cfg) = false /\
     forall idx n, nth_error (g_emitted lv_g0B) idx = Some n -> delivered_to g 0 idx n \/ vacuous n) /\
  map (fun e => match e with HAtt a => (mode_code (s_mode a), s_err a, s_seen a) | HReset _ => (-1, 0%nat, 0%nat) end)
      (g_log g) = [(2, 0%nat, 2%nat); (0, 1%nat, 1%nat); (0, 2%nat, 1%nat)].
Proof. exact heal_exampleB. Qed.

(* the receiver of A (C06_heal_receiver, C06_delivered_reaches_receiver): pattern 1 ; 2 ; 3, label 7 = run 1000
   after its first event, label 8 = the same run after its second event; an empty receiver that applies the SYNC
   delivered at 1007 holds run 1000 at block 2 - at least as far as change 8 reported it *)
Example C06_example_heal_receiver :
  (forall rc, In rc (n_upd (conc PredLang.ev lv_tbl lv_n2)) ->
     remembered PredLang.ev lv_sj (s_id rc) = true \/ at_least PredLang.ev lv_owner lv_sj rc) /\
  map (fun r => (r_id r, r_idx r)) (rt_all (d_runs lv_sj)) = [(1000, 2%nat)].
Proof. exact heal_example_receiver. Qed.

(* C (C06_heal_receiver_wired_general, C06_sender_snapshots_cover): the outage of B with real deciders on both sides.
   The sender's decider processed data 1 before the outage (note = label 7: run 1000 at block 1) and processes data 2
   during the healing phase (label 8: block 2); the RESYNC at 1070 carries decider.snapshot() = run 1000 at block 2.
   An empty receiver that applies it holds run 1000 at block 2 - at least as far as the note of before the healing
   point.  All premises (wiring, applied_all, both run-table invariants, memory, schedule) are discharged. *)
Example C06_example_heal_wired :
  (forall rc, In rc (n_upd (conc PredLang.ev lv_tbl lv_n1)) ->
     remembered PredLang.ev lv_sjC (s_id rc) = true \/ at_least PredLang.ev lv_owner lv_sjC rc) /\
  map (fun rc => (s_id rc, s_idx rc)) (n_upd (conc PredLang.ev lv_tbl lv_n1)) = [(1000, 1%nat)] /\
  map (fun r => (r_id r, r_idx r)) (rt_all (d_runs lv_sjC)) = [(1000, 2%nat)].
Proof. exact heal_example_wired. Qed.
