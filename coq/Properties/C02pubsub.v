(* C02, the wiring underneath the 1:1:1 relation: a task subscribed to another any number of times is called back
   once per notification.  Statements only. *)
From Bobo Require Import Base.Prelude Model.PubSub Proofs.PubSubProofs.

(* For every sequence of subscribe() calls on one publisher (a pipeline wired by hand and then handed to BoboEngine,
   a second BoboEngine around the same tasks, ...): one notification calls every subscriber back exactly once ... *)
Theorem C02_one_callback_per_subscriber : forall (calls : list Z) (x : Z),
  In x calls -> count_occ Z.eq_dec (publish (subscribe_all true calls)) x = 1%nat.
Proof. exact one_callback_per_subscriber. Qed.
Print Assumptions C02_one_callback_per_subscriber.

(* ... and nobody who did not subscribe. *)
Theorem C02_nobody_else_is_called : forall (calls : list Z) (x : Z),
  ~ In x calls -> count_occ Z.eq_dec (publish (subscribe_all true calls)) x = 0%nat.
Proof. exact nobody_else_is_called. Qed.
Print Assumptions C02_nobody_else_is_called.

(* Appending without the membership test is refuted: the producer subscribed twice to the decider hears every
   completed run twice. *)
Theorem C02_subscribe_without_test_refuted :
  publish (subscribe_all false [7; 7]) = [7; 7] /\ publish (subscribe_all true [7; 7]) = [7].
Proof. exact append_without_test_calls_twice. Qed.
Print Assumptions C02_subscribe_without_test_refuted.

Example C02_pubsub_example : run_C02_pubsub [3; 1; 3; 2; 1; 3] = [3; 1; 2].
Proof. vm_compute. reflexivity. Qed.
