(* C07  A restarted instance recovers every partial run from a survivor.
   Statements only.  Model: Model/Replication.v - one BoboDistributedTCP instance as a small-step system whose
   outgoing thread (start; per peer: last_comms read, last_attempt read, [pinned order: Queue.empty() read],
   mode chosen; per chosen peer: flag read and message built, _tcp_send, last_comms written + flag cleared,
   last_attempt written) is interleaved with the decider's enqueues (XEnq) and with the incoming thread
   (XAddr: address refreshed; XReset j: a RESET-flagged message of peer j handled -> clear_last).  The real
   thread scheduler is modelled by these interleaving semantics (PARTIAL in that sense); granularity: each
   individually locked BoboDeviceManager accessor, each Queue operation.  Proofs: Proofs/ReplicationProofs.v,
   Proofs/ReplicationDecider.v.

   A crash of instance k "at any point" is, for a survivor, nothing but the arrival of k's RESET-flagged message
   at an arbitrary point of the survivor's schedule, and for k the start from the initial state (every
   last_comms = last_attempt = 0, every reset flag set, empty decider): both are quantified over below.

   The window of peer j (in_window g j): the outgoing thread has read last_comms of j for its decision and has
   not yet written last_comms of j in the bookkeeping of that iteration (or decided not to send to j).
   race_free: no RESET from j is handled while the survivor is inside the window of j.  The complement is the
   known finding D10, signature reset-arrives-between-decision-and-bookkeeping (C07_reset_race_refuted). *)
From Bobo Require Import Base.Prelude Base.History Model.Pattern Model.Run Model.Decider Model.PredLang.
From Bobo Require Import Proofs.DeciderLemmas Proofs.DeciderProofs Proofs.RemoteProofs Proofs.ReplicationDecider.
From Bobo Require Import Model.Outgoing Model.Replication Proofs.OutgoingProofs Proofs.ReplicationProofs.

(* ---- restart_sequential (transport).  For the pinned and the repaired order of _tcp_outgoing alike, for every
   configuration, every initial state, every schedule whose clock readings are real ones (beyond the two resync
   parameters, as seconds since 1970 are) and in which no RESET is handled inside the sender's window:
   SURVIVOR:  every message attempted to peer j whose predecessor (among the events concerning j) is a handled
              RESET of j is a RESYNC (resets_answered) - it carries decider.snapshot() taken when it was built
              (C07_resync_carries_snapshot);
   RESTARTED: starting with last_comms = 0 and the reset flag set for every peer, the first message attempted to
              each peer is a RESYNC (first_is_resync), and every message attempted to a peer up to and including
              the first delivered one carries the RESET flag (flag_kept): the restart is announced. *)
Theorem C07_restart_sequential : forall (fixed : bool) (c : tcfg),
  (forall ps q clock j g,
     reach fixed c (fun g a => act_real c g a /\ race_free g a) (ginit ps q clock) g ->
     resets_answered j (g_log g)) /\
  (forall ps q clock g,
     (forall j p, nth_error ps j = Some p -> lc p = 0 /\ fr p = true) ->
     reach fixed c (fun g a => act_real c g a /\ race_free g a) (ginit ps q clock) g ->
     forall j, first_is_resync j (g_log g) /\ flag_kept j (g_log g)).
Proof. exact restart_sequential. Qed.
Print Assumptions C07_restart_sequential.

(* the flag rule needs no premise on the schedule at all: any interleaving, any faults, any clock *)
Theorem C07_flag_until_first_delivery : forall fixed c ps q clock j g,
  (forall p, nth_error ps j = Some p -> fr p = true) ->
  reach fixed c (fun _ _ => True) (ginit ps q clock) g -> flag_kept j (g_log g).
Proof. exact flag_until_first_delivery. Qed.
Print Assumptions C07_flag_until_first_delivery.

Theorem C07_resync_carries_snapshot : forall snap cn p, payload RESYNC snap cn p = snap.
Proof. exact resync_carries_snapshot. Qed.
Print Assumptions C07_resync_carries_snapshot.

(* ---- restart_sequential (state).  The restarted instance has an empty decider.  After it has applied a
   survivor's snapshot m it holds EXACTLY the survivor's partially completed runs: every run m reports as active
   (known, non-singleton pattern; not also listed as finished) is active with the same id at least as far, and
   every run it holds is one that m reports as active.  Holding the same run at the same position with the
   same history it completes it as the survivor would (C01/C03: a step depends on the run table only). *)
Theorem C07_fresh_restores : forall (E : Type) (cfg : config E) (m n : Decider.note E) (s' : dstate E),
  remote_apply cfg d_init m = (s', n) ->
  (forall rc p, In rc (n_upd m) -> get_pattern cfg (s_ph rc) (s_pat rc) = Some p -> p_single p = false ->
                ~ In (s_id rc) (ids_of (n_comp m)) -> ~ In (s_id rc) (ids_of (n_halt m)) ->
                holds_active E (d_runs s') rc) /\
  (forall ph pat r', In r' (bucket ph pat (d_runs s')) ->
                     exists rc, In rc (n_upd m) /\ s_id rc = r_id r' /\
                                ~ In (r_id r') (ids_of (n_comp m)) /\ ~ In (r_id r') (ids_of (n_halt m))).
Proof. exact fresh_restores. Qed.
Print Assumptions C07_fresh_restores.

(* ---- reset_race_refuted (D10, known finding).  Without race_free the survivor statement is false, also on the
   repaired order: the survivor has one change to send to the restarted peer, which it believes to be in contact.
     start . last_comms read (2000) . last_attempt read -> SYNC . message built . sent and delivered .
     [incoming thread: RESET of the peer handled, clear_last] . last_comms := 2005 . last_attempt := 2005
   The schedule is admissible (real clock), the RESET falls inside the window, and afterwards last_comms reads
   `now`: the log shows the RESET followed by nothing - no RESYNC was chosen, and twelve more steps of the
   outgoing thread 25 seconds later send nothing at all.  The announcement is lost (the peer has cleared its
   flag: its message was delivered). *)
Theorem C07_reset_race_refuted :
  exists fixed c ps q acts,
    sched_ok (act_real c) fixed c (ginit ps q 2000) acts /\
    let g := mrun fixed c (ginit ps q 2000) acts in
    g_pc g = PIdle /\
    (exists pre post, acts = pre ++ XReset 0%nat :: post /\ in_window (mrun fixed c (ginit ps q 2000) pre) 0) /\
    map lc (g_peers g) = [2005] /\
    map (fun e => match e with HAtt a => mode_code (s_mode a) | HReset _ => -1 end) (g_log g) = [-1; 0] /\
    g_log (mrun fixed c g (repeat s2 12)) = g_log g.
Proof. exact reset_race_refuted. Qed.
Print Assumptions C07_reset_race_refuted.

(* ---- non-vacuity *)
(* the same survivor with the RESET handled before its iteration starts (race-free): the next and only message
   is a RESYNC carrying the snapshot *)
Example C07_example_restart :
  reach true d10_cfg (fun g a => act_real d10_cfg g a /\ race_free g a) (ginit d10_peers [d10_note] 2000)
        (mrun true d10_cfg (ginit d10_peers [d10_note] 2000) d10_sched_ok) /\
  map (fun e => match e with HAtt a => (mode_code (s_mode a), s_pay a) | HReset _ => (-1, empty_note) end)
      (g_log (mrun true d10_cfg (ginit d10_peers [d10_note] 2000) d10_sched_ok))
  = [(2, Outgoing.mkNote [] [] [3; 7]); (-1, empty_note)].
Proof. exact restart_example. Qed.

(* a restarted instance with two peers at second 5000: both first messages are RESYNCs carrying RESET; the one
   to peer 0 fails and is retried (still flagged) 10 s later; the PING to peer 1 that follows carries no flag *)
Example C07_example_restarted :
  map (fun e => match e with EAtt a => [n2z (at_peer a); mode_code (at_mode a); at_dec a; b2z (at_flag a); n2z (at_err a)]
                           | EReset _ => [] end)
      (log_of (Outgoing.mkCfg 30 60 5 5 10 (true, true, true, true, true))
              (mkO [mkPeer 0 0 true [] [] [] 7; mkPeer 0 0 true [] [] [] 8] [])
              [AIter 5000 empty_note [(2, 5000); (0, 5000)]; AIter 5005 empty_note [(0, 5005); (0, 5005)];
               AIter 5010 empty_note [(0, 5010); (0, 5010)]; AIter 5031 empty_note [(0, 5031); (0, 5031)]])
  = [[0; 2; 5000; 1; 2]; [1; 2; 5000; 1; 0]; [0; 2; 5010; 1; 0]; [1; 1; 5031; 0; 0]].
Proof. vm_compute. reflexivity. Qed.

(* fresh_restores: pattern 1 ; 2 ; 3, the survivor has seen 1 and 2; the restarted instance applies the snapshot
   and then completes the run on 3 with the full history *)
Definition c07_cd : cdesc :=
  CD [(1, [PD 1 [BD [PDataEq 1] 1 false false false false; BD [PDataEq 2] 2 false false false false;
                 BD [PDataEq 3] 3 false false false false] [] [] false])] 50 1000.
Example C07_example_recover :
  match local_step (mk_cfg c07_cd) d_init (mkEv 0 0 0 1 0 0) with
  | Ok (s1, _) =>
      match local_step (mk_cfg c07_cd) s1 (mkEv 1 1 0 2 0 0) with
      | Ok (s2, _) =>
          let fresh := fst (remote_apply (mk_cfg c07_cd) d_init (snapshot s2)) in
          match local_step (mk_cfg c07_cd) fresh (mkEv 2 2 0 3 0 0) with
          | Ok (_, n) => map (fun rc => (s_id rc, s_idx rc, hsize (s_hist rc))) (n_comp n) = [(1000, 3%nat, 3%nat)]
          | Exn _ => False
          end
      | Exn _ => False
      end
  | Exn _ => False
  end.
Proof. vm_compute. reflexivity. Qed.
