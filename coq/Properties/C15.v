(* C15  SYNC, PING and RESYNC are chosen and retried as documented.
   Statements only; proofs are in Proofs/OutgoingProofs.v, the model (of bobocep/dist/tcp.py _tcp_outgoing,
   _tcp_send, on_decider_update, the RESET handling of _tcp_incoming_handle_client, and devman.py) is
   Model/Outgoing.v.

   Every theorem holds for every threshold convention (conv c: each of the five comparisons ">=" or ">"):
   the property leaves the exact threshold second open.  Abbreviations used below, for a peer record p and
   the clock reading `now` of the iteration:  now - lc p  = time since the last successful contact,
   now - la p = time since the last attempt.  Histories (`acts`) are arbitrary sequences of
   "the decider reports changes" (AEnq), "one iteration of the outgoing loop with arbitrary clock readings,
   arbitrary send outcomes per peer and an arbitrary snapshot" (AIter) and "the incoming thread handled a
   message from a peer" (AIn); `log_of_o` is the list of send attempts and handled RESETs, oldest first.

   The property does not say when inside an iteration the queued change is taken, so the iteration is a family
   indexed by `pop_first`: false = the pinned commit (taken at the first SYNC, left queued when no SYNC goes
   out), true = the repaired order of the D9 fix (taken once at the start of the iteration, inside the locked
   decision, whether or not a SYNC goes out).  Every theorem about histories or iterations holds for BOTH
   orders; the correspondence infers which one the code uses and compares against that member. *)
From Bobo Require Import Base.Prelude Model.Outgoing Proofs.OutgoingProofs.

(* ---- mode_table: towards each peer the next message is determined by the time since the last successful
   contact.  Strictly inside the resync period only RESYNC (sent when its retry interval has passed);
   strictly inside the ping period with nothing to send PING (when its interval has passed); before the
   resync period SYNC at once when new changes are queued, and a backlog alone when its interval has passed;
   in contact with nothing to send, nothing.  The last three clauses are the only-if directions: a RESYNC is
   never chosen before the resync period, a PING only between the two periods with queue and backlog empty,
   a SYNC never after the resync period and only with something to send. *)
Theorem C15_mode_table : forall (c : tcfg) (now : Z) (queue_empty : bool) (p : peer),
  let cr := now - lc p in let ar := now - la p in let d := decide c now queue_empty p in
  (p_resync c < cr -> (a_resync c < ar -> d = Some RESYNC) /\ (ar < a_resync c -> d = None) /\
                      (forall m, d = Some m -> m = RESYNC)) /\
  (p_ping c < cr -> cr < p_resync c -> queue_empty = true -> size_stash p = 0 ->
     (a_ping c < ar -> d = Some PING) /\ (ar < a_ping c -> d = None)) /\
  (cr < p_resync c -> queue_empty = false -> d = Some SYNC) /\
  (cr < p_resync c -> queue_empty = true -> 0 < size_stash p ->
     (a_stash c < ar -> d = Some SYNC) /\ (ar < a_stash c -> d = None)) /\
  (cr < p_ping c -> cr < p_resync c -> queue_empty = true -> size_stash p = 0 -> d = None) /\
  (d = Some RESYNC -> p_resync c <= cr /\ a_resync c <= ar) /\
  (d = Some PING -> p_ping c <= cr /\ cr <= p_resync c /\ queue_empty = true /\ size_stash p = 0 /\ a_ping c <= ar) /\
  (d = Some SYNC -> cr <= p_resync c /\ (queue_empty = false \/ (0 < size_stash p /\ a_stash c <= ar))).
Proof. exact mode_table. Qed.
Print Assumptions C15_mode_table.

(* ---- retry_spacing: over ANY history (any clock, monotone or not; any outcomes; resets of other peers
   anywhere), if a1 and a2 are consecutive attempts to one peer with no RESET from that peer handled in
   between, then a2 was decided at least its type's interval after a1 finished (exactly: the threshold
   test of the convention passed on that gap) -- unless a2 is a SYNC chosen while the queue was non-empty. *)
Theorem C15_retry_spacing : forall pop_first c s acts l1 a1 l2 a2 l3,
  log_of_o pop_first c s acts = l1 ++ EAtt a1 :: l2 ++ EAtt a2 :: l3 ->
  at_peer a1 = at_peer a2 ->
  (forall e, In e l2 -> ev_peer e <> at_peer a2) ->
  let gap := at_dec a2 - at_done a1 in
  match at_mode a2 with
  | PING => reached (cv_ap c) gap (a_ping c) = true
  | RESYNC => reached (cv_ar c) gap (a_resync c) = true
  | SYNC => at_qne a2 = true \/ reached (cv_as c) gap (a_stash c) = true
  end.
Proof. exact retry_spacing. Qed.
Print Assumptions C15_retry_spacing.

(* the same in seconds, convention-free; with a clock that did not step back during the earlier send the
   bound also holds from decision to decision *)
Theorem C15_retry_spacing_seconds : forall pop_first c s acts l1 a1 l2 a2 l3,
  log_of_o pop_first c s acts = l1 ++ EAtt a1 :: l2 ++ EAtt a2 :: l3 ->
  at_peer a1 = at_peer a2 ->
  (forall e, In e l2 -> ev_peer e <> at_peer a2) ->
  (at_mode a2 = SYNC /\ at_qne a2 = true) \/
  (interval_of c (at_mode a2) <= at_dec a2 - at_done a1 /\
   (at_dec a1 <= at_done a1 -> interval_of c (at_mode a2) <= at_dec a2 - at_dec a1)).
Proof. exact retry_spacing_seconds. Qed.
Print Assumptions C15_retry_spacing_seconds.

(* ---- post_send_effects: the exact bookkeeping of one send (RESYNC clears the backlog before sending).
   last_attempt := max(0, now') always; last_comms := max(0, now') only on success; the reset flag is cleared
   only on success of a message that carried it; the address is untouched; the backlog is emptied by a
   RESYNC (whatever the outcome) and by a successful SYNC, grows by the note just tried on a failed SYNC,
   and is untouched by a PING.  Timeout (1) and system error (2) are treated alike. *)
Theorem C15_post_send_effects : forall m flagged err now' cache p,
  let q := send_peer m flagged err now' cache p in
  la q = Z.max 0 now' /\
  lc q = (if is_ok err then Z.max 0 now' else lc p) /\
  fr q = (if is_ok err && flagged then false else fr p) /\
  addr q = addr p /\
  stash q = match m with
            | RESYNC => empty_note
            | PING => stash p
            | SYNC => if is_ok err then empty_note else note_app (stash p) cache
            end.
Proof. exact post_send_effects. Qed.
Print Assumptions C15_post_send_effects.

(* ... and one whole iteration applies exactly that bookkeeping to every peer for which a message was
   chosen (with the decision taken on the peer's record at the start of the iteration and the flag read
   from it) and leaves every other peer untouched; the note that a SYNC carries and a failed SYNC puts on the
   backlog is the head of the queue (cn) in both orders.  The queue loses exactly that head - in the repaired
   order whenever it was non-empty, in the pinned order iff some peer got a SYNC - and nothing else. *)
Theorem C15_iteration_effects : forall pop_first c now snap sends s,
  let qe := is_nil (o_queue s) in
  let cn := hd empty_note (o_queue s) in
  let s' := fst (iter_o pop_first c now snap sends s) in
  length (o_peers s') = length (o_peers s) /\
  o_queue s' = (if pop_first || existsb (wants_sync c now qe) (o_peers s) then tl (o_queue s) else o_queue s) /\
  forall j p, nth_error (o_peers s) j = Some p ->
    nth_error (o_peers s') j =
    Some (match decide c now qe p with
          | None => p
          | Some m => send_peer m (fr p) (err_of (fst (nth j sends (0, now)))) (snd (nth j sends (0, now))) cn p
          end).
Proof. exact iter_effects. Qed.
Print Assumptions C15_iteration_effects.

(* ---- flag_until_delivered: if the restart flag of peer i is set, every message attempted to i carries it
   up to and including the first one that is delivered ... *)
Theorem C15_flag_until_delivered : forall pop_first c s acts i p0 l1 a l2,
  nth_error (o_peers s) i = Some p0 -> fr p0 = true ->
  log_of_o pop_first c s acts = l1 ++ EAtt a :: l2 -> at_peer a = i ->
  (forall b, In (EAtt b) l1 -> at_peer b = i -> at_err b <> 0%nat) ->
  at_flag a = true.
Proof. exact flag_until_delivered. Qed.
Print Assumptions C15_flag_until_delivered.

(* ... and no message after a delivered one carries it. *)
Theorem C15_flag_cleared_by_delivery : forall pop_first c s acts l1 b l2 a l3,
  log_of_o pop_first c s acts = l1 ++ EAtt b :: l2 ++ EAtt a :: l3 ->
  at_peer b = at_peer a -> at_err b = 0%nat ->
  at_flag a = false.
Proof. exact flag_cleared_by_delivery. Qed.
Print Assumptions C15_flag_cleared_by_delivery.

(* ---- reset_triggers_resync (sequential; the race with a concurrent outgoing iteration is C07): after a
   RESET-flagged message from peer i was handled, the next message chosen for i is a RESYNC -- for every
   clock reading beyond the two resync parameters (any real clock: seconds since 1970) ... *)
Theorem C15_reset_triggers_resync : forall pop_first c s acts i l1 l2 a l3,
  log_of_o pop_first c s acts = l1 ++ EReset i :: l2 ++ EAtt a :: l3 ->
  at_peer a = i ->
  (forall e, In e l2 -> ev_peer e <> i) ->
  p_resync c < at_dec a -> a_resync c < at_dec a ->
  at_mode a = RESYNC.
Proof. exact reset_triggers_resync. Qed.
Print Assumptions C15_reset_triggers_resync.

(* ... and it is chosen in the very next iteration. *)
Theorem C15_reset_resync_next_iteration : forall pop_first c s from typ flags caddr now snap sends p,
  nth_error (o_peers s) from = Some p -> Z.land flags 1 = 1 ->
  p_resync c < now -> a_resync c < now ->
  exists a, In (EAtt a) (snd (step_o pop_first c (fst (step_o pop_first c s (AIn from typ flags caddr)))
                                     (AIter now snap sends))) /\
            at_peer a = from /\ at_mode a = RESYNC.
Proof. exact reset_resync_next_iteration. Qed.
Print Assumptions C15_reset_resync_next_iteration.

(* ---- non-vacuity: the default periods (30/60/5/5/10, all comparisons ">="), one peer last contacted and
   attempted at second 100, restart flag set.  (type, decided, finished, flag, err) of each attempt:
   a PING at 131 times out and carries the flag; 133 is too early for a retry; the PING at 136 is delivered
   with the flag; the PING at 170 carries none; the peer then announces a restart, and the next message
   is a RESYNC; new changes at 172 go out at once as SYNC although the last attempt was a second ago, fail,
   and are retried alone only 5 seconds later. *)
Definition ex_cfg : tcfg := mkCfg 30 60 5 5 10 (true, true, true, true, true).
Definition ex_s : ostate := mkO [mkPeer 100 100 true [] [] [] 7] [].
Definition ex_acts : list oact :=
  [AIter 131 empty_note [(1, 131)]; AIter 133 empty_note [(0, 133)]; AIter 136 empty_note [(0, 136)];
   AIter 170 empty_note [(0, 170)]; AIn 0%nat 1 1 7; AIter 171 (mkNote [4] [] [5]) [(0, 171)];
   AEnq (mkNote [] [] [9]); AIter 172 empty_note [(4, 172)]; AIter 176 empty_note [(0, 176)];
   AIter 177 empty_note [(0, 178)]].
Definition ex_view (e : ev) : list Z :=
  match e with
  | EAtt a => [mode_code (at_mode a); at_dec a; at_done a; b2z (at_flag a); n2z (at_err a)] ++ enc_note (at_pay a)
  | EReset i => [-9; n2z i]
  end.
Example C15_example : forall pop_first,
  map ex_view (log_of_o pop_first ex_cfg ex_s ex_acts) =
  [ [1; 131; 131; 1; 1; 0; 0; 0]; [1; 136; 136; 1; 0; 0; 0; 0]; [1; 170; 170; 0; 0; 0; 0; 0]; [-9; 0];
    [2; 171; 171; 0; 0; 1; 4; 0; 1; 5]; [0; 172; 172; 0; 2; 0; 0; 1; 9]; [0; 177; 178; 0; 0; 0; 0; 1; 9] ].
Proof. intros [|]; vm_compute; reflexivity. Qed.

(* where the two orders differ: changes reported while the only peer is in its resync period.  The RESYNC at
   1000 goes out either way; in the pinned order the note stays queued and follows as a SYNC at 1001, in the
   repaired order it was taken at 1000 (the snapshot supersedes it) and nothing is left to send at 1001. *)
Example C15_example_orders :
  let acts := [AEnq (mkNote [] [] [9]); AIter 1000 (mkNote [] [] [9]) [(0, 1000)]; AIter 1001 empty_note [(0, 1001)]] in
  let s := mkO [mkPeer 0 0 false [] [] [] 7] [] in
  map ex_view (log_of_o false ex_cfg s acts) = [ [2; 1000; 1000; 0; 0; 0; 0; 1; 9]; [0; 1001; 1001; 0; 0; 0; 0; 1; 9] ] /\
  map ex_view (log_of_o true ex_cfg s acts) = [ [2; 1000; 1000; 0; 0; 0; 0; 1; 9] ].
Proof. vm_compute. split; reflexivity. Qed.

(* the decision table is inhabited in every cell (strictly inside each period) *)
Example C15_example_table :
  let p := mkPeer 100 100 false [] [] [] 7 in let pb := mkPeer 100 100 false [3] [] [] 7 in
  let pw := mkPeer 100 130 false [] [] [] 7 in let pr := mkPeer 100 160 false [] [] [] 7 in
  map (fun x : Z * bool * peer => let '(now, qe, q) := x in decide ex_cfg now qe q)
      [(110, true, p); (110, false, p); (103, true, pb); (110, true, pb); (140, true, p); (133, true, pw);
       (140, false, p); (140, true, pb); (170, true, p); (170, false, pb); (165, true, pr)] =
  [None; Some SYNC; None; Some SYNC; Some PING; None; Some SYNC; Some SYNC; Some RESYNC; Some RESYNC; None].
Proof. vm_compute. reflexivity. Qed.
