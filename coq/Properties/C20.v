(* C20  Every action execution is reported once, with its own outcome.
   Statements only; proofs are in Proofs/ActionProofs.v.

   Models (Model/Action.v):
   * multi_exec stop outs / multi_trace stop outs : what BoboActionMultiSequential.execute
     returns and which sub-actions it calls, when the i-th configured sub-action returns outs[i].
   * hstep / hrun : one handler (Blocking, or Pool = multithreading and multiprocessing) under an
     arbitrary sequence of handle() calls, worker completions (Complete k: the k-th job still in
     flight finishes -- the scheduler is an oracle, every completion order is covered) and
     get_handler_response() calls.  haccepted = jobs whose handle() returned normally (all of them
     when max_size is the default 0); h_delivered = what get_handler_response() has returned.
   * fstep / frun : BoboForwarder.on_producer_update / update on top of such a handler (worker
     completions may fall between two calls, FComplete, or between the two halves of update()).
   Partial with respect to the real system: the pool's scheduling and the pickling of action,
   event and response between processes are modelled by the completion-order oracle, not verified. *)
From Bobo Require Import Base.Prelude Model.Action Proofs.ActionProofs.
From Coq Require Import Permutation.

(* ------------------------------------------------------------------ sequential multi-action *)

(* "succeeds exactly when every sub-action it executed succeeded": for outcome lists of any
   length, with or without stop-on-fail. *)
Theorem C20_multi_success_iff_all :
  forall (stop : bool) (outs : list (bool * Z)),
    fst (multi_exec stop outs) = true <->
    (forall i o, In i (multi_trace stop outs) -> nth_error outs i = Some o -> fst o = true).
Proof. exact multi_success_iff_all. Qed.
Print Assumptions C20_multi_success_iff_all.

(* the same on the reported list: the flag is the conjunction of the reported flags *)
Theorem C20_multi_success_is_conjunction_of_reported :
  forall stop outs, fst (multi_exec stop outs) = forallb fst (snd (multi_exec stop outs)).
Proof. exact multi_success_reported. Qed.
Print Assumptions C20_multi_success_is_conjunction_of_reported.

(* "reports the result of each executed sub-action in order": the reported list is the list of
   outcomes of exactly the executed sub-actions, in execution order ... *)
Theorem C20_multi_reports_prefix :
  forall stop outs,
    map Some (snd (multi_exec stop outs)) = map (nth_error outs) (multi_trace stop outs).
Proof. exact multi_reports_executed. Qed.
Print Assumptions C20_multi_reports_prefix.

(* ... without stop-on-fail every sub-action is executed, once, in list order ... *)
Theorem C20_multi_reports_all_without_stop :
  forall outs,
    snd (multi_exec false outs) = outs /\ multi_trace false outs = seq 0 (length outs).
Proof. exact multi_reports_all_nostop. Qed.
Print Assumptions C20_multi_reports_all_without_stop.

(* ... with stop-on-fail exactly the prefix up to and including the first failure. *)
Theorem C20_multi_reports_prefix_with_stop :
  forall outs,
    (forallb fst outs = true /\ snd (multi_exec true outs) = outs /\
     multi_trace true outs = seq 0 (length outs)) \/
    (exists good f rest,
        outs = good ++ f :: rest /\ forallb fst good = true /\ fst f = false /\
        snd (multi_exec true outs) = good ++ [f] /\
        multi_trace true outs = seq 0 (S (length good))).
Proof. exact multi_reports_prefix_stop. Qed.
Print Assumptions C20_multi_reports_prefix_with_stop.

(* "with stop-on-fail executes nothing after the first failure" (stated for any failing
   position, hence for the first) *)
Theorem C20_stop_on_fail_executes_nothing_after :
  forall outs i f,
    nth_error outs i = Some f -> fst f = false ->
    forall j, In j (multi_trace true outs) -> (j <= i)%nat.
Proof. exact stop_on_fail_executes_nothing_after. Qed.
Print Assumptions C20_stop_on_fail_executes_nothing_after.

Example C20_multi_example :
  multi_exec true [(true, 10); (false, 11); (true, 12); (false, 13)] = (false, [(true, 10); (false, 11)]) /\
  multi_trace true [(true, 10); (false, 11); (true, 12); (false, 13)] = [0; 1]%nat /\
  multi_exec false [(true, 10); (false, 11); (true, 12)] = (false, [(true, 10); (false, 11); (true, 12)]) /\
  multi_exec true [(true, 10); (true, 11)] = (true, [(true, 10); (true, 11)]) /\
  nth_error [(true, 10); (false, 11); (true, 12); (false, 13)] 1 = Some (false, 11).
Proof. vm_compute. repeat split. Qed.

(* ------------------------------------------------------------------ handlers *)

(* "every action handed over yields exactly one response": for each handler kind, every queue
   bound and every sequence of handle / worker completion / get_handler_response, the multiset
   of responses owed to the accepted jobs equals in-flight + queued + delivered: nothing is
   lost, duplicated or invented at any point of any schedule. *)
Theorem C20_one_response_per_handle :
  forall (kind : hkind) (max_size : Z) (ops : list hop),
    Permutation (map respond (haccepted kind max_size ops))
                (map respond (h_inflight (hfinal kind max_size ops)) ++
                 h_queue (hfinal kind max_size ops) ++ h_delivered (hfinal kind max_size ops)).
Proof. exact one_response_per_handle. Qed.
Print Assumptions C20_one_response_per_handle.

(* at quiescence (all workers done, queue drained) the delivered responses are a permutation of
   the responses of the accepted jobs: exactly one each *)
Theorem C20_quiescent_delivered_is_permutation :
  forall kind max_size ops,
    h_inflight (hfinal kind max_size ops) = [] -> h_queue (hfinal kind max_size ops) = [] ->
    Permutation (map respond (haccepted kind max_size ops)) (h_delivered (hfinal kind max_size ops)).
Proof. exact quiescent_delivered_perm. Qed.
Print Assumptions C20_quiescent_delivered_is_permutation.

(* "naming that action, carrying the complex event that triggered it and the action's own success
   flag and data": every response in the queue or delivered belongs to an accepted job and has
   that job's four fields *)
Theorem C20_response_carries_own_job :
  forall kind max_size ops r,
    In r (h_queue (hfinal kind max_size ops) ++ h_delivered (hfinal kind max_size ops)) ->
    exists j, In j (haccepted kind max_size ops) /\
              r_name r = j_name j /\ r_event r = j_event j /\
              r_succ r = j_succ j /\ r_data r = j_data j.
Proof. exact response_carries_own_job. Qed.
Print Assumptions C20_response_carries_own_job.

(* with the default (unbounded) queue every handle() call is accepted, so "accepted" above is
   "handed over" *)
Theorem C20_unbounded_accepts_all :
  forall kind max_size ops, max_size <= 0 -> haccepted kind max_size ops = hsubmitted ops.
Proof. exact unbounded_accepts_all. Qed.
Print Assumptions C20_unbounded_accepts_all.

(* the ghost list `delivered` is what get_handler_response() returned, call by call *)
Theorem C20_delivered_is_what_get_returned :
  forall kind max_size ops, h_delivered (hfinal kind max_size ops) = got (hresults kind max_size ops).
Proof. exact delivered_is_what_get_returned. Qed.
Print Assumptions C20_delivered_is_what_get_returned.

(* "the blocking handler reports in submission order": delivered ++ still-queued is the list of
   responses of the accepted jobs in submission order, so delivered is a prefix of it *)
Theorem C20_blocking_fifo :
  forall max_size ops,
    h_inflight (hfinal Blocking max_size ops) = [] /\
    map respond (haccepted Blocking max_size ops) =
    h_delivered (hfinal Blocking max_size ops) ++ h_queue (hfinal Blocking max_size ops).
Proof. exact blocking_fifo. Qed.
Print Assumptions C20_blocking_fifo.

Example C20_handler_example :
  let e1 := mkCE 1 7 8 in let e2 := mkCE 2 7 9 in
  let j1 := mkJob 50 e1 true 100 in let j2 := mkJob 51 e2 false 200 in
  let ops := [Handle j1; Handle j2; Complete 1%nat; Get; Complete 0%nat; Get; Get] in
  h_delivered (hfinal Pool 0 ops) = [respond j2; respond j1] /\
  h_inflight (hfinal Pool 0 ops) = [] /\ h_queue (hfinal Pool 0 ops) = [] /\
  haccepted Pool 0 ops = [j1; j2] /\
  h_delivered (hfinal Blocking 0 ops) = [respond j1; respond j2] /\
  haccepted Blocking 1 ops = [j1].
Proof. vm_compute. repeat split. Qed.

(* ------------------------------------------------------------------ forwarder *)

(* The forwarder uses its handler only through handle() and get_handler_response() (so the
   theorems above apply to the handler inside it), and every response it takes becomes exactly
   one action event, in the same order, carrying the response's action name, success flag and
   data and the phenomenon and pattern names of the response's complex event. *)
Theorem C20_forwarder_one_event_per_response :
  forall (c : fcfg) (ops : list fop),
    f_h (fst (frun c f_init ops)) = hfinal (f_kind c) (f_hmax c) (fhops c f_init ops) /\
    f_out (fst (frun c f_init ops)) =
    map action_event (h_delivered (f_h (fst (frun c f_init ops)))).
Proof. exact fwd_one_event_per_response. Qed.
Print Assumptions C20_forwarder_one_event_per_response.

Theorem C20_action_event_fields :
  forall r,
    ae_name (action_event r) = r_name r /\ ae_succ (action_event r) = r_succ r /\
    ae_data (action_event r) = r_data r /\ ae_phen (action_event r) = ce_phen (r_event r) /\
    ae_patt (action_event r) = ce_patt (r_event r).
Proof. exact action_event_fields. Qed.
Print Assumptions C20_action_event_fields.

(* end to end: when the handler inside the forwarder is quiescent, the action events given to the
   subscribers are a permutation of (one per) the jobs the forwarder handed over *)
Theorem C20_forwarder_quiescent_events_are_permutation :
  forall c ops,
    let s := fst (frun c f_init ops) in
    let hops := fhops c f_init ops in
    h_inflight (f_h s) = [] -> h_queue (f_h s) = [] ->
    Permutation (map (fun j => action_event (respond j)) (haccepted (f_kind c) (f_hmax c) hops))
                (f_out s).
Proof. exact fwd_quiescent_events_perm. Qed.
Print Assumptions C20_forwarder_quiescent_events_are_permutation.

Example C20_forwarder_example :
  let a := tab_action 50 [(1, (true, 100)); (2, (false, 200))] in
  let c := mkF Pool 0 [(7, Some a)] true 0 in
  let ops := [Produce (mkCE 1 7 8) true; Produce (mkCE 2 7 9) true; Produce (mkCE 3 7 9) false;
              FUpdate []; FUpdate [1%nat]; FUpdate [0%nat]; FUpdate []] in
  f_out (fst (frun c f_init ops)) = [mkAE 50 false 200 7 9; mkAE 50 true 100 7 8] /\
  h_inflight (f_h (fst (frun c f_init ops))) = [] /\ h_queue (f_h (fst (frun c f_init ops))) = [] /\
  snd (frun c f_init ops) =
    [FNothing; FNothing; FNothing; FBool true; FBool true; FBool true; FBool false].
Proof. vm_compute. repeat split. Qed.
