(* C19  Patterns are well-formed by construction.  Statements only.
   The constructor truth tables and the flag tuple each builder method emits are additionally re-derived from
   /repo on every run (coq/Gen/Facts_C19.v) and checked against these definitions. *)
From Bobo Require Import Base.Prelude Base.History Model.Pattern Model.Run Model.TypedPred.
From Bobo Require Import Proofs.RunProofs Proofs.PatternProofs.

Section C19.
  Variable E : Type.

  (* block constructor: accepts exactly the complement of the documented illegal combinations
     (strict+optional, loop+negated, loop+optional, negated+optional) and requires a predicate *)
  Theorem C19_block_ctor_accepts_iff : forall n strict loop neg opt,
    block_ctor_code n strict loop neg opt = 0 <-> (0 < n)%nat /\ illegal strict loop neg opt = false.
  Proof. exact block_ctor_accepts_iff. Qed.

  (* pattern constructor: non-empty name and blocks, first and last block neither negated, optional nor looping *)
  Theorem C19_pattern_ctor_accepts_iff : forall namelen (bs : list (block E)),
    pattern_ctor_code namelen bs = 0 <->
    (0 < namelen)%nat /\ exists b0 rest, bs = b0 :: rest /\ plain_end b0 = true /\ plain_end (last bs b0) = true.
  Proof. exact (pattern_ctor_accepts_iff E). Qed.

  (* each builder method appends blocks with exactly the documented contiguity, negation, optionality, looping,
     group and repetition count, in call order *)
  Theorem C19_builder_blocks_in_call_order : forall os (s s' : bstate E),
    bsteps E s os = Some s' -> bs_blocks E s' = bs_blocks E s ++ flat_map (emitted E) os.
  Proof. exact (builder_blocks_in_call_order E). Qed.

  (* whatever the builder and the constructors accept is well-formed *)
  Theorem C19_build_wf : forall name namelen single os (p : pattern E),
    build E name namelen single os = inl p -> wf_pattern p = true.
  Proof. exact (build_wf E). Qed.

  (* every accepted pattern can be run against any event stream without an internal error:
     a single event never indexes outside the block list ... *)
  Theorem C19_process_no_index_error : forall (r : run E) (e : E),
    wf_pattern (r_pat r) = true -> (r_idx r < length (p_blocks (r_pat r)))%nat -> process r e <> Exn EIndex.
  Proof. exact (process_no_index_error E). Qed.

  (* ... and neither does any stream, from any run the decider can create (arbitrary, also raising, predicates) *)
  Theorem C19_stream_no_internal_error : forall es (r : run E),
    wf_pattern (r_pat r) = true -> in_range E r -> feed E r es <> None.
  Proof. exact (feed_no_internal_error E). Qed.

  Theorem C19_new_run_in_range : forall id ph (p : pattern E) (e : E), in_range E (new_run id ph p e).
  Proof. exact (new_run_in_range E). Qed.
End C19.

(* typed predicate: the function is called only on data of the declared type or on a successful cast;
   cast_type is the assumption on the Python constructor (dtype(x) returns a dtype) *)
Theorem C19_typed_callee_sees_declared_type :
  forall (D : Type) (is_type is_exact : D -> bool) (cast : D -> option D) (call : D -> pres),
    (forall d d', cast d = Some d' -> is_type d' = true /\ is_exact d' = true) ->
    forall subtype castflag d x,
      snd (typed_eval D is_type is_exact cast call subtype castflag d) = CalledWith x ->
      (if subtype then is_type x else is_exact x) = true.
Proof. exact typed_callee_sees_declared_type. Qed.

Theorem C19_typed_not_called_is_false :
  forall (D : Type) (is_type is_exact : D -> bool) (cast : D -> option D) (call : D -> pres) subtype castflag d,
    snd (typed_eval D is_type is_exact cast call subtype castflag d) = NotCalled ->
    fst (typed_eval D is_type is_exact cast call subtype castflag d) = PFalse.
Proof. exact typed_not_called_is_false. Qed.

Print Assumptions C19_block_ctor_accepts_iff.
Print Assumptions C19_pattern_ctor_accepts_iff.
Print Assumptions C19_builder_blocks_in_call_order.
Print Assumptions C19_build_wf.
Print Assumptions C19_process_no_index_error.
Print Assumptions C19_stream_no_internal_error.
Print Assumptions C19_new_run_in_range.
Print Assumptions C19_typed_callee_sees_declared_type.
Print Assumptions C19_typed_not_called_is_false.

From Bobo Require Import Model.PredLang.
Example C19_example :   (* builder: followed_by x2, not_next, next -> accepted, 4 blocks *)
  match build ev 1 1 false [BFollowedBy ev (interp (PDataEq 1)) 1 2 false false;
                            BNotNext ev (interp (PDataEq 2)) 2 1; BNext ev (interp (PDataEq 3)) 3 0 false] with
  | inl p => length (p_blocks p) = 4%nat /\ wf_pattern p = true
  | inr _ => False
  end.
Proof. vm_compute. auto. Qed.
