(* C13: the slot of a singleton pattern is freed by ANY completed / halted record of that pattern.  Statements only. *)
From Bobo Require Import Base.Prelude Base.History Model.Pattern Model.Run Model.Decider.
From Bobo Require Import Proofs.DeciderProofs Proofs.SingletonFinishProofs.

(* For every reachable run table, every record rc of a singleton pattern the instance serves - under the peer's
   identifier or the local one, at a position before, at or after the local copy's - applying it as completed
   (which = true) or halted (false) leaves the pattern without an active run: a new run can start at once.
   (What the finished-run memory filters out never reaches apply_finished: filter_msg.) *)
Theorem C13_remote_finish_frees_slot :
  forall (E : Type) (cfg : config E) (which : bool) (rc : rserial E) (rt : runtab E) (cc ch : list (rserial E))
         (p : pattern E),
    Inv E cfg rt -> get_pattern cfg (s_ph rc) (s_pat rc) = Some p -> p_single p = true ->
    bucket (s_ph rc) (s_pat rc) (fst (fst (fst (apply_finished cfg which [rc] rt cc ch)))) = [].
Proof. exact singleton_finish_frees_slot. Qed.
Print Assumptions C13_remote_finish_frees_slot.

From Bobo Require Import Model.PredLang.
(* non-vacuous: the local copy 100 of the singleton pattern stands at block 2; a peer's halted record for ITS copy 900,
   at block 1 (behind), removes it, and the next event the first block accepts starts run 101.  Statuses of runs 100
   and 101 after each operation ([1; i; n] active at block i with n events, [2; 0; 0] halted, [0; 0; 0] absent; after a
   remote operation also what the message says about the run).  Without the record nothing new starts. *)
Definition cfg13 := CD [(1, [PD 1 [BD [PDataEq 1] 1 false false false false; BD [PDataEq 2] 2 false false false false;
                                   BD [PDataEq 3] 3 false false false false] [] [] true])] 5 100.
Example C13_finish_example :
  run_decider_status (cfg13, [100; 101], [OLocal (mkEv 0 0 0 1 0 0); OLocal (mkEv 1 1 0 2 0 0);
                                          ORemote (mkNote [] [mkSer 900 1 1 1 [(1, [mkEv 7 7 0 1 0 0])]] []);
                                          OLocal (mkEv 2 2 0 1 0 0)])
  = [1; 1; 1; 0; 0; 0;   1; 2; 2; 0; 0; 0;   2; 0; 0; 0; 0; 0; 0; 0; 0; 0; 0; 0;   2; 0; 0; 1; 1; 1]
  /\ run_decider_status (cfg13, [100; 101], [OLocal (mkEv 0 0 0 1 0 0); OLocal (mkEv 1 1 0 2 0 0); OLocal (mkEv 2 2 0 1 0 0)])
  = [1; 1; 1; 0; 0; 0;   1; 2; 2; 0; 0; 0;   1; 2; 2; 0; 0; 0].
Proof. vm_compute. split; reflexivity. Qed.
