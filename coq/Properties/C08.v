(* C08  No deadlock between engine, replication and input threads.
   Statements only; proofs are in Proofs/LocksProofs.v.  The facts of the CURRENT tree are recorded
   on every run (harness/lockspy.py, harness/pC08.py) and the theorem about them,
   [current_tree_deadlock_free : forall cyc, ~ deadlock facts cyc], is regenerated into
   Gen/Facts_C08.v and closed with [apply C08_no_deadlock_when_eliminated; vm_compute; reflexivity]. *)
From Bobo Require Import Base.Prelude Model.Locks Proofs.LocksProofs.

(* For any set of acquisition facts (any number of roles, locks, threads): if the elimination
   leaves nothing, then no schedule exists in which k >= 2 threads, each holding what its fact
   says and no lock twice, wait for each other in a cycle - "two of them each wait for something
   the other holds" is the case k = 2. *)
Theorem C08_no_deadlock_when_eliminated :
  forall ps : list pair, elim ps = [] -> forall cyc : list pair, ~ deadlock ps cyc.
Proof. exact elim_sound. Qed.
Print Assumptions C08_no_deadlock_when_eliminated.

(* stronger: the elimination never removes a fact that takes part in any deadlock state *)
Theorem C08_deadlock_facts_survive :
  forall ps cyc p, deadlock ps cyc -> In p cyc -> In p (elim ps).
Proof. exact deadlock_facts_survive. Qed.
Print Assumptions C08_deadlock_facts_survive.

(* the checker is not vacuous, and exact for two threads: a lock-order inversion between two facts
   that can be at different threads and can hold their sets simultaneously is a deadlock state ... *)
Theorem C08_two_cycle_is_deadlock :
  forall ps p q, In p ps -> In q ps -> supports p q = true -> supports q p = true ->
    deadlock ps [p; q].
Proof. exact two_cycle_is_deadlock. Qed.
Print Assumptions C08_two_cycle_is_deadlock.

(* ... and is always reported (the elimination cannot come out empty) *)
Theorem C08_two_thread_inversion_detected :
  forall ps p q, In p ps -> In q ps -> supports p q = true -> supports q p = true ->
    elim ps <> [].
Proof. exact elim_complete_2. Qed.
Print Assumptions C08_two_thread_inversion_detected.

(* what is left after the elimination is a fixpoint in which every fact waits for a lock held by
   another remaining fact that can coexist with it (the residue the harness turns into threads) *)
Theorem C08_survivor_has_supporter :
  forall ps p, In p (elim ps) ->
    exists q, In q (elim ps) /\ In (req p) (held q) /\ disjoint (held p) (held q) /\ two_threads p q.
Proof. exact survivor_has_supporter. Qed.
Print Assumptions C08_survivor_has_supporter.

(* D11, the tree as it was: the engine thread notifies the distributed component while it holds
   the decider lock (wants the local lock); run() dispatched remote changes to the decider while it
   held the local lock (wants the decider lock).  These two facts are a deadlock state. *)
Theorem C08_run_loop_holding_local_lock_refuted :
  exists cyc, deadlock abba_facts cyc.
Proof. exact abba_is_deadlock. Qed.
Print Assumptions C08_run_loop_holding_local_lock_refuted.

(* non-vacuity of C08_no_deadlock_when_eliminated: the callback chain receiver -> decider -> producer
   -> receiver, all taken on the engine thread under the engine lock, is eliminated (no alarm) ... *)
Example C08_example_gated_cycle_is_safe : forall cyc, ~ deadlock gated_cycle_facts cyc.
Proof. apply C08_no_deadlock_when_eliminated. vm_compute. reflexivity. Qed.

(* ... the D11 pair survives, and so does the same chain spread over three roles without a gate *)
Example C08_example_abba_survives : elim abba_facts = abba_facts.
Proof. exact abba_survives. Qed.
Example C08_example_ungated_cycle_survives : elim ungated_cycle_facts = ungated_cycle_facts.
Proof. exact ungated_cycle_survives. Qed.
