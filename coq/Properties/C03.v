(* C03  Replication is transparent and survivors take over.  Statements only.
   Per run: a local change is ahead of every identical copy, and applying the replicated record to an identical
   copy yields an identical copy.  Per step (C03_sync_step): a peer that holds the same runs as the sender held
   before the event holds the same runs as the sender afterwards, pattern by pattern and in the same order -
   proved for ALL patterns, singleton ones included (a singleton pattern must have at least two blocks: a one-block
   pattern completes with its first event and never has an active run), under explicit identifier-hygiene side
   conditions (active run ids unique, drawn ids fresh, records name existing patterns, the receiver remembers none
   of the note's runs as finished).
   Cluster (C03_replicas_equal): with replication messages delivered between consecutive inputs, for EVERY routing
   of the stream, all replicas hold the same runs after every input; together with C03_step_depends_on_table_only
   whichever instance receives the next input - in particular any survivor of any crash - reports exactly what a
   single engine holding that table reports.  The older premise-based form is kept as C03_replicas_equal_partial. *)
From Bobo Require Import Base.Prelude Base.History Model.Pattern Model.Run Model.Decider Model.Cluster Model.PredLang.
From Bobo Require Import Proofs.RunProofs Proofs.DeciderLemmas Proofs.DeciderProofs Proofs.StepProofs.
From Bobo Require Import Model.Converge Model.ConvergeC.
From Bobo Require Import Proofs.ClusterProofs Proofs.RemoteWitness Proofs.JoinProofs Proofs.SyncProofs Proofs.SyncExample.

(* a local change that leaves a run active is ahead of every identical copy (so the peers apply it):
   further along the pattern, or at the same looping block with one more event *)
Theorem C03_local_change_is_ahead : forall (E : Type) (r : run E) (e : E) r',
  process r e = Ok (r', true) -> r_halted r' = false -> ahead true (ser r') r = true.
Proof. exact local_change_is_ahead. Qed.

(* applying the replicated record to an identical copy yields an identical copy: same index, same history *)
Theorem C03_update_replicates : forall (E : Type) (r : run E) (e : E) r',
  process r e = Ok (r', true) -> r_halted r = false -> r_halted r' = false ->
  set_block r (s_idx (ser r')) (s_hist (ser r')) = r'.
Proof. exact set_block_replicates. Qed.

(* a run started on one instance is re-created identically on the others *)
Theorem C03_new_run_replicates : forall (E : Type) id ph (p : pattern E) (e : E),
  let nr := new_run id ph p e in
  remote_run (s_id (ser nr)) (s_ph (ser nr)) p (s_idx (ser nr)) (s_hist (ser nr)) = nr.
Proof. exact new_run_replicates. Qed.

(* what an instance does with an event depends only on its run table (and id supply): an instance holding the
   same table as a single engine would, reports what the single engine would report *)
Theorem C03_step_depends_on_table_only : forall (E : Type) cfg (s1 s2 : dstate E) (e : E),
  d_runs s1 = d_runs s2 -> d_next s1 = d_next s2 ->
  match local_step cfg s1 e, local_step cfg s2 e with
  | Ok (a, n1), Ok (b, n2) => d_runs a = d_runs b /\ d_next a = d_next b /\ n1 = n2
  | Exn k1, Exn k2 => k1 = k2
  | _, _ => False
  end.
Proof. exact local_step_runs_only. Qed.

(* PARTIAL (premise sync_step): with replication messages delivered between consecutive inputs, for every
   routing of the stream to the instances, all replicas hold the same run table after every input - hence
   whichever instance receives the next input (in particular any survivor after any crash) continues exactly
   where a single engine would *)
Theorem C03_replicas_equal_partial : forall (E : Type) (cfg : config E) (gen : nat -> nat -> Z),
  (forall i j (si sj si' : dstate E) (e : E) (n : note E),
      i <> j -> d_runs sj = d_runs si -> local_step (icfg cfg gen i) si e = Ok (si', n) ->
      d_runs (fst (remote_apply (icfg cfg gen j) sj n)) = d_runs si') ->
  forall inp (ss ss' : list (dstate E)) ns,
    tables_equal E ss -> crun cfg gen ss inp = Some (ss', ns) -> tables_equal E ss'.
Proof. exact crun_tables_equal_partial. Qed.

(* one synchronous replication step keeps a replica equal to the sender, bucket by bucket *)
Theorem C03_sync_step :
  forall (E : Type) (cfg : config E) (gen : nat -> nat -> Z),
    cfg_wf E cfg ->
    (forall ph pat p, get_pattern cfg ph pat = Some p -> p_single p = true -> (2 <= length (p_blocks p))%nat) ->
    forall i j (si sj si' : dstate E) (e : E) (n : note E),
      beq E (d_runs sj) (d_runs si) ->
      Inv E (icfg cfg gen i) (d_runs si) -> Inv E (icfg cfg gen j) (d_runs sj) ->
      NoDup (map (@r_id E) (rt_all (d_runs si))) ->
      (forall k r, (d_next si <= k)%nat -> In r (rt_all (d_runs si)) -> r_id r <> gen i k) ->
      Forall (known E (icfg cfg gen j)) (n_comp n) -> Forall (known E (icfg cfg gen j)) (n_halt n) ->
      Forall (known E (icfg cfg gen j)) (n_upd n) ->
      filter_msg (icfg cfg gen j) sj n = n ->
      local_step (icfg cfg gen i) si e = Ok (si', n) ->
      beq E (d_runs (fst (remote_apply (icfg cfg gen j) sj n))) (d_runs si').
Proof. exact sync_step_holds. Qed.

(* the cluster, from the initial state, for every routing of every stream *)
Theorem C03_replicas_equal :
  forall (E : Type) (cfg : config E) (gen : nat -> nat -> Z),
    cfg_wf E cfg ->
    (forall ph pat p, get_pattern cfg ph pat = Some p -> p_single p = true -> (2 <= length (p_blocks p))%nat) ->
    forall n inp ss' ns,
      crun_ok E cfg gen (repeat d_init n) inp ->
      crun cfg gen (repeat d_init n) inp = Some (ss', ns) -> tables_beq E ss'.
Proof. exact crun_from_init_tables_beq. Qed.

(* the pinned commit (apply only when the index is greater) loses progress inside a looping block (D3) *)
Theorem C03_loop_progress_refuted_unfixed :
  hist_sizes s_loop = [1%nat] /\
  hist_sizes (fst (remote_apply_gen true true lcfg s_loop (mkNote [] [] [looped]))) = [2%nat] /\
  hist_sizes (fst (remote_apply_gen true false lcfg s_loop (mkNote [] [] [looped]))) = [1%nat].
Proof. exact d3_witness. Qed.

Print Assumptions C03_local_change_is_ahead.
Print Assumptions C03_update_replicates.
Print Assumptions C03_new_run_replicates.
Print Assumptions C03_step_depends_on_table_only.
Print Assumptions C03_replicas_equal_partial.
Print Assumptions C03_sync_step.
Print Assumptions C03_replicas_equal.
Print Assumptions C03_loop_progress_refuted_unfixed.

(* non-vacuity: two instances, pattern a ; loop l ; c, stream a@0 l@0 c@1: both replicas end with no active run *)
Example C03_example :
  run_cluster (CD [(1, [PD 1 [BD [PDataEq 1] 1 false false false false; BD [PDataEq 2] 2 false true false false;
                              BD [PDataEq 3] 3 false false false false] [] [] false])] 5 1000,
               2%nat, [(0%nat, mkEv 0 0 0 1 0 0); (0%nat, mkEv 1 1 0 2 0 0); (1%nat, mkEv 2 2 0 3 0 0)]) <> [-9].
Proof. vm_compute. discriminate. Qed.

(* non-vacuity of C03_replicas_equal: a two-instance cluster with a SINGLETON pattern a ; b meets every hypothesis
   (well-formed configuration, singleton patterns with two blocks, the side conditions of both steps), the run
   started at instance 0 is completed at instance 1, and both replicas end with the same (empty) table *)
Example C03_replicas_equal_nonvacuous :
  cfg_wf ev ex_cfg /\
  (forall ph pat p, get_pattern ex_cfg ph pat = Some p -> p_single p = true -> (2 <= length (p_blocks p))%nat) /\
  crun_ok ev ex_cfg ex_gen (repeat d_init 2) ex_inp /\
  (exists ss ns, crun ex_cfg ex_gen (repeat d_init 2) ex_inp = Some (ss, ns)).
Proof. exact (conj ex_cfg_wf (conj ex_single2 (conj ex_crun_ok ex_crun_some))). Qed.
