(* C17  Encryption round-trips, authenticates and never reuses a nonce.
   Statements only; proofs are in Proofs/CryptoProofs.v.  Model: Model/Crypto.v (bobocep/dist/crypto/aes.py).

   Every theorem quantifies over ALL codecs (utf8, utf8_dec) and ALL ciphers (gcm_enc, gcm_dec) that satisfy
   the laws named in its premises (utf8_laws, gcm_laws, gcm_tag_length_checked): these stand for CPython's
   UTF-8 codec and PyCryptodome's AES-GCM, which are assumed, not verified.  A configuration cfg is any key
   text, any nonce length, any tag length; "gcm_valid ... = true" / "encrypt ... = Some out" select the
   configurations PyCryptodome accepts (key of 16/24/32 bytes, non-empty nonce, tag length 4..16) - for every
   other one encrypt raises ValueError (C17_encrypt_fails_iff_rejected).  d is the value returned by
   get_random_bytes(nonce_length) in that call.  None = ValueError raised. *)
From Bobo Require Import Base.Prelude Model.Crypto Proofs.CryptoProofs.

(* decrypt's three negative-index slices recover exactly ciphertext, nonce and tag from
   ciphertext|nonce|tag|marker - for all lengths of the three fields (also empty ones) *)
Theorem C17_slice_layout :
  forall (cfg : config) (ct nonce tag mk : list Z),
    len nonce = c_nonce_len cfg -> len tag = c_mac_len cfg -> len mk = LEN_END ->
    slice_ct cfg (ct ++ nonce ++ tag ++ mk) = ct /\
    slice_nonce cfg (ct ++ nonce ++ tag ++ mk) = nonce /\
    slice_tag cfg (ct ++ nonce ++ tag ++ mk) = tag /\
    slice_trailer (ct ++ nonce ++ tag ++ mk) = mk.
Proof. exact slice_layout. Qed.
Print Assumptions C17_slice_layout.

Example C17_slice_layout_example :
  slice_nonce (mkCfg [] 2 3) ([9; 9; 9] ++ [1; 2] ++ [5; 6; 7] ++ MARKER) = [1; 2] /\
  slice_ct (mkCfg [] 16 16) [1; 2; 3; 4; 5] = [] /\ slice_tag (mkCfg [] 16 16) [1; 2; 3; 4; 5] = [1].
Proof. vm_compute. repeat split. Qed.

(* "decrypting an encrypted message returns the original text": for every key, nonce length and tag length,
   every text of Unicode scalar values that does not end in U+0000 *)
Theorem C17_roundtrip :
  forall utf8 utf8_dec gcm_enc gcm_dec,
    gcm_laws gcm_enc gcm_dec -> utf8_laws utf8 utf8_dec ->
    forall (cfg : config) (d s out : list Z),
      valid_str s -> ~ ends_nul s -> len d = c_nonce_len cfg ->
      encrypt utf8 gcm_enc cfg d s = Some out ->
      decrypt utf8 utf8_dec gcm_dec cfg out = Some s.
Proof. exact roundtrip. Qed.
Print Assumptions C17_roundtrip.

(* in general the result is the text without its trailing U+0000 characters ... *)
Theorem C17_roundtrip_general :
  forall utf8 utf8_dec gcm_enc gcm_dec,
    gcm_laws gcm_enc gcm_dec -> utf8_laws utf8 utf8_dec ->
    forall (cfg : config) (d s out : list Z),
      valid_str s -> len d = c_nonce_len cfg ->
      encrypt utf8 gcm_enc cfg d s = Some out ->
      decrypt utf8 utf8_dec gcm_dec cfg out = Some (rstrip0 s).
Proof. exact roundtrip_general. Qed.
Print Assumptions C17_roundtrip_general.

(* ... so the round trip fails for exactly the texts that end in U+0000 (D14, known finding
   "plaintext-trailing-NUL") *)
Theorem C17_roundtrip_iff_no_trailing_nul :
  forall utf8 utf8_dec gcm_enc gcm_dec,
    gcm_laws gcm_enc gcm_dec -> utf8_laws utf8 utf8_dec ->
    forall (cfg : config) (d s out : list Z),
      valid_str s -> len d = c_nonce_len cfg ->
      encrypt utf8 gcm_enc cfg d s = Some out ->
      (decrypt utf8 utf8_dec gcm_dec cfg out = Some s <-> ~ ends_nul s).
Proof. exact roundtrip_iff. Qed.
Print Assumptions C17_roundtrip_iff_no_trailing_nul.

Theorem C17_trailing_nul_refuted :
  forall utf8 utf8_dec gcm_enc gcm_dec,
    gcm_laws gcm_enc gcm_dec -> utf8_laws utf8 utf8_dec ->
    forall (cfg : config) (d : list Z),
      len d = c_nonce_len cfg -> gcm_valid (utf8 (c_key cfg)) d (c_mac_len cfg) = true ->
      exists s out, valid_str s /\ encrypt utf8 gcm_enc cfg d s = Some out /\
                    decrypt utf8 utf8_dec gcm_dec cfg out = Some [97] /\ s = [97; 0].
Proof. exact trailing_nul_refuted. Qed.
Print Assumptions C17_trailing_nul_refuted.

(* "every non-empty message encrypts to at least the advertised minimum length and ends with the frame
   marker" *)
Theorem C17_min_length_and_marker :
  forall utf8 utf8_dec gcm_enc gcm_dec,
    gcm_laws gcm_enc gcm_dec -> utf8_laws utf8 utf8_dec ->
    forall (cfg : config) (d s out : list Z),
      valid_str s -> s <> [] -> len d = c_nonce_len cfg ->
      encrypt utf8 gcm_enc cfg d s = Some out ->
      min_length cfg <= len out /\ (exists pre, out = pre ++ MARKER) /\ slice_trailer out = MARKER.
Proof. exact min_length_and_marker. Qed.
Print Assumptions C17_min_length_and_marker.

(* what the code does for the EMPTY message (outside the property, which says "non-empty"): nothing is padded,
   the result is nonce|tag|marker only, 16 bytes shorter than min_length() *)
Theorem C17_empty_plaintext_is_16_below_min_length :
  forall utf8 utf8_dec gcm_enc gcm_dec,
    gcm_laws gcm_enc gcm_dec -> utf8_laws utf8 utf8_dec ->
    forall (cfg : config) (d out : list Z),
      len d = c_nonce_len cfg -> encrypt utf8 gcm_enc cfg d [] = Some out ->
      len out = min_length cfg - PAD_MODULO.
Proof. exact empty_plaintext_len. Qed.
Print Assumptions C17_empty_plaintext_is_16_below_min_length.

(* "no two encryptions use the same nonce, so equal plaintexts give different ciphertexts":
   the nonce field of the output is exactly this call's draw from the random source ... *)
Theorem C17_nonce_is_fresh_draw :
  forall utf8 (gcm_enc : list Z -> list Z -> Z -> list Z -> list Z * list Z) gcm_dec,
    gcm_laws gcm_enc gcm_dec ->
    forall (cfg : config) (d s out : list Z),
      len d = c_nonce_len cfg -> encrypt utf8 gcm_enc cfg d s = Some out -> slice_nonce cfg out = d.
Proof. exact nonce_is_draw. Qed.
Print Assumptions C17_nonce_is_fresh_draw.

(* ... two calls whose draws differ give different messages, whatever the plaintexts (equal ones included) ... *)
Theorem C17_distinct_draws_distinct_outputs :
  forall utf8 (gcm_enc : list Z -> list Z -> Z -> list Z -> list Z * list Z) gcm_dec,
    gcm_laws gcm_enc gcm_dec ->
    forall (cfg : config) (d1 d2 s1 s2 o1 o2 : list Z),
      len d1 = c_nonce_len cfg -> len d2 = c_nonce_len cfg -> d1 <> d2 ->
      encrypt utf8 gcm_enc cfg d1 s1 = Some o1 -> encrypt utf8 gcm_enc cfg d2 s2 = Some o2 -> o1 <> o2.
Proof. exact distinct_draws_distinct_outputs. Qed.
Print Assumptions C17_distinct_draws_distinct_outputs.

(* ... and over any sequence of calls (one draw per call): if the random source never repeats, neither do the
   nonce fields, and no message is produced twice.  That the source does not repeat is assumed (CSPRNG). *)
Theorem C17_no_nonce_reuse :
  forall utf8 (gcm_enc : list Z -> list Z -> Z -> list Z -> list Z * list Z) gcm_dec,
    gcm_laws gcm_enc gcm_dec ->
    forall (cfg : config) (calls : list (list Z * list Z)),
      (forall c, In c calls -> len (fst c) = c_nonce_len cfg /\
                               gcm_valid (utf8 (c_key cfg)) (fst c) (c_mac_len cfg) = true) ->
      map (nonce_of cfg) (encrypt_all utf8 gcm_enc cfg calls) = map fst calls /\
      (NoDup (map fst calls) -> NoDup (encrypt_all utf8 gcm_enc cfg calls)).
Proof.
  exact (fun utf8 gcm_enc gcm_dec G cfg calls H =>
           conj (encrypt_all_nonces utf8 gcm_enc gcm_dec G cfg calls H)
                (encrypt_all_nodup utf8 gcm_enc gcm_dec G cfg calls H)).
Qed.
Print Assumptions C17_no_nonce_reuse.

(* encrypt raises exactly when PyCryptodome rejects key length / empty nonce / tag length outside 4..16 *)
Theorem C17_encrypt_fails_iff_rejected :
  forall utf8 (gcm_enc : list Z -> list Z -> Z -> list Z -> list Z * list Z) (cfg : config) (d s : list Z),
    encrypt utf8 gcm_enc cfg d s = None <-> gcm_valid (utf8 (c_key cfg)) d (c_mac_len cfg) = false.
Proof. exact encrypt_none_iff. Qed.
Print Assumptions C17_encrypt_fails_iff_rejected.

(* D13: decrypt as it was at the pinned commit (cipher built without mac_len, i.e. for a 16-byte tag)
   rejects EVERY message of EVERY configuration whose tag length is not 16 ... *)
Theorem C17_mac_len_refuted_unfixed :
  forall utf8 utf8_dec gcm_enc gcm_dec,
    gcm_laws gcm_enc gcm_dec -> gcm_tag_length_checked gcm_dec ->
    forall (cfg : config) (d s out : list Z),
      c_mac_len cfg <> 16 -> len d = c_nonce_len cfg ->
      encrypt utf8 gcm_enc cfg d s = Some out ->
      decrypt_unfixed utf8 utf8_dec gcm_dec cfg out = None.
Proof. exact mac_len_refuted. Qed.
Print Assumptions C17_mac_len_refuted_unfixed.

(* ... with a computed witness on the executable instance: tag length 8, message "hi" *)
Theorem C17_mac_len_refuted_unfixed_witness :
  exists cfg d s out, t_encrypt cfg d s = Some out /\ t_decrypt_unfixed cfg out = None /\
                      t_decrypt cfg out = Some s.
Proof.
  exists (mkCfg (repeat 107 16) 8 8), [1; 2; 3; 4; 5; 6; 7; 8], [104; 105],
         (the (t_encrypt (mkCfg (repeat 107 16) 8 8) [1; 2; 3; 4; 5; 6; 7; 8] [104; 105])).
  vm_compute. repeat split.
Qed.
Print Assumptions C17_mac_len_refuted_unfixed_witness.

(* "any change to the ciphertext, nonce or tag is rejected instead of being decrypted" - PARTIAL.
   Proved: (1) decrypt returns a text only if the cipher's verification accepted exactly the
   (nonce, ciphertext, tag) sliced from the message; (2) any message of the same length that differs
   anywhere before the 4 marker bytes presents a different triple to that verification.  NOT a theorem:
   that AES-GCM's verification rejects every changed triple (unforgeability is computational, it cannot be a
   universally quantified law); the oracle checks it on the implementation for every single-bit flip. *)
Theorem C17_decrypt_only_verified_partial :
  forall utf8 utf8_dec gcm_dec (cfg : config) (msg s : list Z),
    decrypt utf8 utf8_dec gcm_dec cfg msg = Some s ->
    exists pt, gcm_dec (utf8 (c_key cfg)) (slice_nonce cfg msg) (c_mac_len cfg)
                       (slice_ct cfg msg) (slice_tag cfg msg) = Some pt.
Proof. exact decrypt_only_verified. Qed.
Print Assumptions C17_decrypt_only_verified_partial.

Theorem C17_tamper_reaches_gcm_partial :
  forall (cfg : config) (msg msg' : list Z),
    0 <= c_nonce_len cfg -> 0 <= c_mac_len cfg ->
    c_nonce_len cfg + c_mac_len cfg + LEN_END <= len msg -> len msg' = len msg ->
    msg' <> msg -> slice_trailer msg' = slice_trailer msg ->
    (slice_ct cfg msg', slice_nonce cfg msg', slice_tag cfg msg') <>
    (slice_ct cfg msg, slice_nonce cfg msg, slice_tag cfg msg).
Proof. exact tamper_reaches_gcm. Qed.
Print Assumptions C17_tamper_reaches_gcm_partial.

(* the premises are satisfiable: the executable instance used by the correspondence check (strict UTF-8
   codec, toy xor/checksum cipher - NOT AES) satisfies all three laws, so none of the theorems is vacuous *)
Theorem C17_laws_satisfiable :
  utf8_laws utf8c utf8c_dec /\ gcm_laws toy_enc toy_dec /\ gcm_tag_length_checked toy_dec.
Proof. exact (conj utf8c_laws (conj toy_gcm_laws toy_tag_length_checked)). Qed.
Print Assumptions C17_laws_satisfiable.

(* non-vacuity, computed: AES-128-sized key, nonce length 8, tag length 4, multi-byte text; the nonce field is the
   draw; the empty message is 16 below min_length; "a\0" comes back as "a" *)
Example C17_example :
  let cfg := mkCfg (repeat 107 16) 8 4 in
  let d := [1; 2; 3; 4; 5; 6; 7; 8] in
  let o1 := t_encrypt cfg d [104; 233; 8364; 128512] in
  let o2 := t_encrypt cfg d [] in
  let o3 := t_encrypt cfg d [97; 0] in
  (o1 <> None /\ t_decrypt cfg (the o1) = Some [104; 233; 8364; 128512] /\
   slice_nonce cfg (the o1) = d /\ (min_length cfg <=? len (the o1)) = true /\
   slice_trailer (the o1) = MARKER) /\
  (o2 <> None /\ len (the o2) = 16 /\ min_length cfg = 32) /\
  (o3 <> None /\ t_decrypt cfg (the o3) = Some [97]) /\
  t_encrypt (mkCfg (repeat 107 16) 8 3) d [97] = None /\
  t_encrypt (mkCfg (repeat 107 17) 8 4) d [97] = None /\
  t_encrypt cfg [] [97] = None.
Proof. vm_compute. repeat split; discriminate. Qed.
