(* C09 / C10 end to end: replicated run state survives the wire unchanged, no matter how TCP splits the bytes.
   Statements only; proofs are in Proofs/PipelineProofs.v.

   C09.v, C17.v, C10.v and C11.v each state their part over their own model (Wire.v: records <-> JSON text and
   header; Crypto.v: aes.py; Recv.v: the receive loop for any cut into reads; Auth.v: what is done with the
   decrypted plaintext).  Model/Pipeline.v composes those very functions into

       send_receive : link -> receiver state -> client address ->
                      nonce draw -> urn -> id key -> type -> flags -> (completed, halted, updated) ->
                      network behaviour (read sizes) -> clock -> option (receiver state)

   and the theorems below say that the composition does what the properties say, for every message, every cut
   and every timely clock.  Premises (all explicit, none an axiom; each shown satisfiable at the end):
     json     loads (dumps j) = Some j, dumps gives text, the text of a dict ends in "}"      (C09's premises)
     cipher   gcm_laws, utf8_laws                                                            (C17's premises)
     framing  no_premature: no proper prefix ending at a read boundary passes the end test   (C10's premise;
              it cannot be dropped: C10_premature_marker_refuted, known finding D7)
   "The plaintext does not end in U+0000" (the exception D14 of C17's round trip) is NOT a premise: it is
   proved from the json premise (C09e2e_plaintext_never_ends_in_nul). *)
From Bobo Require Import Base.Prelude Model.IdGen Model.Wire Model.Crypto Model.Recv Model.Auth Model.Pipeline
  Proofs.WireProofs Proofs.CryptoProofs Proofs.RecvProofs Proofs.AuthProofs Proofs.PipelineProofs.

(* The two models of _split_plaintext (Wire.v: positions of the first four spaces and int() on what str(int)
   writes; Auth.v: cut at spaces and CPython's complete int()) agree on every plaintext Wire's accepts, so
   composing Wire's sender with Auth's receiver loses nothing. *)
Theorem C09e2e_split_models_agree :
  forall (s u k : Wire.str) (t f : Z) (p : Wire.str),
    Wire.split_plaintext s = Some (u, k, t, f, p) -> Auth.split_plaintext s = SplitOk u k t f p.
Proof. exact split_agree. Qed.
Print Assumptions C09e2e_split_models_agree.

(* D14 discharged: the plaintext the sender encrypts, "{urn} {key} {type} {flags} {json of a dict}", never
   ends in U+0000 (it ends in "}"), so stripping the padding after decryption returns it unchanged -- stated in
   Wire's vocabulary, in Crypto's, and as the equation about rstrip('\0'). *)
Theorem C09e2e_plaintext_never_ends_in_nul :
  forall (dumps : json -> Wire.str),
    (forall j, jvalid j = true -> str_ok (dumps j) = true) ->
    (forall kv, jvalid (JObj kv) = true -> exists t, dumps (JObj kv) = t ++ [RBRACE]) ->
    forall (urn key : Wire.str) (ty fl : Z) (m : Wire.msg),
      wf_msg m = true ->
      Wire.ends_nul (plaintext_of dumps urn key ty fl m) = false /\
      ~ CryptoProofs.ends_nul (plaintext_of dumps urn key ty fl m) /\
      rstrip0 (plaintext_of dumps urn key ty fl m) = plaintext_of dumps urn key ty fl m.
Proof. exact plaintext_not_nul. Qed.
Print Assumptions C09e2e_plaintext_never_ends_in_nul.

(* THE END-TO-END STATEMENT.  For every link configuration L (any AES key text, nonce length, tag length that
   AES.new accepts -- "wire_bytes ... = Some bytes" --, any receive timeout, read size and recursion budget at
   least the nesting depth), every receiver state st that knows the device urn with id key `key` and has room
   in its incoming queue, every client address, every nonce draw of the configured length, every SYNC / RESYNC
   with any flags, every three lists m of run records the constructors accept (any identifiers, positions and
   grouped histories of simple / complex / action events nested to any depth with any JSON data),
   EVERY cut `chunks` of the resulting byte stream into reads of 1 .. recv_bytes bytes (nothing is asked of
   the last read: it may be shorter than min_length), whatever the network does afterwards (tail), and every
   clock whose first |chunks| readings are before the receive deadline:
   the receiver's state afterwards is its state before with exactly one entry appended to the incoming queue,
   EQUAL to the sender's three lists, and the sender's address / contact times updated as C11 says (touch);
   queue bound, every other peer and every other field are unchanged (see C09e2e_delivered_state_means). *)
Theorem C09e2e_delivery :
  forall (dumps : json -> Wire.str) (loads : Wire.str -> option json)
         (utf8 : list Z -> list Z) (utf8_dec : list Z -> option (list Z))
         (gcm_enc : list Z -> list Z -> Z -> list Z -> list Z * list Z)
         (gcm_dec : list Z -> list Z -> Z -> list Z -> list Z -> option (list Z)),
    (forall j, jvalid j = true -> loads (dumps j) = Some j) ->
    (forall j, jvalid j = true -> str_ok (dumps j) = true) ->
    (forall kv, jvalid (JObj kv) = true -> exists t, dumps (JObj kv) = t ++ [RBRACE]) ->
    gcm_laws gcm_enc gcm_dec -> utf8_laws utf8 utf8_dec ->
    forall (L : link) (st : rstate) (addr draw urn key : Wire.str) (ty fl : Z) (m : Wire.msg) (d : peer)
           (bytes : list Z) (chunks : list (list Z)) (tail : list Z) (a : Z) (clock : list Z),
      str_ok urn = true -> str_ok key = true -> ~ In SP urn -> ~ In SP key ->
      wf_msg m = true -> (msg_depth m <= l_fuel L)%nat ->
      Crypto.len draw = c_nonce_len (l_cfg L) ->
      wire_bytes dumps utf8 gcm_enc (l_cfg L) draw urn key ty fl m = Some bytes ->
      find_peer urn (s_peers st) = Some d -> key = p_key d ->
      (ty = TYPE_SYNC \/ ty = TYPE_RESYNC) -> qfull Wire.msg st = false ->
      concat chunks = bytes -> Forall (chunk_ok (rcfg_of L)) chunks ->
      no_premature (rcfg_of L) chunks -> timely (rcfg_of L) a (length chunks) clock ->
      send_receive dumps loads utf8 utf8_dec gcm_enc gcm_dec L st addr draw urn key ty fl m
                   (sizes_of chunks ++ tail) (a :: clock)
      = Some (mkS (touch urn addr fl (s_peers st)) (s_queue st ++ [m]) (s_qmax st)).
Proof. exact e2e_delivery. Qed.
Print Assumptions C09e2e_delivery.

(* The same with the cut named by its read sizes alone: any k_1 .. k_n with 1 <= k_i <= recv_bytes adding up
   to the number of bytes on the wire. *)
Theorem C09e2e_delivery_by_read_sizes :
  forall (dumps : json -> Wire.str) (loads : Wire.str -> option json)
         (utf8 : list Z -> list Z) (utf8_dec : list Z -> option (list Z))
         (gcm_enc : list Z -> list Z -> Z -> list Z -> list Z * list Z)
         (gcm_dec : list Z -> list Z -> Z -> list Z -> list Z -> option (list Z)),
    (forall j, jvalid j = true -> loads (dumps j) = Some j) ->
    (forall j, jvalid j = true -> str_ok (dumps j) = true) ->
    (forall kv, jvalid (JObj kv) = true -> exists t, dumps (JObj kv) = t ++ [RBRACE]) ->
    gcm_laws gcm_enc gcm_dec -> utf8_laws utf8 utf8_dec ->
    forall (L : link) (st : rstate) (addr draw urn key : Wire.str) (ty fl : Z) (m : Wire.msg) (d : peer)
           (bytes : list Z) (sizes : list nat) (tail : list Z) (a : Z) (clock : list Z),
      str_ok urn = true -> str_ok key = true -> ~ In SP urn -> ~ In SP key ->
      wf_msg m = true -> (msg_depth m <= l_fuel L)%nat ->
      Crypto.len draw = c_nonce_len (l_cfg L) ->
      wire_bytes dumps utf8 gcm_enc (l_cfg L) draw urn key ty fl m = Some bytes ->
      find_peer urn (s_peers st) = Some d -> key = p_key d ->
      (ty = TYPE_SYNC \/ ty = TYPE_RESYNC) -> qfull Wire.msg st = false ->
      Forall (fun k => 1 <= k <= l_nrecv L)%nat sizes -> list_sum sizes = length bytes ->
      no_premature (rcfg_of L) (cut_by sizes bytes) -> timely (rcfg_of L) a (length sizes) clock ->
      send_receive dumps loads utf8 utf8_dec gcm_enc gcm_dec L st addr draw urn key ty fl m
                   (map Z.of_nat sizes ++ tail) (a :: clock)
      = Some (mkS (touch urn addr fl (s_peers st)) (s_queue st ++ [m]) (s_qmax st)).
Proof. exact e2e_delivery_sizes. Qed.
Print Assumptions C09e2e_delivery_by_read_sizes.

(* Any type and flags, full or empty queue: the state afterwards is exactly what C11 prescribes for an
   authenticated well-formed message (expected_state: SYNC/RESYNC enqueue or, queue full, only the address;
   PING touches the peer only; any other type changes nothing). *)
Theorem C09e2e_any_type_and_flags :
  forall (dumps : json -> Wire.str) (loads : Wire.str -> option json)
         (utf8 : list Z -> list Z) (utf8_dec : list Z -> option (list Z))
         (gcm_enc : list Z -> list Z -> Z -> list Z -> list Z * list Z)
         (gcm_dec : list Z -> list Z -> Z -> list Z -> list Z -> option (list Z)),
    (forall j, jvalid j = true -> loads (dumps j) = Some j) ->
    (forall j, jvalid j = true -> str_ok (dumps j) = true) ->
    (forall kv, jvalid (JObj kv) = true -> exists t, dumps (JObj kv) = t ++ [RBRACE]) ->
    gcm_laws gcm_enc gcm_dec -> utf8_laws utf8 utf8_dec ->
    forall (L : link) (st : rstate) (addr draw urn key : Wire.str) (ty fl : Z) (m : Wire.msg) (d : peer)
           (bytes : list Z) (chunks : list (list Z)) (tail : list Z) (a : Z) (clock : list Z),
      str_ok urn = true -> str_ok key = true -> ~ In SP urn -> ~ In SP key ->
      wf_msg m = true -> (msg_depth m <= l_fuel L)%nat ->
      Crypto.len draw = c_nonce_len (l_cfg L) ->
      wire_bytes dumps utf8 gcm_enc (l_cfg L) draw urn key ty fl m = Some bytes ->
      find_peer urn (s_peers st) = Some d -> key = p_key d ->
      concat chunks = bytes -> Forall (chunk_ok (rcfg_of L)) chunks ->
      no_premature (rcfg_of L) chunks -> timely (rcfg_of L) a (length chunks) clock ->
      send_receive dumps loads utf8 utf8_dec gcm_enc gcm_dec L st addr draw urn key ty fl m
                   (sizes_of chunks ++ tail) (a :: clock)
      = Some (expected_state st addr urn ty fl m).
Proof. exact e2e_any_type. Qed.
Print Assumptions C09e2e_any_type_and_flags.

(* What the final state of C09e2e_delivery says, piece by piece: one more queue entry, the last, equal to
   what was sent and with the same text when serialised again; the sending peer has the client's address and,
   iff RESET was set, cleared contact times; every other peer is identical and no peer's name, key, reset
   request or backlog changed; _update() makes exactly one on_distributed_update call with those lists. *)
Theorem C09e2e_delivered_state_means :
  forall (st : rstate) (addr urn : Wire.str) (fl : Z) (m : Wire.msg) (d : peer) (dumps : json -> Wire.str),
    find_peer urn (s_peers st) = Some d ->
    let st' := mkS (touch urn addr fl (s_peers st)) (s_queue st ++ [m]) (s_qmax st) in
    length (s_queue st') = S (length (s_queue st)) /\
    firstn (length (s_queue st)) (s_queue st') = s_queue st /\
    (forall m', last (s_queue st') m' = m /\
                Wire.msg_to_str dumps (last (s_queue st') m') = Wire.msg_to_str dumps m) /\
    find_peer urn (s_peers st') = Some (touched d addr fl) /\
    Forall2 (same_but_contact urn) (s_peers st) (s_peers st') /\
    s_qmax st' = s_qmax st /\
    (s_queue st = [] -> has_records m = true -> deliveries st' = [m]).
Proof. exact delivered_state_facts. Qed.
Print Assumptions C09e2e_delivered_state_means.

(* The premises about the external libraries are jointly satisfiable: the executable stand-ins of Wire.v
   (tdumps / tloads) and Crypto.v (strict UTF-8, toy cipher) satisfy all of them. *)
Theorem C09e2e_laws_satisfiable :
  (forall j, jvalid j = true -> tloads (tdumps j) = Some j) /\
  (forall j, jvalid j = true -> str_ok (tdumps j) = true) /\
  (forall kv, jvalid (JObj kv) = true -> exists t, tdumps (JObj kv) = t ++ [RBRACE]) /\
  gcm_laws toy_enc toy_dec /\ utf8_laws utf8c utf8c_dec.
Proof.
  exact (conj (fun j _ => tloads_tdumps j)
              (conj tdumps_text (conj (fun kv _ => tdumps_obj_brace kv) (conj toy_gcm_laws utf8c_laws)))).
Qed.
Print Assumptions C09e2e_laws_satisfiable.

(* ---- non-vacuity: a concrete message (all three event kinds, a nested history, the empty group name, NUL,
   quotes, a backslash, BOBO and a non-ASCII character inside identifiers and data), key of 16 characters,
   nonce length 8, tag length 4, RESET flag, a receiver with two peers in non-trivial states, and a concrete
   3-way cut 600 + 374 + 5 of the 979 bytes (last read shorter than min_length = 32). *)
Definition x_simple : event := Simple [101; 0; 66; 79; 66; 79] 5 (JArr [JInt (-7); JStr [34; 92; 233]; JNull]).
Definition x_action : event := Action [97] 7 (JBool true) [112] [113] [97; 99; 116] false.
Definition x_complex : event :=
  Complex [99] 6 JNull [112] [113] [([], [x_simple]); ([103; 32], [x_action; x_simple])].
Definition x_msg : Wire.msg :=
  ([mkRS [114; 49] [112] [] 3 [([103], [x_complex; x_simple])]], [],
   [mkRS [114; 50] [112] [113] 1 [([], [x_action])]]).
Definition x_link : link := mkLink (mkCfg (repeat 107 16) 8 4) 3 700 2.
Definition x_draw : list Z := [1; 2; 3; 4; 5; 6; 7; 8].
Definition x_peer : peer := mkP [117] [107] [49] 50 60 false [0; 0; 0].
Definition x_state : rstate := mkS [x_peer; mkP [118] [120] [50] 5 6 true [1; 0; 2]] [] 0.
Definition x_addr : Wire.str := [57; 46; 57].
Definition x_bytes : list Z := the (wire_bytes tdumps utf8c toy_enc (l_cfg x_link) x_draw [117] [107] 0 1 x_msg).
Definition x_chunks : list (list Z) := cut_by [600; 374; 5]%nat x_bytes.

(* every premise of C09e2e_delivery holds for it ... *)
Example C09e2e_example_premises :
  str_ok [117] = true /\ str_ok [107] = true /\ ~ In SP [117] /\ ~ In SP [107] /\
  wf_msg x_msg = true /\ (msg_depth x_msg <= l_fuel x_link)%nat /\
  Crypto.len x_draw = c_nonce_len (l_cfg x_link) /\
  wire_bytes tdumps utf8c toy_enc (l_cfg x_link) x_draw [117] [107] 0 1 x_msg = Some x_bytes /\
  find_peer [117] (s_peers x_state) = Some x_peer /\ [107] = p_key x_peer /\
  qfull Wire.msg x_state = false /\
  concat x_chunks = x_bytes /\ length x_chunks = 3%nat /\ length x_bytes = 979%nat /\
  Forall (chunk_ok (rcfg_of x_link)) x_chunks /\
  no_premature (rcfg_of x_link) x_chunks /\ timely (rcfg_of x_link) 100 (length x_chunks) [100; 101; 102].
Proof.
  repeat match goal with |- _ /\ _ => split end; try (vm_compute; reflexivity).
  - intros [H | []]; discriminate H.
  - intros [H | []]; discriminate H.
  - unfold x_chunks. cbn [cut_by].
    repeat (apply Forall_cons;
            [split; [intro H; apply (f_equal (@length Z)) in H; vm_compute in H; discriminate H | vm_compute; lia]|]).
    apply Forall_nil.
  - intros k Hk. change (length x_chunks) with 3%nat in Hk.
    assert (E : k = 1%nat \/ k = 2%nat) by lia. destruct E as [-> | ->]; vm_compute; reflexivity.
  - split; [vm_compute; lia | vm_compute; repeat constructor].
Qed.

(* ... and so the theorem applies to it: computed, the model delivers exactly the message, replaces the peer's
   address, clears its contact times (RESET) and leaves the other peer alone *)
Example C09e2e_example_runs :
  send_receive tdumps tloads utf8c utf8c_dec toy_enc toy_dec x_link x_state x_addr x_draw [117] [107] 0 1 x_msg
               [600; 374; 5] [100; 100; 101; 102]
  = Some (mkS [mkP [117] [107] x_addr 0 0 false [0; 0; 0]; mkP [118] [120] [50] 5 6 true [1; 0; 2]] [x_msg] 0).
Proof. vm_compute. reflexivity. Qed.
