(* C12  Run lifecycle is monotone and terminal; published snapshots never change.  Statements only.
   (Frozen snapshots: values are immutable in Gallina, so that part is carried by the correspondence check,
   which re-serialises every object published at an earlier step after every later step.) *)
From Bobo Require Import Base.Prelude Base.History Model.Pattern Model.Run Model.Decider.
From Bobo Require Import Proofs.RunProofs Proofs.DeciderLemmas Proofs.DeciderProofs Proofs.StepProofs.

Section C12.
  Variable E : Type.

  (* position never decreases under local processing; identity and pattern never change *)
  Theorem C12_index_monotone : forall (r : run E) (e : E) r' c,
    process r e = Ok (r', c) -> (r_idx r <= r_idx r')%nat /\ r_id r' = r_id r /\ r_pat r' = r_pat r.
  Proof.
    intros r e r' c H. pose proof (process_outcome E r e r' c H) as Ho.
    destruct (outcome_id E r e r' c Ho) as [H1 [_ H3]]. split; [eapply outcome_index_monotone; eauto|auto].
  Qed.

  (* local processing changes the history only by appending the event just accepted, to the group of a block *)
  Theorem C12_local_appends_only : forall (r : run E) (e : E) r' c,
    process r e = Ok (r', c) ->
    r_hist r' = r_hist r \/ exists b, In b (p_blocks (r_pat r)) /\ r_hist r' = hadd (b_group b) e (r_hist r).
  Proof. intros r e r' c H. eapply outcome_history, process_outcome; eauto. Qed.

  (* a finished run ignores every further event ... *)
  Theorem C12_finished_ignores_events : forall (r : run E) (e : E),
    r_halted r = true -> process r e = Ok (r, false).
  Proof. exact (process_halted_ignores E). Qed.

  (* ... and leaves the active set in the very step in which it finishes *)
  Theorem C12_finished_leaves_active_set : forall (r : run E) (e : E) r',
    process r e = Ok (r', true) -> r_halted r' = true -> after_event e r = None.
  Proof. intros r e r' H Hh. unfold after_event. now rewrite H, Hh. Qed.

  (* a run is announced by a local step only as the direct result of process on a run that was active *)
  Theorem C12_announced_from_active : forall cfg (s s' : dstate E) (e : E) (n : note E),
    local_step cfg s e = Ok (s', n) ->
    exists pc pu,
      Forall (fresh_for E cfg e) pc /\ Forall (fresh_for E cfg e) pu /\
      n_comp n = map ser (sel KComp (flat_map (run_event e) (rt_all (d_runs s))) ++ pc) /\
      n_halt n = map ser (sel KHalt (flat_map (run_event e) (rt_all (d_runs s)))) /\
      n_upd n = map ser (sel KUpd (flat_map (run_event e) (rt_all (d_runs s))) ++ pu).
  Proof. exact (local_step_note E). Qed.

  (* ... and what it announces about such a run is the run exactly as process left it: the same identifier, a position
     not behind the one the run had before the event (with C12_announced_from_active: every record of the three lists
     that is not a freshly started run) *)
  Theorem C12_announced_position_not_behind : forall (e : E) (k : kind) (l : list (run E)) (x : run E),
    In x (sel k (flat_map (run_event e) l)) ->
    exists r, In r l /\ process r e = Ok (x, true) /\ k = kind_of x /\ run_le E r x /\
              (s_idx (ser x) >= r_idx r)%nat /\ s_id (ser x) = r_id r.
  Proof. exact (sel_run_event_current E). Qed.

  (* snapshot(): the active runs as they are now, nothing else *)
  Theorem C12_snapshot_is_current : forall (s : dstate E), n_upd (snapshot s) = map ser (rt_all (d_runs s)).
  Proof. reflexivity. Qed.

  (* local steps: every surviving run moved forward (index greater, or equal index and history not shorter) *)
  Theorem C12_local_never_backwards : forall (e : E) (r r' : run E),
    after_event e r = Some r' -> run_le E r r'.
  Proof. exact (after_event_run_le E). Qed.

  (* remote updates: no active run is dropped or moved backwards by ANY list of remote records *)
  Theorem C12_remote_never_backwards : forall cfg d3 recs (rt rt' : runtab E) out ph pat,
    Inv E cfg rt -> apply_updated cfg d3 recs rt = (rt', out) ->
    forall r, In r (bucket ph pat rt) -> exists r', In r' (bucket ph pat rt') /\ run_le E r r'.
  Proof. exact (apply_updated_never_backwards E). Qed.

  (* a remote update is applied only if it is ahead of the local copy *)
  Theorem C12_remote_only_if_ahead : forall cfg d3 (rc : rserial E) (rt : runtab E) (p : pattern E) (rl : run E) ph pat,
    Inv E cfg rt -> get_pattern cfg (s_ph rc) (s_pat rc) = Some p -> p_single p = false ->
    run_at (s_ph rc) (s_pat rc) (s_id rc) rt = Some rl -> ahead d3 rc rl = false ->
    bucket ph pat (fst (apply_updated cfg d3 [rc] rt)) = bucket ph pat rt.
  Proof. exact (remote_behind_ignored E). Qed.

  (* No two active runs of a pattern share an identifier: after every history of local events and
     arbitrary remote messages. *)
  Theorem C12_active_ids_distinct : forall cfg ops (s : dstate E) ph pat,
    cfg_wf E cfg -> run_ops E cfg d_init ops = Some s -> NoDup (map (@r_id E) (bucket ph pat (d_runs s))).
  Proof.
    intros cfg ops s ph pat Hc Hr. destruct (Inv_reachable E cfg ops s Hc Hr) as [_ [_ [H _]]]. exact (H ph pat).
  Qed.
End C12.
Print Assumptions C12_index_monotone.
Print Assumptions C12_local_appends_only.
Print Assumptions C12_finished_ignores_events.
Print Assumptions C12_finished_leaves_active_set.
Print Assumptions C12_announced_from_active.
Print Assumptions C12_announced_position_not_behind.
Print Assumptions C12_snapshot_is_current.
Print Assumptions C12_local_never_backwards.
Print Assumptions C12_remote_never_backwards.
Print Assumptions C12_remote_only_if_ahead.
Print Assumptions C12_active_ids_distinct.

From Bobo Require Import Model.PredLang.
Example C12_example :   (* a remote record behind the local copy exists and is ignored: run 100 at index 2 *)
  run_decider (CD [(1, [PD 1 [BD [PDataEq 1] 1 false false false false; BD [PDataEq 2] 2 false false false false;
                              BD [PDataEq 3] 3 false false false false] [] [] false])] 5 100,
               [OLocal (mkEv 0 0 0 1 0 0); OLocal (mkEv 1 1 0 2 0 0);
                ORemote (mkNote [] [] [mkSer 100 1 1 1 [(1, [mkEv 0 0 0 1 0 0])]])]) <> [].
Proof. vm_compute. discriminate. Qed.
