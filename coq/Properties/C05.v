(* C05  A finished run stays finished: at most one complex event per run and instance.  Statements only. *)
From Bobo Require Import Base.Prelude Base.History Model.Pattern Model.Run Model.Decider Model.PredLang.
From Bobo Require Import Proofs.RunProofs Proofs.DeciderLemmas Proofs.DeciderProofs Proofs.StepProofs.
From Bobo Require Import Model.Cluster Model.Converge Model.ConvergeC.
From Bobo Require Import Proofs.RemoteProofs Proofs.RemoteWitness Proofs.ConvergeProofs Proofs.JoinProofs Proofs.LocalProofs Proofs.SimProofs.
From Bobo Require Import Proofs.ConvergeExample.

Section C05.
  Variable E : Type.

  (* No later, stale, merged or repeated message can make a finished run active again: for ANY message, every
     run active after it either was active before (same identifier), or carries an identifier that the message
     itself does not declare finished and that this instance does not remember as completed or halted. *)
  Theorem C05_no_resurrection : forall cfg (s s' : dstate E) (m n : note E) ph pat r',
    remote_apply cfg s m = (s', n) -> In r' (bucket ph pat (d_runs s')) ->
    (exists r, In r (bucket ph pat (d_runs s)) /\ r_id r = r_id r') \/
    (~ In (r_id r') (ids_of (n_comp m)) /\ ~ In (r_id r') (ids_of (n_halt m)) /\
     (c_maxcache cfg <> O -> remembered E s (r_id r') = false)).
  Proof. exact (no_resurrection E). Qed.

  (* A completion learned from a peer is reported (and becomes a complex event) only if the instance does not
     already remember that run as completed: no second complex event.  The only other entries of the list are
     local active runs of singleton patterns which the remote completion replaced. *)
  Theorem C05_remote_completion_reported_once : forall cfg (s s' : dstate E) (m n : note E) x,
    remote_apply cfg s m = (s', n) -> In x (n_comp n) ->
    (In x (n_comp m) /\ (c_maxcache cfg <> O -> zmem (s_id x) (ids_of (d_cc s)) = false)) \/
    (exists rl, In rl (rt_all (d_runs s)) /\ x = ser rl).
  Proof. exact (remote_completed_not_remembered E). Qed.

  (* local steps: a finished run leaves the active set in that very step and a halted/completed run ignores events *)
  Theorem C05_finished_leaves_active_set : forall (r : run E) (e : E) r',
    process r e = Ok (r', true) -> r_halted r' = true -> after_event e r = None.
  Proof. intros r e r' H Hh. unfold after_event. now rewrite H, Hh. Qed.

  (* precedence inside one message and against the memory *)
  Theorem C05_completion_beats_halt : forall cfg (s : dstate E) (m : note E) rc,
    In rc (n_halt (filter_msg cfg s m)) -> ~ In (s_id rc) (ids_of (n_comp m)).
  Proof. exact (completion_beats_halt E). Qed.

  Theorem C05_halt_beats_progress : forall cfg (s : dstate E) (m : note E) rc,
    In rc (n_upd (filter_msg cfg s m)) ->
    ~ In (s_id rc) (ids_of (n_comp m)) /\ ~ In (s_id rc) (ids_of (n_halt m)).
  Proof. exact (RemoteProofs.halt_beats_progress E). Qed.
End C05.

(* Over whole histories (non-singleton patterns, memory enabled with room, well-formed messages made of announced
   facts): once an instance has seen a run halt or complete - locally or through a peer - the run is finished on
   that instance after every later local event and every later, stale, merged or repeated message; a completed
   run stays completed.  (cstatus >= Halted means: not among the active runs.) *)
Theorem C05_finished_is_absorbing :
  forall (E : Type) (owner : Z -> Z * Z) (cfg : config E) (gen : nat -> nat -> Z),
    (forall ph pat p, get_pattern cfg ph pat = Some p -> p_single p = false) ->
    cfg_wf E cfg -> c_maxcache cfg <> O ->
    forall c c' k id, good E owner cfg gen c -> csteps E owner cfg gen c c' ->
      st_le Halted (cstatus owner (c_st E c k) id) = true ->
      st_le Halted (cstatus owner (c_st E c' k) id) = true.
Proof. exact finished_is_absorbing. Qed.

Theorem C05_completed_is_absorbing :
  forall (E : Type) (owner : Z -> Z * Z) (cfg : config E) (gen : nat -> nat -> Z),
    (forall ph pat p, get_pattern cfg ph pat = Some p -> p_single p = false) ->
    cfg_wf E cfg -> c_maxcache cfg <> O ->
    forall c c' k id, good E owner cfg gen c -> csteps E owner cfg gen c c' ->
      cstatus owner (c_st E c k) id = Completed -> cstatus owner (c_st E c' k) id = Completed.
Proof. exact completed_is_absorbing. Qed.

(* the remote path of the pinned commit violates the property (D1 stale update, D2 merged message) *)
Theorem C05_stale_update_refuted_unfixed :
  remembered ev s_halted 100 = true /\ active_ids s_halted = [] /\
  active_ids (fst (remote_apply_gen true true wcfg s_halted (mkNote [] [] [stale]))) = [] /\
  active_ids (fst (remote_apply_gen false false wcfg s_halted (mkNote [] [] [stale]))) = [100].
Proof. exact d1_witness. Qed.

Theorem C05_merged_message_refuted_unfixed :
  active_ids s_active = [100] /\
  active_ids (fst (remote_apply_gen true true wcfg s_active merged)) = [] /\
  active_ids (fst (remote_apply_gen false false wcfg s_active merged)) = [100].
Proof. exact d2_witness. Qed.

Print Assumptions C05_no_resurrection.
Print Assumptions C05_remote_completion_reported_once.
Print Assumptions C05_finished_leaves_active_set.
Print Assumptions C05_completion_beats_halt.
Print Assumptions C05_halt_beats_progress.
Print Assumptions C05_finished_is_absorbing.
Print Assumptions C05_completed_is_absorbing.
Print Assumptions C05_stale_update_refuted_unfixed.
Print Assumptions C05_merged_message_refuted_unfixed.

(* non-vacuity of C05_completed_is_absorbing / C05_finished_is_absorbing: a reachable (hence good) state of two
   deciders, from which a legal execution - event b at instance 1 completes run 1000 there, then the OLD note
   (run 1000 active at block 1) is delivered to instance 1 once more - leaves the run completed and not active *)
Example C05_absorbing_nonvacuous :
  good ev cx_owner cx_cfg cx_gen cx_c2 /\ csteps ev cx_owner cx_cfg cx_gen cx_c2 cx_c4 /\
  cstatus cx_owner (c_st ev cx_c3 1) 1000 = Completed /\ cstatus cx_owner (c_st ev cx_c4 1) 1000 = Completed /\
  rt_all (d_runs (c_st ev cx_c4 1)) = [].
Proof. exact (conj cx_good2 (conj cx_csteps_more cx_completed)). Qed.
