(* C14  A failing predicate cannot corrupt or stop detection.  Statements only. *)
From Bobo Require Import Base.Prelude Base.History Model.Pattern Model.Run Model.Decider.
From Bobo Require Import Proofs.RunProofs Proofs.DeciderLemmas Proofs.DeciderProofs Proofs.StepProofs.

Section C14.
  Variable E : Type.

  (* If a predicate, precondition or haltcondition raises while a run processes an event, the decider keeps
     the run exactly as it was and reports nothing for it. *)
  Theorem C14_raise_leaves_run : forall (r : run E) (e : E) k,
    process r e = Exn k -> after_event e r = Some r /\ run_event e r = [].
  Proof. intros r e k H. unfold after_event, run_event. rewrite H. auto. Qed.

  (* The engine keeps running: a decider step never fails because of a predicate. *)
  Theorem C14_step_never_fails_on_predicate : forall cfg (s : dstate E) (e : E) k,
    local_step cfg s e = Exn k -> k = EDupRun.
  Proof. exact (local_step_exn E). Qed.

  (* Every other run processes the event as if nothing had happened: what a step does to a run depends on
     that run's own process result only (the table afterwards is computed run by run), and a run on which
     nothing raised behaves exactly as it would if the raising predicates returned False instead. *)
  Theorem C14_runs_independent : forall cfg (s s' : dstate E) (e : E) (n : note E) ph pat,
    local_step cfg s e = Ok (s', n) ->
    exists started,
      bucket ph pat (d_runs s') =
        flat_map (fun r => optl (after_event e r)) (bucket ph pat (d_runs s)) ++ started
      /\ Forall (fresh_for E cfg e) started.
  Proof. exact (local_step_bucket E). Qed.

  Theorem C14_unaffected_run_as_if_false : forall (r : run E) (e : E),
    (forall k, process r e <> Exn k) ->
    process (deraise_run E r) e = lift_res E (process r e).
  Proof. exact (process_deraise E). Qed.

  (* pattern start: a raising first-block predicate counts as "did not match", the others are still tried *)
  Theorem C14_first_block_raise_is_false : forall (ps : list (pred E)) (e : E),
    any_swallow ps e = any_swallow (map (deraise E) ps) e.
  Proof.
    induction ps as [|p ps IH]; intro e; simpl; [reflexivity|]. unfold deraise at 1.
    destruct (p e []); auto.
  Qed.
End C14.
Print Assumptions C14_raise_leaves_run.
Print Assumptions C14_step_never_fails_on_predicate.
Print Assumptions C14_runs_independent.
Print Assumptions C14_unaffected_run_as_if_false.
Print Assumptions C14_first_block_raise_is_false.

From Bobo Require Import Model.PredLang.
(* non-vacuity: a predicate that raises on the second event leaves the run where it was *)
Example C14_example :
  exists r, process r (mkEv 1 1 0 2 0 0) = Exn EPred.
Proof.
  exists (new_run 7 1 (mk_pattern (PD 1 [BD [PDataEq 1] 1 false false false false;
                                         BD [PRaiseOn [1] (PDataEq 2)] 2 false false false false] [] [] false))
                  (mkEv 0 0 0 1 0 0)).
  vm_compute. reflexivity.
Qed.
