(* C18  Validators gate the stream consistently.  Statements only; proofs are in
   Proofs/ValidatorProofs.v, the model in Model/Validator.v.

   Everything below quantifies over every validator (all four classes; every list of types and
   either subtype flag; every JSON schema, a schema being represented by jsonschema's answer on
   every value), every Python value of the model (unbounded nesting, ints of any size), every
   event kind, every stream, and every result of the id / timestamp generators. *)
From Bobo Require Import Base.Prelude Model.Validator Proofs.ValidatorProofs.

(* "Data rejected by the configured validator never becomes an event": a datum whose verdict is
   not True (False, or is_valid raised) publishes nothing. *)
Theorem C18_rejected_never_an_event :
  forall val nxt d, is_valid val d <> PTrue -> recv_process val nxt d = None.
Proof. exact rejected_never_an_event. Qed.
Print Assumptions C18_rejected_never_an_event.

(* "... anywhere in the engine": whatever reaches the receiver's subscribers during any run over
   any queue content stems from an accepted datum of the queue and carries that datum's data; it
   is that very event if the datum was an event and a simple event otherwise. *)
Theorem C18_stream_only_accepted_data :
  forall val sup ds e,
    In e (delivered (recv_stream val sup ds)) ->
    exists d, In d ds /\ is_valid val d = PTrue /\ ev_data e = datum_data d /\
              match d with Ev e0 => e = e0 | Bare _ => ev_kind e = KSimple end.
Proof. exact stream_delivered_accepted. Qed.
Print Assumptions C18_stream_only_accepted_data.

(* "accepted data becomes exactly one simple event carrying it unchanged": the one event is the
   simple event built from the generators' next results and the datum itself. *)
Theorem C18_accepted_exactly_one_simple_event_same_data :
  forall val nxt v,
    is_valid val (Bare v) = PTrue ->
    recv_process val nxt (Bare v) = Some (mkEv KSimple (fst nxt) (snd nxt) v).
Proof. exact accepted_exactly_one_simple_event_same_data. Qed.
Print Assumptions C18_accepted_exactly_one_simple_event_same_data.

(* "events pass through as they are" *)
Theorem C18_events_pass_through :
  forall val nxt e, is_valid val (Ev e) = PTrue -> recv_process val nxt (Ev e) = Some e.
Proof. exact events_pass_through. Qed.
Print Assumptions C18_events_pass_through.

(* stream form of the two: one event per accepted datum, none for the rest, queue order kept,
   data unchanged; a stream of events comes out as the sub-stream of the accepted events *)
Theorem C18_stream_one_event_per_accepted_datum :
  forall val sup ds,
    map ev_data (delivered (recv_stream val sup ds)) = map datum_data (filter (accepted val) ds).
Proof. exact stream_data. Qed.
Print Assumptions C18_stream_one_event_per_accepted_datum.

Theorem C18_stream_events_pass_through :
  forall val sup ds,
    (forall d, In d ds -> exists e, d = Ev e) ->
    map Ev (delivered (recv_stream val sup ds)) = filter (accepted val) ds.
Proof. exact stream_events_pass. Qed.
Print Assumptions C18_stream_events_pass_through.

(* "Every validator judges an event by the data it carries, so the same data gets the same
   verdict wrapped or unwrapped" (verdict = True / False / raises BoboValidatorError) *)
Theorem C18_verdict_wrapped_eq_bare :
  forall val e, is_valid val (Ev e) = is_valid val (Bare (ev_data e)).
Proof. exact verdict_wrapped_eq_bare. Qed.
Print Assumptions C18_verdict_wrapped_eq_bare.

Theorem C18_verdict_depends_on_data_only :
  forall val d1 d2, datum_data d1 = datum_data d2 -> is_valid val d1 = is_valid val d2.
Proof. exact verdict_by_data. Qed.
Print Assumptions C18_verdict_depends_on_data_only.

(* "anything a JSON validator accepts can be serialised for replication": json.dumps accepts the
   data, and the event the receiver publishes for it serialises (to_json_str), provided its
   timestamp is an int that str() can print *)
Theorem C18_json_validators_imply_jsonable :
  forall val d,
    is_json_validator val = true -> is_valid val d = PTrue -> jsonable (datum_data d) = true.
Proof. exact json_validators_imply_jsonable. Qed.
Print Assumptions C18_json_validators_imply_jsonable.

Theorem C18_json_accepted_event_serialisable :
  forall val nxt d e,
    is_json_validator val = true -> recv_process val nxt d = Some e ->
    int_str_ok (ev_ts e) = true -> event_serialisable e = true.
Proof. exact json_accepted_serialisable. Qed.
Print Assumptions C18_json_accepted_event_serialisable.

(* The JSONSchema validator of the pinned commit (no unwrapping, no JSONable check: D15) violates
   both sentences; witnesses: schema "type: integer" with 3 bare / inside a complex event, and
   schema {} with a set.  Third form: the fed-back event is dropped by the gate. *)
Theorem C18_d15_refuted_verdict :
  exists val e, is_valid_pinned val (Ev e) <> is_valid_pinned val (Bare (ev_data e)).
Proof. exact d15_refuted_verdict. Qed.
Print Assumptions C18_d15_refuted_verdict.

Theorem C18_d15_refuted_jsonable :
  exists val d, is_json_validator val = true /\ is_valid_pinned val d = PTrue /\
                jsonable (datum_data d) = false.
Proof. exact d15_refuted_jsonable. Qed.
Print Assumptions C18_d15_refuted_jsonable.

Theorem C18_d15_refuted_gate :
  exists val nxt e,
    recv_process_pinned val nxt (Ev e) = None /\
    recv_process_pinned val nxt (Bare (ev_data e)) <> None.
Proof. exact d15_refuted_gate. Qed.
Print Assumptions C18_d15_refuted_gate.

(* non-vacuity *)
(* a rejected datum exists (JSONable refuses a dict with a tuple key), wrapped or not *)
Example C18_ex_rejected :
  is_valid ValJSONable (Bare (VDict [(VTuple [VInt 1], VInt 2)])) = PFalse /\
  recv_process ValJSONable ([103], 7) (Ev (mkEv KAction [97] 1 (VList [VOpaque OBytes]))) = None.
Proof. split; reflexivity. Qed.

(* an accepted bare datum: NaN inside a tuple is JSON for CPython; one simple event, same data *)
Example C18_ex_accepted_bare :
  recv_process ValJSONable ([103], 7) (Bare (VTuple [VFloat FNan; VNone]))
  = Some (mkEv KSimple [103] 7 (VTuple [VFloat FNan; VNone])).
Proof. reflexivity. Qed.

(* an accepted event passes through; bool data count as int only with subtype=True *)
Example C18_ex_event_passes :
  recv_process (ValType [TyInt] true) ([103], 7) (Ev (mkEv KComplex [99] 5 (VBool true)))
  = Some (mkEv KComplex [99] 5 (VBool true)) /\
  recv_process (ValType [TyInt] false) ([103], 7) (Ev (mkEv KComplex [99] 5 (VBool true))) = None.
Proof. split; reflexivity. Qed.

(* a stream: a set, 3 inside an action event, a string, a cyclic list; schema "type: integer" *)
Example C18_ex_stream :
  delivered (recv_stream (ValJSONSchema schema_integer) [([103], 7); ([104], 8)]
               [Bare (VOpaque OSet); Ev (mkEv KAction [97] 1 (VInt 3)); Bare (VInt 4);
                Bare (VStr [120]); Bare (VList [VCyclic false])])
  = [mkEv KAction [97] 1 (VInt 3); mkEv KSimple [103] 7 (VInt 4)].
Proof. reflexivity. Qed.

(* the JSON guarantee is not vacuous and is specific to JSON validators *)
Example C18_ex_serialisable :
  event_serialisable (mkEv KComplex [99] 5 (VDict [(VInt 1, VList [VFloat FPosInf])])) = true /\
  is_valid ValAll (Bare (VOpaque OSet)) = PTrue /\ jsonable (VOpaque OSet) = false.
Proof. repeat split; reflexivity. Qed.

(* the repaired validator on the D15 witnesses *)
Example C18_ex_fixed_on_witnesses :
  is_valid (ValJSONSchema schema_integer) (Ev ev3) = PTrue /\
  is_valid (ValJSONSchema schema_any) (Bare (VOpaque OSet)) = PFalse.
Proof. exact fixed_on_witnesses. Qed.
