(* C11  Only authenticated peers can influence an instance.
   Statements only; proofs are in Proofs/AuthProofs.v.  The model (Model/Auth.v) is what
   _tcp_incoming_handle_client does with a decrypted plaintext, plus the accept loop _tcp_incoming on
   top of the receive loop of Model/Recv.v.  AES-GCM (decrypt) and the payload parser
   (_incoming_from_json) are arbitrary functions in every theorem (Section variables, now universally
   quantified): the statements hold whatever they are; that a modified ciphertext makes decrypt fail
   is AES-GCM's authenticity and is exercised by the correspondence/oracle, not proved. *)
From Bobo Require Import Base.Prelude Model.Recv Model.Auth Proofs.RecvProofs Proofs.AuthProofs.

(* Whenever the outcome is a rejection, the state afterwards IS the state before: no peer's address,
   last contact, last attempt, reset request or backlog has changed and nothing has been enqueued
   (so nothing reaches the decider).  For all plaintexts, peers, addresses, parsers. *)
Theorem C11_reject_is_identity :
  forall (msg : Type) (parse : str -> option msg) (st : istate msg) (addr : str) (pt : option str) (r : reason),
    snd (handle msg parse st addr pt) = Rej r -> fst (handle msg parse st addr pt) = st.
Proof. exact reject_is_identity_lem. Qed.
Print Assumptions C11_reject_is_identity.

(* ... and every input that is not an authenticated, well-formed message IS rejected.  wellformedb is
   a specification independent of the code's order of checks: decryption succeeded, four spaces,
   integer type and flags, known device name, that device's key, type SYNC/PING/RESYNC, and for
   SYNC/RESYNC a payload that parses. *)
Theorem C11_not_wellformed_rejected :
  forall (msg : Type) (parse : str -> option msg) (st : istate msg) (addr : str) (pt : option str),
    wellformedb msg parse (s_peers st) pt = false -> exists r, handle msg parse st addr pt = (st, Rej r).
Proof. exact not_wellformed_rejected_lem. Qed.
Print Assumptions C11_not_wellformed_rejected.

(* the ways of being rejected named by the property, each for all plaintexts *)
Theorem C11_reject_reasons :
  forall (msg : Type) (parse : str -> option msg) (st : istate msg) (addr : str),
    handle msg parse st addr None = (st, Rej RDecrypt)
    /\ (forall s, split_plaintext s = SplitShort -> handle msg parse st addr (Some s) = (st, Rej RSplit))
    /\ (forall s, split_plaintext s = SplitBadInt -> handle msg parse st addr (Some s) = (st, Rej RInt))
    /\ (forall s urn id ty fl js, split_plaintext s = SplitOk urn id ty fl js ->
          find_peer urn (s_peers st) = None -> handle msg parse st addr (Some s) = (st, Rej RUrn))
    /\ (forall s urn id ty fl js d, split_plaintext s = SplitOk urn id ty fl js ->
          find_peer urn (s_peers st) = Some d -> id <> p_key d ->
          handle msg parse st addr (Some s) = (st, Rej RKey))
    /\ (forall s urn id ty fl js d, split_plaintext s = SplitOk urn id ty fl js ->
          find_peer urn (s_peers st) = Some d -> id = p_key d ->
          ty <> TYPE_SYNC -> ty <> TYPE_PING -> ty <> TYPE_RESYNC ->
          handle msg parse st addr (Some s) = (st, Rej RType))
    /\ (forall s urn id ty fl js d, split_plaintext s = SplitOk urn id ty fl js ->
          find_peer urn (s_peers st) = Some d -> id = p_key d ->
          (ty = TYPE_SYNC \/ ty = TYPE_RESYNC) -> parse js = None ->
          handle msg parse st addr (Some s) = (st, Rej RPayload)).
Proof. exact reject_reasons_lem. Qed.
Print Assumptions C11_reject_reasons.

(* The exact conjunction under which state may change, and the exact change: a well-formed
   authenticated message either is a PING (the named peer's address and, with RESET, contact times) or
   a SYNC/RESYNC whose parsed payload is appended to the queue (or dropped when the queue is full). *)
Theorem C11_accept_characterisation :
  forall (msg : Type) (parse : str -> option msg) (st : istate msg) (addr : str) (pt : option str),
    wellformedb msg parse (s_peers st) pt = true ->
    exists s urn id ty fl js d,
      pt = Some s /\ split_plaintext s = SplitOk urn id ty fl js /\
      find_peer urn (s_peers st) = Some d /\ id = p_key d /\
      ((ty = TYPE_PING /\
        handle msg parse st addr pt = (mkS (touch urn addr fl (s_peers st)) (s_queue st) (s_qmax st), Accepted))
       \/
       ((ty = TYPE_SYNC \/ ty = TYPE_RESYNC) /\ exists m, parse js = Some m /\
        handle msg parse st addr pt =
        if qfull msg st
        then (mkS (upd_peer urn (set_addr addr) (s_peers st)) (s_queue st) (s_qmax st), Dropped)
        else (mkS (touch urn addr fl (s_peers st)) (s_queue st ++ [m]) (s_qmax st), Accepted))).
Proof. exact accept_characterisation_lem. Qed.
Print Assumptions C11_accept_characterisation.

Theorem C11_changed_only_if_wellformed :
  forall (msg : Type) (parse : str -> option msg) (st : istate msg) (addr : str) (pt : option str),
    fst (handle msg parse st addr pt) <> st -> wellformedb msg parse (s_peers st) pt = true.
Proof. exact changed_only_if_wellformed_lem. Qed.
Print Assumptions C11_changed_only_if_wellformed.

(* what an accepted message touches: only the peer it names, only address and contact times;
   names, keys, reset requests and backlogs of all peers stay as they are *)
Theorem C11_touch_frame :
  forall (urn addr : str) (fl : Z) (ps : list peer),
    Forall2 (same_but_contact urn) ps (touch urn addr fl ps).
Proof. exact touch_frame_lem. Qed.
Print Assumptions C11_touch_frame.

(* The listener survives: after ANY list of clients none of which delivers an authenticated
   well-formed message - arbitrary bytes in arbitrary cuts, closed early, silent, half-open, with any
   clocks - the state is untouched and the next client's message is handled exactly as if it had been
   the first. *)
Theorem C11_listener_survives :
  forall (msg : Type) (parse : str -> option msg) (decrypt : list Z -> option str)
         (c : rcfg) (st : istate msg) (bads : list (client)) (addr : str) (sc : list read * list Z) (buf : list Z),
    r_client_to c = true -> Forall (bad_client msg parse decrypt c st) bads ->
    session_outcome c sc = Deliver buf ->
    serve msg decrypt (handle msg parse) c st (bads ++ [(addr, sc)])
    = fst (handle msg parse st addr (decrypt buf)).
Proof. exact listener_survives_lem. Qed.
Print Assumptions C11_listener_survives.

(* ... in particular a valid SYNC/RESYNC arriving in any admissible cut is in the queue afterwards *)
Theorem C11_listener_survives_enqueued :
  forall (msg : Type) (parse : str -> option msg) (decrypt : list Z -> option str)
         (c : rcfg) (st : istate msg) (bads : list client) (addr : str) (a : Z) (m : list Z)
         (chunks : list (list Z)) (rest : list read) (clock : list Z)
         (s urn id : str) (ty fl : Z) (js : str) (d : peer) (pl : msg),
    r_client_to c = true -> r_end_on_all c = true ->
    Forall (bad_client msg parse decrypt c st) bads ->
    end_test c m = true -> chunks <> [] -> concat chunks = m -> Forall (chunk_ok c) chunks ->
    no_premature c chunks -> timely c a (length chunks) clock ->
    decrypt m = Some s -> split_plaintext s = SplitOk urn id ty fl js ->
    find_peer urn (s_peers st) = Some d -> id = p_key d ->
    (ty = TYPE_SYNC \/ ty = TYPE_RESYNC) -> parse js = Some pl -> qfull msg st = false ->
    serve msg decrypt (handle msg parse) c st (bads ++ [(addr, (map Bytes chunks ++ rest, a :: clock))])
    = mkS (touch urn addr fl (s_peers st)) (s_queue st ++ [pl]) (s_qmax st).
Proof. exact listener_survives_enqueued_lem. Qed.
Print Assumptions C11_listener_survives_enqueued.

(* D8.  On the model of the pinned commit the property is false: a message with the right key whose
   payload does not parse overwrites the peer's address, and one with an unknown type and the RESET
   flag clears the contact times - neither is a well-formed message. *)
Theorem C11_d8_refuted_unfixed :
  (exists (st : istate Z) addr pt,
      wellformedb Z no_parse (s_peers st) pt = false /\
      map p_addr (s_peers (fst (handle_unfixed Z no_parse st addr pt))) <> map p_addr (s_peers st))
  /\
  (exists (st : istate Z) addr pt,
      wellformedb Z no_parse (s_peers st) pt = false /\
      map p_lc (s_peers (fst (handle_unfixed Z no_parse st addr pt))) <> map p_lc (s_peers st)).
Proof. exact d8_refuted_lem. Qed.
Print Assumptions C11_d8_refuted_unfixed.

(* D6.  On the model of the pinned commit a client that connects and sends nothing stops the
   listener: the valid message behind it (which alone would be accepted) is never handled. *)
Theorem C11_silent_client_stops_listener_unfixed :
  exists c (st : istate Z) silent good,
    r_client_to c = false /\
    serve Z d6_decrypt (handle Z no_parse) c st [good] <> st /\
    serve Z d6_decrypt (handle Z no_parse) c st [silent; good] = st.
Proof. exact silent_client_stops_listener_unfixed_lem. Qed.
Print Assumptions C11_silent_client_stops_listener_unfixed.

(* non-vacuity: the D8 inputs are rejected without effect by the repaired model, and a PING with
   RESET from the right peer is accepted: address replaced, contact times cleared *)
Example C11_examples :
  fst (handle Z no_parse d8_state [50] (Some d8_bad_payload)) = d8_state /\
  fst (handle Z no_parse d8_state [49] (Some d8_unknown_type)) = d8_state /\
  handle Z no_parse d8_state [50] (Some d6_ping)
  = (mkS [mkP [100] [107] [50] 0 0 true [0; 0; 0]] [] 0, Accepted).
Proof. vm_compute. repeat split; reflexivity. Qed.

(* int() as modelled: sign, white space, underscores between digits, non-ASCII decimal digits *)
Example C11_parse_int_examples :
  map parse_int [[49]; [43; 49]; [32; 49; 9]; [49; 95; 48]; [48; 120; 49]; [1633]; []; [45; 49]; [49; 95; 95; 48];
                 [95; 49]; [49; 95]; [28; 49]; [160; 49]; [48; 49]; [43; 32; 55]]
  = [Some 1; Some 1; Some 1; Some 10; None; Some 1; None; Some (-1); None; None; None; None; Some 1; Some 1; None].
Proof. vm_compute. reflexivity. Qed.
