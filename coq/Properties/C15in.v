(* C15: incoming messages and the sender-side timers.  Statements only. *)
From Bobo Require Import Base.Prelude Model.Outgoing Proofs.OutgoingInProofs.

(* A message without RESET - from whatever address, of whatever type - leaves last contact, last attempt, reset flag and
   backlog of every peer as they are (only the recorded address may change), queues nothing and sends nothing: the
   retry intervals of PING, RESYNC and the backlog keep running from the attempt that started them. *)
Theorem C15_incoming_without_reset_keeps_timers : forall (from : nat) (flags caddr : Z) (s : ostate),
  (Z.land flags 1 =? 1) = false ->
  map timers (o_peers (fst (in_handle from flags caddr s))) = map timers (o_peers s)
  /\ o_queue (fst (in_handle from flags caddr s)) = o_queue s
  /\ snd (in_handle from flags caddr s) = [].
Proof. exact in_handle_no_reset_keeps_timers. Qed.
Print Assumptions C15_incoming_without_reset_keeps_timers.

(* With RESET only the sender's entry changes. *)
Theorem C15_reset_touches_only_the_sender : forall (from : nat) (flags caddr : Z) (s : ostate) (p : peer),
  (Z.land flags 1 =? 1) = true -> nth_error (o_peers s) from = Some p ->
  forall j q, j <> from -> nth_error (o_peers s) j = Some q ->
              nth_error (o_peers (fst (in_handle from flags caddr s))) j = Some q.
Proof. exact in_handle_reset_clears_only_sender. Qed.
Print Assumptions C15_reset_touches_only_the_sender.

(* non-vacuous, and the address does change: peer 0 recorded at 11, a PING without RESET arrives from 41 *)
Example C15_in_example :
  let s := mkO [mkPeer 100 95 false [] [] [7] 11] [] in
  map timers (o_peers (fst (in_handle 0 0 41 s))) = [(100, 95, false, mkNote [] [] [7])]
  /\ map addr (o_peers (fst (in_handle 0 0 41 s))) = [41].
Proof. vm_compute. split; reflexivity. Qed.
