(* C16, two generators of one process used by two threads.  Statements only. *)
From Bobo Require Import Base.Prelude Model.IdGen Model.IdGenTwo Proofs.IdGenProofs Proofs.IdGenTwoProofs.

(* Each generator keeps its own state: for EVERY interleaving of the two threads at the granularity read / update and
   every clock, a generator hands out exactly what one caller alone would obtain for some clock readings ... *)
Theorem C16two_generators_independent : forall (xs : list (bool * Z)),
  exists ua ub, o_a (run2 false xs) = gen_all gen g_init ua /\ o_b (run2 false xs) = gen_all gen g_init ub.
Proof. exact two_generators_independent. Qed.
Print Assumptions C16two_generators_independent.

(* ... hence pairwise distinct identifiers, per generator, whatever the prefixes *)
Theorem C16two_ids_distinct : forall (xs : list (bool * Z)) (ua ub : option (list Z)),
  NoDup (map (render ua) (o_a (run2 false xs))) /\ NoDup (map (render ub) (o_b (run2 false xs))).
Proof. exact two_generators_ids_distinct. Qed.
Print Assumptions C16two_ids_distinct.

(* The variant with the state shared between the generators (one lock per generator): refuted by a 6-step schedule *)
Theorem C16two_shared_state_refuted :
  o_b (run2 true shared_sched) = [(6, 0); (6, 0)] /\ o_b (run2 false shared_sched) = [(6, 0); (6, 1)].
Proof. exact shared_counters_two_locks_repeat. Qed.
Print Assumptions C16two_shared_state_refuted.

Example C16two_example : run_C16_two (false, [(true, 5); (true, 5); (false, 5); (false, 5); (true, 5); (true, 5)])
                         = [5; 0; 5; 1; -1; 5; 0].
Proof. vm_compute. reflexivity. Qed.
