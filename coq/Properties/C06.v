(* C06  Link failures lose nothing: backlog or full resync restores consistency.
   Statements only.  Models: Model/Replication.v (one BoboDistributedTCP instance, small-step, its outgoing
   thread interleaved with the decider's enqueues and the incoming thread's handling of messages; built from
   the functions of Model/Outgoing.v) and Model/Decider.v (on_distributed_update, snapshot).
   Proofs: Proofs/ReplicationProofs.v, Proofs/ReplicationDecider.v.

   Reading guide.  An instance i is a state g: its peer records (g_peers: last_comms lc, last_attempt la, reset
   flag fr, backlog `stash`), its outgoing queue, the program counter and locals of its outgoing thread, and
   three ghosts: the last clock reading, every note ever enqueued (g_emitted, oldest first) and the log of send
   attempts / handled RESETs.  A schedule is any list of actions
       XEnq n | XAddr f a | XReset f | OStep t snap outcome
   (decider reports a change | incoming thread refreshes an address | incoming thread handles a RESET |
   the outgoing thread performs its next atomic step; t = what the clock shows, snap = what decider.snapshot()
   returns, outcome = what the socket layer does: delivered / connect fails / fails AFTER the bytes were
   delivered, each as timeout or error).  Every fault sequence, every clock (non-decreasing) and every
   interleaving at the granularity of the individually locked BoboDeviceManager accessors and Queue operations
   is such a schedule.  `fixed = true` is the order of _tcp_outgoing after the repair of D9 (the queue item is
   taken once, inside the locked decision), `fixed = false` the pinned order (Queue.empty() read per peer, item
   taken later at the first SYNC). *)
From Bobo Require Import Base.Prelude Base.History Model.Pattern Model.Run Model.Decider Model.PredLang.
From Bobo Require Import Proofs.DeciderLemmas Proofs.DeciderProofs Proofs.RemoteProofs Proofs.ReplicationDecider.
From Bobo Require Import Model.Outgoing Model.Replication Proofs.OutgoingProofs Proofs.ReplicationProofs.

(* ---- knowledge_inv.  Repaired order, every reachable state, every fault sequence, every interleaving:
   for every peer j and every note n the decider ever reported (the idx-th), one of
     - a message that reached the socket layer for j covers it: a SYNC containing n, or a RESYNC whose snapshot
       was taken after n was reported (delivered_to);
     - n is still in the outgoing queue;
     - n is in j's backlog;
     - n is the item of the running iteration and j has not been served yet (in_flight);
     - j is in i's RESYNC period (clock - last_comms has reached period_resync): the next message j accepts
       from i is then a snapshot (C06_resync_before_incremental, and the invariant's own bookkeeping), which
       supersedes n (C06_snapshot_supersedes_active, C06_snapshot_supersedes_finished).
   So no change can fall between backlog, queue and snapshot. *)
Theorem C06_knowledge_inv : forall (c : tcfg) (ps : list peer) (q : list Outgoing.note) (clock : Z) (g : gstate),
  (forall j p, nth_error ps j = Some p -> 0 <= lc p) ->
  reach true c act_ok (ginit ps q clock) g ->
  forall j p idx n, nth_error (g_peers g) j = Some p -> nth_error (g_emitted g) idx = Some n ->
    delivered_to g j idx n \/ In n (g_queue g) \/ note_in n (stash p) \/ in_flight g j n \/ in_resync_period c g p.
Proof. exact knowledge_inv. Qed.
Print Assumptions C06_knowledge_inv.

(* ---- lost_note_refuted (D9).  On the pinned order the invariant is false: two peers in contact, empty
   backlogs, the decider reports a change between the decision for peer 0 (queue empty: nothing to send) and
   the decision for peer 1 (queue non-empty: SYNC); the item is taken at that SYNC and goes to peer 1 only.
   Afterwards it is nowhere: not delivered to peer 0, not queued, not in its backlog, and peer 0 is in contact. *)
Theorem C06_lost_note_refuted :
  exists c ps acts,
    (forall j p, nth_error ps j = Some p -> 0 <= lc p) /\
    reach false c act_ok (ginit ps [] 1000) (mrun false c (ginit ps [] 1000) acts) /\
    ~ knowledge c (mrun false c (ginit ps [] 1000) acts).
Proof. exact lost_note_refuted. Qed.
Print Assumptions C06_lost_note_refuted.

(* ---- resync_before_incremental.  Over every history of the outgoing loop (Model/Outgoing.v: enqueues,
   iterations with arbitrary clock readings, outcomes and snapshots, handled incoming messages): an incremental
   message (SYNC or PING) to peer i is only ever chosen within period_resync seconds of the last successful
   contact with i (the end of the last delivered message; the initial last_comms before any; 0 after a handled
   RESET).  Hence once a peer has been out of contact for longer than the resynchronisation period, whatever is
   sent to it is a RESYNC until one is delivered: it receives a full snapshot before any incremental message.
   (The per-iteration fact is C15_mode_table; this lifts it over histories.) *)
Theorem C06_resync_before_incremental : forall c s acts i p0 l1 a l2,
  nth_error (o_peers s) i = Some p0 ->
  log_of c s acts = l1 ++ EAtt a :: l2 -> at_peer a = i -> at_mode a <> RESYNC ->
  at_dec a - last_contact i (lc p0) (rev l1) <= p_resync c.
Proof. exact resync_before_incremental. Qed.
Print Assumptions C06_resync_before_incremental.

(* ---- snapshot_supersedes, active runs.  A receiver sj (any state satisfying the run-table invariant Inv, which
   every reachable decider state does: Inv_reachable) applies the snapshot of a sender si.  Every run r that si
   holds active (of a known, non-singleton pattern) is afterwards, at the receiver, either finished - it was
   remembered as completed/halted before, or the snapshot itself lists it as finished - or ACTIVE WITH THE SAME
   ID AT LEAST AS FAR (further along the pattern, or at the same block with at least as many accepted events).
   A note n reported by si before the snapshot was taken describes earlier states of runs of si; the run's
   state in the snapshot is at least as advanced (C12: runs only move forward), so the snapshot supersedes n. *)
Theorem C06_snapshot_supersedes_active : forall (E : Type) (cfg : config E) (si sj sj' : dstate E) (n : Decider.note E)
    (r : Run.run E) (p : pattern E),
  DeciderProofs.Inv E cfg (d_runs sj) -> remote_apply cfg sj (snapshot si) = (sj', n) ->
  In r (rt_all (d_runs si)) -> get_pattern cfg (r_ph r) (p_name (r_pat r)) = Some p -> p_single p = false ->
  In (r_id r) (ids_of (d_cc si)) \/ In (r_id r) (ids_of (d_ch si)) \/
  (c_maxcache cfg <> O /\ remembered E sj (r_id r) = true) \/
  (exists r', In r' (bucket (r_ph r) (p_name (r_pat r)) (d_runs sj')) /\ r_id r' = r_id r /\
              ((r_idx r < r_idx r')%nat \/ (r_idx r = r_idx r' /\ (hsize (r_hist r) <= hsize (r_hist r'))%nat))).
Proof. exact snapshot_supersedes_active. Qed.
Print Assumptions C06_snapshot_supersedes_active.

(* ... the same for an arbitrary message m (stale, merged with a backlog, duplicated): nothing it reports as
   active is left behind *)
Theorem C06_message_supersedes_active : forall (E : Type) (cfg : config E) (s s' : dstate E) (m n : Decider.note E)
    (rc : rserial E) (p : pattern E),
  DeciderProofs.Inv E cfg (d_runs s) -> remote_apply cfg s m = (s', n) ->
  In rc (n_upd m) -> get_pattern cfg (s_ph rc) (s_pat rc) = Some p -> p_single p = false ->
  In (s_id rc) (ids_of (n_comp m)) \/ In (s_id rc) (ids_of (n_halt m)) \/
  (c_maxcache cfg <> O /\ remembered E s (s_id rc) = true) \/
  holds_active E (d_runs s') rc.
Proof. exact message_supersedes_active. Qed.
Print Assumptions C06_message_supersedes_active.

(* ---- snapshot_supersedes, finished runs (finished-run memory enabled and large enough, no singleton pattern):
   every run the sender remembers as completed is remembered as completed by the receiver afterwards; every run
   the sender remembers as halted is remembered by the receiver (as halted, or as completed: completion beats
   halt); and the receiver forgets nothing.  With C05 (no_resurrection) a remembered run is never active again:
   nothing is stale, missing or resurrected. *)
Theorem C06_snapshot_supersedes_finished : forall (E : Type) (cfg : config E) (si sj sj' : dstate E) (n : Decider.note E),
  no_singleton E cfg -> c_maxcache cfg <> O ->
  (length (d_cc sj) + length (d_cc si) <= c_maxcache cfg)%nat ->
  (length (d_ch sj) + length (d_ch si) <= c_maxcache cfg)%nat ->
  remote_apply cfg sj (snapshot si) = (sj', n) ->
  (forall rc, In rc (d_cc si) -> zmem (s_id rc) (ids_of (d_cc sj')) = true) /\
  (forall rc, In rc (d_ch si) -> remembered E sj' (s_id rc) = true) /\
  (forall id, remembered E sj id = true -> remembered E sj' id = true).
Proof. exact snapshot_supersedes_finished. Qed.
Print Assumptions C06_snapshot_supersedes_finished.

(* ---- non-vacuity *)
(* knowledge_inv: the interleaving of D9 is an admissible schedule of the repaired order; the note stays in the
   queue and the next iteration sends it to both peers *)
Example C06_example_knowledge :
  reach true d9_cfg act_ok (ginit d9_peers [] 1000) (mrun true d9_cfg (ginit d9_peers [] 1000) d9_sched_fixed) /\
  g_emitted (mrun true d9_cfg (ginit d9_peers [] 1000) d9_sched_fixed) = [d9_note].
Proof. exact knowledge_example. Qed.

Example C06_example_repaired :
  let g := mrun true d9_cfg (ginit d9_peers [] 1000) d9_sched_fixed in
  g_queue g = [d9_note] /\ g_log g = [] /\ g_pc g = PIdle /\
  map (fun e => match e with HAtt a => (s_peer a, mode_code (s_mode a), s_pay a) | HReset i => (i, -1, empty_note) end)
      (g_log (mrun true d9_cfg g (repeat o2 15))) = [(1%nat, 0, d9_note); (0%nat, 0, d9_note)].
Proof. exact d9_fixed_keeps. Qed.

(* resync_before_incremental: default periods, a peer last reached at second 100; the PING at 131 is within the
   period, at 170 (70 s of silence: the PINGs at 131 and 136 failed) only a RESYNC goes out *)
Example C06_example_resync :
  map (fun e => match e with EAtt a => (mode_code (at_mode a), at_dec a) | EReset _ => (-1, 0) end)
      (log_of (Outgoing.mkCfg 30 60 5 5 10 (true, true, true, true, true))
              (mkO [mkPeer 100 100 false [] [] [] 7] [])
              [AIter 131 empty_note [(1, 131)]; AIter 136 empty_note [(2, 136)]; AIter 170 empty_note [(0, 170)];
               AIter 201 empty_note [(0, 201)]])
  = [(1, 131); (1, 136); (2, 170); (1, 201)].
Proof. vm_compute. reflexivity. Qed.

(* snapshot_supersedes: pattern 1 ; 2 ; 3, the sender has seen 1 and 2; an empty receiver that applies the
   sender's snapshot holds run 1000 at block 2 *)
Definition c06_cd : cdesc :=
  CD [(1, [PD 1 [BD [PDataEq 1] 1 false false false false; BD [PDataEq 2] 2 false false false false;
                 BD [PDataEq 3] 3 false false false false] [] [] false])] 50 1000.
Example C06_example_snapshot :
  match local_step (mk_cfg c06_cd) d_init (mkEv 0 0 0 1 0 0) with
  | Ok (s1, _) =>
      match local_step (mk_cfg c06_cd) s1 (mkEv 1 1 0 2 0 0) with
      | Ok (s2, _) =>
          map (fun r => (r_id r, r_idx r))
              (rt_all (d_runs (fst (remote_apply (mk_cfg c06_cd) d_init (snapshot s2))))) = [(1000, 2%nat)]
      | Exn _ => False
      end
  | Exn _ => False
  end.
Proof. vm_compute. reflexivity. Qed.
