(* C02  One complex event, one action run, one action event per completed run - with the ASYNCHRONOUS action
   handlers (BoboActionHandlerMultithreading / BoboActionHandlerMultiprocessing).  Statements only.

   Model: Model/EnginePool.v = Model/Engine.v's receiver, decider, producer, wiring, loops and ghost logs, with the
   forwarder of the pool handlers: handing a complex event over puts a job IN FLIGHT; `Complete k` (environment:
   any in-flight job, any time) moves job k's response to the tail of the handler's response queue; every
   BoboForwarder.update() - also one that finds the forwarder queue empty - polls the handler once and turns at
   most one response, the oldest, into one action event that re-enters the receiver.  size() of the forwarder
   counts its own queue only; responses and jobs in flight are invisible to anyone looking at task sizes.

   PInv c p packages the conservation equations (field comments in Proofs/EnginePoolProofs.v):
     entry = seen ++ decider queue ++ receiver queue (same data, FIFO);  completed = complex ++ producer queue;
     forwarder input = local complex events = handled ++ forwarder queue;
     executions (jobs handed over) = one per handled complex event whose phenomenon has an action;
     executions ~ finished-in-completion-order ++ in flight                      (permutation: multiset equality);
     finished-in-completion-order = responses reported by action events ++ response queue           (list equality);
     complex and action events re-enter the receiver exactly once;  contents of complex / action events. *)
From Bobo Require Import Base.Prelude Base.History Model.Pattern Model.Run Model.Decider Model.PredLang Model.Engine
                         Model.EnginePool.
From Bobo Require Import Proofs.EngineProofs Proofs.EnginePoolProofs.
From Coq Require Import Permutation.

(* ------------------------------------------------------------------ (a) conservation *)
(* in every state reachable by ANY interleaving of add_data, update(), worker completions (any in-flight job, in any
   order, at any point between two calls) and remote notes, for every engine configuration (times_* any naturals
   incl. 0, early_stop, local_only), every phenomenon set with or without action and datagen *)
Theorem C02pool_conservation_every_reachable_state :
  forall (cfg : config ev) (c : ecfg) (ops : list pop), PInv c (papply cfg c p_init ops).
Proof. exact PInv_reachable. Qed.

(* the same at the grain of single task updates and of the two halves of BoboForwarder.update: a worker may finish,
   and a producer thread may call add_data, between ANY two of them - also in the middle of engine.update() *)
Theorem C02pool_conservation_every_small_step_interleaving :
  forall (cfg : config ev) (c : ecfg) (ops : list mop), PInv c (mapply cfg c p_init ops).
Proof. exact PInv_micro_reachable. Qed.

Theorem C02pool_conservation_small_step :
  forall (cfg : config ev) (c : ecfg) p (o : mop), PInv c p -> PInv c (mstep cfg c p o).
Proof. exact PInv_mstep. Qed.

(* engine.update() is one such sequence of small steps (so the theorem above covers every way completions can
   fall inside it), and it preserves the invariant from any state satisfying it *)
Theorem C02pool_update_is_a_small_step_sequence :
  forall (cfg : config ev) (c : ecfg) p, exists ms, engine_update_pool cfg c p = mapply cfg c p ms.
Proof. exact update_is_micro_sequence. Qed.

Theorem C02pool_conservation_engine_update :
  forall (cfg : config ev) (c : ecfg) p, PInv c p -> PInv c (engine_update_pool cfg c p).
Proof. exact PInv_engine_update. Qed.

(* in the property's words: the executions - one per handled complex event of a phenomenon with an action - are,
   as a multiset, exactly: reported by an action event ++ waiting in the response queue ++ still in flight *)
Theorem C02pool_every_job_in_exactly_one_place :
  forall (c : ecfg) p, PInv c p ->
    Permutation (flat_map (exec_of c) (g_handled (gh (base p))))
                (map snd (g_aevents (gh (base p))) ++ q_h (base p) ++ infl p).
Proof. exact jobs_conserved. Qed.

Theorem C02pool_jobs_counted :
  forall (c : ecfg) p, PInv c p ->
    (length (g_exec (gh (base p))) =
     length (g_aevents (gh (base p))) + length (q_h (base p)) + length (infl p))%nat.
Proof. exact jobs_counted. Qed.

(* every action event reports a job that really was handed over, for a handled complex event of a phenomenon with
   an action, and carries THAT job's action name, success flag and data and that complex event's names *)
Theorem C02pool_action_event_reports_own_job :
  forall (c : ecfg) p ae r, PInv c p -> In (ae, r) (g_aevents (gh (base p))) ->
    exists a, In (h_cev r) (g_handled (gh (base p))) /\ act c (ev_ph (h_cev r)) = Some a /\
              r = mkResp (a_name a) (h_cev r) (a_ok a) (a_data a) /\
              ev_kind ae = 2 /\ ev_data ae = a_data a /\ ev_ph ae = ev_ph (h_cev r) /\ ev_pat ae = ev_pat (h_cev r).
Proof. exact action_event_reports_own_job. Qed.

(* ------------------------------------------------------------------ (b) quiescence *)
(* all four task queues empty, response queue empty, nothing in flight: every accepted datum became exactly one
   event seen by the decider, in arrival order; completed records and complex events correspond one to one, in
   order; the executions are exactly one per (local) complex event of a phenomenon with an action; the action
   events report exactly the executions (as a multiset: the completion order is the environment's); every complex
   and every action event re-entered the receiver exactly once *)
Theorem C02pool_one_to_one_at_quiescence :
  forall (c : ecfg) p, PInv c p -> pquiescent p ->
    map proj_item (g_entry (gh (base p))) = map proj_ev (g_seen (gh (base p))) /\
    g_completed (gh (base p)) = map (fun x => (snd (fst x), snd x)) (g_complex (gh (base p))) /\
    g_exec (gh (base p)) =
      flat_map (exec_of c)
        (flat_map (fun x => if snd x || negb (local_only c) then [fst (fst x)] else []) (g_complex (gh (base p)))) /\
    Permutation (g_exec (gh (base p))) (map snd (g_aevents (gh (base p)))) /\
    flat_map (kind_items 1) (g_entry (gh (base p))) = map (fun x => fst (fst x)) (g_complex (gh (base p))) /\
    flat_map (kind_items 2) (g_entry (gh (base p))) = map fst (g_aevents (gh (base p))).
Proof. exact pool_one_to_one_at_quiescence. Qed.

(* ------------------------------------------------------------------ (c) progress: no response is stranded *)
(* one forwarder update with a waiting response takes the oldest one - whatever the forwarder queue holds *)
Theorem C02pool_forwarder_update_takes_oldest_response :
  forall (c : ecfg) p h rest, q_h (base p) = h :: rest ->
    exists ae, g_aevents (gh (base (fst (fwd_update_pool c p)))) = g_aevents (gh (base p)) ++ [(ae, h)] /\
               q_h (base (fst (fwd_update_pool c p))) = rest /\ snd (fwd_update_pool c p) = true /\
               ev_kind ae = 2 /\ ev_data ae = h_data h.
Proof. exact fwd_update_takes_head. Qed.

(* an update() cycle that starts with a non-empty response queue turns its oldest response into an action event:
   for EVERY configuration and whatever the four task queues hold - in particular when all four are empty.
   (No premise about the task queues: an engine that skips the cycle when no task has anything queued does not
   satisfy this - see C02pool_progress_false_for_idle_fast_path below.) *)
Theorem C02pool_update_delivers_oldest_response :
  forall (cfg : config ev) (c : ecfg) p h rest, q_h (base p) = h :: rest ->
    exists ae more,
      g_aevents (gh (base (engine_update_pool cfg c p))) = g_aevents (gh (base p)) ++ (ae, h) :: more /\
      ev_kind ae = 2 /\ ev_data ae = h_data h.
Proof. exact update_delivers_oldest_response. Qed.

(* the i-th job to finish is reported by the i-th action event as soon as update() has been called
   (i + 1 - already delivered) times, whatever else happens in between (input, further completions, remote
   notes), for every configuration: responses are delivered in completion order and none waits forever while
   update() keeps being called *)
Theorem C02pool_response_delivered_within :
  forall (cfg : config ev) (c : ecfg) p i h, PInv c p -> nth_error (p_done p) i = Some h ->
    forall ops, (i < count_updates ops + length (g_aevents (gh (base p))))%nat ->
    nth_error (map snd (g_aevents (gh (base (papply cfg c p ops))))) i = Some h.
Proof. exact response_delivered_within. Qed.

(* with times_forwarder = 0 (`while forwarder.update(): pass`) one cycle empties the forwarder queue and the
   response queue, and the loop ends because the forwarder reports no change, never because the fuel ran out *)
Theorem C02pool_while_drains_responses :
  forall (cfg : config ev) (c : ecfg) p, t_f c = O ->
    q_f (base (engine_update_pool cfg c p)) = [] /\ q_h (base (engine_update_pool cfg c p)) = [].
Proof. exact update_while_drains_responses. Qed.

Theorem C02pool_fuel_forwarder :
  forall c, fuel_ok_g (fwd_update_pool c) (fun p => (length (q_f (base p)) + length (q_h (base p)))%nat).
Proof. exact fwd_pool_fuel. Qed.

Theorem C02pool_while_loops_terminate :
  forall (St : Type) (f : St -> St * bool) measure, fuel_ok_g f measure ->
    forall fuel s, (measure s < fuel)%nat -> loop_while_g f fuel s = loop_while_g f (S fuel) s.
Proof. exact @loop_while_g_fuel_enough. Qed.

(* the variant "nothing queued in any task: skip this round" (EnginePool.engine_update_idle_fast, NOT what the
   code does): a response that arrives after the task queues have drained is never collected, however often
   update() is called; so the progress statement above is false of it *)
Theorem C02pool_idle_fast_path_strands_response_refuted :
  forall n, Nat.iter n (engine_update_idle_fast (mk_cfg (ed_cfg idle_ed)) (mk_ecfg idle_ed)) idle_state = idle_state.
Proof. exact idle_fast_path_strands_response. Qed.

Theorem C02pool_progress_false_for_idle_fast_path :
  ~ (forall cfg c p h rest, q_h (base p) = h :: rest ->
       exists ae more,
         g_aevents (gh (base (engine_update_idle_fast cfg c p))) = g_aevents (gh (base p)) ++ (ae, h) :: more).
Proof. exact progress_false_for_idle_fast_path. Qed.

Print Assumptions C02pool_conservation_every_reachable_state.
Print Assumptions C02pool_conservation_every_small_step_interleaving.
Print Assumptions C02pool_conservation_small_step.
Print Assumptions C02pool_update_is_a_small_step_sequence.
Print Assumptions C02pool_conservation_engine_update.
Print Assumptions C02pool_every_job_in_exactly_one_place.
Print Assumptions C02pool_jobs_counted.
Print Assumptions C02pool_action_event_reports_own_job.
Print Assumptions C02pool_one_to_one_at_quiescence.
Print Assumptions C02pool_forwarder_update_takes_oldest_response.
Print Assumptions C02pool_update_delivers_oldest_response.
Print Assumptions C02pool_response_delivered_within.
Print Assumptions C02pool_while_drains_responses.
Print Assumptions C02pool_fuel_forwarder.
Print Assumptions C02pool_while_loops_terminate.
Print Assumptions C02pool_idle_fast_path_strands_response_refuted.
Print Assumptions C02pool_progress_false_for_idle_fast_path.

(* ------------------------------------------------------------------ non-vacuity *)
(* three runs of a;b with action and datagen; the jobs finish in the order 2nd, 3rd, 1st while input and update()
   calls go on; the state in the middle (one response reported, one queued... ) and the end state *)
Definition ex_ed : edesc := idle_ed.
Definition ex_cfg := mk_cfg (ed_cfg ex_ed).
Definition ex_c := mk_ecfg ex_ed.
Definition ex_ops_mid : list pop :=
  [PAdd 1; PAdd 2; PAdd 1; PAdd 2; PUpdate; PUpdate; PAdd 1; PAdd 2; PUpdate; PUpdate; PComplete 1; PComplete 1].
Definition ex_ops_end : list pop := ex_ops_mid ++ [PUpdate; PComplete 0; PUpdate; PUpdate; PUpdate].
Definition ex_mid : pstate := papply ex_cfg ex_c p_init ex_ops_mid.
Definition ex_end : pstate := papply ex_cfg ex_c p_init ex_ops_end.

(* premises of C02pool_conservation_engine_update / _small_step / _every_job_in_exactly_one_place / _jobs_counted:
   a state satisfying PInv with something in every place (reported 0, queued 2, in flight 1) *)
Example C02pool_example_invariant_nontrivial :
  PInv ex_c ex_mid /\ length (g_exec (gh (base ex_mid))) = 3%nat /\ length (q_h (base ex_mid)) = 2%nat /\
  length (infl ex_mid) = 1%nat.
Proof. split; [exact (PInv_reachable ex_cfg ex_c ex_ops_mid)|]. vm_compute. repeat split. Qed.

(* premises of C02pool_one_to_one_at_quiescence, with three of everything; the action events report the jobs in
   completion order 2nd, 3rd, 1st (complex events 5, 8, 4), not in execution order 4, 5, 8 *)
Example C02pool_example_quiescent :
  PInv ex_c ex_end /\ pquiescent ex_end /\ length (g_completed (gh (base ex_end))) = 3%nat /\
  length (g_complex (gh (base ex_end))) = 3%nat /\ length (g_exec (gh (base ex_end))) = 3%nat /\
  length (g_aevents (gh (base ex_end))) = 3%nat /\
  map (fun x => ev_id (h_cev x)) (g_exec (gh (base ex_end))) <>
  map (fun x => ev_id (h_cev (snd x))) (g_aevents (gh (base ex_end))).
Proof.
  split; [exact (PInv_reachable ex_cfg ex_c ex_ops_end)|]. vm_compute. repeat split. intro H. discriminate H.
Qed.

(* premise of C02pool_action_event_reports_own_job *)
Example C02pool_example_action_event : exists ae r, In (ae, r) (g_aevents (gh (base ex_end))).
Proof. vm_compute. eexists. eexists. left. reflexivity. Qed.

(* premise of C02pool_update_delivers_oldest_response / _forwarder_update_takes_oldest_response: a waiting response
   while all four task queues are empty *)
Example C02pool_example_waiting_response :
  exists h, q_h (base idle_state) = [h] /\ tasks_idle (base idle_state) = true.
Proof. vm_compute. eexists. split; reflexivity. Qed.

(* premises of C02pool_response_delivered_within: the second job to finish (index 1 of the completion log) is not
   yet reported in ex_mid, and two further update() calls are enough *)
Example C02pool_example_delivered_within :
  exists h, nth_error (p_done ex_mid) 1 = Some h /\
            (1 < count_updates [PUpdate; PAdd 3; PUpdate] + length (g_aevents (gh (base ex_mid))))%nat /\
            length (g_aevents (gh (base ex_mid))) = 0%nat.
Proof. vm_compute. eexists. split; [reflexivity|split; [apply le_n|reflexivity]]. Qed.

(* premise of C02pool_while_drains_responses *)
Example C02pool_example_while : t_f ex_c = O.
Proof. reflexivity. Qed.
