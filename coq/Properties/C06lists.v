(* C06 / C09, the sender's queue and per-peer backlog: every list of every message carries only records that were
   handed over IN THAT LIST.  Statements only. *)
From Bobo Require Import Base.Prelude Model.Outgoing Proofs.OutgoingSepProofs.

(* For every step order, configuration, history of {on_decider_update, outgoing iteration with any socket outcomes and
   clock, incoming message} and every three sets Cs / Hs / Us: if the completed / halted / updated lists given to
   on_decider_update and returned by decider.snapshot() lie in Cs / Hs / Us, and so do the initial queue and backlogs,
   then so do the three lists of every message the loop builds - first attempt, retry from the backlog, or RESYNC. *)
Theorem C06_lists_keep_their_records :
  forall (Cs Hs Us : Z -> Prop) (pop_first : bool) (c : tcfg) (s : ostate) (acts : list oact),
    oin Cs Hs Us s -> Forall (actin Cs Hs Us) acts -> Forall (evin Cs Hs Us) (log_of_o pop_first c s acts).
Proof. exact lists_keep_their_records. Qed.
Print Assumptions C06_lists_keep_their_records.

(* the premise holds at start-up: empty queue, empty backlogs *)
Example C06_lists_premise_at_startup : forall Cs Hs Us lc la fr a,
  oin Cs Hs Us (mkO [mkPeer lc la fr [] [] [] a] []).
Proof. intros. split; repeat constructor. Qed.

(* a backlog whose three lists are one list (clear_stash written as a chained assignment) breaks it: a record handed
   over as updated goes out as completed and halted too *)
Theorem C06_aliased_backlog_refuted :
  let p := append_aliased (mkNote [] [] [7]) (mkPeer 0 0 false [] [] [] 0) in
  n_c (payload SYNC empty_note empty_note p) = [7] /\ n_h (payload SYNC empty_note empty_note p) = [7].
Proof. exact aliased_backlog_leaks. Qed.
Print Assumptions C06_aliased_backlog_refuted.
