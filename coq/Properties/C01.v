(* C01  Pattern detection follows the documented block semantics.
   Statements only.  Spec: Model/SpecC01.v; model: Model/Run.v, Model/Decider.v. *)
From Bobo Require Import Base.Prelude Base.History Model.Pattern Model.Run Model.Decider Model.SpecC01.
From Bobo Require Import Proofs.RunProofs Proofs.DeciderLemmas Proofs.DeciderProofs Proofs.StepProofs Proofs.SpecProofs.

Section C01.
  Variable E : Type.

  (* The executable model of BoboRun.process refines the declarative rules: for every well-formed pattern,
     arbitrary predicates (also history-dependent ones), every run state and event. *)
  Theorem C01_process_sound : forall (r : run E) (e : E) r' c,
    wf_pattern (r_pat r) = true -> process r e = Ok (r', c) -> run_spec r e r' c.
  Proof. exact (process_sound E). Qed.

  Theorem C01_process_complete : forall (r : run E) (e : E) r' c,
    run_spec r e r' c -> process r e = Ok (r', c).
  Proof. exact (process_complete E). Qed.

  Theorem C01_spec_deterministic : forall (r : run E) (e : E) r1 c1 r2 c2,
    run_spec r e r1 c1 -> run_spec r e r2 c2 -> r1 = r2 /\ c1 = c2.
  Proof. exact (run_spec_deterministic E). Qed.

  (* when no predicate raises the rules always give an outcome (C14 treats raising predicates) *)
  Theorem C01_spec_total : forall (r : run E) (e : E),
    wf_pattern (r_pat r) = true -> (r_idx r < length (p_blocks (r_pat r)))%nat ->
    (forall k, process r e <> Exn k) -> exists r' c, run_spec r e r' c.
  Proof. exact (process_total E). Qed.

  (* A run completes exactly when its final block accepts the event. *)
  Theorem C01_completes_iff_last_block_accepts : forall (r : run E) (e : E) r',
    r_halted r = false -> (r_idx r < length (p_blocks (r_pat r)))%nat ->
    process r e = Ok (r', true) ->
    (is_complete r' = true <->
     exists b, nth_error (p_blocks (r_pat r)) (length (p_blocks (r_pat r)) - 1) = Some b /\
               r' = move_forward r e b (length (p_blocks (r_pat r)) - 1)).
  Proof. exact (completes_iff_last_block_accepts E). Qed.

  (* One decider step, for every configuration, state and event, per pattern: the event is offered to every
     run that existed before it arrived (each survives as process left it, or leaves the active set if it
     finished), and the runs started by the event hold only that event at index 1: they were not offered it. *)
  Theorem C01_step_offers_existing_not_new : forall cfg (s s' : dstate E) (e : E) (n : note E) ph pat,
    local_step cfg s e = Ok (s', n) ->
    exists started,
      bucket ph pat (d_runs s') =
        flat_map (fun r => optl (after_event e r)) (bucket ph pat (d_runs s)) ++ started
      /\ Forall (fresh_for E cfg e) started.
  Proof. exact (local_step_bucket E). Qed.

  (* The three notification lists are exactly: the existing runs on which process reported a change,
     classified completed / halted / still active, followed by the runs started by this event. *)
  Theorem C01_step_notification : forall cfg (s s' : dstate E) (e : E) (n : note E),
    local_step cfg s e = Ok (s', n) ->
    exists pc pu,
      Forall (fresh_for E cfg e) pc /\ Forall (fresh_for E cfg e) pu /\
      n_comp n = map ser (sel KComp (flat_map (run_event e) (rt_all (d_runs s))) ++ pc) /\
      n_halt n = map ser (sel KHalt (flat_map (run_event e) (rt_all (d_runs s)))) /\
      n_upd n = map ser (sel KUpd (flat_map (run_event e) (rt_all (d_runs s))) ++ pu).
  Proof. exact (local_step_note E). Qed.

  (* A singleton pattern starts no run while one is active: over every history of local events and
     arbitrary remote messages, at most one active run (this is C13's invariant). *)
  Theorem C01_singleton_gate : forall cfg ops (s : dstate E) ph pat p,
    cfg_wf E cfg -> run_ops E cfg d_init ops = Some s ->
    get_pattern cfg ph pat = Some p -> p_single p = true -> (length (bucket ph pat (d_runs s)) <= 1)%nat.
  Proof.
    intros cfg ops s ph pat p Hc Hr. destruct (Inv_reachable E cfg ops s Hc Hr) as [_ [_ [_ H]]]. exact (H ph pat p).
  Qed.
End C01.

Print Assumptions C01_process_sound.
Print Assumptions C01_process_complete.
Print Assumptions C01_spec_deterministic.
Print Assumptions C01_spec_total.
Print Assumptions C01_completes_iff_last_block_accepts.
Print Assumptions C01_step_offers_existing_not_new.
Print Assumptions C01_step_notification.
Print Assumptions C01_singleton_gate.

(* non-vacuity: a 4-block pattern  a ; optional b ; loop c ; d  on the stream a c c d *)
From Bobo Require Import Model.PredLang.
Example C01_example :
  run_decider (CD [(1, [PD 1 [BD [PDataEq 1] 1 false false false false; BD [PDataEq 2] 2 false false false true;
                              BD [PDataEq 3] 3 false true false false; BD [PDataEq 4] 4 true false false false]
                        [] [] false])] 0 100,
               [OLocal (mkEv 0 0 0 1 0 0); OLocal (mkEv 1 1 0 3 0 0); OLocal (mkEv 2 2 0 3 0 0);
                OLocal (mkEv 3 3 0 4 0 0)])
  <> [].
Proof. vm_compute. discriminate. Qed.
