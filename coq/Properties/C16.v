(* C16  Generated identifiers never repeat.  Statements only; proofs are in Proofs/IdGenProofs.v *)
From Bobo Require Import Base.Prelude Model.IdGen Proofs.IdGenProofs.

(* For every clock behaviour (any integers, any length, steps backwards included) and from every
   generator state, the identifiers returned by consecutive generate() calls are pairwise distinct.
   Calls from several threads are serialised by the generator's lock: the theorem applies to the
   serialisation order. *)
Theorem C16_ids_pairwise_distinct :
  forall (urn : option (list Z)) (s : gstate) (clock : list Z),
    NoDup (map (render urn) (gen_all gen s clock)).
Proof. exact (fun urn s clock => ids_nodup_from s urn clock). Qed.
Print Assumptions C16_ids_pairwise_distinct.

(* stronger: (second, counter) is strictly increasing lexicographically *)
Theorem C16_ids_strictly_increasing :
  forall (s : gstate) (clock : list Z), increasing (gen_all gen s clock).
Proof. exact gen_all_increasing. Qed.
Print Assumptions C16_ids_strictly_increasing.

(* the text "{urn}_{now}_{count}" / "{now}_{count}" determines (prefix, now, count) *)
Theorem C16_render_injective :
  forall u1 u2 id1 id2, render u1 id1 = render u2 id2 -> u1 = u2 /\ id1 = id2.
Proof. exact render_inj. Qed.
Print Assumptions C16_render_injective.

(* generators with different prefixes (including none) never produce the same identifier,
   whatever their clocks do *)
Theorem C16_prefixes_disjoint :
  forall u1 u2 c1 c2 x, u1 <> u2 -> In x (ids u1 c1) -> ~ In x (ids u2 c2).
Proof. exact ids_prefix_disjoint. Qed.
Print Assumptions C16_prefixes_disjoint.

(* the generator of the pinned commit (no max) violates the property: clock 5,5,6,5 *)
Theorem C16_backwards_clock_refuted_unfixed :
  exists clock, ~ NoDup (gen_all gen_unfixed g_init clock).
Proof. exact unfixed_repeats. Qed.
Print Assumptions C16_backwards_clock_refuted_unfixed.

(* non-vacuity: a concrete backwards clock *)
Example C16_example :
  ids (Some [117]) [5; 5; 6; 5; 4; 6] =
  map (render (Some [117])) [(5,0); (5,1); (6,0); (6,1); (6,2); (6,3)].
Proof. vm_compute. reflexivity. Qed.
