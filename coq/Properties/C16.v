(* C16  Generated identifiers never repeat.  Statements only; proofs are in Proofs/IdGenProofs.v *)
From Bobo Require Import Base.Prelude Model.IdGen Proofs.IdGenProofs.

(* For every clock behaviour (any integers, any length, steps backwards included) and from every
   generator state, the identifiers returned by consecutive generate() calls are pairwise distinct.
   Calls from several threads are serialised by the generator's lock: the theorem applies to the
   serialisation order. *)
Theorem C16_ids_pairwise_distinct :
  forall (urn : option (list Z)) (s : gstate) (clock : list Z),
    NoDup (map (render urn) (gen_all gen s clock)).
Proof. exact (fun urn s clock => ids_nodup_from s urn clock). Qed.
Print Assumptions C16_ids_pairwise_distinct.

(* stronger: (second, counter) is strictly increasing lexicographically *)
Theorem C16_ids_strictly_increasing :
  forall (s : gstate) (clock : list Z), increasing (gen_all gen s clock).
Proof. exact gen_all_increasing. Qed.
Print Assumptions C16_ids_strictly_increasing.

(* the text "{urn}_{now}_{count}" / "{now}_{count}" determines (prefix, now, count) *)
Theorem C16_render_injective :
  forall u1 u2 id1 id2, render u1 id1 = render u2 id2 -> u1 = u2 /\ id1 = id2.
Proof. exact render_inj. Qed.
Print Assumptions C16_render_injective.

(* generators with different prefixes (including none) never produce the same identifier,
   whatever their clocks do *)
Theorem C16_prefixes_disjoint :
  forall u1 u2 c1 c2 x, u1 <> u2 -> In x (ids u1 c1) -> ~ In x (ids u2 c2).
Proof. exact ids_prefix_disjoint. Qed.
Print Assumptions C16_prefixes_disjoint.

(* the generator of the pinned commit (no max) violates the property: clock 5,5,6,5 *)
Theorem C16_backwards_clock_refuted_unfixed :
  exists clock, ~ NoDup (gen_all gen_unfixed g_init clock).
Proof. exact unfixed_repeats. Qed.
Print Assumptions C16_backwards_clock_refuted_unfixed.

(* non-vacuity: a concrete backwards clock *)
Example C16_example :
  ids (Some [117]) [5; 5; 6; 5; 4; 6] =
  map (render (Some [117])) [(5,0); (5,1); (6,0); (6,1); (6,2); (6,3)].
Proof. vm_compute. reflexivity. Qed.

(* ---- any number of threads ---- *)
From Bobo Require Import Model.IdGenThreads Proofs.IdGenThreadsProofs.

(* For EVERY number of threads, EVERY clock and EVERY interleaving of the steps of generate() (take the lock when it
   is free / read the clock and update the shared second and counter / build the identifier and release), the
   identifiers handed out - in the order they were built - are an initial segment of what the sequential generator
   returns on the clock readings in lock-acquisition order, and all of it once no call is in progress. *)
Theorem C16_threads_refine_sequential :
  forall (n : nat) (clk : list Z) (sched : list nat),
    let s := trun true (t_init n clk) sched in
    exists used, clk = used ++ t_clk s /\ is_prefix (t_out s) (gen_all gen g_init used) /\
                 (t_lock s = None -> t_out s = gen_all gen g_init used).
Proof. exact threads_refine_sequential. Qed.
Print Assumptions C16_threads_refine_sequential.

(* hence: pairwise distinct for any number of requests from any number of threads and any clock behaviour *)
Theorem C16_threads_ids_distinct :
  forall (n : nat) (clk : list Z) (sched : list nat) (urn : option (list Z)),
    NoDup (map (render urn) (t_out (trun true (t_init n clk) sched))).
Proof. exact threads_ids_distinct. Qed.
Print Assumptions C16_threads_ids_distinct.

(* releasing the lock before the identifier is built (from the shared counter) is refuted: two threads, one second,
   schedule 0 0 0 1 1 1 0 1 - the same identifier twice; the code as it is returns two different ones (this also is
   the non-vacuity example: an interleaving in which both threads are inside generate() at once) *)
Theorem C16_format_outside_lock_refuted :
  t_out (trun false (t_init 2 [5; 5]) bad_sched) = [(5, 1); (5, 1)] /\
  t_out (trun true (t_init 2 [5; 5]) bad_sched) = [(5, 0); (5, 1)].
Proof. exact format_outside_lock_repeats. Qed.
Print Assumptions C16_format_outside_lock_refuted.
