(* C10  Message delivery does not depend on how TCP splits the bytes.
   Statements only; proofs are in Proofs/RecvProofs.v; the model (Model/Recv.v) is the receive loop of
   bobocep/dist/tcp.py with the clock and the network as oracle lists.
   cfg fields r_end_on_all / r_client_to select the repaired code (true) or the pinned commit (false). *)
From Bobo Require Import Base.Prelude Model.Recv Proofs.RecvProofs.

(* Every message m that passes the end-of-message test (at least min_length bytes, ends in the marker:
   what encrypt() produces for every plaintext), cut into reads in ANY way - any number of chunks, each
   between 1 and recv_bytes bytes, including a last chunk shorter than min_length - is handed to decrypt
   exactly as sent, by exactly one decrypt attempt (the loop's single outcome), after exactly one recv
   per chunk, provided the reads happen before the receive deadline and no proper prefix ending at a
   read boundary itself passes the test (see C10_premature_marker_refuted for why that premise is there).
   Whatever follows on the connection (rest) is irrelevant. *)
Theorem C10_delivery_any_cut :
  forall (c : rcfg) (accepted : Z) (m : list Z) (chunks : list (list Z)) (rest : list read) (clock : list Z),
    r_end_on_all c = true ->
    end_test c m = true -> chunks <> [] -> concat chunks = m -> Forall (chunk_ok c) chunks ->
    no_premature c chunks -> timely c accepted (length chunks) clock ->
    out_of (recv_loop c accepted [] (map Bytes chunks ++ rest) clock) = Deliver m
    /\ length (trace_of (recv_loop c accepted [] (map Bytes chunks ++ rest) clock)) = length chunks.
Proof. exact delivery_any_cut_lem. Qed.
Print Assumptions C10_delivery_any_cut.

Example C10_delivery_example :   (* 60-byte message, reads of 50 + 7 + 3 bytes *)
  out_of (recv_loop (cfg_fixed 52 3 2048) 100 []
                    (map Bytes [firstn 50 d5_msg; firstn 7 (skipn 50 d5_msg); skipn 57 d5_msg]) [100; 101; 102])
  = Deliver d5_msg.
Proof. vm_compute. reflexivity. Qed.

(* recv(n) handing out less than is available only changes the cut: a script item larger than
   recv_bytes behaves exactly like its split into recv_bytes-sized reads (so "uniform read sizes"
   are instances of the theorem above). *)
Theorem C10_oversize_read_is_resplit :
  forall (c : rcfg) (accepted : Z), (0 < r_nrecv c)%nat ->
  forall (clock : list Z) (buf bs : list Z) (s : list read) (fuel : nat),
    (length bs <= fuel)%nat ->
    recv_loop c accepted buf (Bytes bs :: s) clock =
    recv_loop c accepted buf (map Bytes (split_every fuel (r_nrecv c) bs) ++ s) clock.
Proof. exact oversize_resplit. Qed.
Print Assumptions C10_oversize_read_is_resplit.

(* D5.  On the model of the pinned commit (end test on the last chunk) the statement is false:
   a 60-byte message read as 50 + 10 bytes is never recognised. *)
Theorem C10_last_chunk_short_refuted_unfixed :
  exists c accepted m chunks rest clock,
    r_end_on_all c = false /\
    end_test c m = true /\ chunks <> [] /\ concat chunks = m /\ Forall (chunk_ok c) chunks /\
    no_premature c chunks /\ timely c accepted (length chunks) clock /\
    out_of (recv_loop c accepted [] (map Bytes chunks ++ rest) clock) <> Deliver m.
Proof. exact last_chunk_short_refuted_lem. Qed.
Print Assumptions C10_last_chunk_short_refuted_unfixed.

(* D7 (known finding).  The premise no_premature cannot be dropped, for the repaired code either: the
   framing has no length field, so a proper prefix of at least min_length bytes that ends in the marker
   at a read boundary is handed to decrypt instead of the message. *)
Theorem C10_premature_marker_refuted :
  exists c accepted m chunks rest clock,
    r_end_on_all c = true /\
    end_test c m = true /\ chunks <> [] /\ concat chunks = m /\ Forall (chunk_ok c) chunks /\
    timely c accepted (length chunks) clock /\
    exists p, out_of (recv_loop c accepted [] (map Bytes chunks ++ rest) clock) = Deliver p /\ p <> m.
Proof. exact premature_marker_refuted_lem. Qed.
Print Assumptions C10_premature_marker_refuted.

(* A connection that ends (Closed) or goes silent (Timeout) - in any mixture, for any length - after
   bytes that never pass the end test (in particular after any proper prefix of a message without a
   premature marker): nothing is ever handed to decrypt (so nothing is applied), the handler never
   hangs, a give-up by the clock happens at a reading at or past the deadline, every recv is issued
   before the deadline accepted + timeout_receive with a socket timeout that expires exactly at the
   deadline (so the listener is free again by then), and the loop can only still be running while
   every clock reading is before the deadline.  For every clock. *)
Theorem C10_truncation_gives_up :
  forall (c : rcfg) (accepted : Z) (chunks : list (list Z)) (tail : list read) (clock : list Z),
    r_end_on_all c = true -> r_client_to c = true ->
    Forall (chunk_ok c) chunks -> Forall quiet tail ->
    (forall k, (k <= length chunks)%nat -> end_test c (concat (firstn k chunks)) = false) ->
    let r := recv_loop c accepted [] (map Bytes chunks ++ tail) clock in
    (forall b, out_of r <> Deliver b) /\ out_of r <> Hang /\
    (forall e, out_of r = GiveUpClock e -> r_trecv c <= e) /\
    (out_of r = ClockOut -> Forall (fun t => t - accepted < r_trecv c) clock) /\
    Forall (fun p => fst p - accepted < r_trecv c /\ fst p + snd p = accepted + r_trecv c) (trace_of r).
Proof. exact truncation_gives_up_lem. Qed.
Print Assumptions C10_truncation_gives_up.

Example C10_truncation_example :   (* 59 of 60 bytes, then closed: given up at the first reading >= 103 *)
  out_of (recv_loop (cfg_fixed 52 3 2048) 100 [] [Bytes (firstn 59 d5_msg); Closed] [100; 100; 101; 103; 104])
  = GiveUpClock 3
  /\ out_of (recv_loop (cfg_fixed 52 3 2048) 100 [] [Bytes (firstn 59 d5_msg); Timeout] [100; 101; 104])
  = GiveUpSock.
Proof. vm_compute. split; reflexivity. Qed.

(* The bounded wait holds for every script, not only truncations. *)
Theorem C10_bounded_wait :
  forall (c : rcfg) (accepted : Z), r_client_to c = true ->
  forall (clock : list Z) (buf : list Z) (script : list read),
    Forall (fun p => fst p - accepted < r_trecv c /\ fst p + snd p = accepted + r_trecv c)
           (trace_of (recv_loop c accepted buf script clock))
    /\ out_of (recv_loop c accepted buf script clock) <> Hang.
Proof. exact bounded_wait_no_hang. Qed.
Print Assumptions C10_bounded_wait.

(* Later messages are served: whatever the earlier clients did (any scripts, any clocks), each client is
   handled on its own, and a complete message on a later connection is delivered in every admissible cut. *)
Theorem C10_later_messages_served :
  forall (c : rcfg) (prior : list (list read * list Z)) (accepted : Z) (m : list Z)
         (chunks : list (list Z)) (rest : list read) (clock : list Z),
    r_client_to c = true -> r_end_on_all c = true ->
    end_test c m = true -> chunks <> [] -> concat chunks = m -> Forall (chunk_ok c) chunks ->
    no_premature c chunks -> timely c accepted (length chunks) clock ->
    last (listen c (prior ++ [(map Bytes chunks ++ rest, accepted :: clock)])) ClockOut = Deliver m
    /\ length (listen c (prior ++ [(map Bytes chunks ++ rest, accepted :: clock)])) = S (length prior).
Proof. exact later_message_delivered_lem. Qed.
Print Assumptions C10_later_messages_served.

Theorem C10_clients_independent :
  forall (c : rcfg) (prior : list (list read * list Z)) (good : list read * list Z),
    r_client_to c = true ->
    listen c (prior ++ [good]) = map (session_outcome c) prior ++ [session_outcome c good].
Proof. exact later_messages_served_lem. Qed.
Print Assumptions C10_clients_independent.

(* D6.  On the model of the pinned commit (no timeout on the accepted socket) one silent client is
   the end of the listener: the complete message behind it is never read. *)
Theorem C10_silent_client_blocks_unfixed :
  exists c prior accepted m chunks clock,
    r_client_to c = false /\
    end_test c m = true /\ chunks <> [] /\ concat chunks = m /\ Forall (chunk_ok c) chunks /\
    no_premature c chunks /\ timely c accepted (length chunks) clock /\
    listen c (prior ++ [(map Bytes chunks, accepted :: clock)]) = [Hang].
Proof. exact silent_client_blocks_unfixed_lem. Qed.
Print Assumptions C10_silent_client_blocks_unfixed.

Example C10_later_example :
  listen (cfg_fixed 52 3 2048)
         [([Timeout], [100; 100]); ([Bytes [1; 2; 3]], [110; 110; 111; 113]); ([Bytes d5_msg], [120; 120])]
  = [GiveUpSock; GiveUpClock 3; Deliver d5_msg].
Proof. vm_compute. reflexivity. Qed.
