(* Event histories: BoboHistory as an insertion-ordered association list  group -> events.
   (Python dict order = insertion order; BoboRun._add_event copies the dict, appends, rebuilds.) *)
From Bobo Require Import Base.Prelude.

Section History.
  Variable E : Type.
  Definition history := list (Z * list E).

  Fixpoint hadd (g : Z) (e : E) (h : history) : history :=
    match h with
    | [] => [(g, [e])]
    | (g', es) :: h' => if Z.eqb g g' then (g', es ++ [e]) :: h' else (g', es) :: hadd g e h'
    end.

  Fixpoint hsize (h : history) : nat :=
    match h with [] => 0%nat | (_, es) :: h' => (length es + hsize h')%nat end.

  Definition hall (h : history) : list E := concat (map snd h).

  Fixpoint hgroup (g : Z) (h : history) : list E :=
    match h with
    | [] => []
    | (g', es) :: h' => if Z.eqb g g' then es else hgroup g h'
    end.
End History.
Arguments hadd {E}. Arguments hsize {E}. Arguments hall {E}. Arguments hgroup {E}.
