(* Shared definitions: result type, predicate results, case comparison for the
   correspondence check.  No proofs here. *)
From Coq Require Export List ZArith Bool Arith Lia.
Export ListNotations.
Open Scope Z_scope.

Inductive pres := PTrue | PFalse | PRaise.

Fixpoint zlist_eqb (a b : list Z) : bool :=
  match a, b with
  | [], [] => true
  | x :: a', y :: b' => Z.eqb x y && zlist_eqb a' b'
  | _, _ => false
  end.

(* cases: (input, expected output of the implementation).  Result: index and model
   output of every disagreeing case. *)
Fixpoint mismatches_from {A} (n : nat) (f : A -> list Z) (cs : list (A * list Z))
  : list (nat * list Z) :=
  match cs with
  | [] => []
  | (a, e) :: cs' =>
      let o := f a in
      if zlist_eqb o e then mismatches_from (S n) f cs'
      else (n, o) :: mismatches_from (S n) f cs'
  end.
Definition mismatches {A} := @mismatches_from A 0%nat.

Definition b2z (b : bool) : Z := if b then 1 else 0.
Definition n2z (n : nat) : Z := Z.of_nat n.
