(* Characterisation of the run table operations of Model/Decider.v in terms of [bucket]:
   later proofs depend on these lemmas only, not on the nested association lists. *)
From Bobo Require Import Base.Prelude Base.History Model.Pattern Model.Run Model.Decider.

Section AL.
  Context {V : Type}.

  Lemma al_get_upd_same (k : Z) (f : option V -> V) l : al_get k (al_upd k f l) = Some (f (al_get k l)).
  Proof.
    induction l as [|[k' v] l IH]; simpl.
    - now rewrite Z.eqb_refl.
    - destruct (Z.eqb_spec k k'); simpl.
      + subst. now rewrite Z.eqb_refl.
      + destruct (Z.eqb_spec k k'); [contradiction|]. exact IH.
  Qed.

  Lemma al_get_upd_other (k k' : Z) (f : option V -> V) l : k' <> k -> al_get k' (al_upd k f l) = al_get k' l.
  Proof.
    intro Hne. induction l as [|[k2 v] l IH]; simpl.
    - destruct (Z.eqb_spec k' k); [contradiction|reflexivity].
    - destruct (Z.eqb_spec k k2); simpl.
      + subst. destruct (Z.eqb_spec k' k2); [contradiction|reflexivity].
      + destruct (Z.eqb_spec k' k2); [reflexivity|exact IH].
  Qed.

  Lemma al_get_map_key (k k0 : Z) (g : V -> V) (l : list (Z * V)) :
    al_get k (map (fun kv => if Z.eqb (fst kv) k0 then (fst kv, g (snd kv)) else kv) l) =
    if Z.eqb k k0 then option_map g (al_get k l) else al_get k l.
  Proof.
    induction l as [|[k' v] l IH]; simpl.
    - now destruct (Z.eqb k k0).
    - destruct (Z.eqb_spec k' k0); simpl; destruct (Z.eqb_spec k k'); simpl.
      + subst. now rewrite Z.eqb_refl.
      + exact IH.
      + subst. destruct (Z.eqb_spec k' k0); [contradiction|reflexivity].
      + exact IH.
  Qed.

  Lemma al_get_map_all {W} (k : Z) (g : V -> W) (l : list (Z * V)) :
    al_get k (map (fun kv => (fst kv, g (snd kv))) l) = option_map g (al_get k l).
  Proof.
    induction l as [|[k' v] l IH]; simpl; [reflexivity|].
    destruct (Z.eqb k k'); [reflexivity|exact IH].
  Qed.

  Lemma al_upd_keys (k : Z) (f : option V -> V) l :
    map fst (al_upd k f l) = if existsb (Z.eqb k) (map fst l) then map fst l else map fst l ++ [k].
  Proof.
    induction l as [|[k' v] l IH]; simpl; [reflexivity|].
    destruct (Z.eqb_spec k k'); simpl; [reflexivity|]. rewrite IH.
    destruct (existsb (Z.eqb k) (map fst l)); reflexivity.
  Qed.

  Lemma al_get_in (k : Z) (l : list (Z * V)) v : al_get k l = Some v -> In (k, v) l.
  Proof.
    induction l as [|[k' v'] l IH]; simpl; [discriminate|].
    destruct (Z.eqb_spec k k'); [intros [= ->]; subst; now left | intro H; right; auto].
  Qed.

  Lemma al_in_get (k : Z) (l : list (Z * V)) v : NoDup (map fst l) -> In (k, v) l -> al_get k l = Some v.
  Proof.
    induction l as [|[k' v'] l IH]; simpl; [contradiction|].
    intros Hnd [H|H].
    - injection H as -> ->. now rewrite Z.eqb_refl.
    - inversion Hnd as [|? ? Hn Hnd']; subst.
      destruct (Z.eqb_spec k k'); [subst; exfalso; apply Hn; apply (in_map fst) in H; exact H | auto].
  Qed.
End AL.

Section Buckets.
  Variable E : Type.
  Notation run := (run E).
  Notation runtab := (runtab E).

  Definition same (ph pat ph' pat' : Z) : bool := Z.eqb ph' ph && Z.eqb pat' pat.

  Lemma bucket_alt ph pat (rt : runtab) :
    bucket ph pat rt = odflt [] (al_get pat (odflt [] (al_get ph rt))).
  Proof. unfold bucket. destruct (al_get ph rt); reflexivity. Qed.

  Lemma bucket_add ph pat (r : run) (rt rt' : runtab) ph' pat' :
    rt_add ph pat r rt = Ok rt' ->
    bucket ph' pat' rt' = if same ph pat ph' pat' then bucket ph pat rt ++ [r] else bucket ph' pat' rt.
  Proof.
    unfold rt_add. destruct (run_at ph pat (r_id r) rt); [discriminate|]. intros [= <-].
    rewrite !bucket_alt. unfold same.
    destruct (Z.eqb_spec ph' ph) as [->|Hne]; simpl.
    - rewrite al_get_upd_same. simpl.
      destruct (Z.eqb_spec pat' pat) as [->|Hne2].
      + now rewrite al_get_upd_same.
      + now rewrite al_get_upd_other.
    - now rewrite al_get_upd_other.
  Qed.

  Lemma rt_add_ok ph pat (r : run) (rt : runtab) :
    run_at ph pat (r_id r) rt = None -> exists rt', rt_add ph pat r rt = Ok rt'.
  Proof. intro H. unfold rt_add. rewrite H. eexists; reflexivity. Qed.

  Lemma bucket_remove ph pat id (rt : runtab) ph' pat' :
    bucket ph' pat' (rt_remove ph pat id rt) =
    if same ph pat ph' pat' then filter (fun r => negb (Z.eqb (r_id r) id)) (bucket ph' pat' rt)
    else bucket ph' pat' rt.
  Proof.
    unfold rt_remove, same. rewrite !bucket_alt, al_get_map_key.
    destruct (Z.eqb ph' ph); simpl; [|reflexivity].
    destruct (al_get ph' rt) as [m|]; simpl.
    - rewrite al_get_map_key. destruct (Z.eqb pat' pat); [|reflexivity].
      destruct (al_get pat' m); reflexivity.
    - now destruct (Z.eqb pat' pat).
  Qed.

  Lemma bucket_replace ph pat (r' : run) (rt : runtab) ph' pat' :
    bucket ph' pat' (rt_replace ph pat r' rt) =
    if same ph pat ph' pat' then map (fun r => if Z.eqb (r_id r) (r_id r') then r' else r) (bucket ph' pat' rt)
    else bucket ph' pat' rt.
  Proof.
    unfold rt_replace, same. rewrite !bucket_alt, al_get_map_key.
    destruct (Z.eqb ph' ph); simpl; [|reflexivity].
    destruct (al_get ph' rt) as [m|]; simpl.
    - rewrite al_get_map_key. destruct (Z.eqb pat' pat); [|reflexivity].
      destruct (al_get pat' m); reflexivity.
    - now destruct (Z.eqb pat' pat).
  Qed.

  Definition optl {A} (o : option A) : list A := match o with Some x => [x] | None => [] end.

  Lemma bucket_filter_map (f : run -> option run) (rt : runtab) ph pat :
    bucket ph pat (rt_filter_map f rt) = flat_map (fun r => optl (f r)) (bucket ph pat rt).
  Proof.
    unfold rt_filter_map. rewrite !bucket_alt, al_get_map_all.
    destruct (al_get ph rt) as [m|]; simpl; [|reflexivity].
    rewrite al_get_map_all. destruct (al_get pat m); simpl; [|reflexivity].
    apply flat_map_ext. intro r. now destruct (f r).
  Qed.

  (* ---------- key uniqueness: links rt_all with the buckets ---------- *)
  Definition rt_wf (rt : runtab) : Prop :=
    NoDup (map fst rt) /\ Forall (fun pm => NoDup (map fst (snd pm))) rt.

  Lemma in_rt_all (rt : runtab) (r : run) :
    In r (rt_all rt) <-> exists ph m pat rs, In (ph, m) rt /\ In (pat, rs) m /\ In r rs.
  Proof.
    unfold rt_all. rewrite in_concat. split.
    - intros [l [Hl Hr]]. rewrite in_map_iff in Hl. destruct Hl as [[ph m] [<- Hpm]].
      simpl in Hr. rewrite in_concat in Hr. destruct Hr as [rs [Hrs Hr]].
      rewrite in_map_iff in Hrs. destruct Hrs as [[pat rs'] [<- Hpr]].
      exists ph, m, pat, rs'. auto.
    - intros [ph [m [pat [rs [H1 [H2 H3]]]]]].
      exists (concat (map snd m)). split.
      + rewrite in_map_iff. exists (ph, m). auto.
      + rewrite in_concat. exists rs. split; [|exact H3]. rewrite in_map_iff. exists (pat, rs). auto.
  Qed.

  Lemma in_bucket_all (rt : runtab) ph pat r : In r (bucket ph pat rt) -> In r (rt_all rt).
  Proof.
    unfold bucket. destruct (al_get ph rt) as [m|] eqn:E1; [|contradiction].
    destruct (al_get pat m) as [rs|] eqn:E2; simpl; [|contradiction].
    intro H. apply in_rt_all. exists ph, m, pat, rs.
    split; [now apply al_get_in|split; [now apply al_get_in|exact H]].
  Qed.

  Lemma in_all_bucket (rt : runtab) r :
    rt_wf rt -> In r (rt_all rt) -> exists ph pat, In r (bucket ph pat rt).
  Proof.
    intros [Hk Hin] H. apply in_rt_all in H. destruct H as [ph [m [pat [rs [H1 [H2 H3]]]]]].
    exists ph, pat. unfold bucket.
    rewrite (al_in_get ph rt m Hk H1).
    rewrite Forall_forall in Hin. specialize (Hin _ H1). simpl in Hin.
    rewrite (al_in_get pat m rs Hin H2). exact H3.
  Qed.

  Lemma keys_map_key {V} (k0 : Z) (g : V -> V) (l : list (Z * V)) :
    map fst (map (fun kv => if Z.eqb (fst kv) k0 then (fst kv, g (snd kv)) else kv) l) = map fst l.
  Proof. induction l as [|[k v] l IH]; simpl; [reflexivity|]. rewrite IH. now destruct (Z.eqb k k0). Qed.

  Lemma rt_wf_map_inner (rt : runtab) (k0 : Z) (g : list (Z * list run) -> list (Z * list run)) :
    (forall m, map fst (g m) = map fst m) -> rt_wf rt ->
    rt_wf (map (fun pm => if Z.eqb (fst pm) k0 then (fst pm, g (snd pm)) else pm) rt).
  Proof.
    intros Hg [H1 H2]. split.
    - now rewrite keys_map_key.
    - rewrite Forall_forall in *. intros pm Hpm. rewrite in_map_iff in Hpm.
      destruct Hpm as [[ph m] [<- Hin]]. simpl. specialize (H2 _ Hin). simpl in H2.
      destruct (Z.eqb ph k0); simpl; [now rewrite Hg|exact H2].
  Qed.

  Lemma rt_wf_remove ph pat id (rt : runtab) : rt_wf rt -> rt_wf (rt_remove ph pat id rt).
  Proof. unfold rt_remove. apply rt_wf_map_inner. intro m. apply keys_map_key. Qed.

  Lemma rt_wf_replace ph pat (r' : run) (rt : runtab) : rt_wf rt -> rt_wf (rt_replace ph pat r' rt).
  Proof. unfold rt_replace. apply rt_wf_map_inner. intro m. apply keys_map_key. Qed.

  Lemma rt_wf_filter_map (f : run -> option run) (rt : runtab) : rt_wf rt -> rt_wf (rt_filter_map f rt).
  Proof.
    intros [H1 H2]. unfold rt_filter_map. split.
    - rewrite map_map. simpl. exact H1.
    - rewrite Forall_forall in *. intros pm Hpm. rewrite in_map_iff in Hpm.
      destruct Hpm as [[ph m] [<- Hin]]. simpl. rewrite map_map. simpl. exact (H2 _ Hin).
  Qed.

  Lemma NoDup_snoc {A} (l : list A) (x : A) : NoDup l -> ~ In x l -> NoDup (l ++ [x]).
  Proof.
    induction l as [|y l IH]; simpl; intros Hn Hx; [constructor; [intros []|constructor]|].
    inversion Hn as [|? ? Hy Hn']; subst. constructor.
    - rewrite in_app_iff. intros [H|[H|[]]]; [contradiction|]. subst. apply Hx. now left.
    - apply IH; [exact Hn'|]. intro H. apply Hx. now right.
  Qed.

  Lemma nodup_al_upd_keys {V} (k : Z) (f : option V -> V) (l : list (Z * V)) :
    NoDup (map fst l) -> NoDup (map fst (al_upd k f l)).
  Proof.
    intro H. rewrite al_upd_keys. destruct (existsb (Z.eqb k) (map fst l)) eqn:Ex; [exact H|].
    apply NoDup_snoc; [exact H|].
    intro Hin. assert (existsb (Z.eqb k) (map fst l) = true); [|congruence].
    apply existsb_exists. exists k. split; [exact Hin|apply Z.eqb_refl].
  Qed.


  Lemma al_upd_in {V} (k : Z) (f : option V -> V) (l : list (Z * V)) kv :
    In kv (al_upd k f l) -> In kv l \/ kv = (k, f (al_get k l)).
  Proof.
    induction l as [|[k' v] l IH]; simpl.
    - intros [<-|[]]. now right.
    - destruct (Z.eqb_spec k k'); simpl.
      + subst. intros [<-|H]; [now right|left; now right].
      + intros [<-|H]; [left; now left|]. destruct (IH H) as [H'|H']; [left; now right|now right].
  Qed.

  Lemma rt_wf_add ph pat (r : run) (rt rt' : runtab) : rt_add ph pat r rt = Ok rt' -> rt_wf rt -> rt_wf rt'.
  Proof.
    unfold rt_add. destruct (run_at ph pat (r_id r) rt); [discriminate|]. intros [= <-] [H1 H2]. split.
    - now apply nodup_al_upd_keys.
    - rewrite Forall_forall in *. intros pm Hpm. apply al_upd_in in Hpm. destruct Hpm as [Hpm| ->].
      + exact (H2 _ Hpm).
      + simpl. apply nodup_al_upd_keys.
        destruct (al_get ph rt) as [m|] eqn:Em; simpl; [|constructor].
        apply al_get_in in Em. exact (H2 _ Em).
  Qed.

  Lemma rt_wf_nil : rt_wf (@nil (Z * list (Z * list run))).
  Proof. split; constructor. Qed.
End Buckets.
