(* Invariants of the decider model: key consistency, distinct ids per pattern (C12),
   at most one active run per singleton pattern (C13), and the step characterisation (C01). *)
From Bobo Require Import Base.Prelude Base.History Model.Pattern Model.Run Model.Decider.
From Bobo Require Import Proofs.RunProofs Proofs.DeciderLemmas.

Section DeciderProofs.
  Variable E : Type.
  Notation run := (run E).
  Notation runtab := (runtab E).
  Notation pattern := (pattern E).
  Notation config := (config E).
  Notation dstate := (dstate E).
  Notation rserial := (rserial E).
  Notation note := (note E).

  (* ---------- after_event ---------- *)
  Lemma after_event_some (e : E) (r r' : run) :
    after_event e r = Some r' ->
    r_id r' = r_id r /\ r_ph r' = r_ph r /\ r_pat r' = r_pat r /\ (r_idx r <= r_idx r')%nat.
  Proof.
    unfold after_event. destruct (process r e) as [[r1 c]|k] eqn:Ep.
    - pose proof (process_outcome E r e r1 c Ep) as Ho.
      pose proof (outcome_id E r e r1 c Ho) as [H1 [H2 H3]].
      pose proof (outcome_index_monotone E r e r1 c Ho) as H4.
      destruct c; [destruct (r_halted r1); [discriminate|]|]; intros [= <-]; auto.
    - intros [= <-]. auto.
  Qed.

  (* ---------- configuration ---------- *)
  Definition cfg_wf (cfg : config) : Prop :=
    NoDup (map fst (c_phen cfg)) /\ Forall (fun pp => NoDup (map (@p_name E) (snd pp))) (c_phen cfg).

  Lemma get_pattern_name (cfg : config) ph pat p : get_pattern cfg ph pat = Some p -> p_name p = pat.
  Proof.
    unfold get_pattern. destruct (al_get ph (c_phen cfg)); [|discriminate].
    intro H. apply find_some in H. destruct H as [_ H]. now apply Z.eqb_eq in H.
  Qed.

  Lemma find_nodup_name (ps : list pattern) p :
    NoDup (map (@p_name E) ps) -> In p ps -> find (fun q => Z.eqb (p_name q) (p_name p)) ps = Some p.
  Proof.
    induction ps as [|q ps IH]; simpl; [contradiction|]. intros Hnd [->|Hin].
    - now rewrite Z.eqb_refl.
    - inversion Hnd as [|? ? Hn Hnd']; subst.
      destruct (Z.eqb_spec (p_name q) (p_name p)) as [Heq|_]; [|auto].
      exfalso. apply Hn. rewrite Heq. now apply in_map.
  Qed.

  Lemma cfg_pats_get (cfg : config) ph p :
    cfg_wf cfg -> In (ph, p) (cfg_pats cfg) -> get_pattern cfg ph (p_name p) = Some p.
  Proof.
    intros [Hk Hp] Hin. unfold cfg_pats in Hin. rewrite in_flat_map in Hin.
    destruct Hin as [[ph' ps] [Hpp Hin]]. simpl in Hin. rewrite in_map_iff in Hin.
    destruct Hin as [q [[= -> ->] Hq]].
    unfold get_pattern. rewrite (al_in_get ph (c_phen cfg) ps Hk Hpp).
    rewrite Forall_forall in Hp. specialize (Hp _ Hpp). simpl in Hp.
    now apply find_nodup_name.
  Qed.

  (* ---------- invariants of the run table ---------- *)
  Definition keys_ok (rt : runtab) : Prop :=
    forall ph pat r, In r (bucket ph pat rt) -> r_ph r = ph /\ p_name (r_pat r) = pat.
  Definition ids_nodup (rt : runtab) : Prop :=
    forall ph pat, NoDup (map (@r_id E) (bucket ph pat rt)).
  Definition single_ok (cfg : config) (rt : runtab) : Prop :=
    forall ph pat p, get_pattern cfg ph pat = Some p -> p_single p = true ->
                     (length (bucket ph pat rt) <= 1)%nat.
  Definition Inv (cfg : config) (rt : runtab) : Prop :=
    rt_wf E rt /\ keys_ok rt /\ ids_nodup rt /\ single_ok cfg rt.

  Lemma Inv_nil cfg : Inv cfg [].
  Proof.
    split; [apply rt_wf_nil|]. split; [|split]; intros ph pat; unfold bucket; simpl;
      try contradiction; try constructor. intros. simpl. lia.
  Qed.

  (* --- rt_filter_map (after_event e) --- *)
  Lemma nodup_flat_map_ids (f : run -> option run) (l : list run) :
    (forall r r', f r = Some r' -> r_id r' = r_id r) -> NoDup (map (@r_id E) l) ->
    NoDup (map (@r_id E) (flat_map (fun r => optl (f r)) l)).
  Proof.
    intros Hf. induction l as [|r l IH]; simpl; intro Hnd; [constructor|].
    inversion Hnd as [|? ? Hn Hnd']; subst. rewrite map_app. destruct (f r) as [r'|] eqn:Ef; simpl; [|auto].
    constructor; [|auto]. rewrite (Hf _ _ Ef). intro Hin. apply Hn.
    rewrite in_map_iff in Hin. destruct Hin as [x [Hx Hin]]. rewrite in_flat_map in Hin.
    destruct Hin as [y [Hy Hxy]]. destruct (f y) as [y'|] eqn:Efy; simpl in Hxy; [|contradiction].
    destruct Hxy as [<-|[]]. rewrite (Hf _ _ Efy) in Hx. rewrite <- Hx. now apply in_map.
  Qed.

  Lemma length_flat_map_optl {A B} (f : A -> option B) (l : list A) :
    (length (flat_map (fun r => optl (f r)) l) <= length l)%nat.
  Proof. induction l as [|a l IH]; simpl; [lia|]. rewrite app_length. destruct (f a); simpl; lia. Qed.

  Lemma Inv_after_event cfg (e : E) rt : Inv cfg rt -> Inv cfg (rt_filter_map (after_event e) rt).
  Proof.
    intros [Hwf [Hk [Hn Hs]]]. split; [now apply rt_wf_filter_map|]. split; [|split].
    - intros ph pat r. rewrite bucket_filter_map, in_flat_map. intros [r0 [Hin Hr]].
      destruct (after_event e r0) as [r1|] eqn:Ea; simpl in Hr; [|contradiction]. destruct Hr as [<-|[]].
      destruct (after_event_some _ _ _ Ea) as [_ [H2 [H3 _]]]. rewrite H2, H3. now apply Hk.
    - intros ph pat. rewrite bucket_filter_map. apply nodup_flat_map_ids; [|apply Hn].
      intros r r' H. now destruct (after_event_some _ _ _ H).
    - intros ph pat p Hg Hsg. rewrite bucket_filter_map.
      eapply Nat.le_trans; [apply length_flat_map_optl|]. eapply Hs; eauto.
  Qed.

  (* --- rt_add --- *)
  Lemma run_at_none_notin ph pat id (rt : runtab) :
    run_at ph pat id rt = None -> ~ In id (map (@r_id E) (bucket ph pat rt)).
  Proof.
    unfold run_at. intros H Hin. rewrite in_map_iff in Hin. destruct Hin as [r [Hid Hr]].
    eapply find_none in H; eauto. simpl in H. rewrite Hid, Z.eqb_refl in H. discriminate.
  Qed.

  Lemma Inv_add cfg ph pat (r : run) rt rt' :
    rt_add ph pat r rt = Ok rt' -> r_ph r = ph -> p_name (r_pat r) = pat ->
    (forall p, get_pattern cfg ph pat = Some p -> p_single p = true -> bucket ph pat rt = []) ->
    Inv cfg rt -> Inv cfg rt'.
  Proof.
    intros Ha Hph Hpat Hgate [Hwf [Hk [Hn Hs]]].
    split; [eapply rt_wf_add; eauto|]. split; [|split].
    - intros ph' pat' x. rewrite (bucket_add E _ _ _ _ _ ph' pat' Ha). unfold same.
      destruct (Z.eqb_spec ph' ph) as [->|]; simpl; [|apply Hk].
      destruct (Z.eqb_spec pat' pat) as [->|]; simpl; [|apply Hk].
      rewrite in_app_iff. intros [H|[<-|[]]]; [now apply Hk|auto].
    - intros ph' pat'. rewrite (bucket_add E _ _ _ _ _ ph' pat' Ha). unfold same.
      destruct (Z.eqb_spec ph' ph) as [->|]; simpl; [|apply Hn].
      destruct (Z.eqb_spec pat' pat) as [->|]; simpl; [|apply Hn].
      rewrite map_app. simpl. apply NoDup_snoc; [apply Hn|].
      apply run_at_none_notin. unfold rt_add in Ha. now destruct (run_at ph pat (r_id r) rt).
    - intros ph' pat' p Hg Hsg. rewrite (bucket_add E _ _ _ _ _ ph' pat' Ha). unfold same.
      destruct (Z.eqb_spec ph' ph) as [->|]; simpl; [|eapply Hs; eauto].
      destruct (Z.eqb_spec pat' pat) as [->|]; simpl; [|eapply Hs; eauto].
      rewrite (Hgate p Hg Hsg). simpl. lia.
  Qed.

  Lemma filter_length_le {A} (f : A -> bool) (l : list A) : (length (filter f l) <= length l)%nat.
  Proof. induction l as [|a l IH]; simpl; [lia|]. destruct (f a); simpl; lia. Qed.

  (* --- rt_remove --- *)
  Lemma Inv_remove cfg ph pat id rt : Inv cfg rt -> Inv cfg (rt_remove ph pat id rt).
  Proof.
    intros [Hwf [Hk [Hn Hs]]]. split; [now apply rt_wf_remove|]. split; [|split].
    - intros ph' pat' r. rewrite bucket_remove. destruct (same ph pat ph' pat'); [|apply Hk].
      rewrite filter_In. intros [H _]. now apply Hk.
    - intros ph' pat'. rewrite bucket_remove. destruct (same ph pat ph' pat'); [|apply Hn].
      specialize (Hn ph' pat'). revert Hn. generalize (bucket ph' pat' rt) as l.
      induction l as [|x l IH]; simpl; intro Hnd; [constructor|].
      inversion Hnd as [|? ? Hx Hnd']; subst. destruct (negb (r_id x =? id)); simpl; [|auto].
      constructor; [|auto]. intro Hin. apply Hx. rewrite in_map_iff in *. destruct Hin as [y [Hy Hin]].
      exists y. split; [exact Hy|]. now apply filter_In in Hin.
    - intros ph' pat' p Hg Hsg. rewrite bucket_remove. destruct (same ph pat ph' pat'); [|eapply Hs; eauto].
      eapply Nat.le_trans; [apply filter_length_le|]. eapply Hs; eauto.
  Qed.

  (* --- rt_replace --- *)
  Lemma Inv_replace cfg ph pat (r' : run) rt :
    r_ph r' = ph -> p_name (r_pat r') = pat -> Inv cfg rt -> Inv cfg (rt_replace ph pat r' rt).
  Proof.
    intros Hph Hpat [Hwf [Hk [Hn Hs]]]. split; [now apply rt_wf_replace|]. split; [|split].
    - intros ph' pat' r. rewrite bucket_replace. unfold same.
      destruct (Z.eqb_spec ph' ph) as [->|]; simpl; [|apply Hk].
      destruct (Z.eqb_spec pat' pat) as [->|]; simpl; [|apply Hk].
      rewrite in_map_iff. intros [x [Hx Hin]]. destruct (Z.eqb (r_id x) (r_id r')); subst; auto.
    - intros ph' pat'. rewrite bucket_replace. destruct (same ph pat ph' pat'); [|apply Hn].
      rewrite map_map. erewrite map_ext; [apply Hn|]. intro x. simpl.
      destruct (Z.eqb_spec (r_id x) (r_id r')); auto.
    - intros ph' pat' p Hg Hsg. rewrite bucket_replace. destruct (same ph pat ph' pat'); [|eapply Hs; eauto].
      rewrite map_length. eapply Hs; eauto.
  Qed.

  (* ---------- local_step preserves the invariant ---------- *)
  Lemma Inv_start_runs cfg (e : E) pps rt n rt' n' c u :
    cfg_wf cfg -> (forall ph p, In (ph, p) pps -> In (ph, p) (cfg_pats cfg)) ->
    start_runs cfg e pps rt n = Ok (rt', n', c, u) -> Inv cfg rt -> Inv cfg rt'.
  Proof.
    intros Hcw. revert rt n rt' n' c u. induction pps as [|[ph p] rest IH]; intros rt n rt' n' c u Hsub H Hinv.
    - simpl in H. injection H as <- _ _ _. exact Hinv.
    - cbn [start_runs] in H. assert (Hsub' : forall ph p, In (ph, p) rest -> In (ph, p) (cfg_pats cfg))
        by (intros; apply Hsub; now right).
      destruct (first_match p e); [|eapply IH; eauto].
      destruct (r_halted (new_run (c_genid cfg n) ph p e) && is_complete (new_run (c_genid cfg n) ph p e)).
      + destruct (start_runs cfg e rest rt (S n)) as [[[[rt1 n1] c1] u1]|] eqn:Es; cbn in H; [|discriminate].
        injection H as <- _ _ _. eapply IH; eauto.
      + destruct (negb (p_single p) || Nat.eqb (length (bucket ph (p_name p) rt)) 0) eqn:Eg.
        * destruct (rt_add ph (p_name p) (new_run (c_genid cfg n) ph p e) rt) as [rt1|] eqn:Ea; cbn in H; [|discriminate].
          destruct (start_runs cfg e rest rt1 (S n)) as [[[[rt2 n2] c2] u2]|] eqn:Es; cbn in H; [|discriminate].
          injection H as <- _ _ _. eapply IH; eauto.
          eapply Inv_add; eauto.
          intros q Hq Hsq. pose proof (cfg_pats_get cfg ph p Hcw (Hsub _ _ (or_introl eq_refl))) as Hg.
          rewrite Hg in Hq. injection Hq as <-. rewrite Hsq in Eg. simpl in Eg.
          apply Nat.eqb_eq in Eg. now apply length_zero_iff_nil.
        * eapply IH; eauto.
  Qed.

  Theorem Inv_local_step cfg (s s' : dstate) (e : E) n :
    cfg_wf cfg -> local_step cfg s e = Ok (s', n) -> Inv cfg (d_runs s) -> Inv cfg (d_runs s').
  Proof.
    intros Hcw H Hinv. unfold local_step in H.
    destruct (start_runs cfg e (cfg_pats cfg) (rt_filter_map (after_event e) (d_runs s)) (d_next s))
      as [[[[rt2 n2] pc] pu]|] eqn:Es; [|discriminate].
    injection H as <- _. simpl. eapply Inv_start_runs; eauto. now apply Inv_after_event.
  Qed.

  (* ---------- remote_apply preserves the invariant ---------- *)
  Lemma Inv_apply_finished cfg which recs rt cc ch rt' cc' ch' out :
    apply_finished cfg which recs rt cc ch = (rt', cc', ch', out) -> Inv cfg rt -> Inv cfg rt'.
  Proof.
    revert rt cc ch rt' cc' ch' out. induction recs as [|rc rest IH]; intros rt cc ch rt' cc' ch' out H Hinv.
    - simpl in H. injection H as <- _ _ _. exact Hinv.
    - simpl in H. destruct (get_pattern cfg (s_ph rc) (s_pat rc)) as [p|]; [|eapply IH; eauto].
      destruct (if p_single p then bucket (s_ph rc) (p_name p) rt else []) as [|rl rls].
      + destruct (apply_finished cfg which rest (rt_remove (s_ph rc) (s_pat rc) (s_id rc) rt) cc ch)
          as [[[rt2 cc2] ch2] out2] eqn:Ea. cbn in H. injection H as <- _ _ _.
        eapply IH; eauto. now apply Inv_remove.
      + destruct (Z.eqb (s_id rc) (r_id rl)).
        * destruct (apply_finished cfg which rest _ cc ch) as [[[rt2 cc2] ch2] out2] eqn:Ea.
          cbn in H. injection H as <- _ _ _. eapply IH; eauto. now apply Inv_remove.
        * destruct (apply_finished cfg which rest _ _ _) as [[[rt2 cc2] ch2] out2] eqn:Ea.
          cbn in H. injection H as <- _ _ _. eapply IH; eauto. now apply Inv_remove.
  Qed.

  Lemma hd_error_in {A} (l : list A) x : hd_error l = Some x -> In x l.
  Proof. destruct l; simpl; [discriminate|intros [= ->]; now left]. Qed.

  Lemma Inv_apply_updated cfg d3 recs rt rt' out :
    apply_updated cfg d3 recs rt = (rt', out) -> Inv cfg rt -> Inv cfg rt'.
  Proof.
    revert rt rt' out. induction recs as [|rc rest IH]; intros rt rt' out H Hinv.
    - simpl in H. injection H as <- _. exact Hinv.
    - simpl in H. destruct (get_pattern cfg (s_ph rc) (s_pat rc)) as [p|] eqn:Eg; [|eapply IH; eauto].
      pose proof (get_pattern_name _ _ _ _ Eg) as Hname.
      destruct (if p_single p then hd_error (bucket (s_ph rc) (p_name p) rt)
                else run_at (s_ph rc) (s_pat rc) (s_id rc) rt) as [rl|] eqn:Erl.
      + destruct (apply_updated cfg d3 rest _) as [rt2 out2] eqn:Ea. cbn in H. injection H as <- _.
        eapply IH; eauto.
        assert (Hin : In rl (bucket (s_ph rc) (p_name p) rt)).
        { destruct (p_single p); [now apply hd_error_in|].
          unfold run_at in Erl. apply find_some in Erl. rewrite Hname. tauto. }
        pose proof Hinv as [Hwf [Hk Hrest]]. destruct (Hk _ _ _ Hin) as [Hph Hpat].
        apply Inv_replace; [| |exact Hinv].
        * destruct (ahead d3 rc rl); simpl; auto.
        * destruct (ahead d3 rc rl); simpl; auto.
      + destruct (apply_updated cfg d3 rest _) as [rt2 out2] eqn:Ea. cbn in H. injection H as <- _.
        eapply IH; eauto.
        destruct (rt_add (s_ph rc) (s_pat rc) (remote_run (s_id rc) (s_ph rc) p (s_idx rc) (s_hist rc)) rt)
          as [rt1|] eqn:Eadd; [|exact Hinv].
        eapply Inv_add; eauto.
        intros q Hq Hsq. rewrite Eg in Hq. injection Hq as <-. rewrite Hsq in Erl. rewrite <- Hname.
        destruct (bucket (s_ph rc) (p_name p) rt); [reflexivity|discriminate].
  Qed.

  Theorem Inv_remote_apply fixed d3 cfg (s s' : dstate) (m n : note) :
    remote_apply_gen fixed d3 cfg s m = (s', n) -> Inv cfg (d_runs s) -> Inv cfg (d_runs s').
  Proof.
    unfold remote_apply_gen. intros H Hinv.
    set (m1 := if fixed then filter_msg cfg s m else filter_msg_unfixed cfg s m) in *.
    destruct (apply_finished cfg true (n_comp m1) (d_runs s) _ _) as [[[rt1 cc1] ch1] comp] eqn:E1.
    destruct (apply_finished cfg false (n_halt m1) rt1 cc1 ch1) as [[[rt2 cc2] ch2] hlt] eqn:E2.
    destruct (apply_updated cfg d3 (n_upd m1) rt2) as [rt3 upd] eqn:E3.
    injection H as <- _. simpl.
    eapply Inv_apply_updated; eauto. eapply Inv_apply_finished; eauto. eapply Inv_apply_finished; eauto.
  Qed.

  (* ---------- every history of local events and arbitrary remote messages ---------- *)
  Inductive dop := DLocal (e : E) | DRemote (m : note).

  Fixpoint run_ops (cfg : config) (s : dstate) (ops : list dop) : option dstate :=
    match ops with
    | [] => Some s
    | DLocal e :: rest => match local_step cfg s e with Ok (s', _) => run_ops cfg s' rest | Exn _ => None end
    | DRemote m :: rest => run_ops cfg (fst (remote_apply cfg s m)) rest
    end.

  Theorem Inv_reachable cfg ops s :
    cfg_wf cfg -> run_ops cfg (d_init) ops = Some s -> Inv cfg (d_runs s).
  Proof.
    intros Hcw. assert (G : forall ops s0, Inv cfg (d_runs s0) -> run_ops cfg s0 ops = Some s -> Inv cfg (d_runs s)).
    { clear ops. induction ops as [|o rest IH]; intros s0 Hinv H; simpl in H.
      - now injection H as <-.
      - destruct o as [e|m].
        + destruct (local_step cfg s0 e) as [[s1 n]|] eqn:El; [|discriminate].
          apply (IH s1); [|exact H]. eapply Inv_local_step; eauto.
        + destruct (remote_apply cfg s0 m) as [s1 n] eqn:Er. simpl in H.
          apply (IH s1); [|exact H]. unfold remote_apply in Er. eapply Inv_remote_apply; eauto. }
    intro H. eapply G; eauto. simpl. apply Inv_nil.
  Qed.
End DeciderProofs.
