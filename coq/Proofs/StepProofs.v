(* Characterisation of one local decider step (C01, C12, C13 restart) and of remote updates (C12). *)
From Bobo Require Import Base.Prelude Base.History Model.Pattern Model.Run Model.Decider.
From Bobo Require Import Proofs.RunProofs Proofs.DeciderLemmas Proofs.DeciderProofs.

Section StepProofs.
  Variable E : Type.
  Notation run := (run E).
  Notation runtab := (runtab E).
  Notation pattern := (pattern E).
  Notation config := (config E).
  Notation dstate := (dstate E).
  Notation note := (note E).

  Definition in_key (ph pat : Z) (r : run) : bool := Z.eqb (r_ph r) ph && Z.eqb (p_name (r_pat r)) pat.

  (* what start_runs produces: a started run is a fresh run holding only the event, at index 1,
     for a configured pattern whose first block accepted; it was not processed against the event *)
  Definition fresh_for (cfg : config) (e : E) (r : run) : Prop :=
    exists k ph p, In (ph, p) (cfg_pats cfg) /\ first_match p e = true /\ r = new_run (c_genid cfg k) ph p e.

  Lemma start_runs_bucket cfg (e : E) pps rt n rt' n' c u ph pat :
    start_runs cfg e pps rt n = Ok (rt', n', c, u) ->
    bucket ph pat rt' = bucket ph pat rt ++ filter (in_key ph pat) u.
  Proof.
    revert rt n rt' n' c u. induction pps as [|[ph0 p] rest IH]; intros rt n rt' n' c u H.
    - simpl in H. injection H as <- _ _ <-. simpl. now rewrite app_nil_r.
    - cbn [start_runs] in H. destruct (first_match p e); [|eauto].
      destruct (r_halted (new_run (c_genid cfg n) ph0 p e) && is_complete (new_run (c_genid cfg n) ph0 p e)).
      + destruct (start_runs cfg e rest rt (S n)) as [[[[rt1 n1] c1] u1]|] eqn:Es; cbn in H; [|discriminate].
        injection H as <- _ _ <-. eauto.
      + destruct (negb (p_single p) || Nat.eqb (length (bucket ph0 (p_name p) rt)) 0); [|eauto].
        destruct (rt_add ph0 (p_name p) (new_run (c_genid cfg n) ph0 p e) rt) as [rt1|] eqn:Ea; cbn in H; [|discriminate].
        destruct (start_runs cfg e rest rt1 (S n)) as [[[[rt2 n2] c2] u2]|] eqn:Es; cbn in H; [|discriminate].
        injection H as <- _ _ <-. rewrite (IH _ _ _ _ _ _ Es).
        rewrite (bucket_add E _ _ _ _ _ ph pat Ea). unfold same, in_key. simpl.
        destruct (Z.eqb ph ph0 && Z.eqb pat (p_name p)) eqn:Ek.
        * rewrite Z.eqb_sym, (Z.eqb_sym (p_name p)), Ek. apply andb_true_iff in Ek. destruct Ek as [E1 E2].
          apply Z.eqb_eq in E1, E2. subst. now rewrite <- app_assoc.
        * rewrite Z.eqb_sym, (Z.eqb_sym (p_name p)), Ek. reflexivity.
  Qed.

  Lemma start_runs_fresh cfg (e : E) pps rt n rt' n' c u :
    (forall ph p, In (ph, p) pps -> In (ph, p) (cfg_pats cfg)) ->
    start_runs cfg e pps rt n = Ok (rt', n', c, u) ->
    Forall (fresh_for cfg e) c /\ Forall (fresh_for cfg e) u.
  Proof.
    revert rt n rt' n' c u. induction pps as [|[ph0 p] rest IH]; intros rt n rt' n' c u Hsub H.
    - simpl in H. injection H as _ _ <- <-. split; constructor.
    - assert (Hsub' : forall ph p, In (ph, p) rest -> In (ph, p) (cfg_pats cfg)) by (intros; apply Hsub; now right).
      cbn [start_runs] in H. destruct (first_match p e) eqn:Ef; [|eauto].
      assert (Hf : fresh_for cfg e (new_run (c_genid cfg n) ph0 p e)).
      { exists n, ph0, p. split; [apply Hsub; now left|auto]. }
      destruct (r_halted (new_run (c_genid cfg n) ph0 p e) && is_complete (new_run (c_genid cfg n) ph0 p e)).
      + destruct (start_runs cfg e rest rt (S n)) as [[[[rt1 n1] c1] u1]|] eqn:Es; cbn in H; [|discriminate].
        injection H as _ _ <- <-. destruct (IH _ _ _ _ _ _ Hsub' Es). split; [constructor|]; auto.
      + destruct (negb (p_single p) || Nat.eqb (length (bucket ph0 (p_name p) rt)) 0); [|eauto].
        destruct (rt_add ph0 (p_name p) (new_run (c_genid cfg n) ph0 p e) rt) as [rt1|] eqn:Ea; cbn in H; [|discriminate].
        destruct (start_runs cfg e rest rt1 (S n)) as [[[[rt2 n2] c2] u2]|] eqn:Es; cbn in H; [|discriminate].
        injection H as _ _ <- <-. destruct (IH _ _ _ _ _ _ Hsub' Es). split; [|constructor]; auto.
  Qed.

  (* ---------- C01 / C12: one local step, per pattern ---------- *)
  (* The active runs of a pattern after an event are: every run that existed before, offered the event
     (dropped if it finished on it), followed by the runs started by this event, which hold only the event. *)
  Theorem local_step_bucket cfg (s s' : dstate) (e : E) (n : note) ph pat :
    local_step cfg s e = Ok (s', n) ->
    exists started,
      bucket ph pat (d_runs s') =
        flat_map (fun r => optl (after_event e r)) (bucket ph pat (d_runs s)) ++ started
      /\ Forall (fresh_for cfg e) started.
  Proof.
    unfold local_step. intro H.
    destruct (start_runs cfg e (cfg_pats cfg) (rt_filter_map (after_event e) (d_runs s)) (d_next s))
      as [[[[rt2 n2] pc] pu]|] eqn:Es; [|discriminate].
    injection H as <- _. simpl. exists (filter (in_key ph pat) pu).
    rewrite (start_runs_bucket _ _ _ _ _ _ _ _ _ ph pat Es), bucket_filter_map. split; [reflexivity|].
    destruct (start_runs_fresh _ _ _ _ _ _ _ _ _ (fun _ _ h => h) Es) as [_ Hu].
    rewrite Forall_forall in *. intros x Hx. apply filter_In in Hx. now apply Hu.
  Qed.

  (* the notification lists *)
  Theorem local_step_note cfg (s s' : dstate) (e : E) (n : note) :
    local_step cfg s e = Ok (s', n) ->
    exists pc pu,
      Forall (fresh_for cfg e) pc /\ Forall (fresh_for cfg e) pu /\
      n_comp n = map ser (sel KComp (flat_map (run_event e) (rt_all (d_runs s))) ++ pc) /\
      n_halt n = map ser (sel KHalt (flat_map (run_event e) (rt_all (d_runs s)))) /\
      n_upd n = map ser (sel KUpd (flat_map (run_event e) (rt_all (d_runs s))) ++ pu).
  Proof.
    unfold local_step. intro H.
    destruct (start_runs cfg e (cfg_pats cfg) (rt_filter_map (after_event e) (d_runs s)) (d_next s))
      as [[[[rt2 n2] pc] pu]|] eqn:Es; [|discriminate].
    injection H as _ <-. simpl. exists pc, pu.
    destruct (start_runs_fresh _ _ _ _ _ _ _ _ _ (fun _ _ h => h) Es) as [Hc Hu]. auto.
  Qed.

  (* a run reported as completed was complete, one reported as halted was halted and incomplete,
     one reported as updated is still active; all three come from process on an existing run *)
  Lemma sel_in k (l : list (run * kind)) (r : run) : In r (sel k l) <-> In (r, k) l.
  Proof.
    unfold sel. rewrite in_flat_map. split.
    - intros [[r0 k0] [Hin Hr]]. simpl in Hr. destruct k0, k; simpl in Hr; try contradiction;
        destruct Hr as [<-|[]]; exact Hin.
    - intro H. exists (r, k). split; [exact H|]. destruct k; simpl; now left.
  Qed.

  Lemma run_event_in (e : E) (r0 r : run) k :
    In (r, k) (run_event e r0) <-> process r0 e = Ok (r, true) /\ k = kind_of r.
  Proof.
    unfold run_event. destruct (process r0 e) as [[r1 c]|x]; [destruct c|]; simpl.
    - split.
      + intros [H|[]]. injection H as <- <-. auto.
      + intros [H ->]. injection H as <-. now left.
    - split; [intros []|intros [H _]; discriminate].
    - split; [intros []|intros [H _]; discriminate].
  Qed.

  (* a decider step can only fail through _add_run's duplicate-id check, never through a predicate *)
  Lemma local_step_exn cfg (s : dstate) (e : E) k : local_step cfg s e = Exn k -> k = EDupRun.
  Proof.
    unfold local_step.
    generalize (rt_filter_map (after_event e) (d_runs s)) (d_next s).
    induction (cfg_pats cfg) as [|[ph p] rest IH]; intros rt n H.
    - discriminate.
    - assert (G : forall rt n, start_runs cfg e rest rt n = Exn k -> k = EDupRun).
      { intros rt0 n0 H0. apply (IH rt0 n0). now rewrite H0. }
      assert (G2 : forall rt n k', start_runs cfg e rest rt n = Exn k' ->
                                  match start_runs cfg e rest rt n with Ok _ => True | Exn k2 => k2 = k' end).
      { intros rt0 n0 k' H0. now rewrite H0. }
      cbn [start_runs] in H. destruct (first_match p e); [|destruct (start_runs cfg e rest rt n) eqn:Es; [destruct a as [[[? ?] ?] ?]; discriminate|injection H as <-; eauto]].
      destruct (r_halted _ && is_complete _).
      + destruct (start_runs cfg e rest rt (S n)) as [[[[? ?] ?] ?]|k'] eqn:Es; cbn in H; [discriminate|].
        injection H as <-. eauto.
      + destruct (negb (p_single p) || _).
        * destruct (rt_add ph (p_name p) _ rt) as [rt1|k'] eqn:Ea; cbn in H.
          -- destruct (start_runs cfg e rest rt1 (S n)) as [[[[? ?] ?] ?]|k''] eqn:Es; cbn in H; [discriminate|].
             injection H as <-. eauto.
          -- injection H as <-. unfold rt_add in Ea. destruct (run_at _ _ _ _); congruence.
        * destruct (start_runs cfg e rest rt (S n)) as [[[[? ?] ?] ?]|k'] eqn:Es; [discriminate|].
          injection H as <-. eauto.
  Qed.

  (* ---------- C13: a new singleton run starts in the step in which the old one finishes ---------- *)
  Lemma start_runs_single cfg (e : E) ph (p : pattern) pps :
    (forall q, In (ph, q) pps -> p_name q = p_name p -> q = p) ->
    p_single p = true -> (1 < length (p_blocks p))%nat -> first_match p e = true ->
    forall rt n rt' n' c u,
    start_runs cfg e pps rt n = Ok (rt', n', c, u) ->
    (bucket ph (p_name p) rt <> [] -> bucket ph (p_name p) rt' = bucket ph (p_name p) rt) /\
    (bucket ph (p_name p) rt = [] -> In (ph, p) pps ->
       exists id, bucket ph (p_name p) rt' = [new_run id ph p e]).
  Proof.
    intros Huniq Hs Hlen Hfm. induction pps as [|[ph0 q] rest IH]; intros rt n rt' n' c u H.
    - simpl in H. injection H as <- _ _ _. split; [auto|intros _ []].
    - assert (Huniq' : forall q, In (ph, q) rest -> p_name q = p_name p -> q = p)
        by (intros; apply Huniq; [now right|auto]).
      specialize (IH Huniq').
      cbn [start_runs] in H.
      destruct (Z.eqb_spec ph0 ph) as [->|Hph]; [destruct (Z.eqb_spec (p_name q) (p_name p)) as [Hn|Hn]|].
      + (* the entry for this very pattern *)
        assert (q = p) as -> by (apply Huniq; [now left|exact Hn]).
        rewrite Hfm in H.
        assert (Hnc : r_halted (new_run (c_genid cfg n) ph p e) && is_complete (new_run (c_genid cfg n) ph p e) = false).
        { unfold new_run, is_complete, nblocks. simpl. apply andb_false_iff. left. apply Nat.leb_gt. exact Hlen. }
        rewrite Hnc, Hs in H. simpl negb in H. simpl orb in H.
        destruct (bucket ph (p_name p) rt) as [|r0 rs] eqn:Eb.
        * simpl in H.
          destruct (rt_add ph (p_name p) (new_run (c_genid cfg n) ph p e) rt) as [rt1|] eqn:Ea; cbn in H; [|discriminate].
          destruct (start_runs cfg e rest rt1 (S n)) as [[[[rt2 n2] c2] u2]|] eqn:Es; cbn in H; [|discriminate].
          injection H as <- _ _ _. split; [congruence|]. intros _ _.
          destruct (IH _ _ _ _ _ _ Es) as [IH1 _].
          assert (Hb1 : bucket ph (p_name p) rt1 = [new_run (c_genid cfg n) ph p e]).
          { rewrite (bucket_add E _ _ _ _ _ ph (p_name p) Ea). unfold same. now rewrite !Z.eqb_refl, Eb. }
          exists (c_genid cfg n). rewrite IH1; [exact Hb1|]. rewrite Hb1. discriminate.
        * simpl in H. destruct (IH _ _ _ _ _ _ H) as [IH1 _]. split; [intros _; rewrite <- Eb; apply IH1; rewrite Eb; discriminate|].
          discriminate.
      + (* same phenomenon, another pattern name: bucket untouched *)
        assert (Hother : forall r rt1, rt_add ph (p_name q) r rt = Ok rt1 ->
                                       bucket ph (p_name p) rt1 = bucket ph (p_name p) rt).
        { intros r rt1 Ha. rewrite (bucket_add E _ _ _ _ _ ph (p_name p) Ha). unfold same.
          rewrite Z.eqb_refl. simpl. destruct (Z.eqb_spec (p_name p) (p_name q)); [congruence|reflexivity]. }
        destruct (first_match q e); [|destruct (IH _ _ _ _ _ _ H) as [I1 I2]; split; [exact I1|intros Hb [Hc|Hc]; [congruence|auto]]].
        destruct (r_halted _ && is_complete _).
        * destruct (start_runs cfg e rest rt (S n)) as [[[[rt1 n1] c1] u1]|] eqn:Es; cbn in H; [|discriminate].
          injection H as <- _ _ _. destruct (IH _ _ _ _ _ _ Es) as [I1 I2].
          split; [exact I1|intros Hb [Hc|Hc]; [congruence|auto]].
        * destruct (negb (p_single q) || _).
          -- destruct (rt_add ph (p_name q) _ rt) as [rt1|] eqn:Ea; cbn in H; [|discriminate].
             destruct (start_runs cfg e rest rt1 (S n)) as [[[[rt2 n2] c2] u2]|] eqn:Es; cbn in H; [|discriminate].
             injection H as <- _ _ _. destruct (IH _ _ _ _ _ _ Es) as [I1 I2].
             rewrite (Hother _ _ Ea) in I1, I2.
             split; [exact I1|intros Hb [Hc|Hc]; [congruence|auto]].
          -- destruct (IH _ _ _ _ _ _ H) as [I1 I2]. split; [exact I1|intros Hb [Hc|Hc]; [congruence|auto]].
      + (* another phenomenon *)
        assert (Hother : forall r rt1, rt_add ph0 (p_name q) r rt = Ok rt1 ->
                                       bucket ph (p_name p) rt1 = bucket ph (p_name p) rt).
        { intros r rt1 Ha. rewrite (bucket_add E _ _ _ _ _ ph (p_name p) Ha). unfold same.
          destruct (Z.eqb_spec ph ph0); [congruence|reflexivity]. }
        destruct (first_match q e); [|destruct (IH _ _ _ _ _ _ H) as [I1 I2]; split; [exact I1|intros Hb [Hc|Hc]; [congruence|auto]]].
        destruct (r_halted _ && is_complete _).
        * destruct (start_runs cfg e rest rt (S n)) as [[[[rt1 n1] c1] u1]|] eqn:Es; cbn in H; [|discriminate].
          injection H as <- _ _ _. destruct (IH _ _ _ _ _ _ Es) as [I1 I2].
          split; [exact I1|intros Hb [Hc|Hc]; [congruence|auto]].
        * destruct (negb (p_single q) || _).
          -- destruct (rt_add ph0 (p_name q) _ rt) as [rt1|] eqn:Ea; cbn in H; [|discriminate].
             destruct (start_runs cfg e rest rt1 (S n)) as [[[[rt2 n2] c2] u2]|] eqn:Es; cbn in H; [|discriminate].
             injection H as <- _ _ _. destruct (IH _ _ _ _ _ _ Es) as [I1 I2].
             rewrite (Hother _ _ Ea) in I1, I2.
             split; [exact I1|intros Hb [Hc|Hc]; [congruence|auto]].
          -- destruct (IH _ _ _ _ _ _ H) as [I1 I2]. split; [exact I1|intros Hb [Hc|Hc]; [congruence|auto]].
  Qed.

  Theorem singleton_restart cfg (s s' : dstate) (e : E) (n : note) ph (p : pattern) :
    cfg_wf E cfg -> In (ph, p) (cfg_pats cfg) ->
    p_single p = true -> (1 < length (p_blocks p))%nat -> first_match p e = true ->
    (forall r, In r (bucket ph (p_name p) (d_runs s)) -> after_event e r = None) ->
    local_step cfg s e = Ok (s', n) ->
    exists id, bucket ph (p_name p) (d_runs s') = [new_run id ph p e].
  Proof.
    intros Hcw Hin Hs Hlen Hfm Hfin H. unfold local_step in H.
    destruct (start_runs cfg e (cfg_pats cfg) (rt_filter_map (after_event e) (d_runs s)) (d_next s))
      as [[[[rt2 n2] pc] pu]|] eqn:Es; [|discriminate].
    injection H as <- _. simpl.
    assert (Huniq : forall q, In (ph, q) (cfg_pats cfg) -> p_name q = p_name p -> q = p).
    { intros q Hq Hn. pose proof (cfg_pats_get E cfg ph q Hcw Hq) as G1.
      pose proof (cfg_pats_get E cfg ph p Hcw Hin) as G2. rewrite Hn in G1. congruence. }
    destruct (start_runs_single cfg e ph p (cfg_pats cfg) Huniq Hs Hlen Hfm _ _ _ _ _ _ Es) as [_ H2].
    apply H2; [|exact Hin]. rewrite bucket_filter_map.
    induction (bucket ph (p_name p) (d_runs s)) as [|r l IHl]; [reflexivity|].
    simpl. rewrite (Hfin r (or_introl eq_refl)). simpl. apply IHl. intros r0 Hr0. apply Hfin. now right.
  Qed.


  (* ---------- C12: runs only move forward ---------- *)
  Definition run_le (r r' : run) : Prop :=
    r_id r' = r_id r /\ r_ph r' = r_ph r /\ r_pat r' = r_pat r /\
    ((r_idx r < r_idx r')%nat \/ (r_idx r = r_idx r' /\ (hsize (r_hist r) <= hsize (r_hist r'))%nat)).

  Lemma run_le_refl (r : run) : run_le r r.
  Proof. unfold run_le. repeat split; auto. Qed.

  Lemma run_le_trans (a b c : run) : run_le a b -> run_le b c -> run_le a c.
  Proof. unfold run_le. intros [A1 [A2 [A3 A4]]] [B1 [B2 [B3 B4]]]. repeat split; try congruence. lia. Qed.

  Lemma hsize_hadd g (e : E) (h : history E) : hsize (hadd g e h) = S (hsize h).
  Proof.
    induction h as [|[g' es] h IH]; simpl; [reflexivity|].
    destruct (Z.eqb g g'); simpl; [rewrite app_length; simpl; lia|rewrite IH; lia].
  Qed.

  Lemma outcome_run_le (r : run) (e : E) r' c : outcome E r e r' c -> run_le r r'.
  Proof.
    destruct 1 as [| |b Hb|b i Hn Hi]; unfold run_le; simpl; repeat split; auto.
    - right. split; [reflexivity|]. rewrite hsize_hadd. lia.
    - left. lia.
  Qed.

  Lemma after_event_run_le (e : E) (r r' : run) : after_event e r = Some r' -> run_le r r'.
  Proof.
    unfold after_event. destruct (process r e) as [[r1 c]|k] eqn:Ep.
    - pose proof (outcome_run_le r e r1 c (process_outcome E r e r1 c Ep)) as Hle.
      destruct c; [destruct (r_halted r1); [discriminate|]|]; intros [= <-]; auto. apply run_le_refl.
    - intros [= <-]. apply run_le_refl.
  Qed.

  (* what a local step announces about an existing run is the run as process left it, never behind where it stood *)
  Lemma run_event_current (e : E) (r x : run) (k : kind) :
    In (x, k) (run_event e r) -> process r e = Ok (x, true) /\ k = kind_of x /\ run_le r x.
  Proof.
    unfold run_event. destruct (process r e) as [[r1 c]|kk] eqn:Ep; [|intros []].
    destruct c; [|intros []]. intros [[= <- <-]|[]].
    split; [reflexivity|split; [reflexivity|]]. eapply outcome_run_le, process_outcome; eauto.
  Qed.

  Lemma sel_run_event_current (e : E) (k : kind) (l : list run) (x : run) :
    In x (sel k (flat_map (run_event e) l)) ->
    exists r, In r l /\ process r e = Ok (x, true) /\ k = kind_of x /\ run_le r x /\
              (s_idx (ser x) >= r_idx r)%nat /\ s_id (ser x) = r_id r.
  Proof.
    unfold sel. rewrite in_flat_map. intros [[y ky] [Hin Hsel]].
    apply in_flat_map in Hin. destruct Hin as [r [Hr Hy]].
    destruct (run_event_current e r y ky Hy) as [Hp [Hk Hle]].
    simpl in Hsel. assert (x = y /\ ky = k) as [-> <-].
    { destruct ky, k; simpl in Hsel; try contradiction; destruct Hsel as [<-|[]]; auto. }
    exists r. split; [exact Hr|]. split; [exact Hp|]. split; [exact Hk|]. split; [exact Hle|].
    destruct Hle as (Hid & _ & _ & Hpos). unfold ser; simpl. split; [|exact Hid].
    destruct Hpos as [H|[H _]]; lia.
  Qed.

  Lemma nodup_id_eq (l : list run) (a b : run) :
    NoDup (map (@r_id E) l) -> In a l -> In b l -> r_id a = r_id b -> a = b.
  Proof.
    induction l as [|x l IH]; simpl; [contradiction|]. intros Hnd Ha Hb Hid.
    inversion Hnd as [|? ? Hx Hnd']; subst.
    destruct Ha as [<-|Ha], Hb as [<-|Hb]; auto.
    - exfalso. apply Hx. rewrite Hid. now apply in_map.
    - exfalso. apply Hx. rewrite <- Hid. now apply in_map.
  Qed.

  Lemma ahead_run_le d3 (rc : rserial E) (rl : run) :
    ahead d3 rc rl = true -> run_le rl (set_block rl (s_idx rc) (s_hist rc)).
  Proof.
    unfold ahead, run_le. simpl. intro H. repeat split; auto.
    apply orb_true_iff in H. destruct H as [H|H].
    - apply Nat.ltb_lt in H. now left.
    - rewrite !andb_true_iff in H. destruct H as [[_ H1] H2]. apply Nat.eqb_eq in H1. apply Nat.ltb_lt in H2.
      right. split; [exact H1|lia].
  Qed.

  (* a remote update never removes an active run and never moves it backwards *)
  Theorem apply_updated_never_backwards cfg d3 recs : forall (rt rt' : runtab) out ph pat,
    Inv E cfg rt -> apply_updated cfg d3 recs rt = (rt', out) ->
    forall r, In r (bucket ph pat rt) -> exists r', In r' (bucket ph pat rt') /\ run_le r r'.
  Proof.
    induction recs as [|rc rest IH]; intros rt rt' out ph pat Hinv H r Hr.
    - simpl in H. injection H as <- _. exists r. split; [exact Hr|apply run_le_refl].
    - simpl in H. destruct (get_pattern cfg (s_ph rc) (s_pat rc)) as [p|] eqn:Eg; [|eauto].
      pose proof (get_pattern_name E _ _ _ _ Eg) as Hname.
      destruct (if p_single p then hd_error (bucket (s_ph rc) (p_name p) rt)
                else run_at (s_ph rc) (s_pat rc) (s_id rc) rt) as [rl|] eqn:Erl.
      + destruct (apply_updated cfg d3 rest _) as [rt2 out2] eqn:Ea. cbn in H. injection H as <- _.
        set (rl' := if ahead d3 rc rl then set_block rl (s_idx rc) (s_hist rc) else rl) in *.
        assert (Hin : In rl (bucket (s_ph rc) (p_name p) rt)).
        { destruct (p_single p); [now apply hd_error_in|].
          unfold run_at in Erl. apply find_some in Erl. rewrite Hname. tauto. }
        assert (Hle : run_le rl rl').
        { unfold rl'. destruct (ahead d3 rc rl) eqn:Ah; [now apply (ahead_run_le d3)|apply run_le_refl]. }
        pose proof Hinv as [Hwf [Hk [Hn Hs]]]. destruct (Hk _ _ _ Hin) as [Hph Hpat].
        assert (Hinv' : Inv E cfg (rt_replace (s_ph rc) (p_name p) rl' rt)).
        { apply Inv_replace; [| |exact Hinv]; unfold rl'; destruct (ahead d3 rc rl); simpl; auto. }
        assert (Hstep : exists r1, In r1 (bucket ph pat (rt_replace (s_ph rc) (p_name p) rl' rt)) /\ run_le r r1).
        { rewrite bucket_replace. destruct (same (s_ph rc) (p_name p) ph pat) eqn:Esame.
          - exists (if Z.eqb (r_id r) (r_id rl') then rl' else r).
            split; [apply in_map_iff; exists r; auto|].
            destruct (Z.eqb_spec (r_id r) (r_id rl')) as [Hid|]; [|apply run_le_refl].
            unfold same in Esame. apply andb_true_iff in Esame. destruct Esame as [E1 E2].
            apply Z.eqb_eq in E1, E2. subst ph pat.
            assert (r = rl) as ->; [|exact Hle].
            apply (nodup_id_eq _ _ _ (Hn _ _) Hr Hin). destruct Hle as [Hi _]. congruence.
          - exists r. split; [exact Hr|apply run_le_refl]. }
        destruct Hstep as [r1 [Hr1 Hle1]].
        destruct (IH _ _ _ ph pat Hinv' Ea r1 Hr1) as [r2 [Hr2 Hle2]].
        exists r2. split; [exact Hr2|eapply run_le_trans; eauto].
      + destruct (apply_updated cfg d3 rest _) as [rt2 out2] eqn:Ea. cbn in H. injection H as <- _.
        destruct (rt_add (s_ph rc) (s_pat rc) (remote_run (s_id rc) (s_ph rc) p (s_idx rc) (s_hist rc)) rt)
          as [rt1|] eqn:Eadd; [|eauto].
        assert (Hinv' : Inv E cfg rt1).
        { eapply Inv_add; eauto. intros q Hq Hsq. rewrite Eg in Hq. injection Hq as <-. rewrite Hsq in Erl.
          rewrite <- Hname. destruct (bucket (s_ph rc) (p_name p) rt); [reflexivity|discriminate]. }
        apply (IH _ _ _ ph pat Hinv' Ea). rewrite (bucket_add E _ _ _ _ _ ph pat Eadd).
        destruct (same (s_ph rc) (s_pat rc) ph pat) eqn:Esame; [|exact Hr].
        unfold same in Esame. apply andb_true_iff in Esame. destruct Esame as [E1 E2].
        apply Z.eqb_eq in E1, E2. subst. apply in_or_app. now left.
  Qed.

  (* a remote record that is not ahead of the local copy changes nothing *)
  Theorem remote_behind_ignored cfg d3 (rc : rserial E) (rt : runtab) (p : pattern) (rl : run) ph pat :
    Inv E cfg rt -> get_pattern cfg (s_ph rc) (s_pat rc) = Some p -> p_single p = false ->
    run_at (s_ph rc) (s_pat rc) (s_id rc) rt = Some rl -> ahead d3 rc rl = false ->
    bucket ph pat (fst (apply_updated cfg d3 [rc] rt)) = bucket ph pat rt.
  Proof.
    intros [Hwf [Hk [Hn Hs]]] Hg Hns Hrl Hah. simpl. rewrite Hg, Hns, Hrl, Hah. simpl.
    rewrite bucket_replace. destruct (same (s_ph rc) (p_name p) ph pat) eqn:Esame; [|reflexivity].
    unfold same in Esame. apply andb_true_iff in Esame. destruct Esame as [E1 E2].
    apply Z.eqb_eq in E1, E2. subst ph pat.
    pose proof (get_pattern_name E _ _ _ _ Hg) as Hname.
    assert (Hin : In rl (bucket (s_ph rc) (p_name p) rt)).
    { unfold run_at in Hrl. apply find_some in Hrl. rewrite Hname. tauto. }
    rewrite <- (map_id (bucket (s_ph rc) (p_name p) rt)) at 2. apply map_ext_in. intros x Hx.
    destruct (Z.eqb_spec (r_id x) (r_id rl)) as [Hid|]; [|reflexivity].
    symmetry. apply (nodup_id_eq _ _ _ (Hn _ _) Hx Hin Hid).
  Qed.
End StepProofs.
