(* C15: what an incoming message does to the sender-side bookkeeping of its peer. *)
From Bobo Require Import Base.Prelude Model.Outgoing.

Definition timers (p : peer) : Z * Z * bool * note := (lc p, la p, fr p, stash p).

Lemma map_set_nth_same {A B} (f : A -> B) (l : list A) : forall i x y,
  nth_error l i = Some y -> f x = f y -> map f (set_nth i x l) = map f l.
Proof.
  induction l as [|a l IH]; intros i x y Hn Hf; destruct i; simpl in *; try discriminate; auto.
  - injection Hn as ->. now rewrite Hf.
  - f_equal. eapply IH; eauto.
Qed.

(* without RESET: contact times, reset flag and backlog of EVERY peer stay as they are, whatever the source address *)
Lemma in_handle_no_reset_keeps_timers from flags caddr s :
  (Z.land flags 1 =? 1) = false ->
  map timers (o_peers (fst (in_handle from flags caddr s))) = map timers (o_peers s)
  /\ o_queue (fst (in_handle from flags caddr s)) = o_queue s
  /\ snd (in_handle from flags caddr s) = [].
Proof.
  intro Hf. unfold in_handle. destruct (nth_error (o_peers s) from) as [p|] eqn:En; [|auto].
  rewrite Hf. simpl. split; [|split; reflexivity].
  eapply map_set_nth_same; [exact En|]. destruct (caddr =? addr p); reflexivity.
Qed.

(* with RESET: only the peer that sent it loses its contact times (so that it is resynchronised at once) *)
Lemma in_handle_reset_clears_only_sender from flags caddr s p :
  (Z.land flags 1 =? 1) = true -> nth_error (o_peers s) from = Some p ->
  forall j q, j <> from -> nth_error (o_peers s) j = Some q ->
              nth_error (o_peers (fst (in_handle from flags caddr s))) j = Some q.
Proof.
  intros Hf En j q Hj Hq. unfold in_handle. rewrite En, Hf. simpl.
  revert j from Hj Hq En. generalize (o_peers s) as l.
  induction l as [|a l IH]; intros j i Hj Hq En; destruct i, j; simpl in *; try discriminate; auto; try congruence.
Qed.
