(* Concrete witnesses (D1, D2, D3) against the pinned-commit variants of the remote path. *)
From Bobo Require Import Base.Prelude Base.History Model.Pattern Model.Run Model.Decider Model.PredLang.
From Bobo Require Import Proofs.RemoteProofs.

Definition wcfg : config ev :=
  mk_cfg (CD [(1, [PD 1 [BD [PDataEq 1] 1 false false false false; BD [PDataEq 2] 2 true false false false;
                         BD [PDataEq 3] 3 false false false false] [] [] false])] 5 100).
Definition e0 := mkEv 0 0 0 1 0 0.
Definition e1 := mkEv 1 1 0 9 0 0.

(* run 100 starts on e0 and halts on e1 (strict block, no match): the instance remembers it as halted *)
Definition s_halted : dstate ev :=
  match local_step wcfg d_init e0 with
  | Ok (s1, _) => match local_step wcfg s1 e1 with Ok (s2, _) => s2 | Exn _ => d_init end
  | Exn _ => d_init
  end.
Definition stale : rserial ev := mkSer 100 1 1 1 [(1, [e0])].

Definition active_ids (s : dstate ev) : list Z := map (@r_id ev) (rt_all (d_runs s)).

(* D1: a stale 'updated' record for a run this instance has seen halt makes it active again *)
Lemma d1_witness :
  remembered ev s_halted 100 = true /\ active_ids s_halted = [] /\
  active_ids (fst (remote_apply_gen true true wcfg s_halted (mkNote [] [] [stale]))) = [] /\
  active_ids (fst (remote_apply_gen false false wcfg s_halted (mkNote [] [] [stale]))) = [100].
Proof. vm_compute. repeat split; reflexivity. Qed.

(* D2: one message naming the run in 'completed' and in 'updated' (a merged backlog) removes and re-creates it *)
Definition s_active : dstate ev :=
  match local_step wcfg d_init e0 with Ok (s1, _) => s1 | Exn _ => d_init end.
Definition done : rserial ev := mkSer 100 1 1 3 [(1, [e0]); (2, [e1]); (3, [e1])].
Definition merged : note ev := mkNote [done] [] [mkSer 100 1 1 2 [(1, [e0]); (2, [e1])]].

Lemma d2_witness :
  active_ids s_active = [100] /\
  active_ids (fst (remote_apply_gen true true wcfg s_active merged)) = [] /\
  active_ids (fst (remote_apply_gen false false wcfg s_active merged)) = [100].
Proof. vm_compute. repeat split; reflexivity. Qed.

(* D3: progress inside a looping block (same index, longer history) is not applied at the pinned commit *)
Definition lcfg : config ev :=
  mk_cfg (CD [(1, [PD 1 [BD [PDataEq 1] 1 false false false false; BD [PDataEq 2] 2 false true false false;
                         BD [PDataEq 3] 3 false false false false] [] [] false])] 5 100).
Definition s_loop : dstate ev :=
  match local_step lcfg d_init e0 with Ok (s1, _) => s1 | Exn _ => d_init end.
Definition looped : rserial ev := mkSer 100 1 1 1 [(1, [e0]); (2, [mkEv 1 1 0 2 0 0])].
Definition hist_sizes (s : dstate ev) : list nat := map (fun r => hsize (r_hist r)) (rt_all (d_runs s)).

Lemma d3_witness :
  hist_sizes s_loop = [1%nat] /\
  hist_sizes (fst (remote_apply_gen true true lcfg s_loop (mkNote [] [] [looped]))) = [2%nat] /\
  hist_sizes (fst (remote_apply_gen true false lcfg s_loop (mkNote [] [] [looped]))) = [1%nat].
Proof. vm_compute. repeat split; reflexivity. Qed.
