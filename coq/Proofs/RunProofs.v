(* Run-level facts about Model/Run.v: used by C01, C12, C14, C19. *)
From Bobo Require Import Base.Prelude Base.History Model.Pattern Model.Run.

Section RunProofs.
  Variable E : Type.
  Notation run := (run E).
  Notation block := (block E).
  Notation pattern := (pattern E).

  (* ---------- shape of every result of walk ---------- *)
  (* what a run can become through one event *)
  Inductive outcome (r : run) (e : E) : run -> bool -> Prop :=
  | O_same : outcome r e r false
  | O_halt : outcome r e (halt r) true
  | O_loop b : In b (p_blocks (r_pat r)) -> outcome r e (add_event r e b) true
  | O_move b i : nth_error (p_blocks (r_pat r)) i = Some b -> (r_idx r <= i)%nat ->
                 outcome r e (move_forward r e b i) true.

  Lemma walk_outcome (r : run) (e : E) bs i r' c :
    skipn i (p_blocks (r_pat r)) = bs -> (r_idx r <= i)%nat ->
    walk bs i r e = Ok (r', c) -> outcome r e r' c.
  Proof.
    revert i. induction bs as [|b rest IH]; intros i Hs Hi H; simpl in H; [discriminate|].
    assert (Hnth : nth_error (p_blocks (r_pat r)) i = Some b).
    { rewrite <- (firstn_skipn i (p_blocks (r_pat r))), Hs.
      assert (Hl : (i <= length (p_blocks (r_pat r)))%nat).
      { destruct (Nat.le_gt_cases i (length (p_blocks (r_pat r)))) as [L|L]; [exact L|].
        rewrite skipn_all2 in Hs by lia. discriminate. }
      rewrite nth_error_app2; rewrite firstn_length_le by exact Hl; [|lia].
      now rewrite Nat.sub_diag. }
    assert (Hin : In b (p_blocks (r_pat r))) by (eapply nth_error_In; eauto).
    assert (Hrest : skipn (S i) (p_blocks (r_pat r)) = rest).
    { clear - Hs. revert Hs. generalize (p_blocks (r_pat r)) as l. revert b rest.
      induction i as [|i IHi]; intros b rest l Hs; destruct l as [|x l]; simpl in *; try discriminate.
      - now injection Hs.
      - eapply IHi; eauto. }
    destruct (any_sc (b_preds b) e (r_hist r)) eqn:Em; try discriminate;
      destruct (b_loop b); [| destruct (b_neg b); [| destruct (b_opt b)] | | destruct (b_neg b); [| destruct (b_opt b)]];
      try (destruct (b_strict b));
      try (injection H as <- <-);
      try (now constructor); try (now apply O_loop); try (now eapply O_move; eauto);
      try (eapply IH; eauto; lia).
  Qed.

  Lemma process_outcome (r : run) (e : E) r' c :
    process r e = Ok (r', c) -> outcome r e r' c.
  Proof.
    unfold process. destruct (r_halted r); [intros [= <- <-]; constructor|].
    destruct (eval_all (p_pre (r_pat r)) e (r_hist r)) as [ps|]; [|discriminate].
    destruct (negb (forallb (fun b => b) ps)); [intros [= <- <-]; constructor|].
    destruct (eval_all (p_halt (r_pat r)) e (r_hist r)) as [hs|]; [|discriminate].
    destruct (existsb (fun b => b) hs); [intros [= <- <-]; constructor|].
    intro H. eapply walk_outcome; eauto.
  Qed.

  (* ---------- C12: lifecycle facts ---------- *)
  Lemma outcome_id (r : run) (e : E) r' c : outcome r e r' c -> r_id r' = r_id r /\ r_ph r' = r_ph r /\ r_pat r' = r_pat r.
  Proof. destruct 1; simpl; auto. Qed.

  Lemma outcome_index_monotone (r : run) (e : E) r' c : outcome r e r' c -> (r_idx r <= r_idx r')%nat.
  Proof. destruct 1; simpl; lia. Qed.

  (* history: unchanged, or exactly the event appended to the group of a block of the pattern *)
  Lemma outcome_history (r : run) (e : E) r' c :
    outcome r e r' c ->
    r_hist r' = r_hist r \/ exists b, In b (p_blocks (r_pat r)) /\ r_hist r' = hadd (b_group b) e (r_hist r).
  Proof.
    destruct 1; simpl; auto; right; eexists; split; eauto. eapply nth_error_In; eauto.
  Qed.

  Lemma outcome_unchanged_iff (r : run) (e : E) r' : outcome r e r' false -> r' = r.
  Proof. inversion 1; reflexivity. Qed.

  Lemma process_halted_ignores (r : run) (e : E) : r_halted r = true -> process r e = Ok (r, false).
  Proof. intro H. unfold process. now rewrite H. Qed.

  Lemma process_false_same (r : run) (e : E) r' : process r e = Ok (r', false) -> r' = r.
  Proof. intro H. apply process_outcome in H. now apply outcome_unchanged_iff in H. Qed.

  (* ---------- C19: the walk never leaves the block list ---------- *)
  Definition ends_plain (bs : list block) : Prop :=
    match rev bs with b :: _ => b_loop b = false /\ b_opt b = false | [] => False end.

  Lemma walk_no_index_error (bs : list block) i (r : run) (e : E) :
    bs <> [] -> (forall b, last bs b = b -> True) ->
    (b_loop (last bs (mkBlock [] 0 false false false false)) = false) ->
    (b_opt (last bs (mkBlock [] 0 false false false false)) = false) ->
    walk bs i r e <> Exn EIndex.
  Proof.
    intros Hne _. revert i. induction bs as [|b rest IH]; intros i Hl Ho; [congruence|].
    simpl. destruct (any_sc (b_preds b) e (r_hist r)); try discriminate.
    - destruct (b_loop b); [discriminate|]. destruct (b_neg b); [destruct (b_strict b); discriminate|].
      destruct (b_opt b); discriminate.
    - destruct rest as [|b2 rest'].
      + simpl in Hl, Ho. rewrite Hl, Ho. destruct (b_neg b); [discriminate|]. destruct (b_strict b); discriminate.
      + assert (IH' : forall i, walk (b2 :: rest') i r e <> Exn EIndex).
        { intro j. apply IH; [discriminate| exact Hl | exact Ho]. }
        destruct (b_loop b); [destruct (b_strict b); [discriminate|apply IH']|].
        destruct (b_neg b); [discriminate|].
        destruct (b_opt b); [apply IH'|]. destruct (b_strict b); discriminate.
  Qed.

  Lemma last_skipn {A} (l : list A) n d : (n < length l)%nat -> last (skipn n l) d = last l d.
  Proof.
    revert n; induction l as [|x l IH]; intros n H; simpl in H; [lia|].
    destruct n as [|n]; [reflexivity|]. simpl skipn.
    destruct l as [|y l']; [simpl in H; lia|].
    rewrite IH by (simpl in *; lia). reflexivity.
  Qed.

  Lemma last_indep {A} (l : list A) d d' : l <> [] -> last l d = last l d'.
  Proof.
    induction l as [|x l IH]; intro H; [congruence|]. simpl. destruct l as [|y l']; [reflexivity|].
    apply IH. discriminate.
  Qed.

  Lemma wf_last_plain (p : pattern) d :
    wf_pattern p = true -> b_loop (last (p_blocks p) d) = false /\ b_opt (last (p_blocks p) d) = false.
  Proof.
    unfold wf_pattern. destruct (p_blocks p) as [|b0 bs] eqn:Eb; [discriminate|].
    rewrite !andb_true_iff. intros [[_ _] Hl].
    rewrite (last_indep (b0 :: bs) d b0) by discriminate.
    unfold plain_end in Hl. rewrite !andb_true_iff, !negb_true_iff in Hl. tauto.
  Qed.

  Theorem process_no_index_error (r : run) (e : E) :
    wf_pattern (r_pat r) = true -> (r_idx r < length (p_blocks (r_pat r)))%nat ->
    process r e <> Exn EIndex.
  Proof.
    intros Hwf Hidx. unfold process. destruct (r_halted r); [discriminate|].
    destruct (eval_all _ e (r_hist r)); [|discriminate].
    destruct (negb _); [discriminate|].
    destruct (eval_all _ e (r_hist r)); [|discriminate].
    destruct (existsb _ _); [discriminate|].
    set (d := mkBlock (@nil (pred E)) 0 false false false false).
    destruct (wf_last_plain (r_pat r) d Hwf) as [Hl Ho].
    apply walk_no_index_error.
    - intro H. apply (f_equal (@length _)) in H. rewrite skipn_length in H. simpl in H. lia.
    - trivial.
    - fold d. rewrite last_skipn by exact Hidx. exact Hl.
    - fold d. rewrite last_skipn by exact Hidx. exact Ho.
  Qed.

  (* the index stays inside [0, length] and a run that is not finished stays below length *)
  Lemma outcome_index_bound (r : run) (e : E) r' c :
    outcome r e r' c -> (r_idx r <= length (p_blocks (r_pat r)))%nat ->
    (r_idx r' <= length (p_blocks (r_pat r')))%nat.
  Proof.
    destruct 1 as [| |b Hb|b i Hn Hi]; simpl; auto. intros _.
    apply nth_error_Some. congruence.
  Qed.

  Lemma outcome_active_below (r : run) (e : E) r' c :
    outcome r e r' c -> (r_idx r < length (p_blocks (r_pat r)))%nat -> r_halted r = false ->
    r_halted r' = false -> (r_idx r' < length (p_blocks (r_pat r')))%nat.
  Proof.
    destruct 1 as [| |b Hb|b i Hn Hi]; simpl; intros Hlt Hh Hh'; try assumption; try discriminate.
    unfold nblocks in Hh'. apply Nat.leb_gt in Hh'. exact Hh'.
  Qed.

  (* ---------- C14: a raising predicate ---------- *)
  Definition deraise (q : pred E) : pred E :=
    fun e h => match q e h with PRaise => PFalse | x => x end.

  Lemma any_sc_deraise (ps : list (pred E)) (e : E) h :
    any_sc ps e h <> PRaise -> any_sc (map deraise ps) e h = any_sc ps e h.
  Proof.
    induction ps as [|p ps IH]; simpl; auto. unfold deraise at 1.
    destruct (p e h); auto; congruence.
  Qed.

  Lemma eval_all_deraise (ps : list (pred E)) (e : E) h bs :
    eval_all ps e h = Some bs -> eval_all (map deraise ps) e h = Some bs.
  Proof.
    revert bs; induction ps as [|p ps IH]; simpl; intros bs H; auto. unfold deraise at 1.
    destruct (p e h); try discriminate;
      destruct (eval_all ps e h) as [bs'|]; try discriminate; now rewrite (IH bs' eq_refl).
  Qed.

  Definition deraise_block (b : block) : block :=
    mkBlock (map deraise (b_preds b)) (b_group b) (b_strict b) (b_loop b) (b_neg b) (b_opt b).
  Definition deraise_pattern (p : pattern) : pattern :=
    mkPattern (p_name p) (map deraise_block (p_blocks p)) (map deraise (p_pre p)) (map deraise (p_halt p)) (p_single p).
  Definition deraise_run (r : run) : run :=
    mkRun (r_id r) (r_ph r) (deraise_pattern (r_pat r)) (r_idx r) (r_hist r) (r_halted r).

  Definition lift_res (x : res (run * bool)) : res (run * bool) :=
    match x with Ok (r, c) => Ok (deraise_run r, c) | Exn k => Exn k end.

  Lemma walk_deraise (bs : list block) i (r : run) (e : E) :
    (forall k, walk bs i r e <> Exn k) ->
    walk (map deraise_block bs) i (deraise_run r) e = lift_res (walk bs i r e).
  Proof.
    revert i; induction bs as [|b rest IH]; intros i Hne; simpl in *; [exfalso; eapply Hne; eauto|].
    assert (Hm : any_sc (b_preds b) e (r_hist r) <> PRaise).
    { intro Hc. rewrite Hc in Hne. eapply Hne; eauto. }
    rewrite (any_sc_deraise _ _ _ Hm).
    destruct (any_sc (b_preds b) e (r_hist r)); try congruence;
      destruct (b_loop b), (b_neg b), (b_opt b), (b_strict b); simpl; try reflexivity;
      try (unfold move_forward, nblocks; simpl; rewrite map_length; reflexivity);
      apply IH; exact Hne.
  Qed.

  (* a run on which no predicate raises behaves exactly as with predicates that return False instead *)
  Theorem process_deraise (r : run) (e : E) :
    (forall k, process r e <> Exn k) ->
    process (deraise_run r) e = lift_res (process r e).
  Proof.
    unfold process. simpl. destruct (r_halted r); [reflexivity|].
    destruct (eval_all (p_pre (r_pat r)) e (r_hist r)) as [ps|] eqn:E1; [|intro H; exfalso; eapply H; eauto].
    rewrite (eval_all_deraise _ _ _ _ E1).
    destruct (negb (forallb (fun b => b) ps)); [reflexivity|].
    destruct (eval_all (p_halt (r_pat r)) e (r_hist r)) as [hs|] eqn:E2; [|intro H; exfalso; eapply H; eauto].
    rewrite (eval_all_deraise _ _ _ _ E2).
    destruct (existsb (fun b => b) hs); [reflexivity|].
    intro H. rewrite skipn_map. apply walk_deraise. exact H.
  Qed.
End RunProofs.
