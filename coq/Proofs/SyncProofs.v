(* C03: one synchronous replication step keeps replicas equal, bucket by bucket - singleton patterns included
   (a singleton pattern needs two blocks: a one-block pattern never has an active run). *)
From Bobo Require Import Base.Prelude Base.History Model.Pattern Model.Run Model.Decider Model.Cluster Model.Converge Model.ConvergeC.
From Bobo Require Import Proofs.RunProofs Proofs.DeciderLemmas Proofs.DeciderProofs Proofs.StepProofs.
From Bobo Require Import Proofs.RemoteProofs Proofs.ConvergeProofs Proofs.JoinProofs Proofs.LocalProofs Proofs.ClusterProofs.

Section Sync.
  Variable E : Type.
  Notation run := (run E).
  Notation runtab := (runtab E).
  Notation rserial := (rserial E).
  Notation note := (note E).
  Notation dstate := (dstate E).
  Notation config := (config E).

  (* replicas hold the same runs, pattern by pattern, in the same order *)
  Definition beq (a b : runtab) : Prop := forall ph pat, bucket ph pat a = bucket ph pat b.

  Lemma beq_refl a : beq a a. Proof. intros ph pat. reflexivity. Qed.
  Lemma beq_sym a b : beq a b -> beq b a. Proof. intros H ph pat. now rewrite H. Qed.
  Lemma beq_trans a b c : beq a b -> beq b c -> beq a c. Proof. intros H1 H2 ph pat. now rewrite H1, H2. Qed.

  Lemma beq_run_at a b ph pat id : beq a b -> run_at ph pat id a = run_at ph pat id b.
  Proof. intro H. unfold run_at. now rewrite H. Qed.

  Definition rmatch (ph pat id : Z) (rc : rserial) : bool :=
    Z.eqb (s_ph rc) ph && Z.eqb (s_pat rc) pat && Z.eqb (s_id rc) id.

  Lemma find_none_all {A} (f : A -> bool) (l : list A) : (forall x, In x l -> f x = false) -> find f l = None.
  Proof.
    induction l as [|a l IH]; intro H; simpl; [reflexivity|]. rewrite (H a (or_introl eq_refl)). apply IH.
    intros x Hx. apply H. now right.
  Qed.

  (* ---------- removes ---------- *)
  Lemma bucket_removes recs : forall (rt : runtab) ph pat,
    bucket ph pat (removes E recs rt) =
    filter (fun r => negb (existsb (rmatch ph pat (r_id r)) recs)) (bucket ph pat rt).
  Proof.
    unfold removes. induction recs as [|rc rest IH]; intros rt ph pat; simpl.
    - induction (bucket ph pat rt) as [|x l IHl]; simpl; [reflexivity|]. now rewrite <- IHl.
    - rewrite IH, bucket_remove. unfold same, rmatch.
      rewrite (Z.eqb_sym ph), (Z.eqb_sym pat).
      destruct (Z.eqb (s_ph rc) ph && Z.eqb (s_pat rc) pat) eqn:Ek; simpl.
      + induction (bucket ph pat rt) as [|x l IHl]; simpl; [reflexivity|].
        rewrite (Z.eqb_sym (s_id rc)).
        destruct (Z.eqb (r_id x) (s_id rc)); simpl; [exact IHl|].
        destruct (existsb _ rest); simpl; [exact IHl|now rewrite IHl].
      + apply filter_ext. intro x. reflexivity.
  Qed.

  (* ---------- completed / halted records, any pattern ---------- *)
  Definition known (cfg : config) (rc : rserial) : Prop :=
    exists p, get_pattern cfg (s_ph rc) (s_pat rc) = Some p.

  (* the singleton bucket a record addresses holds no run under another identifier *)
  Definition sagree (cfg : config) (rt : runtab) (rc : rserial) : Prop :=
    forall p, get_pattern cfg (s_ph rc) (s_pat rc) = Some p -> p_single p = true ->
              forall r, In r (bucket (s_ph rc) (p_name p) rt) -> r_id r = s_id rc.

  Lemma sagree_remove cfg ph pat id (rt : runtab) rc : sagree cfg rt rc -> sagree cfg (rt_remove ph pat id rt) rc.
  Proof.
    intros H p Hg Hs r Hin. apply (H p Hg Hs). rewrite bucket_remove in Hin.
    destruct (same ph pat (s_ph rc) (p_name p)); [|exact Hin]. apply filter_In in Hin. tauto.
  Qed.

  Lemma apply_finished_sync cfg w recs : forall (rt : runtab) cc ch,
    Inv E cfg rt -> Forall (known cfg) recs -> (forall rc, In rc recs -> sagree cfg rt rc) ->
    exists cc' ch' out, apply_finished cfg w recs rt cc ch = (removes E recs rt, cc', ch', out).
  Proof.
    induction recs as [|rc rest IH]; intros rt cc ch Hinv Hk Hag; [simpl; eauto|].
    inversion Hk as [|? ? [p Hg] Hk']; subst.
    pose proof (get_pattern_name E _ _ _ _ Hg) as Hname.
    assert (Hnext : forall cc0 ch0, exists cc' ch' out,
              apply_finished cfg w rest (rt_remove (s_ph rc) (s_pat rc) (s_id rc) rt) cc0 ch0 =
              (removes E (rc :: rest) rt, cc', ch', out)).
    { intros cc0 ch0. apply IH; [now apply Inv_remove|exact Hk'|].
      intros rc0 H0. apply sagree_remove. apply Hag. now right. }
    cbn [apply_finished]. rewrite Hg.
    destruct (p_single p) eqn:Es.
    - destruct (bucket (s_ph rc) (p_name p) rt) as [|rl l] eqn:Eb.
      + destruct (Hnext cc ch) as [cc' [ch' [out Heq]]]. rewrite Heq. eauto.
      + assert (Hin : In rl (bucket (s_ph rc) (p_name p) rt)) by (rewrite Eb; now left).
        pose proof (Hag rc (or_introl eq_refl) p Hg Es rl Hin) as Hid.
        destruct Hinv as [_ [Hkeys _]]. destruct (Hkeys _ _ _ Hin) as [Hph Hpat].
        rewrite Hph, Hpat, Hid, Hname, Z.eqb_refl.
        destruct (Hnext cc ch) as [cc' [ch' [out Heq]]]. rewrite Heq. eauto.
    - destruct (Hnext cc ch) as [cc' [ch' [out Heq]]]. rewrite Heq. eauto.
  Qed.

  Lemma single_hd_run_at cfg (rt : runtab) ph pat p id :
    Inv E cfg rt -> get_pattern cfg ph pat = Some p -> p_single p = true ->
    run_at ph pat id rt <> None -> hd_error (bucket ph pat rt) = run_at ph pat id rt.
  Proof.
    intros [_ [_ [_ Hs]]] Hg Hsg Hex. specialize (Hs ph pat p Hg Hsg). unfold run_at in *.
    destruct (bucket ph pat rt) as [|r [|r2 l]]; simpl in *; [congruence| |lia].
    destruct (Z.eqb (r_id r) id); [reflexivity|congruence].
  Qed.

  (* ---------- updated records that all target existing runs, ids pairwise distinct ---------- *)
  Definition upd_by (recs : list rserial) (ph pat : Z) (r : run) : run :=
    match find (rmatch ph pat (r_id r)) recs with
    | Some rc => if ahead true rc r then set_block r (s_idx rc) (s_hist rc) else r
    | None => r
    end.

  Lemma upd_by_id recs ph pat r : r_id (upd_by recs ph pat r) = r_id r.
  Proof. unfold upd_by. destruct (find _ recs); [destruct (ahead true r0 r)|]; reflexivity. Qed.

  Lemma apply_updated_existing cfg recs : forall (rt : runtab),
    Inv E cfg rt ->
    Forall (known cfg) recs -> NoDup (ids_of recs) ->
    (forall rc, In rc recs -> run_at (s_ph rc) (s_pat rc) (s_id rc) rt <> None) ->
    (forall ph pat, bucket ph pat (fst (apply_updated cfg true recs rt)) = map (upd_by recs ph pat) (bucket ph pat rt))
    /\ Inv E cfg (fst (apply_updated cfg true recs rt)).
  Proof.
    induction recs as [|rc rest IH]; intros rt Hinv Hk Hnd Hex.
    - split; [|exact Hinv]. intros ph pat. simpl. unfold upd_by. simpl. now rewrite map_id.
    - inversion Hk as [|? ? [p Hg] Hk']; subst. inversion Hnd as [|? ? Hnotin Hnd']; subst.
      pose proof (get_pattern_name E _ _ _ _ Hg) as Hname.
      assert (Hlook : (if p_single p then hd_error (bucket (s_ph rc) (p_name p) rt)
                       else run_at (s_ph rc) (s_pat rc) (s_id rc) rt) = run_at (s_ph rc) (s_pat rc) (s_id rc) rt).
      { destruct (p_single p) eqn:Es; [|reflexivity]. rewrite Hname.
        apply (single_hd_run_at cfg rt _ _ p); auto. apply Hex. now left. }
      destruct (run_at (s_ph rc) (s_pat rc) (s_id rc) rt) as [rl|] eqn:Erl; [|exfalso; eapply Hex; [now left|exact Erl]].
      set (rl' := if ahead true rc rl then set_block rl (s_idx rc) (s_hist rc) else rl).
      assert (Hstep : fst (apply_updated cfg true (rc :: rest) rt) =
                      fst (apply_updated cfg true rest (rt_replace (s_ph rc) (p_name p) rl' rt))).
      { cbn [apply_updated]. rewrite Hg, Erl, Hlook. fold rl'. destruct (apply_updated cfg true rest _). reflexivity. }
      assert (Hidl : r_id rl = s_id rc) by (unfold run_at in Erl; now apply (find_id E) in Erl).
      assert (Hid' : r_id rl' = r_id rl) by (unfold rl'; destruct (ahead true rc rl); reflexivity).
      assert (Hin : In rl (bucket (s_ph rc) (p_name p) rt)).
      { unfold run_at in Erl. apply find_some in Erl. rewrite Hname. tauto. }
      pose proof Hinv as [_ [Hkeys [Hnodup _]]]. destruct (Hkeys _ _ _ Hin) as [Hph Hpat].
      assert (Hinv1 : Inv E cfg (rt_replace (s_ph rc) (p_name p) rl' rt)).
      { apply Inv_replace; [| |exact Hinv]; unfold rl'; destruct (ahead true rc rl); simpl; auto. }
      assert (Hex1 : forall rc0, In rc0 rest ->
                run_at (s_ph rc0) (s_pat rc0) (s_id rc0) (rt_replace (s_ph rc) (p_name p) rl' rt) <> None).
      { intros rc0 Hin0. specialize (Hex rc0 (or_intror Hin0)).
        unfold run_at in *. rewrite bucket_replace. destruct (same (s_ph rc) (p_name p) (s_ph rc0) (s_pat rc0)); [|exact Hex].
        rewrite find_map_same. destruct (find _ (bucket (s_ph rc0) (s_pat rc0) rt)); [discriminate|exact Hex]. }
      destruct (IH _ Hinv1 Hk' Hnd' Hex1) as [IHb IHi]. rewrite Hstep. split; [|exact IHi].
      intros ph pat. rewrite IHb, bucket_replace.
      destruct (same (s_ph rc) (p_name p) ph pat) eqn:Esame.
      + unfold same in Esame. apply andb_true_iff in Esame. destruct Esame as [E1 E2].
        apply Z.eqb_eq in E1, E2. subst ph pat. rewrite map_map. apply map_ext_in. intros r Hr.
        destruct (Z.eqb_spec (r_id r) (r_id rl')) as [He|Hne].
        * (* r is the run this record targets *)
          assert (r = rl) as -> by (apply (nodup_id_eq E _ _ _ (Hnodup _ _) Hr Hin); congruence).
          unfold upd_by at 2. simpl. unfold rmatch at 1. rewrite Hname, !Z.eqb_refl, Hidl, Z.eqb_refl. simpl.
          fold rl'. unfold upd_by.
          assert (Hnone : find (rmatch (s_ph rc) (s_pat rc) (r_id rl')) rest = None).
          { apply find_none_all. intros x Hx. unfold rmatch. rewrite Hid', Hidl.
            destruct (Z.eqb_spec (s_id x) (s_id rc)) as [Hxx|]; [|now rewrite andb_false_r].
            exfalso. apply Hnotin. unfold ids_of. rewrite <- Hxx. now apply in_map. }
          now rewrite Hnone.
        * unfold upd_by. simpl. unfold rmatch at 2. rewrite Hname.
          destruct (Z.eqb_spec (s_id rc) (r_id r)) as [Hc|_]; [exfalso; apply Hne; congruence|].
          rewrite andb_false_r. reflexivity.
      + apply map_ext_in. intros r Hr. unfold upd_by. simpl. unfold rmatch at 2.
        unfold same in Esame. rewrite Hname in Esame.
        rewrite (Z.eqb_sym (s_ph rc)), (Z.eqb_sym (s_pat rc)), Esame. reflexivity.
  Qed.

  (* ---------- apply_updated over an appended list ---------- *)
  Lemma apply_updated_app cfg d3 l1 : forall l2 (rt : runtab),
    fst (apply_updated cfg d3 (l1 ++ l2) rt) = fst (apply_updated cfg d3 l2 (fst (apply_updated cfg d3 l1 rt))).
  Proof.
    induction l1 as [|rc rest IH]; intros l2 rt; [reflexivity|]. simpl.
    destruct (get_pattern cfg (s_ph rc) (s_pat rc)) as [p|]; [|apply IH].
    destruct (if p_single p then hd_error (bucket (s_ph rc) (p_name p) rt) else run_at (s_ph rc) (s_pat rc) (s_id rc) rt) as [rl|].
    - specialize (IH l2 (rt_replace (s_ph rc) (p_name p) (if ahead d3 rc rl then set_block rl (s_idx rc) (s_hist rc) else rl) rt)).
      destruct (apply_updated cfg d3 (rest ++ l2) _) as [a b]; destruct (apply_updated cfg d3 rest _) as [c d]. exact IH.
    - set (rt1 := match rt_add (s_ph rc) (s_pat rc) (remote_run (s_id rc) (s_ph rc) p (s_idx rc) (s_hist rc)) rt with
                  | Ok t => t | Exn _ => rt end).
      specialize (IH l2 rt1).
      destruct (apply_updated cfg d3 (rest ++ l2) rt1) as [a b]; destruct (apply_updated cfg d3 rest rt1) as [c d]. exact IH.
  Qed.

  (* ---------- runs started by the event are re-created identically, in the same order ---------- *)
  Variable cfg : config.
  Variable gen : nat -> nat -> Z.
  Hypothesis cfgwf : cfg_wf E cfg.
  (* a one-block pattern completes with its first event and never has an active run: "singleton" means something
     only from two blocks on *)
  Hypothesis single2 : forall ph pat p, get_pattern cfg ph pat = Some p -> p_single p = true ->
                                        (2 <= length (p_blocks p))%nat.

  Lemma start_runs_sync i j (e : E) pps :
    (forall ph p, In (ph, p) pps -> In (ph, p) (cfg_pats cfg)) ->
    forall (rti rtj : runtab) n rti' n' pc pu,
      start_runs (icfg cfg gen i) e pps rti n = Ok (rti', n', pc, pu) ->
      beq rtj rti -> Inv E (icfg cfg gen j) rtj ->
      beq (fst (apply_updated (icfg cfg gen j) true (map ser pu) rtj)) rti' /\
      Inv E (icfg cfg gen j) (fst (apply_updated (icfg cfg gen j) true (map ser pu) rtj)).
  Proof.
    induction pps as [|[ph p] rest IH]; intros Hsub rti rtj n rti' n' pc pu H Hb Hinv.
    - simpl in H. injection H as <- _ _ <-. simpl. split; assumption.
    - assert (Hsub' : forall ph p, In (ph, p) rest -> In (ph, p) (cfg_pats cfg)) by (intros; apply Hsub; now right).
      cbn [start_runs] in H. destruct (first_match p e); [|eapply IH; eauto].
      set (nr := new_run (c_genid (icfg cfg gen i) n) ph p e) in *.
      destruct (r_halted nr && is_complete nr).
      + destruct (start_runs (icfg cfg gen i) e rest rti (S n)) as [[[[rt1 n1] c1] u1]|] eqn:Es; cbn in H; [|discriminate].
        injection H as <- _ _ <-. eapply IH; eauto.
      + pose proof (cfg_pats_get E cfg ph p cfgwf (Hsub _ _ (or_introl eq_refl))) as Hg.
        destruct (negb (p_single p) || Nat.eqb (length (bucket ph (p_name p) rti)) 0) eqn:Egate; [|eapply IH; eauto].
        destruct (rt_add ph (p_name p) nr rti) as [rti1|] eqn:Ea; cbn in H; [|discriminate].
        destruct (start_runs (icfg cfg gen i) e rest rti1 (S n)) as [[[[rt2 n2] c2] u2]|] eqn:Es; cbn in H; [|discriminate].
        injection H as <- _ _ <-.
        assert (Hnone_i : run_at ph (p_name p) (r_id nr) rti = None).
        { unfold rt_add in Ea. destruct (run_at ph (p_name p) (r_id nr) rti); [discriminate|reflexivity]. }
        assert (Hnone_j : run_at ph (p_name p) (r_id nr) rtj = None) by (now rewrite (beq_run_at _ _ _ _ _ Hb)).
        destruct (rt_add_ok E ph (p_name p) nr rtj Hnone_j) as [rtj1 Haj].
        assert (Hgate : p_single p = true -> bucket ph (p_name p) rtj = []).
        { intro Hsg. rewrite Hsg in Egate. simpl in Egate. apply Nat.eqb_eq in Egate. rewrite Hb.
          destruct (bucket ph (p_name p) rti); [reflexivity|discriminate]. }
        assert (Hlook : (if p_single p then hd_error (bucket ph (p_name p) rtj) else run_at ph (p_name p) (r_id nr) rtj) = None).
        { destruct (p_single p) eqn:Esg; [|exact Hnone_j]. now rewrite Hgate. }
        assert (Hstep : fst (apply_updated (icfg cfg gen j) true (map ser (nr :: u2)) rtj) =
                        fst (apply_updated (icfg cfg gen j) true (map ser u2) rtj1)).
        { simpl map. cbn [apply_updated]. change (get_pattern (icfg cfg gen j) (s_ph (ser nr)) (s_pat (ser nr))) with (get_pattern cfg ph (p_name p)).
          rewrite Hg.
          change (if p_single p then hd_error (bucket (s_ph (ser nr)) (p_name p) rtj)
                  else run_at (s_ph (ser nr)) (s_pat (ser nr)) (s_id (ser nr)) rtj)
            with (if p_single p then hd_error (bucket ph (p_name p) rtj) else run_at ph (p_name p) (r_id nr) rtj).
          rewrite Hlook.
          change (remote_run (s_id (ser nr)) (s_ph (ser nr)) p (s_idx (ser nr)) (s_hist (ser nr))) with nr.
          change (rt_add (s_ph (ser nr)) (s_pat (ser nr)) nr rtj) with (rt_add ph (p_name p) nr rtj). rewrite Haj.
          destruct (apply_updated (icfg cfg gen j) true (map ser u2) rtj1). reflexivity. }
        rewrite Hstep. eapply IH; eauto.
        * intros ph' pat'. rewrite (bucket_add E _ _ _ _ _ ph' pat' Haj), (bucket_add E _ _ _ _ _ ph' pat' Ea).
          destruct (same ph (p_name p) ph' pat'); [now rewrite Hb|apply Hb].
        * eapply Inv_add; eauto. intros q Hq Hsq. change (get_pattern (icfg cfg gen j) ph (p_name p)) with (get_pattern cfg ph (p_name p)) in Hq.
          rewrite Hg in Hq. injection Hq as <-. now apply Hgate.
  Qed.

  (* ---------- identifiers of the runs created by a step ---------- *)
  Lemma start_runs_ids (c : config) (e : E) pps : forall (rt : runtab) n rt' n' pc pu,
    start_runs c e pps rt n = Ok (rt', n', pc, pu) ->
    Forall (fun x => exists k, (n <= k)%nat /\ r_id x = c_genid c k) (pc ++ pu).
  Proof.
    induction pps as [|[ph p] rest IH]; intros rt n rt' n' pc pu H.
    - simpl in H. injection H as _ _ <- <-. constructor.
    - cbn [start_runs] in H.
      assert (Hmono : forall l m, Forall (fun x => exists k, (S m <= k)%nat /\ r_id x = c_genid c k) l ->
                                  Forall (fun x : run => exists k, (m <= k)%nat /\ r_id x = c_genid c k) l).
      { intros l m Hl. eapply Forall_impl; [|exact Hl]. intros x [k [Hk Hx]]. exists k. split; [lia|exact Hx]. }
      destruct (first_match p e); [|eauto].
      destruct (r_halted _ && is_complete _).
      + destruct (start_runs c e rest rt (S n)) as [[[[rt1 n1] c1] u1]|] eqn:Es; cbn in H; [|discriminate].
        injection H as _ _ <- <-. simpl. constructor; [exists n; split; [lia|reflexivity]|]. apply Hmono. eauto.
      + destruct (negb (p_single p) || _).
        * destruct (rt_add ph (p_name p) _ rt) as [rt1|] eqn:Ea; cbn in H; [|discriminate].
          destruct (start_runs c e rest rt1 (S n)) as [[[[rt2 n2] c2] u2]|] eqn:Es; cbn in H; [|discriminate].
          injection H as _ _ <- <-. apply Forall_app. specialize (IH _ _ _ _ _ _ Es). apply Forall_app in IH.
          destruct IH as [I1 I2]. split; [now apply Hmono|].
          constructor; [exists n; split; [lia|reflexivity]|now apply Hmono].
        * apply Hmono. eauto.
  Qed.

  (* runs that complete with their first event belong to one-block patterns *)
  Lemma start_runs_pc (c : config) (e : E) pps : forall (rt : runtab) n rt' n' pc pu,
    start_runs c e pps rt n = Ok (rt', n', pc, pu) ->
    Forall (fun x => (length (p_blocks (r_pat x)) <= 1)%nat /\ In (r_ph x, r_pat x) pps) pc.
  Proof.
    induction pps as [|[ph p] rest IH]; intros rt n rt' n' pc pu H.
    - simpl in H. injection H as _ _ <- _. constructor.
    - cbn [start_runs] in H.
      assert (Hmono : forall l, Forall (fun x : run => (length (p_blocks (r_pat x)) <= 1)%nat /\ In (r_ph x, r_pat x) rest) l ->
                                Forall (fun x : run => (length (p_blocks (r_pat x)) <= 1)%nat /\ In (r_ph x, r_pat x) ((ph, p) :: rest)) l).
      { intros l Hl. eapply Forall_impl; [|exact Hl]. intros x [H1 H2]. split; [exact H1|now right]. }
      destruct (first_match p e); [|apply Hmono; eauto].
      destruct (r_halted _ && is_complete _) eqn:Ehc.
      + destruct (start_runs c e rest rt (S n)) as [[[[rt1 n1] c1] u1]|] eqn:Es; cbn in H; [|discriminate].
        injection H as _ _ <- _. constructor; [|apply Hmono; eauto].
        split; [|now left]. apply andb_true_iff in Ehc. destruct Ehc as [Eh _]. simpl in Eh. simpl.
        now apply Nat.leb_le in Eh.
      + destruct (negb (p_single p) || _).
        * destruct (rt_add ph (p_name p) _ rt) as [rt1|] eqn:Ea; cbn in H; [|discriminate].
          destruct (start_runs c e rest rt1 (S n)) as [[[[rt2 n2] c2] u2]|] eqn:Es; cbn in H; [|discriminate].
          injection H as _ _ <- _. apply Hmono. eauto.
        * apply Hmono. eauto.
  Qed.

  Lemma nodup_sel_ids k (e : E) (l : list run) :
    NoDup (map (@r_id E) l) -> NoDup (map (@r_id E) (sel k (flat_map (run_event e) l))).
  Proof.
    induction l as [|r l IH]; intro Hnd; simpl; [constructor|].
    inversion Hnd as [|? ? Hn Hnd']; subst. unfold sel in *. rewrite flat_map_app, map_app.
    assert (Hrest : forall x, In x (map (@r_id E) (flat_map (fun rk => match snd rk, k with
                        | KComp, KComp | KHalt, KHalt | KUpd, KUpd => [fst rk] | _, _ => [] end) (flat_map (run_event e) l))) ->
                        In x (map (@r_id E) l)).
    { intros x Hx. apply in_map_iff in Hx. destruct Hx as [y [Hy Hin]]. apply in_flat_map in Hin.
      destruct Hin as [[r1 k1] [Hin1 Hin2]]. apply in_flat_map in Hin1. destruct Hin1 as [r0 [Hr0 Hre]].
      apply run_event_in in Hre. destruct Hre as [Hp _].
      destruct (outcome_id E r0 e r1 true (process_outcome E r0 e r1 true Hp)) as [Hid _].
      simpl in Hin2. assert (y = r1) by (destruct k1, k; simpl in Hin2; try contradiction; destruct Hin2 as [<-|[]]; reflexivity).
      subst y. rewrite <- Hy, Hid. now apply in_map. }
    unfold run_event at 1. destruct (process r e) as [[r' c]|] eqn:Ep; [destruct c|]; simpl; try (now apply IH).
    destruct (kind_of r'), k; simpl; try (now apply IH).
    all: constructor; [|now apply IH];
      destruct (outcome_id E r e r' true (process_outcome E r e r' true Ep)) as [Hid _]; rewrite Hid;
      intro Hin; apply Hn; now apply Hrest.
  Qed.

  Lemma in_ser_sel k (e : E) (rt : runtab) (rc : rserial) :
    In rc (map ser (sel k (flat_map (run_event e) (rt_all rt)))) <->
    exists r0 r', In r0 (rt_all rt) /\ process r0 e = Ok (r', true) /\ kind_of r' = k /\ rc = ser r'.
  Proof.
    rewrite in_map_iff. split.
    - intros [r' [Hrc Hin]]. apply sel_in in Hin. apply in_flat_map in Hin. destruct Hin as [r0 [Hr0 Hre]].
      apply run_event_in in Hre. destruct Hre as [Hp Hk]. exists r0, r'. auto.
    - intros [r0 [r' [Hr0 [Hp [Hk ->]]]]]. exists r'. split; [reflexivity|]. apply sel_in. apply in_flat_map.
      exists r0. split; [exact Hr0|]. apply run_event_in. auto.
  Qed.

  Definition fin (e : E) (r : run) : bool := match after_event e r with None => true | Some _ => false end.

  Lemma flat_map_optl_filter (e : E) (f : run -> run) (l : list run) :
    (forall r, In r l -> fin e r = false -> after_event e r = Some (f r)) ->
    flat_map (fun r => optl (after_event e r)) l = map f (filter (fun r => negb (fin e r)) l).
  Proof.
    induction l as [|r l IH]; intro H; [reflexivity|].
    cbn [flat_map filter]. rewrite IH by (intros; apply H; [now right|assumption]).
    destruct (fin e r) eqn:Ef; cbn [negb].
    - unfold fin in Ef. destruct (after_event e r); [discriminate|reflexivity].
    - rewrite (H r (or_introl eq_refl) Ef). reflexivity.
  Qed.

  Lemma Inv_removes c recs : forall (rt : runtab), Inv E c rt -> Inv E c (removes E recs rt).
  Proof.
    unfold removes. induction recs as [|rc rest IH]; intros rt Hi; simpl; [exact Hi|]. apply IH. now apply Inv_remove.
  Qed.

  (* ---------- one synchronous replication step ---------- *)
  Theorem sync_step_holds i j (si sj si' : dstate) (e : E) (n : note) :
    beq (d_runs sj) (d_runs si) ->
    Inv E (icfg cfg gen i) (d_runs si) -> Inv E (icfg cfg gen j) (d_runs sj) ->
    NoDup (map (@r_id E) (rt_all (d_runs si))) ->
    (forall k r, (d_next si <= k)%nat -> In r (rt_all (d_runs si)) -> r_id r <> gen i k) ->
    Forall (known (icfg cfg gen j)) (n_comp n) -> Forall (known (icfg cfg gen j)) (n_halt n) ->
    Forall (known (icfg cfg gen j)) (n_upd n) ->
    filter_msg (icfg cfg gen j) sj n = n ->
    local_step (icfg cfg gen i) si e = Ok (si', n) ->
    beq (d_runs (fst (remote_apply (icfg cfg gen j) sj n))) (d_runs si').
  Proof.
    intros Hb Hinvi Hinvj Huniq Hfresh Kc Kh Ku Hnf H.
    unfold local_step in H.
    set (ks := flat_map (run_event e) (rt_all (d_runs si))) in *.
    destruct (start_runs (icfg cfg gen i) e (cfg_pats (icfg cfg gen i)) (rt_filter_map (after_event e) (d_runs si)) (d_next si))
      as [[[[rt2 n2] pc] pu]|] eqn:Es; [|discriminate].
    injection H as <- <-. simpl d_runs.
    set (comp := map ser (sel KComp ks ++ pc)) in *.
    set (hlt := map ser (sel KHalt ks)) in *.
    set (recs1 := map ser (sel KUpd ks)).
    assert (Hupd : map ser (sel KUpd ks ++ pu) = recs1 ++ map ser pu) by (unfold recs1; apply map_app).
    pose proof Hinvi as [Hwfi [Hkeysi [Hnodupi Hsinglei]]].
    (* the receiver's singleton buckets hold no run under another identifier than the one a record names *)
    assert (Hag_run : forall k0 rc, In rc (map ser (sel k0 ks)) -> sagree (icfg cfg gen j) (d_runs sj) rc).
    { intros k0 rc Hrc p Hg Hsg r Hr. apply in_ser_sel in Hrc. destruct Hrc as [r0 [r' [Hr0 [Hp [_ ->]]]]].
      destruct (outcome_id E r0 e r' true (process_outcome E r0 e r' true Hp)) as [H1 [H2 H3]].
      simpl in Hg, Hr. simpl. rewrite Hb in Hr.
      pose proof (get_pattern_name E _ _ _ _ Hg) as Hname.
      destruct (in_all_bucket E _ _ Hwfi Hr0) as [ph0 [pat0 Hin0]]. destruct (Hkeysi _ _ _ Hin0) as [Hph0 Hpat0].
      assert (Hin0' : In r0 (bucket (r_ph r') (p_name p) (d_runs si))).
      { rewrite Hname, H2, H3, Hph0, Hpat0. exact Hin0. }
      assert (Hlen : (length (bucket (r_ph r') (p_name p) (d_runs si)) <= 1)%nat).
      { apply (Hsinglei _ _ p); [|exact Hsg]. rewrite Hname. exact Hg. }
      destruct (bucket (r_ph r') (p_name p) (d_runs si)) as [|x [|y l]]; simpl in *; [contradiction| |lia].
      destruct Hr as [<-|[]]. destruct Hin0' as [->|[]]. congruence. }
    assert (Hag_comp : forall rc, In rc comp -> sagree (icfg cfg gen j) (d_runs sj) rc).
    { intros rc Hrc. unfold comp in Hrc. rewrite map_app in Hrc. apply in_app_iff in Hrc. destruct Hrc as [Hrc|Hrc].
      - now apply (Hag_run KComp).
      - intros p Hg Hsg r Hr. exfalso. apply in_map_iff in Hrc. destruct Hrc as [x [<- Hx]].
        pose proof (start_runs_pc _ _ _ _ _ _ _ _ _ Es) as Hpc. rewrite Forall_forall in Hpc.
        destruct (Hpc x Hx) as [Hlen Hinp]. simpl in Hg.
        pose proof (cfg_pats_get E cfg _ _ cfgwf Hinp) as Hg2.
        change (get_pattern (icfg cfg gen j) (r_ph x) (p_name (r_pat x))) with (get_pattern cfg (r_ph x) (p_name (r_pat x))) in Hg.
        rewrite Hg2 in Hg. injection Hg as <-. pose proof (single2 _ _ _ Hg2 Hsg). lia. }
    (* the remote side *)
    unfold remote_apply, remote_apply_gen. rewrite Hnf. simpl n_comp. simpl n_halt. simpl n_upd.
    simpl in Kc, Kh, Ku.
    destruct (apply_finished_sync (icfg cfg gen j) true comp (d_runs sj)
                (cache_push (icfg cfg gen j) (d_cc sj) comp) (cache_push (icfg cfg gen j) (d_ch sj) hlt) Hinvj Kc Hag_comp)
      as [cc1 [ch1 [out1 Hf1]]]. rewrite Hf1.
    assert (Hinv1 : Inv E (icfg cfg gen j) (removes E comp (d_runs sj))).
    { clear -Hinvj. unfold removes. generalize (d_runs sj) Hinvj. induction comp as [|rc rest IH]; intros rt Hi; simpl; [exact Hi|].
      apply IH. now apply Inv_remove. }
    assert (Hag_hlt : forall rc, In rc hlt -> sagree (icfg cfg gen j) (removes E comp (d_runs sj)) rc).
    { intros rc Hrc p Hg Hsg r Hr. apply (Hag_run KHalt rc Hrc p Hg Hsg r).
      rewrite bucket_removes in Hr. apply filter_In in Hr. tauto. }
    destruct (apply_finished_sync (icfg cfg gen j) false hlt (removes E comp (d_runs sj)) cc1 ch1 Hinv1 Kh Hag_hlt)
      as [cc2 [ch2 [out2 Hf2]]]. rewrite Hf2.
    destruct (apply_updated (icfg cfg gen j) true (map ser (sel KUpd ks ++ pu)) (removes E hlt (removes E comp (d_runs sj))))
      as [rt3 upd'] eqn:E3. simpl.
    assert (Hrt3 : rt3 = fst (apply_updated (icfg cfg gen j) true (map ser pu)
                                (fst (apply_updated (icfg cfg gen j) true recs1 (removes E hlt (removes E comp (d_runs sj))))))).
    { rewrite <- apply_updated_app, <- Hupd, E3. reflexivity. }
    set (R0 := removes E hlt (removes E comp (d_runs sj))) in *.
    (* which runs finish on this event, in terms of the records *)
    assert (HA : forall ph pat r, In r (bucket ph pat (d_runs si)) ->
                 existsb (rmatch ph pat (r_id r)) comp || existsb (rmatch ph pat (r_id r)) hlt = fin e r).
    { intros ph pat r Hr. pose proof (in_bucket_all E _ _ _ _ Hr) as Hall. destruct (Hkeysi _ _ _ Hr) as [Hph Hpat].
      destruct (fin e r) eqn:Ef.
      - unfold fin, after_event in Ef. destruct (process r e) as [[r' c]|] eqn:Ep; [|discriminate].
        destruct c; [|discriminate]. destruct (r_halted r') eqn:Eh; [|discriminate].
        destruct (outcome_id E r e r' true (process_outcome E r e r' true Ep)) as [H1 [H2 H3]].
        assert (Hm : rmatch ph pat (r_id r) (ser r') = true).
        { unfold rmatch. simpl. rewrite H1, H2, H3, Hph, Hpat, !Z.eqb_refl. reflexivity. }
        apply orb_true_iff. unfold kind_of in *.
        destruct (is_complete r') eqn:Ec.
        + left. apply existsb_exists. exists (ser r'). split; [|exact Hm]. unfold comp. rewrite map_app. apply in_or_app. left.
          apply in_ser_sel. exists r, r'. unfold kind_of. rewrite Eh, Ec. auto.
        + right. apply existsb_exists. exists (ser r'). split; [|exact Hm]. unfold hlt.
          apply in_ser_sel. exists r, r'. unfold kind_of. rewrite Eh, Ec. auto.
      - apply orb_false_iff. split; apply not_true_is_false; intro Hex; apply existsb_exists in Hex;
          destruct Hex as [rc [Hrc Hm]]; unfold rmatch in Hm; rewrite !andb_true_iff in Hm; destruct Hm as [[_ _] Hid]; apply Z.eqb_eq in Hid.
        + unfold comp in Hrc. rewrite map_app in Hrc. apply in_app_iff in Hrc. destruct Hrc as [Hrc|Hrc].
          * apply in_ser_sel in Hrc. destruct Hrc as [r0 [r' [Hr0 [Hp [Hk ->]]]]]. simpl in Hid.
            destruct (outcome_id E r0 e r' true (process_outcome E r0 e r' true Hp)) as [H1 _].
            assert (r0 = r) as -> by (apply (nodup_id_eq E _ _ _ Huniq Hr0 Hall); congruence).
            unfold fin, after_event in Ef. rewrite Hp in Ef. unfold kind_of in Hk.
            destruct (r_halted r'); [discriminate|]. discriminate.
          * apply in_map_iff in Hrc. destruct Hrc as [x [<- Hx]]. simpl in Hid.
            pose proof (start_runs_ids _ _ _ _ _ _ _ _ _ Es) as Hids. rewrite Forall_forall in Hids.
            destruct (Hids x (in_or_app _ _ _ (or_introl Hx))) as [k [Hk Hxk]].
            apply (Hfresh k r Hk Hall). rewrite <- Hid, Hxk. reflexivity.
        + unfold hlt in Hrc. apply in_ser_sel in Hrc. destruct Hrc as [r0 [r' [Hr0 [Hp [Hk ->]]]]]. simpl in Hid.
          destruct (outcome_id E r0 e r' true (process_outcome E r0 e r' true Hp)) as [H1 _].
          assert (r0 = r) as -> by (apply (nodup_id_eq E _ _ _ Huniq Hr0 Hall); congruence).
          unfold fin, after_event in Ef. rewrite Hp in Ef. unfold kind_of in Hk.
          destruct (r_halted r'); [discriminate|]. discriminate. }
    (* the table after the removals *)
    assert (HR0 : forall ph pat, bucket ph pat R0 = filter (fun r => negb (fin e r)) (bucket ph pat (d_runs si))).
    { intros ph pat. unfold R0. rewrite !bucket_removes, Hb.
      assert (Hff : forall (f g : run -> bool) l, filter f (filter g l) = filter (fun x => g x && f x) l).
      { intros f g l. induction l as [|x l IHl]; simpl; [reflexivity|]. destruct (g x); simpl; [destruct (f x); simpl; now rewrite IHl|exact IHl]. }
      rewrite Hff. apply filter_ext_in. intros r Hr. rewrite <- (HA ph pat r Hr).
      destruct (existsb (rmatch ph pat (r_id r)) comp), (existsb (rmatch ph pat (r_id r)) hlt); reflexivity. }
    assert (HinvR0 : Inv E (icfg cfg gen j) R0) by (unfold R0; now repeat apply Inv_removes).
    assert (K1 : Forall (known (icfg cfg gen j)) recs1) by (rewrite Hupd in Ku; now apply Forall_app in Ku).
    assert (Nd : NoDup (ids_of recs1)).
    { unfold ids_of, recs1. rewrite map_map. simpl. unfold ks. now apply nodup_sel_ids. }
    assert (Hfe : forall {A} (f : A -> bool) (l : list A) x, In x l -> f x = true -> find f l <> None).
    { intros A f l x Hin Hf Hn. eapply find_none in Hn; eauto. congruence. }
    (* a changed survivor: its record, and where it sits *)
    assert (Hsurv : forall r0 r', In r0 (rt_all (d_runs si)) -> process r0 e = Ok (r', true) -> r_halted r' = false ->
              In r0 (bucket (r_ph r0) (p_name (r_pat r0)) R0) /\ r_id r' = r_id r0 /\ r_ph r' = r_ph r0 /\ r_pat r' = r_pat r0).
    { intros r0 r' Hr0 Hp Hh. destruct (outcome_id E r0 e r' true (process_outcome E r0 e r' true Hp)) as [H1 [H2 H3]].
      split; [|auto]. destruct (in_all_bucket E _ _ Hwfi Hr0) as [ph [pat Hin]].
      destruct (Hkeysi _ _ _ Hin) as [<- <-]. rewrite HR0. apply filter_In. split; [exact Hin|].
      unfold fin, after_event. rewrite Hp, Hh. reflexivity. }
    assert (Hex : forall rc, In rc recs1 -> run_at (s_ph rc) (s_pat rc) (s_id rc) R0 <> None).
    { intros rc Hrc. unfold recs1, ks in Hrc. apply in_ser_sel in Hrc. destruct Hrc as [r0 [r' [Hr0 [Hp [Hk ->]]]]].
      assert (Hh : r_halted r' = false) by (unfold kind_of in Hk; destruct (r_halted r'); [destruct (is_complete r'); discriminate|reflexivity]).
      destruct (Hsurv r0 r' Hr0 Hp Hh) as [Hin [H1 [H2 H3]]]. simpl. unfold run_at. rewrite H1, H2, H3.
      apply (Hfe _ _ _ r0 Hin). apply Z.eqb_refl. }
    destruct (apply_updated_existing (icfg cfg gen j) recs1 R0 HinvR0 K1 Nd Hex) as [HbT HinvT].
    set (T := fst (apply_updated (icfg cfg gen j) true recs1 R0)) in *.
    (* every surviving run is updated exactly as the local step updated it *)
    assert (HC : forall ph pat r, In r (bucket ph pat (d_runs si)) -> fin e r = false ->
                 after_event e r = Some (upd_by recs1 ph pat r)).
    { intros ph pat r Hr Hf. pose proof (in_bucket_all E _ _ _ _ Hr) as Hall. destruct (Hkeysi _ _ _ Hr) as [Hph Hpat].
      assert (Hfound : forall rc0, find (rmatch ph pat (r_id r)) recs1 = Some rc0 ->
                       exists r', process r e = Ok (r', true) /\ r_halted r' = false /\ rc0 = ser r').
      { intros rc0 Hfd. apply find_some in Hfd. destruct Hfd as [Hin Hm]. unfold recs1, ks in Hin. apply in_ser_sel in Hin.
        destruct Hin as [r0 [r' [Hr0 [Hp [Hk ->]]]]]. unfold rmatch in Hm. simpl in Hm. rewrite !andb_true_iff in Hm.
        destruct Hm as [_ Hid]. apply Z.eqb_eq in Hid.
        destruct (outcome_id E r0 e r' true (process_outcome E r0 e r' true Hp)) as [H1 _].
        assert (r0 = r) as -> by (apply (nodup_id_eq E _ _ _ Huniq Hr0 Hall); congruence).
        exists r'. split; [exact Hp|]. split; [|reflexivity].
        unfold kind_of in Hk. destruct (r_halted r'); [destruct (is_complete r'); discriminate|reflexivity]. }
      unfold upd_by. destruct (find (rmatch ph pat (r_id r)) recs1) as [rc0|] eqn:Efd.
      - destruct (Hfound rc0 eq_refl) as [r' [Hp [Hh ->]]].
        rewrite (local_change_is_ahead E r e r' Hp Hh).
        assert (Hrh : r_halted r = false).
        { destruct (r_halted r) eqn:Erh; [|reflexivity]. rewrite (process_halted_ignores E r e Erh) in Hp. discriminate. }
        rewrite (set_block_replicates E r e r' Hp Hrh Hh). unfold after_event. now rewrite Hp, Hh.
      - unfold after_event. destruct (process r e) as [[r' c]|] eqn:Ep; [|reflexivity].
        destruct c; [|reflexivity].
        destruct (r_halted r') eqn:Eh; [unfold fin, after_event in Hf; rewrite Ep, Eh in Hf; discriminate|].
        exfalso. destruct (outcome_id E r e r' true (process_outcome E r e r' true Ep)) as [H1 [H2 H3]].
        eapply find_none in Efd.
        2:{ unfold recs1, ks. apply in_ser_sel. exists r, r'. unfold kind_of. rewrite Eh. auto. }
        unfold rmatch in Efd. simpl in Efd. rewrite H1, H2, H3, Hph, Hpat, !Z.eqb_refl in Efd. discriminate. }
    assert (HbT1 : beq T (rt_filter_map (after_event e) (d_runs si))).
    { intros ph pat. rewrite HbT, HR0, bucket_filter_map. symmetry. apply flat_map_optl_filter. apply HC. }
    destruct (start_runs_sync i j e (cfg_pats (icfg cfg gen i)) (fun _ _ h => h) _ T _ _ _ _ _ Es HbT1 HinvT) as [Hfinal _].
    rewrite Hrt3. exact Hfinal.
  Qed.

  (* ---------- the cluster: all replicas hold the same runs after every synchronous step ---------- *)
  Definition tables_beq (ss : list dstate) : Prop :=
    forall j k sj sk, nth_error ss j = Some sj -> nth_error ss k = Some sk -> beq (d_runs sj) (d_runs sk).

  Definition all_inv (ss : list dstate) : Prop :=
    forall k s, nth_error ss k = Some s -> Inv E (icfg cfg gen k) (d_runs s).

  (* side conditions of one step (identifier hygiene and memory): active run ids are unique, the ids the
     sender draws are fresh, the note names patterns that exist, and no receiver filters anything out of it
     (it does not remember any of these runs as finished) *)
  Definition step_ok (ss : list dstate) (i : nat) (e : E) : Prop :=
    forall si si' n, nth_error ss i = Some si -> local_step (icfg cfg gen i) si e = Ok (si', n) ->
      NoDup (map (@r_id E) (rt_all (d_runs si))) /\
      (forall k r, (d_next si <= k)%nat -> In r (rt_all (d_runs si)) -> r_id r <> gen i k) /\
      Forall (known cfg) (n_comp n) /\ Forall (known cfg) (n_halt n) /\ Forall (known cfg) (n_upd n) /\
      (forall j sj, j <> i -> nth_error ss j = Some sj -> filter_msg (icfg cfg gen j) sj n = n).

  Lemma cstep_all_inv ss ss' i (e : E) n :
    all_inv ss -> cstep cfg gen ss i e = Some (ss', n) -> all_inv ss'.
  Proof.
    intros Hall H. unfold cstep in H. destruct (nth_error ss i) as [si|] eqn:Ei; [|discriminate].
    destruct (local_step (icfg cfg gen i) si e) as [[si' n0]|] eqn:El; [|discriminate].
    injection H as <- <-.
    assert (Hil : (i < length ss)%nat) by (apply nth_error_Some; congruence).
    intros k s Hs. apply (deliver_nth E cfg gen) in Hs. destruct Hs as [s0 [H0 Hs]]. simpl in Hs.
    apply nth_error_replace in H0; [|exact Hil]. destruct H0 as [[-> ->]|[Hne H0]].
    - rewrite Nat.eqb_refl in Hs. subst s. eapply Inv_local_step; eauto.
    - destruct (Nat.eqb_spec k i); [contradiction|]. subst s.
      destruct (remote_apply (icfg cfg gen k) s0 n0) as [s1 n1] eqn:Er. simpl.
      unfold remote_apply in Er. eapply Inv_remote_apply; eauto.
  Qed.

  Theorem cstep_tables_beq ss ss' i (e : E) n :
    tables_beq ss -> all_inv ss -> step_ok ss i e -> cstep cfg gen ss i e = Some (ss', n) -> tables_beq ss'.
  Proof.
    intros Heq Hall Hok H. unfold cstep in H. destruct (nth_error ss i) as [si|] eqn:Ei; [|discriminate].
    destruct (local_step (icfg cfg gen i) si e) as [[si' n0]|] eqn:El; [|discriminate].
    injection H as <- <-.
    assert (Hil : (i < length ss)%nat) by (apply nth_error_Some; congruence).
    destruct (Hok si si' n0 Ei El) as [Hu [Hf [Kc [Kh [Ku Hnf]]]]].
    assert (G : forall j s, nth_error (deliver cfg gen i 0 (firstn i ss ++ si' :: skipn (S i) ss) n0) j = Some s ->
                            beq (d_runs s) (d_runs si')).
    { intros j s Hs. apply (deliver_nth E cfg gen) in Hs. destruct Hs as [s0 [H0 Hs]]. simpl in Hs.
      apply nth_error_replace in H0; [|exact Hil]. destruct H0 as [[-> ->]|[Hne H0]].
      - rewrite Nat.eqb_refl in Hs. subst s. apply beq_refl.
      - destruct (Nat.eqb_spec j i); [contradiction|]. subst s.
        apply (sync_step_holds i j si s0 si' e n0); auto.
        + eapply Heq; eauto. }
    intros j k sj sk Hj Hk. eapply beq_trans; [apply (G _ _ Hj)|apply beq_sym, (G _ _ Hk)].
  Qed.

  Fixpoint crun_ok (ss : list dstate) (inp : list (nat * E)) : Prop :=
    match inp with
    | [] => True
    | (i, e) :: rest =>
      step_ok ss i e /\ match cstep cfg gen ss i e with Some (ss', _) => crun_ok ss' rest | None => True end
    end.

  Theorem crun_tables_beq inp : forall ss ss' ns,
    tables_beq ss -> all_inv ss -> crun_ok ss inp -> crun cfg gen ss inp = Some (ss', ns) -> tables_beq ss'.
  Proof.
    induction inp as [|[i e] rest IH]; intros ss ss' ns Heq Hall Hok H; simpl in H.
    - now injection H as <- _.
    - destruct Hok as [Hstep Hrest].
      destruct (cstep cfg gen ss i e) as [[ss1 n]|] eqn:Ec; [|discriminate].
      destruct (crun cfg gen ss1 rest) as [[ss2 ns2]|] eqn:Er; [|discriminate].
      injection H as <- _. eapply IH; [| |exact Hrest|exact Er].
      + eapply cstep_tables_beq; eauto.
      + eapply cstep_all_inv; eauto.
  Qed.

  (* from the initial state *)
  Corollary crun_from_init_tables_beq n inp ss' ns :
    crun_ok (repeat d_init n) inp -> crun cfg gen (repeat d_init n) inp = Some (ss', ns) -> tables_beq ss'.
  Proof.
    apply crun_tables_beq.
    - intros j k sj sk Hj Hk. apply nth_error_In in Hj, Hk. apply repeat_spec in Hj, Hk. subst. apply beq_refl.
    - intros k s Hs. apply nth_error_In in Hs. apply repeat_spec in Hs. subst. apply Inv_nil.
  Qed.
End Sync.
