(* C19: constructors accept exactly the legal combinations; builder output is well-formed; accepted
   patterns run against any stream without an internal error; typed predicates. *)
From Bobo Require Import Base.Prelude Base.History Model.Pattern Model.Run Model.TypedPred Proofs.RunProofs.

Section PatternProofs.
  Variable E : Type.
  Notation block := (block E).
  Notation pattern := (pattern E).
  Notation run := (run E).

  (* documented illegal combinations: strict+optional, loop+(negated or optional), negated+optional *)
  Definition illegal (strict loop neg opt : bool) : bool :=
    (strict && opt) || (loop && (neg || opt)) || (neg && opt).

  Lemma block_ctor_accepts_iff n strict loop neg opt :
    block_ctor_code n strict loop neg opt = 0 <-> (0 < n)%nat /\ illegal strict loop neg opt = false.
  Proof.
    unfold block_ctor_code, illegal. destruct n as [|n]; simpl.
    - split; [discriminate|intros [H _]; lia].
    - destruct strict, loop, neg, opt; simpl; split; try discriminate; try (intros [_ H]; discriminate);
        try (intros _; split; [lia|reflexivity]); reflexivity.
  Qed.

  Lemma wf_flags_illegal strict loop neg opt : wf_flags strict loop neg opt = negb (illegal strict loop neg opt).
  Proof. destruct strict, loop, neg, opt; reflexivity. Qed.

  Lemma pattern_ctor_accepts_iff namelen (bs : list block) :
    pattern_ctor_code namelen bs = 0 <->
    (0 < namelen)%nat /\ exists b0 rest, bs = b0 :: rest /\ plain_end b0 = true /\ plain_end (last bs b0) = true.
  Proof.
    unfold pattern_ctor_code. destruct namelen as [|m].
    - simpl. split; [discriminate|intros [H _]; lia].
    - change (Nat.eqb (S m) 0) with false. cbv iota.
      destruct bs as [|b0 rest].
      + split; [discriminate|intros [_ [b [r [H _]]]]; discriminate].
      + remember (last (b0 :: rest) b0) as bl. split.
        * intro H. split; [lia|]. exists b0, rest. split; [reflexivity|]. rewrite <- Heqbl. unfold plain_end.
          destruct (b_neg b0), (b_opt b0), (b_loop b0); try discriminate.
          destruct (b_neg bl), (b_opt bl), (b_loop bl); try discriminate. split; reflexivity.
        * intros [_ [b [r [Heq [H0 Hl]]]]]. injection Heq as <- <-. rewrite <- Heqbl in Hl. unfold plain_end in *.
          destruct (b_neg b0), (b_opt b0), (b_loop b0); try discriminate.
          destruct (b_neg bl), (b_opt bl), (b_loop bl); try discriminate. reflexivity.
  Qed.

  (* ---- builder ---- *)
  Definition all_wf (s : bstate E) : Prop := Forall (fun b => wf_block b = true) (bs_blocks E s).

  Lemma bstep_wf (s s' : bstate E) o : bstep E s o = Some s' -> all_wf s -> all_wf s'.
  Proof.
    unfold all_wf.
    assert (G : forall ps g strict loop neg opt times,
               block_ctor_code (length ps) strict loop neg opt = 0 ->
               Forall (fun b => wf_block b = true) (bs_blocks E s) ->
               Forall (fun b : block => wf_block b = true)
                      (bs_blocks E s ++ repeat (mkBlock ps g strict loop neg opt) (reps times))).
    { intros ps g st lo ne op t Hc Hs. apply Forall_app. split; [exact Hs|].
      apply Forall_forall. intros b Hb. apply repeat_spec in Hb. subst b.
      apply block_ctor_accepts_iff in Hc. destruct Hc as [Hn Hi].
      unfold wf_block. simpl. rewrite wf_flags_illegal, Hi. simpl.
      destruct (length ps); [lia|reflexivity]. }
    destruct o; unfold bstep; intros H Hs;
      first [ match type of H with (if ?c then _ else _) = _ => destruct c eqn:Ec; [|discriminate] end;
              injection H as <-; cbn [bs_blocks]; apply G; [now apply Z.eqb_eq|exact Hs]
            | injection H as <-; exact Hs ].
  Qed.

  Lemma bsteps_wf os : forall (s s' : bstate E), bsteps E s os = Some s' -> all_wf s -> all_wf s'.
  Proof.
    induction os as [|o os IH]; simpl; intros s s' H Hs; [now injection H as <-|].
    destruct (bstep E s o) as [s1|] eqn:E1; [|discriminate]. eapply IH; eauto. eapply bstep_wf; eauto.
  Qed.

  Theorem build_wf name namelen single os (p : pattern) :
    build E name namelen single os = inl p -> wf_pattern p = true.
  Proof.
    unfold build. destruct (Nat.eqb namelen 0); [discriminate|].
    destruct (bsteps E (mkB E [] [] []) os) as [s|] eqn:Es; [|discriminate].
    destruct (Z.eqb_spec (pattern_ctor_code namelen (bs_blocks E s)) 0) as [Hc|]; [|discriminate].
    intros [= <-]. apply pattern_ctor_accepts_iff in Hc. destruct Hc as [_ [b0 [rest [Hb [H0 Hl]]]]].
    assert (Hwf : all_wf s) by (eapply bsteps_wf; eauto; constructor).
    unfold wf_pattern, all_wf in *. simpl. rewrite Hb in *. rewrite H0, Hl, !andb_true_r.
    apply forallb_forall. rewrite Forall_forall in Hwf. exact Hwf.
  Qed.

  (* each builder method emits exactly the documented flags, group and repetition count, in call order *)
  Definition emitted (o : bop E) : list block :=
    match o with
    | BNext _ p g t l => repeat (mkBlock [p] g true l false false) (reps t)
    | BNotNext _ p g t => repeat (mkBlock [p] g true false true false) (reps t)
    | BFollowedBy _ p g t l op => repeat (mkBlock [p] g false l false op) (reps t)
    | BNotFollowedBy _ p g t => repeat (mkBlock [p] g false false true false) (reps t)
    | BFollowedByAny _ ps g t l op => repeat (mkBlock ps g false l false op) (reps t)
    | BNotFollowedByAny _ ps g t => repeat (mkBlock ps g false false true false) (reps t)
    | BPrecondition _ _ | BHaltcondition _ _ => []
    end.

  Lemma bstep_blocks (s s' : bstate E) o : bstep E s o = Some s' -> bs_blocks E s' = bs_blocks E s ++ emitted o.
  Proof.
    destruct o; unfold bstep; intro H;
      first [ match type of H with (if ?c then _ else _) = _ => destruct c; [|discriminate] end;
              injection H as <-; reflexivity
            | injection H as <-; simpl; now rewrite app_nil_r ].
  Qed.

  Theorem builder_blocks_in_call_order os : forall (s s' : bstate E),
    bsteps E s os = Some s' -> bs_blocks E s' = bs_blocks E s ++ flat_map emitted os.
  Proof.
    induction os as [|o os IH]; simpl; intros s s' H; [injection H as <-; now rewrite app_nil_r|].
    destruct (bstep E s o) as [s1|] eqn:E1; [|discriminate].
    rewrite (IH _ _ H), (bstep_blocks _ _ _ E1). now rewrite app_assoc.
  Qed.

  (* ---- an accepted pattern runs against any stream without an internal error ---- *)
  (* the decider's use of a run: exceptions from predicates are swallowed, the run is kept as it was *)
  Fixpoint feed (r : run) (es : list E) : option run :=
    match es with
    | [] => Some r
    | e :: es' => match process r e with
                  | Ok (r', _) => feed r' es'
                  | Exn EIndex => None
                  | Exn _ => feed r es'
                  end
    end.

  Definition in_range (r : run) : Prop :=
    r_halted r = true \/ (r_idx r < length (p_blocks (r_pat r)))%nat.

  Lemma process_in_range (r : run) (e : E) r' c :
    wf_pattern (r_pat r) = true -> in_range r -> process r e = Ok (r', c) ->
    in_range r' /\ r_pat r' = r_pat r.
  Proof.
    intros Hwf Hr Hp. pose proof (process_outcome E r e r' c Hp) as Ho.
    destruct (outcome_id E r e r' c Ho) as [_ [_ Hpat]]. split; [|exact Hpat].
    destruct Hr as [Hh|Hlt].
    - rewrite (process_halted_ignores E r e Hh) in Hp. injection Hp as <- _. now left.
    - destruct (r_halted r) eqn:Eh.
      + rewrite (process_halted_ignores E r e Eh) in Hp. injection Hp as <- _. now left.
      + destruct (r_halted r') eqn:Eh'; [now left|right].
        eapply outcome_active_below; eauto.
  Qed.

  Theorem feed_no_internal_error es : forall (r : run),
    wf_pattern (r_pat r) = true -> in_range r -> feed r es <> None.
  Proof.
    induction es as [|e es IH]; intros r Hwf Hr; simpl; [discriminate|].
    destruct (process r e) as [[r' c]|k] eqn:Ep.
    - destruct (process_in_range r e r' c Hwf Hr Ep) as [Hr' Hp]. apply IH; [now rewrite Hp|exact Hr'].
    - destruct k; try (apply IH; assumption).
      exfalso. destruct Hr as [Hh|Hlt].
      + rewrite (process_halted_ignores E r e Hh) in Ep. discriminate.
      + eapply process_no_index_error; eauto.
  Qed.

  (* a run started by the decider (index 1) on a pattern of the builder *)
  Lemma new_run_in_range id ph (p : pattern) (e : E) : in_range (new_run id ph p e).
  Proof.
    unfold in_range, new_run. simpl. destruct (Nat.leb (length (p_blocks p)) 1) eqn:El; [now left|right].
    now apply Nat.leb_gt in El.
  Qed.
End PatternProofs.

Section TypedProofs.
  Variable D : Type.
  Variable is_type is_exact : D -> bool.
  Variable cast : D -> option D.
  Variable call : D -> pres.
  (* assumption on the Python constructor used by cast: what it returns is of the declared type *)
  Hypothesis cast_type : forall d d', cast d = Some d' -> is_type d' = true /\ is_exact d' = true.

  Theorem typed_callee_sees_declared_type subtype castflag d x :
    snd (typed_eval D is_type is_exact cast call subtype castflag d) = CalledWith x ->
    (if subtype then is_type x else is_exact x) = true.
  Proof.
    unfold typed_eval. destruct subtype.
    - destruct (is_type d) eqn:Et; simpl; [intros [= <-]; exact Et|].
      destruct castflag; [|discriminate]. destruct (cast d) as [d'|] eqn:Ec; [|discriminate].
      simpl. intros [= <-]. now destruct (cast_type _ _ Ec).
    - destruct (is_exact d) eqn:Et; simpl; [intros [= <-]; exact Et|].
      destruct castflag; [|discriminate]. destruct (cast d) as [d'|] eqn:Ec; [|discriminate].
      simpl. intros [= <-]. now destruct (cast_type _ _ Ec).
  Qed.

  Theorem typed_not_called_is_false subtype castflag d :
    snd (typed_eval D is_type is_exact cast call subtype castflag d) = NotCalled ->
    fst (typed_eval D is_type is_exact cast call subtype castflag d) = PFalse.
  Proof.
    unfold typed_eval. destruct (if subtype then is_type d else is_exact d); [discriminate|].
    destruct castflag; [|reflexivity]. destruct (cast d); [discriminate|reflexivity].
  Qed.

  Theorem typed_result_is_call subtype castflag d x :
    snd (typed_eval D is_type is_exact cast call subtype castflag d) = CalledWith x ->
    fst (typed_eval D is_type is_exact cast call subtype castflag d) = call x.
  Proof.
    unfold typed_eval. destruct (if subtype then is_type d else is_exact d); [intros [= <-]; reflexivity|].
    destruct castflag; [|discriminate]. destruct (cast d); [intros [= <-]; reflexivity|discriminate].
  Qed.
End TypedProofs.
