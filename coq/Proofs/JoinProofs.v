(* C04, concrete side (P2): for non-singleton patterns, finished-run memory on and with room, a message whose
   records name known patterns consistently is applied as the JOIN of what the instance believed and what the
   message says:  cstatus after = join_facts (facts of the message) (cstatus before). *)
From Bobo Require Import Base.Prelude Base.History Model.Pattern Model.Run Model.Decider Model.Converge Model.ConvergeC.
From Bobo Require Import Proofs.RunProofs Proofs.DeciderLemmas Proofs.DeciderProofs Proofs.StepProofs.
From Bobo Require Import Proofs.RemoteProofs Proofs.ConvergeProofs.

Section Helpers.
  Lemma zmem_app x l1 l2 : zmem x (l1 ++ l2) = zmem x l1 || zmem x l2.
  Proof. unfold zmem. now rewrite existsb_app. Qed.

  Lemma zmem_false x l : zmem x l = false <-> ~ In x l.
  Proof.
    split.
    - intros H Hin. apply (zmem_in) in Hin. congruence.
    - intro H. destruct (zmem x l) eqn:E; [|reflexivity]. apply zmem_in in E. contradiction.
  Qed.

  Lemma skipn_0_sub {A} (l : list A) n m : (n <= m)%nat -> skipn (n - m) l = l.
  Proof. intro H. replace (n - m)%nat with 0%nat by lia. reflexivity. Qed.
End Helpers.

Section Join.
  Variable E : Type.
  Variable owner : Z -> Z * Z.
  Notation run := (run E).
  Notation runtab := (runtab E).
  Notation rserial := (rserial E).
  Notation note := (note E).
  Notation dstate := (dstate E).
  Notation config := (config E).

  Lemma ids_of_app (l1 l2 : list rserial) : ids_of (l1 ++ l2) = ids_of l1 ++ ids_of l2.
  Proof. unfold ids_of. apply map_app. Qed.

  (* ---------- caches with room ---------- *)
  Lemma dq_push_room maxlen (x : rserial) l : (length l < maxlen)%nat -> dq_push maxlen x l = l ++ [x].
  Proof.
    intro H. unfold dq_push. destruct maxlen as [|k]; [lia|].
    rewrite app_length. simpl. rewrite skipn_0_sub by lia. reflexivity.
  Qed.

  Lemma cache_push_room (cfg : config) xs : forall l,
    (length l + length xs <= c_maxcache cfg)%nat -> cache_push cfg l xs = l ++ xs.
  Proof.
    unfold cache_push. induction xs as [|x xs IH]; intros l H; simpl; [now rewrite app_nil_r|].
    simpl in H. rewrite dq_push_room by lia. rewrite IH by (rewrite app_length; simpl; lia).
    now rewrite <- app_assoc.
  Qed.

  (* ---------- completed / halted records, non-singleton ---------- *)
  Definition removes (recs : list rserial) (rt : runtab) : runtab :=
    fold_left (fun t rc => rt_remove (s_ph rc) (s_pat rc) (s_id rc) t) recs rt.

  Definition known_ns (cfg : config) (rc : rserial) : Prop :=
    exists p, get_pattern cfg (s_ph rc) (s_pat rc) = Some p /\ p_single p = false.

  Lemma apply_finished_ns cfg w recs : Forall (known_ns cfg) recs ->
    forall (rt : runtab) cc ch, apply_finished cfg w recs rt cc ch = (removes recs rt, cc, ch, recs).
  Proof.
    induction 1 as [|rc rest [p [Hg Hs]] _ IH]; intros rt cc ch; simpl; [reflexivity|].
    rewrite Hg, Hs. rewrite IH. reflexivity.
  Qed.

  Lemma find_filter_other (l : list run) id id' :
    id <> id' ->
    find (fun r => Z.eqb (r_id r) id) (filter (fun r => negb (Z.eqb (r_id r) id')) l) =
    find (fun r => Z.eqb (r_id r) id) l.
  Proof.
    intro Hne. induction l as [|r l IH]; simpl; [reflexivity|].
    destruct (Z.eqb_spec (r_id r) id') as [He|Hn]; simpl.
    - destruct (Z.eqb_spec (r_id r) id); [congruence|exact IH].
    - destruct (Z.eqb (r_id r) id); [reflexivity|exact IH].
  Qed.

  Lemma run_at_remove_other ph pat id ph' pat' id' (rt : runtab) :
    id <> id' -> run_at ph pat id (rt_remove ph' pat' id' rt) = run_at ph pat id rt.
  Proof.
    intro Hne. unfold run_at. rewrite bucket_remove. destruct (same ph' pat' ph pat); [|reflexivity].
    now apply find_filter_other.
  Qed.

  Lemma run_at_removes ph pat id recs : forall (rt : runtab),
    ~ In id (ids_of recs) -> run_at ph pat id (removes recs rt) = run_at ph pat id rt.
  Proof.
    unfold removes. induction recs as [|rc rest IH]; intros rt Hn; simpl; [reflexivity|].
    simpl in Hn. rewrite IH by tauto. apply run_at_remove_other. intro He. apply Hn. now left.
  Qed.

  (* ---------- positions ---------- *)
  Definition posr (o : option run) : st :=
    match o with Some r => Active (r_idx r) (hsize (r_hist r)) | None => Absent end.
  Definition rpos (rc : rserial) : st := Active (s_idx rc) (hsize (s_hist rc)).

  Lemma ahead_not_le (rc : rserial) (rl : run) :
    ahead true rc rl = negb (st_le (rpos rc) (posr (Some rl))).
  Proof.
    unfold ahead, rpos, posr, st_le. simpl.
    destruct (Nat.ltb_spec (r_idx rl) (s_idx rc)), (Nat.ltb_spec (s_idx rc) (r_idx rl)),
             (Nat.eqb_spec (r_idx rl) (s_idx rc)), (Nat.eqb_spec (s_idx rc) (r_idx rl)),
             (Nat.ltb_spec (hsize (r_hist rl)) (hsize (s_hist rc))), (Nat.leb_spec (hsize (s_hist rc)) (hsize (r_hist rl)));
      simpl; try reflexivity; try lia.
  Qed.

  Lemma updated_pos (rc : rserial) (rl : run) :
    posr (Some (if ahead true rc rl then set_block rl (s_idx rc) (s_hist rc) else rl)) =
    st_max (posr (Some rl)) (rpos rc).
  Proof.
    rewrite ahead_not_le. unfold st_max.
    remember (posr (Some rl)) as a. remember (rpos rc) as b.
    destruct (st_le b a) eqn:E1; cbn [negb].
    - rewrite <- Heqa. destruct (st_le a b) eqn:E2; [|reflexivity]. now apply st_le_antisym.
    - destruct (st_le_total b a) as [H|H]; [congruence|]. rewrite H. subst b. reflexivity.
  Qed.

  (* ---------- one updated record ---------- *)
  Lemma find_map_same (l : list run) (r' : run) x :
    find (fun r => Z.eqb (r_id r) x) (map (fun r => if Z.eqb (r_id r) (r_id r') then r' else r) l) =
    match find (fun r => Z.eqb (r_id r) x) l with
    | Some r => Some (if Z.eqb (r_id r) (r_id r') then r' else r)
    | None => None
    end.
  Proof.
    induction l as [|r l IH]; simpl; [reflexivity|].
    destruct (Z.eqb_spec (r_id r) (r_id r')) as [He|Hn]; cbn [find].
    - destruct (Z.eqb_spec (r_id r') x) as [H1|H1]; destruct (Z.eqb_spec (r_id r) x) as [H2|H2].
      + destruct (Z.eqb_spec (r_id r) (r_id r')); [reflexivity|contradiction].
      + congruence.
      + congruence.
      + exact IH.
    - destruct (Z.eqb_spec (r_id r) x) as [H2|H2]; [|exact IH].
      destruct (Z.eqb_spec (r_id r) (r_id r')); [contradiction|reflexivity].
  Qed.

  Lemma find_app_snoc (l : list run) (nr : run) x :
    find (fun r => Z.eqb (r_id r) x) (l ++ [nr]) =
    match find (fun r => Z.eqb (r_id r) x) l with
    | Some r => Some r
    | None => if Z.eqb (r_id nr) x then Some nr else None
    end.
  Proof.
    induction l as [|r l IH]; simpl; [reflexivity|]. destruct (Z.eqb (r_id r) x); [reflexivity|exact IH].
  Qed.

  Lemma find_id (l : list run) x r : find (fun r => Z.eqb (r_id r) x) l = Some r -> r_id r = x.
  Proof. intro H. apply find_some in H. destruct H as [_ H]. now apply Z.eqb_eq in H. Qed.

  (* effect of the first record of apply_updated on the run found under (ph, pat, id) *)
  Lemma apply_updated_cons cfg (rc : rserial) rest (rt : runtab) p :
    get_pattern cfg (s_ph rc) (s_pat rc) = Some p -> p_single p = false ->
    exists rt1,
      fst (apply_updated cfg true (rc :: rest) rt) = fst (apply_updated cfg true rest rt1) /\
      (forall ph pat id,
          posr (run_at ph pat id rt1) =
          if (Z.eqb ph (s_ph rc) && Z.eqb pat (s_pat rc) && Z.eqb id (s_id rc))
          then st_max (posr (run_at ph pat id rt)) (rpos rc)
          else posr (run_at ph pat id rt)) /\
      (Inv E cfg rt -> Inv E cfg rt1) /\
      (owner_ok owner rt -> owner (s_id rc) = (s_ph rc, s_pat rc) -> owner_ok owner rt1).
  Proof.
    intros Hg Hns. pose proof (get_pattern_name E _ _ _ _ Hg) as Hname.
    simpl. rewrite Hg, Hns.
    destruct (run_at (s_ph rc) (s_pat rc) (s_id rc) rt) as [rl|] eqn:Erl.
    - set (rl' := if ahead true rc rl then set_block rl (s_idx rc) (s_hist rc) else rl).
      exists (rt_replace (s_ph rc) (p_name p) rl' rt).
      assert (Hid' : r_id rl' = r_id rl) by (unfold rl'; destruct (ahead true rc rl); reflexivity).
      assert (Hidl : r_id rl = s_id rc) by (unfold run_at in Erl; now apply find_id in Erl).
      split; [destruct (apply_updated cfg true rest _); reflexivity|]. split; [|split].
      + intros ph pat id. unfold run_at at 1. rewrite bucket_replace. unfold same. rewrite Hname.
        destruct (Z.eqb_spec ph (s_ph rc)) as [->|Hph]; simpl; [|reflexivity].
        destruct (Z.eqb_spec pat (s_pat rc)) as [->|Hpat]; simpl; [|reflexivity].
        rewrite find_map_same. fold (run_at (s_ph rc) (s_pat rc) id rt).
        destruct (Z.eqb_spec id (s_id rc)) as [->|Hidn].
        * rewrite Erl. rewrite Hid', Z.eqb_refl. unfold rl'. apply updated_pos.
        * destruct (run_at (s_ph rc) (s_pat rc) id rt) as [r0|] eqn:E0; [|reflexivity].
          assert (r_id r0 = id) by (unfold run_at in E0; now apply find_id in E0).
          destruct (Z.eqb_spec (r_id r0) (r_id rl')); [congruence|reflexivity].
      + intro Hinv. assert (Hin : In rl (bucket (s_ph rc) (p_name p) rt)).
        { unfold run_at in Erl. apply find_some in Erl. rewrite Hname. tauto. }
        pose proof Hinv as [_ [Hk _]]. destruct (Hk _ _ _ Hin) as [H1 H2].
        apply Inv_replace; [| |exact Hinv]; unfold rl'; destruct (ahead true rc rl); simpl; auto.
      + intros Hown Ho ph pat r. rewrite bucket_replace. destruct (same (s_ph rc) (p_name p) ph pat) eqn:Es; [|apply Hown].
        rewrite in_map_iff. intros [x [Hx Hin]]. destruct (Z.eqb_spec (r_id x) (r_id rl')) as [He|Hne]; subst r.
        * rewrite Hid', Hidl, Ho. unfold same in Es. apply andb_true_iff in Es. destruct Es as [E1 E2].
          apply Z.eqb_eq in E1, E2. subst. now rewrite Hname.
        * now apply Hown.
    - set (nr := remote_run (s_id rc) (s_ph rc) p (s_idx rc) (s_hist rc)).
      destruct (rt_add_ok E (s_ph rc) (s_pat rc) nr rt Erl) as [rt1 Hadd]. rewrite Hadd.
      exists rt1. split; [destruct (apply_updated cfg true rest _); reflexivity|]. split; [|split].
      + intros ph pat id. unfold run_at at 1. rewrite (bucket_add E _ _ _ _ _ ph pat Hadd). unfold same.
        destruct (Z.eqb_spec ph (s_ph rc)) as [->|Hph]; simpl; [|reflexivity].
        destruct (Z.eqb_spec pat (s_pat rc)) as [->|Hpat]; simpl; [|reflexivity].
        rewrite find_app_snoc. fold (run_at (s_ph rc) (s_pat rc) id rt).
        destruct (Z.eqb_spec id (s_id rc)) as [->|Hidn].
        * rewrite Erl. simpl. rewrite Z.eqb_refl. simpl. reflexivity.
        * destruct (run_at (s_ph rc) (s_pat rc) id rt); [reflexivity|]. simpl.
          destruct (Z.eqb_spec (s_id rc) id); [congruence|reflexivity].
      + intro Hinv. eapply Inv_add; eauto. intros q Hq Hsq. rewrite Hg in Hq. injection Hq as <-. congruence.
      + intros Hown Ho ph pat r. rewrite (bucket_add E _ _ _ _ _ ph pat Hadd).
        destruct (same (s_ph rc) (s_pat rc) ph pat) eqn:Es; [|apply Hown].
        unfold same in Es. apply andb_true_iff in Es. destruct Es as [E1 E2]. apply Z.eqb_eq in E1, E2. subst ph pat.
        rewrite in_app_iff. intros [H|[<-|[]]]; [now apply Hown|]. simpl. exact Ho.
  Qed.

  (* ---------- the updated records of a message, as a join ---------- *)
  Definition ufacts (i : nat) (recs : list rserial) : list fact := map (fun r => (i, s_id r, rpos r)) recs.

  Lemma join_facts_cons id (f : fact) fs s0 :
    join_facts id (f :: fs) s0 = join_facts id fs (if Z.eqb (snd (fst f)) id then st_max s0 (snd f) else s0).
  Proof. reflexivity. Qed.

  Lemma join_facts_app id a b s0 : join_facts id (a ++ b) s0 = join_facts id b (join_facts id a s0).
  Proof. unfold join_facts. apply fold_left_app. Qed.

  Lemma apply_updated_pos cfg i recs : Forall (known_ns cfg) recs ->
    forall (rt : runtab) ph pat id,
      (forall rc, In rc recs -> s_id rc = id -> s_ph rc = ph /\ s_pat rc = pat) ->
      posr (run_at ph pat id (fst (apply_updated cfg true recs rt))) =
      join_facts id (ufacts i recs) (posr (run_at ph pat id rt)).
  Proof.
    induction 1 as [|rc rest [p [Hg Hs]] _ IH]; intros rt ph pat id Hc; [reflexivity|].
    destruct (apply_updated_cons cfg rc rest rt p Hg Hs) as [rt1 [Heq [Hpos _]]].
    rewrite Heq, IH by (intros; apply Hc; [now right|assumption]).
    simpl ufacts. rewrite join_facts_cons. simpl. rewrite Hpos. f_equal.
    destruct (Z.eqb_spec (s_id rc) id) as [He|Hne].
    - destruct (Hc rc (or_introl eq_refl) He) as [-> ->]. subst id. now rewrite !Z.eqb_refl.
    - destruct (Z.eqb_spec id (s_id rc)); [congruence|]. now rewrite andb_false_r.
  Qed.

  Lemma apply_updated_keeps cfg recs : Forall (known_ns cfg) recs ->
    Forall (fun rc => owner (s_id rc) = (s_ph rc, s_pat rc)) recs ->
    forall (rt : runtab), Inv E cfg rt -> owner_ok owner rt ->
      Inv E cfg (fst (apply_updated cfg true recs rt)) /\ owner_ok owner (fst (apply_updated cfg true recs rt)).
  Proof.
    induction 1 as [|rc rest [p [Hg Hs]] _ IH]; intros Hw rt Hi Ho; [split; assumption|].
    inversion Hw as [|? ? Hw1 Hw2]; subst.
    destruct (apply_updated_cons cfg rc rest rt p Hg Hs) as [rt1 [Heq [_ [Hinv Hown]]]].
    rewrite Heq. apply IH; auto.
  Qed.

  (* ---------- joins of the finished lists ---------- *)
  Lemma st_max_top_r a : st_max a Completed = Completed.
  Proof. unfold st_max. now rewrite completed_top. Qed.
  Lemma st_max_top_l a : st_max Completed a = Completed.
  Proof. unfold st_max. destruct a; reflexivity. Qed.
  Lemma st_max_idem_halted a : st_max (st_max a Halted) Halted = st_max a Halted.
  Proof. destruct a; reflexivity. Qed.

  Lemma join_top id fs : join_facts id fs Completed = Completed.
  Proof.
    induction fs as [|f fs IH]; [reflexivity|]. rewrite join_facts_cons.
    destruct (Z.eqb (snd (fst f)) id); [now rewrite st_max_top_l|exact IH].
  Qed.

  Lemma join_comp id i (l : list rserial) s0 :
    join_facts id (map (fun r => (i, s_id r, Completed)) l) s0 = if zmem id (ids_of l) then Completed else s0.
  Proof.
    revert s0. induction l as [|r l IH]; intro s0; [reflexivity|]. simpl map. rewrite join_facts_cons. simpl.
    unfold zmem, ids_of. simpl. rewrite (Z.eqb_sym id).
    destruct (Z.eqb (s_id r) id); simpl.
    - now rewrite st_max_top_r, join_top.
    - apply IH.
  Qed.

  Lemma join_halt id i (l : list rserial) s0 :
    join_facts id (map (fun r => (i, s_id r, Halted)) l) s0 = if zmem id (ids_of l) then st_max s0 Halted else s0.
  Proof.
    revert s0. induction l as [|r l IH]; intro s0; [reflexivity|]. simpl map. rewrite join_facts_cons. simpl.
    unfold zmem, ids_of. simpl. rewrite (Z.eqb_sym id).
    destruct (Z.eqb (s_id r) id); simpl.
    - rewrite IH. fold (zmem id (ids_of l)). destruct (zmem id (ids_of l)); [apply st_max_idem_halted|reflexivity].
    - apply IH.
  Qed.

  Lemma join_active_absorb id i (l : list rserial) s0 :
    s0 = Completed \/ s0 = Halted -> join_facts id (ufacts i l) s0 = s0.
  Proof.
    intro H. induction l as [|r l IH]; [reflexivity|]. simpl ufacts. rewrite join_facts_cons. simpl.
    destruct (Z.eqb (s_id r) id); [|exact IH].
    destruct H as [-> | ->]; exact IH.
  Qed.

  Lemma join_ufacts_filter id i (P : rserial -> bool) (l : list rserial) s0 :
    (forall r, s_id r = id -> P r = true) ->
    join_facts id (ufacts i (filter P l)) s0 = join_facts id (ufacts i l) s0.
  Proof.
    intro HP. revert s0. induction l as [|r l IH]; intro s0; [reflexivity|]. simpl filter.
    destruct (P r) eqn:Ep.
    - simpl ufacts. rewrite !join_facts_cons. apply IH.
    - simpl ufacts. rewrite join_facts_cons. simpl. destruct (Z.eqb_spec (s_id r) id) as [He|_]; [|apply IH].
      rewrite (HP r He) in Ep. discriminate.
  Qed.

  Lemma zmem_filter_ids id (P : Z -> bool) (l : list rserial) :
    zmem id (ids_of (filter (fun r => P (s_id r)) l)) = zmem id (ids_of l) && P id.
  Proof.
    unfold zmem, ids_of. induction l as [|r l IH]; [reflexivity|]. simpl.
    destruct (P (s_id r)) eqn:Ep; simpl; rewrite IH.
    - destruct (Z.eqb_spec id (s_id r)) as [->|]; simpl; [now rewrite Ep|reflexivity].
    - destruct (Z.eqb_spec id (s_id r)) as [->|]; simpl; [now rewrite Ep, andb_false_r|reflexivity].
  Qed.

  Lemma filter_length_le' {A} (f : A -> bool) (l : list A) : (length (filter f l) <= length l)%nat.
  Proof. induction l as [|a l IH]; simpl; [lia|]. destruct (f a); simpl; lia. Qed.

  Lemma Forall_filter {A} (P : A -> Prop) f (l : list A) : Forall P l -> Forall P (filter f l).
  Proof. induction 1; simpl; [constructor|]. destruct (f x); [constructor|]; auto. Qed.

  (* ---------- P2: a message is applied as a join ---------- *)
  Theorem remote_join cfg i (s s' : dstate) (m n : note) :
    (forall ph pat p, get_pattern cfg ph pat = Some p -> p_single p = false) ->
    c_maxcache cfg <> O -> room cfg s m -> wf_msg owner cfg m ->
    Inv E cfg (d_runs s) -> owner_ok owner (d_runs s) ->
    remote_apply cfg s m = (s', n) ->
    (forall id, cstatus owner s' id = join_facts id (mfacts i m) (cstatus owner s id)) /\
    Inv E cfg (d_runs s') /\ owner_ok owner (d_runs s').
  Proof.
    intros Hns Hcache [Hroomc Hroomh] [Hwc [Hwh Hwu]] Hinv Hown H.
    assert (Kn : forall l, Forall (wf_rec owner cfg) l -> Forall (known_ns cfg) l).
    { intros l Hl. eapply Forall_impl; [|exact Hl]. intros r [_ [p Hp]]. exists p. split; [exact Hp|]. eapply Hns; eauto. }
    assert (Ow : forall l, Forall (wf_rec owner cfg) l -> Forall (fun rc => owner (s_id rc) = (s_ph rc, s_pat rc)) l).
    { intros l Hl. eapply Forall_impl; [|exact Hl]. intros r [Hr _]. exact Hr. }
    unfold remote_apply, remote_apply_gen in H.
    set (m1 := filter_msg cfg s m) in *.
    assert (Hm1 : n_comp m1 = filter (fun r => negb (zmem (s_id r) (ids_of (d_cc s)))) (n_comp m) /\
                  n_halt m1 = filter (fun r => negb (zmem (s_id r) (ids_of (d_cc s))) && negb (zmem (s_id r) (ids_of (d_ch s))))
                                     (filter (fun r => negb (zmem (s_id r) (ids_of (n_comp m)))) (n_halt m)) /\
                  n_upd m1 = filter (fun r => negb (zmem (s_id r) (ids_of (d_cc s))) && negb (zmem (s_id r) (ids_of (d_ch s))))
                                    (filter (fun r => negb (zmem (s_id r) (ids_of (n_comp m))) && negb (zmem (s_id r) (ids_of (n_halt m)))) (n_upd m))).
    { unfold m1, filter_msg. destruct (c_maxcache cfg); [congruence|]. simpl. auto. }
    destruct Hm1 as [Hc1 [Hh1 Hu1]].
    assert (Wc1 : Forall (wf_rec owner cfg) (n_comp m1)) by (rewrite Hc1; now apply Forall_filter).
    assert (Wh1 : Forall (wf_rec owner cfg) (n_halt m1)) by (rewrite Hh1; now repeat apply Forall_filter).
    assert (Wu1 : Forall (wf_rec owner cfg) (n_upd m1)) by (rewrite Hu1; now repeat apply Forall_filter).
    rewrite (cache_push_room cfg (n_comp m1) (d_cc s)) in H
      by (rewrite Hc1; pose proof (filter_length_le' (fun r => negb (zmem (s_id r) (ids_of (d_cc s)))) (n_comp m)); lia).
    rewrite (cache_push_room cfg (n_halt m1) (d_ch s)) in H.
    2:{ rewrite Hh1. eapply Nat.le_trans; [|exact Hroomh]. apply Nat.add_le_mono_l.
        eapply Nat.le_trans; [apply filter_length_le'|apply filter_length_le']. }
    rewrite (apply_finished_ns cfg true _ (Kn _ Wc1)) in H.
    rewrite (apply_finished_ns cfg false _ (Kn _ Wh1)) in H.
    destruct (apply_updated cfg true (n_upd m1) (removes (n_halt m1) (removes (n_comp m1) (d_runs s)))) as [rt3 upd] eqn:E3.
    injection H as <- _.
    assert (Hrm : forall recs rt, Inv E cfg rt -> owner_ok owner rt -> Inv E cfg (removes recs rt) /\ owner_ok owner (removes recs rt)).
    { unfold removes. induction recs as [|rc rest IH]; intros rt Hi Ho; simpl; [split; assumption|].
      apply IH; [now apply Inv_remove|]. intros ph pat r. rewrite bucket_remove.
      destruct (same (s_ph rc) (s_pat rc) ph pat); [|apply Ho]. rewrite filter_In. intros [Hr _]. now apply Ho. }
    destruct (Hrm (n_comp m1) _ Hinv Hown) as [Hi1 Ho1].
    destruct (Hrm (n_halt m1) _ Hi1 Ho1) as [Hi2 Ho2].
    pose proof (apply_updated_keeps cfg (n_upd m1) (Kn _ Wu1) (Ow _ Wu1) _ Hi2 Ho2) as [Hi3 Ho3].
    rewrite E3 in Hi3, Ho3. simpl in Hi3, Ho3.
    split; [|split; [exact Hi3|exact Ho3]].
    intro id. unfold cstatus at 1. simpl.
    rewrite !ids_of_app, !zmem_app.
    unfold mfacts.
    change (map (fun r : rserial => (i, s_id r, Active (s_idx r) (hsize (s_hist r)))) (n_upd m)) with (ufacts i (n_upd m)).
    rewrite !join_facts_app, join_comp, join_halt.
    rewrite Hc1, Hh1.
    rewrite (zmem_filter_ids id (fun x => negb (zmem x (ids_of (d_cc s)))) (n_comp m)).
    rewrite (zmem_filter_ids id (fun x => negb (zmem x (ids_of (d_cc s))) && negb (zmem x (ids_of (d_ch s))))).
    rewrite (zmem_filter_ids id (fun x => negb (zmem x (ids_of (n_comp m)))) (n_halt m)).
    unfold cstatus.
    destruct (zmem id (ids_of (d_cc s))) eqn:Bcc; simpl.
    - (* remembered as completed *)
      destruct (zmem id (ids_of (n_comp m))), (zmem id (ids_of (n_halt m))); simpl;
        rewrite join_active_absorb by auto; reflexivity.
    - destruct (zmem id (ids_of (n_comp m))) eqn:Bc; simpl.
      + destruct (zmem id (ids_of (n_halt m))); simpl; rewrite join_active_absorb by auto; reflexivity.
      + destruct (zmem id (ids_of (d_ch s))) eqn:Bch; simpl.
        * destruct (zmem id (ids_of (n_halt m))); simpl; rewrite join_active_absorb by auto; reflexivity.
        * rewrite ?andb_true_r.
          destruct (zmem id (ids_of (n_halt m))) eqn:Bh; simpl.
          -- rewrite join_active_absorb; [|right; destruct (run_at _ _ id (d_runs s)); reflexivity].
             destruct (run_at _ _ id (d_runs s)); reflexivity.
          -- (* the run is touched by updated records only *)
             change (match run_at (fst (owner id)) (snd (owner id)) id rt3 with
                     | Some r => Active (r_idx r) (hsize (r_hist r)) | None => Absent end)
               with (posr (run_at (fst (owner id)) (snd (owner id)) id rt3)).
             change (match run_at (fst (owner id)) (snd (owner id)) id (d_runs s) with
                     | Some r => Active (r_idx r) (hsize (r_hist r)) | None => Absent end)
               with (posr (run_at (fst (owner id)) (snd (owner id)) id (d_runs s))).
             replace rt3 with (fst (apply_updated cfg true (n_upd m1) (removes (n_halt m1) (removes (n_comp m1) (d_runs s)))))
               by (now rewrite E3).
             rewrite (apply_updated_pos cfg i (n_upd m1) (Kn _ Wu1)).
             2:{ intros rc Hrc Hid. rewrite Forall_forall in Wu1. destruct (Wu1 rc Hrc) as [Hw _].
                 rewrite <- Hid, Hw. auto. }
             rewrite !run_at_removes.
             ++ rewrite Hu1. rewrite !join_ufacts_filter; [reflexivity| |].
                ** intros r Hr. rewrite Hr, Bc, Bh. reflexivity.
                ** intros r Hr. rewrite Hr, Bcc, Bch. reflexivity.
             ++ rewrite Hc1. intro Hin. apply zmem_in in Hin.
                rewrite (zmem_filter_ids id (fun x => negb (zmem x (ids_of (d_cc s)))) (n_comp m)), Bc in Hin. discriminate.
             ++ rewrite Hh1. intro Hin. apply zmem_in in Hin.
                rewrite (zmem_filter_ids id (fun x => negb (zmem x (ids_of (d_cc s))) && negb (zmem x (ids_of (d_ch s))))) in Hin.
                rewrite (zmem_filter_ids id (fun x => negb (zmem x (ids_of (n_comp m)))) (n_halt m)), Bh in Hin. discriminate.
  Qed.
End Join.
