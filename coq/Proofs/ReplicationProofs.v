(* Proofs about Model/Replication.v: the small-step, interleaved model of one BoboDistributedTCP instance.
   C06: knowledge_inv (repaired order), lost_note_refuted (pinned order), resync_before_incremental.
   C07: reset_answered (race-free schedules), flag_kept, first_resync, reset_race_refuted. *)
From Bobo Require Import Base.Prelude Model.Outgoing Model.Replication Proofs.OutgoingProofs.

(* ------------------------------------------------------------------ lists *)
Lemma set_nth_out {A} (l : list A) k x : nth_error l k = None -> set_nth k x l = l.
Proof.
  revert k; induction l as [|y l IH]; intros [|k] H; simpl in *; try reflexivity; try discriminate.
  rewrite IH by exact H. reflexivity.
Qed.

Lemma nth_error_set_nth {A} (l : list A) k x j :
  nth_error (set_nth k x l) j =
  if Nat.eqb j k then match nth_error l k with Some _ => Some x | None => None end else nth_error l j.
Proof.
  destruct (Nat.eqb_spec j k) as [->|Hne].
  - destruct (nth_error l k) as [y|] eqn:E.
    + eapply nth_error_set_nth_eq; eauto.
    + rewrite set_nth_out by exact E. exact E.
  - apply nth_error_set_nth_neq. congruence.
Qed.

Lemma nth_error_upd_peer ps k f j :
  nth_error (upd_peer k f ps) j = if Nat.eqb j k then option_map f (nth_error ps k) else nth_error ps j.
Proof.
  unfold upd_peer. destruct (nth_error ps k) as [p|] eqn:E.
  - rewrite nth_error_set_nth, E. reflexivity.
  - destruct (Nat.eqb_spec j k) as [->|]; [rewrite E|]; reflexivity.
Qed.

Lemma nth_error_lt {A} (l : list A) j x : nth_error l j = Some x -> (j < length l)%nat.
Proof. intro H. apply nth_error_Some. congruence. Qed.

Lemma nth_error_snoc {A} (l : list A) x idx y :
  nth_error (l ++ [x]) idx = Some y -> nth_error l idx = Some y \/ (idx = length l /\ y = x).
Proof.
  intro H. destruct (Nat.lt_ge_cases idx (length l)) as [Hlt|Hge].
  - left. rewrite nth_error_app1 in H by exact Hlt. exact H.
  - right. rewrite nth_error_app2 in H by exact Hge.
    destruct (idx - length l)%nat as [|d] eqn:Ed; simpl in H.
    + inversion H. split; [lia | reflexivity].
    + destruct d; discriminate.
Qed.

(* ------------------------------------------------------------------ notes *)
Lemma note_in_app_l n m : note_in n (note_app n m).
Proof. unfold note_in, note_app; simpl. repeat split; apply incl_appl, incl_refl. Qed.

Lemma note_in_app_r n c m : note_in n m -> note_in n (note_app c m).
Proof. unfold note_in, note_app; simpl. intros (A & B & C). repeat split; apply incl_appr; assumption. Qed.

Lemma note_in_app_left n c m : note_in n c -> note_in n (note_app c m).
Proof. unfold note_in, note_app; simpl. intros (A & B & C). repeat split; apply incl_appl; assumption. Qed.

Lemma stash_append cn p : stash (append_stash cn p) = note_app (stash p) cn.
Proof. reflexivity. Qed.

(* ------------------------------------------------------------------ the strengthened invariant (C06) *)
Section Know.
Variable c : tcfg.

Definition ol_inc (ol : list (nat * mode)) (j : nat) : Prop := exists m, In (j, m) ol /\ m <> RESYNC.

(* peer j is bound, in the current iteration, to a message after whose delivery last_comms is written although
   the peer may (by now) be in the resync period: an incremental message, or a RESYNC that has been delivered *)
Definition committed (g : gstate) (j : nat) : Prop :=
  match g_pc g with
  | PRdLa k lcv | PRdQe k lcv _ =>
      (k = j /\ reached (cv_pr c) (g_now g - lcv) (p_resync c) = false) \/ ol_inc (g_ol g) j
  | PSend k m _ _ _ => (k = j /\ m <> RESYNC) \/ ol_inc (g_ol g) j
  | PWrLc k _ _ => k = j \/ ol_inc (g_ol g) j
  | _ => ol_inc (g_ol g) j
  end.

(* peer j is bound to a RESYNC that has not been sent yet *)
Definition res_bound (g : gstate) (j : nat) : Prop :=
  match g_pc g with
  | PRdLa k lcv | PRdQe k lcv _ =>
      (k = j /\ reached (cv_pr c) (g_now g - lcv) (p_resync c) = true) \/ In (j, RESYNC) (g_ol g)
  | PSend k m _ _ _ => (k = j /\ m = RESYNC) \/ In (j, RESYNC) (g_ol g)
  | _ => In (j, RESYNC) (g_ol g)
  end.

Definition strong (g : gstate) (j : nat) (p : peer) (idx : nat) (n : note) : Prop :=
  delivered_to g j idx n \/ In n (g_queue g) \/ note_in n (stash p) \/ in_flight g j n.

Definition PK (g : gstate) (j : nat) (p : peer) : Prop :=
  (forall idx n, nth_error (g_emitted g) idx = Some n -> strong g j p idx n \/ in_resync_period c g p) /\
  (committed g j -> forall idx n, nth_error (g_emitted g) idx = Some n -> strong g j p idx n) /\
  (res_bound g j -> in_resync_period c g p).

Definition dec_phase (p : pc) : option nat :=
  match p with PRdLc k | PRdLa k _ | PRdQe k _ _ => Some k | _ => None end.
Definition target (p : pc) : option nat :=
  match p with PSend k _ _ _ _ | PWrLc k _ _ | PWrLa k _ => Some k | _ => None end.

Record SInv (g : gstate) : Prop := mkSInv {
  si_lc : forall j p, nth_error (g_peers g) j = Some p -> 0 <= lc p;
  si_clock : forall k, dec_phase (g_pc g) = Some k -> g_clock g = g_now g;
  si_qe : g_qe g = match g_cache g with None => true | Some _ => false end;
  si_nodup : NoDup (map fst (g_ol g));
  si_dec : forall k j, dec_phase (g_pc g) = Some k -> In j (map fst (g_ol g)) -> (j < k)%nat;
  si_tgt : forall k, target (g_pc g) = Some k -> ~ In k (map fst (g_ol g));
  si_noqe : match g_pc g with PRdQe _ _ _ => False | _ => True end;
  si_send : forall k m fl pay seen, g_pc g = PSend k m fl pay seen ->
      (forall idx n, (seen <= idx)%nat -> nth_error (g_emitted g) idx = Some n -> In n (g_queue g)) /\
      (m = SYNC -> forall p, nth_error (g_peers g) k = Some p ->
                  pay = note_app (cache_note (g_cache g)) (stash p)) }.

Definition KInv (g : gstate) : Prop :=
  SInv g /\ forall j p, nth_error (g_peers g) j = Some p -> PK g j p.

Lemma delivered_mono (g g' : gstate) j idx n :
  (forall e, In e (g_log g) -> In e (g_log g')) -> delivered_to g j idx n -> delivered_to g' j idx n.
Proof. intros H [e [Hin Hc]]. exists e. split; [apply H; exact Hin | exact Hc]. Qed.

(* the frame: what is needed of a step for PK of peer j to carry over *)
Lemma PK_frame (g g' : gstate) j p p' :
  (forall idx n, nth_error (g_emitted g') idx = Some n ->
                 nth_error (g_emitted g) idx = Some n \/ In n (g_queue g')) ->
  (forall e, In e (g_log g) -> In e (g_log g')) ->
  (forall n, In n (g_queue g) -> In n (g_queue g') \/ in_flight g' j n) ->
  (forall n, note_in n (stash p) -> note_in n (stash p')) ->
  (forall n, in_flight g j n -> in_flight g' j n) ->
  g_clock g - lc p <= g_clock g' - lc p' ->
  (committed g' j -> committed g j) ->
  (res_bound g' j -> res_bound g j) ->
  PK g j p -> PK g' j p'.
Proof.
  intros Hem Hlog Hq Hst Hfl Hclk Hcom Hres (K1 & K2 & K3).
  assert (HR : in_resync_period c g p -> in_resync_period c g' p').
  { unfold in_resync_period. intro H. eapply reached_mono; eauto. }
  assert (HS : forall idx n, strong g j p idx n -> strong g' j p' idx n).
  { intros idx n [H|[H|[H|H]]].
    - left. eapply delivered_mono; eauto.
    - destruct (Hq n H) as [H'|H']; [right; left; exact H' | right; right; right; exact H'].
    - right; right; left. apply Hst. exact H.
    - right; right; right. apply Hfl. exact H. }
  split; [|split].
  - intros idx n Hn. destruct (Hem idx n Hn) as [Ho|Hin].
    + destruct (K1 idx n Ho) as [H|H]; [left; apply HS; exact H | right; apply HR; exact H].
    + left. right. left. exact Hin.
  - intros Hc idx n Hn. destruct (Hem idx n Hn) as [Ho|Hin].
    + apply HS. apply K2; [apply Hcom; exact Hc | exact Ho].
    + right. left. exact Hin.
  - intro Hr. apply HR. apply K3. apply Hres. exact Hr.
Qed.

End Know.
