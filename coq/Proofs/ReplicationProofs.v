(* Proofs about Model/Replication.v: the small-step, interleaved model of one BoboDistributedTCP instance.
   C06: knowledge_inv (repaired order), lost_note_refuted (pinned order), resync_before_incremental.
   C07: reset_answered (race-free schedules), flag_kept, first_resync, reset_race_refuted. *)
From Bobo Require Import Base.Prelude Model.Outgoing Model.Replication Proofs.OutgoingProofs.

(* ------------------------------------------------------------------ lists *)
Lemma set_nth_out {A} (l : list A) k x : nth_error l k = None -> set_nth k x l = l.
Proof.
  revert k; induction l as [|y l IH]; intros [|k] H; simpl in *; try reflexivity; try discriminate.
  rewrite IH by exact H. reflexivity.
Qed.

Lemma nth_error_set_nth {A} (l : list A) k x j :
  nth_error (set_nth k x l) j =
  if Nat.eqb j k then match nth_error l k with Some _ => Some x | None => None end else nth_error l j.
Proof.
  destruct (Nat.eqb_spec j k) as [->|Hne].
  - destruct (nth_error l k) as [y|] eqn:E.
    + eapply nth_error_set_nth_eq; eauto.
    + rewrite set_nth_out by exact E. exact E.
  - apply nth_error_set_nth_neq. congruence.
Qed.

Lemma nth_error_upd_peer ps k f j :
  nth_error (upd_peer k f ps) j = if Nat.eqb j k then option_map f (nth_error ps k) else nth_error ps j.
Proof.
  unfold upd_peer. destruct (nth_error ps k) as [p|] eqn:E.
  - rewrite nth_error_set_nth, E. reflexivity.
  - destruct (Nat.eqb_spec j k) as [->|]; [rewrite E|]; reflexivity.
Qed.

Lemma nth_error_lt {A} (l : list A) j x : nth_error l j = Some x -> (j < length l)%nat.
Proof. intro H. apply nth_error_Some. congruence. Qed.

Lemma nth_error_snoc {A} (l : list A) x idx y :
  nth_error (l ++ [x]) idx = Some y -> nth_error l idx = Some y \/ (idx = length l /\ y = x).
Proof.
  intro H. destruct (Nat.lt_ge_cases idx (length l)) as [Hlt|Hge].
  - left. rewrite nth_error_app1 in H by exact Hlt. exact H.
  - right. rewrite nth_error_app2 in H by exact Hge.
    destruct (idx - length l)%nat as [|d] eqn:Ed; simpl in H.
    + inversion H. split; [lia | reflexivity].
    + destruct d; discriminate.
Qed.

(* ------------------------------------------------------------------ notes *)
Lemma note_in_app_l n m : note_in n (note_app n m).
Proof. unfold note_in, note_app; simpl. repeat split; apply incl_appl, incl_refl. Qed.

Lemma note_in_app_r n c m : note_in n m -> note_in n (note_app c m).
Proof. unfold note_in, note_app; simpl. intros (A & B & C). repeat split; apply incl_appr; assumption. Qed.

Lemma note_in_app_left n c m : note_in n c -> note_in n (note_app c m).
Proof. unfold note_in, note_app; simpl. intros (A & B & C). repeat split; apply incl_appl; assumption. Qed.

Lemma stash_append cn p : stash (append_stash cn p) = note_app (stash p) cn.
Proof. reflexivity. Qed.

(* ------------------------------------------------------------------ the strengthened invariant (C06) *)
Section Know.
Variable c : tcfg.

Definition ol_inc (ol : list (nat * mode)) (j : nat) : Prop := exists m, In (j, m) ol /\ m <> RESYNC.

(* peer j is bound, in the current iteration, to a message after whose delivery last_comms is written although
   the peer may (by now) be in the resync period: an incremental message, or a RESYNC that has been delivered *)
Definition committed (g : gstate) (j : nat) : Prop :=
  match g_pc g with
  | PRdLa k lcv | PRdQe k lcv _ =>
      (k = j /\ reached (cv_pr c) (g_now g - lcv) (p_resync c) = false) \/ ol_inc (g_ol g) j
  | PSend k m _ _ _ => (k = j /\ m <> RESYNC) \/ ol_inc (g_ol g) j
  | PWrLc k _ _ => k = j \/ ol_inc (g_ol g) j
  | _ => ol_inc (g_ol g) j
  end.

(* peer j is bound to a RESYNC that has not been sent yet *)
Definition res_bound (g : gstate) (j : nat) : Prop :=
  match g_pc g with
  | PRdLa k lcv | PRdQe k lcv _ =>
      (k = j /\ reached (cv_pr c) (g_now g - lcv) (p_resync c) = true) \/ In (j, RESYNC) (g_ol g)
  | PSend k m _ _ _ => (k = j /\ m = RESYNC) \/ In (j, RESYNC) (g_ol g)
  | _ => In (j, RESYNC) (g_ol g)
  end.

Definition strong (g : gstate) (j : nat) (p : peer) (idx : nat) (n : note) : Prop :=
  delivered_to g j idx n \/ In n (g_queue g) \/ note_in n (stash p) \/ in_flight g j n.

Definition PK (g : gstate) (j : nat) (p : peer) : Prop :=
  (forall idx n, nth_error (g_emitted g) idx = Some n -> strong g j p idx n \/ in_resync_period c g p) /\
  (committed g j -> forall idx n, nth_error (g_emitted g) idx = Some n -> strong g j p idx n) /\
  (res_bound g j -> in_resync_period c g p).

Definition dec_phase (p : pc) : option nat :=
  match p with PRdLc k | PRdLa k _ | PRdQe k _ _ => Some k | _ => None end.
Definition target (p : pc) : option nat :=
  match p with PSend k _ _ _ _ | PWrLc k _ _ | PWrLa k _ => Some k | _ => None end.

Record SInv (g : gstate) : Prop := mkSInv {
  si_lc : forall j p, nth_error (g_peers g) j = Some p -> 0 <= lc p;
  si_clock : forall k, dec_phase (g_pc g) = Some k -> g_clock g = g_now g;
  si_qe : g_qe g = match g_cache g with None => true | Some _ => false end;
  si_nodup : NoDup (map fst (g_ol g));
  si_dec : forall k j, dec_phase (g_pc g) = Some k -> In j (map fst (g_ol g)) -> (j < k)%nat;
  si_tgt : forall k, target (g_pc g) = Some k -> ~ In k (map fst (g_ol g));
  si_noqe : match g_pc g with PRdQe _ _ _ => False | _ => True end;
  si_send : forall k m fl pay seen, g_pc g = PSend k m fl pay seen ->
      (forall idx n, (seen <= idx)%nat -> nth_error (g_emitted g) idx = Some n -> In n (g_queue g)) /\
      (m = SYNC -> forall p, nth_error (g_peers g) k = Some p ->
                  pay = note_app (cache_note (g_cache g)) (stash p)) }.

Definition KInv (g : gstate) : Prop :=
  SInv g /\ forall j p, nth_error (g_peers g) j = Some p -> PK g j p.

Lemma delivered_mono (g g' : gstate) j idx n :
  (forall e, In e (g_log g) -> In e (g_log g')) -> delivered_to g j idx n -> delivered_to g' j idx n.
Proof. intros H [e [Hin Hc]]. exists e. split; [apply H; exact Hin | exact Hc]. Qed.

(* the frame: what is needed of a step for PK of peer j to carry over *)
Lemma PK_frame (g g' : gstate) j p p' :
  (forall idx n, nth_error (g_emitted g') idx = Some n ->
                 nth_error (g_emitted g) idx = Some n \/ In n (g_queue g')) ->
  (forall e, In e (g_log g) -> In e (g_log g')) ->
  (forall n, In n (g_queue g) -> In n (g_queue g') \/ in_flight g' j n) ->
  (forall n, note_in n (stash p) -> note_in n (stash p')) ->
  (forall n, in_flight g j n -> in_flight g' j n) ->
  g_clock g - lc p <= g_clock g' - lc p' ->
  (committed g' j -> committed g j) ->
  (res_bound g' j -> res_bound g j) ->
  PK g j p -> PK g' j p'.
Proof.
  intros Hem Hlog Hq Hst Hfl Hclk Hcom Hres (K1 & K2 & K3).
  assert (HR : in_resync_period c g p -> in_resync_period c g' p').
  { unfold in_resync_period. intro H. eapply reached_mono; eauto. }
  assert (HS : forall idx n, strong g j p idx n -> strong g' j p' idx n).
  { intros idx n [H|[H|[H|H]]].
    - left. eapply delivered_mono; eauto.
    - destruct (Hq n H) as [H'|H']; [right; left; exact H' | right; right; right; exact H'].
    - right; right; left. apply Hst. exact H.
    - right; right; right. apply Hfl. exact H. }
  split; [|split].
  - intros idx n Hn. destruct (Hem idx n Hn) as [Ho|Hin].
    + destruct (K1 idx n Ho) as [H|H]; [left; apply HS; exact H | right; apply HR; exact H].
    + left. right. left. exact Hin.
  - intros Hc idx n Hn. destruct (Hem idx n Hn) as [Ho|Hin].
    + apply HS. apply K2; [apply Hcom; exact Hc | exact Ho].
    + right. left. exact Hin.
  - intro Hr. apply HR. apply K3. apply Hres. exact Hr.
Qed.

End Know.

(* ------------------------------------------------------------------ every step preserves the invariant *)
Lemma KInv_enq fixed c g n : KInv c g -> KInv c (mstep fixed c g (XEnq n)).
Proof.
  intros [S K]. split.
  - destruct S as [Slc Sclk Sqe Snd Sdec Stgt Snoqe Ssend]. constructor; simpl; auto.
    intros k m fl pay seen Hpc. destruct (Ssend k m fl pay seen Hpc) as [A B]. split; [|exact B].
    intros idx n0 Hle Hn. apply in_or_app. apply nth_error_snoc in Hn. destruct Hn as [Hn|[_ ->]].
    + left. eapply A; eauto.
    + right. left. reflexivity.
  - intros j p Hp. simpl in Hp. specialize (K j p Hp).
    eapply PK_frame; [| | | | | | | |exact K]; simpl.
    + intros idx n0 Hn. apply nth_error_snoc in Hn. destruct Hn as [Hn|[_ ->]]; [left; exact Hn|].
      right. apply in_or_app. right. left. reflexivity.
    + auto.
    + intros n0 Hin. left. apply in_or_app. left. exact Hin.
    + auto.
    + intros n0 H. exact H.
    + lia.
    + intro H. exact H.
    + intro H. exact H.
Qed.

Lemma KInv_peer_upd c g k f extra :
  (forall p, 0 <= lc p -> 0 <= lc (f p) /\ lc (f p) <= lc p /\ stash (f p) = stash p) ->
  KInv c g ->
  KInv c (mkG (upd_peer k f (g_peers g)) (g_queue g) (g_pc g) (g_now g) (g_ol g) (g_cache g) (g_qe g)
              (g_clock g) (g_emitted g) (extra ++ g_log g)).
Proof.
  intros Hf [S K]. destruct S as [Slc Sclk Sqe Snd Sdec Stgt Snoqe Ssend].
  assert (Hold : forall j p', nth_error (upd_peer k f (g_peers g)) j = Some p' ->
            exists p, nth_error (g_peers g) j = Some p /\ 0 <= lc p' /\ lc p' <= lc p /\ stash p' = stash p).
  { intros j p' H. rewrite nth_error_upd_peer in H. destruct (Nat.eqb_spec j k) as [->|Hne].
    - destruct (nth_error (g_peers g) k) as [p|] eqn:E; simpl in H; [|discriminate]. inversion H; subst p'.
      exists p. split; [reflexivity|]. apply Hf. eapply Slc; eauto.
    - exists p'. split; [exact H|]. split; [eapply Slc; eauto|]. split; [lia | reflexivity]. }
  split.
  - constructor; simpl; auto.
    + intros j p' H. destruct (Hold j p' H) as (p & _ & H0 & _). exact H0.
    + intros k0 m fl pay seen Hpc. destruct (Ssend k0 m fl pay seen Hpc) as [A B]. split; [exact A|].
      intros Hm p' Hp'. destruct (Hold k0 p' Hp') as (p & Hp & _ & _ & Hst). rewrite Hst. apply B; assumption.
  - intros j p' Hp'. simpl in Hp'. destruct (Hold j p' Hp') as (p & Hp & _ & Hle & Hst).
    specialize (K j p Hp).
    eapply PK_frame; [| | | | | | | |exact K]; simpl.
    + intros idx n Hn. left. exact Hn.
    + intros e He. apply in_or_app. right. exact He.
    + intros n Hin. left. exact Hin.
    + intros n Hn. rewrite Hst. exact Hn.
    + intros n H. exact H.
    + lia.
    + intro H. exact H.
    + intro H. exact H.
Qed.

Lemma KInv_addr fixed c g from caddr : KInv c g -> KInv c (mstep fixed c g (XAddr from caddr)).
Proof.
  intro H. simpl. apply (KInv_peer_upd c g from _ []); [|exact H].
  intros p Hp. destruct (caddr =? addr p); simpl; repeat split; auto; lia.
Qed.

Lemma KInv_reset fixed c g from : KInv c g -> KInv c (mstep fixed c g (XReset from)).
Proof.
  intro H. simpl. destruct (nth_error (g_peers g) from) as [p|] eqn:E; [|exact H].
  pose proof (KInv_peer_upd c g from clear_last [HReset from]) as L. unfold upd_peer in L. rewrite E in L.
  apply L; [|exact H]. intros q Hq. simpl. repeat split; auto; lia.
Qed.

Lemma next_dec_dec n k j : dec_phase (next_dec n k) = Some j -> j = k /\ (k < n)%nat.
Proof. unfold next_dec. destruct (Nat.ltb_spec k n) as [Hlt|Hge]; simpl; intro H; inversion H; subst; auto. Qed.

Lemma next_dec_target n k : target (next_dec n k) = None.
Proof. unfold next_dec. destruct (k <? n)%nat; reflexivity. Qed.

Lemma KInv_start c g t snap outc :
  KInv c g -> g_pc g = PIdle -> g_clock g <= t -> KInv c (ostep true c g t snap outc).
Proof.
  intros [S K] Hpc Hclk. destruct S as [Slc Sclk Sqe Snd Sdec Stgt Snoqe Ssend].
  unfold ostep. rewrite Hpc.
  set (cq := match g_queue g with n :: q' => (Some n, false, q') | [] => (None, true, []) end).
  assert (Hcq : cq = match g_queue g with n :: q' => (Some n, false, q') | [] => (None, true, []) end) by reflexivity.
  destruct cq as [[cache qe] q]. 
  split.
  - constructor; simpl.
    + exact Slc.
    + intros k Hk. reflexivity.
    + destruct (g_queue g); inversion Hcq; reflexivity.
    + constructor.
    + intros k j _ [].
    + intros k Hk. rewrite next_dec_target in Hk. discriminate.
    + unfold next_dec. destruct (0 <? length (g_peers g))%nat; exact I.
    + intros k m fl pay seen H. unfold next_dec in H. destruct (0 <? length (g_peers g))%nat; discriminate.
  - intros j p Hp. simpl in Hp. specialize (K j p Hp).
    eapply PK_frame; [| | | | | | | |exact K]; simpl.
    + intros idx n Hn. left. exact Hn.
    + auto.
    + intros n Hin. destruct (g_queue g) as [|h q0]; [contradiction|]. inversion Hcq; subst.
      destruct Hin as [->|Hin]; [|left; exact Hin].
      right. unfold in_flight. simpl. split; [reflexivity|].
      apply nth_error_lt in Hp. unfold next_dec. destruct (Nat.ltb_spec 0 (length (g_peers g))); [|lia].
      left. lia.
    + auto.
    + intros n H. unfold in_flight in H. rewrite Hpc in H. tauto.
    + lia.
    + unfold committed. simpl. unfold next_dec. destruct (0 <? length (g_peers g))%nat; simpl;
        intros [m [[] _]].
    + unfold res_bound. simpl. unfold next_dec. destruct (0 <? length (g_peers g))%nat; simpl; intros [].
Qed.

(* a step that only moves the program counter to PPrep / PIdle-like states with nothing bound *)
Lemma KInv_rdlc c g k t snap outc :
  KInv c g -> g_pc g = PRdLc k -> KInv c (ostep true c g t snap outc).
Proof.
  intros [S K] Hpc. destruct S as [Slc Sclk Sqe Snd Sdec Stgt Snoqe Ssend].
  unfold ostep. rewrite Hpc. rewrite Hpc in *. 
  destruct (nth_error (g_peers g) k) as [pk|] eqn:Ek.
  - split.
    + constructor; simpl.
      * exact Slc.
      * intros k0 H. apply (Sclk k). reflexivity.
      * exact Sqe.
      * exact Snd.
      * intros k0 j H. inversion H; subst. apply Sdec. reflexivity.
      * discriminate.
      * exact I.
      * discriminate.
    + intros j p Hp. simpl in Hp. destruct (K j p Hp) as (K1 & K2 & K3).
      assert (Hclk : g_clock g = g_now g) by (apply (Sclk k); reflexivity).
      assert (HS : forall idx n, strong g j p idx n ->
                strong (set_pc g (PRdLa k (lc pk))) j p idx n).
      { intros idx n [H|[H|[H|H]]]; [left; exact H | right; left; exact H | right; right; left; exact H|].
        right; right; right. unfold in_flight in *. rewrite Hpc in H. simpl. exact H. }
      split; [|split].
      * intros idx n Hn. destruct (K1 idx n Hn) as [H|H]; [left; apply HS; exact H | right; exact H].
      * unfold committed. simpl. intros [[-> Hr]|Hc] idx n Hn.
        -- rewrite Hp in Ek. inversion Ek; subst pk.
           destruct (K1 idx n Hn) as [H|H]; [apply HS; exact H|].
           unfold in_resync_period in H. rewrite Hclk in H. congruence.
        -- apply HS. apply K2; [|exact Hn]. unfold committed. rewrite Hpc. exact Hc.
      * unfold res_bound. simpl. intros [[-> Hr]|Hc].
        -- rewrite Hp in Ek. inversion Ek; subst pk. unfold in_resync_period. simpl. rewrite Hclk. exact Hr.
        -- apply K3. unfold res_bound. rewrite Hpc. exact Hc.
  - split.
    + constructor; simpl.
      * exact Slc.
      * discriminate.
      * exact Sqe.
      * exact Snd.
      * discriminate.
      * discriminate.
      * exact I.
      * discriminate.
    + intros j p Hp. simpl in Hp. specialize (K j p Hp).
      eapply PK_frame; [| | | | | | | |exact K]; simpl; auto; try lia.
      * intros n H. unfold in_flight in *. rewrite Hpc in H. simpl. destruct H as [Hc [Hle|Hin]]; [|auto].
        exfalso. apply nth_error_lt in Hp. apply nth_error_None in Ek. lia.
      * unfold committed. rewrite Hpc. simpl. auto.
      * unfold res_bound. rewrite Hpc. simpl. auto.
Qed.

Lemma decide_reads_resync c now qe lcv lav p :
  reached (cv_pr c) (now - lcv) (p_resync c) = true ->
  decide c now qe (with_reads lcv lav p) = Some RESYNC \/ decide c now qe (with_reads lcv lav p) = None.
Proof.
  intro H. unfold decide. simpl. rewrite H. destruct (reached (cv_ar c) (now - lav) (a_resync c)); auto.
Qed.

Lemma decide_reads_sync c now lcv lav p :
  reached (cv_pr c) (now - lcv) (p_resync c) = false ->
  decide c now false (with_reads lcv lav p) = Some SYNC.
Proof.
  intro H. unfold decide. simpl. rewrite H. rewrite Bool.andb_false_r. reflexivity.
Qed.

Lemma decide_reads_resync_inv c now qe lcv lav p :
  decide c now qe (with_reads lcv lav p) = Some RESYNC -> reached (cv_pr c) (now - lcv) (p_resync c) = true.
Proof. intro H. apply decide_resync_inv in H. simpl in H. tauto. Qed.

Lemma NoDup_snoc1 {A} (l : list A) x : NoDup l -> ~ In x l -> NoDup (l ++ [x]).
Proof.
  induction l as [|y l IH]; simpl; intros Hn Hx; [constructor; [intros []|constructor]|].
  inversion Hn as [|? ? Hy Hn']; subst. constructor.
  - rewrite in_app_iff. intros [H|[H|[]]]; [contradiction|]. subst. apply Hx. now left.
  - apply IH; [exact Hn'|]. intro H. apply Hx. now right.
Qed.

Lemma in_flight_dec_next g g' j n k nn :
  g_cache g' = g_cache g -> g_pc g' = next_dec nn (S k) ->
  (j < nn)%nat -> j <> k ->
  (forall x, In x (g_ol g) -> In x (g_ol g')) ->
  g_cache g = Some n /\ ((k <= j)%nat \/ In (j, SYNC) (g_ol g)) -> in_flight g' j n.
Proof.
  intros Hc Hpc Hj Hne Hol [H1 H2]. unfold in_flight. rewrite Hc, Hpc. split; [exact H1|].
  unfold next_dec. destruct (Nat.ltb_spec (S k) nn).
  - destruct H2 as [H2|H2]; [left; lia | right; apply Hol; exact H2].
  - destruct H2 as [H2|H2]; [lia | apply Hol; exact H2].
Qed.

Lemma KInv_decided c g k lcv lav :
  KInv c g -> g_pc g = PRdLa k lcv -> KInv c (decided c g k lcv lav (g_qe g)).
Proof.
  intros [S K] Hpc. pose proof S as S0. destruct S as [Slc Sclk Sqe Snd Sdec Stgt Snoqe Ssend].
  unfold decided. destruct (nth_error (g_peers g) k) as [pk|] eqn:Ek.
  2:{ split.
      - constructor; simpl; try assumption; try discriminate. exact I.
      - intros j p Hp. simpl in Hp. specialize (K j p Hp).
        eapply PK_frame; [| | | | | | | |exact K]; simpl; auto; try lia.
        + intros n H. unfold in_flight in *. rewrite Hpc in H. simpl. destruct H as [Hc [Hle|Hin]]; [|auto].
          exfalso. apply nth_error_lt in Hp. apply nth_error_None in Ek. lia.
        + unfold committed. rewrite Hpc. simpl. auto.
        + unfold res_bound. rewrite Hpc. simpl. auto. }
  set (d := decide c (g_now g) (g_qe g) (with_reads lcv lav pk)).
  set (ol' := match d with Some m => g_ol g ++ [(k, m)] | None => g_ol g end).
  assert (Hkk : forall j, In j (map fst (g_ol g)) -> (j < k)%nat) by (intro j; apply Sdec; rewrite Hpc; reflexivity).
  assert (Hknot : ~ In k (map fst (g_ol g))) by (intro H; apply Hkk in H; lia).
  assert (Hol : forall x, In x (g_ol g) -> In x ol').
  { intros x Hx. unfold ol'. destruct d; [apply in_or_app; left|]; exact Hx. }
  assert (Hol' : forall j m, In (j, m) ol' -> In (j, m) (g_ol g) \/ (j = k /\ d = Some m)).
  { intros j m H. unfold ol' in H. destruct d as [m0|]; [|left; exact H].
    apply in_app_or in H. destruct H as [H|[H|[]]]; [left; exact H|]. inversion H; subst. right. auto. }
  assert (Hclk : g_clock g = g_now g) by (apply (Sclk k); rewrite Hpc; reflexivity).
  split.
  - constructor; simpl; try assumption.
    + intros k0 H. exact Hclk.
    + fold d. fold ol'. unfold ol'. destruct d; [|exact Snd]. rewrite map_app. simpl. apply NoDup_snoc1; assumption.
    + intros k0 j H Hin. apply next_dec_dec in H. destruct H as [-> _]. fold d in Hin. fold ol' in Hin.
      apply in_map_iff in Hin. destruct Hin as [[j0 m0] [Hj Hin]]. simpl in Hj. subst j0.
      destruct (Hol' j m0 Hin) as [H|[-> _]]; [|lia].
      assert (j < k)%nat; [|lia]. apply Hkk. apply in_map_iff. exists (j, m0). auto.
    + intros k0 H. rewrite next_dec_target in H. discriminate.
    + unfold next_dec. destruct (S k <? length (g_peers g))%nat; exact I.
    + intros k0 m fl pay seen H. unfold next_dec in H. destruct (S k <? length (g_peers g))%nat; discriminate.
  - intros j p Hp. simpl in Hp. fold d. fold ol'.
    destruct (K j p Hp) as (K1 & K2 & K3).
    set (g' := mkG (g_peers g) (g_queue g) (next_dec (length (g_peers g)) (S k)) (g_now g) ol' (g_cache g) (g_qe g)
                   (g_clock g) (g_emitted g) (g_log g)).
    assert (Hcomm' : committed c g' j -> ol_inc ol' j).
    { unfold committed, g'. simpl. unfold next_dec. destruct (S k <? length (g_peers g))%nat; simpl; auto. }
    assert (Hres' : res_bound c g' j -> In (j, RESYNC) ol').
    { unfold res_bound, g'. simpl. unfold next_dec. destruct (S k <? length (g_peers g))%nat; simpl; auto. }
    destruct (Nat.eq_dec j k) as [->|Hne].
    + (* the peer just decided *)
      rewrite Hp in Ek. inversion Ek; subst pk. clear Ek.
      destruct (reached (cv_pr c) (g_now g - lcv) (p_resync c)) eqn:Er.
      * assert (HR : in_resync_period c g p).
        { apply K3. unfold res_bound. rewrite Hpc. left. auto. }
        assert (Hd : d = Some RESYNC \/ d = None) by (apply decide_reads_resync; exact Er).
        split; [|split].
        -- intros idx n Hn. right. exact HR.
        -- intro Hc. apply Hcomm' in Hc. destruct Hc as [m [Hin Hm]].
           destruct (Hol' k m Hin) as [H|[_ H]].
           ++ exfalso. apply Hknot. apply in_map_iff. exists (k, m). auto.
           ++ destruct Hd as [Hd|Hd]; congruence.
        -- intros _. exact HR.
      * assert (Hst : forall idx n, nth_error (g_emitted g) idx = Some n -> strong g k p idx n).
        { apply K2. unfold committed. rewrite Hpc. left. auto. }
        assert (HS : forall idx n, strong g k p idx n -> strong g' k p idx n).
        { intros idx n [H|[H|[H|H]]]; [left; exact H | right; left; exact H | right; right; left; exact H|].
          right; right; right. unfold in_flight in H. rewrite Hpc in H. destruct H as [Hc _].
          assert (Hqe : g_qe g = false) by (rewrite Sqe, Hc; reflexivity).
          assert (Hd : d = Some SYNC) by (unfold d; rewrite Hqe; apply decide_reads_sync; exact Er).
          unfold in_flight, g'. simpl. split; [exact Hc|].
          assert (Hin : In (k, SYNC) ol') by (unfold ol'; rewrite Hd; apply in_or_app; right; left; reflexivity).
          unfold next_dec. destruct (S k <? length (g_peers g))%nat; [right|]; exact Hin. }
        split; [|split].
        -- intros idx n Hn. left. apply HS. apply Hst. exact Hn.
        -- intros _ idx n Hn. apply HS. apply Hst. exact Hn.
        -- intro Hr. apply Hres' in Hr. destruct (Hol' k RESYNC Hr) as [H|[_ H]].
           ++ exfalso. apply Hknot. apply in_map_iff. exists (k, RESYNC). auto.
           ++ apply decide_reads_resync_inv in H. congruence.
    + eapply (PK_frame c g g'); [| | | | | | | |exact (conj K1 (conj K2 K3))]; unfold g'; simpl; auto; try lia.
      * intros n H. unfold in_flight in H. rewrite Hpc in H.
        eapply (in_flight_dec_next g); simpl; eauto. apply nth_error_lt in Hp. exact Hp.
      * intro Hc. apply Hcomm' in Hc. unfold committed. rewrite Hpc. right.
        destruct Hc as [m [Hin Hm]]. destruct (Hol' j m Hin) as [H|[H _]]; [|contradiction]. exists m. auto.
      * intro Hr. apply Hres' in Hr. unfold res_bound. rewrite Hpc. right.
        destruct (Hol' j RESYNC Hr) as [H|[H _]]; [exact H | contradiction].
Qed.

Lemma lc_pre_send m p : lc (pre_send m p) = lc p.
Proof. destruct m; reflexivity. Qed.

Lemma KInv_prep c g t snap outc :
  KInv c g -> g_pc g = PPrep -> KInv c (ostep true c g t snap outc).
Proof.
  intros [S K] Hpc. destruct S as [Slc Sclk Sqe Snd Sdec Stgt Snoqe Ssend].
  unfold ostep. rewrite Hpc.
  destruct (g_ol g) as [|[k m] rest] eqn:Eol.
  - (* outlist exhausted *)
    split.
    + constructor; simpl; try assumption; try discriminate.
      * rewrite Eol. constructor.
      * exact I.
    + intros j p Hp. simpl in Hp. specialize (K j p Hp).
      eapply PK_frame; [| | | | | | | |exact K]; simpl; auto; try lia.
      * intros n H. unfold in_flight in H. rewrite Hpc, Eol in H. destruct H as [_ []].
      * unfold committed. simpl. rewrite Eol. intros [m [[] _]].
      * unfold res_bound. simpl. rewrite Eol. intros [].
  - assert (Hnd : ~ In k (map fst rest) /\ NoDup (map fst rest)).
    { simpl in Snd. inversion Snd; auto. }
    destruct Hnd as [Hk Hnd].
    destruct (nth_error (g_peers g) k) as [pk|] eqn:Ek.
    2:{ split.
        - constructor; simpl; try assumption; try discriminate. exact I.
        - intros j p Hp. simpl in Hp. specialize (K j p Hp).
          assert (Hjk : j <> k) by (intro; subst; congruence).
          eapply PK_frame; [| | | | | | | |exact K]; simpl; auto; try lia.
          + intros n H. unfold in_flight in *. rewrite Hpc, Eol in H. simpl. destruct H as [Hc [H|H]]; [inversion H; congruence|auto].
          + unfold committed. rewrite Hpc, Eol. simpl. intros [m0 [H Hm]]. exists m0. split; [right; exact H|exact Hm].
          + unfold res_bound. rewrite Hpc, Eol. simpl. auto. }
    set (p1 := pre_send m pk).
    set (g' := mkG (set_nth k p1 (g_peers g)) (g_queue g)
                   (PSend k m (msg_flags pk) (payload m snap (cache_note (g_cache g)) p1) (length (g_emitted g)))
                   (g_now g) rest (g_cache g) (g_qe g) (g_clock g) (g_emitted g) (g_log g)).
    cbv zeta. fold p1. simpl (if true then _ else _).
    replace (match m with SYNC => (g_cache g, g_queue g) | _ => (g_cache g, g_queue g) end) with (g_cache g, g_queue g)
      by (destruct m; reflexivity).
    fold g'.
    split.
    + constructor; unfold g'; simpl; try assumption; try discriminate.
      * intros j p Hp. rewrite nth_error_set_nth in Hp. destruct (Nat.eqb_spec j k) as [->|Hne].
        -- rewrite Ek in Hp. inversion Hp. unfold p1. rewrite lc_pre_send. eapply Slc; eauto.
        -- eapply Slc; eauto.
      * intros k0 H. inversion H; subst. exact Hk.
      * exact I.
      * intros k0 m0 fl pay seen H. inversion H; subst. split.
        -- intros idx n Hle Hn. apply nth_error_lt in Hn. lia.
        -- intros -> p Hp. rewrite nth_error_set_nth, Nat.eqb_refl, Ek in Hp. inversion Hp; subst. reflexivity.
    + intros j p' Hp'. unfold g' in Hp'. simpl in Hp'. rewrite nth_error_set_nth in Hp'.
      destruct (Nat.eqb_spec j k) as [->|Hne].
      * rewrite Ek in Hp'. inversion Hp'; subst p'. clear Hp'.
        destruct (K k pk Ek) as (K1 & K2 & K3).
        destruct (mode_eq_dec_sync m) as [Hm|Hm]; [|destruct m; [congruence| |]].
        -- (* SYNC *) subst m. unfold p1. simpl pre_send.
           assert (Hst : forall idx n, nth_error (g_emitted g) idx = Some n -> strong g k pk idx n).
           { apply K2. unfold committed. rewrite Hpc, Eol. exists SYNC. split; [left; reflexivity|discriminate]. }
           assert (HS : forall idx n, strong g k pk idx n -> strong g' k pk idx n).
           { intros idx n [H|[H|[H|H]]]; [left; exact H | right; left; exact H | right; right; left; exact H|].
             right; right; right. unfold in_flight in *. rewrite Hpc, Eol in H. unfold g'. simpl.
             destruct H as [Hc _]. split; [exact Hc|]. left. auto. }
           split; [|split].
           ++ intros idx n Hn. left. apply HS, Hst, Hn.
           ++ intros _ idx n Hn. apply HS, Hst, Hn.
           ++ unfold res_bound, g'. simpl. intros [[_ H]|H]; [discriminate|].
              exfalso. apply Hk. apply in_map_iff. exists (k, RESYNC). auto.
        -- (* PING *) unfold p1. simpl pre_send.
           assert (Hst : forall idx n, nth_error (g_emitted g) idx = Some n -> strong g k pk idx n).
           { apply K2. unfold committed. rewrite Hpc, Eol. exists PING. split; [left; reflexivity|discriminate]. }
           assert (HS : forall idx n, strong g k pk idx n -> strong g' k pk idx n).
           { intros idx n [H|[H|[H|H]]]; [left; exact H | right; left; exact H | right; right; left; exact H|].
             exfalso. unfold in_flight in H. rewrite Hpc, Eol in H. destruct H as [_ [H|H]]; [discriminate|].
             apply Hk. apply in_map_iff. exists (k, SYNC). auto. }
           split; [|split].
           ++ intros idx n Hn. left. apply HS, Hst, Hn.
           ++ intros _ idx n Hn. apply HS, Hst, Hn.
           ++ unfold res_bound, g'. simpl. intros [[_ H]|H]; [discriminate|].
              exfalso. apply Hk. apply in_map_iff. exists (k, RESYNC). auto.
        -- (* RESYNC *)
           assert (HR : in_resync_period c g pk).
           { apply K3. unfold res_bound. rewrite Hpc, Eol. left. reflexivity. }
           assert (HR' : in_resync_period c g' p1) by exact HR.
           split; [|split].
           ++ intros idx n Hn. right. exact HR'.
           ++ unfold committed, g'. simpl. intros [[_ H]|[m0 [H Hm0]]]; [congruence|].
              exfalso. apply Hk. apply in_map_iff. exists (k, m0). auto.
           ++ intros _. exact HR'.
      * specialize (K j p' Hp').
        eapply (PK_frame c g g'); [| | | | | | | |exact K]; unfold g'; simpl; auto; try lia.
        -- intros n H. unfold in_flight in *. rewrite Hpc, Eol in H. simpl.
           destruct H as [Hc [H|H]]; [inversion H; congruence | split; [exact Hc | right; exact H]].
        -- unfold committed. rewrite Hpc, Eol. simpl. intros [[H _]|[m0 [H Hm0]]]; [congruence|].
           exists m0. split; [right; exact H | exact Hm0].
        -- unfold res_bound. rewrite Hpc, Eol. simpl. intros [[H _]|H]; [congruence | right; exact H].
Qed.

Lemma err_ok_visible outc : err_of outc = 0%nat -> visible outc = true.
Proof.
  unfold err_of, visible. destruct (outc =? 0); [reflexivity|].
  destruct ((outc =? 1) || (outc =? 3)); discriminate.
Qed.

Lemma KInv_send c g k m fl pay seen t snap outc :
  KInv c g -> g_pc g = PSend k m fl pay seen -> g_clock g <= t -> KInv c (ostep true c g t snap outc).
Proof.
  intros [S K] Hpc Hclk. destruct S as [Slc Sclk Sqe Snd Sdec Stgt Snoqe Ssend].
  unfold ostep. rewrite Hpc.
  assert (Hk : ~ In k (map fst (g_ol g))) by (apply Stgt; rewrite Hpc; reflexivity).
  destruct (nth_error (g_peers g) k) as [pk|] eqn:Ek.
  2:{ split.
      - constructor; simpl; try assumption; try discriminate. exact I.
      - intros j p Hp. simpl in Hp. specialize (K j p Hp).
        assert (Hjk : j <> k) by (intro; subst; congruence).
        eapply PK_frame; [| | | | | | | |exact K]; simpl; auto; try lia.
        + intros n H. unfold in_flight in *. rewrite Hpc in H. simpl. destruct H as [Hc [[H _]|H]]; [congruence|auto].
        + unfold committed. rewrite Hpc. simpl. auto.
        + unfold res_bound. rewrite Hpc. simpl. auto. }
  destruct (Ssend k m fl pay seen Hpc) as [Hseen Hpay].
  set (err := err_of outc).
  set (a := mkS k m (g_now g) t fl err (visible outc) (addr pk) pay seen).
  set (p' := match err, m with
             | O, SYNC => clear_stash pk
             | S _, SYNC => append_stash (cache_note (g_cache g)) pk
             | _, _ => pk end).
  set (pc' := match err with O => PWrLc k fl t | S _ => PWrLa k t end).
  set (g' := mkG (set_nth k p' (g_peers g)) (g_queue g) pc' (g_now g) (g_ol g) (g_cache g) (g_qe g) t
                 (g_emitted g) (HAtt a :: g_log g)).
  change (KInv c g').
  assert (Hlc' : lc p' = lc pk) by (unfold p'; destruct err, m; reflexivity).
  assert (Hpc'd : dec_phase pc' = None) by (unfold pc'; destruct err; reflexivity).
  assert (Hpc't : target pc' = Some k) by (unfold pc'; destruct err; reflexivity).
  split.
  - constructor; unfold g'; simpl; try assumption.
    + intros j p Hp. rewrite nth_error_set_nth in Hp. destruct (Nat.eqb_spec j k) as [->|Hne].
      * rewrite Ek in Hp. inversion Hp. rewrite Hlc'. eapply Slc; eauto.
      * eapply Slc; eauto.
    + intros k0 H. rewrite Hpc'd in H. discriminate.
    + intros k0 j H. rewrite Hpc'd in H. discriminate.
    + intros k0 H. rewrite Hpc't in H. inversion H; subst. exact Hk.
    + unfold pc'. destruct err; exact I.
    + intros k0 m0 fl0 pay0 seen0 H. unfold pc' in H. destruct err; discriminate.
  - intros j q Hq. unfold g' in Hq. simpl in Hq. rewrite nth_error_set_nth in Hq.
    destruct (Nat.eqb_spec j k) as [->|Hne].
    + rewrite Ek in Hq. inversion Hq; subst q. clear Hq.
      destruct (K k pk Ek) as (K1 & K2 & K3).
      assert (Hres' : ~ res_bound c g' k).
      { unfold res_bound, g'. simpl. unfold pc'. destruct err; simpl; intro H; apply Hk;
          apply in_map_iff; exists (k, RESYNC); auto. }
      assert (Hdl : forall idx n, delivered_to g k idx n -> delivered_to g' k idx n).
      { intros idx n H. eapply delivered_mono; [|exact H]. unfold g'. simpl. auto. }
      assert (Hcov : forall idx n, covers k idx n (HAtt a) -> delivered_to g' k idx n).
      { intros idx n H. exists (HAtt a). split; [unfold g'; simpl; auto | exact H]. }
      assert (Hnofl : forall n, in_flight g k n -> m = SYNC /\ g_cache g = Some n).
      { intros n H. unfold in_flight in H. rewrite Hpc in H. destruct H as [Hc [[_ H]|H]]; [auto|].
        exfalso. apply Hk. apply in_map_iff. exists (k, SYNC). auto. }
      destruct m.
      * (* SYNC *)
        assert (Hst : forall idx n, nth_error (g_emitted g) idx = Some n -> strong g k pk idx n).
        { apply K2. unfold committed. rewrite Hpc. left. split; [reflexivity|discriminate]. }
        specialize (Hpay eq_refl pk Ek).
        assert (HS : forall idx n, strong g k pk idx n -> strong g' k p' idx n).
        { intros idx n Hs. unfold p', pc' in *. destruct err eqn:Ee.
          - (* delivered *)
            assert (Hv : visible outc = true) by (apply err_ok_visible; exact Ee).
            destruct Hs as [H|[H|[H|H]]]; [left; apply Hdl; exact H | right; left; exact H | |].
            + left. apply Hcov. simpl. rewrite Hv. repeat split; auto. left. split; [reflexivity|].
              rewrite Hpay. apply note_in_app_r. exact H.
            + left. apply Hcov. simpl. rewrite Hv. repeat split; auto. left. split; [reflexivity|].
              destruct (Hnofl n H) as [_ Hc]. rewrite Hpay, Hc. simpl. apply note_in_app_l.
          - destruct Hs as [H|[H|[H|H]]]; [left; apply Hdl; exact H | right; left; exact H | |].
            + right; right; left. rewrite stash_append. apply note_in_app_left. exact H.
            + right; right; left. destruct (Hnofl n H) as [_ Hc]. rewrite stash_append, Hc. simpl.
              apply note_in_app_r. unfold note_in. repeat split; apply incl_refl. }
        split; [|split].
        -- intros idx n Hn. left. apply HS, Hst, Hn.
        -- intros _ idx n Hn. apply HS, Hst, Hn.
        -- intro H. contradiction.
      * (* PING *)
        assert (Hst : forall idx n, nth_error (g_emitted g) idx = Some n -> strong g k pk idx n).
        { apply K2. unfold committed. rewrite Hpc. left. split; [reflexivity|discriminate]. }
        assert (Hp' : p' = pk) by (unfold p'; destruct err; reflexivity).
        assert (HS : forall idx n, strong g k pk idx n -> strong g' k p' idx n).
        { intros idx n [H|[H|[H|H]]]; rewrite Hp'; [left; apply Hdl; exact H | right; left; exact H | right; right; left; exact H|].
          destruct (Hnofl n H) as [H0 _]. discriminate. }
        split; [|split].
        -- intros idx n Hn. left. apply HS, Hst, Hn.
        -- intros _ idx n Hn. apply HS, Hst, Hn.
        -- intro H. contradiction.
      * (* RESYNC *)
        assert (Hp' : p' = pk) by (unfold p'; destruct err; reflexivity).
        assert (HR : in_resync_period c g pk).
        { apply K3. unfold res_bound. rewrite Hpc. left. auto. }
        assert (HR' : in_resync_period c g' p').
        { rewrite Hp'. unfold in_resync_period in *. unfold g'. simpl. eapply reached_mono; [|exact HR]. lia. }
        split; [|split].
        -- intros idx n Hn. right. exact HR'.
        -- unfold committed, g'. simpl. unfold pc'. destruct err eqn:Ee; simpl.
           ++ intros _ idx n Hn.
              assert (Hv : visible outc = true) by (apply err_ok_visible; exact Ee).
              destruct (Nat.lt_ge_cases idx seen) as [Hlt|Hge].
              ** left. exists (HAtt a). split; [left; reflexivity|]. simpl. rewrite Hv. repeat split; auto.
              ** right. left. eapply Hseen; eauto.
           ++ intros [m0 [H Hm0]]. exfalso. apply Hk. apply in_map_iff. exists (k, m0). auto.
        -- intro H. contradiction.
    + specialize (K j q Hq).
      eapply (PK_frame c g g'); [| | | | | | | |exact K]; unfold g'; simpl; auto; try lia.
      * intros n H. unfold in_flight in *. rewrite Hpc in H. simpl.
        destruct H as [Hc [[H _]|H]]; [congruence|]. split; [exact Hc|]. unfold pc'. destruct err; exact H.
      * unfold committed. rewrite Hpc. simpl. unfold pc'. destruct err; simpl.
        -- intros [H|H]; [congruence | right; exact H].
        -- intro H. right. exact H.
      * unfold res_bound. rewrite Hpc. simpl. unfold pc'. destruct err; simpl; intro H; right; exact H.
Qed.

Lemma KInv_wrlc c g k fl t' t snap outc :
  KInv c g -> g_pc g = PWrLc k fl t' -> KInv c (ostep true c g t snap outc).
Proof.
  intros [S K] Hpc. destruct S as [Slc Sclk Sqe Snd Sdec Stgt Snoqe Ssend].
  unfold ostep. rewrite Hpc.
  assert (Hk : ~ In k (map fst (g_ol g))) by (apply Stgt; rewrite Hpc; reflexivity).
  set (f := fun p : peer => let p' := set_lc t' p in if fl then set_fr false p' else p').
  assert (Hf : forall p, 0 <= lc (f p) /\ stash (f p) = stash p).
  { intro p. unfold f. destruct fl; simpl; split; try reflexivity; lia. }
  set (g' := mkG (upd_peer k f (g_peers g)) (g_queue g) (PWrLa k t') (g_now g) (g_ol g) (g_cache g) (g_qe g)
                 (g_clock g) (g_emitted g) (g_log g)).
  change (KInv c g').
  split.
  - constructor; unfold g'; simpl; try assumption; try discriminate.
    + intros j p Hp. rewrite nth_error_upd_peer in Hp. destruct (Nat.eqb_spec j k) as [->|Hne].
      * destruct (nth_error (g_peers g) k); simpl in Hp; [|discriminate]. inversion Hp. apply Hf.
      * eapply Slc; eauto.
    + intros k0 H. inversion H; subst. exact Hk.
    + exact I.
  - intros j q Hq. unfold g' in Hq. simpl in Hq. rewrite nth_error_upd_peer in Hq.
    destruct (Nat.eqb_spec j k) as [->|Hne].
    + destruct (nth_error (g_peers g) k) as [pk|] eqn:Ek; simpl in Hq; [|discriminate]. inversion Hq; subst q. clear Hq.
      destruct (K k pk Ek) as (K1 & K2 & K3).
      assert (Hst : forall idx n, nth_error (g_emitted g) idx = Some n -> strong g k pk idx n).
      { apply K2. unfold committed. rewrite Hpc. left. reflexivity. }
      assert (HS : forall idx n, strong g k pk idx n -> strong g' k (f pk) idx n).
      { intros idx n [H|[H|[H|H]]]; [left; exact H | right; left; exact H | |].
        - right; right; left. destruct (Hf pk) as [_ ->]. exact H.
        - right; right; right. unfold in_flight in *. rewrite Hpc in H. exact H. }
      split; [|split].
      * intros idx n Hn. left. apply HS, Hst, Hn.
      * intros _ idx n Hn. apply HS, Hst, Hn.
      * unfold res_bound, g'. simpl. intro H. exfalso. apply Hk. apply in_map_iff. exists (k, RESYNC). auto.
    + specialize (K j q Hq).
      eapply (PK_frame c g g'); [| | | | | | | |exact K]; unfold g'; simpl; auto; try lia.
      * intros n H. unfold in_flight in *. rewrite Hpc in H. exact H.
      * unfold committed. rewrite Hpc. simpl. auto.
      * unfold res_bound. rewrite Hpc. simpl. auto.
Qed.

Lemma KInv_wrla c g k t' t snap outc :
  KInv c g -> g_pc g = PWrLa k t' -> KInv c (ostep true c g t snap outc).
Proof.
  intros [S K] Hpc. destruct S as [Slc Sclk Sqe Snd Sdec Stgt Snoqe Ssend].
  unfold ostep. rewrite Hpc.
  set (g' := mkG (upd_peer k (set_la t') (g_peers g)) (g_queue g) PPrep (g_now g) (g_ol g) (g_cache g) (g_qe g)
                 (g_clock g) (g_emitted g) (g_log g)).
  change (KInv c g').
  assert (Hold : forall j q, nth_error (upd_peer k (set_la t') (g_peers g)) j = Some q ->
            exists p, nth_error (g_peers g) j = Some p /\ lc q = lc p /\ stash q = stash p).
  { intros j q H. rewrite nth_error_upd_peer in H. destruct (Nat.eqb_spec j k) as [->|Hne].
    - destruct (nth_error (g_peers g) k) as [p|]; simpl in H; [|discriminate]. inversion H. exists p. auto.
    - exists q. auto. }
  split.
  - constructor; unfold g'; simpl; try assumption; try discriminate.
    + intros j q Hq. destruct (Hold j q Hq) as (p & Hp & -> & _). eapply Slc; eauto.
    + exact I.
  - intros j q Hq. unfold g' in Hq. simpl in Hq. destruct (Hold j q Hq) as (p & Hp & Hlc & Hst).
    specialize (K j p Hp).
    eapply (PK_frame c g g'); [| | | | | | | |exact K]; unfold g'; simpl; auto; try lia.
    + intros n H. rewrite Hst. exact H.
    + intros n H. unfold in_flight in *. rewrite Hpc in H. exact H.
    + unfold committed. rewrite Hpc. simpl. auto.
    + unfold res_bound. rewrite Hpc. simpl. auto.
Qed.

(* one action of an admissible schedule, repaired order *)
Theorem KInv_step c g a : KInv c g -> act_ok g a -> KInv c (mstep true c g a).
Proof.
  intros HK Hok. destruct a as [n|from caddr|from|t snap outc].
  - apply KInv_enq. exact HK.
  - apply KInv_addr. exact HK.
  - apply KInv_reset. exact HK.
  - simpl. simpl in Hok. destruct (g_pc g) eqn:Hpc.
    + apply KInv_start; auto.
    + eapply KInv_rdlc; eauto.
    + unfold ostep. rewrite Hpc. destruct (nth_error (g_peers g) k) as [p|] eqn:Ek.
      * apply KInv_decided; assumption.
      * pose proof (KInv_decided c g k lcv 0 HK Hpc) as H. unfold decided in H. rewrite Ek in H. exact H.
    + destruct HK as [S _]. destruct S. rewrite Hpc in *. contradiction.
    + apply KInv_prep; assumption.
    + eapply KInv_send; eauto.
    + eapply KInv_wrlc; eauto.
    + eapply KInv_wrla; eauto.
Qed.

Lemma KInv_init c ps q clock : (forall j p, nth_error ps j = Some p -> 0 <= lc p) -> KInv c (ginit ps q clock).
Proof.
  intro H. split.
  - constructor; simpl; try discriminate; auto. constructor.
  - intros j p Hp. split; [|split].
    + intros idx n Hn. simpl in Hn. destruct idx; discriminate.
    + intros _ idx n Hn. simpl in Hn. destruct idx; discriminate.
    + unfold res_bound. simpl. intros [].
Qed.

Theorem knowledge_inv : forall c ps q clock g,
  (forall j p, nth_error ps j = Some p -> 0 <= lc p) ->
  reach true c act_ok (ginit ps q clock) g -> knowledge c g.
Proof.
  intros c ps q clock g Hps Hr.
  assert (HK : KInv c g).
  { induction Hr as [|g a Hr IH Hok]; [apply KInv_init; exact Hps | apply KInv_step; assumption]. }
  destruct HK as [_ K]. intros j p idx n Hp Hn. destruct (K j p Hp) as (K1 & _ & _).
  unfold knows. destruct (K1 idx n Hn) as [[H|[H|[H|H]]]|H]; auto.
Qed.

(* ------------------------------------------------------------------ schedules *)
Fixpoint sched_ok (ok : gstate -> act -> Prop) (fixed : bool) (c : tcfg) (g : gstate) (acts : list act) : Prop :=
  match acts with
  | [] => True
  | a :: r => ok g a /\ sched_ok ok fixed c (mstep fixed c g a) r
  end.

Lemma reach_sched ok fixed c g0 : forall acts g,
  reach fixed c ok g0 g -> sched_ok ok fixed c g acts -> reach fixed c ok g0 (mrun fixed c g acts).
Proof.
  induction acts as [|a r IH]; intros g Hr Hs; simpl; [exact Hr|].
  destruct Hs as [Ha Hs]. apply IH; [|exact Hs]. apply reach_step; assumption.
Qed.

(* ------------------------------------------------------------------ D9 on the pinned order *)
Definition d9_cfg : tcfg := mkCfg 30 60 5 5 10 (true, true, true, true, true).
Definition d9_peers : list peer := [mkPeer 1000 1000 false [] [] [] 11; mkPeer 1000 1000 false [] [] [] 12].
Definition d9_note : note := mkNote [] [] [7].
Definition o1 : act := OStep 1001 empty_note 0.
(* start; peer 0: last_comms, last_attempt, queue empty -> nothing to send; THE DECIDER REPORTS A CHANGE;
   peer 1: last_comms, last_attempt, queue non-empty -> SYNC; the item is taken and sent to peer 1 only *)
Definition d9_sched : list act :=
  [o1; o1; o1; o1; XEnq d9_note; o1; o1; o1; o1; o1; o1; o1; o1].

Theorem lost_note_refuted :
  exists c ps acts,
    (forall j p, nth_error ps j = Some p -> 0 <= lc p) /\
    reach false c act_ok (ginit ps [] 1000) (mrun false c (ginit ps [] 1000) acts) /\
    ~ knowledge c (mrun false c (ginit ps [] 1000) acts).
Proof.
  exists d9_cfg, d9_peers, d9_sched. split; [|split].
  - intros j p H. destruct j as [|[|j]]; simpl in H;
      [inversion H; simpl; lia | inversion H; simpl; lia | destruct j; discriminate].
  - apply reach_sched; [apply reach_refl|]. vm_compute. repeat split; intros; try discriminate.
  - intro H.
    specialize (H 0%nat (mkPeer 1000 1000 false [] [] [] 11) 0%nat d9_note eq_refl eq_refl).
    destruct H as [[e [Hin Hc]]|[H|[H|[H|H]]]].
    + vm_compute in Hin. destruct Hin as [<-|[]]. simpl in Hc. destruct Hc as [Hc _]. discriminate.
    + vm_compute in H. exact H.
    + destruct H as (_ & _ & H). specialize (H 7 (or_introl eq_refl)). vm_compute in H. exact H.
    + unfold in_flight in H. vm_compute in H. tauto.
    + unfold in_resync_period in H. vm_compute in H. discriminate.
Qed.

(* the same interleaving on the repaired order: the change reported while the loop is deciding stays in the
   queue, and the next iteration sends it to both peers *)
Definition d9_sched_fixed : list act := [o1; o1; o1; XEnq d9_note; o1; o1; o1].
Definition o2 : act := OStep 1002 empty_note 0.
Example d9_fixed_keeps :
  let g := mrun true d9_cfg (ginit d9_peers [] 1000) d9_sched_fixed in
  g_queue g = [d9_note] /\ g_log g = [] /\ g_pc g = PIdle /\
  map (fun e => match e with HAtt a => (s_peer a, mode_code (s_mode a), s_pay a) | HReset i => (i, -1, empty_note) end)
      (g_log (mrun true d9_cfg g (repeat o2 15))) = [(1%nat, 0, d9_note); (0%nat, 0, d9_note)].
Proof. vm_compute. repeat split; reflexivity. Qed.

(* ------------------------------------------------------------------ RESYNC before anything incremental *)
(* last successful contact with peer i according to the log (newest first): the end of the last delivered
   message, 0 after a handled RESET, the initial last_comms if neither happened *)
Fixpoint last_contact (i : nat) (lc0 : Z) (rl : list ev) : Z :=
  match rl with
  | [] => lc0
  | EAtt a :: r => if Nat.eqb (at_peer a) i && is_ok (at_err a) then Z.max 0 (at_done a) else last_contact i lc0 r
  | EReset j :: r => if Nat.eqb j i then 0 else last_contact i lc0 r
  end.

Theorem resync_before_incremental : forall c s acts i p0 l1 a l2,
  nth_error (o_peers s) i = Some p0 ->
  log_of c s acts = l1 ++ EAtt a :: l2 -> at_peer a = i -> at_mode a <> RESYNC ->
  at_dec a - last_contact i (lc p0) (rev l1) <= p_resync c.
Proof.
  intros c s acts i p0 l1 a l2 Hp0 Hlog Hpa Hm.
  set (I := fun (p : peer) (rl : list ev) => lc p = last_contact i (lc p0) rl).
  set (P := fun (rl : list ev) (b : attempt) => at_mode b <> RESYNC -> at_dec b - last_contact i (lc p0) rl <= p_resync c).
  assert (Hmain : AllP i P (snd (run c s acts []))).
  { apply (hist_ind c i I P).
    - intros p rl now qe m b cn HI Hd Hpb Hmb Hdec Hq Hf. split.
      + intro Hne. rewrite Hdec. unfold I in HI. rewrite <- HI. rewrite Hmb in Hne. destruct m; [| |congruence].
        * apply mt_sync_inv in Hd. tauto.
        * apply mt_ping_inv in Hd. tauto.
      + unfold I.
        destruct (post_send_effects m (fr p) (at_err b) (at_done b) cn p) as (_ & Hlc & _).
        rewrite Hlc. cbn [last_contact]. rewrite Hpb, Nat.eqb_refl. cbn [andb].
        destruct (is_ok (at_err b)); [reflexivity | exact HI].
    - intros p rl e HI Hne. unfold I in *. destruct e as [b|j]; simpl in *.
      + rewrite (proj2 (Nat.eqb_neq _ _) Hne). simpl. exact HI.
      + rewrite (proj2 (Nat.eqb_neq _ _) Hne). exact HI.
    - intros p rl x HI. exact HI.
    - intros p rl HI. unfold I. simpl. rewrite Nat.eqb_refl. reflexivity.
    - intros p Hp. unfold I. simpl. congruence.
    - exact Logic.I. }
  apply log_split in Hlog. rewrite Hlog in Hmain.
  apply (AllP_at i P) in Hmain; [|exact Hpa].
  apply Hmain. exact Hm.
Qed.

(* ------------------------------------------------------------------ C07: a handled RESET is answered by a RESYNC *)
Definition pendb (b0 : bool) (o : option hev) : bool :=
  match o with None => b0 | Some (HReset _) => true | Some (HAtt _) => false end.

Fixpoint answered (b0 : bool) (j : nat) (rl : list hev) : Prop :=
  match rl with
  | [] => True
  | HAtt a :: r => (s_peer a = j -> pendb b0 (last_hev j r) = true -> s_mode a = RESYNC) /\ answered b0 j r
  | _ :: r => answered b0 j r
  end.

Lemma answered_resets b0 j rl : answered b0 j rl -> resets_answered j rl.
Proof.
  induction rl as [|e r IH]; simpl; [auto|]. destruct e as [a|i]; [|exact IH].
  intros [H1 H2]. split; [|apply IH; exact H2]. intros Hp Hr. apply H1; [exact Hp|].
  destruct (last_hev j r) as [[b|i]|]; simpl in *; try discriminate; reflexivity.
Qed.

Lemma answered_first j rl : answered true j rl -> first_is_resync j rl.
Proof.
  induction rl as [|e r IH]; simpl; [auto|]. destruct e as [a|i]; [|exact IH].
  intros [H1 H2]. split; [|apply IH; exact H2]. intros Hp Hr. apply H1; [exact Hp|]. rewrite Hr. reflexivity.
Qed.

Definition pc_clause (j : nat) (p : pc) : Prop :=
  match p with
  | PRdLa k lcv | PRdQe k lcv _ => k = j -> lcv = 0
  | PSend k m _ _ _ => k = j -> m = RESYNC
  | PWrLc k _ _ => k <> j
  | _ => True
  end.

Definition RInv (b0 : bool) (c : tcfg) (j : nat) (g : gstate) : Prop :=
  answered b0 j (g_log g) /\
  (g_pc g <> PIdle -> p_resync c < g_now g) /\
  (pendb b0 (last_hev j (g_log g)) = true ->
     (forall p, nth_error (g_peers g) j = Some p -> lc p = 0) /\ pc_clause j (g_pc g) /\
     (forall m, In (j, m) (g_ol g) -> m = RESYNC)).

Definition real_free (c : tcfg) (g : gstate) (a : act) : Prop := act_real c g a /\ race_free g a.

Lemma decided_RInv b0 c j g k lcv lav qe :
  answered b0 j (g_log g) -> p_resync c < g_now g ->
  (pendb b0 (last_hev j (g_log g)) = true ->
     (forall p, nth_error (g_peers g) j = Some p -> lc p = 0) /\ (k = j -> lcv = 0) /\
     (forall m, In (j, m) (g_ol g) -> m = RESYNC)) ->
  RInv b0 c j (decided c g k lcv lav qe).
Proof.
  intros A Hnow C. unfold decided.
  destruct (nth_error (g_peers g) k) as [pk|] eqn:Ek.
  - split; [exact A|]. split; [intros _; exact Hnow|]. simpl. intro Hp. destruct (C Hp) as (C1 & C2 & C3).
    split; [exact C1|]. split; [unfold next_dec; destruct (S k <? length (g_peers g))%nat; exact I|].
    intros m Hin.
    destruct (decide c (g_now g) qe (with_reads lcv lav pk)) as [m0|] eqn:Ed; [|apply C3; exact Hin].
    apply in_app_or in Hin. destruct Hin as [Hin|[Hin|[]]]; [apply C3; exact Hin|].
    inversion Hin; subst.
    assert (Hl : lcv = 0) by (apply C2; reflexivity).
    eapply mt_resync_only; [|exact Ed]. simpl. lia.
  - split; [exact A|]. split; [intros _; exact Hnow|]. simpl. intro Hp. destruct (C Hp) as (C1 & C2 & C3).
    split; [exact C1|]. split; [exact I | exact C3].
Qed.

Lemma RInv_step b0 c fixed j g a : RInv b0 c j g -> real_free c g a -> RInv b0 c j (mstep fixed c g a).
Proof.
  intros (A & B & C) [Hreal Hfree]. destruct a as [n|from caddr|from|t snap outc].
  - (* enqueue *) exact (conj A (conj B C)).
  - (* address *) split; [exact A|]. split; [exact B|]. simpl. intro Hp. destruct (C Hp) as (C1 & C2 & C3).
    split; [|split; assumption]. intros p Hn. rewrite nth_error_upd_peer in Hn.
    destruct (Nat.eqb_spec j from) as [->|Hne]; [|apply C1; exact Hn].
    destruct (nth_error (g_peers g) from) as [q|] eqn:Eq; simpl in Hn; [|discriminate]. inversion Hn.
    destruct (caddr =? addr q); simpl; apply (C1 q); reflexivity.
  - (* RESET handled *)
    simpl. destruct (nth_error (g_peers g) from) as [q|] eqn:Eq; [|exact (conj A (conj B C))].
    split; [exact A|]. split; [exact B|]. simpl.
    destruct (Nat.eqb_spec from j) as [->|Hne].
    + intros _. simpl in Hfree. split; [|split].
      * intros p Hn. rewrite nth_error_set_nth, Nat.eqb_refl, Eq in Hn. inversion Hn. reflexivity.
      * unfold in_window in Hfree. unfold pc_clause. destruct (g_pc g); try exact I; intro; subst; exfalso; apply Hfree; auto.
      * intros m Hin. exfalso. apply Hfree. unfold in_window.
        assert (In j (map fst (g_ol g))) by (apply in_map_iff; exists (j, m); auto).
        destruct (g_pc g); auto.
    + intro Hp. destruct (C Hp) as (C1 & C2 & C3). split; [|split; assumption].
      intros p Hn. rewrite nth_error_set_nth in Hn. destruct (Nat.eqb_spec j from); [congruence|]. apply C1; exact Hn.
  - (* the outgoing thread *)
    simpl. simpl in Hreal. unfold ostep. destruct (g_pc g) eqn:Hpc.
    + (* start *)
      destruct (Hreal eq_refl) as [Hr _].
      assert (G : forall cache qe q,
                RInv b0 c j (mkG (g_peers g) q (next_dec (length (g_peers g)) 0) t [] cache qe t (g_emitted g) (g_log g))).
      { intros cache qe q. split; [exact A|]. split; [intros _; exact Hr|]. simpl. intro Hp.
        destruct (C Hp) as (C1 & _ & _). split; [exact C1|]. split; [|intros m []].
        unfold next_dec. destruct (0 <? length (g_peers g))%nat; exact I. }
      destruct fixed; [destruct (g_queue g)|]; apply G.
    + (* last_comms read *)
      destruct (nth_error (g_peers g) k) as [pk|] eqn:Ek.
      * split; [exact A|]. split; [intros _; apply B; discriminate|]. simpl. intro Hp. destruct (C Hp) as (C1 & _ & C3).
        split; [exact C1|]. split; [|exact C3]. intros ->. apply C1. exact Ek.
      * split; [exact A|]. split; [intros _; apply B; discriminate|]. simpl. intro Hp. destruct (C Hp) as (C1 & _ & C3).
        split; [exact C1|]. split; [exact I | exact C3].
    + (* last_attempt read *)
      destruct (nth_error (g_peers g) k) as [pk|] eqn:Ek.
      * destruct fixed.
        -- apply decided_RInv; [exact A | apply B; discriminate | exact C].
        -- split; [exact A|]. split; [intros _; apply B; discriminate|]. simpl. intro Hp.
           destruct (C Hp) as (C1 & C2 & C3). split; [exact C1|]. split; [exact C2 | exact C3].
      * split; [exact A|]. split; [intros _; apply B; discriminate|]. simpl. intro Hp. destruct (C Hp) as (C1 & _ & C3).
        split; [exact C1|]. split; [exact I | exact C3].
    + (* queue emptiness read *)
      apply decided_RInv; [exact A | apply B; discriminate | exact C].
    + (* next entry of outlist *)
      assert (Hnow : p_resync c < g_now g) by (apply B; discriminate).
      destruct (g_ol g) as [|[k m] rest] eqn:Eol.
      * split; [exact A|]. split; [intro H; exfalso; apply H; reflexivity|]. simpl. intro Hp.
        destruct (C Hp) as (C1 & _ & C3). split; [exact C1|]. split; [exact I | rewrite Eol; exact C3].
      * destruct (nth_error (g_peers g) k) as [pk|] eqn:Ek.
        -- assert (G : forall cache q pay,
                     RInv b0 c j (mkG (set_nth k (pre_send m pk) (g_peers g)) q
                                      (PSend k m (msg_flags pk) pay (length (g_emitted g)))
                                      (g_now g) rest cache (g_qe g) (g_clock g) (g_emitted g) (g_log g))).
           { intros cache q pay. split; [exact A|]. split; [intros _; exact Hnow|]. simpl. intro Hp.
             destruct (C Hp) as (C1 & _ & C3). split; [|split].
             - intros p Hn. rewrite nth_error_set_nth in Hn. destruct (Nat.eqb_spec j k) as [->|Hne]; [|apply C1; exact Hn].
               rewrite Ek in Hn. inversion Hn. rewrite lc_pre_send. apply C1. exact Ek.
             - intros ->. apply C3. left. reflexivity.
             - intros m0 Hin. apply C3. right. exact Hin. }
           destruct m; [destruct fixed; [|destruct (pop_queue (g_cache g) (g_queue g))]| |]; apply G.
        -- split; [exact A|]. split; [intros _; exact Hnow|]. simpl. intro Hp.
           destruct (C Hp) as (C1 & _ & C3). split; [exact C1|]. split; [exact I|].
           intros m0 Hin. apply C3. right. exact Hin.
    + (* send *)
      assert (Hnow : p_resync c < g_now g) by (apply B; discriminate).
      destruct (nth_error (g_peers g) k) as [pk|] eqn:Ek.
      * set (a := mkS k m (g_now g) t flagged (err_of outc) (visible outc) (addr pk) pay seen).
        split; [|split].
        -- simpl. split; [|exact A]. intros Hk Hp. subst k. destruct (C Hp) as (_ & C2 & _). apply C2. reflexivity.
        -- intros _. exact Hnow.
        -- simpl. destruct (Nat.eqb_spec k j) as [->|Hne]; [simpl; discriminate|].
           intro Hp. destruct (C Hp) as (C1 & _ & C3). split; [|split].
           ++ intros p Hn. rewrite nth_error_set_nth in Hn. destruct (Nat.eqb_spec j k); [congruence|]. apply C1; exact Hn.
           ++ destruct (err_of outc); simpl; [exact Hne | exact I].
           ++ exact C3.
      * split; [exact A|]. split; [intros _; exact Hnow|]. simpl. intro Hp.
        destruct (C Hp) as (C1 & _ & C3). split; [exact C1|]. split; [exact I | exact C3].
    + (* last_comms written *)
      split; [exact A|]. split; [intros _; apply B; discriminate|]. simpl. intro Hp.
      destruct (C Hp) as (C1 & C2 & C3). simpl in C2. split; [|split; [exact I | exact C3]].
      intros p Hn. rewrite nth_error_upd_peer in Hn. destruct (Nat.eqb_spec j k); [congruence|]. apply C1; exact Hn.
    + (* last_attempt written *)
      split; [exact A|]. split; [intros _; apply B; discriminate|]. simpl. intro Hp.
      destruct (C Hp) as (C1 & _ & C3). split; [|split; [exact I | exact C3]].
      intros p Hn. rewrite nth_error_upd_peer in Hn. destruct (Nat.eqb_spec j k) as [->|Hne]; [|apply C1; exact Hn].
      destruct (nth_error (g_peers g) k) as [q|] eqn:Eq; simpl in Hn; [|discriminate]. inversion Hn. simpl.
      apply (C1 q). reflexivity.
Qed.

Lemma RInv_reach b0 c fixed j g0 g :
  RInv b0 c j g0 -> reach fixed c (real_free c) g0 g -> RInv b0 c j g.
Proof. intros H0 Hr. induction Hr as [|g a Hr IH Hok]; [exact H0 | apply RInv_step; assumption]. Qed.

Lemma RInv_init b0 c j ps q clock :
  (b0 = true -> forall p, nth_error ps j = Some p -> lc p = 0) -> RInv b0 c j (ginit ps q clock).
Proof.
  intro H. split; [exact I|]. split; [intro Hn; exfalso; apply Hn; reflexivity|]. simpl. intro Hb.
  split; [apply H; exact Hb|]. split; [exact I | intros m []].
Qed.

(* Survivor: from any initial state, under every schedule in which no RESET from peer j is handled inside
   the window of j (and the clock is a real one), every attempt to j that follows a handled RESET is a RESYNC *)
Theorem reset_answered : forall fixed c ps q clock j g,
  reach fixed c (real_free c) (ginit ps q clock) g -> resets_answered j (g_log g).
Proof.
  intros fixed c ps q clock j g Hr. apply (answered_resets false).
  apply (RInv_reach false c fixed j (ginit ps q clock) g); [apply RInv_init; discriminate | exact Hr].
Qed.

(* Restarted instance: last_comms = 0 for everyone, so the first attempt to each peer is a RESYNC *)
Theorem first_resync : forall fixed c ps q clock j g,
  (forall p, nth_error ps j = Some p -> lc p = 0) ->
  reach fixed c (real_free c) (ginit ps q clock) g -> first_is_resync j (g_log g).
Proof.
  intros fixed c ps q clock j g H0 Hr. apply answered_first.
  apply (RInv_reach true c fixed j (ginit ps q clock) g); [apply RInv_init; intros _; exact H0 | exact Hr].
Qed.

(* ------------------------------------------------------------------ C07: the restart flag until the first delivery *)
Definition fl_clause (j : nat) (p : pc) : Prop :=
  match p with
  | PSend k _ fl _ _ => k = j -> fl = true
  | PWrLc k _ _ => k <> j
  | _ => True
  end.

Definition FInv (j : nat) (g : gstate) : Prop :=
  flag_kept j (g_log g) /\
  (existsb (ok_att j) (g_log g) = false ->
     (forall p, nth_error (g_peers g) j = Some p -> fr p = true) /\ fl_clause j (g_pc g)).

Lemma fr_pre_send m p : fr (pre_send m p) = fr p.
Proof. destruct m; reflexivity. Qed.

Lemma FInv_decided c j g k lcv lav qe :
  flag_kept j (g_log g) ->
  (existsb (ok_att j) (g_log g) = false -> forall p, nth_error (g_peers g) j = Some p -> fr p = true) ->
  FInv j (decided c g k lcv lav qe).
Proof.
  intros A C. unfold decided. destruct (nth_error (g_peers g) k) as [pk|].
  - split; [exact A|]. simpl. intro H. split; [apply C; exact H|].
    unfold next_dec. destruct (S k <? length (g_peers g))%nat; exact I.
  - split; [exact A|]. simpl. intro H. split; [apply C; exact H | exact I].
Qed.

Lemma FInv_step c fixed j g a : FInv j g -> FInv j (mstep fixed c g a).
Proof.
  intros [A C]. destruct a as [n|from caddr|from|t snap outc].
  - exact (conj A C).
  - split; [exact A|]. simpl. intro H. destruct (C H) as [C1 C2]. split; [|exact C2].
    intros p Hn. rewrite nth_error_upd_peer in Hn. destruct (Nat.eqb_spec j from) as [->|Hne]; [|apply C1; exact Hn].
    destruct (nth_error (g_peers g) from) as [q|] eqn:Eq; simpl in Hn; [|discriminate]. inversion Hn.
    destruct (caddr =? addr q); simpl; apply (C1 q); reflexivity.
  - simpl. destruct (nth_error (g_peers g) from) as [q|] eqn:Eq; [|exact (conj A C)].
    split; [exact A|]. simpl. intro H. destruct (C H) as [C1 C2]. split; [|exact C2].
    intros p Hn. rewrite nth_error_set_nth in Hn. destruct (Nat.eqb_spec j from) as [->|Hne]; [|apply C1; exact Hn].
    rewrite Eq in Hn. inversion Hn. simpl. apply (C1 q). exact Eq.
  - simpl. unfold ostep. destruct (g_pc g) eqn:Hpc.
    + assert (G : forall cache qe q,
                FInv j (mkG (g_peers g) q (next_dec (length (g_peers g)) 0) t [] cache qe t (g_emitted g) (g_log g))).
      { intros cache qe q. split; [exact A|]. simpl. intro H. destruct (C H) as [C1 _]. split; [exact C1|].
        unfold next_dec. destruct (0 <? length (g_peers g))%nat; exact I. }
      destruct fixed; [destruct (g_queue g)|]; apply G.
    + destruct (nth_error (g_peers g) k); (split; [exact A|]; simpl; intro H; destruct (C H) as [C1 _]; split; [exact C1 | exact I]).
    + destruct (nth_error (g_peers g) k).
      * destruct fixed.
        -- apply FInv_decided; [exact A | intro H; apply C; exact H].
        -- split; [exact A|]. simpl. intro H. destruct (C H) as [C1 _]. split; [exact C1 | exact I].
      * split; [exact A|]. simpl. intro H. destruct (C H) as [C1 _]. split; [exact C1 | exact I].
    + apply FInv_decided; [exact A | intro H; apply C; exact H].
    + destruct (g_ol g) as [|[k m] rest] eqn:Eol.
      * split; [exact A|]. simpl. intro H. destruct (C H) as [C1 _]. split; [exact C1 | exact I].
      * destruct (nth_error (g_peers g) k) as [pk|] eqn:Ek.
        -- assert (G : forall cache q pay,
                     FInv j (mkG (set_nth k (pre_send m pk) (g_peers g)) q
                                 (PSend k m (msg_flags pk) pay (length (g_emitted g)))
                                 (g_now g) rest cache (g_qe g) (g_clock g) (g_emitted g) (g_log g))).
           { intros cache q pay. split; [exact A|]. simpl. intro H. destruct (C H) as [C1 _]. split.
             - intros p Hn. rewrite nth_error_set_nth in Hn. destruct (Nat.eqb_spec j k) as [->|Hne]; [|apply C1; exact Hn].
               rewrite Ek in Hn. inversion Hn. rewrite fr_pre_send. apply C1. exact Ek.
             - intros ->. unfold msg_flags. apply C1. exact Ek. }
           destruct m; [destruct fixed; [|destruct (pop_queue (g_cache g) (g_queue g))]| |]; apply G.
        -- split; [exact A|]. simpl. intro H. destruct (C H) as [C1 _]. split; [exact C1 | exact I].
    + destruct (nth_error (g_peers g) k) as [pk|] eqn:Ek.
      * split.
        -- simpl. split; [|exact A]. intros Hk He. subst k. destruct (C He) as [_ C2]. apply C2. reflexivity.
        -- simpl. intro H. apply Bool.orb_false_iff in H. destruct H as [H1 H2]. destruct (C H2) as [C1 _]. split.
           ++ intros p Hn. rewrite nth_error_set_nth in Hn. destruct (Nat.eqb_spec j k) as [->|Hne]; [|apply C1; exact Hn].
              rewrite Ek in Hn. inversion Hn. destruct (err_of outc), m; simpl; apply (C1 pk); exact Ek.
           ++ destruct (err_of outc) eqn:Ee; simpl; [|exact I].
              intros ->. rewrite Nat.eqb_refl in H1. discriminate.
      * split; [exact A|]. simpl. intro H. destruct (C H) as [C1 _]. split; [exact C1 | exact I].
    + split; [exact A|]. simpl. intro H. destruct (C H) as [C1 C2]. simpl in C2. split; [|exact I].
      intros p Hn. rewrite nth_error_upd_peer in Hn. destruct (Nat.eqb_spec j k); [congruence|]. apply C1; exact Hn.
    + split; [exact A|]. simpl. intro H. destruct (C H) as [C1 _]. split; [|exact I].
      intros p Hn. rewrite nth_error_upd_peer in Hn. destruct (Nat.eqb_spec j k) as [->|Hne]; [|apply C1; exact Hn].
      destruct (nth_error (g_peers g) k) as [q|] eqn:Eq; simpl in Hn; [|discriminate]. inversion Hn. simpl.
      apply (C1 q). reflexivity.
Qed.

(* every schedule whatsoever: interleavings, faults, any clock *)
Theorem flag_until_first_delivery : forall fixed c ps q clock j g,
  (forall p, nth_error ps j = Some p -> fr p = true) ->
  reach fixed c (fun _ _ => True) (ginit ps q clock) g -> flag_kept j (g_log g).
Proof.
  intros fixed c ps q clock j g H0 Hr.
  assert (H : FInv j g).
  { induction Hr as [|g a Hr IH _]; [|apply FInv_step; exact IH].
    split; [exact I|]. simpl. intros _. split; [exact H0 | exact I]. }
  exact (proj1 H).
Qed.

(* ------------------------------------------------------------------ D10: the race *)
Definition d10_cfg : tcfg := mkCfg 30 60 5 5 10 (true, true, true, true, true).
Definition d10_peers : list peer := [mkPeer 2000 2000 false [] [] [] 11].
Definition d10_note : note := mkNote [] [] [7].
Definition s1 : act := OStep 2005 (mkNote [] [] [3; 7]) 0.
(* the survivor has one change to send: start (item taken), last_comms read (2000: in contact), last_attempt read
   -> SYNC, message built, handed to the socket layer and delivered; THE RESTARTED PEER'S FIRST MESSAGE IS HANDLED
   (RESET -> clear_last); last_comms := 2005; last_attempt := 2005; end of the iteration.
   Then 25 seconds later another iteration: nothing at all is sent. *)
Definition d10_sched : list act := [s1; s1; s1; s1; s1; XReset 0%nat; s1; s1; s1].
Definition s2 : act := OStep 2030 (mkNote [] [] [3; 7]) 0.

Theorem reset_race_refuted :
  exists fixed c ps q acts,
    sched_ok (act_real c) fixed c (ginit ps q 2000) acts /\
    let g := mrun fixed c (ginit ps q 2000) acts in
    g_pc g = PIdle /\
    (* exactly the window: the RESET was handled after the decision read last_comms and before it was written *)
    (exists pre post, acts = pre ++ XReset 0%nat :: post /\ in_window (mrun fixed c (ginit ps q 2000) pre) 0) /\
    (* the announcement is lost: last_comms reads `now`, no RESYNC was or will be chosen *)
    map lc (g_peers g) = [2005] /\
    map (fun e => match e with HAtt a => mode_code (s_mode a) | HReset _ => -1 end) (g_log g) = [-1; 0] /\
    g_log (mrun fixed c g (repeat s2 12)) = g_log g.
Proof.
  exists true, d10_cfg, d10_peers, [d10_note], d10_sched. split.
  - vm_compute. repeat split; intros; try discriminate.
  - cbv zeta. split; [vm_compute; reflexivity|]. split.
    + exists [s1; s1; s1; s1; s1], [s1; s1; s1]. split; [reflexivity|]. vm_compute. left. reflexivity.
    + vm_compute. repeat split; reflexivity.
Qed.

(* a RESYNC carries the decider's snapshot, whatever else is going on *)
Lemma resync_carries_snapshot snap cn p : payload RESYNC snap cn p = snap.
Proof. reflexivity. Qed.

Lemma reach_weaken fixed c (ok ok' : gstate -> act -> Prop) g0 g :
  (forall g a, ok g a -> ok' g a) -> reach fixed c ok g0 g -> reach fixed c ok' g0 g.
Proof. intros H Hr. induction Hr as [|g a Hr IH Hok]; [apply reach_refl | apply reach_step; auto]. Qed.

(* ------------------------------------------------------------------ C07: restart, race-free *)
(* Transport half of `restart_sequential`, for the pinned and for the repaired order alike, over ALL
   interleavings except the one named by race_free:
   survivor  - every attempt to peer j that follows a handled RESET from j is a RESYNC (it carries the snapshot:
               resync_carries_snapshot);
   restarted - starting with last_comms = 0 and the flag set for everyone, the first attempt to every peer is a
               RESYNC, and every attempt up to and including the first delivered one carries the RESET flag. *)
Theorem restart_sequential : forall fixed c,
  (forall ps q clock j g,
     reach fixed c (fun g a => act_real c g a /\ race_free g a) (ginit ps q clock) g ->
     resets_answered j (g_log g)) /\
  (forall ps q clock g,
     (forall j p, nth_error ps j = Some p -> lc p = 0 /\ fr p = true) ->
     reach fixed c (fun g a => act_real c g a /\ race_free g a) (ginit ps q clock) g ->
     forall j, first_is_resync j (g_log g) /\ flag_kept j (g_log g)).
Proof.
  intros fixed c. split.
  - intros ps q clock j g Hr. eapply reset_answered. exact Hr.
  - intros ps q clock g H0 Hr j. split.
    + eapply first_resync; [|exact Hr]. intros p Hp. apply (H0 j p Hp).
    + eapply flag_until_first_delivery; [|eapply reach_weaken; [|exact Hr]; auto].
      intros p Hp. apply (H0 j p Hp).
Qed.

(* non-vacuity: the same survivor, the RESET handled before the iteration starts: the change goes out as part
   of a RESYNC with the snapshot *)
Definition d10_sched_ok : list act := XReset 0%nat :: repeat s1 9.
Example restart_example :
  reach true d10_cfg (fun g a => act_real d10_cfg g a /\ race_free g a) (ginit d10_peers [d10_note] 2000)
        (mrun true d10_cfg (ginit d10_peers [d10_note] 2000) d10_sched_ok) /\
  map (fun e => match e with HAtt a => (mode_code (s_mode a), s_pay a) | HReset _ => (-1, empty_note) end)
      (g_log (mrun true d10_cfg (ginit d10_peers [d10_note] 2000) d10_sched_ok))
  = [(2, mkNote [] [] [3; 7]); (-1, empty_note)].
Proof.
  split.
  - apply reach_sched; [apply reach_refl|]. vm_compute. repeat split; intros; try discriminate; try contradiction.
  - vm_compute. reflexivity.
Qed.

(* non-vacuity of knowledge_inv: the D9 interleaving on the repaired order is an admissible schedule *)
Example knowledge_example :
  reach true d9_cfg act_ok (ginit d9_peers [] 1000) (mrun true d9_cfg (ginit d9_peers [] 1000) d9_sched_fixed) /\
  g_emitted (mrun true d9_cfg (ginit d9_peers [] 1000) d9_sched_fixed) = [d9_note].
Proof.
  split; [|vm_compute; reflexivity].
  apply reach_sched; [apply reach_refl|]. vm_compute. repeat split; intros; try discriminate.
Qed.
