(* C02: conservation invariants of the engine model, for every configuration and operation sequence. *)
From Bobo Require Import Base.Prelude Base.History Model.Pattern Model.Run Model.Decider Model.PredLang Model.Engine.

Definition proj_ev (e : ev) : Z * Z * Z * Z := (ev_kind e, ev_data e, ev_ph e, ev_pat e).
Definition proj_item (it : item) : Z * Z * Z * Z :=
  match it with IData d => (0, d, 0, 0) | IEvent e => proj_ev e end.

Definition kind_items (k : Z) (it : item) : list ev :=
  match it with IEvent e => if ev_kind e =? k then [e] else [] | IData _ => [] end.

Section Inv.
  Variable cfg : config ev.
  Variable c : ecfg.

  Definition exec_of (ce : ev) : list hresp :=
    match act c (ev_ph ce) with Some a => [mkResp (a_name a) ce (a_ok a) (a_data a)] | None => [] end.

  Record EInv (s : estate) : Prop := {
    (* every item put into the receiver becomes exactly one event, same data, FIFO order *)
    i_stream : map proj_item (g_entry (gh s)) =
               map proj_ev (g_seen (gh s)) ++ map proj_ev (q_d s) ++ map proj_item (q_r s);
    (* every completed record becomes exactly one complex event, in order; the rest waits in the producer queue *)
    i_complex : g_completed (gh s) = map (fun x => (snd (fst x), snd x)) (g_complex (gh s)) ++ q_p s;
    (* the forwarder receives exactly the local complex events (all of them when local_only is off) *)
    i_fwd_in : g_fwd_in (gh s) =
               flat_map (fun x => if snd x || negb (local_only c) then [fst (fst x)] else []) (g_complex (gh s));
    i_fwd : g_fwd_in (gh s) = g_handled (gh s) ++ q_f s;
    (* one execution per handled complex event of a phenomenon that has an action *)
    i_exec : g_exec (gh s) = flat_map exec_of (g_handled (gh s));
    (* one action event per execution, reporting that execution; the rest waits in the handler queue *)
    i_resp : g_exec (gh s) = map snd (g_aevents (gh s)) ++ q_h s;
    (* complex and action events re-enter the stream exactly once each *)
    i_feed_c : flat_map (kind_items 1) (g_entry (gh s)) = map (fun x => fst (fst x)) (g_complex (gh s));
    i_feed_a : flat_map (kind_items 2) (g_entry (gh s)) = map fst (g_aevents (gh s));
    (* what the events carry *)
    i_cev : Forall (fun x => let '(ce, r, _) := x in
                             ev_kind ce = 1 /\ ev_ph ce = s_ph r /\ ev_pat ce = s_pat r /\
                             ev_data ce = match datagen c (s_ph r) with Some d => d | None => -1 end)
                   (g_complex (gh s));
    i_aev : Forall (fun x => ev_kind (fst x) = 2 /\ ev_data (fst x) = h_data (snd x) /\
                             ev_ph (fst x) = ev_ph (h_cev (snd x)) /\ ev_pat (fst x) = ev_pat (h_cev (snd x)))
                   (g_aevents (gh s))
  }.

  Lemma EInv_init : EInv e_init.
  Proof. constructor; simpl; try reflexivity; constructor. Qed.

  Ltac fm := repeat rewrite ?map_app, ?flat_map_app, ?app_nil_r, <- ?app_assoc; simpl.

  Lemma flat_map_app {A B} (f : A -> list B) l1 l2 : flat_map f (l1 ++ l2) = flat_map f l1 ++ flat_map f l2.
  Proof. induction l1; simpl; [reflexivity|]. now rewrite IHl1, app_assoc. Qed.

  Lemma EInv_add_data s d : EInv s -> EInv (add_item s (IData d)).
  Proof.
    intros [H1 H2 H3 H4 H5 H6 H7 H8 H9 H10]. constructor; try assumption; simpl.
    - rewrite !map_app, H1. simpl. now rewrite <- !app_assoc.
    - rewrite flat_map_app. simpl. now rewrite app_nil_r.
    - rewrite flat_map_app. simpl. now rewrite app_nil_r.
  Qed.

  Lemma EInv_recv s : EInv s -> EInv (fst (recv_update s)).
  Proof.
    intros [H1 H2 H3 H4 H5 H6 H7 H8 H9 H10]. unfold recv_update.
    destruct (q_r s) as [|[d|e] rest] eqn:Eq; simpl.
    - constructor; try assumption. rewrite Eq. assumption.
    - constructor; try assumption; simpl. rewrite H1. simpl. rewrite !map_app. simpl. now rewrite <- !app_assoc.
    - constructor; try assumption; simpl. rewrite H1. simpl. rewrite !map_app. simpl. now rewrite <- !app_assoc.
  Qed.

  Lemma EInv_dec s : EInv s -> EInv (fst (dec_update cfg s)).
  Proof.
    intros [H1 H2 H3 H4 H5 H6 H7 H8 H9 H10]. unfold dec_update.
    destruct (q_d s) as [|e rest] eqn:Eq; simpl.
    - constructor; try assumption. rewrite Eq. assumption.
    - destruct (local_step cfg (dec s) e) as [[d' n]|k]; simpl; constructor; try assumption; simpl.
      + rewrite H1. simpl. rewrite !map_app. simpl. now rewrite <- !app_assoc.
      + rewrite H2. now rewrite app_assoc.
      + rewrite H1. simpl. rewrite !map_app. simpl. now rewrite <- !app_assoc.
  Qed.

  Lemma EInv_remote s m : EInv s -> EInv (remote_note cfg s m).
  Proof.
    intros [H1 H2 H3 H4 H5 H6 H7 H8 H9 H10]. unfold remote_note.
    destruct (remote_apply cfg (dec s) m) as [d' n]. constructor; try assumption; simpl.
    rewrite H2. now rewrite app_assoc.
  Qed.

  Lemma EInv_prod s : EInv s -> EInv (fst (prod_update c s)).
  Proof.
    intros [H1 H2 H3 H4 H5 H6 H7 H8 H9 H10]. unfold prod_update.
    destruct (q_p s) as [|[r loc] rest] eqn:Eq; [simpl; constructor; try assumption; rewrite Eq; assumption|].
    simpl. constructor; try assumption; simpl.
    - rewrite !map_app, H1. simpl. now rewrite <- !app_assoc.
    - rewrite H2, map_app. simpl. now rewrite <- app_assoc.
    - rewrite flat_map_app. simpl. destruct (loc || negb (local_only c)); rewrite H3; [reflexivity|now rewrite !app_nil_r].
    - destruct (loc || negb (local_only c)); [rewrite H4; now rewrite app_assoc|exact H4].
    - rewrite flat_map_app, H7, map_app. simpl. reflexivity.
    - rewrite flat_map_app, H8. simpl. now rewrite app_nil_r.
    - apply Forall_app. split; [exact H9|]. constructor; [|constructor]. simpl. auto.
  Qed.

  Lemma EInv_fwd s : EInv s -> EInv (fst (fwd_update c s)).
  Proof.
    intro H. unfold fwd_update.
    set (s1h := match q_f s with
                | [] => (s, false)
                | ce :: rest => match act c (ev_ph ce) with
                                | Some a => _ | None => _ end end).
    assert (H1 : EInv (fst s1h)).
    { subst s1h. destruct H as [H1 H2 H3 H4 H5 H6 H7 H8 H9 H10].
      destruct (q_f s) as [|ce rest] eqn:Eq; [simpl; constructor; try assumption; rewrite Eq; assumption|].
      destruct (act c (ev_ph ce)) as [a|] eqn:Ea; simpl; constructor; try assumption; simpl.
      - rewrite H4. now rewrite <- app_assoc.
      - rewrite flat_map_app, H5. simpl. unfold exec_of. rewrite Ea. simpl. reflexivity.
      - rewrite H6. now rewrite app_assoc.
      - rewrite H4. now rewrite <- app_assoc.
      - rewrite flat_map_app, H5. simpl. unfold exec_of. rewrite Ea. simpl. now rewrite ?app_nil_r. }
    destruct s1h as [s1 handled]. simpl in H1. destruct H1 as [H1 H2 H3 H4 H5 H6 H7 H8 H9 H10].
    destruct (q_h s1) as [|h rest] eqn:Eq; [simpl; constructor; try assumption; rewrite Eq; assumption|].
    simpl. constructor; try assumption; simpl.
    - rewrite !map_app, H1. simpl. now rewrite <- !app_assoc.
    - rewrite H6, map_app. simpl. now rewrite <- app_assoc.
    - rewrite flat_map_app, H7. simpl. now rewrite app_nil_r.
    - rewrite flat_map_app, H8, map_app. simpl. reflexivity.
    - apply Forall_app. split; [exact H10|]. constructor; [|constructor]. simpl. auto.
  Qed.

  (* ---------- the loops ---------- *)
  Lemma EInv_loop_while f fuel : (forall s, EInv s -> EInv (fst (f s))) -> forall s, EInv s -> EInv (loop_while f fuel s).
  Proof.
    intro Hf. induction fuel as [|k IH]; intros s H; simpl; [exact H|].
    specialize (Hf s H). destruct (f s) as [s' b]. simpl in Hf. destruct b; auto.
  Qed.

  Lemma EInv_loop_times f early n : (forall s, EInv s -> EInv (fst (f s))) -> forall s, EInv s -> EInv (loop_times f early n s).
  Proof.
    intro Hf. induction n as [|k IH]; intros s H; simpl; [exact H|].
    specialize (Hf s H). destruct (f s) as [s' b]. simpl in Hf. destruct (negb b && early); auto.
  Qed.

  Lemma EInv_run_task f times early fuel :
    (forall s, EInv s -> EInv (fst (f s))) -> forall s, EInv s -> EInv (run_task f times early fuel s).
  Proof.
    intros Hf s H. unfold run_task. destruct times; [now apply EInv_loop_while|now apply EInv_loop_times].
  Qed.

  Theorem EInv_engine_update s : EInv s -> EInv (engine_update cfg c s).
  Proof.
    intro H. unfold engine_update.
    apply EInv_run_task; [apply EInv_fwd|]. apply EInv_run_task; [apply EInv_prod|].
    apply EInv_run_task; [apply EInv_dec|]. apply EInv_run_task; [apply EInv_recv|]. exact H.
  Qed.

  (* every interleaving of add_data, update() and remote notes *)
  Fixpoint apply_ops (s : estate) (ops : list eop) : estate :=
    match ops with
    | [] => s
    | EAdd d :: rest => apply_ops (add_item s (IData d)) rest
    | EUpdate :: rest => apply_ops (engine_update cfg c s) rest
    | ERemote m :: rest => apply_ops (remote_note cfg s m) rest
    end.

  Theorem EInv_reachable ops : EInv (apply_ops e_init ops).
  Proof.
    assert (G : forall s, EInv s -> EInv (apply_ops s ops)).
    { induction ops as [|o rest IH]; intros s H; simpl; [exact H|].
      destruct o; apply IH; [now apply EInv_add_data|now apply EInv_engine_update|now apply EInv_remote]. }
    apply G, EInv_init.
  Qed.

  (* ---------- at quiescence the logs are in one-to-one correspondence ---------- *)
  Definition quiescent (s : estate) : Prop := q_r s = [] /\ q_d s = [] /\ q_p s = [] /\ q_f s = [] /\ q_h s = [].

  Theorem one_to_one_at_quiescence s :
    EInv s -> quiescent s ->
    map proj_item (g_entry (gh s)) = map proj_ev (g_seen (gh s)) /\
    g_completed (gh s) = map (fun x => (snd (fst x), snd x)) (g_complex (gh s)) /\
    g_exec (gh s) = flat_map exec_of
                      (flat_map (fun x => if snd x || negb (local_only c) then [fst (fst x)] else []) (g_complex (gh s))) /\
    g_exec (gh s) = map snd (g_aevents (gh s)).
  Proof.
    intros [H1 H2 H3 H4 H5 H6 H7 H8 H9 H10] [Q1 [Q2 [Q3 [Q4 Q5]]]].
    rewrite Q1, Q2 in H1. rewrite Q3 in H2. rewrite Q4 in H4. rewrite Q5 in H6. simpl in *.
    rewrite !app_nil_r in *. repeat split; auto. rewrite H5, <- H4, H3. reflexivity.
  Qed.

  (* ---------- nothing is stranded: each task, when it runs, consumes the head of a non-empty queue ---------- *)
  Lemma run_task_first f times early fuel s :
    run_task f times early (S fuel) s =
    let '(s', b) := f s in
    match times with
    | O => if b then loop_while f fuel s' else s'
    | S k => if negb b && early then s' else loop_times f early k s'
    end.
  Proof. unfold run_task. destruct times; simpl; destruct (f s); reflexivity. Qed.

  Lemma recv_consumes_head s it rest : q_r s = it :: rest -> q_r (fst (recv_update s)) = rest.
  Proof. intro H. unfold recv_update. rewrite H. destruct it; reflexivity. Qed.

  Lemma dec_consumes_head s e rest : q_d s = e :: rest -> q_d (fst (dec_update cfg s)) = rest.
  Proof. intro H. unfold dec_update. rewrite H. destruct (local_step cfg (dec s) e) as [[d' n]|k]; reflexivity. Qed.

  Lemma prod_consumes_head s x rest : q_p s = x :: rest -> q_p (fst (prod_update c s)) = rest /\ snd (prod_update c s) = true.
  Proof. intro H. unfold prod_update. rewrite H. destruct x. simpl. auto. Qed.

  Lemma fwd_consumes_head s ce rest : q_f s = ce :: rest -> q_f (fst (fwd_update c s)) = rest /\ snd (fwd_update c s) = true.
  Proof.
    intro H. unfold fwd_update. rewrite H.
    destruct (act c (ev_ph ce)) as [a|]; simpl.
    - destruct (q_h s ++ _) eqn:Eh; simpl; auto.
    - destruct (q_h s); simpl; auto.
  Qed.

  (* the while loops stop because the task reports no change, never because the fuel ran out:
     one more unit of fuel changes nothing *)
  Definition fuel_ok (f : estate -> estate * bool) (measure : estate -> nat) : Prop :=
    forall s, snd (f s) = true -> (measure (fst (f s)) < measure s)%nat.

  Lemma loop_while_fuel_enough f measure :
    fuel_ok f measure -> forall fuel s, (measure s < fuel)%nat -> loop_while f fuel s = loop_while f (S fuel) s.
  Proof.
    intro Hok. induction fuel as [|k IH]; intros s Hm; [lia|].
    cbn [loop_while]. specialize (Hok s). destruct (f s) as [s' b]. simpl in Hok. destruct b; [|reflexivity].
    specialize (Hok eq_refl). rewrite (IH s') by lia. reflexivity.
  Qed.

  Lemma recv_fuel : fuel_ok recv_update (fun s => length (q_r s)).
  Proof. intros s. unfold recv_update. destruct (q_r s) as [|[d|e] rest]; simpl; intro H; try discriminate; lia. Qed.

  Lemma dec_fuel : fuel_ok (dec_update cfg) (fun s => length (q_d s)).
  Proof.
    intros s. unfold dec_update. destruct (q_d s) as [|e rest]; simpl; [discriminate|].
    destruct (local_step cfg (dec s) e) as [[d' n]|k]; simpl; intro H; lia.
  Qed.

  Lemma prod_fuel : fuel_ok (prod_update c) (fun s => length (q_p s)).
  Proof. intros s. unfold prod_update. destruct (q_p s) as [|[r l] rest]; simpl; intro H; try discriminate; lia. Qed.

  Lemma fwd_fuel : fuel_ok (fwd_update c) (fun s => (2 * length (q_f s) + length (q_h s))%nat).
  Proof.
    intros s. unfold fwd_update. destruct (q_f s) as [|ce rest] eqn:Ef.
    - destruct (q_h s) as [|h hr] eqn:Eh; simpl; [discriminate|]. rewrite Ef. simpl. lia.
    - destruct (act c (ev_ph ce)) as [a|]; simpl.
      + destruct (q_h s) as [|h hr] eqn:Eh; simpl; intros _; rewrite ?app_length; simpl; lia.
      + destruct (q_h s) as [|h hr] eqn:Eh; simpl; intros _; lia.
  Qed.
End Inv.
