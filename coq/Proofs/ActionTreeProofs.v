(* Proofs about Model/ActionTree.v: a sequential multi-action over arbitrary sub-actions (leaves or nested
   multi-actions) reports exactly one entry - its own (success, data) - per sub-action it executed, in order;
   with stop-on-fail nothing after the first failing sub-action is executed (none of its leaves either);
   the success flag is the conjunction of the reported flags.  Inlining nested multi-actions is refuted. *)
From Bobo Require Import Base.Prelude Model.Action Model.ActionTree Proofs.ActionProofs.

Definition r_ok (r : bool * rdata * list nat) : bool := fst (fst r).
Definition r_data (r : bool * rdata * list nat) : rdata := snd (fst r).
Definition r_log (r : bool * rdata * list nat) : list nat := snd r.

(* the sub-actions that run: all of them, or those up to and including the first failing one *)
Fixpoint upto_fail_r (rs : list (bool * rdata * list nat)) : list (bool * rdata * list nat) :=
  match rs with
  | [] => []
  | r :: rest => if r_ok r then r :: upto_fail_r rest else [r]
  end.

Definition ran (stop : bool) (rs : list (bool * rdata * list nat)) : list (bool * rdata * list nat) :=
  if stop then upto_fail_r rs else rs.

Lemma ran_cons_true stop r rest : r_ok r = true -> ran stop (r :: rest) = r :: ran stop rest.
Proof. intro H. destruct stop; simpl; [rewrite H|]; reflexivity. Qed.

Lemma forallb_map' {A B} (f : A -> B) (p : B -> bool) (l : list A) :
  forallb p (map f l) = forallb (fun x => p (f x)) l.
Proof. induction l as [|x l IH]; simpl; [reflexivity|now rewrite IH]. Qed.

Lemma tree_loop_spec : forall stop rs s d l,
  tree_loop stop rs s d l =
  (s && forallb r_ok (ran stop rs),
   RList (d ++ map (fun r => (r_ok r, r_data r)) (ran stop rs)),
   l ++ concat (map r_log (ran stop rs))).
Proof.
  intros stop rs. induction rs as [|r rest IH]; intros s d l.
  - destruct stop; simpl; rewrite andb_true_r, !app_nil_r; reflexivity.
  - destruct r as [[ok dd] lg]. simpl tree_loop. destruct ok eqn:Hok.
    + rewrite IH, (ran_cons_true stop (true, dd, lg) rest eq_refl). simpl.
      rewrite <- !app_assoc. reflexivity.
    + destruct stop.
      * simpl. rewrite andb_false_r, app_nil_r. reflexivity.
      * rewrite IH. simpl. rewrite andb_false_r, <- !app_assoc. reflexivity.
Qed.

(* full functional characterisation of a multi-action in terms of what its sub-actions yield *)
Theorem exec_multi_spec : forall stop subs,
  exec (AMulti stop subs) =
  (forallb r_ok (ran stop (map exec subs)),
   RList (map (fun r => (r_ok r, r_data r)) (ran stop (map exec subs))),
   concat (map r_log (ran stop (map exec subs)))).
Proof. intros. simpl. rewrite tree_loop_spec. reflexivity. Qed.

Lemma upto_fail_r_prefix : forall rs, exists post, rs = upto_fail_r rs ++ post.
Proof.
  induction rs as [|r rest [post IH]]; [exists []; reflexivity|]. simpl. destruct (r_ok r).
  - exists post. simpl. now rewrite <- IH.
  - exists rest. reflexivity.
Qed.

Lemma ran_prefix stop rs : exists post, rs = ran stop rs ++ post.
Proof. destruct stop; simpl; [apply upto_fail_r_prefix|exists []; now rewrite app_nil_r]. Qed.

(* one reported entry per executed sub-action, and the executed ones are an initial segment of the given ones *)
Theorem multi_reports_one_entry_per_executed_sub : forall stop subs,
  exists k, (k <= length subs)%nat /\
    r_data (exec (AMulti stop subs)) = RList (map (fun a => (r_ok (exec a), r_data (exec a))) (firstn k subs)) /\
    r_log (exec (AMulti stop subs)) = concat (map (fun a => r_log (exec a)) (firstn k subs)) /\
    r_ok (exec (AMulti stop subs)) = forallb (fun a => r_ok (exec a)) (firstn k subs).
Proof.
  intros stop subs. rewrite exec_multi_spec. unfold r_data at 1, r_log at 1, r_ok at 1. simpl.
  destruct (ran_prefix stop (map exec subs)) as [post Hp].
  remember (ran stop (map exec subs)) as R eqn:HR.
  exists (length R).
  assert (Hlen : (length R <= length subs)%nat).
  { rewrite <- (map_length exec subs), Hp, app_length. lia. }
  split; [exact Hlen|].
  assert (Hf : R = map exec (firstn (length R) subs)).
  { rewrite <- firstn_map, Hp, firstn_app, Nat.sub_diag, firstn_all. simpl. now rewrite app_nil_r. }
  repeat split.
  - rewrite Hf at 1. now rewrite map_map.
  - rewrite Hf at 1. now rewrite map_map.
  - rewrite Hf at 1. now rewrite forallb_map'.
Qed.

(* without stop-on-fail every sub-action is executed *)
Theorem multi_nostop_runs_all : forall subs,
  r_data (exec (AMulti false subs)) = RList (map (fun a => (r_ok (exec a), r_data (exec a))) subs) /\
  r_log (exec (AMulti false subs)) = concat (map (fun a => r_log (exec a)) subs).
Proof. intros. rewrite exec_multi_spec. simpl. unfold r_data, r_log. simpl. now rewrite !map_map. Qed.

(* with stop-on-fail: if sub-action number i is the first to fail, exactly subs[0..i] ran *)
Theorem multi_stop_after_first_failure : forall pre a post,
  forallb (fun x => r_ok (exec x)) pre = true -> r_ok (exec a) = false ->
  r_log (exec (AMulti true (pre ++ a :: post))) = concat (map (fun x => r_log (exec x)) (pre ++ [a])) /\
  r_data (exec (AMulti true (pre ++ a :: post))) = RList (map (fun x => (r_ok (exec x), r_data (exec x))) (pre ++ [a])) /\
  r_ok (exec (AMulti true (pre ++ a :: post))) = false.
Proof.
  intros pre a post Hpre Ha. rewrite exec_multi_spec. unfold r_data at 1, r_log at 1, r_ok at 1. simpl.
  assert (H : upto_fail_r (map exec (pre ++ a :: post)) = map exec (pre ++ [a])).
  { induction pre as [|p pre IH]; simpl in *.
    - now rewrite Ha.
    - apply andb_true_iff in Hpre as [Hp Hrest]. rewrite Hp. f_equal. now apply IH. }
  rewrite H, !map_map, forallb_map'. repeat split. rewrite forallb_app. simpl. rewrite Ha. now rewrite andb_false_r.
Qed.

(* leaves only: the tree model is the flat model of Model/Action.v *)
Definition leaf_of (i : nat) (o : bool * Z) : act := ALeaf i (fst o) (snd o).

Fixpoint leaves_from (i : nat) (outs : list (bool * Z)) : list act :=
  match outs with [] => [] | o :: rest => leaf_of i o :: leaves_from (S i) rest end.

Lemma flat_loop_agrees : forall stop outs i s d l,
  tree_loop stop (map exec (leaves_from i outs)) s (map (fun o => (fst o, RVal (snd o))) d) l =
  let '(s', d', l') := multi_loop stop outs i s d l in (s', RList (map (fun o => (fst o, RVal (snd o))) d'), l').
Proof.
  intros stop outs. induction outs as [|o rest IH]; intros i s d l; [reflexivity|].
  destruct o as [ok v]. simpl. destruct ok.
  - specialize (IH (S i) s (d ++ [(true, v)]) (l ++ [i])). rewrite map_app in IH. simpl in IH. exact IH.
  - destruct stop.
    + now rewrite map_app.
    + specialize (IH (S i) false (d ++ [(false, v)]) (l ++ [i])). rewrite map_app in IH. simpl in IH. exact IH.
Qed.

Theorem tree_of_leaves_is_flat_model : forall stop outs,
  exec (AMulti stop (leaves_from 0 outs)) =
  (fst (multi_exec stop outs), RList (map (fun o => (fst o, RVal (snd o))) (snd (multi_exec stop outs))),
   multi_trace stop outs).
Proof.
  intros. simpl. pose proof (flat_loop_agrees stop outs 0%nat true [] []) as H. simpl in H. rewrite H.
  unfold multi_exec, multi_trace, multi_run. destruct (multi_loop stop outs 0 true [] []) as [[s d] l]. reflexivity.
Qed.

(* inlining a nested multi-action changes what is executed and what is reported *)
Definition nest_ex : list act :=
  [ALeaf 0 true 10; AMulti false [ALeaf 1 false 11; ALeaf 2 true 12]; ALeaf 3 true 13]%nat.

Lemma inlining_nested_refuted :
  exec (AMulti true nest_ex) =
    (false, RList [(true, RVal 10); (false, RList [(false, RVal 11); (true, RVal 12)])], [0; 1; 2]%nat) /\
  exec (AMulti true (inline_nested nest_ex)) =
    (false, RList [(true, RVal 10); (false, RVal 11)], [0; 1]%nat).
Proof. split; vm_compute; reflexivity. Qed.
