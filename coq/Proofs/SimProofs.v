(* C04, concrete side: a cluster of decider models exchanging arbitrary messages made of announced facts is an
   instance of the abstract replication system; hence it converges. *)
From Bobo Require Import Base.Prelude Base.History Model.Pattern Model.Run Model.Decider Model.Cluster Model.Converge Model.ConvergeC.
From Bobo Require Import Proofs.RunProofs Proofs.DeciderLemmas Proofs.DeciderProofs Proofs.StepProofs.
From Bobo Require Import Proofs.RemoteProofs Proofs.ConvergeProofs Proofs.JoinProofs Proofs.LocalProofs.

Section Sim.
  Variable E : Type.
  Variable owner : Z -> Z * Z.
  Variable cfg : config E.               (* phenomena and memory size, the same on every instance *)
  Variable gen : nat -> nat -> Z.        (* run-id supply of each instance *)

  (* a cluster: the decider state of every instance and everything announced so far *)
  Record ccl := mkC { c_st : nat -> dstate E; c_em : list fact }.

  Definition abs (c : ccl) : asys := mkA (fun k id => cstatus owner (c_st c k) id) (c_em c).

  Definition good (c : ccl) : Prop :=
    forall k, Inv E (icfg cfg gen k) (d_runs (c_st c k)) /\ owner_ok owner (d_runs (c_st c k)).

  Inductive cstep : ccl -> ccl -> Prop :=
  (* instance i takes an event from its queue *)
  | C_local i (c c' : ccl) (e : E) (n : note E) :
      local_step (icfg cfg gen i) (c_st c i) e = Ok (c_st c' i, n) ->
      room (icfg cfg gen i) (c_st c i) n -> note_owned E owner n ->
      (forall k, k <> i -> c_st c' k = c_st c k) ->
      c_em c' = c_em c ++ mfacts i n ->
      cstep c c'
  (* instance j handles a message: any well-formed record lists whose facts were announced before by anyone
     (a note, a merged backlog, a snapshot, a duplicate, a message overtaken by another one ...) *)
  | C_deliver i j (c c' : ccl) (m n : note E) :
      (forall f, In f (mfacts i m) -> In f (c_em c)) ->
      wf_msg owner (icfg cfg gen j) m -> room (icfg cfg gen j) (c_st c j) m ->
      remote_apply (icfg cfg gen j) (c_st c j) m = (c_st c' j, n) ->
      (forall k, k <> j -> c_st c' k = c_st c k) ->
      c_em c' = c_em c ->
      cstep c c'.

  Inductive csteps : ccl -> ccl -> Prop :=
  | CS_refl c : csteps c c
  | CS_step a b c : csteps a b -> cstep b c -> csteps a c.

  Hypothesis nonsingle : forall ph pat p, get_pattern cfg ph pat = Some p -> p_single p = false.
  Hypothesis cfgwf : cfg_wf E cfg.
  Hypothesis caching : c_maxcache cfg <> O.

  Lemma icfg_get k ph pat : get_pattern (icfg cfg gen k) ph pat = get_pattern cfg ph pat.
  Proof. reflexivity. Qed.

  Theorem cstep_refines c c' : good c -> cstep c c' -> astep (abs c) (abs c') /\ good c'.
  Proof.
    intros Hg Hs. destruct Hs as [i c c' e n Hl Hroom Hown Hoth Hem | i j c c' m n Hsub Hwf Hroom Hr Hoth Hem].
    - destruct (Hg i) as [Hinv Hok].
      destruct (local_mono_truthful E owner (icfg cfg gen i) i (c_st c i) (c_st c' i) e n cfgwf caching Hroom Hown Hinv Hok Hl)
        as [Hmono [Htruth [Hinv' Hok']]].
      split.
      + apply (A_local i (abs c) (abs c') (mfacts i n)); simpl; auto.
        intros k id Hk. now rewrite (Hoth k Hk).
      + intro k. destruct (Nat.eq_dec k i) as [->|Hk]; [split; assumption|]. rewrite (Hoth k Hk). apply Hg.
    - destruct (Hg j) as [Hinv Hok].
      destruct (remote_join E owner (icfg cfg gen j) i (c_st c j) (c_st c' j) m n nonsingle caching Hroom Hwf Hinv Hok Hr)
        as [Hjoin [Hinv' Hok']].
      split.
      + apply (A_deliver j (abs c) (abs c') (mfacts i m)); simpl; auto.
        intros k id Hk. now rewrite (Hoth k Hk).
      + intro k. destruct (Nat.eq_dec k j) as [->|Hk]; [split; assumption|]. rewrite (Hoth k Hk). apply Hg.
  Qed.

  Theorem csteps_refine c c' : good c -> csteps c c' -> asteps (abs c) (abs c') /\ good c'.
  Proof.
    intros Hg Hs. induction Hs as [c|a b c _ IH Hs]; [split; [apply AS_refl|exact Hg]|].
    destruct (IH Hg) as [Ha Hgb]. destruct (cstep_refines b c Hgb Hs) as [Hstep Hgc].
    split; [eapply AS_step; eauto|exact Hgc].
  Qed.

  Definition c_init : ccl := mkC (fun _ => d_init) [].

  Lemma good_init : good c_init.
  Proof. intro k. split; [apply Inv_nil|]. intros ph pat r H. unfold bucket in H. simpl in H. contradiction. Qed.

  Lemma abs_init_status : forall k id, a_status (abs c_init) k id = Absent.
  Proof. reflexivity. Qed.

  (* Convergence of the decider model: along EVERY execution of local events and arbitrary deliveries, once every
     announced fact has reached each of the n instances, all of them hold every run at the same status *)
  Theorem concrete_convergence n c :
    csteps c_init c -> all_delivered n (abs c) ->
    forall j k id, (j < n)%nat -> (k < n)%nat -> cstatus owner (c_st c j) id = cstatus owner (c_st c k) id.
  Proof.
    intros Hs Hd j k id Hj Hk.
    destruct (csteps_refine c_init c good_init Hs) as [Ha _].
    assert (Hinit : held_emitted (abs c_init)) by (intros x y H; exfalso; apply H; reflexivity).
    pose proof (held_emitted_steps _ _ Ha Hinit) as Hheld.
    exact (convergence n (abs c) Hheld Hd j k id Hj Hk).
  Qed.

  (* progress never moves a run backwards on any instance, along any execution *)
  Theorem concrete_never_backwards c c' :
    good c -> csteps c c' -> forall k id, st_le (cstatus owner (c_st c k) id) (cstatus owner (c_st c' k) id) = true.
  Proof.
    intros Hg Hs k id. destruct (csteps_refine c c' Hg Hs) as [Ha _].
    exact (asteps_monotone _ _ Ha k id).
  Qed.

  (* C05 over histories: once an instance has seen a run halt or complete, it stays finished there, whatever is
     processed or delivered afterwards *)
  Theorem finished_is_absorbing c c' k id :
    good c -> csteps c c' -> st_le Halted (cstatus owner (c_st c k) id) = true ->
    st_le Halted (cstatus owner (c_st c' k) id) = true.
  Proof.
    intros Hg Hs Hf. eapply st_le_trans; [exact Hf|]. now apply concrete_never_backwards.
  Qed.

  (* ... and a completion stays a completion *)
  Theorem completed_is_absorbing c c' k id :
    good c -> csteps c c' -> cstatus owner (c_st c k) id = Completed -> cstatus owner (c_st c' k) id = Completed.
  Proof.
    intros Hg Hs Hc. pose proof (concrete_never_backwards c c' Hg Hs k id) as H. rewrite Hc in H.
    destruct (cstatus owner (c_st c' k) id); simpl in H; congruence.
  Qed.

  (* what "delivered" gives: after instance j has handled a message, it is at least as advanced as every fact in it *)
  Theorem delivered_fact_reached i j c c' (m n : note E) f :
    good c -> wf_msg owner (icfg cfg gen j) m -> room (icfg cfg gen j) (c_st c j) m ->
    remote_apply (icfg cfg gen j) (c_st c j) m = (c_st c' j, n) ->
    In f (mfacts i m) -> st_le (snd f) (cstatus owner (c_st c' j) (snd (fst f))) = true.
  Proof.
    intros Hg Hwf Hroom Hr Hf. destruct (Hg j) as [Hinv Hok].
    destruct (remote_join E owner (icfg cfg gen j) i (c_st c j) (c_st c' j) m n nonsingle caching Hroom Hwf Hinv Hok Hr)
      as [Hjoin _].
    rewrite Hjoin. now apply join_facts_ge_fact.
  Qed.
End Sim.
