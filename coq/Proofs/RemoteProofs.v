(* The remote path (on_distributed_update): what the finished-run memory and the precedence inside a
   message guarantee.  Used by C05, C04, C06. *)
From Bobo Require Import Base.Prelude Base.History Model.Pattern Model.Run Model.Decider.
From Bobo Require Import Proofs.RunProofs Proofs.DeciderLemmas Proofs.DeciderProofs Proofs.StepProofs.

Section RemoteProofs.
  Variable E : Type.
  Notation run := (run E).
  Notation runtab := (runtab E).
  Notation pattern := (pattern E).
  Notation config := (config E).
  Notation dstate := (dstate E).
  Notation rserial := (rserial E).
  Notation note := (note E).

  Definition remembered (s : dstate) (id : Z) : bool :=
    zmem id (ids_of (d_cc s)) || zmem id (ids_of (d_ch s)).

  Lemma zmem_in x l : zmem x l = true <-> In x l.
  Proof.
    unfold zmem. rewrite existsb_exists. split.
    - intros [y [Hy Heq]]. apply Z.eqb_eq in Heq. now subst.
    - intro H. exists x. split; [exact H|apply Z.eqb_refl].
  Qed.

  (* ---------- the filter ---------- *)
  Lemma filter_upd_spec cfg (s : dstate) (m : note) rc :
    In rc (n_upd (filter_msg cfg s m)) ->
    In rc (n_upd m) /\ zmem (s_id rc) (ids_of (n_comp m)) = false /\ zmem (s_id rc) (ids_of (n_halt m)) = false /\
    (c_maxcache cfg <> O -> remembered s (s_id rc) = false).
  Proof.
    unfold filter_msg, remembered. destruct (c_maxcache cfg) eqn:Em; simpl; rewrite ?filter_In.
    - rewrite andb_true_iff, !negb_true_iff. intros [H1 [H2 H3]]. repeat split; auto. congruence.
    - rewrite !andb_true_iff, !negb_true_iff. intros [[H1 [H2 H3]] [H4 H5]]. repeat split; auto.
      intros _. now rewrite H4, H5.
  Qed.

  Lemma filter_halt_spec cfg (s : dstate) (m : note) rc :
    In rc (n_halt (filter_msg cfg s m)) ->
    In rc (n_halt m) /\ zmem (s_id rc) (ids_of (n_comp m)) = false /\
    (c_maxcache cfg <> O -> remembered s (s_id rc) = false).
  Proof.
    unfold filter_msg, remembered. destruct (c_maxcache cfg) eqn:Em; simpl; rewrite ?filter_In.
    - rewrite negb_true_iff. intros [H1 H2]. repeat split; auto. congruence.
    - rewrite !andb_true_iff, !negb_true_iff. intros [[H1 H2] [H4 H5]]. repeat split; auto.
      intros _. now rewrite H4, H5.
  Qed.

  Lemma filter_comp_spec cfg (s : dstate) (m : note) rc :
    In rc (n_comp (filter_msg cfg s m)) ->
    In rc (n_comp m) /\ (c_maxcache cfg <> O -> zmem (s_id rc) (ids_of (d_cc s)) = false).
  Proof.
    unfold filter_msg. destruct (c_maxcache cfg) eqn:Em; simpl; rewrite ?filter_In.
    - intro H. split; [exact H|congruence].
    - rewrite negb_true_iff. intros [H1 H2]. auto.
  Qed.

  (* conflicts resolve as documented, inside one message and against the memory *)
  Corollary completion_beats_halt cfg (s : dstate) (m : note) rc :
    In rc (n_halt (filter_msg cfg s m)) -> ~ In (s_id rc) (ids_of (n_comp m)).
  Proof. intros H Hin. apply filter_halt_spec in H. destruct H as [_ [H _]]. apply zmem_in in Hin. congruence. Qed.

  Corollary halt_beats_progress cfg (s : dstate) (m : note) rc :
    In rc (n_upd (filter_msg cfg s m)) ->
    ~ In (s_id rc) (ids_of (n_comp m)) /\ ~ In (s_id rc) (ids_of (n_halt m)).
  Proof.
    intro H. apply filter_upd_spec in H. destruct H as [_ [H1 [H2 _]]].
    split; intro Hin; apply zmem_in in Hin; congruence.
  Qed.

  (* ---------- where the runs of the table after a remote message come from ---------- *)
  Lemma apply_finished_subset cfg which recs : forall (rt : runtab) cc ch rt' cc' ch' out ph pat r,
    apply_finished cfg which recs rt cc ch = (rt', cc', ch', out) ->
    In r (bucket ph pat rt') -> In r (bucket ph pat rt).
  Proof.
    induction recs as [|rc rest IH]; intros rt cc ch rt' cc' ch' out ph pat r H Hin.
    - simpl in H. injection H as <- _ _ _. exact Hin.
    - simpl in H. destruct (get_pattern cfg (s_ph rc) (s_pat rc)) as [p|]; [|eauto].
      assert (G : forall ph0 pat0 id0 cc0 ch0 rt2 cc2 ch2 out2,
                 apply_finished cfg which rest (rt_remove ph0 pat0 id0 rt) cc0 ch0 = (rt2, cc2, ch2, out2) ->
                 In r (bucket ph pat rt2) -> In r (bucket ph pat rt)).
      { intros ph0 pat0 id0 cc0 ch0 rt2 cc2 ch2 out2 Ha Hr. specialize (IH _ _ _ _ _ _ _ ph pat r Ha Hr).
        rewrite bucket_remove in IH. destruct (same ph0 pat0 ph pat); [|exact IH].
        now apply filter_In in IH. }
      destruct (if p_single p then bucket (s_ph rc) (p_name p) rt else []) as [|rl rls].
      + destruct (apply_finished cfg which rest _ cc ch) as [[[rt2 cc2] ch2] out2] eqn:Ea. cbn in H.
        injection H as <- _ _ _. eauto.
      + destruct (Z.eqb (s_id rc) (r_id rl)).
        * destruct (apply_finished cfg which rest _ cc ch) as [[[rt2 cc2] ch2] out2] eqn:Ea. cbn in H.
          injection H as <- _ _ _. eauto.
        * destruct (apply_finished cfg which rest _ _ _) as [[[rt2 cc2] ch2] out2] eqn:Ea. cbn in H.
          injection H as <- _ _ _. eauto.
  Qed.

  Lemma apply_updated_origin cfg d3 recs : forall (rt rt' : runtab) out ph pat r',
    apply_updated cfg d3 recs rt = (rt', out) -> In r' (bucket ph pat rt') ->
    (exists r, In r (bucket ph pat rt) /\ r_id r = r_id r') \/ (exists rc, In rc recs /\ s_id rc = r_id r').
  Proof.
    induction recs as [|rc rest IH]; intros rt rt' out ph pat r' H Hin.
    - simpl in H. injection H as <- _. left. exists r'. auto.
    - simpl in H. destruct (get_pattern cfg (s_ph rc) (s_pat rc)) as [p|] eqn:Eg.
      2:{ destruct (IH _ _ _ ph pat r' H Hin) as [Hl|[rc' [Hr Hid]]]; [now left|right; exists rc'; split; [now right|auto]]. }
      destruct (if p_single p then hd_error (bucket (s_ph rc) (p_name p) rt)
                else run_at (s_ph rc) (s_pat rc) (s_id rc) rt) as [rl|] eqn:Erl.
      + destruct (apply_updated cfg d3 rest _) as [rt2 out2] eqn:Ea. cbn in H. injection H as <- _.
        destruct (IH _ _ _ ph pat r' Ea Hin) as [[r [Hr Hid]]|[rc' [Hr Hid]]]; [|right; exists rc'; split; [now right|auto]].
        left. rewrite bucket_replace in Hr. destruct (same (s_ph rc) (p_name p) ph pat); [|exists r; split; assumption].
        apply in_map_iff in Hr. destruct Hr as [x [Hx Hxin]]. exists x. split; [exact Hxin|].
        destruct (Z.eqb_spec (r_id x) (r_id (if ahead d3 rc rl then set_block rl (s_idx rc) (s_hist rc) else rl))) as [He|];
          subst r; [|exact Hid]. rewrite <- Hid. exact He.
      + destruct (apply_updated cfg d3 rest _) as [rt2 out2] eqn:Ea. cbn in H. injection H as <- _.
        destruct (IH _ _ _ ph pat r' Ea Hin) as [[r [Hr Hid]]|[rc' [Hr Hid]]]; [|right; exists rc'; split; [now right|auto]].
        destruct (rt_add (s_ph rc) (s_pat rc) (remote_run (s_id rc) (s_ph rc) p (s_idx rc) (s_hist rc)) rt)
          as [rt1|] eqn:Eadd; [|left; exists r; split; assumption].
        rewrite (bucket_add E _ _ _ _ _ ph pat Eadd) in Hr. destruct (same (s_ph rc) (s_pat rc) ph pat) eqn:Esame.
        * unfold same in Esame. apply andb_true_iff in Esame. destruct Esame as [Es1 Es2].
          apply Z.eqb_eq in Es1, Es2. subst ph pat. apply in_app_iff in Hr. destruct Hr as [Hr|[<-|[]]]; [left; exists r; split; assumption|].
          right. exists rc. split; [now left|exact Hid].
        * left. exists r. split; assumption.
  Qed.

  (* C05: no message can make a finished run active again.  Every run of the table after a remote message
     either was active before (same id), or carries an id that this instance does not remember as finished
     and that the message itself does not declare finished. *)
  Theorem no_resurrection cfg (s s' : dstate) (m n : note) ph pat r' :
    remote_apply cfg s m = (s', n) -> In r' (bucket ph pat (d_runs s')) ->
    (exists r, In r (bucket ph pat (d_runs s)) /\ r_id r = r_id r') \/
    (~ In (r_id r') (ids_of (n_comp m)) /\ ~ In (r_id r') (ids_of (n_halt m)) /\
     (c_maxcache cfg <> O -> remembered s (r_id r') = false)).
  Proof.
    unfold remote_apply, remote_apply_gen. intros H Hin.
    destruct (apply_finished cfg true _ (d_runs s) _ _) as [[[rt1 cc1] ch1] comp] eqn:E1.
    destruct (apply_finished cfg false _ rt1 cc1 ch1) as [[[rt2 cc2] ch2] hlt] eqn:E2.
    destruct (apply_updated cfg true _ rt2) as [rt3 upd] eqn:E3.
    injection H as <- _. simpl in Hin.
    destruct (apply_updated_origin cfg true _ _ _ _ ph pat r' E3 Hin) as [[r [Hr Hid]]|[rc [Hrc Hid]]].
    - left. exists r. split; [|exact Hid].
      eapply apply_finished_subset; eauto. eapply apply_finished_subset; eauto.
    - right. rewrite <- Hid. destruct (halt_beats_progress _ _ _ _ Hrc) as [H1 H2].
      apply filter_upd_spec in Hrc. tauto.
  Qed.

  (* ---------- the completed notification of a remote step ---------- *)
  Lemma apply_finished_out cfg which recs : forall (rt : runtab) cc ch rt' cc' ch' out x,
    apply_finished cfg which recs rt cc ch = (rt', cc', ch', out) -> In x out ->
    In x recs \/ exists rl, In rl (rt_all rt) /\ x = ser rl.
  Proof.
    induction recs as [|rc rest IH]; intros rt cc ch rt' cc' ch' out x H Hin.
    - simpl in H. injection H as _ _ _ <-. contradiction.
    - simpl in H. destruct (get_pattern cfg (s_ph rc) (s_pat rc)) as [p|].
      2:{ destruct (IH _ _ _ _ _ _ _ x H Hin) as [Hl|Hr]; [left; now right|now right]. }
      assert (G : forall ph0 pat0 id0 cc0 ch0 rt2 cc2 ch2 out2,
                 apply_finished cfg which rest (rt_remove ph0 pat0 id0 rt) cc0 ch0 = (rt2, cc2, ch2, out2) ->
                 In x out2 -> In x rest \/ exists rl, In rl (rt_all rt) /\ x = ser rl).
      { intros ph0 pat0 id0 cc0 ch0 rt2 cc2 ch2 out2 Ha Hx.
        destruct (IH _ _ _ _ _ _ _ x Ha Hx) as [Hl|[rl [Hrl Heq]]]; [now left|right].
        exists rl. split; [|exact Heq]. apply in_rt_all in Hrl. apply in_rt_all.
        destruct Hrl as [ph1 [m1 [pat1 [rs1 [A [B C]]]]]]. unfold rt_remove in A.
        apply in_map_iff in A. destruct A as [[ph2 m2] [Heq2 Hin2]].
        simpl in Heq2. destruct (Z.eqb ph2 ph0); simpl in Heq2.
        - injection Heq2 as <- <-. apply in_map_iff in B. destruct B as [[pat3 rs3] [Heq3 Hin3]].
          simpl in Heq3. destruct (Z.eqb pat3 pat0); simpl in Heq3.
          + injection Heq3 as <- <-. apply filter_In in C. destruct C as [C _].
            exists ph2, m2, pat3, rs3. auto.
          + injection Heq3 as <- <-. exists ph2, m2, pat3, rs3. auto.
        - injection Heq2 as <- <-. exists ph2, m2, pat1, rs1. auto. }
      destruct (if p_single p then bucket (s_ph rc) (p_name p) rt else []) as [|rl rls] eqn:Eb.
      + destruct (apply_finished cfg which rest _ cc ch) as [[[rt2 cc2] ch2] out2] eqn:Ea. cbn in H.
        injection H as _ _ _ <-. destruct Hin as [<-|Hin]; [left; now left|].
        destruct (G _ _ _ _ _ _ _ _ _ Ea Hin) as [Hl|Hr]; [left; now right|now right].
      + assert (Hrl : In rl (rt_all rt)).
        { destruct (p_single p); [|discriminate]. eapply in_bucket_all. rewrite Eb. now left. }
        destruct (Z.eqb (s_id rc) (r_id rl)).
        * destruct (apply_finished cfg which rest _ cc ch) as [[[rt2 cc2] ch2] out2] eqn:Ea. cbn in H.
          injection H as _ _ _ <-. destruct Hin as [<-|Hin]; [left; now left|].
          destruct (G _ _ _ _ _ _ _ _ _ Ea Hin) as [Hl|Hr]; [left; now right|now right].
        * destruct (apply_finished cfg which rest _ _ _) as [[[rt2 cc2] ch2] out2] eqn:Ea. cbn in H.
          injection H as _ _ _ <-. destruct Hin as [<-|Hin]; [right; exists rl; auto|].
          destruct (G _ _ _ _ _ _ _ _ _ Ea Hin) as [Hl|Hr]; [left; now right|now right].
  Qed.

  (* a completion learned from a peer is passed on (as a complex event) only if this instance does not
     already remember the run as completed; the only other records in the list are local active runs of
     singleton patterns that the remote completion replaced *)
  Theorem remote_completed_not_remembered cfg (s s' : dstate) (m n : note) x :
    remote_apply cfg s m = (s', n) -> In x (n_comp n) ->
    (In x (n_comp m) /\ (c_maxcache cfg <> O -> zmem (s_id x) (ids_of (d_cc s)) = false)) \/
    (exists rl, In rl (rt_all (d_runs s)) /\ x = ser rl).
  Proof.
    unfold remote_apply, remote_apply_gen. intros H Hin.
    destruct (apply_finished cfg true _ (d_runs s) _ _) as [[[rt1 cc1] ch1] comp] eqn:E1.
    destruct (apply_finished cfg false _ rt1 cc1 ch1) as [[[rt2 cc2] ch2] hlt] eqn:E2.
    destruct (apply_updated cfg true _ rt2) as [rt3 upd] eqn:E3.
    injection H as _ <-. simpl in Hin.
    destruct (apply_finished_out _ _ _ _ _ _ _ _ _ _ x E1 Hin) as [Hl|Hr]; [left|now right].
    now apply filter_comp_spec in Hl.
  Qed.

  (* ---------- memory: what is cached stays cached while the deque does not overflow ---------- *)
  Lemma dq_push_in maxlen (x : rserial) l y :
    (length l < maxlen)%nat -> In y (dq_push maxlen x l) <-> In y l \/ y = x.
  Proof.
    intro Hl. unfold dq_push. destruct maxlen as [|k]; [lia|].
    rewrite app_length. simpl. replace (length l + 1 - S k)%nat with 0%nat by lia. simpl.
    rewrite in_app_iff. simpl. intuition.
  Qed.
End RemoteProofs.
