(* C13: a completed / halted record of a singleton pattern frees the pattern's slot, whatever the identifiers and the
   positions of the record and of the local copy. *)
From Bobo Require Import Base.Prelude Base.History Model.Pattern Model.Run Model.Decider.
From Bobo Require Import Proofs.RunProofs Proofs.DeciderLemmas Proofs.DeciderProofs.

Section SF.
  Variable E : Type.
  Notation run := (run E).
  Notation runtab := (runtab E).
  Notation pattern := (pattern E).
  Notation config := (config E).

  Lemma find_name (ps : list pattern) pat p :
    find (fun q => Z.eqb (p_name q) pat) ps = Some p -> p_name p = pat.
  Proof. intro H. apply find_some in H. destruct H as [_ H]. now apply Z.eqb_eq. Qed.

  Lemma get_pattern_name (cfg : config) ph pat p : get_pattern cfg ph pat = Some p -> p_name p = pat.
  Proof.
    unfold get_pattern. destruct (al_get ph (c_phen cfg)) as [ps|]; [|discriminate]. apply find_name.
  Qed.

  Lemma same_refl ph pat : same ph pat ph pat = true.
  Proof. unfold same. now rewrite !Z.eqb_refl. Qed.

  Theorem singleton_finish_frees_slot (cfg : config) (which : bool) (rc : rserial E) (rt : runtab)
          (cc ch : list (rserial E)) (p : pattern) :
    Inv E cfg rt -> get_pattern cfg (s_ph rc) (s_pat rc) = Some p -> p_single p = true ->
    bucket (s_ph rc) (s_pat rc) (fst (fst (fst (apply_finished cfg which [rc] rt cc ch)))) = [].
  Proof.
    intros (Hwf & Hkeys & Hnd & Hsingle) Hget Hs.
    pose proof (get_pattern_name cfg _ _ _ Hget) as Hname.
    pose proof (Hsingle _ _ _ Hget Hs) as Hlen.
    cbn [apply_finished]. rewrite Hget, Hs, Hname.
    destruct (bucket (s_ph rc) (s_pat rc) rt) as [|rl tl] eqn:Eb.
    - simpl. rewrite bucket_remove, same_refl, Eb. reflexivity.
    - assert (tl = []) as -> by (destruct tl; [reflexivity|simpl in Hlen; lia]).
      destruct (Hkeys (s_ph rc) (s_pat rc) rl) as [Hph Hpat]; [rewrite Eb; now left|].
      rewrite Hph, Hpat.
      destruct (Z.eqb (s_id rc) (r_id rl)); simpl;
        rewrite bucket_remove, same_refl, Eb; simpl; now rewrite Z.eqb_refl.
  Qed.
End SF.
