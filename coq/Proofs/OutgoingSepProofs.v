(* Provenance per list: whatever the link does, each of the three lists of every message built by the outgoing loop
   carries only records that were handed to it IN THAT LIST (by on_decider_update or by the decider's snapshot):
   nothing migrates between completed / halted / updated on its way through the queue and the per-peer backlog, and
   nothing is invented. *)
From Bobo Require Import Base.Prelude Model.Outgoing.

Section Sep.
  Variables Cs Hs Us : Z -> Prop.

  Definition nin (n : note) : Prop := Forall Cs (n_c n) /\ Forall Hs (n_h n) /\ Forall Us (n_u n).
  Definition pin (p : peer) : Prop := nin (stash p).
  Definition oin (s : ostate) : Prop := Forall pin (o_peers s) /\ Forall nin (o_queue s).
  Definition iin (s : istate) : Prop :=
    Forall pin (i_peers s) /\ Forall nin (i_queue s) /\ (forall n, i_cache s = Some n -> nin n).
  Definition evin (e : ev) : Prop := match e with EAtt a => nin (at_pay a) | EReset _ => True end.
  Definition actin (a : oact) : Prop :=
    match a with AEnq n => nin n | AIter _ snap _ => nin snap | AIn _ _ _ _ => True end.

  Lemma nin_empty : nin empty_note.
  Proof. repeat split; constructor. Qed.

  Lemma nin_app a b : nin a -> nin b -> nin (note_app a b).
  Proof. intros (A1 & A2 & A3) (B1 & B2 & B3). repeat split; simpl; apply Forall_app; auto. Qed.

  Lemma pin_set_lc v p : pin p -> pin (set_lc v p).   Proof. auto. Qed.
  Lemma pin_set_la v p : pin p -> pin (set_la v p).   Proof. auto. Qed.
  Lemma pin_set_fr b p : pin p -> pin (set_fr b p).   Proof. auto. Qed.
  Lemma pin_set_addr a p : pin p -> pin (set_addr a p). Proof. auto. Qed.
  Lemma pin_clear_last p : pin p -> pin (clear_last p). Proof. auto. Qed.
  Lemma pin_clear_stash p : pin (clear_stash p).      Proof. exact nin_empty. Qed.
  Lemma pin_append n p : nin n -> pin p -> pin (append_stash n p).
  Proof. intros Hn Hp. exact (nin_app (stash p) n Hp Hn). Qed.

  Lemma pin_pre_send m p : pin p -> pin (pre_send m p).
  Proof. destruct m; simpl; auto. intros _. apply pin_clear_stash. Qed.

  Lemma pin_post_send m fl err now' cache p : nin cache -> pin p -> pin (post_send m fl err now' cache p).
  Proof.
    intros Hc Hp. unfold post_send. apply pin_set_la. destruct err as [|e].
    - destruct fl; [apply pin_set_fr|]; apply pin_set_lc; destruct m; auto; apply pin_clear_stash.
    - destruct m; auto. now apply pin_append.
  Qed.

  Lemma nin_payload m snap cache p : nin snap -> nin cache -> pin p -> nin (payload m snap cache p).
  Proof. destruct m; simpl; intros; auto using nin_empty, nin_app. Qed.

  Lemma Forall_set_nth {A} (P : A -> Prop) i x (l : list A) : P x -> Forall P l -> Forall P (set_nth i x l).
  Proof.
    intros Hx. revert i. induction l as [|y l IH]; intros i Hl; [destruct i; simpl; constructor|].
    inversion Hl; subst. destruct i; simpl; constructor; auto.
  Qed.

  Lemma Forall_nth_error {A} (P : A -> Prop) (l : list A) i x : Forall P l -> nth_error l i = Some x -> P x.
  Proof. intros Hl Hn. rewrite Forall_forall in Hl. eapply Hl, nth_error_In, Hn. Qed.

  Lemma send_one_in now qe snap sends s im :
    nin snap -> iin s -> iin (fst (send_one now qe snap sends s im)) /\ Forall evin (snd (send_one now qe snap sends s im)).
  Proof.
    intros Hsnap (Hp & Hq & Hc). destruct im as [i m]. unfold send_one.
    destruct (nth_error (i_peers s) i) as [p|] eqn:En; [|simpl; split; [exact (conj Hp (conj Hq Hc))|constructor]].
    pose proof (Forall_nth_error pin _ _ _ Hp En) as Hpp.
    destruct (nth i sends (0, now)) as [outc now'].
    assert (Hsel : exists cache q', (match m with
                     | SYNC => let (n, q') := pop_queue (i_cache s) (i_queue s) in (Some n, q')
                     | _ => (i_cache s, i_queue s) end) = (cache, q') /\
                   Forall nin q' /\ (forall n, cache = Some n -> nin n)).
    { destruct m; [|exists (i_cache s), (i_queue s); auto|exists (i_cache s), (i_queue s); auto].
      unfold pop_queue. destruct (i_cache s) as [n|] eqn:Ec.
      - exists (Some n), (i_queue s). split; [reflexivity|]. split; [exact Hq|]. intros n0 [= <-]. now apply Hc.
      - destruct (i_queue s) as [|n q'] eqn:Eq.
        + exists (Some empty_note), []. split; [reflexivity|]. split; [constructor|]. intros n0 [= <-]. apply nin_empty.
        + inversion Hq; subst. exists (Some n), q'. split; [reflexivity|]. split; [assumption|]. intros n0 [= <-]. assumption. }
    destruct Hsel as (cache & q' & -> & Hq' & Hc').
    assert (Hcn : nin (match cache with Some n => n | None => empty_note end)).
    { destruct cache as [n|]; [now apply Hc'|apply nin_empty]. }
    simpl. split.
    - split; [|split; [exact Hq'|exact Hc']]. simpl.
      apply Forall_set_nth; auto. apply pin_post_send; auto. now apply pin_pre_send.
    - constructor; [|constructor]. simpl. apply nin_payload; auto. now apply pin_pre_send.
  Qed.

  Lemma send_all_in now qe snap sends ol : forall s,
    nin snap -> iin s -> iin (fst (send_all now qe snap sends s ol)) /\ Forall evin (snd (send_all now qe snap sends s ol)).
  Proof.
    induction ol as [|im ol IH]; intros s Hsnap Hst; simpl; [split; auto|].
    destruct (send_one_in now qe snap sends s im Hsnap Hst) as [H1 E1].
    destruct (send_one now qe snap sends s im) as [s1 e1]. simpl in *.
    destruct (IH s1 Hsnap H1) as [H2 E2].
    destruct (send_all now qe snap sends s1 ol) as [s2 e2]. simpl in *.
    split; [exact H2|apply Forall_app; auto].
  Qed.

  Lemma iter_init_in pf s : oin s -> iin (iter_init pf s).
  Proof.
    intros (Hp & Hq). unfold iter_init. destruct pf.
    - destruct (o_queue s) as [|n q'] eqn:Eq.
      + split; [exact Hp|]. split; [constructor|]. simpl. discriminate.
      + inversion Hq; subst. split; [exact Hp|]. split; [assumption|]. simpl. intros m [= <-]. assumption.
    - split; [exact Hp|]. split; [exact Hq|]. simpl. discriminate.
  Qed.

  Lemma step_in pf c s a : oin s -> actin a ->
    oin (fst (step_o pf c s a)) /\ Forall evin (snd (step_o pf c s a)).
  Proof.
    intros Hst Ha. destruct a as [n|now snap sends|from typ flags caddr]; simpl.
    - destruct Hst as (Hp & Hq). split; [|constructor]. split; simpl; [exact Hp|].
      apply Forall_app. split; [exact Hq|]. constructor; [exact Ha|constructor].
    - unfold iter_o.
      destruct (send_all_in now (is_nil (o_queue s)) snap sends
                            (decide_all c now (is_nil (o_queue s)) (o_peers s)) (iter_init pf s) Ha (iter_init_in pf s Hst))
        as [(H1 & H2 & _) E].
      destruct (send_all now (is_nil (o_queue s)) snap sends (iter_init pf s) _) as [s' es]. simpl in *.
      split; [split; assumption|assumption].
    - unfold in_handle. destruct Hst as (Hp & Hq).
      destruct (nth_error (o_peers s) from) as [p|] eqn:En; [|split; [split; assumption|constructor]].
      pose proof (Forall_nth_error pin _ _ _ Hp En) as Hpp.
      assert (Hp1 : pin (if caddr =? addr p then p else set_addr caddr p)) by (destruct (caddr =? addr p); auto).
      destruct (Z.land flags 1 =? 1); simpl.
      + split; [split; simpl; [|exact Hq]|constructor; [exact I|constructor]].
        apply Forall_set_nth; [now apply pin_clear_last|exact Hp].
      + split; [split; simpl; [|exact Hq]|constructor]. apply Forall_set_nth; auto.
  Qed.

  Lemma run_in pf c acts : forall s rl,
    oin s -> Forall actin acts -> Forall evin rl ->
    oin (fst (run_o pf c s acts rl)) /\ Forall evin (snd (run_o pf c s acts rl)).
  Proof.
    induction acts as [|a acts IH]; intros s rl Hst Ha Hrl; simpl; [split; auto|].
    inversion Ha; subst.
    destruct (step_in pf c s a Hst H1) as [Hs' Hes]. destruct (step_o pf c s a) as [s' es]. simpl in *.
    apply IH; auto. apply Forall_app. split; auto. apply Forall_rev. exact Hes.
  Qed.

  (* every message of every history *)
  Theorem lists_keep_their_records pf c s acts :
    oin s -> Forall actin acts -> Forall evin (log_of_o pf c s acts).
  Proof.
    intros Hst Ha. unfold log_of_o. apply Forall_rev. apply (run_in pf c acts s []); auto.
  Qed.
End Sep.

(* the three backlog lists of a peer being ONE list (devman.clear_stash written as a chained assignment): a record
   handed over as updated goes out as completed and halted as well *)
Definition append_aliased (n : note) (p : peer) : peer :=
  let all := st_c p ++ n_c n ++ n_h n ++ n_u n in mkPeer (lc p) (la p) (fr p) all all all (addr p).

Lemma aliased_backlog_leaks :
  let p := append_aliased (mkNote [] [] [7]) (mkPeer 0 0 false [] [] [] 0) in
  n_c (payload SYNC empty_note empty_note p) = [7] /\ n_h (payload SYNC empty_note empty_note p) = [7].
Proof. vm_compute. split; reflexivity. Qed.
