(* Proofs for Model/Locks.v (C08). *)
From Bobo Require Import Base.Prelude Model.Locks.

(* ---------------------------------------------------------------- reflection *)
Lemma memz_In : forall x l, memz x l = true <-> In x l.
Proof.
  intros x l. unfold memz. rewrite existsb_exists. split.
  - intros [y [Hy Heq]]. apply Z.eqb_eq in Heq. subst y. exact Hy.
  - intros Hin. exists x. split; [exact Hin | apply Z.eqb_refl].
Qed.

Lemma disjointb_disjoint : forall a b, disjointb a b = true <-> disjoint a b.
Proof.
  intros a b. unfold disjointb, disjoint. rewrite forallb_forall. split.
  - intros H x Hx Hb. specialize (H x Hx). apply negb_true_iff in H.
    apply memz_In in Hb. rewrite Hb in H. discriminate H.
  - intros H x Hx. apply negb_true_iff. destruct (memz x b) eqn:E; [|reflexivity].
    apply memz_In in E. exfalso. exact (H x Hx E).
Qed.

Lemma supports_spec : forall p q,
  supports p q = true <->
  In (req p) (held q) /\ disjoint (held p) (held q) /\ two_threads p q.
Proof.
  intros p q. unfold supports, two_threads.
  rewrite !andb_true_iff, orb_true_iff, negb_true_iff, memz_In, disjointb_disjoint, Z.eqb_neq.
  tauto.
Qed.

(* ---------------------------------------------------------------- self-supporting sets survive *)
Definition self_supporting (S ps : list pair) : Prop :=
  incl S ps /\ forall p, In p S -> exists q, In q S /\ supports p q = true.

Lemma self_supporting_step : forall S ps,
  self_supporting S ps -> self_supporting S (elim_step ps).
Proof.
  intros S ps [Hincl Hsup]. split; [|exact Hsup].
  intros p Hp. unfold elim_step. apply filter_In. split.
  - apply Hincl. exact Hp.
  - apply existsb_exists. destruct (Hsup p Hp) as [q [Hq Hs]].
    exists q. split; [apply Hincl; exact Hq | exact Hs].
Qed.

Lemma self_supporting_elim_n : forall n S ps,
  self_supporting S ps -> self_supporting S (elim_n n ps).
Proof.
  induction n as [|n IH]; intros S ps H; simpl.
  - exact H.
  - apply IH. apply self_supporting_step. exact H.
Qed.

Lemma self_supporting_survives : forall S ps p,
  self_supporting S ps -> In p S -> In p (elim ps).
Proof.
  intros S ps p H Hp. unfold elim.
  destruct (self_supporting_elim_n (length ps) S ps H) as [Hincl _].
  apply Hincl. exact Hp.
Qed.

(* ---------------------------------------------------------------- a deadlock is self-supporting *)
Lemma succ_mod_neq : forall i k, (2 <= k)%nat -> (i < k)%nat -> i <> (S i mod k)%nat.
Proof.
  intros i k Hk Hi. destruct (Nat.eq_dec (S i) k) as [E|E].
  - rewrite E. rewrite Nat.mod_same by lia. lia.
  - rewrite Nat.mod_small by lia. lia.
Qed.

Lemma deadlock_self_supporting : forall ps cyc, deadlock ps cyc -> self_supporting cyc ps.
Proof.
  intros ps cyc [Hlen [Hincl [Hpair Hnext]]]. split; [exact Hincl|].
  intros p Hp. apply In_nth_error in Hp. destruct Hp as [i Hi].
  destruct (Hnext i p Hi) as [q [Hq Hreq]].
  assert (Hlt : (i < length cyc)%nat).
  { apply nth_error_Some. rewrite Hi. discriminate. }
  assert (Hne : i <> (S i mod length cyc)%nat) by (apply succ_mod_neq; assumption).
  destruct (Hpair i (S i mod length cyc)%nat p q Hi Hq Hne) as [Hdis Htt].
  exists q. split.
  - eapply nth_error_In. exact Hq.
  - apply supports_spec. auto.
Qed.

Theorem elim_sound : forall ps, elim ps = [] -> forall cyc, ~ deadlock ps cyc.
Proof.
  intros ps He cyc Hd.
  pose proof (deadlock_self_supporting ps cyc Hd) as Hs.
  destruct Hd as [Hlen _].
  destruct cyc as [|p cyc']; [simpl in Hlen; lia|].
  assert (Hin : In p (elim ps)).
  { eapply self_supporting_survives; [exact Hs | left; reflexivity]. }
  rewrite He in Hin. exact Hin.
Qed.

(* stronger form: every fact of every deadlock state is among the survivors *)
Theorem deadlock_facts_survive : forall ps cyc p, deadlock ps cyc -> In p cyc -> In p (elim ps).
Proof.
  intros ps cyc p Hd Hp. eapply self_supporting_survives; [|exact Hp].
  apply deadlock_self_supporting. exact Hd.
Qed.

(* ---------------------------------------------------------------- 2-cycles: the checker is exact *)
Lemma disjoint_sym : forall a b, disjoint a b -> disjoint b a.
Proof. intros a b H x Hb Ha. exact (H x Ha Hb). Qed.

Theorem two_cycle_is_deadlock : forall ps p q,
  In p ps -> In q ps -> supports p q = true -> supports q p = true -> deadlock ps [p; q].
Proof.
  intros ps p q Hp Hq Hpq Hqp.
  apply supports_spec in Hpq. destruct Hpq as [Hr1 [Hd1 Ht1]].
  apply supports_spec in Hqp. destruct Hqp as [Hr2 [Hd2 Ht2]].
  unfold deadlock. split; [simpl; lia|]. split.
  - intros x [Hx|[Hx|[]]]; subst x; assumption.
  - split.
    + intros i j a b Hi Hj Hne.
      destruct i as [|[|i]]; destruct j as [|[|j]]; simpl in Hi, Hj;
        try (exfalso; apply Hne; reflexivity);
        try (destruct i; discriminate Hi); try (destruct j; discriminate Hj);
        inversion Hi; inversion Hj; subst a b; split; assumption.
    + intros i a Hi.
      destruct i as [|[|i]]; simpl in Hi.
      * inversion Hi; subst a. exists q. split; [reflexivity | exact Hr1].
      * inversion Hi; subst a. exists p. split; [reflexivity | exact Hr2].
      * destruct i; discriminate Hi.
Qed.

Theorem elim_complete_2 : forall ps p q,
  In p ps -> In q ps -> supports p q = true -> supports q p = true -> elim ps <> [].
Proof.
  intros ps p q Hp Hq Hpq Hqp He.
  assert (Hin : In p (elim ps)).
  { apply (self_supporting_survives [p; q] ps p); [|left; reflexivity].
    split.
    - intros x [Hx|[Hx|[]]]; subst x; assumption.
    - intros x [Hx|[Hx|[]]]; subst x.
      + exists q. split; [right; left; reflexivity | exact Hpq].
      + exists p. split; [left; reflexivity | exact Hqp]. }
  rewrite He in Hin. exact Hin.
Qed.

(* ---------------------------------------------------------------- elim really is a fixpoint *)
Lemma filter_length_le : forall (f : pair -> bool) l, (length (filter f l) <= length l)%nat.
Proof.
  intros f l. induction l as [|a l IH]; simpl; [lia|].
  destruct (f a); simpl; lia.
Qed.

Lemma filter_length_eq : forall (f : pair -> bool) l, length (filter f l) = length l -> filter f l = l.
Proof.
  intros f l. induction l as [|a l IH]; simpl; intros H; [reflexivity|].
  destruct (f a); simpl in H.
  - f_equal. apply IH. lia.
  - pose proof (filter_length_le f l). lia.
Qed.

Lemma elim_n_fix : forall n ps, elim_step ps = ps -> elim_n n ps = ps.
Proof.
  induction n as [|n IH]; intros ps H; simpl; [reflexivity|].
  rewrite H. apply IH. exact H.
Qed.

Lemma elim_n_fixpoint : forall n ps, (length ps <= n)%nat ->
  elim_step (elim_n n ps) = elim_n n ps.
Proof.
  induction n as [|n IH]; intros ps Hlen; simpl.
  - destruct ps; [reflexivity | simpl in Hlen; lia].
  - destruct (Nat.eq_dec (length (elim_step ps)) (length ps)) as [E|E].
    + assert (Hfix : elim_step ps = ps) by (apply filter_length_eq; exact E).
      rewrite Hfix. rewrite elim_n_fix by exact Hfix. exact Hfix.
    + apply IH. pose proof (filter_length_le (fun p => existsb (supports p) ps) ps) as Hle.
      unfold elim_step in *. lia.
Qed.

Theorem elim_fixpoint : forall ps, elim_step (elim ps) = elim ps.
Proof. intros ps. unfold elim. apply elim_n_fixpoint. lia. Qed.

(* what survives is explained: every survivor waits for a lock held by another survivor that can
   coexist with it (the harness searches this residue for a concrete cycle and forces it) *)
Theorem survivor_has_supporter : forall ps p, In p (elim ps) ->
  exists q, In q (elim ps) /\ In (req p) (held q) /\ disjoint (held p) (held q) /\ two_threads p q.
Proof.
  intros ps p Hp. rewrite <- elim_fixpoint in Hp. unfold elim_step in Hp.
  apply filter_In in Hp. destruct Hp as [_ Hex]. apply existsb_exists in Hex.
  destruct Hex as [q [Hq Hs]]. exists q. split; [exact Hq|]. apply supports_spec. exact Hs.
Qed.

Lemma elim_incl : forall ps, incl (elim ps) ps.
Proof.
  assert (H : forall n ps, incl (elim_n n ps) ps).
  { induction n as [|n IH]; intros ps; simpl; [apply incl_refl|].
    eapply incl_tran; [apply IH|]. intros x Hx. unfold elim_step in Hx.
    apply filter_In in Hx. tauto. }
  intros ps. apply H.
Qed.

(* ---------------------------------------------------------------- the concrete situations *)
Lemma abba_survives : elim abba_facts = abba_facts.
Proof. vm_compute. reflexivity. Qed.

Lemma abba_is_deadlock : exists cyc, deadlock abba_facts cyc.
Proof.
  exists abba_facts. unfold abba_facts.
  apply two_cycle_is_deadlock; [left; reflexivity | right; left; reflexivity | | ]; vm_compute; reflexivity.
Qed.

Lemma gated_cycle_eliminated : elim gated_cycle_facts = [].
Proof. vm_compute. reflexivity. Qed.

Lemma ungated_cycle_survives : elim ungated_cycle_facts = ungated_cycle_facts.
Proof. vm_compute. reflexivity. Qed.
