(* C06, healing half: concrete healing phases (non-vacuity of the theorems of Proofs/ReplicationLive.v). *)
From Bobo Require Import Base.Prelude Base.History Model.Pattern Model.Run Model.Decider Model.PredLang Model.Converge Model.ConvergeC.
From Bobo Require Import Proofs.DeciderLemmas Proofs.DeciderProofs Proofs.RemoteProofs Proofs.ConvergeProofs
                         Proofs.JoinProofs Proofs.LocalProofs.
From Bobo Require Import Model.Outgoing Model.Replication Model.ReplicationLive.
From Bobo Require Import Proofs.OutgoingProofs Proofs.ReplicationProofs Proofs.ReplicationLive.

(* ================================================================== non-vacuity: concrete healing phases *)
(* one peer, default periods (ping 30, resync 60, attempt_stash 5, attempt_ping 5, attempt_resync 10) *)
Definition lv_cfg : tcfg := Outgoing.mkCfg 30 60 5 5 10 (true, true, true, true, true).
Definition lv_peers : list peer := [mkPeer 1000 1000 false [] [] [] 11].
Definition lv_n1 : note := Outgoing.mkNote [] [] [7].
Definition lv_n2 : note := Outgoing.mkNote [] [] [8].
Definition lv_n3 : note := Outgoing.mkNote [] [] [9].
(* A. the link is down: change 7 is reported and its SYNC fails at 1001 (connect refused) -> backlog; change 8 is
   reported.  HEALING POINT (queue length 1).  One iteration at 1007, during which change 9 is reported. *)
Definition lv_fail1 : act := OStep 1001 empty_note 2.
Definition lv_preA : list act := XEnq lv_n1 :: repeat lv_fail1 7 ++ [XEnq lv_n2].
Definition lv_g0A : gstate := mrun true lv_cfg (ginit lv_peers [] 1000) lv_preA.
Definition lv_ok1 : act := OStep 1007 empty_note 0.
Definition lv_healA : list act := [lv_ok1; lv_ok1; XEnq lv_n3; lv_ok1; lv_ok1; lv_ok1; lv_ok1; lv_ok1; lv_ok1].
(* B. a long outage: the SYNC of change 7 fails at 1001, the retry of the backlog times out at 1058.  HEALING POINT.
   The iteration at 1062 finds the peer in the RESYNC period, but only 4 s after the last attempt: nothing is
   sent; change 8 is reported; the iteration at 1070 sends the snapshot. *)
Definition lv_fail2 : act := OStep 1058 empty_note 1.
Definition lv_preB : list act := XEnq lv_n1 :: repeat lv_fail1 7 ++ repeat lv_fail2 7.
Definition lv_g0B : gstate := mrun true lv_cfg (ginit lv_peers [] 1000) lv_preB.
Definition lv_snap : note := Outgoing.mkNote [] [] [7; 8].
Definition lv_wait : act := OStep 1062 lv_snap 0.
Definition lv_ok2 : act := OStep 1070 lv_snap 0.
Definition lv_healB : list act := repeat lv_wait 4 ++ XEnq lv_n2 :: repeat lv_ok2 8.

Lemma lv_peers_ok : forall k p, nth_error lv_peers k = Some p -> 0 <= lc p.
Proof. intros [|[|k]] p H; simpl in H; inversion H; simpl; lia. Qed.

Lemma lv_reachA : reach true lv_cfg act_ok (ginit lv_peers [] 1000) lv_g0A.
Proof. apply reach_sched; [apply reach_refl|]. vm_compute. repeat split; intros; try discriminate. Qed.

Lemma lv_reachB : reach true lv_cfg act_ok (ginit lv_peers [] 1000) lv_g0B.
Proof. apply reach_sched; [apply reach_refl|]. vm_compute. repeat split; intros; try discriminate. Qed.

Lemma lv_healA_ok : sched_ok (heal_ok 0) true lv_cfg lv_g0A lv_healA /\ sched_ok (due_ok lv_cfg 0) true lv_cfg lv_g0A lv_healA /\
                    sched_ok (no_reset 0) true lv_cfg lv_g0A lv_healA.
Proof. vm_compute. repeat split; intros; try discriminate; try reflexivity. Qed.

Lemma lv_healB_ok : sched_ok (heal_ok 0) true lv_cfg lv_g0B lv_healB.
Proof. vm_compute. repeat split; intros; try discriminate; try reflexivity. Qed.

(* heal_progress + heal_contact_simple applied to A: both changes reported before the healing point are in the one
   SYNC delivered at 1007 (newest first: item, then backlog), the backlog is empty, the peer is in contact;
   change 9 is still queued *)
Example heal_exampleA :
  let g := mrun true lv_cfg lv_g0A lv_healA in
  g_emitted lv_g0A = [lv_n1; lv_n2] /\ length (g_queue lv_g0A) = 1%nat /\ iters lv_cfg lv_g0A lv_healA = 1%nat /\
  (forall p, nth_error (g_peers g) 0 = Some p ->
     stash_empty p /\ reached (cv_pr lv_cfg) (g_now g - lc p) (p_resync lv_cfg) = false /\
     forall idx n, nth_error (g_emitted lv_g0A) idx = Some n -> delivered_to g 0 idx n \/ vacuous n) /\
  g_queue g = [lv_n3] /\
  map (fun e => match e with HAtt a => (mode_code (s_mode a), s_err a, s_pay a) | HReset _ => (-1, 0%nat, empty_note) end)
      (g_log g) = [(0, 0%nat, Outgoing.mkNote [] [] [8; 7]); (0, 2%nat, lv_n1)].
Proof.
  cbv zeta. destruct lv_healA_ok as (H1 & H2 & H3).
  split; [vm_compute; reflexivity|]. split; [vm_compute; reflexivity|]. split; [vm_compute; reflexivity|].
  split; [|split; vm_compute; reflexivity].
  intros p Hp.
  destruct (heal_progress lv_cfg 0 lv_peers [] 1000 lv_g0A lv_healA lv_peers_ok lv_reachA) with (p := p) as [A B];
    try assumption; try (vm_compute; reflexivity); try (vm_compute; lia).
  split; [exact A|]. split; [|exact B].
  apply (heal_contact_simple lv_cfg 0 lv_peers [] 1000 lv_g0A lv_healA); try assumption;
    try (vm_compute; reflexivity); try (vm_compute; lia). apply lv_peers_ok. apply lv_reachA.
Qed.

(* heal_progress_track + heal_contact applied to B: the first iteration makes no progress (d stays false), the
   second delivers a RESYNC that was built after change 7 had been reported *)
Example heal_exampleB :
  let g := mrun true lv_cfg lv_g0B lv_healB in
  g_emitted lv_g0B = [lv_n1] /\ length (g_queue lv_g0B) = 0%nat /\ iters lv_cfg lv_g0B lv_healB = 2%nat /\
  track lv_cfg 0 lv_g0B (repeat lv_wait 4) (0%nat, false) = (0%nat, false) /\
  track lv_cfg 0 lv_g0B lv_healB (0%nat, false) = (0%nat, true) /\
  (forall p, nth_error (g_peers g) 0 = Some p ->
     stash_empty p /\ reached (cv_pr lv_cfg) (g_now g - lc p) (p_resync lv_cfg) = false /\
     forall idx n, nth_error (g_emitted lv_g0B) idx = Some n -> delivered_to g 0 idx n \/ vacuous n) /\
  map (fun e => match e with HAtt a => (mode_code (s_mode a), s_err a, s_seen a) | HReset _ => (-1, 0%nat, 0%nat) end)
      (g_log g) = [(2, 0%nat, 2%nat); (0, 1%nat, 1%nat); (0, 2%nat, 1%nat)].
Proof.
  cbv zeta. pose proof lv_healB_ok as H1.
  split; [vm_compute; reflexivity|]. split; [vm_compute; reflexivity|]. split; [vm_compute; reflexivity|].
  split; [vm_compute; reflexivity|]. split; [vm_compute; reflexivity|].
  split; [|vm_compute; reflexivity].
  intros p Hp.
  destruct (heal_progress_track lv_cfg 0 lv_peers [] 1000 lv_g0B lv_healB lv_peers_ok lv_reachB) with (p := p) as [A B];
    try assumption; try (vm_compute; reflexivity); try (vm_compute; lia).
  split; [exact A|]. split; [|exact B].
  apply (heal_contact lv_cfg 0) with (ps := lv_peers) (q := @nil note) (clock := 1000); try assumption;
    try (vm_compute; reflexivity); try (vm_compute; lia). apply lv_peers_ok. apply lv_reachB.
Qed.

(* ---- the receiver of A: pattern 1 ; 2 ; 3; label 7 = run 1000 after its first event, label 8 = the same run
   after its second event.  An empty receiver that applies the SYNC delivered at 1007 holds run 1000 at block 2. *)
Definition lv_cd : cdesc :=
  CD [(1, [PD 1 [BD [PDataEq 1] 1 false false false false; BD [PDataEq 2] 2 false false false false;
                 BD [PDataEq 3] 3 false false false false] [] [] false])] 50 1000.
Definition lv_r7 : rserial PredLang.ev := mkSer 1000 1 1 1 [(1, [mkEv 0 0 0 1 0 0])].
Definition lv_r8 : rserial PredLang.ev := mkSer 1000 1 1 2 [(1, [mkEv 0 0 0 1 0 0]); (2, [mkEv 1 1 0 2 0 0])].
Definition lv_tbl (z : Z) : rserial PredLang.ev := if z =? 8 then lv_r8 else lv_r7.
Definition lv_owner (id : Z) : Z * Z := (1, 1).
Definition lv_msg : Decider.note PredLang.ev := conc PredLang.ev lv_tbl (Outgoing.mkNote [] [] [8; 7]).
Definition lv_sj : dstate PredLang.ev := fst (remote_apply (mk_cfg lv_cd) d_init lv_msg).

Lemma lv_nonsingle : forall ph pat p, get_pattern (mk_cfg lv_cd) ph pat = Some p -> p_single p = false.
Proof.
  intros ph pat p. unfold get_pattern. simpl. destruct (Z.eqb ph 1); [|discriminate]. unfold find.
  match goal with |- (if ?b then _ else _) = _ -> _ => destruct b end; [|discriminate].
  intro H. inversion H. reflexivity.
Qed.

Definition lv_logA : list hev := Eval vm_compute in g_log (mrun true lv_cfg lv_g0A lv_healA).
Lemma lv_logA_eq : g_log (mrun true lv_cfg lv_g0A lv_healA) = lv_logA.
Proof. vm_compute. reflexivity. Qed.

Example heal_example_receiver :
  (forall rc, In rc (n_upd (conc PredLang.ev lv_tbl lv_n2)) -> remembered PredLang.ev lv_sj (s_id rc) = true \/ at_least PredLang.ev lv_owner lv_sj rc) /\
  map (fun r => (r_id r, r_idx r)) (rt_all (d_runs lv_sj)) = [(1000, 2%nat)].
Proof.
  split; [|vm_compute; reflexivity].
  destruct lv_healA_ok as (H1 & H2 & H3).
  assert (Hrun : rrun PredLang.ev lv_owner (mk_cfg lv_cd) d_init [lv_msg] lv_sj).
  { eapply (RR_msg PredLang.ev lv_owner (mk_cfg lv_cd) d_init [] d_init lv_msg lv_sj (snd (remote_apply (mk_cfg lv_cd) d_init lv_msg))).
    - apply RR_nil.
    - unfold lv_sj. apply surjective_pairing.
    - split; simpl; lia.
    - assert (W : wf_rec lv_owner (mk_cfg lv_cd) lv_r8 /\ wf_rec lv_owner (mk_cfg lv_cd) lv_r7).
      { split; (split; [reflexivity | eexists; vm_compute; reflexivity]). }
      destruct W as [W8 W7]. unfold wf_msg, lv_msg, conc. simpl.
      split; [constructor|]. split; [constructor|]. constructor; [exact W8|]. constructor; [exact W7 | constructor]. }
  destruct (heal_receiver PredLang.ev lv_owner (mk_cfg lv_cd) lv_tbl 0 lv_cfg 0 lv_peers [] 1000 lv_g0A lv_healA d_init [lv_msg] lv_sj)
    with (idx := 1%nat) (n := lv_n2) as (_ & _ & C); try assumption; try (vm_compute; reflexivity); try (vm_compute; lia).
  - exact lv_nonsingle.
  - split; simpl; repeat constructor; simpl; intuition discriminate.
  - exact lv_peers_ok.
  - exact lv_reachA.
  - split; [apply Inv_nil|]. intros ph pat r H. unfold bucket in H. simpl in H. contradiction.
  - intros a Hin Hp Hv Hm _. rewrite lv_logA_eq in Hin. unfold lv_logA in Hin. destruct Hin as [Hin|[Hin|[]]]; inversion Hin; subst a.
    + left. reflexivity.
    + simpl in Hv. discriminate.
  - intros a idx n f Hin Hp Hm. rewrite lv_logA_eq in Hin. unfold lv_logA in Hin. destruct Hin as [Hin|[Hin|[]]]; inversion Hin; subst a; simpl in Hm; discriminate.
Qed.

(* ---- C: as B, with sender and receiver deciders.  The sender's decider has processed data 1 (note = label 7) before
   the outage and processes data 2 (note = label 8) during the healing phase; the RESYNC at 1070 carries its real
   snapshot (run 1000 at block 2 = label 8).  An empty receiver that applies it holds run 1000 at block 2, which is
   at least as far as the note reported before the healing point (block 1). *)
Definition lv_snapC : note := Outgoing.mkNote [] [] [8].
Definition lv_waitC : act := OStep 1062 lv_snapC 0.
Definition lv_okC : act := OStep 1070 lv_snapC 0.
Definition lv_healC : list act := repeat lv_waitC 4 ++ XEnq lv_n2 :: repeat lv_okC 8.
Definition lv_e1 : PredLang.ev := mkEv 0 0 0 1 0 0.
Definition lv_e2 : PredLang.ev := mkEv 1 1 0 2 0 0.
Definition lv_s1 : dstate PredLang.ev :=
  match local_step (mk_cfg lv_cd) d_init lv_e1 with Ok (s, _) => s | Exn _ => d_init end.
Definition lv_s2 : dstate PredLang.ev :=
  match local_step (mk_cfg lv_cd) lv_s1 lv_e2 with Ok (s, _) => s | Exn _ => d_init end.
Definition lv_msgC : Decider.note PredLang.ev := conc PredLang.ev lv_tbl lv_snapC.
Definition lv_sjC : dstate PredLang.ev := fst (remote_apply (mk_cfg lv_cd) d_init lv_msgC).
Definition lv_logC : list hev := Eval vm_compute in g_log (mrun true lv_cfg lv_g0B lv_healC).

Lemma lv_step1 : local_step (mk_cfg lv_cd) d_init lv_e1 = Ok (lv_s1, conc PredLang.ev lv_tbl lv_n1).
Proof. vm_compute. reflexivity. Qed.
Lemma lv_step2 : local_step (mk_cfg lv_cd) lv_s1 lv_e2 = Ok (lv_s2, conc PredLang.ev lv_tbl lv_n2).
Proof. vm_compute. reflexivity. Qed.
Lemma lv_snapC_eq : conc PredLang.ev lv_tbl lv_snapC = snapshot lv_s2.
Proof. vm_compute. reflexivity. Qed.
Lemma lv_logC_eq : g_log (mrun true lv_cfg lv_g0B lv_healC) = lv_logC.
Proof. vm_compute. reflexivity. Qed.
Lemma lv_emC_eq : g_emitted (mrun true lv_cfg lv_g0B lv_healC) = [lv_n1; lv_n2].
Proof. vm_compute. reflexivity. Qed.
Lemma lv_healC_ok : sched_ok (heal_ok 0) true lv_cfg lv_g0B lv_healC.
Proof. vm_compute. repeat split; intros; try discriminate; try reflexivity. Qed.

Lemma lv_cfg_wf : cfg_wf PredLang.ev (mk_cfg lv_cd).
Proof. split; simpl; repeat constructor; simpl; intuition discriminate. Qed.

Lemma lv_rgood_init : rgood PredLang.ev lv_owner (mk_cfg lv_cd) d_init.
Proof. split; [apply Inv_nil|]. intros ph pat r H. unfold bucket in H. simpl in H. contradiction. Qed.

Lemma lv_wiredC : sender_wired PredLang.ev lv_owner (mk_cfg lv_cd) lv_tbl 0 (mrun true lv_cfg lv_g0B lv_healC) d_init.
Proof.
  exists [conc PredLang.ev lv_tbl lv_n1; conc PredLang.ev lv_tbl lv_n2]. split.
  - rewrite lv_emC_eq. intros [|[|[|idx]]] n H; simpl in H; inversion H; reflexivity.
  - intros a Hin Hp Hm. rewrite lv_logC_eq in Hin. unfold lv_logC in Hin.
    destruct Hin as [Hin|[Hin|[Hin|[]]]]; inversion Hin; subst a; simpl in Hm; try discriminate.
    exists lv_s2. split; [|exact lv_snapC_eq]. simpl firstn.
    change [conc PredLang.ev lv_tbl lv_n1; conc PredLang.ev lv_tbl lv_n2]
      with (([] ++ [conc PredLang.ev lv_tbl lv_n1]) ++ [conc PredLang.ev lv_tbl lv_n2]).
    eapply SR_local; [eapply SR_local; [apply SR_nil | exact lv_step1 | |] | exact lv_step2 | |].
    + split; vm_compute; lia.
    + unfold note_owned. simpl. repeat constructor.
    + split; vm_compute; lia.
    + unfold note_owned. simpl. repeat constructor.
Qed.

Example heal_example_wired :
  (forall rc, In rc (n_upd (conc PredLang.ev lv_tbl lv_n1)) ->
     remembered PredLang.ev lv_sjC (s_id rc) = true \/ at_least PredLang.ev lv_owner lv_sjC rc) /\
  map (fun rc => (s_id rc, s_idx rc)) (n_upd (conc PredLang.ev lv_tbl lv_n1)) = [(1000, 1%nat)] /\
  map (fun r => (r_id r, r_idx r)) (rt_all (d_runs lv_sjC)) = [(1000, 2%nat)].
Proof.
  split; [|split; vm_compute; reflexivity].
  assert (Hrun : rrun PredLang.ev lv_owner (mk_cfg lv_cd) d_init [lv_msgC] lv_sjC).
  { eapply (RR_msg PredLang.ev lv_owner (mk_cfg lv_cd) d_init [] d_init lv_msgC lv_sjC
                   (snd (remote_apply (mk_cfg lv_cd) d_init lv_msgC))).
    - apply RR_nil.
    - unfold lv_sjC. apply surjective_pairing.
    - split; simpl; lia.
    - assert (W8 : wf_rec lv_owner (mk_cfg lv_cd) lv_r8) by (split; [reflexivity | eexists; vm_compute; reflexivity]).
      unfold wf_msg, lv_msgC, conc. simpl. split; [constructor|]. split; [constructor|]. constructor; [exact W8 | constructor]. }
  destruct (heal_receiver_wired_track PredLang.ev lv_owner (mk_cfg lv_cd) lv_tbl 0 lv_cfg 0 (mk_cfg lv_cd)
              lv_peers [] 1000 lv_g0B lv_healC d_init [lv_msgC] lv_sjC d_init)
    with (idx := 0%nat) (n := lv_n1) as (_ & _ & C);
    try exact lv_nonsingle; try exact lv_cfg_wf; try exact lv_peers_ok; try exact lv_reachB; try exact lv_healC_ok;
    try exact lv_rgood_init; try exact lv_wiredC; try exact Hrun;
    try (vm_compute; reflexivity); try (vm_compute; lia);
    try (match goal with |- _ <> _ => intro Hx; vm_compute in Hx; discriminate end).
  - intros a Hin Hp Hv Hm _. rewrite lv_logC_eq in Hin. unfold lv_logC in Hin.
    destruct Hin as [Hin|[Hin|[Hin|[]]]]; inversion Hin; subst a; simpl in Hv; try discriminate.
    left. reflexivity.
  - exact C.
Qed.
