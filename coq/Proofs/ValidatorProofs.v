From Bobo Require Import Base.Prelude Model.Validator.

(* ------------------------------------------------------------------ induction over nested values *)
Section PyvalInd.
  Variable P : pyval -> Prop.
  Hypothesis HNone : P VNone.
  Hypothesis HBool : forall b, P (VBool b).
  Hypothesis HInt : forall z, P (VInt z).
  Hypothesis HFloat : forall k, P (VFloat k).
  Hypothesis HStr : forall s, P (VStr s).
  Hypothesis HList : forall l, Forall P l -> P (VList l).
  Hypothesis HTuple : forall l, Forall P l -> P (VTuple l).
  Hypothesis HDict : forall kvs, Forall (fun kv => P (fst kv) /\ P (snd kv)) kvs -> P (VDict kvs).
  Hypothesis HOpaque : forall o, P (VOpaque o).
  Hypothesis HCyclic : forall b, P (VCyclic b).
  Hypothesis HDeep : P VDeep.

  Fixpoint pyval_ind' (v : pyval) : P v :=
    match v with
    | VNone => HNone
    | VBool b => HBool b
    | VInt z => HInt z
    | VFloat k => HFloat k
    | VStr s => HStr s
    | VList l =>
        HList l ((fix go (l : list pyval) : Forall P l :=
                    match l with
                    | [] => Forall_nil P
                    | x :: l' => Forall_cons x (pyval_ind' x) (go l')
                    end) l)
    | VTuple l =>
        HTuple l ((fix go (l : list pyval) : Forall P l :=
                     match l with
                     | [] => Forall_nil P
                     | x :: l' => Forall_cons x (pyval_ind' x) (go l')
                     end) l)
    | VDict kvs =>
        HDict kvs ((fix go (l : list (pyval * pyval))
                      : Forall (fun kv => P (fst kv) /\ P (snd kv)) l :=
                      match l with
                      | [] => Forall_nil _
                      | (k, x) :: l' =>
                          Forall_cons (k, x) (conj (pyval_ind' k) (pyval_ind' x)) (go l')
                      end) kvs)
    | VOpaque o => HOpaque o
    | VCyclic b => HCyclic b
    | VDeep => HDeep
    end.
End PyvalInd.

Lemma zlist_eqb_refl (l : list Z) : zlist_eqb l l = true.
Proof. induction l as [|x l IH]; simpl; [reflexivity|]. rewrite Z.eqb_refl. exact IH. Qed.

(* the comparison used by the correspondence to say "carries the same data" is reflexive *)
Lemma pyval_eqb_refl (v : pyval) : pyval_eqb v v = true.
Proof.
  induction v as [| b | z | k | s | l IH | l IH | kvs IH | o | b |] using pyval_ind'; simpl.
  - reflexivity.
  - apply Bool.eqb_reflx.
  - apply Z.eqb_refl.
  - destruct k; reflexivity.
  - apply zlist_eqb_refl.
  - induction IH as [|x l Hx _ IHl]; [reflexivity|]. rewrite Hx. exact IHl.
  - induction IH as [|x l Hx _ IHl]; [reflexivity|]. rewrite Hx. exact IHl.
  - induction IH as [|[k x] l [Hk Hx] _ IHl]; [reflexivity|]. simpl in Hk, Hx.
    rewrite Hk, Hx. exact IHl.
  - destruct o; reflexivity.
  - apply Bool.eqb_reflx.
  - reflexivity.
Qed.

(* ------------------------------------------------------------------ the gate, for any verdict function *)
Lemma gate_rejected isv val nxt d :
  isv val d <> PTrue -> recv_process_with isv val nxt d = None.
Proof. unfold recv_process_with. destruct (isv val d); congruence. Qed.

Lemma gate_bare isv val nxt v :
  isv val (Bare v) = PTrue ->
  recv_process_with isv val nxt (Bare v) = Some (mkEv KSimple (fst nxt) (snd nxt) v).
Proof. unfold recv_process_with. intros ->. reflexivity. Qed.

Lemma gate_event isv val nxt e :
  isv val (Ev e) = PTrue -> recv_process_with isv val nxt (Ev e) = Some e.
Proof. unfold recv_process_with. intros ->. reflexivity. Qed.

(* whatever comes out was accepted, and carries the accepted datum's data *)
Lemma gate_some isv val nxt d e :
  recv_process_with isv val nxt d = Some e ->
  isv val d = PTrue /\ ev_data e = datum_data d /\
  match d with Ev e0 => e = e0 | Bare v => e = mkEv KSimple (fst nxt) (snd nxt) v end.
Proof.
  unfold recv_process_with. destruct (isv val d); try discriminate.
  destruct d as [v|e0]; intros H; inversion H; subst; simpl; auto.
Qed.

Lemma rejected_never_an_event val nxt d :
  is_valid val d <> PTrue -> recv_process val nxt d = None.
Proof. apply gate_rejected. Qed.

Lemma accepted_exactly_one_simple_event_same_data val nxt v :
  is_valid val (Bare v) = PTrue ->
  recv_process val nxt (Bare v) = Some (mkEv KSimple (fst nxt) (snd nxt) v).
Proof. apply gate_bare. Qed.

Lemma events_pass_through val nxt e :
  is_valid val (Ev e) = PTrue -> recv_process val nxt (Ev e) = Some e.
Proof. apply gate_event. Qed.

(* ---- the stream: update() once per queued datum *)
Definition accepted (val : validator) (d : datum) : bool :=
  match is_valid val d with PTrue => true | _ => false end.

Lemma stream_length isv val sup ds : length (recv_stream_with isv val sup ds) = length ds.
Proof. revert sup; induction ds as [|d ds IH]; intros sup; simpl; [reflexivity|]. now rewrite IH. Qed.

(* every event that reaches a subscriber comes from an accepted datum of the stream and carries
   that datum's data: rejected data never become an event *)
Lemma stream_delivered_accepted val sup ds e :
  In e (delivered (recv_stream val sup ds)) ->
  exists d, In d ds /\ is_valid val d = PTrue /\ ev_data e = datum_data d /\
            match d with Ev e0 => e = e0 | Bare _ => ev_kind e = KSimple end.
Proof.
  unfold recv_stream. revert sup; induction ds as [|d ds IH]; intros sup; simpl; [tauto|].
  destruct (recv_process_with is_valid val (hd ([], 0) sup) d) as [e1|] eqn:E.
  - simpl. intros [<-|Hin].
    + apply gate_some in E. destruct E as (Hv & Hd & Hm).
      exists d. repeat split; auto. destruct d; [subst e1; reflexivity | exact Hm].
    + apply IH in Hin. destruct Hin as (d' & Hin & H). exists d'. split; [right; exact Hin | exact H].
  - intros Hin. apply IH in Hin. destruct Hin as (d' & Hin & H). exists d'. split; [right; exact Hin | exact H].
Qed.

(* exactly one event per accepted datum, none for the others, order kept, data unchanged *)
Lemma stream_data val sup ds :
  map ev_data (delivered (recv_stream val sup ds)) = map datum_data (filter (accepted val) ds).
Proof.
  unfold recv_stream. revert sup; induction ds as [|d ds IH]; intros sup; simpl; [reflexivity|].
  unfold accepted at 1. unfold recv_process_with at 1.
  destruct (is_valid val d) eqn:E; simpl; try apply IH.
  destruct d as [v|e0]; simpl; rewrite IH; reflexivity.
Qed.

(* the events of the stream come out as the same events, in order *)
Lemma stream_events_pass val sup ds :
  (forall d, In d ds -> exists e, d = Ev e) ->
  map Ev (delivered (recv_stream val sup ds)) = filter (accepted val) ds.
Proof.
  unfold recv_stream. revert sup; induction ds as [|d ds IH]; intros sup Hall; simpl; [reflexivity|].
  destruct (Hall d (or_introl eq_refl)) as [e0 ->].
  unfold accepted at 1. unfold recv_process_with at 1.
  assert (Hall' : forall d, In d ds -> exists e, d = Ev e) by (intros d' H'; apply Hall; right; exact H').
  destruct (is_valid val (Ev e0)) eqn:E; simpl; try (apply IH; exact Hall').
  rewrite IH by exact Hall'. reflexivity.
Qed.

(* ------------------------------------------------------------------ verdicts *)
Lemma verdict_by_data val d1 d2 :
  datum_data d1 = datum_data d2 -> is_valid val d1 = is_valid val d2.
Proof. intros H. destruct val; simpl; rewrite ?H; reflexivity. Qed.

Lemma verdict_wrapped_eq_bare val e : is_valid val (Ev e) = is_valid val (Bare (ev_data e)).
Proof. apply verdict_by_data. reflexivity. Qed.

Lemma json_validators_imply_jsonable val d :
  is_json_validator val = true -> is_valid val d = PTrue -> jsonable (datum_data d) = true.
Proof.
  destruct val; simpl; try discriminate; intros _.
  - destruct (jsonable (datum_data d)); [reflexivity | discriminate].
  - destruct (jsonable (datum_data d)); [reflexivity | discriminate].
Qed.

Lemma event_serialisable_iff e :
  event_serialisable e = int_str_ok (ev_ts e) && jsonable (ev_data e).
Proof.
  unfold event_serialisable, event_json_dict. destruct (ev_kind e); simpl;
    destruct (int_str_ok (ev_ts e)); simpl; try reflexivity;
    destruct (jsonable (ev_data e)); reflexivity.
Qed.

Lemma json_accepted_serialisable val nxt d e :
  is_json_validator val = true -> recv_process val nxt d = Some e ->
  int_str_ok (ev_ts e) = true -> event_serialisable e = true.
Proof.
  intros Hj Hr Hts. apply gate_some in Hr. destruct Hr as (Hv & Hd & _).
  rewrite event_serialisable_iff, Hts, Hd. simpl.
  eapply json_validators_imply_jsonable; eassumption.
Qed.

(* Only JSON validators give that guarantee: All accepts a set *)
Lemma all_accepts_unserialisable :
  is_valid ValAll (Bare (VOpaque OSet)) = PTrue /\ jsonable (VOpaque OSet) = false.
Proof. split; reflexivity. Qed.

(* ------------------------------------------------------------------ json.dumps facts *)
Lemma jsonable_tuple_as_list l : jsonable (VTuple l) = jsonable (VList l).
Proof. reflexivity. Qed.

Lemma jsonable_list l : jsonable (VList l) = true <-> forall x, In x l -> jsonable x = true.
Proof. simpl. apply forallb_forall. Qed.

Lemma jsonable_dict kvs :
  jsonable (VDict kvs) = true <->
  forall k x, In (k, x) kvs -> key_ok k = true /\ jsonable x = true.
Proof.
  simpl. rewrite forallb_forall. split.
  - intros H k x Hin. specialize (H _ Hin). simpl in H. now apply andb_true_iff in H.
  - intros H [k x] Hin. apply andb_true_iff. now apply H.
Qed.

Lemma int_str_ok_spec z : int_str_ok z = true <-> Z.abs z < 10 ^ 4300.
Proof.
  unfold int_str_ok. rewrite Z.ltb_lt.
  assert (E : INT_STR_LIMIT = 10 ^ 4300) by (vm_compute; reflexivity).
  rewrite E. tauto.
Qed.

(* ------------------------------------------------------------------ isinstance facts *)
Lemma ty_eqb_eq a b : ty_eqb a b = true <-> a = b.
Proof.
  unfold ty_eqb. rewrite Z.eqb_eq. split; [|now intros ->].
  assert (Ho : forall o, 0 <= oty_code o <= 5) by (intros o; destruct o; simpl; lia).
  assert (Hinj : forall o1 o2, oty_code o1 = oty_code o2 -> o1 = o2)
    by (intros o1 o2; destruct o1, o2; simpl; intros; try reflexivity; lia).
  destruct a as [| | | | | | | | |oa]; destruct b as [| | | | | | | | |ob]; cbn [ty_code];
    try (intros; reflexivity); try (pose proof (Ho oa) as Ha); try (pose proof (Ho ob) as Hb); try lia.
  intros Heq. f_equal. apply Hinj. lia.
Qed.

Lemma isinstance_object v : isinstance v TyObject = true.
Proof.
  unfold isinstance.
  destruct (ty_of v) as [| | | | | | | | |o]; try reflexivity. destruct o; reflexivity.
Qed.

Lemma bool_is_an_int b : isinstance (VBool b) TyInt = true /\ type_is (VBool b) TyInt = false.
Proof. split; reflexivity. Qed.

Lemma type_is_isinstance v t : type_is v t = true -> isinstance v t = true.
Proof. unfold type_is, isinstance. intros ->. reflexivity. Qed.

(* exact-type matching accepts no more than subtype matching *)
Lemma type_exact_implies_subtype ts d :
  is_valid (ValType ts false) d = PTrue -> is_valid (ValType ts true) d = PTrue.
Proof.
  simpl. set (v := datum_data d).
  destruct (existsb (type_is v) ts) eqn:E; [|discriminate]. intros _.
  apply existsb_exists in E. destruct E as (t & Hin & Ht).
  assert (H : existsb (isinstance v) ts = true).
  { apply existsb_exists. exists t. split; [exact Hin | now apply type_is_isinstance]. }
  now rewrite H.
Qed.

(* ------------------------------------------------------------------ the pinned-commit JSONSchema validator (D15) *)
(* {"type": "integer"}-like schema: an int is valid; an event object is not an integer *)
Definition schema_integer : schema :=
  mkSchema (fun v => match v with VInt _ => PTrue | _ => PFalse end) (fun _ => PFalse).
(* {}: everything is valid *)
Definition schema_any : schema := mkSchema (fun _ => PTrue) (fun _ => PTrue).

Definition ev3 : event := mkEv KComplex [101] 0 (VInt 3).

Lemma pinned_wrapped_differs :
  is_valid_pinned (ValJSONSchema schema_integer) (Bare (ev_data ev3)) = PTrue /\
  is_valid_pinned (ValJSONSchema schema_integer) (Ev ev3) = PFalse.
Proof. split; reflexivity. Qed.

Lemma pinned_accepts_set :
  is_valid_pinned (ValJSONSchema schema_any) (Bare (VOpaque OSet)) = PTrue /\
  jsonable (VOpaque OSet) = false.
Proof. split; reflexivity. Qed.

Lemma d15_refuted_verdict :
  exists val e, is_valid_pinned val (Ev e) <> is_valid_pinned val (Bare (ev_data e)).
Proof.
  exists (ValJSONSchema schema_integer), ev3.
  destruct pinned_wrapped_differs as [H1 H2]. rewrite H1, H2. discriminate.
Qed.

Lemma d15_refuted_jsonable :
  exists val d, is_json_validator val = true /\ is_valid_pinned val d = PTrue /\
                jsonable (datum_data d) = false.
Proof. exists (ValJSONSchema schema_any), (Bare (VOpaque OSet)). repeat split. Qed.

(* the consequence named in the property: with the pinned validator a fed-back (complex) event
   whose data the schema accepts is dropped by the gate, the same data arriving bare gets through *)
Lemma d15_refuted_gate :
  exists val nxt e,
    recv_process_pinned val nxt (Ev e) = None /\
    recv_process_pinned val nxt (Bare (ev_data e)) <> None.
Proof.
  exists (ValJSONSchema schema_integer), ([103], 7), ev3. split; [reflexivity|].
  vm_compute. discriminate.
Qed.

(* and the repaired validator treats the two witnesses correctly *)
Lemma fixed_on_witnesses :
  is_valid (ValJSONSchema schema_integer) (Ev ev3) = PTrue /\
  is_valid (ValJSONSchema schema_any) (Bare (VOpaque OSet)) = PFalse.
Proof. split; reflexivity. Qed.
