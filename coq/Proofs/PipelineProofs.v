(* Proofs about Model/Pipeline.v: the four models of the replication wire path compose.
   Part 1: the conversions between the representations used by Wire / Crypto / Recv / Auth are harmless.
   Part 2: the two models of _split_plaintext (Wire: positions of the first four spaces, int() on str(int);
           Auth: cut at spaces, CPython's full int()) agree wherever Wire's accepts.
   Part 3: a header + JSON payload never ends in U+0000 (D14 cannot occur on this path).
   Part 4: the end-to-end theorems. *)
From Bobo Require Import Base.Prelude Model.IdGen Model.Wire Model.Crypto Model.Recv Model.Auth Model.Pipeline
  Proofs.IdGenProofs Proofs.WireProofs Proofs.CryptoProofs Proofs.RecvProofs Proofs.AuthProofs.

(* ================================================================== Part 1: conversions *)
Lemma marker_same : Recv.MARKER = Crypto.MARKER.
Proof. reflexivity. Qed.

Lemma rcfg_of_fields L :
  r_min (rcfg_of L) = Crypto.min_length (l_cfg L) /\ r_end (rcfg_of L) = Crypto.MARKER /\
  r_trecv (rcfg_of L) = l_trecv L /\ r_nrecv (rcfg_of L) = l_nrecv L /\
  r_end_on_all (rcfg_of L) = true /\ r_client_to (rcfg_of L) = true.
Proof. repeat split. Qed.

Lemma chr_ok_scalar c : chr_ok c = true -> is_scalar c = true.
Proof.
  unfold chr_ok, is_scalar. intros H.
  apply andb_true_iff in H as [H1 H3]. apply andb_true_iff in H1 as [H1 H2].
  apply negb_true_iff in H3. apply Z.leb_le in H1. apply Z.ltb_lt in H2.
  apply orb_true_iff. apply andb_false_iff in H3 as [H3 | H3]; apply Z.leb_gt in H3.
  - left. apply andb_true_iff. split; [apply Z.leb_le | apply Z.ltb_lt]; lia.
  - right. apply andb_true_iff. split; [apply Z.ltb_lt | apply Z.leb_le]; lia.
Qed.

(* Wire's "text that UTF-8 can carry" is Crypto's *)
Lemma str_ok_valid s : str_ok s = true -> valid_str s.
Proof.
  unfold str_ok, valid_str. intros H. apply Forall_forall. intros c Hc.
  apply chr_ok_scalar. exact (proj1 (forallb_forall _ _) H c Hc).
Qed.

(* Wire's "ends in U+0000" is Crypto's *)
Lemma ends_nul_conv s : Wire.ends_nul s = false -> ~ CryptoProofs.ends_nul s.
Proof. intros H [p Hp]. subst s. rewrite ends_nul_snoc in H. discriminate H. Qed.

Lemma ends_nul_conv_rev s : ~ CryptoProofs.ends_nul s -> Wire.ends_nul s = false.
Proof.
  intros H. unfold Wire.ends_nul. destruct (rev s) as [|c t] eqn:E; [reflexivity|].
  destruct (c =? NUL) eqn:Ec; [|reflexivity]. exfalso. apply H. exists (rev t).
  apply Z.eqb_eq in Ec. subst c. rewrite <- (rev_involutive s), E. reflexivity.
Qed.

(* what encrypt produces passes the receive loop's end-of-message test, read off the same crypto object *)
Lemma end_test_encrypted L out pre :
  Crypto.min_length (l_cfg L) <= Crypto.len out -> out = pre ++ Crypto.MARKER ->
  end_test (rcfg_of L) out = true.
Proof.
  intros Hl ->. unfold end_test, end_ok. cbn [rcfg_of cfg_fixed r_min r_end].
  apply andb_true_iff. split.
  - apply Z.leb_le. exact Hl.
  - unfold lastn. rewrite app_length.
    replace (length pre + length Crypto.MARKER - length Recv.MARKER)%nat with (length pre)
      by (change (length Recv.MARKER) with (length Crypto.MARKER); lia).
    rewrite (skipn_pre pre Crypto.MARKER _ eq_refl). reflexivity.
Qed.

(* Crypto.encrypt (partial: AES.new may reject the configuration) against the total cipher parameter of
   Wire.send: where encrypt succeeds, the bytes are Wire.send's with that cipher *)
Lemma wire_bytes_is_send dumps utf8 gcm_enc cfg draw urn key ty fl m bytes :
  wire_bytes dumps utf8 gcm_enc cfg draw urn key ty fl m = Some bytes ->
  bytes = Wire.send dumps (fun d s => the (Crypto.encrypt utf8 gcm_enc cfg d s)) draw urn key ty fl m.
Proof. unfold wire_bytes, plaintext_of, Wire.send. intros ->. reflexivity. Qed.

(* a cut, given as the list of read sizes, is the cut into those chunks (Recv.mk_script) *)
Definition sizes_of (chunks : list (list Z)) : list Z := map (fun ch => Z.of_nat (length ch)) chunks.

Lemma mk_script_chunks chunks : forall extra tail,
  Forall (fun ch : list Z => ch <> []) chunks ->
  mk_script (concat chunks ++ extra) (sizes_of chunks ++ tail) = map Bytes chunks ++ mk_script extra tail.
Proof.
  induction chunks as [|ch chunks IH]; intros extra tail H; [reflexivity|].
  inversion H as [|x l Hch Hrest]; subst.
  cbn [sizes_of map app concat mk_script].
  assert (Hpos : 0 < Z.of_nat (length ch)) by (destruct ch; [contradiction | simpl length; lia]).
  replace (Z.of_nat (length ch) =? 0) with false by (symmetry; apply Z.eqb_neq; lia).
  replace (Z.of_nat (length ch) <? 0) with false by (symmetry; apply Z.ltb_ge; lia).
  rewrite Nat2Z.id, <- app_assoc.
  rewrite (firstn_pre ch _ _ eq_refl), (skipn_pre ch _ _ eq_refl).
  f_equal. apply IH. exact Hrest.
Qed.

(* the same cut named by its read sizes alone: the i-th read returns the next k_i bytes *)
Fixpoint cut_by (sizes : list nat) (s : list Z) : list (list Z) :=
  match sizes with
  | [] => []
  | k :: r => firstn k s :: cut_by r (skipn k s)
  end.

Lemma cut_by_spec sizes : forall s,
  list_sum sizes = length s ->
  concat (cut_by sizes s) = s /\ map (@length Z) (cut_by sizes s) = sizes.
Proof.
  induction sizes as [|k r IH]; intros s H.
  - simpl in H. destruct s; [split; reflexivity | discriminate].
  - simpl in H. destruct (IH (skipn k s)) as [H1 H2]; [rewrite skipn_length; lia|].
    cbn [cut_by concat map]. split.
    + rewrite H1. apply firstn_skipn.
    + rewrite H2, firstn_length. f_equal. lia.
Qed.

Lemma sizes_of_cut_by sizes s :
  list_sum sizes = length s -> sizes_of (cut_by sizes s) = map Z.of_nat sizes.
Proof.
  intros H. unfold sizes_of. rewrite <- (proj2 (cut_by_spec sizes s H)) at 2. rewrite map_map. reflexivity.
Qed.

Lemma cut_by_chunk_ok c sizes s :
  list_sum sizes = length s -> Forall (fun k => 1 <= k <= r_nrecv c)%nat sizes ->
  Forall (chunk_ok c) (cut_by sizes s).
Proof.
  intros H F. pose proof (proj2 (cut_by_spec sizes s H)) as Hm. rewrite <- Hm in F.
  rewrite Forall_map in F. eapply Forall_impl; [|exact F].
  intros ch Hch. cbv beta in Hch. split; [destruct ch; [simpl in Hch; lia | discriminate] | lia].
Qed.

(* ================================================================== Part 2: the two _split_plaintext *)
Lemma digits_val_cons c s acc prev :
  digits_val (c :: s) acc prev =
  if c =? 95 then (if prev then digits_val s acc false else None)
  else match digit_val c with Some d => digits_val s (10 * acc + d) true | None => None end.
Proof. reflexivity. Qed.

Lemma digit_val_ascii c : (48 <=? c) && (c <=? 57) = true -> digit_val c = Some (c - 48) /\ (c =? 95) = false.
Proof.
  intros H. split.
  - unfold digit_val. rewrite H. reflexivity.
  - apply andb_true_iff in H as [H1 H2]. apply Z.leb_le in H1, H2. apply Z.eqb_neq. lia.
Qed.

Lemma parse_digits_digits_val s : forall acc v prev,
  s <> [] \/ prev = true ->
  parse_digits acc s = Some v -> digits_val s acc prev = Some v.
Proof.
  induction s as [|c s IH]; intros acc v prev Hne H.
  - destruct Hne as [Hne | ->]; [contradiction|]. exact H.
  - simpl in H. destruct ((48 <=? c) && (c <=? 57)) eqn:E; [|discriminate].
    destruct (digit_val_ascii c E) as [Hd H95].
    rewrite digits_val_cons, H95, Hd.
    replace (10 * acc + (c - 48)) with (acc * 10 + (c - 48)) by lia.
    apply IH; [right; reflexivity | exact H].
Qed.

Lemma parse_digits_all s : forall acc v, parse_digits acc s = Some v -> Forall (fun c => 48 <= c <= 57) s.
Proof.
  induction s as [|c s IH]; intros acc v H; [constructor|].
  simpl in H. destruct ((48 <=? c) && (c <=? 57)) eqn:E; [|discriminate].
  apply andb_true_iff in E as [E1 E2]. apply Z.leb_le in E1, E2.
  constructor; [lia | exact (IH _ _ H)].
Qed.

Lemma not_space c : 45 <= c <= 57 -> is_space c = false.
Proof.
  intros H.
  assert (E : c = 45 \/ c = 46 \/ c = 47 \/ c = 48 \/ c = 49 \/ c = 50 \/ c = 51 \/ c = 52 \/ c = 53 \/
              c = 54 \/ c = 55 \/ c = 56 \/ c = 57) by lia.
  repeat (destruct E as [-> | E]; [reflexivity|]). subst c. reflexivity.
Qed.

Lemma strip_l_keep c t : is_space c = false -> strip_l (c :: t) = c :: t.
Proof. intros H. simpl. now rewrite H. Qed.

(* nothing to strip from a text whose characters are '-' ... '9' *)
Lemma strip_id s : Forall (fun c => 45 <= c <= 57) s -> strip s = s.
Proof.
  intros H. unfold strip.
  assert (K : forall l, Forall (fun c => 45 <= c <= 57) l -> strip_l l = l).
  { intros l Hl. destruct l as [|c t]; [reflexivity|]. inversion Hl; subst. apply strip_l_keep, not_space. assumption. }
  rewrite (K s H). rewrite (K (rev s)); [apply rev_involutive|]. apply Forall_rev. exact H.
Qed.

(* int() as Auth models it (CPython's, with white space, sign, underscores, Unicode digits) extends int() as
   Wire models it (an optional '-' and ASCII digits: what str(int) produces) *)
Lemma wire_parse_int_auth s z : Wire.parse_int s = Some z -> Auth.parse_int s = Some z.
Proof.
  destruct s as [|c t]; [discriminate|]. unfold Wire.parse_int. destruct (c =? 45) eqn:E.
  - apply Z.eqb_eq in E. subst c. intros H.
    destruct (parse_nat t) as [z'|] eqn:Et; [|discriminate]. simpl in H. injection H as <-.
    unfold parse_nat in Et. destruct t as [|c' t']; [discriminate|].
    pose proof (parse_digits_all _ _ _ Et) as Hall.
    unfold Auth.parse_int. rewrite strip_id.
    + lazy beta iota. rewrite (parse_digits_digits_val (c' :: t') 0 z' false); [reflexivity | left; discriminate | exact Et].
    + constructor; [lia|]. eapply Forall_impl; [|exact Hall]. simpl. intros; lia.
  - intros H. change (parse_digits 0 (c :: t) = Some z) in H.
    pose proof (parse_digits_all _ _ _ H) as Hall.
    assert (Hne : c :: t <> [] \/ false = true) by (left; discriminate).
    pose proof (parse_digits_digits_val (c :: t) 0 z false Hne H) as Hv.
    unfold Auth.parse_int. rewrite strip_id.
    + inversion Hall as [|x l Hc Ht]; subst.
      assert (Ec : c = 48 \/ c = 49 \/ c = 50 \/ c = 51 \/ c = 52 \/ c = 53 \/ c = 54 \/ c = 55 \/ c = 56 \/ c = 57)
        by lia.
      repeat (destruct Ec as [-> | Ec]; [exact Hv|]). subst c. exact Hv.
    + eapply Forall_impl; [|exact Hall]. simpl. intros; lia.
Qed.

Lemma cut_space_app a r : ~ In SP a -> cut_space (a ++ SP :: r) = Some (a, r).
Proof.
  induction a as [|c a IH]; intros H; [reflexivity|].
  simpl. destruct (c =? 32) eqn:E.
  - apply Z.eqb_eq in E. exfalso. apply H. left. exact E.
  - rewrite IH; [reflexivity|]. intro Hin. apply H. right. exact Hin.
Qed.

Lemma space_ix_inv s : forall n i j rest,
  space_ix s (S n) i = j :: rest ->
  exists a r, s = a ++ SP :: r /\ ~ In SP a /\ j = (i + length a)%nat /\ rest = space_ix r n (S j).
Proof.
  induction s as [|c s IH]; intros n i j rest H; [discriminate|].
  simpl in H. destruct (c =? SP) eqn:E.
  - apply Z.eqb_eq in E. subst c. injection H as <- <-.
    exists [], s. repeat split; [intros [] | simpl; lia].
  - apply IH in H as (a & r & -> & Hn & -> & ->).
    exists (c :: a), r. repeat split.
    + intros [Hc | Hin]; [apply Z.eqb_neq in E; congruence | exact (Hn Hin)].
    + simpl. lia.
Qed.

(* the two models of _split_plaintext agree on every plaintext that Wire's model accepts *)
Lemma split_agree s u k t f p :
  Wire.split_plaintext s = Some (u, k, t, f, p) -> Auth.split_plaintext s = SplitOk u k t f p.
Proof.
  unfold Wire.split_plaintext.
  destruct (space_ix s 4 0) as [|i0 [|i1 [|i2 [|i3 [|i4 l]]]]] eqn:E; try discriminate.
  apply space_ix_inv in E as (a0 & r0 & -> & N0 & -> & E). symmetry in E.
  apply space_ix_inv in E as (a1 & r1 & -> & N1 & -> & E). symmetry in E.
  apply space_ix_inv in E as (a2 & r2 & -> & N2 & -> & E). symmetry in E.
  apply space_ix_inv in E as (a3 & r3 & -> & N3 & -> & _).
  set (s := a0 ++ SP :: a1 ++ SP :: a2 ++ SP :: a3 ++ SP :: r3).
  assert (E2 : slice (S (0 + length a0) + length a1 + 1) (S (S (0 + length a0) + length a1) + length a2) s = a2).
  { replace s with ((a0 ++ SP :: a1 ++ [SP]) ++ a2 ++ (SP :: a3 ++ SP :: r3))
      by (unfold s; rewrite <- app_assoc; simpl; rewrite <- app_assoc; reflexivity).
    apply slice_field; rewrite app_length; simpl; rewrite app_length; simpl; lia. }
  assert (E3 : slice (S (S (0 + length a0) + length a1) + length a2 + 1)
                 (S (S (S (0 + length a0) + length a1) + length a2) + length a3) s = a3).
  { replace s with ((a0 ++ SP :: a1 ++ SP :: a2 ++ [SP]) ++ a3 ++ (SP :: r3))
      by (unfold s; rewrite <- app_assoc; simpl; rewrite <- app_assoc; simpl; rewrite <- app_assoc; reflexivity).
    apply slice_field; rewrite app_length; simpl; rewrite app_length; simpl; rewrite app_length; simpl; lia. }
  rewrite E2, E3.
  destruct (Wire.parse_int a2) as [ty|] eqn:P2; [|discriminate].
  destruct (Wire.parse_int a3) as [fl|] eqn:P3; [|discriminate].
  assert (E0 : firstn (0 + length a0) s = a0) by (apply firstn_pre; lia).
  assert (E1 : slice (0 + length a0 + 1) (S (0 + length a0) + length a1) s = a1).
  { replace s with ((a0 ++ [SP]) ++ a1 ++ (SP :: a2 ++ SP :: a3 ++ SP :: r3))
      by (unfold s; rewrite <- app_assoc; reflexivity).
    apply slice_field; rewrite app_length; simpl; lia. }
  assert (E4 : skipn (S (S (S (0 + length a0) + length a1) + length a2) + length a3 + 1) s = r3).
  { replace s with ((a0 ++ SP :: a1 ++ SP :: a2 ++ SP :: a3 ++ [SP]) ++ r3)
      by (unfold s; rewrite <- app_assoc; simpl; rewrite <- app_assoc; simpl; rewrite <- app_assoc; simpl;
          rewrite <- app_assoc; reflexivity).
    apply skipn_pre. rewrite app_length; simpl; rewrite app_length; simpl; rewrite app_length; simpl;
      rewrite app_length; simpl; lia. }
  rewrite E0, E1, E4. intros H. injection H as <- <- <- <- <-.
  unfold Auth.split_plaintext, s.
  rewrite (cut_space_app a0 _ N0), (cut_space_app a1 _ N1), (cut_space_app a2 _ N2), (cut_space_app a3 _ N3).
  rewrite (wire_parse_int_auth a2 ty P2), (wire_parse_int_auth a3 fl P3). reflexivity.
Qed.

(* ... in particular on every header the sender builds *)
Lemma auth_split_format urn key ty fl payload :
  ~ In SP urn -> ~ In SP key ->
  Auth.split_plaintext (Wire.format urn key ty fl payload) = SplitOk urn key ty fl payload.
Proof. intros Hu Hk. apply split_agree. apply split_format; assumption. Qed.

(* ================================================================== Part 3: D14 cannot occur here *)
Section NoTrailingNul.
  Variable dumps : json -> Wire.str.
  Hypothesis dumps_text : forall j, jvalid j = true -> str_ok (dumps j) = true.
  Hypothesis dumps_obj_brace : forall kv, jvalid (JObj kv) = true -> exists t, dumps (JObj kv) = t ++ [RBRACE].

  (* the payload of a SYNC / RESYNC is the text of a dict: it ends in "}" ... *)
  Lemma payload_ends_in_brace m : wf_msg m = true -> exists t, Wire.msg_to_str dumps m = t ++ [RBRACE].
  Proof.
    intros W. pose proof (jvalid_msg dumps dumps_text m W) as V.
    unfold Wire.msg_to_str. destruct m as [[c h] u]. apply dumps_obj_brace. exact V.
  Qed.

  (* ... so the plaintext "{urn} {key} {type} {flags} {payload}" does not end in U+0000, in either vocabulary *)
  Lemma plaintext_not_nul urn key ty fl m :
    wf_msg m = true ->
    Wire.ends_nul (plaintext_of dumps urn key ty fl m) = false /\
    ~ CryptoProofs.ends_nul (plaintext_of dumps urn key ty fl m) /\
    rstrip0 (plaintext_of dumps urn key ty fl m) = plaintext_of dumps urn key ty fl m.
  Proof.
    intros W. destruct (payload_ends_in_brace m W) as [t E].
    assert (H : Wire.ends_nul (plaintext_of dumps urn key ty fl m) = false).
    { unfold plaintext_of. rewrite E, format_ends. reflexivity. }
    split; [exact H|]. split; [apply ends_nul_conv; exact H|].
    apply rstrip0_id. apply ends_nul_conv. exact H.
  Qed.
End NoTrailingNul.

(* ================================================================== Part 4: end to end *)
(* what C11 says happens to the receiver's state when an authenticated well-formed message of type ty with
   flags fl and payload m arrives from the device urn at address addr *)
Definition expected_state (st : rstate) (addr urn : Wire.str) (ty fl : Z) (m : Wire.msg) : rstate :=
  if is_data ty then
    if qfull Wire.msg st
    then mkS (upd_peer urn (set_addr addr) (s_peers st)) (s_queue st) (s_qmax st)
    else mkS (touch urn addr fl (s_peers st)) (s_queue st ++ [m]) (s_qmax st)
  else if ty =? TYPE_PING then mkS (touch urn addr fl (s_peers st)) (s_queue st) (s_qmax st)
  else st.

(* the named peer after `touch`: address replaced, contact times cleared iff RESET is set *)
Definition touched (d : peer) (addr : Wire.str) (fl : Z) : peer :=
  mkP (p_urn d) (p_key d) addr (if has_reset fl then 0 else p_lc d) (if has_reset fl then 0 else p_la d)
      (p_fr d) (p_stash d).

Lemma set_addr_eq a p : set_addr a p = mkP (p_urn p) (p_key p) a (p_lc p) (p_la p) (p_fr p) (p_stash p).
Proof.
  unfold set_addr. destruct (str_eqb a (p_addr p)) eqn:E; [|reflexivity].
  apply AuthProofs.zlist_eqb_eq in E. subst a. destruct p; reflexivity.
Qed.

Lemma find_upd_peer urn f ps d :
  (forall p, p_urn (f p) = p_urn p) ->
  find_peer urn ps = Some d -> find_peer urn (upd_peer urn f ps) = Some (f d).
Proof.
  intros Hf. unfold find_peer, upd_peer. induction ps as [|p ps IH]; intros H; [discriminate|].
  simpl in *. destruct (str_eqb (p_urn p) urn) eqn:E.
  - injection H as <-. rewrite Hf, E. reflexivity.
  - rewrite E. exact (IH H).
Qed.

Lemma find_peer_touch urn addr fl ps d :
  find_peer urn ps = Some d -> find_peer urn (touch urn addr fl ps) = Some (touched d addr fl).
Proof.
  intros H. unfold touch, touched.
  assert (Hu : forall p, p_urn (set_addr addr p) = p_urn p) by (intros p; rewrite set_addr_eq; reflexivity).
  pose proof (find_upd_peer urn (set_addr addr) ps d Hu H) as H1.
  destruct (has_reset fl).
  - rewrite (find_upd_peer urn clear_last _ _ (fun _ => eq_refl) H1). rewrite set_addr_eq. reflexivity.
  - rewrite H1, set_addr_eq. reflexivity.
Qed.

Section EndToEnd.
  Variable dumps : json -> Wire.str.
  Variable loads : Wire.str -> option json.
  Variable utf8 : list Z -> list Z.
  Variable utf8_dec : list Z -> option (list Z).
  Variable gcm_enc : list Z -> list Z -> Z -> list Z -> list Z * list Z.
  Variable gcm_dec : list Z -> list Z -> Z -> list Z -> list Z -> option (list Z).

  (* CPython json (C09's premises) *)
  Hypothesis loads_dumps : forall j, jvalid j = true -> loads (dumps j) = Some j.
  Hypothesis dumps_text : forall j, jvalid j = true -> str_ok (dumps j) = true.
  Hypothesis dumps_obj_brace : forall kv, jvalid (JObj kv) = true -> exists t, dumps (JObj kv) = t ++ [RBRACE].
  (* PyCryptodome AES-GCM and CPython's UTF-8 codec (C17's premises) *)
  Hypothesis GCM : gcm_laws gcm_enc gcm_dec.
  Hypothesis UTF8 : utf8_laws utf8 utf8_dec.

  Notation wbytes := (wire_bytes dumps utf8 gcm_enc).
  Notation sr := (send_receive dumps loads utf8 utf8_dec gcm_enc gcm_dec).
  Notation ptext := (plaintext_of dumps).

  (* ---- sender -> wire: the bytes pass the receiver's end-of-message test and decrypt to the plaintext *)
  Lemma sender_bytes L draw urn key ty fl m bytes :
    str_ok urn = true -> str_ok key = true -> wf_msg m = true ->
    Crypto.len draw = c_nonce_len (l_cfg L) ->
    wbytes (l_cfg L) draw urn key ty fl m = Some bytes ->
    end_test (rcfg_of L) bytes = true /\
    Crypto.decrypt utf8 utf8_dec gcm_dec (l_cfg L) bytes = Some (ptext urn key ty fl m).
  Proof.
    intros Hu Hk W Hd He. unfold wire_bytes in He.
    assert (Hv : valid_str (ptext urn key ty fl m)).
    { apply str_ok_valid. unfold plaintext_of. apply format_str_ok; try assumption.
      unfold Wire.msg_to_str. apply dumps_text. apply (jvalid_msg dumps dumps_text m W). }
    assert (Hne : ptext urn key ty fl m <> []).
    { unfold plaintext_of, Wire.format. destruct urn; discriminate. }
    destruct (plaintext_not_nul dumps dumps_text dumps_obj_brace urn key ty fl m W) as (_ & Hnn & _).
    destruct (min_length_and_marker utf8 utf8_dec gcm_enc gcm_dec GCM UTF8 _ _ _ _ Hv Hne Hd He)
      as (Hmin & (pre & Hpre) & _).
    split.
    - exact (end_test_encrypted L bytes pre Hmin Hpre).
    - exact (roundtrip utf8 utf8_dec gcm_enc gcm_dec GCM UTF8 _ _ _ _ Hv Hnn Hd He).
  Qed.

  (* ---- plaintext -> state: Auth.handle on what the sender wrote *)
  Lemma handle_sent L (st : rstate) addr urn key ty fl m d :
    ~ In SP urn -> ~ In SP key -> wf_msg m = true -> (msg_depth m <= l_fuel L)%nat ->
    find_peer urn (s_peers st) = Some d -> key = p_key d ->
    fst (handle Wire.msg (Wire.msg_from_str loads (l_fuel L)) st addr (Some (ptext urn key ty fl m)))
    = expected_state st addr urn ty fl m.
  Proof.
    intros Hu Hk W Hf Hd Hkey. unfold handle, plaintext_of.
    rewrite (auth_split_format urn key ty fl _ Hu Hk), Hd. subst key.
    unfold str_eqb. rewrite AuthProofs.zlist_eqb_refl. cbn [negb].
    rewrite (msg_roundtrip dumps loads loads_dumps dumps_text m (l_fuel L) W Hf).
    unfold expected_state. destruct (is_data ty); [destruct (qfull Wire.msg st); reflexivity|].
    destruct (ty =? TYPE_PING); reflexivity.
  Qed.

  (* ---- the composition.  chunks: ANY cut of the sender's bytes into reads; tail: whatever the network does
     afterwards; a: the time the connection was accepted *)
  Theorem e2e_any_type L (st : rstate) addr draw urn key ty fl m d bytes chunks tail a clock :
    str_ok urn = true -> str_ok key = true -> ~ In SP urn -> ~ In SP key ->
    wf_msg m = true -> (msg_depth m <= l_fuel L)%nat ->
    Crypto.len draw = c_nonce_len (l_cfg L) ->
    wbytes (l_cfg L) draw urn key ty fl m = Some bytes ->
    find_peer urn (s_peers st) = Some d -> key = p_key d ->
    concat chunks = bytes -> Forall (chunk_ok (rcfg_of L)) chunks ->
    no_premature (rcfg_of L) chunks -> timely (rcfg_of L) a (length chunks) clock ->
    sr L st addr draw urn key ty fl m (sizes_of chunks ++ tail) (a :: clock)
    = Some (expected_state st addr urn ty fl m).
  Proof.
    intros Hu Hk Su Sk W Hf Hd He Hp Hkey Hcat Hok Hpre Ht.
    destruct (sender_bytes L draw urn key ty fl m bytes Hu Hk W Hd He) as (Hend & Hdec).
    unfold send_receive. rewrite He. f_equal. unfold receive_session.
    assert (Hne : chunks <> []).
    { intros ->. simpl in Hcat. subst bytes.
      assert (X : end_test (rcfg_of L) [] = false) by (unfold end_test, end_ok; apply andb_false_r).
      congruence. }
    assert (Hscript : mk_script bytes (sizes_of chunks ++ tail) = map Bytes chunks ++ mk_script [] tail).
    { rewrite <- Hcat. rewrite <- (app_nil_r (concat chunks)) at 1. apply mk_script_chunks.
      eapply Forall_impl; [|exact Hok]. intros ch [Hch _]. exact Hch. }
    rewrite Hscript.
    assert (Ho : session_outcome (rcfg_of L) (map Bytes chunks ++ mk_script [] tail, a :: clock) = Deliver bytes).
    { unfold session_outcome, session. cbn [fst snd].
      apply (delivery_any_cut_lem (rcfg_of L) a bytes chunks _ clock); try assumption. reflexivity. }
    pose proof (listener_survives_lem Wire.msg (Wire.msg_from_str loads (l_fuel L))
                  (Crypto.decrypt utf8 utf8_dec gcm_dec (l_cfg L)) (rcfg_of L) st [] addr _ bytes
                  eq_refl (Forall_nil _) Ho) as Hs.
    cbn [app] in Hs. refine (eq_trans Hs _). rewrite Hdec.
    exact (handle_sent L st addr urn key ty fl m d Su Sk W Hf Hp Hkey).
  Qed.

  (* SYNC / RESYNC, room in the queue: exactly one new entry, equal to what was sent *)
  Corollary e2e_delivery L (st : rstate) addr draw urn key ty fl m d bytes chunks tail a clock :
    str_ok urn = true -> str_ok key = true -> ~ In SP urn -> ~ In SP key ->
    wf_msg m = true -> (msg_depth m <= l_fuel L)%nat ->
    Crypto.len draw = c_nonce_len (l_cfg L) ->
    wbytes (l_cfg L) draw urn key ty fl m = Some bytes ->
    find_peer urn (s_peers st) = Some d -> key = p_key d ->
    (ty = TYPE_SYNC \/ ty = TYPE_RESYNC) -> qfull Wire.msg st = false ->
    concat chunks = bytes -> Forall (chunk_ok (rcfg_of L)) chunks ->
    no_premature (rcfg_of L) chunks -> timely (rcfg_of L) a (length chunks) clock ->
    sr L st addr draw urn key ty fl m (sizes_of chunks ++ tail) (a :: clock)
    = Some (mkS (touch urn addr fl (s_peers st)) (s_queue st ++ [m]) (s_qmax st)).
  Proof.
    intros Hu Hk Su Sk W Hf Hd He Hp Hkey Hty Hq Hcat Hok Hpre Ht.
    rewrite (e2e_any_type L st addr draw urn key ty fl m d bytes chunks tail a clock); try assumption.
    unfold expected_state. rewrite Hq.
    replace (is_data ty) with true; [reflexivity|].
    destruct Hty as [-> | ->]; reflexivity.
  Qed.
  (* the same, with the cut named by the read sizes k_1 .. k_n alone (1 <= k_i <= recv_bytes, adding up to the
     number of bytes; nothing is asked of the last one) *)
  Corollary e2e_delivery_sizes L (st : rstate) addr draw urn key ty fl m d bytes (sizes : list nat) tail a clock :
    str_ok urn = true -> str_ok key = true -> ~ In SP urn -> ~ In SP key ->
    wf_msg m = true -> (msg_depth m <= l_fuel L)%nat ->
    Crypto.len draw = c_nonce_len (l_cfg L) ->
    wbytes (l_cfg L) draw urn key ty fl m = Some bytes ->
    find_peer urn (s_peers st) = Some d -> key = p_key d ->
    (ty = TYPE_SYNC \/ ty = TYPE_RESYNC) -> qfull Wire.msg st = false ->
    Forall (fun k => 1 <= k <= l_nrecv L)%nat sizes -> list_sum sizes = length bytes ->
    no_premature (rcfg_of L) (cut_by sizes bytes) -> timely (rcfg_of L) a (length sizes) clock ->
    sr L st addr draw urn key ty fl m (map Z.of_nat sizes ++ tail) (a :: clock)
    = Some (mkS (touch urn addr fl (s_peers st)) (s_queue st ++ [m]) (s_qmax st)).
  Proof.
    intros Hu Hk Su Sk W Hf Hd He Hp Hkey Hty Hq Hsz Hsum Hpre Ht.
    destruct (cut_by_spec sizes bytes Hsum) as [Hcat Hlen].
    rewrite <- (sizes_of_cut_by sizes bytes Hsum).
    apply (e2e_delivery L st addr draw urn key ty fl m d bytes (cut_by sizes bytes) tail a clock);
      try assumption.
    - exact (cut_by_chunk_ok (rcfg_of L) sizes bytes Hsum Hsz).
    - rewrite <- Hlen in Ht. rewrite map_length in Ht. exact Ht.
  Qed.
End EndToEnd.

(* what the final state of e2e_delivery means, piece by piece *)
Lemma delivered_state_facts (st : rstate) addr urn fl (m : Wire.msg) d (dumps : json -> Wire.str) :
  find_peer urn (s_peers st) = Some d ->
  let st' := mkS (touch urn addr fl (s_peers st)) (s_queue st ++ [m]) (s_qmax st) in
  (* exactly one more entry, the last one, equal to the sender's three lists, same text when serialised again *)
  length (s_queue st') = S (length (s_queue st)) /\
  firstn (length (s_queue st)) (s_queue st') = s_queue st /\
  (forall m', last (s_queue st') m' = m /\ Wire.msg_to_str dumps (last (s_queue st') m') = Wire.msg_to_str dumps m) /\
  (* the sending peer: address is the client's, contact times cleared iff RESET *)
  find_peer urn (s_peers st') = Some (touched d addr fl) /\
  (* nothing else changes: every other peer is identical; names, keys, reset requests, backlogs of all *)
  Forall2 (same_but_contact urn) (s_peers st) (s_peers st') /\
  s_qmax st' = s_qmax st /\
  (* _update() hands it to the subscribers: with an empty queue before and at least one record, one call *)
  (s_queue st = [] -> has_records m = true -> deliveries st' = [m]).
Proof.
  intros Hd st'. subst st'. cbn [s_queue s_peers s_qmax]. repeat split.
  - rewrite app_length. simpl. lia.
  - apply firstn_pre. reflexivity.
  - apply last_last.
  - rewrite last_last. reflexivity.
  - apply find_peer_touch. exact Hd.
  - apply touch_frame_lem.
  - intros Hq Hr. unfold deliveries. cbn [s_queue]. rewrite Hq. simpl. rewrite Hr. reflexivity.
Qed.
