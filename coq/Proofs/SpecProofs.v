(* Model/Run.v refines the declarative specification Model/SpecC01.v: sound, complete, deterministic. *)
From Bobo Require Import Base.Prelude Base.History Model.Pattern Model.Run Model.SpecC01 Proofs.RunProofs.

Section SpecProofs.
  Variable E : Type.
  Notation run := (run E).
  Notation block := (block E).

  Lemma walk_sound (bs : list block) i (r : run) (e : E) r' c :
    Forall (fun b => wf_block b = true) bs ->
    walk bs i r e = Ok (r', c) -> block_spec r e bs i r' c.
  Proof.
    revert i. induction bs as [|b rest IH]; intros i Hwf H; simpl in H; [discriminate|].
    inversion Hwf as [|? ? Hb Hrest]; subst.
    unfold wf_block, wf_flags in Hb. rewrite !andb_true_iff, !negb_true_iff in Hb.
    destruct Hb as [_ [[Hso Hl] Hno]].
    destruct (any_sc (b_preds b) e (r_hist r)) eqn:Em; try discriminate;
      destruct (b_loop b) eqn:El, (b_neg b) eqn:En, (b_opt b) eqn:Eo, (b_strict b) eqn:Es;
      simpl in *; try discriminate;
      try (injection H as <- <-);
      try (now (apply S_accept; [repeat split|]; auto));
      try (now (apply S_wait; [repeat split| |]; auto));
      try (now (apply S_halt; [repeat split| |]; auto));
      try (now (apply S_neg_advance; auto));
      try (now (apply S_neg_hit_strict; auto));
      try (now (apply S_neg_hit_relaxed; auto));
      try (now (apply S_opt_accept; auto));
      try (now (apply S_loop_accept; auto));
      try (now (apply S_loop_halt; auto));
      try (now (apply S_opt_skip; auto));
      try (now (apply S_loop_skip; auto)).
  Qed.

  Lemma block_spec_walk (bs : list block) i (r : run) (e : E) r' c :
    block_spec r e bs i r' c -> walk bs i r e = Ok (r', c).
  Proof.
    induction 1 as [b rest i [Hl [Hn Ho]] Ha | b rest i [Hl [Hn Ho]] Hr Hs | b rest i [Hl [Hn Ho]] Hr Hs
                    | b rest i Hl Hn Hr | b rest i Hl Hn Ha Hs | b rest i Hl Hn Ha Hs
                    | b rest i Hl Hn Ho Ha | b rest i r' c Hl Hn Ho Hr _ IH
                    | b rest i Hl Ha | b rest i Hl Hr Hs | b rest i r' c Hl Hr Hs _ IH];
      simpl; unfold accepts, rejects in *;
      repeat match goal with H : _ = _ |- _ => rewrite H end; try reflexivity; exact IH.
  Qed.

  Theorem process_sound (r : run) (e : E) r' c :
    wf_pattern (r_pat r) = true -> process r e = Ok (r', c) -> run_spec r e r' c.
  Proof.
    intros Hwf H. unfold process in H. destruct (r_halted r) eqn:Eh.
    - injection H as <- <-. now apply RS_finished.
    - destruct (eval_all (p_pre (r_pat r)) e (r_hist r)) as [ps|] eqn:E1; [|discriminate].
      destruct (forallb (fun b => b) ps) eqn:Ef; simpl in H.
      + destruct (eval_all (p_halt (r_pat r)) e (r_hist r)) as [hs|] eqn:E2; [|discriminate].
        destruct (existsb (fun b => b) hs) eqn:Ex.
        * injection H as <- <-. eapply RS_halt_cond; eauto.
        * eapply RS_blocks; eauto. apply walk_sound; [|exact H].
          unfold wf_pattern in Hwf. destruct (p_blocks (r_pat r)) as [|b0 bs] eqn:Eb; [discriminate|].
          rewrite !andb_true_iff in Hwf. destruct Hwf as [[Hall _] _].
          rewrite forallb_forall in Hall. apply Forall_forall. intros b Hb. apply Hall.
          rewrite <- (firstn_skipn (r_idx r) (b0 :: bs)). apply in_or_app. now right.
      + injection H as <- <-. eapply RS_pre_fail; eauto.
  Qed.

  Theorem process_complete (r : run) (e : E) r' c :
    run_spec r e r' c -> process r e = Ok (r', c).
  Proof.
    destruct 1 as [Hh | ps Hh E1 Ef | ps hs Hh E1 Ef E2 Ex | ps hs r' c Hh E1 Ef E2 Ex Hb];
      unfold process; rewrite Hh; try reflexivity; rewrite E1, Ef; simpl; try reflexivity;
      rewrite E2, Ex; try reflexivity. now apply block_spec_walk.
  Qed.

  Corollary run_spec_deterministic (r : run) (e : E) r1 c1 r2 c2 :
    run_spec r e r1 c1 -> run_spec r e r2 c2 -> r1 = r2 /\ c1 = c2.
  Proof.
    intros H1 H2. apply process_complete in H1, H2. rewrite H1 in H2. now injection H2 as -> ->.
  Qed.

  (* when no predicate raises, the specification always determines an outcome *)
  Theorem process_total (r : run) (e : E) :
    wf_pattern (r_pat r) = true -> (r_idx r < length (p_blocks (r_pat r)))%nat ->
    (forall k, process r e <> Exn k) -> exists r' c, run_spec r e r' c.
  Proof.
    intros Hwf Hi Hne. destruct (process r e) as [[r' c]|k] eqn:Ep; [|exfalso; eapply Hne; eauto].
    exists r', c. now apply process_sound.
  Qed.

  (* a run completes exactly when its final block accepts the event *)
  Theorem completes_iff_last_block_accepts (r : run) (e : E) r' :
    r_halted r = false -> (r_idx r < length (p_blocks (r_pat r)))%nat ->
    process r e = Ok (r', true) ->
    (is_complete r' = true <->
     exists b, nth_error (p_blocks (r_pat r)) (length (p_blocks (r_pat r)) - 1) = Some b /\
               r' = move_forward r e b (length (p_blocks (r_pat r)) - 1)).
  Proof.
    intros Hh Hi Hp. pose proof (process_outcome E r e r' true Hp) as Ho.
    inversion Ho as [| |b Hb|b i Hn Hle]; subst; unfold is_complete, nblocks; simpl.
    - split.
      + intro H. apply Nat.leb_le in H. lia.
      + intros [b [_ Heq]]. exfalso. apply (f_equal (@r_idx E)) in Heq. simpl in Heq. lia.
    - split.
      + intro H. apply Nat.leb_le in H. lia.
      + intros [b0 [_ Heq]]. exfalso. apply (f_equal (@r_idx E)) in Heq. simpl in Heq. lia.
    - assert (Hil : (i < length (p_blocks (r_pat r)))%nat) by (apply nth_error_Some; congruence).
      split.
      + intro H. apply Nat.leb_le in H. assert (i = length (p_blocks (r_pat r)) - 1)%nat as -> by lia.
        exists b. auto.
      + intros [b0 [_ Heq]]. apply (f_equal (@r_idx E)) in Heq. simpl in Heq. apply Nat.leb_le. lia.
  Qed.
End SpecProofs.
