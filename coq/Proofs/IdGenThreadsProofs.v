(* C16, threads: every interleaving of the steps of generate() hands out the identifiers of the SEQUENTIAL generator
   run on the clock readings in lock-acquisition order - hence pairwise distinct; building the identifier after the
   lock is released is refuted. *)
From Bobo Require Import Base.Prelude Model.IdGen Model.IdGenThreads Proofs.IdGenProofs.

Fixpoint gen_st (s : gstate) (clk : list Z) : gstate :=
  match clk with [] => s | c :: cs => gen_st (fst (gen s c)) cs end.

Lemma gen_all_app s a : forall b, gen_all gen s (a ++ b) = gen_all gen s a ++ gen_all gen (gen_st s a) b.
Proof.
  revert s. induction a as [|c a IH]; intros s b; [reflexivity|]. simpl.
  destruct (gen s c) as [s' id] eqn:E. simpl. now rewrite IH.
Qed.

Lemma gen_st_app s a : forall b, gen_st s (a ++ b) = gen_st (gen_st s a) b.
Proof. revert s. induction a as [|c a IH]; intros s b; [reflexivity|]. simpl. apply IH. Qed.

(* ---- lists of program counters ---- *)
Lemma nth_firstn {A} (l : list A) : forall n i, (i < n)%nat -> nth_error (firstn n l) i = nth_error l i.
Proof.
  induction l as [|x l IH]; intros n i H; [now rewrite firstn_nil|].
  destruct n as [|n]; [lia|]. destruct i as [|i]; [reflexivity|]. simpl. apply IH. lia.
Qed.

Lemma nth_skipn {A} (l : list A) : forall n i, nth_error (skipn n l) i = nth_error l (n + i).
Proof.
  induction l as [|x l IH]; intros n i; [rewrite skipn_nil; destruct i, n; reflexivity|].
  destruct n as [|n]; [reflexivity|]. simpl. apply IH.
Qed.

Lemma nth_set_same (l : list tpc) t p q : nth_error l t = Some q -> nth_error (set_pc l t p) t = Some p.
Proof.
  intro H. unfold set_pc. assert (Hl : (t < length l)%nat) by (apply nth_error_Some; congruence).
  rewrite nth_error_app2; rewrite firstn_length_le by lia; [|lia]. now rewrite Nat.sub_diag.
Qed.

Lemma nth_set_other (l : list tpc) t t' p q : nth_error l t = Some q -> t' <> t ->
  nth_error (set_pc l t p) t' = nth_error l t'.
Proof.
  intros H Hne. unfold set_pc. assert (Hl : (t < length l)%nat) by (apply nth_error_Some; congruence).
  destruct (Nat.lt_ge_cases t' t) as [Hlt|Hge].
  - rewrite nth_error_app1 by (rewrite firstn_length_le; lia). now rewrite nth_firstn by lia.
  - rewrite nth_error_app2 by (rewrite firstn_length_le; lia). rewrite firstn_length_le by lia.
    destruct (t' - t)%nat as [|k] eqn:Ek; [lia|]. cbn [nth_error]. rewrite nth_skipn. f_equal. lia.
Qed.

Definition others_idle (l : list tpc) (t : nat) : Prop :=
  forall t' q, t' <> t -> nth_error l t' = Some q -> q = TIdle.

Definition all_idle (l : list tpc) : Prop := forall t q, nth_error l t = Some q -> q = TIdle.

(* ---- the invariant of the code as it is (identifier built under the lock) ---- *)
Definition TInv (clk0 : list Z) (s : tstate) : Prop :=
  exists used, clk0 = used ++ t_clk s /\ t_sh s = gen_st g_init used /\
    match t_lock s with
    | None => t_out s = gen_all gen g_init used /\ all_idle (t_pcs s)
    | Some t => exists p, nth_error (t_pcs s) t = Some p /\ others_idle (t_pcs s) t /\
        match p with
        | TAcq => t_out s = gen_all gen g_init used
        | TUpd id => t_out s ++ [id] = gen_all gen g_init used
        | _ => False
        end
    end.

Lemma TInv_init n clk : TInv clk (t_init n clk).
Proof.
  exists []. simpl. repeat split. intros t q H. apply nth_error_In in H. now apply repeat_spec in H.
Qed.

Lemma TInv_step clk0 s t : TInv clk0 s -> TInv clk0 (tstep true s t).
Proof.
  intros Hsame. pose proof Hsame as [used [Hc [Hs Hl]]]. unfold tstep.
  destruct (nth_error (t_pcs s) t) as [p|] eqn:Ep; [|exact Hsame].
  destruct p as [| |id|now].
  - (* idle: try to take the lock *)
    destruct (t_lock s) as [u|] eqn:El; [exact Hsame|].
    destruct Hl as [Hout Hidle]. exists used. simpl. repeat split; auto.
    exists TAcq. split; [eapply nth_set_same; eauto|]. split; [|exact Hout].
    intros t' q Hne Hq. rewrite (nth_set_other _ _ _ _ _ Ep Hne) in Hq. eapply Hidle; eauto.
  - (* holds the lock: read the clock, update *)
    destruct (t_lock s) as [u|] eqn:El.
    2:{ destruct Hl as [_ Hidle]. specialize (Hidle _ _ Ep). discriminate. }
    destruct Hl as [p [Hp [Hoth Hm]]].
    assert (t = u) as -> by (destruct (Nat.eq_dec t u); [assumption|specialize (Hoth _ _ n Ep); discriminate]).
    rewrite Ep in Hp. injection Hp as <-.
    destruct (t_clk s) as [|c rest] eqn:Ek; [exact Hsame|].
    destruct (gen (t_sh s) c) as [sh' id] eqn:Eg. exists (used ++ [c]). simpl.
    split; [rewrite <- app_assoc; exact Hc|].
    split; [rewrite gen_st_app, <- Hs; simpl; now rewrite Eg|].
    exists (TUpd id). split; [eapply nth_set_same; eauto|]. split.
    + intros t' q Hne Hq. rewrite (nth_set_other _ _ _ _ _ Ep Hne) in Hq. eapply Hoth; eauto.
    + rewrite gen_all_app, <- Hs, Hm. simpl. now rewrite Eg.
  - (* identifier built under the lock, then released *)
    destruct (t_lock s) as [u|] eqn:El.
    2:{ destruct Hl as [_ Hidle]. specialize (Hidle _ _ Ep). discriminate. }
    destruct Hl as [p [Hp [Hoth Hm]]].
    assert (t = u) as -> by (destruct (Nat.eq_dec t u); [assumption|specialize (Hoth _ _ n Ep); discriminate]).
    rewrite Ep in Hp. injection Hp as <-.
    exists used. simpl. repeat split; auto.
    intros t' q Hq. destruct (Nat.eq_dec t' u) as [->|Hne].
    + rewrite (nth_set_same _ _ TIdle _ Ep) in Hq. congruence.
    + rewrite (nth_set_other _ _ _ _ _ Ep Hne) in Hq. eapply Hoth; eauto.
  - (* never reached when the identifier is built under the lock *)
    exfalso. destruct (t_lock s) as [u|] eqn:El.
    + destruct Hl as [p [Hp [Hoth Hm]]]. destruct (Nat.eq_dec t u) as [->|Hne].
      * rewrite Ep in Hp. injection Hp as <-. exact Hm.
      * specialize (Hoth _ _ Hne Ep). discriminate.
    + destruct Hl as [_ Hidle]. specialize (Hidle _ _ Ep). discriminate.
Qed.

Lemma TInv_run clk0 sched : forall s, TInv clk0 s -> TInv clk0 (trun true s sched).
Proof.
  unfold trun. induction sched as [|t rest IH]; intros s H; [exact H|]. simpl. apply IH. now apply TInv_step.
Qed.

Definition is_prefix {A} (a b : list A) : Prop := exists c, b = a ++ c.

Lemma nodup_app_l {A} (a c : list A) : NoDup (a ++ c) -> NoDup a.
Proof.
  induction a as [|x a IH]; intro H; [constructor|]. simpl in H. inversion H as [|? ? Hx Hn]; subst.
  constructor; [intro Hin; apply Hx; apply in_or_app; now left|now apply IH].
Qed.

Lemma nodup_prefix {A} (a b : list A) : is_prefix a b -> NoDup b -> NoDup a.
Proof. intros [c ->] H. now apply nodup_app_l in H. Qed.

(* the identifiers handed out, in the order they were built, are an initial segment of what the sequential
   generator returns on the clock readings consumed so far (= in lock-acquisition order) *)
Theorem threads_refine_sequential n clk sched :
  let s := trun true (t_init n clk) sched in
  exists used, clk = used ++ t_clk s /\ is_prefix (t_out s) (gen_all gen g_init used) /\
               (t_lock s = None -> t_out s = gen_all gen g_init used).
Proof.
  intro s. destruct (TInv_run clk sched _ (TInv_init n clk)) as [used [Hc [Hs Hl]]]. fold s in Hc, Hs, Hl.
  exists used. split; [exact Hc|]. destruct (t_lock s) as [u|].
  - destruct Hl as [p [_ [_ Hm]]]. split; [|discriminate]. destruct p; try contradiction.
    + exists []. now rewrite app_nil_r.
    + exists [id]. now symmetry.
  - destruct Hl as [Hout _]. split; [exists []; now rewrite app_nil_r|auto].
Qed.

Theorem threads_ids_distinct n clk sched urn :
  NoDup (map (render urn) (t_out (trun true (t_init n clk) sched))).
Proof.
  destruct (threads_refine_sequential n clk sched) as [used [_ [[c Hp] _]]].
  pose proof (ids_nodup_from g_init urn used) as H. rewrite Hp, map_app in H. now apply nodup_app_l in H.
Qed.

(* shortening the critical section (identifier built after the release, from the shared counter): two threads,
   one second, the same identifier twice *)
Definition bad_sched : list nat := [0; 0; 0; 1; 1; 1; 0; 1]%nat.

Lemma format_outside_lock_repeats :
  t_out (trun false (t_init 2 [5; 5]) bad_sched) = [(5, 1); (5, 1)] /\
  t_out (trun true (t_init 2 [5; 5]) bad_sched) = [(5, 0); (5, 1)].
Proof. split; vm_compute; reflexivity. Qed.
