(* C04: convergence of the abstract replication system over the status lattice. *)
From Bobo Require Import Base.Prelude Base.History Model.Pattern Model.Run Model.Decider Model.Converge.

Lemma st_le_refl a : st_le a a = true.
Proof. destruct a; simpl; auto. rewrite Nat.eqb_refl, Nat.leb_refl. now rewrite orb_true_r. Qed.

Lemma active_le_spec i n j m :
  (Nat.ltb i j || (Nat.eqb i j && Nat.leb n m)) = true <-> (i < j \/ (i = j /\ n <= m))%nat.
Proof.
  rewrite orb_true_iff, andb_true_iff, Nat.ltb_lt, Nat.eqb_eq, Nat.leb_le. tauto.
Qed.

Lemma st_le_trans a b c : st_le a b = true -> st_le b c = true -> st_le a c = true.
Proof.
  destruct a, b, c; simpl; auto; try discriminate.
  rewrite !active_le_spec. lia.
Qed.

Lemma st_le_antisym a b : st_le a b = true -> st_le b a = true -> a = b.
Proof.
  destruct a, b; simpl; auto; try discriminate.
  rewrite !active_le_spec. intros H1 H2. assert (i = i0 /\ n = n0) as [-> ->] by lia. reflexivity.
Qed.

Lemma st_le_total a b : st_le a b = true \/ st_le b a = true.
Proof.
  destruct a, b; simpl; auto. rewrite !active_le_spec. lia.
Qed.

Lemma st_le_absent a : st_le a Absent = true -> a = Absent.
Proof. destruct a; simpl; auto; discriminate. Qed.

Lemma st_max_ge_l a b : st_le a (st_max a b) = true.
Proof. unfold st_max. destruct (st_le a b) eqn:E; [exact E|apply st_le_refl]. Qed.

Lemma st_max_ge_r a b : st_le b (st_max a b) = true.
Proof.
  unfold st_max. destruct (st_le a b) eqn:E; [apply st_le_refl|].
  destruct (st_le_total a b) as [H|H]; [congruence|exact H].
Qed.

Lemma st_max_cases a b : st_max a b = a \/ st_max a b = b.
Proof. unfold st_max. destruct (st_le a b); auto. Qed.

(* completion wins over a halt, a halt wins over progress, progress never goes backwards *)
Lemma completed_top a : st_le a Completed = true.
Proof. destruct a; reflexivity. Qed.
Lemma halted_above_active i n : st_le (Active i n) Halted = true.
Proof. reflexivity. Qed.
Lemma completed_beats_halt : st_max Halted Completed = Completed /\ st_max Completed Halted = Completed.
Proof. split; reflexivity. Qed.
Lemma halt_beats_progress i n : st_max (Active i n) Halted = Halted /\ st_max Halted (Active i n) = Halted.
Proof. split; reflexivity. Qed.

(* ---------- joining the facts of a message ---------- *)
Lemma join_facts_ge id fs : forall s0, st_le s0 (join_facts id fs s0) = true.
Proof.
  unfold join_facts. induction fs as [|f fs IH]; intro s0; simpl; [apply st_le_refl|].
  destruct (Z.eqb (snd (fst f)) id); [|apply IH].
  eapply st_le_trans; [apply st_max_ge_l|apply IH].
Qed.

Lemma join_facts_ge_fact id fs : forall s0 f, In f fs -> snd (fst f) = id ->
  st_le (snd f) (join_facts id fs s0) = true.
Proof.
  unfold join_facts. induction fs as [|g fs IH]; intros s0 f Hin Hid; [contradiction|]. simpl.
  destruct Hin as [->|Hin].
  - rewrite Hid, Z.eqb_refl. eapply st_le_trans; [apply st_max_ge_r|apply (join_facts_ge id fs)].
  - apply IH; auto.
Qed.

Lemma join_facts_origin id fs : forall s0,
  join_facts id fs s0 = s0 \/ exists f, In f fs /\ snd (fst f) = id /\ snd f = join_facts id fs s0.
Proof.
  unfold join_facts. induction fs as [|g fs IH]; intro s0; simpl; [now left|].
  destruct (Z.eqb_spec (snd (fst g)) id) as [Hid|Hne].
  - destruct (IH (st_max s0 (snd g))) as [H|[f [Hf [Hfi Hfs]]]].
    + destruct (st_max_cases s0 (snd g)) as [Hm|Hm].
      * left. now rewrite H, Hm.
      * right. exists g. split; [now left|]. split; [exact Hid|]. now rewrite H, Hm.
    + right. exists f. split; [now right|]. split; [exact Hfi|exact Hfs].
  - destruct (IH s0) as [H|[f [Hf [Hfi Hfs]]]]; [now left|]. right. exists f. split; [now right|]. split; assumption.
Qed.

(* ---------- invariant: every belief was announced by someone ---------- *)
Definition held_emitted (a : asys) : Prop :=
  forall j id, a_status a j id <> Absent -> exists i, In (i, id, a_status a j id) (a_emitted a).

Lemma held_emitted_init : held_emitted a_init.
Proof. intros j id H. simpl in H. congruence. Qed.

Lemma st_eq_dec (x y : st) : x = y \/ x <> y.
Proof.
  destruct x as [|x1 y1| |], y as [|x2 y2| |]; try (now left); try (right; discriminate).
  destruct (Nat.eq_dec x1 x2) as [->|]; [destruct (Nat.eq_dec y1 y2) as [->|]|]; [now left| |]; right; congruence.
Qed.

Lemma held_emitted_step a b : astep a b -> held_emitted a -> held_emitted b.
Proof.
  intros Hs Hinv. destruct Hs as [i a b extra Hmono Hoth Hann Hem | j a b m Hsub Hj Hoth Hem]; intros k id Hne.
  - rewrite Hem. destruct (Nat.eq_dec k i) as [->|Hki].
    + destruct (st_eq_dec (a_status b i id) (a_status a i id)) as [Heq|Hneq].
      * destruct (Hinv i id) as [i0 Hi0]; [congruence|]. exists i0. apply in_or_app. left. now rewrite Heq.
      * exists i. apply in_or_app. right. now apply Hann.
    + rewrite (Hoth k id Hki) in *. destruct (Hinv k id Hne) as [i0 Hi0]. exists i0. apply in_or_app. now left.
  - rewrite Hem. destruct (Nat.eq_dec k j) as [->|Hkj]; [|rewrite (Hoth k id Hkj) in *; now apply Hinv].
    rewrite Hj in *. destruct (join_facts_origin id m (a_status a j id)) as [Heq|[f [Hf [Hfi Hfs]]]].
    + rewrite Heq in *. now apply Hinv.
    + exists (fst (fst f)). rewrite <- Hfs, <- Hfi. destruct f as [[i0 id0] s0]. simpl. now apply Hsub.
Qed.

Lemma held_emitted_steps a b : asteps a b -> held_emitted a -> held_emitted b.
Proof. induction 1 as [a|a b c _ IH Hs]; auto. intro Hi. eapply held_emitted_step; eauto. Qed.

(* ---------- statuses only grow ---------- *)
Lemma astep_monotone a b : astep a b -> forall j id, st_le (a_status a j id) (a_status b j id) = true.
Proof.
  intros Hs k id. destruct Hs as [i a b extra Hmono Hoth Hann Hem | j a b m Hsub Hj Hoth Hem].
  - destruct (Nat.eq_dec k i) as [->|Hki]; [apply Hmono|rewrite (Hoth k id Hki); apply st_le_refl].
  - destruct (Nat.eq_dec k j) as [->|Hkj]; [rewrite Hj; apply join_facts_ge|rewrite (Hoth k id Hkj); apply st_le_refl].
Qed.

Lemma asteps_monotone a b : asteps a b -> forall j id, st_le (a_status a j id) (a_status b j id) = true.
Proof.
  induction 1 as [a|a b c _ IH Hs]; intros j id; [apply st_le_refl|].
  eapply st_le_trans; [apply IH|now apply astep_monotone].
Qed.

(* ---------- convergence ---------- *)
Theorem convergence n a :
  held_emitted a -> all_delivered n a -> forall j k id, (j < n)%nat -> (k < n)%nat -> a_status a j id = a_status a k id.
Proof.
  intros Hinv Hall j k id Hj Hk.
  assert (G : forall x y, (y < n)%nat -> st_le (a_status a x id) (a_status a y id) = true).
  { intros x y Hy. destruct (a_status a x id) as [|ai an| |] eqn:Ex; [reflexivity| | |];
      (destruct (Hinv x id) as [i0 Hi]; [congruence|]; rewrite Ex in Hi; exact (Hall _ y Hy Hi)). }
  apply st_le_antisym; apply G; assumption.
Qed.

Theorem convergence_reachable n a :
  asteps a_init a -> all_delivered n a -> forall j k id, (j < n)%nat -> (k < n)%nat -> a_status a j id = a_status a k id.
Proof. intros Hr. apply convergence. eapply held_emitted_steps; eauto. apply held_emitted_init. Qed.

(* a run completed anywhere is completed everywhere once everything is delivered *)
Corollary completed_everywhere n a i id :
  asteps a_init a -> all_delivered n a -> (i < n)%nat -> a_status a i id = Completed ->
  forall j, (j < n)%nat -> a_status a j id = Completed.
Proof. intros Hr Hd Hi Hc j Hj. rewrite <- Hc. now apply (convergence_reachable n). Qed.

(* delivering a message to j establishes the delivery premise for the facts it carries *)
Lemma deliver_establishes a j m f :
  In f m -> st_le (snd f) (join_facts (snd (fst f)) m (a_status a j (snd (fst f)))) = true.
Proof. intro H. now apply join_facts_ge_fact. Qed.
