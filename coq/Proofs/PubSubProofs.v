From Bobo Require Import Base.Prelude Model.PubSub.

Lemma zmemb_In x l : zmemb x l = true <-> In x l.
Proof.
  unfold zmemb. rewrite existsb_exists. split.
  - intros [y [Hy He]]. apply Z.eqb_eq in He. now subst.
  - intro H. exists x. split; [exact H|apply Z.eqb_refl].
Qed.

Lemma nodup_snoc (l : list Z) x : NoDup l -> ~ In x l -> NoDup (l ++ [x]).
Proof.
  induction l as [|a l IH]; simpl; intros Hnd Hn; [constructor; [intros []|constructor]|].
  inversion Hnd as [|? ? Ha Hl]; subst. constructor.
  - rewrite in_app_iff. simpl. intros [H|[H|[]]]; [contradiction|]. subst. apply Hn. now left.
  - apply IH; auto.
Qed.

Lemma subscribe_nodup subs x : NoDup subs -> NoDup (subscribe true subs x).
Proof.
  intro H. unfold subscribe. simpl. destruct (zmemb x subs) eqn:E; [exact H|].
  apply nodup_snoc; auto. intro Hin. apply zmemb_In in Hin. congruence.
Qed.

Lemma subscribe_in subs x y : In y (subscribe true subs x) <-> In y subs \/ y = x.
Proof.
  unfold subscribe. simpl. destruct (zmemb x subs) eqn:E.
  - apply zmemb_In in E. split; [auto|]. intros [H| ->]; auto.
  - rewrite in_app_iff. simpl. intuition.
Qed.

Lemma subscribe_all_from calls : forall subs,
  NoDup subs ->
  NoDup (fold_left (subscribe true) calls subs) /\
  (forall y, In y (fold_left (subscribe true) calls subs) <-> In y subs \/ In y calls).
Proof.
  induction calls as [|c calls IH]; intros subs Hnd; simpl.
  - split; [exact Hnd|]. intro y. intuition.
  - destruct (IH (subscribe true subs c) (subscribe_nodup subs c Hnd)) as [H1 H2]. split; [exact H1|].
    intro y. rewrite H2, subscribe_in. intuition.
Qed.

(* however often and in whatever order the tasks are subscribed to each other, ONE notification calls every subscriber
   back exactly once *)
Theorem one_callback_per_subscriber calls x :
  In x calls -> count_occ Z.eq_dec (publish (subscribe_all true calls)) x = 1%nat.
Proof.
  intro Hin. unfold publish, subscribe_all.
  destruct (subscribe_all_from calls [] (NoDup_nil Z)) as [Hnd Hmem].
  assert (Hx : In x (fold_left (subscribe true) calls [])) by (apply Hmem; now right).
  rewrite (NoDup_count_occ Z.eq_dec) in Hnd. specialize (Hnd x).
  rewrite (count_occ_In Z.eq_dec) in Hx. lia.
Qed.

Theorem nobody_else_is_called calls x :
  ~ In x calls -> count_occ Z.eq_dec (publish (subscribe_all true calls)) x = 0%nat.
Proof.
  intro Hn. apply count_occ_not_In. unfold publish, subscribe_all.
  destruct (subscribe_all_from calls [] (NoDup_nil Z)) as [_ Hmem]. rewrite Hmem. intros [[]|H]. contradiction.
Qed.

(* without the membership test a task subscribed twice is called back twice: two complex events per completed run *)
Theorem append_without_test_calls_twice :
  publish (subscribe_all false [7; 7]) = [7; 7] /\ publish (subscribe_all true [7; 7]) = [7].
Proof. vm_compute. split; reflexivity. Qed.
