(* C04, concrete side (P1): a local decider step only grows statuses, and its note names every run whose
   status changed, with the new status. *)
From Bobo Require Import Base.Prelude Base.History Model.Pattern Model.Run Model.Decider Model.Converge Model.ConvergeC.
From Bobo Require Import Proofs.RunProofs Proofs.DeciderLemmas Proofs.DeciderProofs Proofs.StepProofs.
From Bobo Require Import Proofs.RemoteProofs Proofs.ConvergeProofs Proofs.JoinProofs.

Section Local.
  Variable E : Type.
  Variable owner : Z -> Z * Z.
  Notation run := (run E).
  Notation runtab := (runtab E).
  Notation rserial := (rserial E).
  Notation note := (note E).
  Notation dstate := (dstate E).
  Notation config := (config E).

  Lemma find_nodup (l : list run) (x : run) :
    NoDup (map (@r_id E) l) -> In x l -> find (fun r => Z.eqb (r_id r) (r_id x)) l = Some x.
  Proof.
    induction l as [|r l IH]; simpl; [contradiction|]. intros Hnd [->|Hin].
    - now rewrite Z.eqb_refl.
    - inversion Hnd as [|? ? Hn Hnd']; subst.
      destruct (Z.eqb_spec (r_id r) (r_id x)) as [He|_]; [|auto].
      exfalso. apply Hn. rewrite He. now apply in_map.
  Qed.

  Lemma find_nodup_id (l : list run) (x : run) id :
    NoDup (map (@r_id E) l) -> In x l -> r_id x = id -> find (fun r => Z.eqb (r_id r) id) l = Some x.
  Proof. intros Hn Hin <-. now apply find_nodup. Qed.

  Lemma in_ids_ser (l : list run) id : In id (ids_of (map ser l)) <-> exists r, In r l /\ r_id r = id.
  Proof.
    unfold ids_of. rewrite map_map. simpl. rewrite in_map_iff. split; intros [r [H1 H2]]; exists r; auto.
  Qed.

  Lemma run_le_st_le (a b : run) : run_le E a b -> st_le (posr E (Some a)) (posr E (Some b)) = true.
  Proof.
    intros [_ [_ [_ H]]]. simpl. apply active_le_spec. lia.
  Qed.

  Definition note_owned (n : note) : Prop :=
    Forall (fun r => owner (s_id r) = (s_ph r, s_pat r)) (n_comp n ++ n_halt n ++ n_upd n).

  Theorem local_mono_truthful cfg i (s s' : dstate) (e : E) (n : note) :
    cfg_wf E cfg -> c_maxcache cfg <> O -> room cfg s n -> note_owned n ->
    Inv E cfg (d_runs s) -> owner_ok owner (d_runs s) ->
    local_step cfg s e = Ok (s', n) ->
    (forall id, st_le (cstatus owner s id) (cstatus owner s' id) = true) /\
    (forall id, cstatus owner s' id <> cstatus owner s id -> In (i, id, cstatus owner s' id) (mfacts i n)) /\
    Inv E cfg (d_runs s') /\ owner_ok owner (d_runs s').
  Proof.
    intros Hcw Hcache [Hrc Hrh] Hown_n Hinv Hown H.
    pose proof (Inv_local_step E cfg s s' e n Hcw H Hinv) as Hinv'.
    unfold local_step in H.
    set (ks := flat_map (run_event e) (rt_all (d_runs s))) in *.
    destruct (start_runs cfg e (cfg_pats cfg) (rt_filter_map (after_event e) (d_runs s)) (d_next s))
      as [[[[rt2 n2] pc] pu]|] eqn:Es; [|discriminate].
    injection H as <- <-. simpl in *.
    set (comp := map ser (sel KComp ks ++ pc)) in *.
    set (hlt := map ser (sel KHalt ks)) in *.
    set (upd := map ser (sel KUpd ks ++ pu)) in *.
    rewrite (cache_push_room E cfg comp (d_cc s)) by exact Hrc.
    rewrite (cache_push_room E cfg hlt (d_ch s)) by exact Hrh.
    (* the bucket of a key after the step *)
    assert (Hb : forall ph pat, bucket ph pat rt2 =
                  flat_map (fun r => optl (after_event e r)) (bucket ph pat (d_runs s)) ++ filter (in_key E ph pat) pu).
    { intros ph pat. rewrite (start_runs_bucket E _ _ _ _ _ _ _ _ _ ph pat Es), bucket_filter_map. reflexivity. }
    (* owner_ok afterwards *)
    assert (Hown' : owner_ok owner rt2).
    { intros ph pat r. rewrite Hb, in_app_iff, in_flat_map. intros [[r0 [Hr0 Hr]]|Hr].
      - destruct (after_event e r0) as [r1|] eqn:Ea; simpl in Hr; [|contradiction]. destruct Hr as [<-|[]].
        destruct (after_event_some E _ _ _ Ea) as [H1 _]. rewrite H1. now apply Hown.
      - apply filter_In in Hr. destruct Hr as [Hin Hk]. unfold in_key in Hk. apply andb_true_iff in Hk.
        destruct Hk as [K1 K2]. apply Z.eqb_eq in K1, K2.
        unfold note_owned in Hown_n. rewrite Forall_forall in Hown_n.
        specialize (Hown_n (ser r)). simpl in Hown_n. rewrite <- K1, <- K2. apply Hown_n.
        apply in_or_app. right. apply in_or_app. right. unfold upd. apply in_map. apply in_or_app. now right. }
    (* facts about a run found before the step *)
    assert (Hold : forall id r, run_at (fst (owner id)) (snd (owner id)) id (d_runs s) = Some r ->
              ~ In id (ids_of comp) -> ~ In id (ids_of hlt) ->
              exists r', after_event e r = Some r' /\
                         run_at (fst (owner id)) (snd (owner id)) id rt2 = Some r' /\
                         (posr E (Some r') <> posr E (Some r) -> In (ser r') upd)).
    { intros id r Hr Hnc Hnh. unfold run_at in Hr. pose proof (find_some _ _ Hr) as [Hin Hid]. apply Z.eqb_eq in Hid.
      pose proof (in_bucket_all E _ _ _ _ Hin) as Hall.
      destruct (after_event e r) as [r'|] eqn:Ea.
      - exists r'. split; [reflexivity|]. destruct (after_event_some E _ _ _ Ea) as [Hid' _].
        assert (Hin' : In r' (bucket (fst (owner id)) (snd (owner id)) rt2)).
        { rewrite Hb. apply in_or_app. left. apply in_flat_map. exists r. split; [exact Hin|]. rewrite Ea. now left. }
        split.
        + unfold run_at. apply find_nodup_id; [|exact Hin'|congruence].
          destruct Hinv' as [_ [_ [Hn _]]]. apply Hn.
        + intro Hch. unfold after_event in Ea. destruct (process r e) as [[r1 c]|k] eqn:Ep.
          * destruct c.
            -- destruct (r_halted r1) eqn:Eh; [discriminate|]. injection Ea as <-.
               unfold upd. apply in_map. apply in_or_app. left. apply sel_in. unfold ks. apply in_flat_map.
               exists r. split; [exact Hall|]. apply run_event_in. split; [exact Ep|]. unfold kind_of. now rewrite Eh.
            -- injection Ea as <-. congruence.
          * injection Ea as <-. congruence.
      - exfalso. unfold after_event in Ea. destruct (process r e) as [[r1 c]|k] eqn:Ep; [|discriminate].
        destruct c; [|discriminate]. destruct (r_halted r1) eqn:Eh; [|discriminate].
        pose proof (process_outcome E r e r1 true Ep) as Ho. destruct (outcome_id E r e r1 true Ho) as [Hid1 _].
        assert (Hk : In (r1, kind_of r1) ks).
        { unfold ks. apply in_flat_map. exists r. split; [exact Hall|]. apply run_event_in. auto. }
        unfold kind_of in Hk. rewrite Eh in Hk. destruct (is_complete r1).
        + apply Hnc. unfold comp. apply in_ids_ser. exists r1. split; [|congruence].
          apply in_or_app. left. now apply sel_in.
        + apply Hnh. unfold hlt. apply in_ids_ser. exists r1. split; [|congruence]. now apply sel_in. }
    (* a run found after the step that was not there before was started by this event *)
    assert (Hnew : forall id x, run_at (fst (owner id)) (snd (owner id)) id (d_runs s) = None ->
              run_at (fst (owner id)) (snd (owner id)) id rt2 = Some x -> In (ser x) upd).
    { intros id x Hnone Hx. unfold run_at in *. pose proof (find_some _ _ Hx) as [Hin Hid]. apply Z.eqb_eq in Hid.
      rewrite Hb, in_app_iff, in_flat_map in Hin. destruct Hin as [[r0 [Hr0 Hr]]|Hr].
      - exfalso. destruct (after_event e r0) as [r1|] eqn:Ea; simpl in Hr; [|contradiction]. destruct Hr as [<-|[]].
        destruct (after_event_some E _ _ _ Ea) as [H1 _].
        eapply find_none in Hnone; [|exact Hr0]. simpl in Hnone. rewrite <- H1, Hid, Z.eqb_refl in Hnone. discriminate.
      - apply filter_In in Hr. destruct Hr as [Hr _]. unfold upd. apply in_map. apply in_or_app. now right. }
    split; [|split; [|split; [exact Hinv'|exact Hown']]].
    - (* monotone *)
      intro id. unfold cstatus. simpl. rewrite !ids_of_app, !zmem_app.
      destruct (zmem id (ids_of (d_cc s))) eqn:Bcc; simpl; [reflexivity|].
      destruct (zmem id (ids_of comp)) eqn:Bc; simpl; [apply completed_top|].
      destruct (zmem id (ids_of (d_ch s))) eqn:Bch; simpl; [reflexivity|].
      destruct (zmem id (ids_of hlt)) eqn:Bh; simpl.
      + destruct (run_at _ _ id (d_runs s)); reflexivity.
      + apply zmem_false in Bc, Bh.
        destruct (run_at (fst (owner id)) (snd (owner id)) id (d_runs s)) as [r|] eqn:Er; [|reflexivity].
        destruct (Hold id r Er Bc Bh) as [r' [Ha [Hr' _]]]. rewrite Hr'.
        apply (run_le_st_le r r'). now apply (after_event_run_le E e).
    - (* truthful *)
      intros id. unfold cstatus, mfacts. simpl. rewrite !ids_of_app, !zmem_app.
      destruct (zmem id (ids_of (d_cc s))) eqn:Bcc; simpl; [congruence|].
      destruct (zmem id (ids_of comp)) eqn:Bc; simpl.
      + intros _. apply zmem_in in Bc. unfold ids_of in Bc. apply in_map_iff in Bc. destruct Bc as [r [Hr1 Hr2]].
        apply in_or_app. left. apply in_map_iff. exists r. split; [now rewrite Hr1|exact Hr2].
      + destruct (zmem id (ids_of (d_ch s))) eqn:Bch; simpl; [congruence|].
        destruct (zmem id (ids_of hlt)) eqn:Bh; simpl.
        * intros _. apply zmem_in in Bh. unfold ids_of in Bh. apply in_map_iff in Bh. destruct Bh as [r [Hr1 Hr2]].
          apply in_or_app. right. apply in_or_app. left. apply in_map_iff. exists r. split; [now rewrite Hr1|exact Hr2].
        * apply zmem_false in Bc, Bh. intro Hch.
          apply in_or_app. right. apply in_or_app. right.
          destruct (run_at (fst (owner id)) (snd (owner id)) id (d_runs s)) as [r|] eqn:Er.
          -- destruct (Hold id r Er Bc Bh) as [r' [Ha [Hr' Hann]]]. rewrite Hr' in *.
             apply in_map_iff. exists (ser r'). split.
             ++ simpl. f_equal. f_equal. destruct (after_event_some E _ _ _ Ha) as [Hid' _].
                unfold run_at in Er. apply find_some in Er. destruct Er as [_ Er]. apply Z.eqb_eq in Er. congruence.
             ++ apply Hann. exact Hch.
          -- destruct (run_at (fst (owner id)) (snd (owner id)) id rt2) as [x|] eqn:Ex; [|congruence].
             apply in_map_iff. exists (ser x). split.
             ++ simpl. f_equal. f_equal. unfold run_at in Ex. apply find_some in Ex. destruct Ex as [_ Ex]. now apply Z.eqb_eq in Ex.
             ++ eapply Hnew; eauto.
  Qed.
End Local.
