(* Proofs about Model/Wire.v (C09). *)
From Bobo Require Import Base.Prelude Model.IdGen Proofs.IdGenProofs Model.Wire.
From Coq Require Import DecimalPos Decimal.

(* ---------------------------------------------------------------- booleans, lists *)
Ltac bsplit H :=
  repeat match type of H with
         | (_ && _) = true => let H1 := fresh H in apply andb_prop in H; destruct H as [H H1]
         end.

Lemma zlist_eqb_refl a : zlist_eqb a a = true.
Proof. induction a as [|x a IH]; simpl; [reflexivity|]. now rewrite Z.eqb_refl. Qed.

Lemma zlist_eqb_eq a b : zlist_eqb a b = true -> a = b.
Proof.
  revert b; induction a as [|x a IH]; intros [|y b] H; simpl in H; try discriminate; [reflexivity|].
  apply andb_prop in H. destruct H as [H1 H2]. apply Z.eqb_eq in H1. subst. f_equal. now apply IH.
Qed.

Lemma mapM_map_id {A B} (f : B -> option A) (g : A -> B) (l : list A) :
  (forall x, In x l -> f (g x) = Some x) -> mapM f (map g l) = Some l.
Proof.
  induction l as [|a l IH]; intros H; simpl; [reflexivity|].
  rewrite (H a (or_introl eq_refl)). rewrite IH; [reflexivity|]. intros x Hx. apply H. now right.
Qed.

Lemma filter_all {A} (f : A -> bool) (l : list A) : forallb f l = true -> filter f l = l.
Proof.
  induction l as [|a l IH]; simpl; intros H; [reflexivity|].
  apply andb_prop in H. destruct H as [H1 H2]. rewrite H1. f_equal. now apply IH.
Qed.

Lemma forallb_weaken {A} (f g : A -> bool) (l : list A) :
  (forall x, f x = true -> g x = true) -> forallb f l = true -> forallb g l = true.
Proof.
  intros Hfg. induction l as [|a l IH]; simpl; intros H; [reflexivity|].
  apply andb_prop in H. destruct H as [H1 H2]. rewrite (Hfg _ H1). now apply IH.
Qed.

Lemma forallb_In {A} (f : A -> bool) (l : list A) x : forallb f l = true -> In x l -> f x = true.
Proof. intros H Hx. rewrite forallb_forall in H. now apply H. Qed.

Lemma forallb_flat_map {A} (f : Z -> bool) (h : A -> str) (l : list A) :
  (forall x, In x l -> forallb f (h x) = true) -> forallb f (flat_map h l) = true.
Proof.
  induction l as [|a l IH]; simpl; intros H; [reflexivity|].
  rewrite forallb_app. rewrite (H a (or_introl eq_refl)). simpl. apply IH. intros x Hx. apply H. now right.
Qed.

Lemma list_max_in {A} (g : A -> nat) (l : list A) x : In x l -> (g x <= list_max (map g l))%nat.
Proof.
  induction l as [|a l IH]; simpl; intros H; [contradiction|].
  destruct H as [H|H]; [subst; lia|]. specialize (IH H). lia.
Qed.

Lemma list_max_flat_len {A} (g : A -> nat) (h : A -> str) (l : list A) :
  Forall (fun x => (g x <= length (h x))%nat) l -> (list_max (map g l) <= length (flat_map h l))%nat.
Proof.
  induction 1 as [|a l Ha Hl IH]; simpl; [lia|]. rewrite app_length. lia.
Qed.

Lemma firstn_pre {A} (pre post : list A) n : n = length pre -> firstn n (pre ++ post) = pre.
Proof.
  intros ->. revert post; induction pre as [|a pre IH]; intros post; simpl; [reflexivity|]. now rewrite IH.
Qed.

Lemma skipn_pre {A} (pre post : list A) n : n = length pre -> skipn n (pre ++ post) = post.
Proof. intros ->. induction pre as [|a pre IH]; simpl; [reflexivity|]. exact IH. Qed.

Lemma slice_field (pre x post : str) a b :
  a = length pre -> b = (length pre + length x)%nat -> slice a b (pre ++ x ++ post) = x.
Proof.
  intros Ha Hb. unfold slice. rewrite (skipn_pre pre (x ++ post) a Ha). apply firstn_pre. lia.
Qed.

(* ---------------------------------------------------------------- induction principles (nested types) *)
Section JsonInd.
  Variable P : json -> Prop.
  Hypothesis Hnull : P JNull.
  Hypothesis Hbool : forall b, P (JBool b).
  Hypothesis Hint : forall z, P (JInt z).
  Hypothesis Hfloat : forall b, P (JFloat b).
  Hypothesis Hstr : forall s, P (JStr s).
  Hypothesis Harr : forall l, Forall P l -> P (JArr l).
  Hypothesis Hobj : forall kv, Forall (fun p => P (snd p)) kv -> P (JObj kv).

  Fixpoint json_ind' (j : json) : P j :=
    match j with
    | JNull => Hnull
    | JBool b => Hbool b
    | JInt z => Hint z
    | JFloat b => Hfloat b
    | JStr s => Hstr s
    | JArr l =>
        Harr l ((fix go (l : list json) : Forall P l :=
                   match l with
                   | [] => Forall_nil _
                   | x :: t => Forall_cons _ (json_ind' x) (go t)
                   end) l)
    | JObj kv =>
        Hobj kv ((fix go (kv : list (str * json)) : Forall (fun p => P (snd p)) kv :=
                    match kv with
                    | [] => Forall_nil _
                    | p :: t => Forall_cons p (json_ind' (snd p)) (go t)
                    end) kv)
    end.
End JsonInd.

Section EventInd.
  Variable P : event -> Prop.
  Hypothesis HS : forall id ts d, P (Simple id ts d).
  Hypothesis HC : forall id ts d ph pa h,
      Forall (fun g => Forall P (snd g)) h -> P (Complex id ts d ph pa h).
  Hypothesis HA : forall id ts d ph pa ac ok, P (Action id ts d ph pa ac ok).

  Fixpoint event_ind' (e : event) : P e :=
    match e with
    | Simple id ts d => HS id ts d
    | Complex id ts d ph pa h =>
        HC id ts d ph pa h
           ((fix gh (h : list (str * list event)) : Forall (fun g => Forall P (snd g)) h :=
               match h with
               | [] => Forall_nil _
               | g :: t =>
                   Forall_cons g
                     ((fix ge (es : list event) : Forall P es :=
                         match es with
                         | [] => Forall_nil _
                         | e' :: t' => Forall_cons _ (event_ind' e') (ge t')
                         end) (snd g))
                     (gh t)
               end) h)
    | Action id ts d ph pa ac ok => HA id ts d ph pa ac ok
    end.
End EventInd.

(* ---------------------------------------------------------------- int(str(z)) = z *)
Lemma parse_digits_step acc c t :
  48 <= c <= 57 -> parse_digits acc (c :: t) = parse_digits (acc * 10 + (c - 48)) t.
Proof.
  intros H. simpl. replace (48 <=? c) with true by (symmetry; apply Z.leb_le; lia).
  replace (c <=? 57) with true by (symmetry; apply Z.leb_le; lia). reflexivity.
Qed.

Lemma parse_digits_acc d acc :
  parse_digits (Zpos acc) (udigits d) = Some (Zpos (Pos.of_uint_acc d acc)).
Proof.
  revert acc; induction d; intros acc; cbn [udigits Pos.of_uint_acc]; [reflexivity| | | | | | | | | |];
    (rewrite parse_digits_step by lia);
    match goal with
    | |- parse_digits ?x _ = Some (Zpos (Pos.of_uint_acc _ ?q)) =>
        replace x with (Zpos q) by lia; apply IHd
    end.
Qed.

Lemma parse_digits_0 d : parse_digits 0 (udigits d) = Some (Z.of_N (Pos.of_uint d)).
Proof.
  induction d; cbn [udigits Pos.of_uint]; [reflexivity| | | | | | | | | |];
    (rewrite parse_digits_step by lia); [exact IHd| | | | | | | | |];
    match goal with
    | |- parse_digits ?x _ = Some (Z.of_N (Npos (Pos.of_uint_acc _ ?q))) =>
        change x with (Zpos q); apply parse_digits_acc
    end.
Qed.

Lemma parse_nat_pos p : parse_nat (udigits (Pos.to_uint p)) = Some (Zpos p).
Proof.
  unfold parse_nat. destruct (udigits (Pos.to_uint p)) eqn:E.
  - exfalso. apply (to_uint_not_nil p). apply udigits_inj. exact E.
  - rewrite <- E. rewrite parse_digits_0. now rewrite Unsigned.of_to.
Qed.

Lemma parse_int_dec z : parse_int (dec z) = Some z.
Proof.
  destruct z as [|p|p]; simpl dec.
  - reflexivity.
  - unfold parse_int. destruct (udigits (Pos.to_uint p)) as [|c l] eqn:E.
    + exfalso. apply (to_uint_not_nil p). apply udigits_inj. exact E.
    + pose proof (udigits_head_digit p c l E) as Hd. unfold is_digit in Hd.
      destruct (c =? 45) eqn:E45; [apply Z.eqb_eq in E45; lia|].
      rewrite <- E. apply parse_nat_pos.
  - unfold parse_int. rewrite Z.eqb_refl. rewrite parse_nat_pos. reflexivity.
Qed.

Lemma dec_no (c : Z) z : c <> 45 -> ~ (48 <= c <= 57) -> ~ In c (dec z).
Proof.
  intros H1 H2 H. pose proof (dec_chars z) as F. rewrite Forall_forall in F. apply F in H.
  unfold is_digit in H. lia.
Qed.

Lemma dec_str_ok z : str_ok (dec z) = true.
Proof.
  unfold str_ok. apply forallb_forall. intros c H. pose proof (dec_chars z) as F.
  rewrite Forall_forall in F. apply F in H. unfold is_digit in H. unfold chr_ok.
  destruct H as [H|H].
  - subst. reflexivity.
  - replace (0 <=? c) with true by (symmetry; apply Z.leb_le; lia).
    replace (c <? 1114112) with true by (symmetry; apply Z.ltb_lt; lia).
    replace (55296 <=? c) with false by (symmetry; apply Z.leb_gt; lia). reflexivity.
Qed.

(* ---------------------------------------------------------------- header: split inverts format *)
Lemma space_ix_0 s i : space_ix s 0 i = [].
Proof. destruct s; reflexivity. Qed.

Lemma space_ix_app a r n i :
  ~ In SP a -> space_ix (a ++ SP :: r) (S n) i = (i + length a)%nat :: space_ix r n (S (i + length a)).
Proof.
  revert i; induction a as [|c a IH]; intros i H; simpl.
  - rewrite Nat.add_0_r. reflexivity.
  - destruct (c =? SP) eqn:E.
    + apply Z.eqb_eq in E. exfalso. apply H. now left.
    + rewrite IH; [|intro Hin; apply H; now right].
      replace (S i + length a)%nat with (i + S (length a))%nat by lia. reflexivity.
Qed.

Lemma split_format urn key ty fl payload :
  ~ In SP urn -> ~ In SP key ->
  split_plaintext (format urn key ty fl payload) = Some (urn, key, ty, fl, payload).
Proof.
  intros Hu Hk.
  assert (Ht : ~ In SP (dec ty)) by (apply dec_no; unfold SP; lia).
  assert (Hf : ~ In SP (dec fl)) by (apply dec_no; unfold SP; lia).
  unfold split_plaintext, format.
  rewrite (space_ix_app urn _ 3 0 Hu), (space_ix_app key _ 2 _ Hk), (space_ix_app (dec ty) _ 1 _ Ht),
    (space_ix_app (dec fl) _ 0 _ Hf), space_ix_0.
  set (s := urn ++ SP :: key ++ SP :: dec ty ++ SP :: dec fl ++ SP :: payload).
  assert (E1 : slice (S (0 + length urn) + length key + 1) (S (S (0 + length urn) + length key) + length (dec ty)) s
               = dec ty).
  { replace s with ((urn ++ SP :: key ++ [SP]) ++ dec ty ++ (SP :: dec fl ++ SP :: payload))
      by (unfold s; rewrite <- app_assoc; simpl; rewrite <- app_assoc; reflexivity).
    apply slice_field; rewrite app_length; simpl; rewrite app_length; simpl; lia. }
  assert (E2 : slice (S (S (0 + length urn) + length key) + length (dec ty) + 1)
                 (S (S (S (0 + length urn) + length key) + length (dec ty)) + length (dec fl)) s = dec fl).
  { replace s with ((urn ++ SP :: key ++ SP :: dec ty ++ [SP]) ++ dec fl ++ (SP :: payload))
      by (unfold s; rewrite <- app_assoc; simpl; rewrite <- app_assoc; simpl; rewrite <- app_assoc; reflexivity).
    apply slice_field; rewrite app_length; simpl; rewrite app_length; simpl; rewrite app_length; simpl; lia. }
  rewrite E1, E2, !parse_int_dec.
  assert (E0 : firstn (0 + length urn) s = urn) by (apply firstn_pre; lia).
  assert (E3 : slice (0 + length urn + 1) (S (0 + length urn) + length key) s = key).
  { replace s with ((urn ++ [SP]) ++ key ++ (SP :: dec ty ++ SP :: dec fl ++ SP :: payload))
      by (unfold s; rewrite <- app_assoc; reflexivity).
    apply slice_field; rewrite app_length; simpl; lia. }
  assert (E4 : skipn (S (S (S (0 + length urn) + length key) + length (dec ty)) + length (dec fl) + 1) s
               = payload).
  { replace s with ((urn ++ SP :: key ++ SP :: dec ty ++ SP :: dec fl ++ [SP]) ++ payload)
      by (unfold s; rewrite <- app_assoc; simpl; rewrite <- app_assoc; simpl; rewrite <- app_assoc; simpl;
          rewrite <- app_assoc; reflexivity).
    apply skipn_pre. rewrite app_length; simpl; rewrite app_length; simpl; rewrite app_length; simpl;
      rewrite app_length; simpl; lia. }
  rewrite E0, E3, E4. reflexivity.
Qed.

(* format is injective on its domain: the five fields are determined by the text *)
Lemma format_inj u1 k1 t1 f1 p1 u2 k2 t2 f2 p2 :
  ~ In SP u1 -> ~ In SP k1 -> ~ In SP u2 -> ~ In SP k2 ->
  format u1 k1 t1 f1 p1 = format u2 k2 t2 f2 p2 ->
  u1 = u2 /\ k1 = k2 /\ t1 = t2 /\ f1 = f2 /\ p1 = p2.
Proof.
  intros A1 B1 A2 B2 H.
  pose proof (split_format u1 k1 t1 f1 p1 A1 B1) as S1.
  pose proof (split_format u2 k2 t2 f2 p2 A2 B2) as S2.
  rewrite H in S1. rewrite S1 in S2. injection S2 as -> -> -> -> ->. repeat split.
Qed.

(* ---------------------------------------------------------------- the concrete codec is a codec *)
Lemma cut_at_app c a r : ~ In c a -> cut_at c (a ++ c :: r) = Some (a, r).
Proof.
  induction a as [|x a IH]; intros H; simpl.
  - now rewrite Z.eqb_refl.
  - destruct (x =? c) eqn:E.
    + apply Z.eqb_eq in E. exfalso. apply H. now left.
    + rewrite IH; [reflexivity|]. intro Hin. apply H. now right.
Qed.

Lemma take_num_num z r : take_num (num z ++ r) = Some (z, r).
Proof.
  unfold take_num, num. rewrite <- app_assoc. simpl.
  rewrite cut_at_app by (apply dec_no; lia). now rewrite parse_int_dec.
Qed.

Lemma take_len_len {A} (l : list A) r : take_len (len_num l ++ r) = Some (length l, r).
Proof.
  unfold take_len, len_num. rewrite take_num_num.
  destruct (Z.of_nat (length l) <? 0) eqn:E; [apply Z.ltb_lt in E; lia|]. now rewrite Nat2Z.id.
Qed.

Lemma take_n_app a r : take_n (length a) (a ++ r) = Some (a, r).
Proof.
  unfold take_n. rewrite app_length.
  replace (length a <=? length a + length r)%nat with true by (symmetry; apply Nat.leb_le; lia).
  now rewrite (firstn_pre a r _ eq_refl), (skipn_pre a r _ eq_refl).
Qed.

Lemma rep_flat_map {A} (p : str -> option (A * str)) (ser : A -> str) (l : list A) r :
  (forall x, In x l -> forall r', p (ser x ++ r') = Some (x, r')) ->
  rep p (length l) (flat_map ser l ++ r) = Some (l, r).
Proof.
  induction l as [|a l IH]; intros H; simpl; [reflexivity|].
  rewrite <- app_assoc. rewrite (H a (or_introl eq_refl)). rewrite IH; [reflexivity|].
  intros x Hx. apply H. now right.
Qed.

Fixpoint jdepth (j : json) : nat :=
  match j with
  | JArr l => S (list_max (map jdepth l))
  | JObj kv => S (list_max (map (fun p => jdepth (snd p)) kv))
  | _ => 1%nat
  end.

Lemma tparse_null f r : tparse (S f) (110 :: r) = Some (JNull, r). Proof. reflexivity. Qed.
Lemma tparse_true f r : tparse (S f) (116 :: r) = Some (JBool true, r). Proof. reflexivity. Qed.
Lemma tparse_false f r : tparse (S f) (102 :: r) = Some (JBool false, r). Proof. reflexivity. Qed.
Lemma tparse_int f r :
  tparse (S f) (105 :: r) = match take_num r with Some (z, r') => Some (JInt z, r') | None => None end.
Proof. reflexivity. Qed.
Lemma tparse_float f r :
  tparse (S f) (100 :: r) = match take_num r with Some (z, r') => Some (JFloat z, r') | None => None end.
Proof. reflexivity. Qed.
Lemma tparse_str f r :
  tparse (S f) (115 :: r) =
  match take_len r with
  | Some (n, r') => match take_n n r' with Some (x, r'') => Some (JStr x, r'') | None => None end
  | None => None
  end.
Proof. reflexivity. Qed.
Lemma tparse_arr f r :
  tparse (S f) (97 :: r) =
  match take_len r with
  | Some (n, r') => match rep (tparse f) n r' with Some (l, r'') => Some (JArr l, r'') | None => None end
  | None => None
  end.
Proof. reflexivity. Qed.
Lemma tparse_obj f r :
  tparse (S f) (111 :: r) =
  match take_len r with
  | Some (n, r') =>
      match rep (tentry (tparse f)) n r' with
      | Some (kv, c' :: r3) => if c' =? RBRACE then Some (JObj kv, r3) else None
      | _ => None
      end
  | None => None
  end.
Proof. reflexivity. Qed.

Lemma tparse_tdumps j : forall f r, (jdepth j <= f)%nat -> tparse f (tdumps j ++ r) = Some (j, r).
Proof.
  induction j using json_ind'; intros f r Hd; (destruct f as [|f]; [simpl in Hd; lia|]).
  - reflexivity.
  - destruct b; reflexivity.
  - cbn [tdumps]. rewrite <- app_comm_cons. rewrite tparse_int, take_num_num. reflexivity.
  - cbn [tdumps]. rewrite <- app_comm_cons. rewrite tparse_float, take_num_num. reflexivity.
  - cbn [tdumps]. rewrite <- app_comm_cons. rewrite tparse_str, <- app_assoc, take_len_len, take_n_app. reflexivity.
  - cbn [tdumps]. rewrite <- app_comm_cons. rewrite tparse_arr, <- app_assoc, take_len_len.
    rewrite rep_flat_map; [reflexivity|].
    intros x Hx r'. rewrite Forall_forall in H. apply (H x Hx).
    simpl in Hd. pose proof (list_max_in jdepth l x Hx). lia.
  - cbn [tdumps]. rewrite <- app_comm_cons. rewrite tparse_obj, <- app_assoc, take_len_len, <- app_assoc.
    rewrite rep_flat_map.
    + simpl. unfold RBRACE. reflexivity.
    + intros p Hp r'. unfold tentry. rewrite <- app_assoc, take_len_len, <- app_assoc, take_n_app.
      rewrite Forall_forall in H. rewrite (H p Hp).
      * destruct p; reflexivity.
      * simpl in Hd. pose proof (list_max_in (fun p => jdepth (snd p)) kv p Hp). simpl in H0. lia.
Qed.

Lemma jdepth_le_len j : (jdepth j <= length (tdumps j))%nat.
Proof.
  induction j using json_ind'; try (simpl; lia).
  - cbn [tdumps jdepth]. simpl length. rewrite app_length.
    pose proof (list_max_flat_len jdepth tdumps l H). lia.
  - cbn [tdumps jdepth]. simpl length. rewrite !app_length.
    assert (Forall (fun p : str * json => (jdepth (snd p) <= length (len_num (fst p) ++ fst p ++ tdumps (snd p)))%nat) kv).
    { eapply Forall_impl; [|exact H]. intros p Hp. rewrite !app_length. cbv beta in Hp. lia. }
    pose proof (list_max_flat_len (fun p => jdepth (snd p)) _ kv H0) as H1.
    unfold str in *. lia.
Qed.

Lemma tloads_tdumps j : tloads (tdumps j) = Some j.
Proof.
  unfold tloads.
  pose proof (tparse_tdumps j (S (length (tdumps j))) []) as H. rewrite app_nil_r in H.
  rewrite H; [reflexivity|]. pose proof (jdepth_le_len j). lia.
Qed.

Lemma str_ok_app a b : str_ok (a ++ b) = str_ok a && str_ok b.
Proof. apply forallb_app. Qed.

Lemma num_str_ok z : str_ok (num z) = true.
Proof. unfold num. rewrite str_ok_app, dec_str_ok. reflexivity. Qed.

Lemma tdumps_text j : jvalid j = true -> str_ok (tdumps j) = true.
Proof.
  induction j using json_ind'; intros V; try reflexivity.
  - destruct b; reflexivity.
  - cbn [tdumps]. change (str_ok (105 :: num z)) with (chr_ok 105 && str_ok (num z)). now rewrite num_str_ok.
  - cbn [tdumps]. change (str_ok (100 :: num b)) with (chr_ok 100 && str_ok (num b)). now rewrite num_str_ok.
  - cbn [tdumps]. change (str_ok (115 :: len_num s ++ s)) with (chr_ok 115 && str_ok (len_num s ++ s)).
    rewrite str_ok_app. unfold len_num. rewrite num_str_ok. simpl in V. now rewrite V.
  - cbn [tdumps]. change (str_ok (97 :: len_num l ++ flat_map tdumps l))
      with (chr_ok 97 && str_ok (len_num l ++ flat_map tdumps l)).
    rewrite str_ok_app. unfold len_num. rewrite num_str_ok. simpl.
    apply forallb_flat_map. intros x Hx. rewrite Forall_forall in H. apply (H x Hx).
    simpl in V. exact (forallb_In _ _ _ V Hx).
  - cbn [tdumps].
    match goal with |- str_ok (111 :: ?t) = true => change (str_ok (111 :: t)) with (chr_ok 111 && str_ok t) end.
    rewrite !str_ok_app. unfold len_num at 1. rewrite num_str_ok. simpl in V. bsplit V.
    replace (str_ok [RBRACE]) with true by reflexivity. rewrite andb_true_r. simpl.
    apply forallb_flat_map. intros p Hp. fold (str_ok (len_num (fst p) ++ fst p ++ tdumps (snd p))).
    rewrite !str_ok_app. unfold len_num. rewrite num_str_ok. simpl.
    pose proof (forallb_In _ _ _ V0 Hp) as Vp. simpl in Vp. bsplit Vp.
    apply andb_true_intro; split; [exact Vp|]. rewrite Forall_forall in H. exact (H p Hp Vp0).
Qed.

Lemma tdumps_obj_brace kv : exists t, tdumps (JObj kv) = t ++ [RBRACE].
Proof.
  eexists. cbn [tdumps]. rewrite app_comm_cons, app_assoc. reflexivity.
Qed.

Lemma ends_nul_snoc t c : ends_nul (t ++ [c]) = (c =? NUL).
Proof. unfold ends_nul. rewrite List.rev_app_distr. reflexivity. Qed.

Lemma tcrypto_roundtrip nonce s : ends_nul s = false -> tdecrypt (tencrypt nonce s) = Some s.
Proof.
  unfold tdecrypt, tencrypt, rstrip_nul, ends_nul. intros H. f_equal.
  destruct (List.rev s) as [|c t] eqn:E.
  - simpl. rewrite <- (List.rev_involutive s), E. reflexivity.
  - simpl. rewrite H. rewrite <- E. apply List.rev_involutive.
Qed.

(* ---------------------------------------------------------------- the round trip, for any json codec *)
Section CodecProofs.
  Variable dumps : json -> str.
  Variable loads : str -> option json.
  (* CPython: json.loads(json.dumps(x)) == x with the same types and dict order, for every JSON value x *)
  Hypothesis loads_dumps : forall j, jvalid j = true -> loads (dumps j) = Some j.
  (* CPython: json.dumps returns text (default ensure_ascii: ASCII) *)
  Hypothesis dumps_text : forall j, jvalid j = true -> str_ok (dumps j) = true.

  Notation ev_to := (event_to_json dumps).
  Notation ev_from := (event_from_json loads).

  Lemma nestr_ok_inv s : nestr_ok s = true -> exists c t, s = c :: t /\ str_ok s = true.
  Proof.
    unfold nestr_ok. intros H. apply andb_prop in H. destruct H as [H1 H2].
    destruct s as [|c t]; [discriminate|]. now exists c, t.
  Qed.

  Lemma event_to_json_complex id ts d ph pa h :
    ev_to (Complex id ts d ph pa h) =
    JObj [(k_event_type, JStr t_complex); (k_event_id, JStr id); (k_timestamp, JInt ts); (k_data, d);
          (k_phenomenon_name, JStr ph); (k_pattern_name, JStr pa);
          (k_history, JStr (history_to_str dumps h))].
  Proof. reflexivity. Qed.

  Lemma wf_complex_inv id ts d ph pa h :
    wf_event (Complex id ts d ph pa h) = true ->
    nestr_ok id = true /\ jvalid d = true /\ nestr_ok ph = true /\ nestr_ok pa = true /\ wf_history h = true.
  Proof.
    intros H. cbn [wf_event] in H. bsplit H. repeat split; try assumption.
    unfold wf_history. now rewrite H1, H0.
  Qed.

  (* ---- what to_json emits is a JSON value *)
  Lemma jvalid_history h :
    wf_history h = true ->
    (forall g e, In g h -> In e (snd g) -> jvalid (ev_to e) = true) ->
    jvalid (history_to_json dumps h) = true.
  Proof.
    intros W He. unfold wf_history in W. bsplit W.
    unfold history_to_json. cbn [jvalid]. rewrite map_map. cbn [fst]. 
    change (map (fun x : str * list event => fst x) h) with (map fst h). rewrite W. simpl.
    rewrite forallb_forall. intros p Hp. rewrite in_map_iff in Hp. destruct Hp as [g [Eg Hg]]. subst p.
    cbn [fst snd jvalid]. pose proof (forallb_In _ _ _ W0 Hg) as Wg. cbv beta in Wg. bsplit Wg.
    rewrite Wg. simpl. rewrite forallb_forall. intros x Hx. rewrite in_map_iff in Hx.
    destruct Hx as [e [Ee Hin]]. subst x. cbn [jvalid]. unfold event_to_str. apply dumps_text.
    now apply (He g e).
  Qed.

  Lemma jvalid_event e : wf_event e = true -> jvalid (ev_to e) = true.
  Proof.
    induction e using event_ind'; intros W.
    - cbn [wf_event] in W. bsplit W. apply nestr_ok_inv in W. destruct W as [c [t [_ W]]].
      cbn [event_to_json jvalid map fst snd forallb]. rewrite W, W0. reflexivity.
    - apply wf_complex_inv in W. destruct W as [W1 [W2 [W3 [W4 W5]]]].
      apply nestr_ok_inv in W1, W3, W4.
      destruct W1 as [? [? [_ W1]]], W3 as [? [? [_ W3]]], W4 as [? [? [_ W4]]].
      rewrite event_to_json_complex. cbn [jvalid map fst snd forallb].
      rewrite W1, W2, W3, W4.
      assert (Hh : str_ok (history_to_str dumps h) = true).
      { apply dumps_text. apply jvalid_history; [exact W5|].
        intros g e Hg Hin. rewrite Forall_forall in H. specialize (H g Hg). rewrite Forall_forall in H.
        apply (H e Hin). unfold wf_history in W5. bsplit W5.
        pose proof (forallb_In _ _ _ W0 Hg) as Wg. cbv beta in Wg. bsplit Wg.
        exact (forallb_In _ _ _ Wg0 Hin). }
      rewrite Hh. reflexivity.
    - cbn [wf_event] in W. bsplit W. apply nestr_ok_inv in W, W0, W1, W2.
      destruct W as [? [? [_ W]]], W0 as [? [? [_ W0]]], W1 as [? [? [_ W1]]], W2 as [? [? [_ W2]]].
      cbn [event_to_json jvalid map fst snd forallb]. rewrite W, W0, W1, W2, W3. reflexivity.
  Qed.

  (* ---- decoding what was encoded *)
  Lemma hist_depth_in h g e : In g h -> In e (snd g) -> (ev_depth e <= hist_depth h)%nat.
  Proof.
    intros Hg He. unfold hist_depth.
    pose proof (list_max_in (fun g => list_max (map ev_depth (snd g))) h g Hg) as H1.
    pose proof (list_max_in ev_depth (snd g) e He) as H2. cbv beta in H1. lia.
  Qed.

  Lemma history_roundtrip_with (ev : json -> option event) h :
    wf_history h = true ->
    (forall g e, In g h -> In e (snd g) -> jvalid (ev_to e) = true /\ ev (ev_to e) = Some e) ->
    history_from_str_with loads ev (history_to_str dumps h) = Some h.
  Proof.
    intros W He. unfold history_from_str_with, history_to_str.
    rewrite loads_dumps by (apply jvalid_history; [exact W|]; intros g e Hg Hi; now apply (He g e)).
    unfold history_to_json, history_from_json_with.
    rewrite mapM_map_id.
    - f_equal. apply filter_all. unfold wf_history in W. bsplit W.
      eapply forallb_weaken; [|exact W0]. intros g Hg. cbv beta in Hg. bsplit Hg. exact Hg1.
    - intros g Hg. unfold group_from_json. cbn [fst snd]. rewrite mapM_map_id.
      + destruct g; reflexivity.
      + intros e Hi. unfold event_of_str, event_to_str. destruct (He g e Hg Hi) as [V E].
        now rewrite (loads_dumps _ V).
  Qed.

  Lemma simple_decodes f c id ts d :
    ev_from (S f) (ev_to (Simple (c :: id) ts d)) = Some (Simple (c :: id) ts d).
  Proof. reflexivity. Qed.

  Lemma action_decodes f c id ts d c1 ph c2 pa c3 ac ok :
    ev_from (S f) (ev_to (Action (c :: id) ts d (c1 :: ph) (c2 :: pa) (c3 :: ac) ok)) =
    Some (Action (c :: id) ts d (c1 :: ph) (c2 :: pa) (c3 :: ac) ok).
  Proof. reflexivity. Qed.

  Lemma complex_decodes f c id ts d c1 ph c2 pa h :
    ev_from (S f) (ev_to (Complex (c :: id) ts d (c1 :: ph) (c2 :: pa) h)) =
    match history_from_str_with loads (ev_from f) (history_to_str dumps h) with
    | Some h' => Some (Complex (c :: id) ts d (c1 :: ph) (c2 :: pa) h')
    | None => None
    end.
  Proof. reflexivity. Qed.

  Lemma event_roundtrip e :
    wf_event e = true -> forall f, (ev_depth e <= f)%nat -> ev_from f (ev_to e) = Some e.
  Proof.
    induction e using event_ind'; intros W f Hd; (destruct f as [|f]; [simpl in Hd; lia|]).
    - cbn [wf_event] in W. bsplit W. apply nestr_ok_inv in W. destruct W as [c [t [-> _]]].
      apply simple_decodes.
    - pose proof (wf_complex_inv _ _ _ _ _ _ W) as [W1 [W2 [W3 [W4 W5]]]].
      apply nestr_ok_inv in W1, W3, W4.
      destruct W1 as [c [t [-> _]]], W3 as [c1 [t1 [-> _]]], W4 as [c2 [t2 [-> _]]].
      rewrite complex_decodes. rewrite history_roundtrip_with; [reflexivity|exact W5|].
      intros g e Hg Hi.
      assert (We : wf_event e = true).
      { unfold wf_history in W5. bsplit W5. pose proof (forallb_In _ _ _ W0 Hg) as Wg. cbv beta in Wg.
        bsplit Wg. exact (forallb_In _ _ _ Wg0 Hi). }
      split; [now apply jvalid_event|].
      rewrite Forall_forall in H. specialize (H g Hg). rewrite Forall_forall in H. apply (H e Hi We).
      pose proof (hist_depth_in h g e Hg Hi) as Hle. cbn [ev_depth] in Hd. fold (hist_depth h) in Hd. lia.
    - cbn [wf_event] in W. bsplit W. apply nestr_ok_inv in W, W0, W1, W2.
      destruct W as [? [? [-> _]]], W0 as [? [? [-> _]]], W1 as [? [? [-> _]]], W2 as [? [? [-> _]]].
      apply action_decodes.
  Qed.

  Lemma history_roundtrip h f :
    wf_history h = true -> (hist_depth h <= f)%nat ->
    history_from_str loads f (history_to_str dumps h) = Some h.
  Proof.
    intros W Hd. unfold history_from_str. apply history_roundtrip_with; [exact W|].
    intros g e Hg Hi.
    assert (We : wf_event e = true).
    { unfold wf_history in W. bsplit W. pose proof (forallb_In _ _ _ W0 Hg) as Wg. cbv beta in Wg.
      bsplit Wg. exact (forallb_In _ _ _ Wg0 Hi). }
    split; [now apply jvalid_event|]. apply event_roundtrip; [exact We|].
    pose proof (hist_depth_in h g e Hg Hi). lia.
  Qed.

  Lemma jvalid_history_wf h : wf_history h = true -> jvalid (history_to_json dumps h) = true.
  Proof.
    intros W. apply jvalid_history; [exact W|]. intros g e Hg Hi. apply jvalid_event.
    unfold wf_history in W. bsplit W. pose proof (forallb_In _ _ _ W0 Hg) as Wg. cbv beta in Wg.
    bsplit Wg. exact (forallb_In _ _ _ Wg0 Hi).
  Qed.

  Lemma jvalid_runserial r : wf_rserial r = true -> jvalid (runserial_to_json dumps r) = true.
  Proof.
    destruct r as [id ph pa ix h]. unfold wf_rserial. cbn [rs_id rs_phen rs_pat rs_idx rs_hist]. intros W.
    bsplit W. apply nestr_ok_inv in W, W4. destruct W as [? [? [_ W]]], W4 as [? [? [_ W4]]].
    unfold runserial_to_json. cbn [rs_id rs_phen rs_pat rs_idx rs_hist jvalid map fst snd forallb].
    rewrite W, W4, W3. unfold history_to_str. rewrite (dumps_text _ (jvalid_history_wf h W0)). reflexivity.
  Qed.

  Lemma runserial_decodes f c id c1 ph pa ix h :
    runserial_from_json loads f (runserial_to_json dumps (mkRS (c :: id) (c1 :: ph) pa ix h)) =
    match history_from_str loads f (history_to_str dumps h) with
    | Some h' => if (1 <=? ix) && (1 <=? hsize h')%nat then Some (mkRS (c :: id) (c1 :: ph) pa ix h') else None
    | None => None
    end.
  Proof. reflexivity. Qed.

  Lemma runserial_json_roundtrip r f :
    wf_rserial r = true -> (rs_depth r <= f)%nat ->
    runserial_from_json loads f (runserial_to_json dumps r) = Some r.
  Proof.
    destruct r as [id ph pa ix h]. unfold wf_rserial, rs_depth. cbn [rs_id rs_phen rs_pat rs_idx rs_hist].
    intros W Hd. bsplit W. apply nestr_ok_inv in W, W4.
    destruct W as [c [t [-> _]]], W4 as [c1 [t1 [-> _]]].
    rewrite runserial_decodes, (history_roundtrip h f W0 Hd), W2, W1. reflexivity.
  Qed.

  Lemma runserial_roundtrip r f :
    wf_rserial r = true -> (rs_depth r <= f)%nat ->
    runserial_from_str loads f (runserial_to_str dumps r) = Some r.
  Proof.
    intros W Hd. unfold runserial_from_str, runserial_to_str.
    rewrite (loads_dumps _ (jvalid_runserial r W)). now apply runserial_json_roundtrip.
  Qed.

  Lemma rs_list_valid l :
    forallb wf_rserial l = true ->
    forallb jvalid (map (fun r => JStr (runserial_to_str dumps r)) l) = true.
  Proof.
    intros W. rewrite forallb_forall. intros x Hx. rewrite in_map_iff in Hx. destruct Hx as [r [<- Hr]].
    cbn [jvalid]. apply dumps_text. apply jvalid_runserial. exact (forallb_In _ _ _ W Hr).
  Qed.

  Lemma jvalid_msg m : wf_msg m = true -> jvalid (msg_to_json dumps m) = true.
  Proof.
    destruct m as [[c h] u]. unfold wf_msg. intros W. bsplit W.
    unfold msg_to_json. cbn [jvalid map fst snd forallb].
    rewrite (rs_list_valid c W), (rs_list_valid h W1), (rs_list_valid u W0). reflexivity.
  Qed.

  Lemma rs_list_roundtrip l f :
    forallb wf_rserial l = true -> (forall r, In r l -> (rs_depth r <= f)%nat) ->
    mapM (rs_of_json loads f) (map (fun r => JStr (runserial_to_str dumps r)) l) = Some l.
  Proof.
    intros W Hd. apply mapM_map_id. intros r Hr. cbn [rs_of_json].
    apply runserial_roundtrip; [exact (forallb_In _ _ _ W Hr)|now apply Hd].
  Qed.

  Lemma msg_decodes f c h u :
    msg_from_json loads f (msg_to_json dumps (c, h, u)) =
    match mapM (rs_of_json loads f) (map (fun r => JStr (runserial_to_str dumps r)) c),
          mapM (rs_of_json loads f) (map (fun r => JStr (runserial_to_str dumps r)) h),
          mapM (rs_of_json loads f) (map (fun r => JStr (runserial_to_str dumps r)) u) with
    | Some c', Some h', Some u' => Some (c', h', u')
    | _, _, _ => None
    end.
  Proof. reflexivity. Qed.

  Lemma msg_depth_in c h u r : In r (c ++ h ++ u) -> (rs_depth r <= msg_depth (c, h, u))%nat.
  Proof. intros H. unfold msg_depth. now apply (list_max_in rs_depth). Qed.

  Lemma msg_json_roundtrip m f :
    wf_msg m = true -> (msg_depth m <= f)%nat -> msg_from_json loads f (msg_to_json dumps m) = Some m.
  Proof.
    destruct m as [[c h] u]. intros W Hd. unfold wf_msg in W. bsplit W.
    rewrite msg_decodes.
    rewrite (rs_list_roundtrip c f W), (rs_list_roundtrip h f W1), (rs_list_roundtrip u f W0); [reflexivity| | |];
      intros r Hr; (eapply Nat.le_trans; [apply (msg_depth_in c h u)|exact Hd]);
      rewrite !in_app_iff; auto.
  Qed.

  Lemma msg_roundtrip m f :
    wf_msg m = true -> (msg_depth m <= f)%nat -> msg_from_str loads f (msg_to_str dumps m) = Some m.
  Proof.
    intros W Hd. unfold msg_from_str, msg_to_str. rewrite (loads_dumps _ (jvalid_msg m W)).
    now apply msg_json_roundtrip.
  Qed.

  (* serialising what was received gives the text that was sent *)
  Lemma reserialise_same_text r r' f :
    wf_rserial r = true -> (rs_depth r <= f)%nat ->
    runserial_from_str loads f (runserial_to_str dumps r) = Some r' ->
    runserial_to_str dumps r' = runserial_to_str dumps r.
  Proof. intros W Hd H. rewrite (runserial_roundtrip r f W Hd) in H. now injection H as <-. Qed.

  Lemma reserialise_msg_same_text m m' f :
    wf_msg m = true -> (msg_depth m <= f)%nat ->
    msg_from_str loads f (msg_to_str dumps m) = Some m' -> msg_to_str dumps m' = msg_to_str dumps m.
  Proof. intros W Hd H. rewrite (msg_roundtrip m f W Hd) in H. now injection H as <-. Qed.

  (* ---- the whole path, with the cipher *)
  Variable encrypt : str -> str -> list Z.
  Variable decrypt : list Z -> option str.
  (* C17: what was encrypted decrypts to itself unless it ends in U+0000 (D14) *)
  Hypothesis crypto_roundtrip :
    forall nonce s, str_ok s = true -> ends_nul s = false -> decrypt (encrypt nonce s) = Some s.
  (* CPython: the text of a dict ends in "}" *)
  Hypothesis dumps_obj_brace : forall kv, jvalid (JObj kv) = true -> exists t, dumps (JObj kv) = t ++ [RBRACE].

  Lemma format_str_ok urn key ty fl p :
    str_ok urn = true -> str_ok key = true -> str_ok p = true -> str_ok (format urn key ty fl p) = true.
  Proof.
    intros A B C. unfold format.
    repeat (rewrite str_ok_app; change (str_ok (SP :: ?x)) with (chr_ok SP && str_ok x)).
    rewrite A, B, C, !dec_str_ok. reflexivity.
  Qed.

  Lemma format_ends urn key ty fl t c :
    ends_nul (format urn key ty fl (t ++ [c])) = (c =? NUL).
  Proof.
    unfold format.
    replace (urn ++ SP :: key ++ SP :: dec ty ++ SP :: dec fl ++ SP :: t ++ [c])
      with ((urn ++ SP :: key ++ SP :: dec ty ++ SP :: dec fl ++ SP :: t) ++ [c]).
    - apply ends_nul_snoc.
    - repeat (rewrite <- app_assoc; simpl). reflexivity.
  Qed.

  Lemma wire_roundtrip nonce urn key ty fl m f :
    str_ok urn = true -> str_ok key = true -> ~ In SP urn -> ~ In SP key ->
    wf_msg m = true -> (msg_depth m <= f)%nat ->
    receive loads decrypt f (send dumps encrypt nonce urn key ty fl m) = Some (urn, key, ty, fl, m).
  Proof.
    intros A B Hu Hk W Hd. unfold receive, send.
    pose proof (jvalid_msg m W) as V.
    assert (E : exists t, msg_to_str dumps m = t ++ [RBRACE]).
    { unfold msg_to_str. destruct m as [[c h] u]. apply dumps_obj_brace. exact V. }
    destruct E as [t E].
    rewrite crypto_roundtrip.
    - rewrite (split_format urn key ty fl _ Hu Hk). now rewrite (msg_roundtrip m f W Hd).
    - apply format_str_ok; try assumption. unfold msg_to_str. now apply dumps_text.
    - rewrite E. rewrite format_ends. reflexivity.
  Qed.
End CodecProofs.

(* ---------------------------------------------------------------- the assumed laws are satisfiable:
   the concrete codec and the identity "cipher" of Model/Wire.v satisfy every hypothesis above *)
Lemma toy_runserial_roundtrip r f :
  wf_rserial r = true -> (rs_depth r <= f)%nat ->
  runserial_from_str tloads f (runserial_to_str tdumps r) = Some r.
Proof. exact (runserial_roundtrip tdumps tloads (fun j _ => tloads_tdumps j) tdumps_text r f). Qed.

Lemma toy_wire_roundtrip nonce urn key ty fl m f :
  str_ok urn = true -> str_ok key = true -> ~ In SP urn -> ~ In SP key ->
  wf_msg m = true -> (msg_depth m <= f)%nat ->
  receive tloads tdecrypt f (send tdumps tencrypt nonce urn key ty fl m) = Some (urn, key, ty, fl, m).
Proof.
  exact (wire_roundtrip tdumps tloads (fun j _ => tloads_tdumps j) tdumps_text tencrypt tdecrypt
           (fun n s _ H => tcrypto_roundtrip n s H) (fun kv _ => tdumps_obj_brace kv) nonce urn key ty fl m f).
Qed.
