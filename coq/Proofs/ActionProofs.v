(* Proofs about Model/Action.v: sequential multi-action, the handler state machine, the
   forwarder's response -> action event step. *)
From Bobo Require Import Base.Prelude Model.Action.
From Coq Require Import Permutation.

(* ================================================================== multi action *)

(* the sub-actions up to and including the first failing one *)
Fixpoint upto_fail (outs : list outcome) : list outcome :=
  match outs with
  | [] => []
  | o :: rest => if fst o then o :: upto_fail rest else [o]
  end.

(* specification of which sub-actions run *)
Definition executed (stop : bool) (outs : list outcome) : list outcome :=
  if stop then upto_fail outs else outs.

Lemma executed_cons_true : forall stop (o : outcome) (rest : list outcome),
  fst o = true -> executed stop (o :: rest) = o :: executed stop rest.
Proof.
  intros stop o rest Ho. destruct stop; simpl; [rewrite Ho|]; reflexivity.
Qed.

Lemma multi_loop_spec : forall stop outs i s d l,
  multi_loop stop outs i s d l =
  (s && forallb fst (executed stop outs), d ++ executed stop outs,
   l ++ seq i (length (executed stop outs))).
Proof.
  intros stop outs. induction outs as [|o rest IH]; intros i s d l.
  - destruct stop; simpl; rewrite andb_true_r, !app_nil_r; reflexivity.
  - simpl multi_loop. destruct (fst o) eqn:Ho.
    + rewrite IH, (executed_cons_true stop o rest Ho). simpl. rewrite Ho. simpl.
      rewrite <- !app_assoc. reflexivity.
    + destruct stop.
      * simpl. rewrite Ho. simpl. rewrite Ho. rewrite andb_false_r. reflexivity.
      * rewrite IH. simpl. rewrite Ho. simpl. rewrite andb_false_r.
        rewrite <- !app_assoc. reflexivity.
Qed.

Lemma multi_run_spec : forall stop outs,
  multi_run stop outs =
  (forallb fst (executed stop outs), executed stop outs, seq 0 (length (executed stop outs))).
Proof. intros. unfold multi_run. rewrite multi_loop_spec. reflexivity. Qed.

Lemma multi_exec_spec : forall stop outs,
  multi_exec stop outs = (forallb fst (executed stop outs), executed stop outs).
Proof. intros. unfold multi_exec. rewrite multi_run_spec. reflexivity. Qed.

Lemma multi_trace_spec : forall stop outs,
  multi_trace stop outs = seq 0 (length (executed stop outs)).
Proof. intros. unfold multi_trace. rewrite multi_run_spec. reflexivity. Qed.

Lemma upto_fail_prefix : forall outs, exists post, outs = upto_fail outs ++ post.
Proof.
  induction outs as [|o rest [post IH]].
  - exists []. reflexivity.
  - simpl. destruct (fst o).
    + exists post. simpl. rewrite <- IH. reflexivity.
    + exists rest. reflexivity.
Qed.

Lemma executed_prefix : forall stop outs, exists post, outs = executed stop outs ++ post.
Proof.
  intros [|] outs; simpl.
  - apply upto_fail_prefix.
  - exists []. rewrite app_nil_r. reflexivity.
Qed.

Lemma nth_error_prefix : forall (A : Type) (pre post : list A) i,
  (i < length pre)%nat -> nth_error (pre ++ post) i = nth_error pre i.
Proof. intros. apply nth_error_app1. assumption. Qed.

(* the reported success flag is the conjunction of the reported sub-results *)
Lemma multi_success_reported : forall stop outs,
  fst (multi_exec stop outs) = forallb fst (snd (multi_exec stop outs)).
Proof. intros. rewrite multi_exec_spec. reflexivity. Qed.

(* success <-> every executed sub-action (by index into the configured list) succeeded *)
Lemma multi_success_iff_all : forall stop outs,
  fst (multi_exec stop outs) = true <->
  (forall i o, In i (multi_trace stop outs) -> nth_error outs i = Some o -> fst o = true).
Proof.
  intros stop outs. rewrite multi_exec_spec, multi_trace_spec. simpl fst.
  destruct (executed_prefix stop outs) as [post Hpre].
  set (ex := executed stop outs) in *.
  rewrite forallb_forall. split.
  - intros Hall i o Hi Hnth. apply in_seq in Hi. simpl in Hi.
    rewrite Hpre, nth_error_prefix in Hnth by lia.
    apply Hall. eapply nth_error_In. exact Hnth.
  - intros Hall o Hin. destruct (In_nth_error _ _ Hin) as [i Hi].
    assert (Hlt : (i < length ex)%nat) by (apply nth_error_Some; congruence).
    apply (Hall i o).
    + apply in_seq. lia.
    + rewrite Hpre, nth_error_prefix by assumption. exact Hi.
Qed.

(* reported list = outcomes of exactly the executed sub-actions, in execution order *)
Lemma multi_reports_executed : forall stop outs,
  map Some (snd (multi_exec stop outs)) = map (nth_error outs) (multi_trace stop outs).
Proof.
  intros stop outs. rewrite multi_exec_spec, multi_trace_spec. simpl snd.
  destruct (executed_prefix stop outs) as [post Hpre].
  remember (executed stop outs) as ex eqn:Hex. clear Hex.
  rewrite Hpre. clear Hpre.
  assert (H : forall (pre : list outcome),
             map Some ex = map (nth_error (pre ++ ex ++ post)) (seq (length pre) (length ex))).
  { induction ex as [|x ex IH]; intros pre.
    - reflexivity.
    - simpl. f_equal.
      + rewrite nth_error_app2 by lia. rewrite Nat.sub_diag. reflexivity.
      + specialize (IH (pre ++ [x])). rewrite app_length in IH. simpl in IH.
        rewrite Nat.add_1_r in IH. rewrite <- app_assoc in IH. exact IH. }
  exact (H []).
Qed.

Lemma upto_fail_cases : forall outs,
  (forallb fst outs = true /\ upto_fail outs = outs) \/
  (exists good f rest, outs = good ++ f :: rest /\ forallb fst good = true /\
                       fst f = false /\ upto_fail outs = good ++ [f]).
Proof.
  induction outs as [|o rest IH].
  - left. split; reflexivity.
  - simpl. destruct (fst o) eqn:Ho.
    + destruct IH as [[Hall Heq] | (good & f & rest' & Hout & Hgood & Hf & Heq)].
      * left. simpl. rewrite Heq. split; [assumption | reflexivity].
      * right. exists (o :: good), f, rest'. simpl. rewrite Ho, Hgood, Heq.
        repeat split; try assumption. rewrite Hout. reflexivity.
    + right. exists [], o, rest. repeat split; assumption || reflexivity.
Qed.

(* without stop_on_fail everything is executed and reported *)
Lemma multi_reports_all_nostop : forall outs,
  snd (multi_exec false outs) = outs /\ multi_trace false outs = seq 0 (length outs).
Proof. intros. rewrite multi_exec_spec, multi_trace_spec. split; reflexivity. Qed.

(* with stop_on_fail: exactly the prefix up to and including the first failure *)
Lemma multi_reports_prefix_stop : forall outs,
  (forallb fst outs = true /\ snd (multi_exec true outs) = outs /\
   multi_trace true outs = seq 0 (length outs)) \/
  (exists good f rest,
      outs = good ++ f :: rest /\ forallb fst good = true /\ fst f = false /\
      snd (multi_exec true outs) = good ++ [f] /\
      multi_trace true outs = seq 0 (S (length good))).
Proof.
  intros outs. rewrite multi_exec_spec, multi_trace_spec. simpl snd. simpl executed.
  destruct (upto_fail_cases outs) as [[Hall Heq] | (good & f & rest & Hout & Hgood & Hf & Heq)].
  - left. rewrite Heq. repeat split; assumption || reflexivity.
  - right. exists good, f, rest. rewrite Heq, app_length. simpl. rewrite Nat.add_1_r.
    repeat split; assumption || reflexivity.
Qed.

Lemma upto_fail_length_le : forall outs i f,
  nth_error outs i = Some f -> fst f = false -> (length (upto_fail outs) <= S i)%nat.
Proof.
  induction outs as [|o rest IH]; intros i f Hnth Hf.
  - destruct i; discriminate.
  - simpl. destruct i as [|i].
    + simpl in Hnth. injection Hnth as ->. rewrite Hf. simpl. lia.
    + simpl in Hnth. destruct (fst o).
      * simpl. specialize (IH i f Hnth Hf). lia.
      * simpl. lia.
Qed.

(* with stop_on_fail no sub-action after a failing one is executed *)
Lemma stop_on_fail_executes_nothing_after : forall outs i f,
  nth_error outs i = Some f -> fst f = false ->
  forall j, In j (multi_trace true outs) -> (j <= i)%nat.
Proof.
  intros outs i f Hnth Hf j Hj. rewrite multi_trace_spec in Hj. simpl executed in Hj.
  apply in_seq in Hj. pose proof (upto_fail_length_le outs i f Hnth Hf). lia.
Qed.

(* ... and the reported list stops there as well *)
Lemma stop_on_fail_reports_nothing_after : forall outs i f,
  nth_error outs i = Some f -> fst f = false ->
  (length (snd (multi_exec true outs)) <= S i)%nat.
Proof.
  intros outs i f Hnth Hf. rewrite multi_exec_spec. simpl.
  exact (upto_fail_length_le outs i f Hnth Hf).
Qed.

(* ================================================================== handlers *)

(* everything the handler currently holds or has given out, as responses *)
Definition contents (s : hstate) : list response :=
  map respond (h_inflight s) ++ h_queue s ++ h_delivered s.

Definition newresp (o : hop) (r : hres) : list response :=
  match o, r with
  | Handle j, RAccepted => [respond j]
  | _, _ => []
  end.

Definition got (rs : list hres) : list response :=
  flat_map (fun r => match r with RGot x => [x] | _ => [] end) rs.

Lemma respond_fields : forall j,
  r_name (respond j) = j_name j /\ r_event (respond j) = j_event j /\
  r_succ (respond j) = j_succ j /\ r_data (respond j) = j_data j.
Proof. intros. repeat split. Qed.

Lemma remove_nth_perm : forall (A : Type) (l : list A) k x,
  nth_error l k = Some x -> Permutation l (x :: remove_nth k l).
Proof.
  induction l as [|y l IH]; intros k x Hn.
  - destruct k; discriminate.
  - destruct k as [|k]; simpl in *.
    + injection Hn as ->. apply Permutation_refl.
    + apply perm_trans with (y :: x :: remove_nth k l).
      * apply perm_skip. apply IH. assumption.
      * apply perm_swap.
Qed.

Lemma perm_enqueue : forall (x : response) A Q D,
  Permutation (x :: A ++ Q ++ D) (A ++ (Q ++ [x]) ++ D).
Proof.
  intros. rewrite <- (app_assoc Q [x] D). simpl.
  rewrite (app_assoc A Q (x :: D)), (app_assoc A Q D).
  apply Permutation_middle.
Qed.

Lemma hstep_perm : forall kind m s o s1 r,
  hstep kind m s o = (s1, r) ->
  Permutation (newresp o r ++ contents s) (contents s1).
Proof.
  intros kind m s o s1 r H. unfold contents. destruct o as [j | k |]; simpl in H.
  - destruct kind; destruct (q_full m (h_queue s)); injection H as <- <-; simpl;
      try apply Permutation_refl.
    + apply perm_enqueue.
    + rewrite map_app. simpl. rewrite <- app_assoc. simpl. apply Permutation_middle.
  - destruct kind.
    + injection H as <- <-. apply Permutation_refl.
    + destruct (nth_error (h_inflight s) k) as [j|] eqn:Hn; injection H as <- <-; simpl.
      * apply perm_trans with
          ((respond j :: map respond (remove_nth k (h_inflight s))) ++ h_queue s ++ h_delivered s).
        -- apply Permutation_app_tail.
           change (respond j :: map respond (remove_nth k (h_inflight s)))
             with (map respond (j :: remove_nth k (h_inflight s))).
           apply Permutation_map. apply remove_nth_perm. assumption.
        -- simpl. apply perm_enqueue.
      * apply Permutation_refl.
  - destruct (h_queue s) as [|x q] eqn:Hq; injection H as <- <-; simpl.
    + rewrite Hq. apply Permutation_refl.
    + apply Permutation_app_head. rewrite app_assoc. apply Permutation_cons_append.
Qed.

Definition accadd (o : hop) (r : hres) (acc : list job) : list job :=
  match o, r with
  | Handle j, RAccepted => j :: acc
  | _, _ => acc
  end.

Lemma hrun_cons : forall kind m s o rest,
  hrun kind m s (o :: rest) =
  (fst (fst (hrun kind m (fst (hstep kind m s o)) rest)),
   snd (hstep kind m s o) :: snd (fst (hrun kind m (fst (hstep kind m s o)) rest)),
   accadd o (snd (hstep kind m s o)) (snd (hrun kind m (fst (hstep kind m s o)) rest))).
Proof.
  intros. simpl hrun. destruct (hstep kind m s o) as [s1 r]. cbn [fst snd].
  destruct (hrun kind m s1 rest) as [[s2 rs] acc]. reflexivity.
Qed.

Lemma accepted_newresp : forall o r acc,
  map respond (accadd o r acc) = newresp o r ++ map respond acc.
Proof. intros. destruct o; destruct r; reflexivity. Qed.

(* the multiset invariant, from any state *)
Lemma hrun_perm : forall kind m ops s,
  Permutation (map respond (snd (hrun kind m s ops)) ++ contents s)
              (contents (fst (fst (hrun kind m s ops)))).
Proof.
  intros kind m ops. induction ops as [|o rest IH]; intros s.
  - simpl. apply Permutation_refl.
  - rewrite hrun_cons. simpl fst. simpl snd.
    destruct (hstep kind m s o) as [s1 r] eqn:Hs. simpl fst. simpl snd.
    rewrite accepted_newresp.
    apply perm_trans with (map respond (snd (hrun kind m s1 rest)) ++ contents s1).
    + rewrite <- app_assoc.
      apply perm_trans with (map respond (snd (hrun kind m s1 rest)) ++ newresp o r ++ contents s).
      * rewrite !app_assoc. apply Permutation_app_tail. apply Permutation_app_comm.
      * apply Permutation_app_head. eapply hstep_perm. exact Hs.
    + apply IH.
Qed.

Lemma one_response_per_handle : forall kind m ops,
  Permutation (map respond (haccepted kind m ops))
              (map respond (h_inflight (hfinal kind m ops)) ++
               h_queue (hfinal kind m ops) ++ h_delivered (hfinal kind m ops)).
Proof.
  intros. pose proof (hrun_perm kind m ops h_init) as H.
  unfold contents at 1 in H. simpl in H. rewrite app_nil_r in H. exact H.
Qed.

Lemma quiescent_delivered_perm : forall kind m ops,
  h_inflight (hfinal kind m ops) = [] -> h_queue (hfinal kind m ops) = [] ->
  Permutation (map respond (haccepted kind m ops)) (h_delivered (hfinal kind m ops)).
Proof.
  intros kind m ops Hi Hq. pose proof (one_response_per_handle kind m ops) as H.
  rewrite Hi, Hq in H. exact H.
Qed.

(* every response that exists belongs to an accepted job and carries that job's fields *)
Lemma response_carries_own_job : forall kind m ops r,
  In r (h_queue (hfinal kind m ops) ++ h_delivered (hfinal kind m ops)) ->
  exists j, In j (haccepted kind m ops) /\
            r_name r = j_name j /\ r_event r = j_event j /\
            r_succ r = j_succ j /\ r_data r = j_data j.
Proof.
  intros kind m ops r Hin.
  pose proof (one_response_per_handle kind m ops) as H.
  apply Permutation_sym in H.
  assert (Hin' : In r (map respond (haccepted kind m ops))).
  { eapply Permutation_in; [exact H|]. apply in_or_app. right. exact Hin. }
  apply in_map_iff in Hin'. destruct Hin' as [j [Hj Hinj]].
  exists j. subst r. split; [assumption|]. apply respond_fields.
Qed.

Lemma q_full_unbounded : forall m q, m <= 0 -> q_full m q = false.
Proof.
  intros m q Hm. unfold q_full. destruct (0 <? m) eqn:E; [|reflexivity].
  apply Z.ltb_lt in E. lia.
Qed.

(* with the default max_size (0 = unbounded) no handle() call is refused *)
Lemma unbounded_accepts_all_from : forall kind m ops s,
  m <= 0 -> snd (hrun kind m s ops) = hsubmitted ops.
Proof.
  intros kind m ops. induction ops as [|o rest IH]; intros s Hm.
  - reflexivity.
  - rewrite hrun_cons. simpl snd. destruct o as [j | k |].
    + simpl hsubmitted. simpl hstep.
      destruct kind; rewrite (q_full_unbounded m _ Hm); simpl; rewrite IH by assumption;
        reflexivity.
    + simpl hsubmitted. rewrite IH by assumption.
      destruct (snd (hstep kind m s (Complete k))); reflexivity.
    + simpl hsubmitted. rewrite IH by assumption.
      destruct (snd (hstep kind m s Get)); reflexivity.
Qed.

Lemma unbounded_accepts_all : forall kind m ops,
  m <= 0 -> haccepted kind m ops = hsubmitted ops.
Proof. intros. apply unbounded_accepts_all_from. assumption. Qed.

(* what get_handler_response() returned, in call order, is the ghost list `delivered` *)
Lemma hrun_delivered_got : forall kind m ops s,
  h_delivered (fst (fst (hrun kind m s ops))) =
  h_delivered s ++ got (snd (fst (hrun kind m s ops))).
Proof.
  intros kind m ops. induction ops as [|o rest IH]; intros s.
  - simpl. rewrite app_nil_r. reflexivity.
  - rewrite hrun_cons. simpl fst. simpl snd. rewrite IH.
    unfold got at 2. simpl flat_map. fold (got (snd (fst (hrun kind m (fst (hstep kind m s o)) rest)))).
    rewrite app_assoc. f_equal.
    destruct o as [j | k |]; simpl.
    + destruct kind; destruct (q_full m (h_queue s)); simpl; rewrite app_nil_r; reflexivity.
    + destruct kind; [simpl; rewrite app_nil_r; reflexivity|].
      destruct (nth_error (h_inflight s) k); simpl; rewrite app_nil_r; reflexivity.
    + destruct (h_queue s); simpl; [rewrite app_nil_r|]; reflexivity.
Qed.

Lemma delivered_is_what_get_returned : forall kind m ops,
  h_delivered (hfinal kind m ops) = got (hresults kind m ops).
Proof. intros. unfold hfinal, hresults. rewrite hrun_delivered_got. reflexivity. Qed.

(* blocking handler: nothing is ever in flight and responses come out in submission order *)
Lemma blocking_fifo_from : forall m ops s,
  h_inflight s = [] ->
  h_inflight (fst (fst (hrun Blocking m s ops))) = [] /\
  h_delivered (fst (fst (hrun Blocking m s ops))) ++ h_queue (fst (fst (hrun Blocking m s ops))) =
  (h_delivered s ++ h_queue s) ++ map respond (snd (hrun Blocking m s ops)).
Proof.
  intros m ops. induction ops as [|o rest IH]; intros s Hi.
  - simpl. rewrite app_nil_r. split; [assumption | reflexivity].
  - rewrite hrun_cons. simpl fst. simpl snd.
    destruct o as [j | k |]; simpl hstep.
    + destruct (q_full m (h_queue s)); simpl fst; simpl snd.
      * apply IH. assumption.
      * destruct (IH (mkH (h_inflight s) (h_queue s ++ [respond j]) (h_delivered s)) Hi) as [H1 H2].
        split; [exact H1|]. rewrite H2. simpl. rewrite <- !app_assoc. reflexivity.
    + simpl fst. simpl snd. apply IH. assumption.
    + destruct (h_queue s) as [|x q] eqn:Hq; simpl fst; simpl snd.
      * rewrite <- Hq. apply IH. assumption.
      * destruct (IH (mkH (h_inflight s) q (h_delivered s ++ [x])) Hi) as [H1 H2].
        split; [exact H1|]. rewrite H2. simpl. rewrite <- !app_assoc. reflexivity.
Qed.

Lemma blocking_fifo : forall m ops,
  h_inflight (hfinal Blocking m ops) = [] /\
  map respond (haccepted Blocking m ops) =
  h_delivered (hfinal Blocking m ops) ++ h_queue (hfinal Blocking m ops).
Proof.
  intros. destruct (blocking_fifo_from m ops h_init eq_refl) as [H1 H2].
  split; [exact H1|]. symmetry. exact H2.
Qed.

(* ================================================================== forwarder *)

(* the handler operations one forwarder operation performs, in order *)
Definition is_rejected (r : hres) : bool :=
  match r with RRejected => true | _ => false end.

(* _update_handler: the handle() call it makes (if any) and whether that call raised *)
Definition fhops_handle (c : fcfg) (s : fstate) : list hop * bool :=
  match f_queue s with
  | [] => ([], false)
  | e :: _ =>
      match lookup_phen (f_phen c) (ce_phen e) with
      | Some (Some a) =>
          ([Handle (job_of a e)],
           is_rejected (snd (hstep (f_kind c) (f_hmax c) (f_h s) (Handle (job_of a e)))))
      | _ => ([], false)
      end
  end.

Definition fhops_step (c : fcfg) (s : fstate) (o : fop) : list hop :=
  match o with
  | Produce _ _ => []
  | FComplete k => [Complete k]
  | FUpdate mid =>
      if snd (fhops_handle c s) then fst (fhops_handle c s)
      else fst (fhops_handle c s) ++ map Complete mid ++ [Get]
  end.

Fixpoint fhops (c : fcfg) (s : fstate) (ops : list fop) : list hop :=
  match ops with
  | [] => []
  | o :: rest => fhops_step c s o ++ fhops c (fst (fstep c s o)) rest
  end.

Lemma hrun_app_state : forall kind m a b s,
  fst (fst (hrun kind m s (a ++ b))) =
  fst (fst (hrun kind m (fst (fst (hrun kind m s a))) b)).
Proof.
  intros kind m a. induction a as [|o a IH]; intros b s.
  - reflexivity.
  - simpl app. rewrite !hrun_cons. cbn [fst]. apply IH.
Qed.

Lemma hrun_one : forall kind m h o,
  fst (fst (hrun kind m h [o])) = fst (hstep kind m h o).
Proof. intros. rewrite hrun_cons. reflexivity. Qed.

Lemma hstep_handle_result : forall kind m s j,
  snd (hstep kind m s (Handle j)) = RAccepted \/ snd (hstep kind m s (Handle j)) = RRejected.
Proof.
  intros. simpl. destruct kind; destruct (q_full m (h_queue s)); simpl; auto.
Qed.

Lemma hstep_handle_delivered : forall kind m h j,
  h_delivered (fst (hstep kind m h (Handle j))) = h_delivered h.
Proof.
  intros. simpl. destruct kind; destruct (q_full m (h_queue h)); reflexivity.
Qed.

Lemma hstep_complete_delivered : forall kind m h k,
  h_delivered (fst (hstep kind m h (Complete k))) = h_delivered h.
Proof.
  intros. simpl. destruct kind; [reflexivity|].
  destruct (nth_error (h_inflight h) k); reflexivity.
Qed.

Lemma h_completes_hrun : forall kind m ks h,
  h_completes kind m h ks = fst (fst (hrun kind m h (map Complete ks))).
Proof.
  intros kind m ks. induction ks as [|k ks IH]; intros h.
  - reflexivity.
  - simpl map. rewrite hrun_cons. cbn [fst]. rewrite <- IH. reflexivity.
Qed.

Lemma h_completes_delivered : forall kind m ks h,
  h_delivered (h_completes kind m h ks) = h_delivered h.
Proof.
  intros kind m ks. unfold h_completes. induction ks as [|k ks IH]; intros h.
  - reflexivity.
  - cbn [fold_left]. rewrite IH. apply hstep_complete_delivered.
Qed.

(* _update_handler = at most one handle() on the handler; it gives out no response *)
Lemma f_update_handler_spec : forall c s,
  f_h (fst (f_update_handler c s)) =
    fst (fst (hrun (f_kind c) (f_hmax c) (f_h s) (fst (fhops_handle c s)))) /\
  f_out (fst (f_update_handler c s)) = f_out s /\
  h_delivered (f_h (fst (f_update_handler c s))) = h_delivered (f_h s) /\
  (snd (fhops_handle c s) = true -> snd (f_update_handler c s) = None) /\
  (snd (fhops_handle c s) = false -> snd (f_update_handler c s) <> None).
Proof.
  intros c s. unfold f_update_handler, fhops_handle.
  destruct (f_queue s) as [|e q].
  - cbn [fst snd hrun]. repeat split; discriminate.
  - destruct (lookup_phen (f_phen c) (ce_phen e)) as [[a|]|].
    + pose proof (hstep_handle_delivered (f_kind c) (f_hmax c) (f_h s) (job_of a e)) as Hd.
      pose proof (hstep_handle_result (f_kind c) (f_hmax c) (f_h s) (job_of a e)) as Hr.
      cbn [fst snd]. rewrite hrun_one.
      destruct (hstep (f_kind c) (f_hmax c) (f_h s) (Handle (job_of a e))) as [h' r].
      cbn [fst snd] in *. destruct Hr as [-> | ->]; cbn [fst snd f_h f_out is_rejected];
        repeat split; try assumption; discriminate.
    + cbn [fst snd hrun f_h f_out]. repeat split; discriminate.
    + cbn [fst snd hrun f_h f_out]. repeat split; discriminate.
Qed.

(* _update_responses = one Get on the handler; a response taken becomes one action event *)
Lemma f_update_responses_spec : forall c s0,
  f_h (fst (f_update_responses c s0)) = fst (hstep (f_kind c) (f_hmax c) (f_h s0) Get) /\
  (f_out s0 = map action_event (h_delivered (f_h s0)) ->
   f_out (fst (f_update_responses c s0)) =
   map action_event (h_delivered (f_h (fst (f_update_responses c s0))))).
Proof.
  intros c s0. unfold f_update_responses. simpl hstep.
  destruct (h_queue (f_h s0)) as [|x q] eqn:Hq; cbn [fst snd f_h f_out h_delivered].
  - split; [reflexivity | auto].
  - split; [reflexivity|]. intros Ho. rewrite Ho, map_app. reflexivity.
Qed.

Lemma fstep_update_state : forall c s mid,
  fst (fstep c s (FUpdate mid)) =
  match snd (f_update_handler c s) with
  | None => fst (f_update_handler c s)
  | Some _ =>
      fst (f_update_responses c
             (mkFS (f_queue (fst (f_update_handler c s)))
                   (h_completes (f_kind c) (f_hmax c) (f_h (fst (f_update_handler c s))) mid)
                   (f_out (fst (f_update_handler c s)))))
  end.
Proof.
  intros. unfold fstep. destruct (f_update_handler c s) as [s1 [b|]]; [|reflexivity].
  cbn [fst snd].
  destruct (f_update_responses c
              (mkFS (f_queue s1) (h_completes (f_kind c) (f_hmax c) (f_h s1) mid) (f_out s1)))
    as [s2 b2]. reflexivity.
Qed.

(* one forwarder step = its handler operations on the handler, and each response taken
   from the handler becomes exactly one action event appended to the output *)
Lemma fstep_handler : forall c s o,
  f_h (fst (fstep c s o)) =
  fst (fst (hrun (f_kind c) (f_hmax c) (f_h s) (fhops_step c s o))) /\
  (f_out s = map action_event (h_delivered (f_h s)) ->
   f_out (fst (fstep c s o)) = map action_event (h_delivered (f_h (fst (fstep c s o))))).
Proof.
  intros c s o. destruct o as [e l | mid | k].
  - simpl. destruct (negb l && f_local_only c); [split; [reflexivity | auto]|].
    destruct (cq_full (f_max c) (f_queue s)); split; reflexivity || auto.
  - rewrite fstep_update_state. unfold fhops_step.
    destruct (f_update_handler_spec c s) as (Hh & Ho & Hd & Hr1 & Hr2).
    destruct (snd (fhops_handle c s)) eqn:Hrej.
    + rewrite (Hr1 eq_refl). split; [exact Hh|]. intros H. rewrite Ho, Hd. exact H.
    + specialize (Hr2 eq_refl).
      destruct (snd (f_update_handler c s)) as [b|]; [|congruence].
      set (s1 := fst (f_update_handler c s)) in *.
      set (s1' := mkFS (f_queue s1) (h_completes (f_kind c) (f_hmax c) (f_h s1) mid) (f_out s1)).
      destruct (f_update_responses_spec c s1') as [H1 H2].
      split.
      * rewrite H1. subst s1'. cbn [f_h]. rewrite !hrun_app_state, hrun_one.
        rewrite <- Hh, <- h_completes_hrun. reflexivity.
      * intros H. apply H2. subst s1'. cbn [f_h f_out].
        rewrite h_completes_delivered, Ho, Hd. exact H.
  - simpl fhops_step. rewrite hrun_one. cbn [fstep fst f_h f_out]. split; [reflexivity|].
    intros Ho. rewrite Ho. f_equal. symmetry. apply hstep_complete_delivered.
Qed.

Lemma frun_cons : forall c s o rest,
  fst (frun c s (o :: rest)) = fst (frun c (fst (fstep c s o)) rest).
Proof.
  intros. simpl frun. destruct (fstep c s o) as [s1 r]. cbn [fst].
  destruct (frun c s1 rest). reflexivity.
Qed.

Lemma frun_handler : forall c ops s,
  f_h (fst (frun c s ops)) =
  fst (fst (hrun (f_kind c) (f_hmax c) (f_h s) (fhops c s ops))) /\
  (f_out s = map action_event (h_delivered (f_h s)) ->
   f_out (fst (frun c s ops)) = map action_event (h_delivered (f_h (fst (frun c s ops))))).
Proof.
  intros c ops. induction ops as [|o rest IH]; intros s.
  - simpl. split; [reflexivity | auto].
  - rewrite frun_cons. simpl fhops. rewrite hrun_app_state.
    destruct (fstep_handler c s o) as [H1 H2].
    destruct (IH (fst (fstep c s o))) as [H3 H4].
    rewrite <- H1. split; [exact H3|]. intros Ho. apply H4. apply H2. exact Ho.
Qed.

(* The forwarder drives its handler only through handle / get_handler_response (fhops), and its
   output is, event for event, the image of the responses it took from the handler. *)
Lemma fwd_one_event_per_response : forall c ops,
  f_h (fst (frun c f_init ops)) = hfinal (f_kind c) (f_hmax c) (fhops c f_init ops) /\
  f_out (fst (frun c f_init ops)) =
  map action_event (h_delivered (f_h (fst (frun c f_init ops)))).
Proof.
  intros c ops. destruct (frun_handler c ops f_init) as [H1 H2].
  split; [exact H1|]. apply H2. reflexivity.
Qed.

Lemma action_event_fields : forall r,
  ae_name (action_event r) = r_name r /\ ae_succ (action_event r) = r_succ r /\
  ae_data (action_event r) = r_data r /\ ae_phen (action_event r) = ce_phen (r_event r) /\
  ae_patt (action_event r) = ce_patt (r_event r).
Proof. intros. repeat split. Qed.

(* end to end: once the handler is quiescent, the action events are a permutation of the
   images of the jobs the forwarder handed over *)
Lemma fwd_quiescent_events_perm : forall c ops,
  let s := fst (frun c f_init ops) in
  let hops := fhops c f_init ops in
  h_inflight (f_h s) = [] -> h_queue (f_h s) = [] ->
  Permutation (map (fun j => action_event (respond j)) (haccepted (f_kind c) (f_hmax c) hops))
              (f_out s).
Proof.
  intros c ops s hops Hi Hq. subst s hops.
  destruct (fwd_one_event_per_response c ops) as [H1 H2].
  rewrite H2, H1. rewrite H1 in Hi, Hq.
  rewrite <- (map_map respond action_event).
  apply Permutation_map. apply quiescent_delivered_perm; assumption.
Qed.
