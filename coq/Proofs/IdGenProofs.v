From Bobo Require Import Base.Prelude Model.IdGen.
From Coq Require Import DecimalPos Decimal.

(* ---------- lexicographic order on (second, counter) ---------- *)
Definition lexlt (a b : Z * Z) : Prop := fst a < fst b \/ (fst a = fst b /\ snd a < snd b).

Lemma lexlt_trans a b c : lexlt a b -> lexlt b c -> lexlt a c.
Proof. unfold lexlt; lia. Qed.

Lemma lexlt_irrefl a : ~ lexlt a a.
Proof. unfold lexlt; lia. Qed.

Definition st (s : gstate) : Z * Z := (g_last s, g_count s).

Lemma gen_step s c : let '(s', id) := gen s c in lexlt (st s) id /\ st s' = id.
Proof.
  unfold gen, lexlt, st. destruct (Z.max c (g_last s) =? g_last s) eqn:E; simpl.
  - apply Z.eqb_eq in E. split; [right; lia | now rewrite E].
  - apply Z.eqb_neq in E. split; [left; lia | reflexivity].
Qed.

Lemma gen_all_above s clock : Forall (lexlt (st s)) (gen_all gen s clock).
Proof.
  revert s; induction clock as [|c cs IH]; intros s; simpl; [constructor|].
  pose proof (gen_step s c) as H. destruct (gen s c) as [s' id]. destruct H as [Hlt Hst].
  constructor; [exact Hlt|].
  specialize (IH s'). rewrite Hst in IH.
  eapply Forall_impl; [|exact IH]. intros a Ha. eapply lexlt_trans; eauto.
Qed.

Lemma gen_all_nodup s clock : NoDup (gen_all gen s clock).
Proof.
  revert s; induction clock as [|c cs IH]; intros s; simpl; [constructor|].
  pose proof (gen_step s c) as H. pose proof (gen_all_above (fst (gen s c)) cs) as Hab.
  destruct (gen s c) as [s' id]. destruct H as [_ Hst]. simpl in Hab.
  constructor; [|apply IH].
  intro Hin. rewrite Forall_forall in Hab. apply Hab in Hin. rewrite Hst in Hin.
  exact (lexlt_irrefl _ Hin).
Qed.

(* strictly increasing, the stronger statement *)
Fixpoint increasing (l : list (Z * Z)) : Prop :=
  match l with
  | [] => True
  | a :: l' => Forall (lexlt a) l' /\ increasing l'
  end.

Lemma gen_all_increasing s clock : increasing (gen_all gen s clock).
Proof.
  revert s; induction clock as [|c cs IH]; intros s; simpl; [exact I|].
  pose proof (gen_step s c) as H. pose proof (gen_all_above (fst (gen s c)) cs) as Hab.
  destruct (gen s c) as [s' id]. destruct H as [_ Hst]. simpl in Hab. rewrite Hst in Hab.
  simpl. split; [exact Hab | apply IH].
Qed.

(* ---------- decimal rendering ---------- *)
Definition is_digit (c : Z) : Prop := 48 <= c <= 57.

Lemma udigits_digits d : Forall is_digit (udigits d).
Proof. induction d; simpl; constructor; unfold is_digit; try lia; assumption. Qed.

Lemma udigits_inj d d' : udigits d = udigits d' -> d = d'.
Proof.
  revert d'; induction d; destruct d'; simpl; intros H; try discriminate; try reflexivity;
    injection H as H; f_equal; auto.
Qed.

Lemma to_uint_inj p q : Pos.to_uint p = Pos.to_uint q -> p = q.
Proof.
  intros H. pose proof (Unsigned.of_to p) as Hp. pose proof (Unsigned.of_to q) as Hq.
  rewrite H in Hp. rewrite Hp in Hq. now injection Hq.
Qed.

Lemma to_uint_not_nil p : Pos.to_uint p <> Nil.
Proof. intro H. pose proof (Unsigned.of_to p) as Hp. rewrite H in Hp. discriminate. Qed.

Lemma to_uint_not_zero p : Pos.to_uint p <> D0 Nil.
Proof. intro H. pose proof (Unsigned.of_to p) as Hp. rewrite H in Hp. discriminate. Qed.

Lemma dec_chars z : Forall (fun c => c = 45 \/ is_digit c) (dec z).
Proof.
  destruct z; simpl.
  - constructor; [right; unfold is_digit; lia | constructor].
  - eapply Forall_impl; [|apply udigits_digits]. intros; now right.
  - constructor; [now left|]. eapply Forall_impl; [|apply udigits_digits]. intros; now right.
Qed.

Lemma dec_no_uscore z : ~ In USCORE (dec z).
Proof.
  intro H. pose proof (dec_chars z) as F. rewrite Forall_forall in F. apply F in H.
  unfold USCORE, is_digit in H. lia.
Qed.

Lemma udigits_head_digit p c l : udigits (Pos.to_uint p) = c :: l -> is_digit c.
Proof.
  intro H. pose proof (udigits_digits (Pos.to_uint p)) as F. rewrite H in F. now inversion F.
Qed.

Lemma dec_inj a b : dec a = dec b -> a = b.
Proof.
  destruct a as [|p|p], b as [|q|q]; simpl; intro H; try reflexivity.
  - exfalso. apply (to_uint_not_zero q). apply udigits_inj. simpl. now symmetry.
  - destruct (udigits (Pos.to_uint q)); discriminate.
  - exfalso. apply (to_uint_not_zero p). apply udigits_inj. simpl. exact H.
  - f_equal. apply to_uint_inj. now apply udigits_inj.
  - exfalso. destruct (udigits (Pos.to_uint p)) eqn:E.
    + discriminate.
    + injection H as H1 _. apply udigits_head_digit in E. unfold is_digit in E. lia.
  - destruct (udigits (Pos.to_uint p)); discriminate.
  - exfalso. destruct (udigits (Pos.to_uint q)) eqn:E.
    + discriminate.
    + injection H as H1 _. apply udigits_head_digit in E. unfold is_digit in E. lia.
  - injection H as H. f_equal. apply to_uint_inj. now apply udigits_inj.
Qed.

(* ---------- splitting at the last separator ---------- *)
Lemma split_first (c : Z) x y a b :
  ~ In c x -> ~ In c y -> x ++ c :: a = y ++ c :: b -> x = y /\ a = b.
Proof.
  revert y; induction x as [|h x IH]; intros [|k y] Hx Hy H; simpl in *.
  - injection H as H. now split.
  - injection H as H1 H2. subst. exfalso. apply Hy. now left.
  - injection H as H1 H2. subst. exfalso. apply Hx. now left.
  - injection H as H1 H2. subst k.
    destruct (IH y) as [E1 E2]; auto. now subst.
Qed.

Lemma split_last (c : Z) x y a b :
  ~ In c x -> ~ In c y -> a ++ c :: x = b ++ c :: y -> a = b /\ x = y.
Proof.
  intros Hx Hy H. apply (f_equal (@List.rev Z)) in H.
  rewrite !rev_app_distr in H. simpl in H. rewrite <- !app_assoc in H. simpl in H.
  apply split_first in H; try (rewrite <- in_rev; assumption).
  destruct H as [H1 H2]. split.
  - rewrite <- (rev_involutive a), <- (rev_involutive b). now f_equal.
  - rewrite <- (rev_involutive x), <- (rev_involutive y). now f_equal.
Qed.

Lemma render_inj u1 u2 id1 id2 : render u1 id1 = render u2 id2 -> u1 = u2 /\ id1 = id2.
Proof.
  destruct id1 as [n1 c1], id2 as [n2 c2].
  destruct u1 as [u1|], u2 as [u2|]; simpl; intro H.
  - change (u1 ++ USCORE :: dec n1 ++ USCORE :: dec c1) with (u1 ++ (USCORE :: dec n1) ++ USCORE :: dec c1) in H.
    change (u2 ++ USCORE :: dec n2 ++ USCORE :: dec c2) with (u2 ++ (USCORE :: dec n2) ++ USCORE :: dec c2) in H.
    rewrite !app_assoc in H.
    apply split_last in H; try apply dec_no_uscore. destruct H as [H Hc].
    apply split_last in H; try apply dec_no_uscore. destruct H as [Hu Hn].
    apply dec_inj in Hc, Hn. subst. now split.
  - exfalso.
    change (u1 ++ USCORE :: dec n1 ++ USCORE :: dec c1) with (u1 ++ (USCORE :: dec n1) ++ USCORE :: dec c1) in H.
    rewrite !app_assoc in H.
    apply split_last in H; try apply dec_no_uscore. destruct H as [H _].
    apply (dec_no_uscore n2). rewrite <- H. apply in_or_app. right. now left.
  - exfalso.
    change (u2 ++ USCORE :: dec n2 ++ USCORE :: dec c2) with (u2 ++ (USCORE :: dec n2) ++ USCORE :: dec c2) in H.
    rewrite !app_assoc in H.
    apply split_last in H; try apply dec_no_uscore. destruct H as [H _].
    apply (dec_no_uscore n1). rewrite H. apply in_or_app. right. now left.
  - apply split_last in H; try apply dec_no_uscore. destruct H as [Hn Hc].
    apply dec_inj in Hc, Hn. subst. now split.
Qed.

Lemma nodup_map_inj {A B} (f : A -> B) l :
  (forall a b, f a = f b -> a = b) -> NoDup l -> NoDup (map f l).
Proof.
  intros Hf H; induction H as [|a l Hn H IH]; simpl; constructor; auto.
  rewrite in_map_iff. intros [b [E Hb]]. apply Hf in E. now subst.
Qed.

Lemma ids_nodup urn clock : NoDup (ids urn clock).
Proof.
  unfold ids. apply nodup_map_inj; [|apply gen_all_nodup].
  intros a b H. now apply render_inj in H.
Qed.

(* any state reachable by generate calls, not only the initial one *)
Lemma ids_nodup_from s urn clock : NoDup (map (render urn) (gen_all gen s clock)).
Proof.
  apply nodup_map_inj; [|apply gen_all_nodup].
  intros a b H. now apply render_inj in H.
Qed.

Lemma ids_prefix_disjoint u1 u2 c1 c2 x :
  u1 <> u2 -> In x (ids u1 c1) -> ~ In x (ids u2 c2).
Proof.
  unfold ids. intros Hne H1 H2. rewrite in_map_iff in H1, H2.
  destruct H1 as [a [Ea _]], H2 as [b [Eb _]]. subst x.
  symmetry in Eb. apply render_inj in Eb. now destruct Eb.
Qed.

(* D12: the generator as it was at the pinned commit repeats an identifier *)
Lemma unfixed_repeats : exists clock, ~ NoDup (gen_all gen_unfixed g_init clock).
Proof.
  exists [5; 5; 6; 5]. vm_compute. intro H.
  inversion H as [|? ? Hn _]. apply Hn. simpl. right. right. now left.
Qed.
