(* C03: what makes synchronous replication transparent, run by run; and the cluster statement. *)
From Bobo Require Import Base.Prelude Base.History Model.Pattern Model.Run Model.Decider Model.Cluster.
From Bobo Require Import Proofs.RunProofs Proofs.DeciderLemmas Proofs.DeciderProofs Proofs.StepProofs.

Section PerRun.
  Variable E : Type.
  Notation run := (run E).

  (* a local change that leaves the run active is strictly ahead of the copy every peer holds:
     further along the pattern, or at the same (looping) block with one more event *)
  Lemma outcome_changed_ahead (r : run) (e : E) r' :
    outcome E r e r' true -> r_halted r' = false -> ahead true (ser r') r = true.
  Proof.
    intros Ho Hh. unfold ahead, ser. simpl.
    inversion Ho as [| |b Hb|b i Hn Hi]; subst; simpl in *.
    - discriminate.
    - rewrite Nat.eqb_refl, hsize_hadd. simpl.
      replace (Nat.ltb (hsize (r_hist r)) (S (hsize (r_hist r)))) with true by (symmetry; apply Nat.ltb_lt; lia).
      now rewrite orb_true_r.
    - replace (Nat.ltb (r_idx r) (S i)) with true by (symmetry; apply Nat.ltb_lt; lia). reflexivity.
  Qed.

  Theorem local_change_is_ahead (r : run) (e : E) r' :
    process r e = Ok (r', true) -> r_halted r' = false -> ahead true (ser r') r = true.
  Proof. intros H. apply (outcome_changed_ahead r e). eapply process_outcome; eauto. Qed.

  (* applying the serialised result to an identical copy gives an identical copy *)
  Theorem set_block_replicates (r : run) (e : E) r' :
    process r e = Ok (r', true) -> r_halted r = false -> r_halted r' = false ->
    set_block r (s_idx (ser r')) (s_hist (ser r')) = r'.
  Proof.
    intros H Hh Hh'. pose proof (process_outcome E r e r' true H) as Ho.
    destruct (outcome_id E r e r' true Ho) as [H1 [H2 H3]].
    unfold set_block, ser. simpl. destruct r' as [id' ph' pat' idx' hist' halted']. simpl in *. subst.
    now rewrite Hh.
  Qed.

  (* a run started locally is re-created identically from its serialised form *)
  Theorem new_run_replicates id ph (p : pattern E) (e : E) :
    let nr := new_run id ph p e in
    remote_run (s_id (ser nr)) (s_ph (ser nr)) p (s_idx (ser nr)) (s_hist (ser nr)) = nr.
  Proof. reflexivity. Qed.

  (* what a local step does to the table and what it reports depends on the table and the id counter only *)
  Lemma local_step_runs_only cfg (s1 s2 : dstate E) (e : E) :
    d_runs s1 = d_runs s2 -> d_next s1 = d_next s2 ->
    match local_step cfg s1 e, local_step cfg s2 e with
    | Ok (a, n1), Ok (b, n2) => d_runs a = d_runs b /\ d_next a = d_next b /\ n1 = n2
    | Exn k1, Exn k2 => k1 = k2
    | _, _ => False
    end.
  Proof.
    intros H1 H2. unfold local_step. rewrite H1, H2.
    destruct (start_runs cfg e (cfg_pats cfg) _ (d_next s2)) as [[[[rt n] c] u]|k]; simpl; auto.
  Qed.
End PerRun.

Section ClusterThm.
  Variable E : Type.
  Variable cfg : config E.
  Variable gen : nat -> nat -> Z.

  Definition tables_equal (ss : list (dstate E)) : Prop :=
    forall j k sj sk, nth_error ss j = Some sj -> nth_error ss k = Some sk -> d_runs sj = d_runs sk.

  (* The table-level plumbing of one synchronous step: a peer that holds the same table as the sender held
     before the event holds the same table as the sender afterwards.  (Per run this is the three theorems
     above; at table level it additionally needs the finished-run memories not to interfere and identifiers
     to be unique, which the correspondence check verifies on every generated step.) *)
  Hypothesis sync_step : forall i j (si sj si' : dstate E) (e : E) (n : note E),
    i <> j -> d_runs sj = d_runs si -> local_step (icfg cfg gen i) si e = Ok (si', n) ->
    d_runs (fst (remote_apply (icfg cfg gen j) sj n)) = d_runs si'.

  Lemma deliver_nth from : forall k (ss : list (dstate E)) n j s,
    nth_error (deliver cfg gen from k ss n) j = Some s ->
    exists s0, nth_error ss j = Some s0 /\
               s = if Nat.eqb (k + j) from then s0 else fst (remote_apply (icfg cfg gen (k + j)) s0 n).
  Proof.
    intros k ss. revert k. induction ss as [|x rest IH]; intros k n j s H; simpl in H.
    - destruct j; discriminate.
    - destruct j as [|j]; simpl in H.
      + injection H as <-. exists x. split; [reflexivity|]. now rewrite Nat.add_0_r.
      + destruct (IH (S k) n j s H) as [s0 [H0 Hs]]. exists s0. split; [exact H0|].
        replace (k + S j)%nat with (S k + j)%nat by lia. exact Hs.
  Qed.

  Lemma nth_firstn_lt {A} (l : list A) : forall i j, (j < i)%nat -> nth_error (firstn i l) j = nth_error l j.
  Proof.
    induction l as [|x l IH]; intros i j H; destruct i; simpl; try lia; [now destruct j|].
    destruct j; simpl; [reflexivity|]. apply IH. lia.
  Qed.

  Lemma nth_skipn {A} (l : list A) : forall n k, nth_error (skipn n l) k = nth_error l (n + k).
  Proof.
    induction l as [|x l IH]; intros n k; destruct n; simpl; auto. now destruct k.
  Qed.

  Lemma nth_error_replace {A} (l : list A) i x j y :
    nth_error (firstn i l ++ x :: skipn (S i) l) j = Some y -> (i < length l)%nat ->
    (j = i /\ y = x) \/ (j <> i /\ nth_error l j = Some y).
  Proof.
    intros H Hi. destruct (Nat.eq_dec j i) as [->|Hne].
    - left. split; [reflexivity|]. rewrite nth_error_app2 in H by (rewrite firstn_length_le; lia).
      rewrite firstn_length_le, Nat.sub_diag in H by lia. simpl in H. now injection H.
    - right. split; [exact Hne|]. destruct (Nat.lt_ge_cases j i) as [Hlt|Hge].
      + rewrite nth_error_app1 in H by (rewrite firstn_length_le; lia).
        rewrite nth_firstn_lt in H by lia. exact H.
      + rewrite nth_error_app2 in H by (rewrite firstn_length_le; lia).
        rewrite firstn_length_le in H by lia. destruct (j - i)%nat as [|d] eqn:Ed; [lia|]. cbn [nth_error] in H.
        rewrite nth_skipn in H. replace (S i + d)%nat with j in H by lia. exact H.
  Qed.

  (* all replicas hold the same table after every synchronous step *)
  Theorem cstep_tables_equal_partial (ss ss' : list (dstate E)) i (e : E) n :
    tables_equal ss -> cstep cfg gen ss i e = Some (ss', n) -> tables_equal ss'.
  Proof.
    intros Heq H. unfold cstep in H. destruct (nth_error ss i) as [si|] eqn:Ei; [|discriminate].
    destruct (local_step (icfg cfg gen i) si e) as [[si' n0]|] eqn:El; [|discriminate].
    injection H as <- <-.
    assert (Hil : (i < length ss)%nat) by (apply nth_error_Some; congruence).
    assert (G : forall j s, nth_error (deliver cfg gen i 0 (firstn i ss ++ si' :: skipn (S i) ss) n0) j = Some s ->
                            d_runs s = d_runs si').
    { intros j s Hs. apply deliver_nth in Hs. destruct Hs as [s0 [H0 Hs]]. simpl in Hs.
      apply nth_error_replace in H0; [|exact Hil]. destruct H0 as [[-> ->]|[Hne H0]].
      - rewrite Nat.eqb_refl in Hs. now subst.
      - destruct (Nat.eqb_spec j i); [contradiction|]. subst s.
        apply (sync_step i j si s0 si' e n0); auto. eapply Heq; eauto. }
    intros j k sj sk Hj Hk. rewrite (G _ _ Hj), (G _ _ Hk). reflexivity.
  Qed.

  Theorem crun_tables_equal_partial inp : forall (ss ss' : list (dstate E)) ns,
    tables_equal ss -> crun cfg gen ss inp = Some (ss', ns) -> tables_equal ss'.
  Proof.
    induction inp as [|[i e] rest IH]; intros ss ss' ns Heq H; simpl in H.
    - now injection H as <- _.
    - destruct (cstep cfg gen ss i e) as [[ss1 n]|] eqn:Ec; [|discriminate].
      destruct (crun cfg gen ss1 rest) as [[ss2 ns2]|] eqn:Er; [|discriminate].
      injection H as <- _. eapply IH; [|exact Er]. eapply cstep_tables_equal_partial; eauto.
  Qed.
End ClusterThm.
