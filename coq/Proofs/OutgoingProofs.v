(* Proofs about Model/Outgoing.v (C15; the history principle hist_ind is reusable for C06/C07). *)
From Bobo Require Import Base.Prelude Model.Outgoing.

(* ------------------------------------------------------------------ thresholds *)
Lemma reached_le g x t : reached g x t = true -> t <= x.
Proof. unfold reached; destruct g; intro H; [apply Z.leb_le in H | apply Z.ltb_lt in H]; lia. Qed.

Lemma reached_gt g x t : t < x -> reached g x t = true.
Proof. unfold reached; destruct g; intro H; [apply Z.leb_le | apply Z.ltb_lt]; lia. Qed.

Lemma reached_lt g x t : x < t -> reached g x t = false.
Proof. unfold reached; destruct g; intro H; [apply Z.leb_gt | apply Z.ltb_ge]; lia. Qed.

Lemma reached_mono g x y t : x <= y -> reached g x t = true -> reached g y t = true.
Proof.
  unfold reached; destruct g; intros Hxy H; [apply Z.leb_le in H; apply Z.leb_le | apply Z.ltb_lt in H; apply Z.ltb_lt]; lia.
Qed.

Lemma size_stash_nonneg p : 0 <= size_stash p.
Proof. unfold size_stash, n2z; lia. Qed.

(* ------------------------------------------------------------------ the decision table *)
Section Table.
Variables (c : tcfg) (now : Z) (qe : bool) (p : peer).
Let cr := now - lc p.
Let ar := now - la p.

Lemma mt_resync_due : p_resync c < cr -> a_resync c < ar -> decide c now qe p = Some RESYNC.
Proof. intros H1 H2. unfold decide. fold cr ar. now rewrite (reached_gt _ _ _ H1), (reached_gt _ _ _ H2). Qed.

Lemma mt_resync_wait : p_resync c < cr -> ar < a_resync c -> decide c now qe p = None.
Proof. intros H1 H2. unfold decide. fold cr ar. now rewrite (reached_gt _ _ _ H1), (reached_lt _ _ _ H2). Qed.

Lemma mt_resync_only : p_resync c < cr -> forall m, decide c now qe p = Some m -> m = RESYNC.
Proof.
  intros H1 m. unfold decide. fold cr ar. rewrite (reached_gt _ _ _ H1).
  destruct (reached (cv_ar c) ar (a_resync c)); congruence.
Qed.

Lemma mt_ping_due :
  p_ping c < cr -> cr < p_resync c -> qe = true -> size_stash p = 0 -> a_ping c < ar ->
  decide c now qe p = Some PING.
Proof.
  intros H1 H2 Hq Hs H3. unfold decide. fold cr ar.
  rewrite (reached_lt _ _ _ H2), (reached_gt _ _ _ H1), Hq, Hs, (reached_gt _ _ _ H3). reflexivity.
Qed.

Lemma mt_ping_wait :
  p_ping c < cr -> cr < p_resync c -> qe = true -> size_stash p = 0 -> ar < a_ping c ->
  decide c now qe p = None.
Proof.
  intros H1 H2 Hq Hs H3. unfold decide. fold cr ar.
  rewrite (reached_lt _ _ _ H2), (reached_gt _ _ _ H1), Hq, Hs, (reached_lt _ _ _ H3). reflexivity.
Qed.

Lemma mt_sync_new : cr < p_resync c -> qe = false -> decide c now qe p = Some SYNC.
Proof.
  intros H2 Hq. unfold decide. fold cr ar. rewrite (reached_lt _ _ _ H2), Hq.
  rewrite Bool.andb_false_r. reflexivity.
Qed.

Lemma mt_sync_stash_due :
  cr < p_resync c -> qe = true -> 0 < size_stash p -> a_stash c < ar -> decide c now qe p = Some SYNC.
Proof.
  intros H2 Hq Hs H3. unfold decide. fold cr ar. rewrite (reached_lt _ _ _ H2), Hq, (reached_gt _ _ _ H3).
  replace (size_stash p =? 0) with false by (symmetry; apply Z.eqb_neq; lia).
  replace (0 <? size_stash p) with true by (symmetry; apply Z.ltb_lt; lia).
  rewrite Bool.andb_false_r. reflexivity.
Qed.

Lemma mt_sync_stash_wait :
  cr < p_resync c -> qe = true -> 0 < size_stash p -> ar < a_stash c -> decide c now qe p = None.
Proof.
  intros H2 Hq Hs H3. unfold decide. fold cr ar. rewrite (reached_lt _ _ _ H2), Hq, (reached_lt _ _ _ H3).
  replace (size_stash p =? 0) with false by (symmetry; apply Z.eqb_neq; lia).
  rewrite !Bool.andb_false_r. reflexivity.
Qed.

Lemma mt_contact_idle :
  cr < p_ping c -> cr < p_resync c -> qe = true -> size_stash p = 0 -> decide c now qe p = None.
Proof.
  intros H1 H2 Hq Hs. unfold decide. fold cr ar. rewrite (reached_lt _ _ _ H2), (reached_lt _ _ _ H1), Hq, Hs.
  reflexivity.
Qed.

(* converse direction, exact under the convention *)
Lemma decide_resync_inv :
  decide c now qe p = Some RESYNC ->
  reached (cv_pr c) cr (p_resync c) = true /\ reached (cv_ar c) ar (a_resync c) = true.
Proof.
  unfold decide. fold cr ar.
  destruct (reached (cv_pr c) cr (p_resync c)).
  - destruct (reached (cv_ar c) ar (a_resync c)); [auto | discriminate].
  - destruct (reached (cv_pp c) cr (p_ping c) && (qe && (size_stash p =? 0))).
    + destruct (reached (cv_ap c) ar (a_ping c)); discriminate.
    + destruct (negb qe || (0 <? size_stash p) && reached (cv_as c) ar (a_stash c)); discriminate.
Qed.

Lemma decide_ping_inv :
  decide c now qe p = Some PING ->
  reached (cv_pr c) cr (p_resync c) = false /\ reached (cv_pp c) cr (p_ping c) = true /\
  qe = true /\ size_stash p = 0 /\ reached (cv_ap c) ar (a_ping c) = true.
Proof.
  unfold decide. fold cr ar.
  destruct (reached (cv_pr c) cr (p_resync c)).
  - destruct (reached (cv_ar c) ar (a_resync c)); discriminate.
  - destruct (reached (cv_pp c) cr (p_ping c)); simpl.
    + destruct qe; simpl.
      * destruct (Z.eqb_spec (size_stash p) 0); simpl.
        -- destruct (reached (cv_ap c) ar (a_ping c)); [auto | discriminate].
        -- destruct ((0 <? size_stash p) && reached (cv_as c) ar (a_stash c)); discriminate.
      * discriminate.
    + destruct (negb qe || (0 <? size_stash p) && reached (cv_as c) ar (a_stash c)); discriminate.
Qed.

Lemma decide_sync_inv :
  decide c now qe p = Some SYNC ->
  reached (cv_pr c) cr (p_resync c) = false /\
  (qe = false \/ (0 < size_stash p /\ reached (cv_as c) ar (a_stash c) = true)).
Proof.
  unfold decide. fold cr ar.
  destruct (reached (cv_pr c) cr (p_resync c)).
  - destruct (reached (cv_ar c) ar (a_resync c)); discriminate.
  - destruct (reached (cv_pp c) cr (p_ping c) && (qe && (size_stash p =? 0))).
    + destruct (reached (cv_ap c) ar (a_ping c)); discriminate.
    + destruct qe; simpl; [|auto].
      destruct (Z.ltb_spec 0 (size_stash p)); simpl; [|discriminate].
      destruct (reached (cv_as c) ar (a_stash c)); [auto | discriminate].
Qed.

Lemma reached_false_le g x t : reached g x t = false -> x <= t.
Proof. unfold reached; destruct g; intro H; [apply Z.leb_gt in H | apply Z.ltb_ge in H]; lia. Qed.

(* converse direction, convention-free *)
Lemma mt_resync_inv : decide c now qe p = Some RESYNC -> p_resync c <= cr /\ a_resync c <= ar.
Proof. intro H. apply decide_resync_inv in H. destruct H as [H1 H2]. split; eapply reached_le; eauto. Qed.

Lemma mt_ping_inv :
  decide c now qe p = Some PING ->
  p_ping c <= cr /\ cr <= p_resync c /\ qe = true /\ size_stash p = 0 /\ a_ping c <= ar.
Proof.
  intro H. apply decide_ping_inv in H. destruct H as (H1 & H2 & H3 & H4 & H5).
  split; [exact (reached_le _ _ _ H2)|]. split; [exact (reached_false_le _ _ _ H1)|].
  split; [exact H3|]. split; [exact H4 | exact (reached_le _ _ _ H5)].
Qed.

Lemma mt_sync_inv :
  decide c now qe p = Some SYNC ->
  cr <= p_resync c /\ (qe = false \/ (0 < size_stash p /\ a_stash c <= ar)).
Proof.
  intro H. apply decide_sync_inv in H. destruct H as (H1 & H2). split.
  - eapply reached_false_le; eauto.
  - destruct H2 as [H2 | [H2 H3]]; [left; auto | right; split; auto; eapply reached_le; eauto].
Qed.
End Table.

(* the whole table, one statement *)
Definition mode_table_spec (c : tcfg) (now : Z) (qe : bool) (p : peer) : Prop :=
  let cr := now - lc p in let ar := now - la p in let d := decide c now qe p in
  (* resync period *)
  (p_resync c < cr -> (a_resync c < ar -> d = Some RESYNC) /\ (ar < a_resync c -> d = None) /\
                      (forall m, d = Some m -> m = RESYNC)) /\
  (* ping period, nothing to send *)
  (p_ping c < cr -> cr < p_resync c -> qe = true -> size_stash p = 0 ->
     (a_ping c < ar -> d = Some PING) /\ (ar < a_ping c -> d = None)) /\
  (* before the resync period: new changes go at once, a backlog when its interval has passed *)
  (cr < p_resync c -> qe = false -> d = Some SYNC) /\
  (cr < p_resync c -> qe = true -> 0 < size_stash p ->
     (a_stash c < ar -> d = Some SYNC) /\ (ar < a_stash c -> d = None)) /\
  (* in contact, nothing to send: silence *)
  (cr < p_ping c -> cr < p_resync c -> qe = true -> size_stash p = 0 -> d = None) /\
  (* only-if directions *)
  (d = Some RESYNC -> p_resync c <= cr /\ a_resync c <= ar) /\
  (d = Some PING -> p_ping c <= cr /\ cr <= p_resync c /\ qe = true /\ size_stash p = 0 /\ a_ping c <= ar) /\
  (d = Some SYNC -> cr <= p_resync c /\ (qe = false \/ (0 < size_stash p /\ a_stash c <= ar))).

Theorem mode_table : forall c now qe p, mode_table_spec c now qe p.
Proof.
  intros c now qe p. unfold mode_table_spec. cbv zeta.
  split; [intro H; split; [|split]|].
  - intro H2; now apply mt_resync_due.
  - intro H2; now apply mt_resync_wait.
  - now apply mt_resync_only.
  - split; [intros H1 H2 Hq Hs; split; intro H3; [now apply mt_ping_due | now apply mt_ping_wait]|].
    split; [intros; now apply mt_sync_new|].
    split; [intros H2 Hq Hs; split; intro H3; [now apply mt_sync_stash_due | now apply mt_sync_stash_wait]|].
    split; [intros; now apply mt_contact_idle|].
    split; [apply mt_resync_inv|]. split; [apply mt_ping_inv | apply mt_sync_inv].
Qed.

(* ------------------------------------------------------------------ post-send bookkeeping *)
Definition is_ok (err : nat) : bool := match err with O => true | _ => false end.

Definition post_send_spec (m : mode) (flagged : bool) (err : nat) (now' : Z) (cache : note) (p q : peer) : Prop :=
  la q = Z.max 0 now' /\
  lc q = (if is_ok err then Z.max 0 now' else lc p) /\
  fr q = (if is_ok err && flagged then false else fr p) /\
  addr q = addr p /\
  stash q = match m with
            | RESYNC => empty_note
            | PING => stash p
            | SYNC => if is_ok err then empty_note else note_app (stash p) cache
            end.

Theorem post_send_effects :
  forall m flagged err now' cache p, post_send_spec m flagged err now' cache p (send_peer m flagged err now' cache p).
Proof.
  intros m flagged err now' cache p. unfold post_send_spec, send_peer, post_send, pre_send.
  destruct m, err, flagged; simpl; repeat split; reflexivity.
Qed.

Lemma post_send_cache_irrelevant m flagged err now' c1 c2 p :
  m <> SYNC -> post_send m flagged err now' c1 p = post_send m flagged err now' c2 p.
Proof. intro H. destruct m; [congruence | |]; unfold post_send; destruct err; reflexivity. Qed.

(* ------------------------------------------------------------------ list update *)
Lemma nth_error_set_nth_eq {A} (l : list A) i x y :
  nth_error l i = Some y -> nth_error (set_nth i x l) i = Some x.
Proof.
  revert i; induction l as [|z l IH]; intros [|i]; simpl; try discriminate; auto.
Qed.

Lemma nth_error_set_nth_neq {A} (l : list A) i j x :
  i <> j -> nth_error (set_nth i x l) j = nth_error l j.
Proof.
  revert i j; induction l as [|z l IH]; intros [|i] [|j] H; simpl; auto; try congruence.
Qed.

Lemma length_set_nth {A} (l : list A) i x : length (set_nth i x l) = length l.
Proof. revert i; induction l as [|z l IH]; intros [|i]; simpl; auto. Qed.

(* ------------------------------------------------------------------ the outlist *)
Lemma decide_from_in c now qe : forall ps i j m,
  In (j, m) (decide_from c now qe i ps) ->
  (i <= j)%nat /\ exists p, nth_error ps (j - i) = Some p /\ decide c now qe p = Some m.
Proof.
  induction ps as [|p ps IH]; intros i j m H; simpl in H; [contradiction|].
  assert (Hrest : In (j, m) (decide_from c now qe (S i) ps) ->
                  (i <= j)%nat /\ exists p0, nth_error (p :: ps) (j - i) = Some p0 /\ decide c now qe p0 = Some m).
  { intro H'. apply IH in H'. destruct H' as [Hle [p0 [Hn Hd]]]. split; [lia|].
    exists p0. split; [|exact Hd]. replace (j - i)%nat with (S (j - S i)) by lia. exact Hn. }
  destruct (decide c now qe p) as [m0|] eqn:E.
  - destruct H as [H|H]; [|auto].
    inversion H; subst. split; [lia|]. exists p. rewrite Nat.sub_diag. auto.
  - auto.
Qed.

Lemma decide_from_complete c now qe : forall ps i k p m,
  nth_error ps k = Some p -> decide c now qe p = Some m -> In ((i + k)%nat, m) (decide_from c now qe i ps).
Proof.
  induction ps as [|p0 ps IH]; intros i k p m Hn Hd; [destruct k; discriminate|].
  destruct k as [|k]; simpl in Hn.
  - inversion Hn; subst. simpl. rewrite Hd. left. f_equal. lia.
  - simpl. replace (i + S k)%nat with (S i + k)%nat by lia.
    destruct (decide c now qe p0); [right|]; eapply IH; eauto.
Qed.

Lemma decide_from_nodup c now qe : forall ps i, NoDup (map fst (decide_from c now qe i ps)).
Proof.
  induction ps as [|p ps IH]; intros i; simpl; [constructor|].
  destruct (decide c now qe p) as [m|]; [|apply IH].
  simpl. constructor; [|apply IH].
  intro Hin. apply in_map_iff in Hin. destruct Hin as [[j m'] [Hj Hin]]. simpl in Hj. subst j.
  apply decide_from_in in Hin. lia.
Qed.

Lemma decide_all_in c now qe ps j m :
  In (j, m) (decide_all c now qe ps) -> exists p, nth_error ps j = Some p /\ decide c now qe p = Some m.
Proof.
  intro H. apply decide_from_in in H. destruct H as [_ [p [Hn Hd]]].
  rewrite Nat.sub_0_r in Hn. eauto.
Qed.

Lemma decide_all_complete c now qe ps j p m :
  nth_error ps j = Some p -> decide c now qe p = Some m -> In (j, m) (decide_all c now qe ps).
Proof. intros Hn Hd. exact (decide_from_complete c now qe ps 0 j p m Hn Hd). Qed.

Lemma decide_all_nodup c now qe ps : NoDup (map fst (decide_all c now qe ps)).
Proof. apply decide_from_nodup. Qed.

(* ------------------------------------------------------------------ one send *)
(* what send_one does, in terms of the peer it addresses *)
Lemma send_one_spec now qe snap sends s j m p :
  nth_error (i_peers s) j = Some p ->
  exists a cn s',
    send_one now qe snap sends s (j, m) = (s', [EAtt a]) /\
    i_peers s' = set_nth j (send_peer m (fr p) (at_err a) (at_done a) cn p) (i_peers s) /\
    at_peer a = j /\ at_mode a = m /\ at_dec a = now /\ at_qne a = negb qe /\ at_flag a = fr p /\
    at_err a = err_of (fst (nth j sends (0, now))) /\ at_done a = snd (nth j sends (0, now)) /\
    (i_cache s = None -> m = SYNC -> cn = hd empty_note (i_queue s)) /\
    (forall n, i_cache s = Some n -> cn = n \/ m <> SYNC) /\
    (m = SYNC -> i_cache s' = Some cn /\ (i_cache s = None -> i_queue s' = tl (i_queue s)) /\
                 (i_cache s <> None -> i_queue s' = i_queue s)) /\
    (m <> SYNC -> i_cache s' = i_cache s /\ i_queue s' = i_queue s).
Proof.
  intro Hn. unfold send_one. rewrite Hn.
  destruct (nth j sends (0, now)) as [outc now'] eqn:En. simpl fst. simpl snd.
  destruct m.
  - (* SYNC *)
    destruct (pop_queue (i_cache s) (i_queue s)) as [n q'] eqn:Ep.
    eexists; exists n; eexists. split; [reflexivity|]. simpl.
    unfold send_peer, msg_flags.
    repeat split; auto; try congruence.
    + intros Hc _. unfold pop_queue in Ep. rewrite Hc in Ep. destruct (i_queue s); inversion Ep; reflexivity.
    + intros n0 Hc. left. unfold pop_queue in Ep. rewrite Hc in Ep. inversion Ep; reflexivity.
    + intros Hc. unfold pop_queue in Ep. rewrite Hc in Ep. destruct (i_queue s); inversion Ep; reflexivity.
    + intros Hc. unfold pop_queue in Ep. destruct (i_cache s); [inversion Ep; reflexivity | congruence].
  - (* PING *)
    eexists; exists (match i_cache s with Some n => n | None => empty_note end); eexists.
    split; [reflexivity|]. simpl. unfold send_peer, msg_flags.
    repeat split; auto; try congruence. intros n Hc. right. congruence.
  - (* RESYNC *)
    eexists; exists (match i_cache s with Some n => n | None => empty_note end); eexists.
    split; [reflexivity|]. simpl. unfold send_peer, msg_flags.
    repeat split; auto; try congruence. intros n Hc. right. congruence.
Qed.

Lemma send_all_cons now qe snap sends s im ol :
  send_all now qe snap sends s (im :: ol) =
  let (s1, e1) := send_one now qe snap sends s im in
  let (s2, e2) := send_all now qe snap sends s1 ol in (s2, e1 ++ e2).
Proof. reflexivity. Qed.

Lemma iter_init_peers pf s : i_peers (iter_init pf s) = o_peers s.
Proof. unfold iter_init. destruct pf; [destruct (o_queue s)|]; reflexivity. Qed.

(* ------------------------------------------------------------------ history principle *)
(* For one peer index i: an invariant I tying the peer's fields to the log so far (newest first), and a
   predicate P that every attempt to i must satisfy relative to the log before it. *)
Section Hist.
Variable c : tcfg.
Variable i : nat.
Variable I : peer -> list ev -> Prop.
Variable P : list ev -> attempt -> Prop.

Hypothesis H_att : forall p rl now qe m a cn,
  I p rl -> decide c now qe p = Some m ->
  at_peer a = i -> at_mode a = m -> at_dec a = now -> at_qne a = negb qe -> at_flag a = fr p ->
  P rl a /\ I (send_peer m (fr p) (at_err a) (at_done a) cn p) (EAtt a :: rl).
Hypothesis H_other : forall p rl e, I p rl -> ev_peer e <> i -> I p (e :: rl).
Hypothesis H_addr : forall p rl x, I p rl -> I (set_addr x p) rl.
Hypothesis H_reset : forall p rl, I p rl -> I (clear_last p) (EReset i :: rl).

Fixpoint AllP (rl : list ev) : Prop :=
  match rl with
  | [] => True
  | EAtt a :: r => (at_peer a = i -> P r a) /\ AllP r
  | _ :: r => AllP r
  end.

Definition Inv (ps : list peer) (rl : list ev) : Prop := forall p, nth_error ps i = Some p -> I p rl.

Lemma send_all_hist now qe snap sends : forall ol s rl,
  NoDup (map fst ol) ->
  (forall j m, In (j, m) ol -> exists p, nth_error (i_peers s) j = Some p /\ decide c now qe p = Some m) ->
  Inv (i_peers s) rl -> AllP rl ->
  Inv (i_peers (fst (send_all now qe snap sends s ol))) (rev (snd (send_all now qe snap sends s ol)) ++ rl) /\
  AllP (rev (snd (send_all now qe snap sends s ol)) ++ rl).
Proof.
  induction ol as [|[j m] ol IH]; intros s rl Hnd Hol Hinv Hall.
  - simpl. auto.
  - destruct (Hol j m (or_introl eq_refl)) as [p [Hn Hd]].
    destruct (send_one_spec now qe snap sends s j m p Hn)
      as (a & cn & s1 & Hs1 & Hps & Hpeer & Hmode & Hdec & Hqne & Hflag & _).
    rewrite send_all_cons, Hs1.
    simpl in Hnd; apply NoDup_cons_iff in Hnd; destruct Hnd as [Hnotin Hnd'].
    assert (Hol' : forall j' m', In (j', m') ol ->
              exists p', nth_error (i_peers s1) j' = Some p' /\ decide c now qe p' = Some m').
    { intros j' m' Hin. destruct (Hol j' m' (or_intror Hin)) as [p' [Hn' Hd']].
      exists p'. split; [|exact Hd']. rewrite Hps. rewrite nth_error_set_nth_neq; [exact Hn'|].
      intro Heq; subst j'. apply Hnotin. simpl. change j with (fst (j, m')). apply in_map. exact Hin. }
    assert (Hstep : Inv (i_peers s1) (EAtt a :: rl) /\ AllP (EAtt a :: rl)).
    { destruct (Nat.eq_dec j i) as [Heq|Hne].
      - rewrite Heq in Hn, Hpeer, Hps.
        assert (Hip : I p rl) by (apply Hinv; exact Hn).
        destruct (H_att p rl now qe m a cn Hip Hd Hpeer Hmode Hdec Hqne Hflag) as [HP HI].
        split.
        + intros p' Hp'. rewrite Hps in Hp'. rewrite (nth_error_set_nth_eq _ _ _ _ Hn) in Hp'.
          inversion Hp'; subst. exact HI.
        + simpl. split; [intros _; exact HP | exact Hall].
      - split.
        + intros p' Hp'. rewrite Hps in Hp'. rewrite nth_error_set_nth_neq in Hp' by exact Hne.
          apply H_other; [apply Hinv; exact Hp' | simpl; congruence].
        + simpl. split; [intro Hc; congruence | exact Hall]. }
    destruct Hstep as [Hinv1 Hall1].
    specialize (IH s1 (EAtt a :: rl) Hnd' Hol' Hinv1 Hall1).
    destruct (send_all now qe snap sends s1 ol) as [s2 e2] eqn:E2. simpl in IH |- *.
    rewrite <- app_assoc. simpl. exact IH.
Qed.

Lemma step_hist pf s act rl :
  Inv (o_peers s) rl -> AllP rl ->
  Inv (o_peers (fst (step_o pf c s act))) (rev (snd (step_o pf c s act)) ++ rl) /\
  AllP (rev (snd (step_o pf c s act)) ++ rl).
Proof.
  intros Hinv Hall. destruct act as [n | now snap sends | from typ flags caddr]; simpl.
  - auto.
  - unfold iter_o.
    pose proof (send_all_hist now (is_nil (o_queue s)) snap sends
                  (decide_all c now (is_nil (o_queue s)) (o_peers s))
                  (iter_init pf s) rl
                  (decide_all_nodup _ _ _ _)) as H.
    rewrite iter_init_peers in H.
    specialize (H (fun j m Hin => decide_all_in _ _ _ _ _ _ Hin) Hinv Hall).
    destruct (send_all now (is_nil (o_queue s)) snap sends (iter_init pf s)
                (decide_all c now (is_nil (o_queue s)) (o_peers s))) as [s' es].
    simpl in H |- *. exact H.
  - unfold in_handle. destruct (nth_error (o_peers s) from) as [p|] eqn:Hn; simpl; [|auto].
    set (p1 := if caddr =? addr p then p else set_addr caddr p).
    destruct (Nat.eq_dec from i) as [Heq|Hne].
    + subst from.
      assert (Hp1 : I p1 rl).
      { unfold p1. destruct (caddr =? addr p); [apply Hinv; exact Hn | apply H_addr, Hinv; exact Hn]. }
      destruct (Z.land flags 1 =? 1); simpl.
      * split; [|exact Hall]. intros p' Hp'. rewrite (nth_error_set_nth_eq _ _ _ _ Hn) in Hp'.
        inversion Hp'; subst. apply H_reset. exact Hp1.
      * split; [|exact Hall]. intros p' Hp'. rewrite (nth_error_set_nth_eq _ _ _ _ Hn) in Hp'.
        inversion Hp'; subst. exact Hp1.
    + destruct (Z.land flags 1 =? 1); simpl.
      * split; [|exact Hall]. intros p' Hp'. rewrite nth_error_set_nth_neq in Hp' by exact Hne.
        apply H_other; [apply Hinv; exact Hp' | simpl; exact Hne].
      * split; [|exact Hall]. intros p' Hp'. rewrite nth_error_set_nth_neq in Hp' by exact Hne.
        apply Hinv; exact Hp'.
Qed.

Theorem hist_ind_o : forall pf acts s rl,
  Inv (o_peers s) rl -> AllP rl ->
  Inv (o_peers (fst (run_o pf c s acts rl))) (snd (run_o pf c s acts rl)) /\ AllP (snd (run_o pf c s acts rl)).
Proof.
  intro pf. induction acts as [|act acts IH]; intros s rl Hinv Hall; simpl; [auto|].
  pose proof (step_hist pf s act rl Hinv Hall) as H.
  destruct (step_o pf c s act) as [s' es]. simpl in H. destruct H as [H1 H2]. apply IH; assumption.
Qed.

(* the pinned order, under the name used by Proofs/ReplicationProofs.v *)
Theorem hist_ind : forall acts s rl,
  Inv (o_peers s) rl -> AllP rl ->
  Inv (o_peers (fst (run c s acts rl))) (snd (run c s acts rl)) /\ AllP (snd (run c s acts rl)).
Proof. exact (hist_ind_o false). Qed.

Lemma AllP_app x y : AllP (x ++ y) -> AllP y.
Proof.
  induction x as [|e x IH]; simpl; [auto|]. destruct e; [intros [_ H] | intro H]; auto.
Qed.

Lemma AllP_at x a y : AllP (x ++ EAtt a :: y) -> at_peer a = i -> P y a.
Proof. intros H Hi. apply AllP_app in H. simpl in H. destruct H as [H _]. auto. Qed.
End Hist.

(* the log, forwards, split at an attempt: the reversed accumulator splits the same way *)
Lemma log_split_o pf c s acts l1 e l2 :
  log_of_o pf c s acts = l1 ++ e :: l2 -> snd (run_o pf c s acts []) = rev l2 ++ e :: rev l1.
Proof.
  unfold log_of_o. intro H. apply (f_equal (@rev ev)) in H. rewrite rev_involutive in H.
  rewrite H. rewrite rev_app_distr. simpl. rewrite <- app_assoc. reflexivity.
Qed.

Lemma log_split c s acts l1 e l2 :
  log_of c s acts = l1 ++ e :: l2 -> snd (run c s acts []) = rev l2 ++ e :: rev l1.
Proof. exact (log_split_o false c s acts l1 e l2). Qed.

(* most recent event about peer i *)
Fixpoint last_ev (i : nat) (rl : list ev) : option ev :=
  match rl with
  | [] => None
  | e :: r => if Nat.eqb (ev_peer e) i then Some e else last_ev i r
  end.

Lemma last_ev_skip i x y : (forall e, In e x -> ev_peer e <> i) -> last_ev i (x ++ y) = last_ev i y.
Proof.
  induction x as [|e x IH]; intro H; simpl; [reflexivity|].
  destruct (Nat.eqb_spec (ev_peer e) i) as [Heq|Hne].
  - exfalso. exact (H e (or_introl eq_refl) Heq).
  - apply IH. intros e' He'. apply H. right; exact He'.
Qed.

Lemma last_ev_hit i e y : ev_peer e = i -> last_ev i (e :: y) = Some e.
Proof. intro H. simpl. rewrite (proj2 (Nat.eqb_eq _ _) H). reflexivity. Qed.

Lemma last_ev_miss i e y : ev_peer e <> i -> last_ev i (e :: y) = last_ev i y.
Proof. intro H. simpl. rewrite (proj2 (Nat.eqb_neq _ _) H). reflexivity. Qed.

(* ------------------------------------------------------------------ retry spacing *)
(* attempt a follows attempt b to the same peer: the distance from the end of b to the decision of a *)
Definition spaced (c : tcfg) (b a : attempt) : Prop :=
  let gap := at_dec a - at_done b in
  match at_mode a with
  | PING => reached (cv_ap c) gap (a_ping c) = true
  | RESYNC => reached (cv_ar c) gap (a_resync c) = true
  | SYNC => at_qne a = true \/ reached (cv_as c) gap (a_stash c) = true
  end.

Lemma rev_in_ev (l : list ev) (Q : ev -> Prop) : (forall e, In e l -> Q e) -> forall e, In e (rev l) -> Q e.
Proof. intros H e He. apply H. apply in_rev. exact He. Qed.

Theorem retry_spacing : forall pf c s acts l1 a1 l2 a2 l3,
  log_of_o pf c s acts = l1 ++ EAtt a1 :: l2 ++ EAtt a2 :: l3 ->
  at_peer a1 = at_peer a2 ->
  (forall e, In e l2 -> ev_peer e <> at_peer a2) ->
  spaced c a1 a2.
Proof.
  intros pf c s acts l1 a1 l2 a2 l3 Hlog Hpeer Hfree.
  set (i := at_peer a2).
  set (I := fun (p : peer) (rl : list ev) => forall b, last_ev i rl = Some (EAtt b) -> la p = Z.max 0 (at_done b)).
  set (P := fun (rl : list ev) (a : attempt) => forall b, last_ev i rl = Some (EAtt b) -> spaced c b a).
  assert (Hmain : AllP i P (snd (run_o pf c s acts []))).
  { apply (hist_ind_o c i I P).
    - (* attempt *)
      intros p rl now qe m a cn HI Hd Hpa Hm Hdec Hq Hf. split.
      + intros b Hb. specialize (HI b Hb). unfold spaced. rewrite Hm, Hdec.
        assert (Hge : now - la p <= now - at_done b) by lia.
        destruct m.
        * apply decide_sync_inv in Hd. destruct Hd as [_ [Hqe | [_ Hr]]].
          -- left. rewrite Hq, Hqe. reflexivity.
          -- right. eapply reached_mono; eauto.
        * apply decide_ping_inv in Hd. destruct Hd as (_ & _ & _ & _ & Hr). eapply reached_mono; eauto.
        * apply decide_resync_inv in Hd. destruct Hd as [_ Hr]. eapply reached_mono; eauto.
      + intros b Hb. rewrite last_ev_hit in Hb by exact Hpa. inversion Hb; subst b.
        destruct (post_send_effects m (fr p) (at_err a) (at_done a) cn p) as [Hla _]. exact Hla.
    - intros p rl e HI Hne b Hb. rewrite last_ev_miss in Hb by exact Hne. auto.
    - intros p rl x HI b Hb. simpl. auto.
    - intros p rl HI b Hb. rewrite last_ev_hit in Hb by reflexivity. discriminate.
    - intros p _ b Hb. discriminate.
    - exact Logic.I. }
  replace (l1 ++ EAtt a1 :: l2 ++ EAtt a2 :: l3) with ((l1 ++ EAtt a1 :: l2) ++ EAtt a2 :: l3) in Hlog
    by (rewrite <- app_assoc; reflexivity).
  apply log_split_o in Hlog. rewrite Hlog in Hmain.
  apply (AllP_at i P) in Hmain; [|reflexivity].
  apply Hmain. rewrite rev_app_distr. simpl. rewrite <- app_assoc. simpl.
  rewrite last_ev_skip.
  - apply last_ev_hit. exact Hpeer.
  - apply rev_in_ev. exact Hfree.
Qed.

(* the same in plain inequalities, whatever the convention; and measured start to start when the clock
   did not go backwards during the earlier send *)
Definition interval_of (c : tcfg) (m : mode) : Z :=
  match m with PING => a_ping c | RESYNC => a_resync c | SYNC => a_stash c end.

Lemma spaced_weak c b a :
  spaced c b a -> (at_mode a = SYNC /\ at_qne a = true) \/ interval_of c (at_mode a) <= at_dec a - at_done b.
Proof.
  unfold spaced, interval_of. destruct (at_mode a); intro H.
  - destruct H as [H|H]; [left; auto | right; eapply reached_le; eauto].
  - right; eapply reached_le; eauto.
  - right; eapply reached_le; eauto.
Qed.

Theorem retry_spacing_seconds : forall pf c s acts l1 a1 l2 a2 l3,
  log_of_o pf c s acts = l1 ++ EAtt a1 :: l2 ++ EAtt a2 :: l3 ->
  at_peer a1 = at_peer a2 ->
  (forall e, In e l2 -> ev_peer e <> at_peer a2) ->
  (at_mode a2 = SYNC /\ at_qne a2 = true) \/
  (interval_of c (at_mode a2) <= at_dec a2 - at_done a1 /\
   (at_dec a1 <= at_done a1 -> interval_of c (at_mode a2) <= at_dec a2 - at_dec a1)).
Proof.
  intros pf c s acts l1 a1 l2 a2 l3 Hlog Hpeer Hfree.
  pose proof (retry_spacing pf c s acts l1 a1 l2 a2 l3 Hlog Hpeer Hfree) as H.
  apply spaced_weak in H. destruct H as [H|H]; [left; exact H | right; split; [exact H | lia]].
Qed.

(* ------------------------------------------------------------------ the restart flag *)
Definition delivered_ev (i : nat) (e : ev) : bool :=
  match e with EAtt a => Nat.eqb (at_peer a) i && is_ok (at_err a) | EReset _ => false end.
Definition delivered (i : nat) (rl : list ev) : bool := existsb (delivered_ev i) rl.

Lemma flag_hist pf c s acts i :
  let fr0 := match nth_error (o_peers s) i with Some p => fr p | None => false end in
  AllP i (fun rl a => (delivered i rl = false -> at_flag a = fr0) /\ (delivered i rl = true -> at_flag a = false))
       (snd (run_o pf c s acts [])).
Proof.
  intro fr0.
  apply (hist_ind_o c i (fun p rl => (delivered i rl = false -> fr p = fr0) /\ (delivered i rl = true -> fr p = false))).
  - intros p rl now qe m a cn [HI1 HI2] Hd Hpa Hm Hdec Hq Hf. split.
    + rewrite Hf. split; assumption.
    + destruct (post_send_effects m (fr p) (at_err a) (at_done a) cn p) as (_ & _ & Hfr & _).
      rewrite Hfr. unfold delivered. simpl. rewrite (proj2 (Nat.eqb_eq _ _) Hpa). simpl.
      fold (delivered i rl).
      destruct (is_ok (at_err a)); simpl.
      * split; [discriminate|]. intros _. destruct (fr p); reflexivity.
      * split; assumption.
  - intros p rl e [HI1 HI2] Hne. unfold delivered. simpl. fold (delivered i rl).
    replace (delivered_ev i e) with false; [simpl; split; assumption|].
    destruct e as [a|j]; simpl; [|reflexivity]. simpl in Hne.
    rewrite (proj2 (Nat.eqb_neq _ _) Hne). reflexivity.
  - intros p rl x HI. exact HI.
  - intros p rl HI. exact HI.
  - intros p Hp. unfold fr0. rewrite Hp. simpl. split; [reflexivity | discriminate].
  - exact Logic.I.
Qed.

Lemma delivered_false_rev i l :
  (forall b, In (EAtt b) l -> at_peer b = i -> at_err b <> 0%nat) -> delivered i (rev l) = false.
Proof.
  intro H. unfold delivered. destruct (existsb (delivered_ev i) (rev l)) eqn:E; [|reflexivity].
  apply existsb_exists in E. destruct E as [e [Hin He]]. apply in_rev in Hin.
  destruct e as [b|j]; simpl in He; [|discriminate].
  apply Bool.andb_true_iff in He. destruct He as [H1 H2]. apply Nat.eqb_eq in H1.
  specialize (H b Hin H1). destruct (at_err b); [congruence | discriminate].
Qed.

Theorem flag_until_delivered : forall pf c s acts i p0 l1 a l2,
  nth_error (o_peers s) i = Some p0 -> fr p0 = true ->
  log_of_o pf c s acts = l1 ++ EAtt a :: l2 -> at_peer a = i ->
  (forall b, In (EAtt b) l1 -> at_peer b = i -> at_err b <> 0%nat) ->
  at_flag a = true.
Proof.
  intros pf c s acts i p0 l1 a l2 Hp0 Hfr Hlog Hpa Hnone.
  pose proof (flag_hist pf c s acts i) as H. cbv zeta in H. rewrite Hp0 in H.
  apply log_split_o in Hlog. rewrite Hlog in H.
  apply AllP_at in H; [|exact Hpa]. destruct H as [H _]. rewrite Hfr in H. apply H.
  apply delivered_false_rev. exact Hnone.
Qed.

Theorem flag_cleared_by_delivery : forall pf c s acts l1 b l2 a l3,
  log_of_o pf c s acts = l1 ++ EAtt b :: l2 ++ EAtt a :: l3 ->
  at_peer b = at_peer a -> at_err b = 0%nat ->
  at_flag a = false.
Proof.
  intros pf c s acts l1 b l2 a l3 Hlog Hpeer Herr.
  pose proof (flag_hist pf c s acts (at_peer a)) as H. cbv zeta in H.
  replace (l1 ++ EAtt b :: l2 ++ EAtt a :: l3) with ((l1 ++ EAtt b :: l2) ++ EAtt a :: l3) in Hlog
    by (rewrite <- app_assoc; reflexivity).
  apply log_split_o in Hlog. rewrite Hlog in H.
  apply AllP_at in H; [|reflexivity]. destruct H as [_ H]. apply H.
  unfold delivered. apply existsb_exists. exists (EAtt b). split.
  - apply in_rev. rewrite rev_involutive. apply in_or_app. right. left. reflexivity.
  - simpl. rewrite Hpeer, Nat.eqb_refl, Herr. reflexivity.
Qed.

(* ------------------------------------------------------------------ RESET makes the next message a RESYNC *)
Theorem reset_triggers_resync : forall pf c s acts i l1 l2 a l3,
  log_of_o pf c s acts = l1 ++ EReset i :: l2 ++ EAtt a :: l3 ->
  at_peer a = i ->
  (forall e, In e l2 -> ev_peer e <> i) ->
  p_resync c < at_dec a -> a_resync c < at_dec a ->
  at_mode a = RESYNC.
Proof.
  intros pf c s acts i l1 l2 a l3 Hlog Hpa Hfree Hp Ha.
  set (I := fun (p : peer) (rl : list ev) => last_ev i rl = Some (EReset i) -> lc p = 0 /\ la p = 0).
  set (P := fun (rl : list ev) (a : attempt) =>
              last_ev i rl = Some (EReset i) -> p_resync c < at_dec a -> at_mode a = RESYNC).
  assert (Hmain : AllP i P (snd (run_o pf c s acts []))).
  { apply (hist_ind_o c i I P).
    - intros p rl now qe m a0 cn HI Hd Hpa0 Hm Hdec Hq Hf. split.
      + intros Hl Hpr. destruct (HI Hl) as [Hlc _]. rewrite Hm. rewrite Hdec in Hpr.
        eapply mt_resync_only; [|exact Hd]. rewrite Hlc. lia.
      + intro Hl. rewrite last_ev_hit in Hl by exact Hpa0. discriminate.
    - intros p rl e HI Hne Hl. rewrite last_ev_miss in Hl by exact Hne. auto.
    - intros p rl x HI Hl. simpl. auto.
    - intros p rl HI _. simpl. auto.
    - intros p _ Hl. discriminate.
    - exact Logic.I. }
  replace (l1 ++ EReset i :: l2 ++ EAtt a :: l3) with ((l1 ++ EReset i :: l2) ++ EAtt a :: l3) in Hlog
    by (rewrite <- app_assoc; reflexivity).
  apply log_split_o in Hlog. rewrite Hlog in Hmain.
  apply (AllP_at i P) in Hmain; [|exact Hpa].
  apply Hmain; [|exact Hp].
  rewrite rev_app_distr. simpl. rewrite <- app_assoc. simpl.
  rewrite last_ev_skip; [apply last_ev_hit; reflexivity | apply rev_in_ev; exact Hfree].
Qed.

(* progress: the message is chosen in the very next iteration *)
Lemma send_all_emits now qe snap sends : forall ol s j m,
  (forall j' m', In (j', m') ol -> exists p, nth_error (i_peers s) j' = Some p) ->
  In (j, m) ol ->
  exists a, In (EAtt a) (snd (send_all now qe snap sends s ol)) /\ at_peer a = j /\ at_mode a = m.
Proof.
  induction ol as [|[j0 m0] ol IH]; intros s j m Hol Hin; [contradiction|].
  destruct (Hol j0 m0 (or_introl eq_refl)) as [p Hn].
  destruct (send_one_spec now qe snap sends s j0 m0 p Hn) as (a & cn & s1 & Hs1 & Hps & Hpeer & Hmode & _).
  rewrite send_all_cons, Hs1.
  destruct (send_all now qe snap sends s1 ol) as [s2 e2] eqn:E2. simpl.
  destruct Hin as [Heq|Hin].
  - inversion Heq; subst. exists a. auto.
  - destruct (IH s1 j m) as [a' [Ha' Hrest]]; [|exact Hin|].
    + intros j' m' Hin'. destruct (Hol j' m' (or_intror Hin')) as [p' Hn'].
      rewrite Hps. destruct (Nat.eq_dec j0 j') as [Heq|Hne].
      * subst j'. rewrite (nth_error_set_nth_eq _ _ _ _ Hn). eauto.
      * rewrite nth_error_set_nth_neq by exact Hne. eauto.
    + rewrite E2 in Ha'. simpl in Ha'. exists a'. split; [right; exact Ha' | exact Hrest].
Qed.

Theorem reset_resync_next_iteration : forall pf c s from typ flags caddr now snap sends p,
  nth_error (o_peers s) from = Some p -> Z.land flags 1 = 1 ->
  p_resync c < now -> a_resync c < now ->
  exists a, In (EAtt a) (snd (step_o pf c (fst (step_o pf c s (AIn from typ flags caddr))) (AIter now snap sends))) /\
            at_peer a = from /\ at_mode a = RESYNC.
Proof.
  intros pf c s from typ flags caddr now snap sends p Hn Hfl Hp Ha.
  simpl. unfold in_handle. rewrite Hn, Hfl. simpl.
  set (p1 := if caddr =? addr p then p else set_addr caddr p).
  set (ps := set_nth from (clear_last p1) (o_peers s)).
  assert (Hn' : nth_error ps from = Some (clear_last p1)) by (apply (nth_error_set_nth_eq _ _ _ _ Hn)).
  unfold iter_o. simpl o_queue. simpl o_peers.
  assert (Hd : decide c now (is_nil (o_queue s)) (clear_last p1) = Some RESYNC).
  { apply mt_resync_due; simpl; lia. }
  pose proof (decide_all_complete c now (is_nil (o_queue s)) ps from _ _ Hn' Hd) as Hin.
  destruct (send_all_emits now (is_nil (o_queue s)) snap sends
              (decide_all c now (is_nil (o_queue s)) ps) (iter_init pf (mkO ps (o_queue s))) from RESYNC) as [a Ha'].
  - intros j' m' Hin'. apply decide_all_in in Hin'. destruct Hin' as [p' [Hp' _]].
    rewrite iter_init_peers. simpl. eauto.
  - exact Hin.
  - destruct (send_all now (is_nil (o_queue s)) snap sends (iter_init pf (mkO ps (o_queue s)))
                (decide_all c now (is_nil (o_queue s)) ps)) as [s' es]. simpl in Ha' |- *. eauto.
Qed.

(* ------------------------------------------------------------------ one iteration, every peer *)
Definition mode_eq_dec_sync (m : mode) : {m = SYNC} + {m <> SYNC}.
Proof. destruct m; [left; reflexivity | right; discriminate | right; discriminate]. Defined.

Definition cache_ok (q0 : list note) (s : istate) : Prop :=
  (i_cache s = None /\ i_queue s = q0) \/ (i_cache s = Some (hd empty_note q0) /\ i_queue s = tl q0).

Definition has_sync (ol : list (nat * mode)) : bool :=
  existsb (fun im => match snd im with SYNC => true | _ => false end) ol.

Lemma send_all_peers now qe snap sends q0 : forall ol s,
  NoDup (map fst ol) ->
  (forall j m, In (j, m) ol -> exists p, nth_error (i_peers s) j = Some p) ->
  cache_ok q0 s ->
  let s' := fst (send_all now qe snap sends s ol) in
  cache_ok q0 s' /\
  (i_cache s = None -> i_queue s' = if has_sync ol then tl q0 else q0) /\
  (forall n, i_cache s = Some n -> i_queue s' = i_queue s /\ i_cache s' = Some n) /\
  length (i_peers s') = length (i_peers s) /\
  (forall j p, nth_error (i_peers s) j = Some p -> (forall m, ~ In (j, m) ol) -> nth_error (i_peers s') j = Some p) /\
  (forall j m p, In (j, m) ol -> nth_error (i_peers s) j = Some p ->
     nth_error (i_peers s') j =
     Some (send_peer m (fr p) (err_of (fst (nth j sends (0, now)))) (snd (nth j sends (0, now)))
             (hd empty_note q0) p)).
Proof.
  induction ol as [|[j0 m0] ol IH]; intros s Hnd Hol Hc.
  - simpl. split; [exact Hc|]. split; [|split; [|split; [|split]]]; auto.
    + intro Hn. destruct Hc as [[_ Hq] | [Hc' _]]; [exact Hq | congruence].
    + intros j m p H; contradiction.
  - destruct (Hol j0 m0 (or_introl eq_refl)) as [p0 Hn0].
    destruct (send_one_spec now qe snap sends s j0 m0 p0 Hn0)
      as (a & cn & s1 & Hs1 & Hps & _ & _ & _ & _ & _ & Herr & Hdone & Hcn1 & Hcn2 & Hsync & Hnsync).
    rewrite send_all_cons, Hs1.
    simpl in Hnd; apply NoDup_cons_iff in Hnd; destruct Hnd as [Hnotin Hnd'].
    assert (Hol' : forall j m, In (j, m) ol -> exists p, nth_error (i_peers s1) j = Some p).
    { intros j m Hin. destruct (Hol j m (or_intror Hin)) as [p' Hn'].
      rewrite Hps. destruct (Nat.eq_dec j0 j) as [Heq|Hne].
      - subst j. rewrite (nth_error_set_nth_eq _ _ _ _ Hn0). eauto.
      - rewrite nth_error_set_nth_neq by exact Hne. eauto. }
    (* the value handed to post_send agrees with the head of the queue whenever it matters *)
    assert (Hcn : m0 = SYNC -> cn = hd empty_note q0).
    { intro Hm. destruct Hc as [[Hcn0 Hq] | [Hcs Hq]].
      - rewrite (Hcn1 Hcn0 Hm), Hq. reflexivity.
      - destruct (Hcn2 _ Hcs) as [H|H]; [exact H | congruence]. }
    assert (Hc1 : cache_ok q0 s1).
    { destruct (mode_eq_dec_sync m0) as [Hm|Hm].
      - destruct (Hsync Hm) as (Hcs & Hq1 & Hq2). right. rewrite Hcs, (Hcn Hm). split; [reflexivity|].
        destruct Hc as [[Hcn0 Hq] | [Hcs0 Hq]].
        + rewrite (Hq1 Hcn0), Hq. reflexivity.
        + rewrite Hq2 by congruence. exact Hq.
      - destruct (Hnsync Hm) as [Hcs Hq]. unfold cache_ok. rewrite Hcs, Hq. exact Hc. }
    specialize (IH s1 Hnd' Hol' Hc1). cbv zeta in IH.
    destruct (send_all now qe snap sends s1 ol) as [s2 e2] eqn:E2. simpl in IH |- *.
    destruct IH as (IHc & IHq & IHq2 & IHlen & IHun & IHin).
    split; [exact IHc|]. split; [|split; [|split; [|split]]].
    + intro Hnone. unfold has_sync. simpl. fold (has_sync ol).
      destruct (mode_eq_dec_sync m0) as [Hm|Hm].
      * subst m0. simpl. destruct (Hsync eq_refl) as (Hcs & Hq1 & _).
        destruct (IHq2 _ Hcs) as [Hq _]. rewrite Hq, (Hq1 Hnone).
        destruct Hc as [[_ Hq0] | [Hc' _]]; [rewrite Hq0; reflexivity | congruence].
      * destruct (Hnsync Hm) as [Hcs Hq]. replace (match m0 with SYNC => true | _ => false end) with false
          by (destruct m0; congruence). simpl. apply IHq. congruence.
    + intros n Hsome. destruct (mode_eq_dec_sync m0) as [Hm|Hm].
      * destruct (Hsync Hm) as (Hcs & _ & Hq2).
        assert (Hcnn : cn = n) by (destruct (Hcn2 _ Hsome) as [H|H]; [exact H | congruence]).
        rewrite Hcnn in Hcs. destruct (IHq2 _ Hcs) as [Hq Hcc]. split; [|exact Hcc].
        rewrite Hq. apply Hq2. congruence.
      * destruct (Hnsync Hm) as [Hcs Hq]. rewrite Hsome in Hcs. destruct (IHq2 _ Hcs) as [Hq' Hcc].
        split; [congruence | exact Hcc].
    + rewrite IHlen, Hps. apply length_set_nth.
    + intros j p Hn Hno. apply IHun.
      * rewrite Hps. rewrite nth_error_set_nth_neq; [exact Hn|].
        intro Heq; subst j. exact (Hno m0 (or_introl eq_refl)).
      * intros m Hin. exact (Hno m (or_intror Hin)).
    + intros j m p [Heq|Hin] Hn.
      * inversion Heq; subst j m. rewrite Hn in Hn0. inversion Hn0; subst p0.
        rewrite (IHun j0 (send_peer m0 (fr p) (at_err a) (at_done a) cn p)).
        -- rewrite Herr, Hdone. destruct (mode_eq_dec_sync m0) as [Hm|Hm].
           ++ rewrite (Hcn Hm). reflexivity.
           ++ unfold send_peer. rewrite (post_send_cache_irrelevant m0 _ _ _ cn (hd empty_note q0)) by exact Hm.
              reflexivity.
        -- rewrite Hps. apply (nth_error_set_nth_eq _ _ _ _ Hn).
        -- intros m Hin. apply Hnotin. change j0 with (fst (j0, m)). apply in_map. exact Hin.
      * apply IHin; [exact Hin|]. rewrite Hps. rewrite nth_error_set_nth_neq; [exact Hn|].
        intro Heq; subst j. apply Hnotin. change j0 with (fst (j0, m)). apply in_map. exact Hin.
Qed.

Definition wants_sync (c : tcfg) (now : Z) (qe : bool) (p : peer) : bool :=
  match decide c now qe p with Some SYNC => true | _ => false end.

Lemma has_sync_decide_from c now qe : forall ps i,
  has_sync (decide_from c now qe i ps) = existsb (wants_sync c now qe) ps.
Proof.
  induction ps as [|p ps IH]; intros i; simpl; [reflexivity|].
  unfold wants_sync at 1. destruct (decide c now qe p) as [m|]; simpl.
  - unfold has_sync in *. simpl. rewrite IH. destruct m; reflexivity.
  - apply IH.
Qed.

(* One iteration of the loop body, as a whole, in either step order: every peer's record afterwards is the
   bookkeeping of the message chosen for it (or unchanged when none was chosen); in the pinned order the queue
   loses its head iff some peer was sent a SYNC, in the repaired order whenever it was non-empty. *)
Theorem iter_effects : forall pf c now snap sends s,
  let qe := is_nil (o_queue s) in
  let cn := hd empty_note (o_queue s) in
  let s' := fst (iter_o pf c now snap sends s) in
  length (o_peers s') = length (o_peers s) /\
  o_queue s' = (if pf || existsb (wants_sync c now qe) (o_peers s) then tl (o_queue s) else o_queue s) /\
  forall j p, nth_error (o_peers s) j = Some p ->
    nth_error (o_peers s') j =
    Some (match decide c now qe p with
          | None => p
          | Some m => send_peer m (fr p) (err_of (fst (nth j sends (0, now)))) (snd (nth j sends (0, now))) cn p
          end).
Proof.
  intros pf c now snap sends s qe cn s'. unfold s', iter_o. fold qe.
  pose proof (send_all_peers now qe snap sends (o_queue s) (decide_all c now qe (o_peers s))
                (iter_init pf s) (decide_all_nodup _ _ _ _)) as H.
  cbv zeta in H. rewrite iter_init_peers in H.
  assert (Hol : forall j m, In (j, m) (decide_all c now qe (o_peers s)) -> exists p, nth_error (o_peers s) j = Some p).
  { intros j m Hin. apply decide_all_in in Hin. destruct Hin as [p [Hp _]]. eauto. }
  assert (Hc : cache_ok (o_queue s) (iter_init pf s)).
  { unfold cache_ok, iter_init. destruct pf; [|left; auto].
    destruct (o_queue s) as [|n q']; simpl; [left; auto | right; auto]. }
  specialize (H Hol Hc).
  destruct (send_all now qe snap sends (iter_init pf s) (decide_all c now qe (o_peers s))) as [s2 es].
  simpl in H |- *.
  destruct H as (_ & Hq & Hq2 & Hlen & Hun & Hin).
  split; [exact Hlen|]. split.
  - unfold decide_all in Hq. rewrite has_sync_decide_from in Hq.
    unfold iter_init in Hq, Hq2. destruct pf; simpl.
    + destruct (o_queue s) as [|n q'] eqn:Eq; simpl in *.
      * rewrite (Hq eq_refl). destruct (existsb (wants_sync c now qe) (o_peers s)); reflexivity.
      * destruct (Hq2 n eq_refl) as [Hq' _]. exact Hq'.
    + simpl in Hq. exact (Hq eq_refl).
  - intros j p Hn. destruct (decide c now qe p) as [m|] eqn:Hd.
    + apply Hin; [|exact Hn]. eapply decide_all_complete; eauto.
    + apply Hun; [exact Hn|]. intros m Hin'. apply decide_all_in in Hin'.
      destruct Hin' as [p' [Hp' Hd']]. rewrite Hn in Hp'. inversion Hp'; subst. congruence.
Qed.
