From Bobo Require Import Base.Prelude Model.Recv.

(* ---------- unfolding ---------- *)
Lemma recv_loop_nil c a buf script : recv_loop c a buf script [] = (ClockOut, [], []).
Proof. reflexivity. Qed.

Lemma recv_loop_cons c a buf script now clock' :
  recv_loop c a buf script (now :: clock') =
  let elapse := now - a in
  if r_trecv c <=? elapse then (GiveUpClock elapse, [], clock')
  else
    let st := if r_client_to c then r_trecv c - elapse else -1 in
    match next_read (r_nrecv c) script with
    | None => (if r_client_to c then GiveUpSock else Hang, [(now, st)], clock')
    | Some (bs, script') =>
        let buf' := buf ++ bs in
        if end_test c (if r_end_on_all c then buf' else bs)
        then (Deliver buf', [(now, st)], clock')
        else let '(o, tr, rest) := recv_loop c a buf' script' clock' in
             (o, (now, st) :: tr, rest)
    end.
Proof. reflexivity. Qed.

(* ---------- vocabulary of the statements ---------- *)
(* what recv(n) may return while the peer is sending: between 1 and n bytes *)
Definition chunk_ok (c : rcfg) (ch : list Z) : Prop := ch <> [] /\ (length ch <= r_nrecv c)%nat.

(* no proper prefix that ends at a read boundary passes the end-of-message test *)
Definition no_premature (c : rcfg) (chunks : list (list Z)) : Prop :=
  forall k, (0 < k < length chunks)%nat -> end_test c (concat (firstn k chunks)) = false.

(* the first n clock readings are before the deadline *)
Definition timely (c : rcfg) (a : Z) (n : nat) (clock : list Z) : Prop :=
  (n <= length clock)%nat /\ Forall (fun r => r - a < r_trecv c) (firstn n clock).

Definition quiet (r : read) : Prop := r = Closed \/ r = Timeout.

Definition out_of (x : outcome * list (Z * Z) * list Z) : outcome := fst (fst x).
Definition trace_of (x : outcome * list (Z * Z) * list Z) : list (Z * Z) := snd (fst x).

Lemma next_read_chunk c ch s : chunk_ok c ch -> next_read (r_nrecv c) (Bytes ch :: s) = Some (ch, s).
Proof.
  intros [_ Hle]. unfold next_read. apply Nat.leb_le in Hle. now rewrite Hle.
Qed.

(* ---------- delivery for every cut ---------- *)
Lemma deliver_gen c a :
  r_end_on_all c = true ->
  forall chunks buf rest clock,
    chunks <> [] -> Forall (chunk_ok c) chunks ->
    end_test c (buf ++ concat chunks) = true ->
    (forall k, (0 < k < length chunks)%nat -> end_test c (buf ++ concat (firstn k chunks)) = false) ->
    timely c a (length chunks) clock ->
    exists tr rest',
      recv_loop c a buf (map Bytes chunks ++ rest) clock = (Deliver (buf ++ concat chunks), tr, rest')
      /\ length tr = length chunks.
Proof.
  intros Hall chunks. induction chunks as [|ch chunks IH]; intros buf rest clock Hne Hok Hend Hpre [Hlen Htime].
  - contradiction.
  - destruct clock as [|now clock']; [simpl in Hlen; lia|].
    simpl in Htime. inversion Htime as [|x l Hnow Htime' Heq]; subst.
    inversion Hok as [|x l Hch Hok' Heq]; subst.
    rewrite recv_loop_cons. cbv zeta.
    assert (Hl : (r_trecv c <=? now - a) = false) by (apply Z.leb_gt; lia).
    rewrite Hl. simpl map. simpl app. rewrite (next_read_chunk c ch _ Hch). rewrite Hall.
    destruct chunks as [|ch2 chunks].
    + simpl in Hend. rewrite app_nil_r in Hend. rewrite Hend.
      eexists; eexists; split; [simpl; rewrite app_nil_r; reflexivity | reflexivity].
    + assert (H1 : end_test c (buf ++ ch) = false).
      { specialize (Hpre 1%nat). simpl in Hpre. rewrite app_nil_r in Hpre. apply Hpre. lia. }
      rewrite H1.
      destruct (IH (buf ++ ch) rest clock') as [tr [rest' [Heq Hlt]]].
      * discriminate.
      * exact Hok'.
      * rewrite <- app_assoc. exact Hend.
      * intros k Hk. rewrite <- app_assoc. specialize (Hpre (S k)).
        simpl in Hpre. simpl. apply Hpre. simpl in Hk. lia.
      * split; [simpl in Hlen |- *; lia | exact Htime'].
      * rewrite Heq.
        eexists; eexists; split.
        -- simpl concat. rewrite <- app_assoc. reflexivity.
        -- simpl. now rewrite Hlt.
Qed.

Lemma delivery_any_cut_lem c a m chunks rest clock :
  r_end_on_all c = true ->
  end_test c m = true -> chunks <> [] -> concat chunks = m -> Forall (chunk_ok c) chunks ->
  no_premature c chunks -> timely c a (length chunks) clock ->
  out_of (recv_loop c a [] (map Bytes chunks ++ rest) clock) = Deliver m
  /\ length (trace_of (recv_loop c a [] (map Bytes chunks ++ rest) clock)) = length chunks.
Proof.
  intros Hall Hm Hne Hcat Hok Hpre Ht.
  destruct (deliver_gen c a Hall chunks [] rest clock Hne Hok) as [tr [rest' [Heq Hl]]].
  - simpl. now rewrite Hcat.
  - exact Hpre.
  - exact Ht.
  - rewrite Heq. unfold out_of, trace_of. simpl. now rewrite Hcat.
Qed.

(* ---------- D5: the end test on the last chunk loses messages whose last read is short ---------- *)
Definition d5_msg : list Z := repeat 7 56 ++ MARKER.            (* 60 bytes *)
Definition d5_chunks : list (list Z) := [firstn 50 d5_msg; skipn 50 d5_msg].
Definition d5_clock : list Z := [100; 100; 101; 102; 103; 104].

Lemma last_chunk_short_refuted_lem :
  exists c a m chunks rest clock,
    r_end_on_all c = false /\
    end_test c m = true /\ chunks <> [] /\ concat chunks = m /\ Forall (chunk_ok c) chunks /\
    no_premature c chunks /\ timely c a (length chunks) clock /\
    out_of (recv_loop c a [] (map Bytes chunks ++ rest) clock) <> Deliver m.
Proof.
  exists (cfg_unfixed 52 3 2048), 100, d5_msg, d5_chunks, [], d5_clock.
  split; [reflexivity|]. split; [vm_compute; reflexivity|]. split; [discriminate|].
  split; [vm_compute; reflexivity|].
  split.
  { repeat constructor; try discriminate; vm_compute; intro; discriminate. }
  split.
  { intros k Hk. assert (k = 1%nat) by (simpl in Hk; lia). subst. vm_compute. reflexivity. }
  split.
  { split; [simpl; lia|]. simpl. repeat constructor; lia. }
  vm_compute. discriminate.
Qed.

(* ---------- D7: a proper prefix ending in the marker at a read boundary is decrypted early ---------- *)
Definition d7_prefix : list Z := repeat 1 48 ++ MARKER.          (* 52 bytes ending in BOBO *)
Definition d7_msg : list Z := d7_prefix ++ repeat 2 48 ++ MARKER. (* 104 bytes *)

Lemma premature_marker_refuted_lem :
  exists c a m chunks rest clock,
    r_end_on_all c = true /\
    end_test c m = true /\ chunks <> [] /\ concat chunks = m /\ Forall (chunk_ok c) chunks /\
    timely c a (length chunks) clock /\
    exists p, out_of (recv_loop c a [] (map Bytes chunks ++ rest) clock) = Deliver p /\ p <> m.
Proof.
  exists (cfg_fixed 52 3 2048), 100, d7_msg, [d7_prefix; skipn 52 d7_msg], [], [100; 100].
  split; [reflexivity|]. split; [vm_compute; reflexivity|]. split; [discriminate|].
  split; [vm_compute; reflexivity|].
  split.
  { repeat constructor; try discriminate; vm_compute; intro; discriminate. }
  split.
  { split; [simpl; lia|]. simpl. repeat constructor; lia. }
  exists d7_prefix. split; [vm_compute; reflexivity | vm_compute; discriminate].
Qed.

(* ---------- bounded waiting: every recv is issued before the deadline with a socket timeout that
   ends at the deadline; the loop never hangs; it runs out of clock only if no reading reached the
   deadline ---------- *)
Lemma bounded_wait c a :
  r_client_to c = true ->
  forall clock buf script,
    Forall (fun p => fst p - a < r_trecv c /\ fst p + snd p = a + r_trecv c)
           (trace_of (recv_loop c a buf script clock)).
Proof.
  intros Hto clock. induction clock as [|now clock' IH]; intros buf script.
  - constructor.
  - rewrite recv_loop_cons. cbv zeta. rewrite Hto.
    destruct (r_trecv c <=? now - a) eqn:El; [constructor|].
    apply Z.leb_gt in El.
    assert (Hhd : fst (now, r_trecv c - (now - a)) - a < r_trecv c /\
                  fst (now, r_trecv c - (now - a)) + snd (now, r_trecv c - (now - a)) = a + r_trecv c)
      by (simpl; lia).
    destruct (next_read (r_nrecv c) script) as [[bs script']|].
    + destruct (end_test c (if r_end_on_all c then buf ++ bs else bs)).
      * unfold trace_of. simpl. constructor; [exact Hhd | constructor].
      * specialize (IH (buf ++ bs) script').
        destruct (recv_loop c a (buf ++ bs) script' clock') as [[o tr] rest].
        unfold trace_of in *. simpl in *. constructor; [exact Hhd | exact IH].
    + unfold trace_of. simpl. constructor; [exact Hhd | constructor].
Qed.

Lemma never_hangs c a :
  r_client_to c = true ->
  forall clock buf script, out_of (recv_loop c a buf script clock) <> Hang.
Proof.
  intros Hto clock. induction clock as [|now clock' IH]; intros buf script.
  - discriminate.
  - rewrite recv_loop_cons. cbv zeta. rewrite Hto.
    destruct (r_trecv c <=? now - a); [discriminate|].
    destruct (next_read (r_nrecv c) script) as [[bs script']|]; [|discriminate].
    destruct (end_test c (if r_end_on_all c then buf ++ bs else bs)); [discriminate|].
    specialize (IH (buf ++ bs) script').
    destruct (recv_loop c a (buf ++ bs) script' clock') as [[o tr] rest].
    unfold out_of in *. simpl in *. exact IH.
Qed.

Lemma bounded_wait_no_hang c a :
  r_client_to c = true ->
  forall clock buf script,
    Forall (fun p => fst p - a < r_trecv c /\ fst p + snd p = a + r_trecv c)
           (trace_of (recv_loop c a buf script clock))
    /\ out_of (recv_loop c a buf script clock) <> Hang.
Proof. intros H clock buf script. split; [now apply bounded_wait | now apply never_hangs]. Qed.

Lemma clock_out_only_before_deadline c a :
  forall clock buf script,
    out_of (recv_loop c a buf script clock) = ClockOut -> Forall (fun r => r - a < r_trecv c) clock.
Proof.
  intros clock. induction clock as [|now clock' IH]; intros buf script H.
  - constructor.
  - rewrite recv_loop_cons in H. cbv zeta in H.
    destruct (r_trecv c <=? now - a) eqn:El; [discriminate H|].
    apply Z.leb_gt in El.
    destruct (next_read (r_nrecv c) script) as [[bs script']|].
    + destruct (end_test c (if r_end_on_all c then buf ++ bs else bs)); [discriminate H|].
      specialize (IH (buf ++ bs) script').
      destruct (recv_loop c a (buf ++ bs) script' clock') as [[o tr] rest].
      unfold out_of in *. simpl in *. constructor; [lia | now apply IH].
    + destruct (r_client_to c); discriminate H.
Qed.

(* a give-up by the clock happens at a reading at or after the deadline *)
Lemma give_up_clock_late c a :
  forall clock buf script e,
    out_of (recv_loop c a buf script clock) = GiveUpClock e -> r_trecv c <= e.
Proof.
  intros clock. induction clock as [|now clock' IH]; intros buf script e H.
  - discriminate H.
  - rewrite recv_loop_cons in H. cbv zeta in H.
    destruct (r_trecv c <=? now - a) eqn:El.
    + unfold out_of in H. simpl in H. inversion H; subst. now apply Z.leb_le.
    + destruct (next_read (r_nrecv c) script) as [[bs script']|].
      * destruct (end_test c (if r_end_on_all c then buf ++ bs else bs)); [discriminate H|].
        specialize (IH (buf ++ bs) script' e).
        destruct (recv_loop c a (buf ++ bs) script' clock') as [[o tr] rest].
        unfold out_of in *. simpl in *. now apply IH.
      * destruct (r_client_to c); discriminate H.
Qed.

(* ---------- truncation: nothing is ever handed to decrypt ---------- *)
Lemma next_read_quiet n tail :
  Forall quiet tail ->
  next_read n tail = None \/ exists tail', next_read n tail = Some ([], tail') /\ Forall quiet tail'.
Proof.
  intros H. destruct tail as [|r tail'].
  - right. exists []. split; [reflexivity | constructor].
  - inversion H as [|x l Hq Hq' Heq]; subst. destruct Hq as [-> | ->].
    + right. exists tail'. split; [reflexivity | exact Hq'].
    + left. reflexivity.
Qed.

Lemma quiet_never_delivers c a :
  r_end_on_all c = true ->
  forall clock buf tail,
    end_test c buf = false -> Forall quiet tail ->
    forall b, out_of (recv_loop c a buf tail clock) <> Deliver b.
Proof.
  intros Hall clock. induction clock as [|now clock' IH]; intros buf tail Hb Hq b.
  - discriminate.
  - rewrite recv_loop_cons. cbv zeta.
    destruct (r_trecv c <=? now - a); [discriminate|].
    destruct (next_read_quiet (r_nrecv c) tail Hq) as [Hn | [tail' [Hn Hq']]]; rewrite Hn.
    + destruct (r_client_to c); discriminate.
    + rewrite Hall. rewrite app_nil_r. rewrite Hb.
      specialize (IH buf tail' Hb Hq' b).
      destruct (recv_loop c a buf tail' clock') as [[o tr] rest].
      unfold out_of in *. simpl in *. exact IH.
Qed.

Lemma truncation_never_delivers c a :
  r_end_on_all c = true ->
  forall chunks buf tail clock,
    Forall (chunk_ok c) chunks -> Forall quiet tail ->
    (forall k, (k <= length chunks)%nat -> end_test c (buf ++ concat (firstn k chunks)) = false) ->
    forall b, out_of (recv_loop c a buf (map Bytes chunks ++ tail) clock) <> Deliver b.
Proof.
  intros Hall chunks. induction chunks as [|ch chunks IH]; intros buf tail clock Hok Hq Hpre b.
  - simpl. apply quiet_never_delivers; try assumption.
    specialize (Hpre 0%nat). simpl in Hpre. rewrite app_nil_r in Hpre. apply Hpre. lia.
  - destruct clock as [|now clock']; [discriminate|].
    inversion Hok as [|x l Hch Hok' Heq]; subst.
    rewrite recv_loop_cons. cbv zeta.
    destruct (r_trecv c <=? now - a); [discriminate|].
    simpl map. simpl app. rewrite (next_read_chunk c ch _ Hch). rewrite Hall.
    assert (H1 : end_test c (buf ++ ch) = false).
    { specialize (Hpre 1%nat). simpl in Hpre. rewrite app_nil_r in Hpre. apply Hpre. lia. }
    rewrite H1.
    specialize (IH (buf ++ ch) tail clock' Hok' Hq).
    assert (Hpre' : forall k, (k <= length chunks)%nat ->
                              end_test c ((buf ++ ch) ++ concat (firstn k chunks)) = false).
    { intros k Hk. rewrite <- app_assoc. specialize (Hpre (S k)). simpl in Hpre. apply Hpre. lia. }
    specialize (IH Hpre' b).
    destruct (recv_loop c a (buf ++ ch) (map Bytes chunks ++ tail) clock') as [[o tr] rest].
    unfold out_of in *. simpl in *. exact IH.
Qed.

Lemma truncation_gives_up_lem c a chunks tail clock :
  r_end_on_all c = true -> r_client_to c = true ->
  Forall (chunk_ok c) chunks -> Forall quiet tail ->
  (forall k, (k <= length chunks)%nat -> end_test c (concat (firstn k chunks)) = false) ->
  let r := recv_loop c a [] (map Bytes chunks ++ tail) clock in
  (forall b, out_of r <> Deliver b) /\ out_of r <> Hang /\
  (forall e, out_of r = GiveUpClock e -> r_trecv c <= e) /\
  (out_of r = ClockOut -> Forall (fun t => t - a < r_trecv c) clock) /\
  Forall (fun p => fst p - a < r_trecv c /\ fst p + snd p = a + r_trecv c) (trace_of r).
Proof.
  intros Hall Hto Hok Hq Hpre r. subst r.
  split; [|split; [|split; [|split]]].
  - apply truncation_never_delivers; assumption.
  - now apply never_hangs.
  - intros e. apply give_up_clock_late.
  - apply clock_out_only_before_deadline.
  - now apply bounded_wait.
Qed.

(* ---------- the accept loop ---------- *)
Lemma session_never_hangs c sc : r_client_to c = true -> session_outcome c sc <> Hang.
Proof.
  intros Hto. unfold session_outcome, session. destruct (snd sc) as [|a clock']; [discriminate|].
  apply (never_hangs c a Hto clock' [] (fst sc)).
Qed.

Lemma listen_all c clients :
  r_client_to c = true -> listen c clients = map (session_outcome c) clients.
Proof.
  intros Hto. induction clients as [|sc cs IH]; [reflexivity|].
  simpl. pose proof (session_never_hangs c sc Hto) as Hn.
  destruct (session_outcome c sc); try (now rewrite IH). contradiction.
Qed.

Lemma later_messages_served_lem c prior good :
  r_client_to c = true ->
  listen c (prior ++ [good]) = map (session_outcome c) prior ++ [session_outcome c good].
Proof.
  intros Hto. rewrite (listen_all c _ Hto). now rewrite map_app.
Qed.

(* any clients whatsoever, then a whole message in any admissible cut: it is delivered *)
Lemma later_message_delivered_lem c prior a m chunks rest clock :
  r_client_to c = true -> r_end_on_all c = true ->
  end_test c m = true -> chunks <> [] -> concat chunks = m -> Forall (chunk_ok c) chunks ->
  no_premature c chunks -> timely c a (length chunks) clock ->
  last (listen c (prior ++ [(map Bytes chunks ++ rest, a :: clock)])) ClockOut = Deliver m
  /\ length (listen c (prior ++ [(map Bytes chunks ++ rest, a :: clock)])) = S (length prior).
Proof.
  intros Hto Hall Hm Hne Hcat Hok Hpre Ht.
  rewrite (later_messages_served_lem c prior _ Hto). split.
  - rewrite last_last. unfold session_outcome, session. simpl.
    apply (delivery_any_cut_lem c a m chunks rest clock); assumption.
  - rewrite app_length, map_length. simpl. lia.
Qed.

(* D6: without a timeout on the accepted socket one silent client is the end of the listener *)
Lemma silent_client_blocks_unfixed_lem :
  exists c prior a m chunks clock,
    r_client_to c = false /\
    end_test c m = true /\ chunks <> [] /\ concat chunks = m /\ Forall (chunk_ok c) chunks /\
    no_premature c chunks /\ timely c a (length chunks) clock /\
    listen c (prior ++ [(map Bytes chunks, a :: clock)]) = [Hang].
Proof.
  exists (mkR 52 MARKER 3 2048 true false), [([Timeout], [100; 100])], 200, d5_msg, [d5_msg], [200].
  split; [reflexivity|]. split; [vm_compute; reflexivity|]. split; [discriminate|].
  split; [vm_compute; reflexivity|].
  split.
  { repeat constructor; try discriminate; vm_compute; intro; discriminate. }
  split.
  { intros k Hk. simpl in Hk. lia. }
  split.
  { split; [simpl; lia|]. simpl. repeat constructor; lia. }
  vm_compute. reflexivity.
Qed.

(* ---------- recv(n) returning less than was available changes nothing but the cut ---------- *)
(* (used to reduce a script with oversize Bytes items to one with admissible chunks) *)
Fixpoint split_every (fuel n : nat) (bs : list Z) : list (list Z) :=
  match fuel with
  | O => [bs]
  | S f => if (length bs <=? n)%nat then [bs] else firstn n bs :: split_every f n (skipn n bs)
  end.

Lemma oversize_resplit c a :
  (0 < r_nrecv c)%nat ->
  forall clock buf bs s fuel,
    (length bs <= fuel)%nat ->
    recv_loop c a buf (Bytes bs :: s) clock =
    recv_loop c a buf (map Bytes (split_every fuel (r_nrecv c) bs) ++ s) clock.
Proof.
  intros Hn clock. induction clock as [|now clock' IH]; intros buf bs s fuel Hf; [reflexivity|].
  destruct fuel as [|f].
  - reflexivity.
  - simpl split_every. destruct (length bs <=? r_nrecv c)%nat eqn:El; [reflexivity|].
    apply Nat.leb_gt in El.
    rewrite !recv_loop_cons. cbv zeta.
    destruct (r_trecv c <=? now - a); [reflexivity|].
    simpl map. simpl app. unfold next_read at 1 2.
    assert (E1 : (length bs <=? r_nrecv c)%nat = false) by (apply Nat.leb_gt; lia).
    rewrite E1.
    assert (E2 : (length (firstn (r_nrecv c) bs) <=? r_nrecv c)%nat = true).
    { apply Nat.leb_le. rewrite firstn_length. lia. }
    rewrite E2.
    destruct (end_test c (if r_end_on_all c then buf ++ firstn (r_nrecv c) bs else firstn (r_nrecv c) bs));
      [reflexivity|].
    rewrite (IH (buf ++ firstn (r_nrecv c) bs) (skipn (r_nrecv c) bs) s f); [reflexivity|].
    rewrite skipn_length. lia.
Qed.
