From Bobo Require Import Base.Prelude Model.IdGen Model.IdGenTwo Proofs.IdGenProofs Proofs.IdGenThreadsProofs.

Lemma gen_is_read_then_update s c : gen s c = upd s (Z.max c (g_last s)).
Proof. reflexivity. Qed.

(* own state: what generator A (B) has handed out is what ONE caller reading the clock values `used` obtains *)
Definition Inv2 (s : st2) : Prop :=
  (exists ua, o_a s = gen_all gen g_init ua /\ s_a s = gen_st g_init ua /\
              (p_a s = PIdle \/ exists c, p_a s = PNow (Z.max c (g_last (s_a s))))) /\
  (exists ub, o_b s = gen_all gen g_init ub /\ s_b s = gen_st g_init ub /\
              (p_b s = PIdle \/ exists c, p_b s = PNow (Z.max c (g_last (s_b s))))).

Lemma gen_all_snoc s u c : gen_all gen s (u ++ [c]) = gen_all gen s u ++ [snd (gen (gen_st s u) c)].
Proof. rewrite gen_all_app. simpl. destruct (gen (gen_st s u) c). reflexivity. Qed.

Lemma gen_st_snoc s u c : gen_st s (u ++ [c]) = fst (gen (gen_st s u) c).
Proof. rewrite gen_st_app. simpl. destruct (gen (gen_st s u) c). reflexivity. Qed.

Lemma Inv2_init : Inv2 s2_init.
Proof. split; exists []; simpl; auto. Qed.

Lemma Inv2_step s x : Inv2 s -> Inv2 (step2 false s x).
Proof.
  intros [[ua [Ha [Hsa Hpa]]] [ub [Hb [Hsb Hpb]]]]. destruct x as [who c]. unfold step2.
  destruct who.
  - destruct (p_a s) as [|now] eqn:Ep.
    + split; [|exists ub; simpl; auto]. exists ua. simpl. repeat split; auto. right. now exists c.
    + destruct Hpa as [Hpa|[c0 Hpa]]; [discriminate|]. injection Hpa as ->.
      rewrite <- gen_is_read_then_update. destruct (gen (s_a s) c0) as [g' id] eqn:Eg.
      split; [|exists ub; simpl; auto]. exists (ua ++ [c0]). simpl.
      rewrite gen_all_snoc, gen_st_snoc, <- Hsa, Eg, Ha. simpl. auto.
  - simpl. destruct (p_b s) as [|now] eqn:Ep.
    + split; [exists ua; simpl; auto|]. exists ub. simpl. repeat split; auto. right. now exists c.
    + destruct Hpb as [Hpb|[c0 Hpb]]; [discriminate|]. injection Hpb as ->.
      rewrite <- gen_is_read_then_update. destruct (gen (s_b s) c0) as [g' id] eqn:Eg.
      split; [exists ua; simpl; auto|]. exists (ub ++ [c0]). simpl.
      rewrite gen_all_snoc, gen_st_snoc, <- Hsb, Eg, Hb. simpl. auto.
Qed.

Lemma Inv2_run xs : forall s, Inv2 s -> Inv2 (fold_left (step2 false) xs s).
Proof. induction xs as [|x xs IH]; simpl; intros s H; [exact H|]. apply IH, Inv2_step, H. Qed.

(* the code as it is: whatever the other generator's thread does and whatever the clock shows, each generator hands out
   exactly what a single caller would get - pairwise distinct identifiers *)
Theorem two_generators_independent xs :
  exists ua ub, o_a (run2 false xs) = gen_all gen g_init ua /\ o_b (run2 false xs) = gen_all gen g_init ub.
Proof.
  destruct (Inv2_run xs s2_init Inv2_init) as [[ua [Ha _]] [ub [Hb _]]]. exists ua, ub. split; assumption.
Qed.

Theorem two_generators_ids_distinct xs ua ub :
  NoDup (map (render ua) (o_a (run2 false xs))) /\ NoDup (map (render ub) (o_b (run2 false xs))).
Proof.
  destruct (two_generators_independent xs) as [a [b [-> ->]]]. split; apply ids_nodup_from.
Qed.

(* state shared between the two generators, a lock per generator: B obtains (6, 0) twice *)
Definition shared_sched : list (bool * Z) :=
  [(true, 5); (false, 6); (false, 6); (true, 5); (false, 6); (false, 6)].

Theorem shared_counters_two_locks_repeat :
  o_b (run2 true shared_sched) = [(6, 0); (6, 0)] /\ o_b (run2 false shared_sched) = [(6, 0); (6, 1)].
Proof. vm_compute. split; reflexivity. Qed.
