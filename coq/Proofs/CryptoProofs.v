(* Proofs about Model/Crypto.v (C17). *)
From Bobo Require Import Base.Prelude Model.Crypto.

(* ------------------------------------------------------------------ lengths *)
Lemma len_nonneg : forall l, 0 <= len l.
Proof. intros l. unfold len. lia. Qed.

Lemma len_app : forall a b, len (a ++ b) = len a + len b.
Proof. intros a b. unfold len. rewrite app_length. lia. Qed.

Lemma len_repeat : forall x k, len (repeat x k) = Z.of_nat k.
Proof. intros x k. unfold len. rewrite repeat_length. reflexivity. Qed.

Lemma len_nil_iff : forall l, len l = 0 <-> l = [].
Proof.
  intros l. unfold len. split.
  - intros H. destruct l as [|x t]; [reflexivity|]. simpl in H. lia.
  - intros H. subst l. reflexivity.
Qed.

Lemma len_marker : len MARKER = LEN_END.
Proof. reflexivity. Qed.

(* ------------------------------------------------------------------ Python slicing *)
Lemma firstn_skipn_mid : forall (A B C : list Z),
  firstn (length B) (skipn (length A) (A ++ B ++ C)) = B.
Proof.
  intros A B C. induction A as [|a A IHA]; simpl.
  - induction B as [|b B IHB]; simpl; [destruct C; reflexivity|]. f_equal. exact IHB.
  - exact IHA.
Qed.

Lemma firstn_skipn_mid' : forall (A B C : list Z) (i j : nat),
  i = length A -> j = length B -> firstn j (skipn i (A ++ B ++ C)) = B.
Proof. intros A B C i j Hi Hj. subst i j. apply firstn_skipn_mid. Qed.

(* s[i:j], both negative and inside the string *)
Lemma py_slice_mid : forall (A B C : list Z) (i j : Z),
  i < 0 -> j < 0 -> i = - (len B + len C) -> j = - len C ->
  py_slice (Some i) (Some j) (A ++ B ++ C) = B.
Proof.
  intros A B C i j Hi Hj Hi' Hj'.
  unfold py_slice, py_norm.
  destruct (Z.ltb_spec i 0) as [_|Hc]; [|lia].
  destruct (Z.ltb_spec j 0) as [_|Hc]; [|lia].
  rewrite !len_app.
  pose proof (len_nonneg A) as HA. pose proof (len_nonneg B) as HB. pose proof (len_nonneg C) as HC.
  apply firstn_skipn_mid'; unfold len in *; lia.
Qed.

(* s[:j], j negative and inside the string *)
Lemma py_slice_prefix : forall (A C : list Z) (j : Z),
  j < 0 -> j = - len C -> py_slice None (Some j) (A ++ C) = A.
Proof.
  intros A C j Hj Hj'.
  unfold py_slice, py_norm.
  destruct (Z.ltb_spec j 0) as [_|Hc]; [|lia].
  rewrite len_app.
  pose proof (len_nonneg A) as HA. pose proof (len_nonneg C) as HC.
  replace (A ++ C) with ([] ++ A ++ C) by reflexivity.
  apply firstn_skipn_mid'; unfold len in *; simpl; lia.
Qed.

(* s[i:], i negative and inside the string *)
Lemma py_slice_suffix : forall (A C : list Z) (i : Z),
  i < 0 -> i = - len C -> py_slice (Some i) None (A ++ C) = C.
Proof.
  intros A C i Hi Hi'.
  unfold py_slice, py_norm.
  destruct (Z.ltb_spec i 0) as [_|Hc]; [|lia].
  rewrite len_app.
  pose proof (len_nonneg A) as HA. pose proof (len_nonneg C) as HC.
  replace (A ++ C) with (A ++ C ++ []) by (rewrite app_nil_r; reflexivity).
  apply firstn_skipn_mid'; unfold len in *; lia.
Qed.

(* a message shorter than the number of bytes cut off at the end: s[:-k] is empty *)
Lemma py_slice_prefix_short : forall (s : list Z) (k : Z),
  0 < k -> len s <= k -> py_slice None (Some (- k)) s = [].
Proof.
  intros s k Hk Hs. unfold py_slice, py_norm.
  destruct (Z.ltb_spec (- k) 0) as [_|Hc]; [|lia].
  replace (Z.to_nat (Z.max (- k + len s) 0 - 0)) with 0%nat by lia.
  reflexivity.
Qed.

Section Layout.
  Variable cfg : config.
  Let n := c_nonce_len cfg.
  Let m := c_mac_len cfg.

  (* decrypt's three slices recover exactly ct, nonce and tag, for ALL lengths of ct, nonce, tag *)
  Lemma slice_layout : forall ct nonce tag mk,
    len nonce = n -> len tag = m -> len mk = LEN_END ->
    slice_ct cfg (ct ++ nonce ++ tag ++ mk) = ct /\
    slice_nonce cfg (ct ++ nonce ++ tag ++ mk) = nonce /\
    slice_tag cfg (ct ++ nonce ++ tag ++ mk) = tag /\
    slice_trailer (ct ++ nonce ++ tag ++ mk) = mk.
  Proof.
    intros ct nonce tag mk Hn Hm Hk. unfold n, m in *. unfold LEN_END in *.
    pose proof (len_nonneg nonce) as H1. pose proof (len_nonneg tag) as H2.
    unfold slice_ct, slice_nonce, slice_tag, slice_trailer, LEN_END.
    repeat split.
    - apply py_slice_prefix; [lia|]. rewrite !len_app. lia.
    - replace (nonce ++ tag ++ mk) with (nonce ++ (tag ++ mk)) by reflexivity.
      apply py_slice_mid; try lia; rewrite ?len_app; lia.
    - replace (ct ++ nonce ++ tag ++ mk) with ((ct ++ nonce) ++ tag ++ mk)
        by (rewrite <- app_assoc; reflexivity).
      apply py_slice_mid; try lia; rewrite ?len_app; lia.
    - replace (ct ++ nonce ++ tag ++ mk) with ((ct ++ nonce ++ tag) ++ mk)
        by (rewrite <- !app_assoc; reflexivity).
      apply py_slice_suffix; lia.
  Qed.

  (* every message at least nonce+tag+marker long is the concatenation of its four slices *)
  Lemma slices_partition : forall msg,
    0 <= n -> 0 <= m -> n + m + LEN_END <= len msg ->
    msg = slice_ct cfg msg ++ slice_nonce cfg msg ++ slice_tag cfg msg ++ slice_trailer msg /\
    len (slice_nonce cfg msg) = n /\ len (slice_tag cfg msg) = m /\ len (slice_trailer msg) = LEN_END.
  Proof.
    intros msg Hn Hm Hlen. unfold n, m in *. unfold LEN_END in *.
    set (a := Z.to_nat (len msg - (c_nonce_len cfg + c_mac_len cfg + 4))).
    set (ct := firstn a msg). set (r1 := skipn a msg).
    set (nonce := firstn (Z.to_nat (c_nonce_len cfg)) r1).
    set (r2 := skipn (Z.to_nat (c_nonce_len cfg)) r1).
    set (tag := firstn (Z.to_nat (c_mac_len cfg)) r2).
    set (mk := skipn (Z.to_nat (c_mac_len cfg)) r2).
    assert (E : msg = ct ++ nonce ++ tag ++ mk).
    { unfold ct, nonce, tag, mk, r2, r1. rewrite !firstn_skipn. reflexivity. }
    assert (L0 : length msg = (a + Z.to_nat (c_nonce_len cfg) + Z.to_nat (c_mac_len cfg) + 4)%nat).
    { unfold a, len in *. lia. }
    assert (Lct : length ct = a). { unfold ct. rewrite firstn_length. lia. }
    assert (Lr1 : length r1 = (length msg - a)%nat). { unfold r1. apply skipn_length. }
    assert (Ln : length nonce = Z.to_nat (c_nonce_len cfg)). { unfold nonce. rewrite firstn_length. lia. }
    assert (Lr2 : length r2 = (length r1 - Z.to_nat (c_nonce_len cfg))%nat). { unfold r2. apply skipn_length. }
    assert (Lt : length tag = Z.to_nat (c_mac_len cfg)). { unfold tag. rewrite firstn_length. lia. }
    assert (Lm : length mk = 4%nat). { unfold mk. rewrite skipn_length. lia. }
    assert (Hn' : len nonce = c_nonce_len cfg) by (unfold len; lia).
    assert (Hm' : len tag = c_mac_len cfg) by (unfold len; lia).
    assert (Hk' : len mk = LEN_END) by (unfold len, LEN_END; lia).
    destruct (slice_layout ct nonce tag mk Hn' Hm' Hk') as (S1 & S2 & S3 & S4).
    rewrite <- E in S1, S2, S3, S4. rewrite S1, S2, S3, S4.
    repeat split; assumption.
  Qed.

  (* hence: two messages that agree on (ct, nonce, tag) as decrypt slices them, and on the trailer,
     are the same message; a change outside the trailer changes what GCM is given to verify *)
  Lemma slices_injective : forall msg msg',
    0 <= n -> 0 <= m -> n + m + LEN_END <= len msg -> n + m + LEN_END <= len msg' ->
    slice_ct cfg msg = slice_ct cfg msg' -> slice_nonce cfg msg = slice_nonce cfg msg' ->
    slice_tag cfg msg = slice_tag cfg msg' -> slice_trailer msg = slice_trailer msg' ->
    msg = msg'.
  Proof.
    intros msg msg' Hn Hm H1 H2 E1 E2 E3 E4.
    destruct (slices_partition msg Hn Hm H1) as (P & _).
    destruct (slices_partition msg' Hn Hm H2) as (P' & _).
    rewrite P, P', E1, E2, E3, E4. reflexivity.
  Qed.
End Layout.

(* ------------------------------------------------------------------ padding and rstrip *)
Definition ends_nul (s : list Z) : Prop := exists p, s = p ++ [0].

Lemma rstrip0_zeros : forall k, rstrip0 (repeat 0 k) = [].
Proof. induction k as [|k IH]; simpl; [reflexivity|]. rewrite IH. reflexivity. Qed.

Lemma rstrip0_app_zeros : forall s k, rstrip0 (s ++ repeat 0 k) = rstrip0 s.
Proof.
  induction s as [|x t IH]; intros k; simpl.
  - apply rstrip0_zeros.
  - rewrite IH. reflexivity.
Qed.

Lemma rstrip0_pad : forall s, rstrip0 (pad_chars s) = rstrip0 s.
Proof.
  intros s. unfold pad_chars, PAD_CHAR.
  destruct (len s mod PAD_MODULO =? 0); [reflexivity|]. apply rstrip0_app_zeros.
Qed.

(* rstrip0 removes exactly the trailing NULs *)
Lemma rstrip0_spec : forall s,
  (exists k, s = rstrip0 s ++ repeat 0 k) /\ ~ ends_nul (rstrip0 s).
Proof.
  induction s as [|x t (( k & Hk ) & Hne)].
  - split; [exists 0%nat; reflexivity|]. intros (p & Hp). destruct p; discriminate.
  - simpl. unfold PAD_CHAR. destruct (Z.eqb_spec x 0) as [Hx|Hx]; simpl.
    + destruct (rstrip0 t) as [|y r] eqn:Er; simpl.
      * split.
        -- exists (S k). subst x. simpl. f_equal. exact Hk.
        -- intros (p & Hp). destruct p; discriminate.
      * split.
        -- exists k. simpl. f_equal. exact Hk.
        -- intros (p & Hp). destruct p as [|z p]; simpl in Hp.
           ++ discriminate.
           ++ injection Hp as _ Hp. apply Hne. exists p. exact Hp.
    + split.
      * exists k. simpl. f_equal. exact Hk.
      * intros (p & Hp). destruct p as [|z p]; simpl in Hp.
        -- injection Hp as Hp _. contradiction.
        -- injection Hp as _ Hp. apply Hne. exists p. exact Hp.
Qed.

Lemma rstrip0_id : forall s, ~ ends_nul s -> rstrip0 s = s.
Proof.
  intros s Hs. destruct (rstrip0_spec s) as ((k & Hk) & _).
  destruct k as [|k].
  - simpl in Hk. rewrite app_nil_r in Hk. symmetry. exact Hk.
  - exfalso. apply Hs. exists (rstrip0 s ++ repeat 0 k).
    rewrite Hk at 1. rewrite <- app_assoc. f_equal.
    change [0] with (repeat 0 1). rewrite <- repeat_app. f_equal. lia.
Qed.

Lemma rstrip0_id_iff : forall s, rstrip0 s = s <-> ~ ends_nul s.
Proof.
  intros s. split.
  - intros H. rewrite <- H. apply rstrip0_spec.
  - apply rstrip0_id.
Qed.

Lemma pad_mod : forall s, len (pad_chars s) mod PAD_MODULO = 0.
Proof.
  intros s. unfold pad_chars.
  destruct (Z.eqb_spec (len s mod PAD_MODULO) 0) as [H|H]; [exact H|].
  rewrite len_app, len_repeat. unfold PAD_MODULO in *.
  pose proof (Z.mod_pos_bound (len s) 16 ltac:(lia)) as Hb.
  rewrite Z2Nat.id by lia.
  pose proof (Z.div_mod (len s) 16 ltac:(lia)) as Hd.
  replace (len s + (16 - len s mod 16)) with ((len s / 16 + 1) * 16) by lia.
  apply Z.mod_mul. lia.
Qed.

Lemma pad_len_ge : forall s, len s <= len (pad_chars s).
Proof.
  intros s. unfold pad_chars. destruct (len s mod PAD_MODULO =? 0); [lia|].
  rewrite len_app. pose proof (len_nonneg (repeat PAD_CHAR (Z.to_nat (PAD_MODULO - len s mod PAD_MODULO)))). lia.
Qed.

Lemma pad_nonempty_ge16 : forall s, s <> [] -> PAD_MODULO <= len (pad_chars s).
Proof.
  intros s Hs.
  pose proof (pad_mod s) as Hm. pose proof (pad_len_ge s) as Hg.
  assert (0 < len s).
  { pose proof (len_nonneg s). destruct (Z.eq_dec (len s) 0) as [E|E]; [|lia].
    apply len_nil_iff in E. contradiction. }
  unfold PAD_MODULO in *.
  pose proof (Z.div_mod (len (pad_chars s)) 16 ltac:(lia)) as Hd. lia.
Qed.

Lemma pad_nil : pad_chars [] = [].
Proof. reflexivity. Qed.

Definition valid_str (s : list Z) : Prop := Forall (fun c => is_scalar c = true) s.

Lemma valid_pad : forall s, valid_str s -> valid_str (pad_chars s).
Proof.
  intros s Hs. unfold pad_chars. destruct (len s mod PAD_MODULO =? 0); [exact Hs|].
  apply Forall_app. split; [exact Hs|].
  apply Forall_forall. intros x Hx. apply repeat_spec in Hx. subst x. reflexivity.
Qed.

(* ------------------------------------------------------------------ the properties, for every codec and
   cipher that satisfy the stated laws *)
Section Laws.
  Variable utf8 : list Z -> list Z.
  Variable utf8_dec : list Z -> option (list Z).
  Variable gcm_enc : list Z -> list Z -> Z -> list Z -> list Z * list Z.
  Variable gcm_dec : list Z -> list Z -> Z -> list Z -> list Z -> option (list Z).

  Definition utf8_laws : Prop :=
    utf8 [] = [] /\
    (forall s, valid_str s -> len s <= len (utf8 s)) /\
    (forall s, valid_str s -> utf8_dec (utf8 s) = Some s).

  (* |ct| = |pt|, |tag| = mac_len, and decrypt_and_verify inverts encrypt_and_digest for equal key, nonce
     and tag length *)
  Definition gcm_laws : Prop :=
    forall k nn ml pt, gcm_valid k nn ml = true ->
      len (fst (gcm_enc k nn ml pt)) = len pt /\
      len (snd (gcm_enc k nn ml pt)) = ml /\
      gcm_dec k nn ml (fst (gcm_enc k nn ml pt)) (snd (gcm_enc k nn ml pt)) = Some pt.

  (* verify compares the received tag with the mac_len-byte tag it computes: another length never matches *)
  Definition gcm_tag_length_checked : Prop :=
    forall k nn ml ct tag, gcm_valid k nn ml = true -> len tag <> ml -> gcm_dec k nn ml ct tag = None.

  Notation enc := (encrypt utf8 gcm_enc).
  Notation dec := (decrypt utf8 utf8_dec gcm_dec).
  Notation dec_unfixed := (decrypt_unfixed utf8 utf8_dec gcm_dec).

  Lemma encrypt_shape : forall cfg d s out,
    enc cfg d s = Some out ->
    gcm_valid (utf8 (c_key cfg)) d (c_mac_len cfg) = true /\
    out = fst (gcm_enc (utf8 (c_key cfg)) d (c_mac_len cfg) (utf8 (pad_chars s))) ++ d ++
          snd (gcm_enc (utf8 (c_key cfg)) d (c_mac_len cfg) (utf8 (pad_chars s))) ++ MARKER.
  Proof.
    intros cfg d s out H. unfold encrypt in H.
    destruct (gcm_valid (utf8 (c_key cfg)) d (c_mac_len cfg)); [|discriminate].
    destruct (gcm_enc (utf8 (c_key cfg)) d (c_mac_len cfg) (utf8 (pad_chars s))) as [ct tag].
    injection H as H. split; [reflexivity|]. symmetry. exact H.
  Qed.

  Lemma encrypt_defined : forall cfg d s,
    gcm_valid (utf8 (c_key cfg)) d (c_mac_len cfg) = true -> exists out, enc cfg d s = Some out.
  Proof.
    intros cfg d s H. unfold encrypt. rewrite H.
    destruct (gcm_enc (utf8 (c_key cfg)) d (c_mac_len cfg) (utf8 (pad_chars s))) as [ct tag].
    eexists. reflexivity.
  Qed.

  (* an encrypt call fails (ValueError) exactly when AES.new rejects its arguments *)
  Lemma encrypt_none_iff : forall cfg d s,
    enc cfg d s = None <-> gcm_valid (utf8 (c_key cfg)) d (c_mac_len cfg) = false.
  Proof.
    intros cfg d s. split.
    - intros H. destruct (gcm_valid (utf8 (c_key cfg)) d (c_mac_len cfg)) eqn:E; [|reflexivity].
      destruct (encrypt_defined cfg d s E) as (out & Ho). congruence.
    - intros H. unfold encrypt. rewrite H. reflexivity.
  Qed.

  Section WithGcm.
    Hypothesis GCM : gcm_laws.

    Lemma encrypt_slices : forall cfg d s out,
      len d = c_nonce_len cfg -> enc cfg d s = Some out ->
      let e := gcm_enc (utf8 (c_key cfg)) d (c_mac_len cfg) (utf8 (pad_chars s)) in
      slice_ct cfg out = fst e /\ slice_nonce cfg out = d /\ slice_tag cfg out = snd e /\
      slice_trailer out = MARKER.
    Proof.
      intros cfg d s out Hd He. destruct (encrypt_shape _ _ _ _ He) as (Hv & Ho).
      destruct (GCM _ _ _ (utf8 (pad_chars s)) Hv) as (_ & Ht & _).
      simpl. subst out. apply slice_layout; [exact Hd|exact Ht|reflexivity].
    Qed.

    (* nonce_is_fresh_draw, single call *)
    Lemma nonce_is_draw : forall cfg d s out,
      len d = c_nonce_len cfg -> enc cfg d s = Some out -> slice_nonce cfg out = d.
    Proof. intros cfg d s out Hd He. apply (encrypt_slices cfg d s out Hd He). Qed.

    Lemma distinct_draws_distinct_outputs : forall cfg d1 d2 s1 s2 o1 o2,
      len d1 = c_nonce_len cfg -> len d2 = c_nonce_len cfg -> d1 <> d2 ->
      enc cfg d1 s1 = Some o1 -> enc cfg d2 s2 = Some o2 -> o1 <> o2.
    Proof.
      intros cfg d1 d2 s1 s2 o1 o2 H1 H2 Hne E1 E2 Heq. apply Hne.
      rewrite <- (nonce_is_draw cfg d1 s1 o1 H1 E1), <- (nonce_is_draw cfg d2 s2 o2 H2 E2), Heq.
      reflexivity.
    Qed.

    (* a sequence of calls: the nonce fields are the draws, in order *)
    Lemma encrypt_all_nonces : forall cfg calls,
      (forall c, In c calls -> len (fst c) = c_nonce_len cfg /\
                               gcm_valid (utf8 (c_key cfg)) (fst c) (c_mac_len cfg) = true) ->
      map (nonce_of cfg) (encrypt_all utf8 gcm_enc cfg calls) = map fst calls.
    Proof.
      intros cfg calls. induction calls as [|c cs IH]; intros H; simpl; [reflexivity|].
      f_equal.
      - destruct (H c (or_introl eq_refl)) as (Hl & Hv).
        destruct (encrypt_defined cfg (fst c) (snd c) Hv) as (out & Ho). rewrite Ho. simpl.
        apply (nonce_is_draw cfg (fst c) (snd c) out Hl Ho).
      - apply IH. intros c' Hc'. apply H. right. exact Hc'.
    Qed.

    Lemma encrypt_all_nodup : forall cfg calls,
      (forall c, In c calls -> len (fst c) = c_nonce_len cfg /\
                               gcm_valid (utf8 (c_key cfg)) (fst c) (c_mac_len cfg) = true) ->
      NoDup (map fst calls) -> NoDup (encrypt_all utf8 gcm_enc cfg calls).
    Proof.
      intros cfg calls H Hnd. apply (NoDup_map_inv (nonce_of cfg)).
      rewrite (encrypt_all_nonces cfg calls H). exact Hnd.
    Qed.

    (* length of an encrypt result *)
    Lemma encrypt_len : forall cfg d s out,
      len d = c_nonce_len cfg -> enc cfg d s = Some out ->
      len out = len (utf8 (pad_chars s)) + c_nonce_len cfg + c_mac_len cfg + LEN_END /\
      exists pre, out = pre ++ MARKER.
    Proof.
      intros cfg d s out Hd He. destruct (encrypt_shape _ _ _ _ He) as (Hv & Ho).
      destruct (GCM _ _ _ (utf8 (pad_chars s)) Hv) as (Hc & Ht & _).
      split.
      - subst out. rewrite !len_app, Hc, Ht, Hd, len_marker. lia.
      - exists (fst (gcm_enc (utf8 (c_key cfg)) d (c_mac_len cfg) (utf8 (pad_chars s))) ++ d ++
                snd (gcm_enc (utf8 (c_key cfg)) d (c_mac_len cfg) (utf8 (pad_chars s)))).
        rewrite <- !app_assoc. exact Ho.
    Qed.

    Section WithUtf8.
      Hypothesis UTF8 : utf8_laws.

      Lemma min_length_and_marker : forall cfg d s out,
        valid_str s -> s <> [] -> len d = c_nonce_len cfg -> enc cfg d s = Some out ->
        min_length cfg <= len out /\ (exists pre, out = pre ++ MARKER) /\ slice_trailer out = MARKER.
      Proof.
        intros cfg d s out Hs Hne Hd He. destruct UTF8 as (_ & Uge & _).
        destruct (encrypt_len cfg d s out Hd He) as (Hl & Hm).
        split; [|split; [exact Hm|apply (encrypt_slices cfg d s out Hd He)]].
        rewrite Hl. unfold min_length.
        pose proof (pad_nonempty_ge16 s Hne) as H16.
        pose proof (Uge (pad_chars s) (valid_pad s Hs)) as Hu. lia.
      Qed.

      (* the real code on the empty message: no padding, so the result is 16 bytes SHORTER than min_length *)
      Lemma empty_plaintext_len : forall cfg d out,
        len d = c_nonce_len cfg -> enc cfg d [] = Some out -> len out = min_length cfg - PAD_MODULO.
      Proof.
        intros cfg d out Hd He. destruct UTF8 as (Un & _ & _).
        destruct (encrypt_len cfg d [] out Hd He) as (Hl & _).
        rewrite Hl, pad_nil, Un. unfold min_length. change (len []) with 0. lia.
      Qed.

      (* decrypt (encrypt s) = s without its trailing NULs *)
      Lemma roundtrip_general : forall cfg d s out,
        valid_str s -> len d = c_nonce_len cfg -> enc cfg d s = Some out ->
        dec cfg out = Some (rstrip0 s).
      Proof.
        intros cfg d s out Hs Hd He. destruct UTF8 as (_ & _ & Ude).
        destruct (encrypt_shape _ _ _ _ He) as (Hv & _).
        destruct (encrypt_slices cfg d s out Hd He) as (S1 & S2 & S3 & _).
        destruct (GCM _ _ _ (utf8 (pad_chars s)) Hv) as (_ & _ & Hrt).
        unfold decrypt, decrypt_with. rewrite S1, S2, S3, Hv, Hrt.
        rewrite (Ude (pad_chars s) (valid_pad s Hs)). rewrite rstrip0_pad. reflexivity.
      Qed.

      Lemma roundtrip : forall cfg d s out,
        valid_str s -> ~ ends_nul s -> len d = c_nonce_len cfg -> enc cfg d s = Some out ->
        dec cfg out = Some s.
      Proof.
        intros cfg d s out Hs Hnn Hd He.
        rewrite (roundtrip_general cfg d s out Hs Hd He), (rstrip0_id s Hnn). reflexivity.
      Qed.

      (* D14, exactly: the round trip holds iff the plaintext does not end in U+0000 *)
      Lemma roundtrip_iff : forall cfg d s out,
        valid_str s -> len d = c_nonce_len cfg -> enc cfg d s = Some out ->
        (dec cfg out = Some s <-> ~ ends_nul s).
      Proof.
        intros cfg d s out Hs Hd He. rewrite (roundtrip_general cfg d s out Hs Hd He).
        rewrite <- rstrip0_id_iff. split; [intros H; injection H as H; exact H|intros H; rewrite H; reflexivity].
      Qed.

      Lemma trailing_nul_refuted : forall cfg d,
        len d = c_nonce_len cfg -> gcm_valid (utf8 (c_key cfg)) d (c_mac_len cfg) = true ->
        exists s out, valid_str s /\ enc cfg d s = Some out /\ dec cfg out = Some [97] /\ s = [97; 0].
      Proof.
        intros cfg d Hd Hv. destruct (encrypt_defined cfg d [97; 0] Hv) as (out & Ho).
        assert (Hs : valid_str [97; 0]) by (repeat constructor).
        exists [97; 0], out. repeat split; try assumption.
        rewrite (roundtrip_general cfg d [97; 0] out Hs Hd Ho). reflexivity.
      Qed.

      (* D13: the pinned-commit decrypt (tag length 16 whatever was configured) rejects every message of
         a configuration with mac_length <> 16 *)
      Lemma mac_len_refuted : gcm_tag_length_checked ->
        forall cfg d s out,
        c_mac_len cfg <> 16 -> len d = c_nonce_len cfg -> enc cfg d s = Some out ->
        dec_unfixed cfg out = None.
      Proof.
        intros TL cfg d s out Hm Hd He.
        destruct (encrypt_shape _ _ _ _ He) as (Hv & _).
        destruct (encrypt_slices cfg d s out Hd He) as (S1 & S2 & S3 & _).
        destruct (GCM _ _ _ (utf8 (pad_chars s)) Hv) as (_ & Ht & _).
        unfold decrypt_unfixed, decrypt_with. rewrite S1, S2, S3.
        destruct (gcm_valid (utf8 (c_key cfg)) d 16) eqn:Hv16; [|reflexivity].
        rewrite TL; [reflexivity|exact Hv16|]. rewrite Ht. exact Hm.
      Qed.

      (* ... while with mac_length = 16 the pinned-commit decrypt is the same function *)
      Lemma unfixed_same_at_16 : forall cfg msg,
        c_mac_len cfg = 16 -> dec_unfixed cfg msg = dec cfg msg.
      Proof. intros cfg msg H. unfold decrypt_unfixed, decrypt. rewrite H. reflexivity. Qed.
    End WithUtf8.
  End WithGcm.

  (* decrypt returns a text only for a triple that the cipher verified; together with slices_injective:
     any change to the ciphertext, nonce or tag bytes of a message changes the triple handed to GCM,
     and is accepted only if GCM's verification accepts the changed triple *)
  Lemma decrypt_only_verified : forall cfg msg s,
    dec cfg msg = Some s ->
    exists pt, gcm_dec (utf8 (c_key cfg)) (slice_nonce cfg msg) (c_mac_len cfg)
                       (slice_ct cfg msg) (slice_tag cfg msg) = Some pt.
  Proof.
    intros cfg msg s H. unfold decrypt, decrypt_with in H.
    destruct (gcm_valid (utf8 (c_key cfg)) (slice_nonce cfg msg) (c_mac_len cfg)); [|discriminate].
    destruct (gcm_dec (utf8 (c_key cfg)) (slice_nonce cfg msg) (c_mac_len cfg)
                      (slice_ct cfg msg) (slice_tag cfg msg)) as [pt|]; [|discriminate].
    exists pt. reflexivity.
  Qed.

  Lemma tamper_reaches_gcm : forall cfg msg msg',
    0 <= c_nonce_len cfg -> 0 <= c_mac_len cfg ->
    c_nonce_len cfg + c_mac_len cfg + LEN_END <= len msg -> len msg' = len msg ->
    msg' <> msg -> slice_trailer msg' = slice_trailer msg ->
    (slice_ct cfg msg', slice_nonce cfg msg', slice_tag cfg msg') <>
    (slice_ct cfg msg, slice_nonce cfg msg, slice_tag cfg msg).
  Proof.
    intros cfg msg msg' Hn Hm Hl Hl' Hne Htr Heq. apply Hne.
    injection Heq as E1 E2 E3.
    apply (slices_injective cfg); try assumption. rewrite Hl'. exact Hl.
  Qed.
End Laws.

(* ------------------------------------------------------------------ the laws are satisfiable: the toy cipher
   and the concrete UTF-8 encoder satisfy them (so the theorems above are not vacuous) *)
Lemma toy_xor_len : forall l seed i, len (toy_xor seed i l) = len l.
Proof.
  induction l as [|x t IH]; intros seed i; [reflexivity|].
  unfold len in *. simpl. specialize (IH seed (i + 1)). lia.
Qed.

Lemma toy_xor_invol : forall l seed i, toy_xor seed i (toy_xor seed i l) = l.
Proof.
  induction l as [|x t IH]; intros seed i; simpl; [reflexivity|].
  rewrite IH. f_equal. rewrite Z.lxor_assoc, Z.lxor_nilpotent, Z.lxor_0_r. reflexivity.
Qed.

Lemma zlist_eqb_refl : forall l, zlist_eqb l l = true.
Proof. induction l as [|x t IH]; simpl; [reflexivity|]. rewrite Z.eqb_refl, IH. reflexivity. Qed.

Lemma zlist_eqb_eq : forall a b, zlist_eqb a b = true -> a = b.
Proof.
  induction a as [|x a IH]; intros [|y b] H; simpl in H; try discriminate; [reflexivity|].
  apply andb_prop in H. destruct H as (H1 & H2). apply Z.eqb_eq in H1. f_equal; [exact H1|apply IH; exact H2].
Qed.

Lemma toy_tag_len : forall k nn ml ct, 0 <= ml -> len (toy_tag k nn ml ct) = ml.
Proof. intros k nn ml ct H. unfold toy_tag, len. rewrite map_length, seq_length. lia. Qed.

Lemma toy_gcm_laws : gcm_laws toy_enc toy_dec.
Proof.
  intros k nn ml pt Hv. unfold toy_enc, toy_dec. simpl.
  assert (0 <= ml).
  { unfold gcm_valid in Hv. apply andb_prop in Hv. destruct Hv as (Hv & _).
    apply andb_prop in Hv. destruct Hv as (_ & Hv). lia. }
  repeat split.
  - apply toy_xor_len.
  - apply toy_tag_len. assumption.
  - rewrite zlist_eqb_refl, toy_xor_invol. reflexivity.
Qed.

Lemma toy_tag_length_checked : gcm_tag_length_checked toy_dec.
Proof.
  intros k nn ml ct tag Hv Hl. unfold toy_dec.
  assert (0 <= ml).
  { unfold gcm_valid in Hv. apply andb_prop in Hv. destruct Hv as (Hv & _).
    apply andb_prop in Hv. destruct Hv as (_ & Hv). lia. }
  destruct (zlist_eqb tag (toy_tag k nn ml ct)) eqn:E; [|reflexivity].
  apply zlist_eqb_eq in E. exfalso. apply Hl. subst tag. apply toy_tag_len. assumption.
Qed.

(* ------------------------------------------------------------------ the concrete strict UTF-8 codec satisfies
   the codec laws *)
From Coq Require Import ZifyBool.

Lemma utf8c_dec_1 : forall b0 r, 0 <= b0 < 128 -> utf8c_dec (b0 :: r) = ocons b0 (utf8c_dec r).
Proof.
  intros b0 r H. cbn [utf8c_dec].
  replace ((0 <=? b0) && (b0 <? 128)) with true by lia. reflexivity.
Qed.

Lemma utf8c_dec_2 : forall b0 b1 r, 192 <= b0 < 224 -> 128 <= b1 < 192 ->
  128 <= (b0 - 192) * 64 + (b1 - 128) ->
  utf8c_dec (b0 :: b1 :: r) = ocons ((b0 - 192) * 64 + (b1 - 128)) (utf8c_dec r).
Proof.
  intros b0 b1 r H0 H1 Hc. cbn [utf8c_dec]. unfold is_cont.
  replace ((0 <=? b0) && (b0 <? 128)) with false by lia.
  replace ((192 <=? b0) && (b0 <? 224)) with true by lia.
  replace ((128 <=? b1) && (b1 <? 192) && (128 <=? (b0 - 192) * 64 + (b1 - 128))) with true by lia.
  reflexivity.
Qed.

Lemma utf8c_dec_3 : forall b0 b1 b2 r, 224 <= b0 < 240 -> 128 <= b1 < 192 -> 128 <= b2 < 192 ->
  2048 <= (b0 - 224) * 4096 + (b1 - 128) * 64 + (b2 - 128) ->
  is_scalar ((b0 - 224) * 4096 + (b1 - 128) * 64 + (b2 - 128)) = true ->
  utf8c_dec (b0 :: b1 :: b2 :: r) = ocons ((b0 - 224) * 4096 + (b1 - 128) * 64 + (b2 - 128)) (utf8c_dec r).
Proof.
  intros b0 b1 b2 r H0 H1 H2 Hc Hs. cbn [utf8c_dec]. unfold is_cont. rewrite Hs.
  replace ((0 <=? b0) && (b0 <? 128)) with false by lia.
  replace ((192 <=? b0) && (b0 <? 224)) with false by lia.
  replace ((224 <=? b0) && (b0 <? 240)) with true by lia.
  replace ((128 <=? b1) && (b1 <? 192)) with true by lia.
  replace ((128 <=? b2) && (b2 <? 192)) with true by lia.
  replace (2048 <=? (b0 - 224) * 4096 + (b1 - 128) * 64 + (b2 - 128)) with true by lia.
  reflexivity.
Qed.

Lemma utf8c_dec_4 : forall b0 b1 b2 b3 r, 240 <= b0 < 248 -> 128 <= b1 < 192 -> 128 <= b2 < 192 ->
  128 <= b3 < 192 ->
  65536 <= (b0 - 240) * 262144 + (b1 - 128) * 4096 + (b2 - 128) * 64 + (b3 - 128) <= 1114111 ->
  utf8c_dec (b0 :: b1 :: b2 :: b3 :: r) =
  ocons ((b0 - 240) * 262144 + (b1 - 128) * 4096 + (b2 - 128) * 64 + (b3 - 128)) (utf8c_dec r).
Proof.
  intros b0 b1 b2 b3 r H0 H1 H2 H3 Hc. cbn [utf8c_dec]. unfold is_cont.
  replace ((0 <=? b0) && (b0 <? 128)) with false by lia.
  replace ((192 <=? b0) && (b0 <? 224)) with false by lia.
  replace ((224 <=? b0) && (b0 <? 240)) with false by lia.
  replace ((240 <=? b0) && (b0 <? 248)) with true by lia.
  replace ((128 <=? b1) && (b1 <? 192)) with true by lia.
  replace ((128 <=? b2) && (b2 <? 192)) with true by lia.
  replace ((128 <=? b3) && (b3 <? 192)) with true by lia.
  set (c := (b0 - 240) * 262144 + (b1 - 128) * 4096 + (b2 - 128) * 64 + (b3 - 128)) in *.
  replace (65536 <=? c) with true by lia.
  replace (c <=? 1114111) with true by lia.
  reflexivity.
Qed.

Lemma utf8c_dec_cp : forall c r, is_scalar c = true -> utf8c_dec (utf8_cp c ++ r) = ocons c (utf8c_dec r).
Proof.
  intros c r Hs. unfold utf8_cp.
  assert (Hr : 0 <= c <= 1114111) by (unfold is_scalar in Hs; lia).
  destruct (Z.ltb_spec c 128) as [H1|H1].
  - apply utf8c_dec_1. lia.
  - destruct (Z.ltb_spec c 2048) as [H2|H2].
    + cbn [app].
      pose proof (Z.div_mod c 64 ltac:(lia)) as D. pose proof (Z.mod_pos_bound c 64 ltac:(lia)) as B.
      rewrite utf8c_dec_2 by lia. f_equal. lia.
    + destruct (Z.ltb_spec c 65536) as [H3|H3].
      * cbn [app].
        pose proof (Z.div_mod c 64 ltac:(lia)) as D. pose proof (Z.mod_pos_bound c 64 ltac:(lia)) as B.
        pose proof (Z.div_mod (c / 64) 64 ltac:(lia)) as D2.
        pose proof (Z.mod_pos_bound (c / 64) 64 ltac:(lia)) as B2.
        assert (E : c / 4096 = c / 64 / 64) by (rewrite Z.div_div by lia; reflexivity).
        assert (Ec : (224 + c / 4096 - 224) * 4096 + (128 + (c / 64) mod 64 - 128) * 64 + (128 + c mod 64 - 128) = c) by lia.
        rewrite utf8c_dec_3; try lia.
        -- f_equal. exact Ec.
        -- rewrite Ec. exact Hs.
      * cbn [app].
        pose proof (Z.div_mod c 64 ltac:(lia)) as D. pose proof (Z.mod_pos_bound c 64 ltac:(lia)) as B.
        pose proof (Z.div_mod (c / 64) 64 ltac:(lia)) as D2.
        pose proof (Z.mod_pos_bound (c / 64) 64 ltac:(lia)) as B2.
        pose proof (Z.div_mod (c / 4096) 64 ltac:(lia)) as D3.
        pose proof (Z.mod_pos_bound (c / 4096) 64 ltac:(lia)) as B3.
        assert (E : c / 4096 = c / 64 / 64) by (rewrite Z.div_div by lia; reflexivity).
        assert (E' : c / 262144 = c / 4096 / 64) by (rewrite Z.div_div by lia; reflexivity).
        assert (Ec : (240 + c / 262144 - 240) * 262144 + (128 + (c / 4096) mod 64 - 128) * 4096 +
                     (128 + (c / 64) mod 64 - 128) * 64 + (128 + c mod 64 - 128) = c) by lia.
        rewrite utf8c_dec_4; try lia.
        f_equal. exact Ec.
Qed.

Lemma utf8_cp_len : forall c, 1 <= len (utf8_cp c).
Proof.
  intros c. unfold utf8_cp.
  destruct (c <? 128); [|destruct (c <? 2048); [|destruct (c <? 65536)]]; unfold len; simpl; lia.
Qed.

Lemma utf8c_laws : utf8_laws utf8c utf8c_dec.
Proof.
  repeat split.
  - intros s _. induction s as [|c t IH]; [reflexivity|].
    change (utf8c (c :: t)) with (utf8_cp c ++ utf8c t). rewrite len_app.
    pose proof (utf8_cp_len c). unfold len in *. simpl length. lia.
  - intros s Hs. induction Hs as [|c t Hc Ht IH]; [reflexivity|].
    change (utf8c (c :: t)) with (utf8_cp c ++ utf8c t).
    rewrite (utf8c_dec_cp c (utf8c t) Hc), IH. reflexivity.
Qed.

(* ------------------------------------------------------------------ instance: everything holds outright for the
   executable model used by the correspondence (toy cipher, concrete UTF-8) *)
Lemma toy_roundtrip_general : forall cfg d s out,
  valid_str s -> len d = c_nonce_len cfg -> t_encrypt cfg d s = Some out ->
  t_decrypt cfg out = Some (rstrip0 s).
Proof. exact (roundtrip_general utf8c utf8c_dec toy_enc toy_dec toy_gcm_laws utf8c_laws). Qed.

Lemma toy_mac_len_refuted : forall cfg d s out,
  c_mac_len cfg <> 16 -> len d = c_nonce_len cfg -> t_encrypt cfg d s = Some out ->
  t_decrypt_unfixed cfg out = None.
Proof.
  exact (mac_len_refuted utf8c utf8c_dec toy_enc toy_dec toy_gcm_laws toy_tag_length_checked).
Qed.
