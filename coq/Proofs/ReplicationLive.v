(* C06, healing half (liveness): proofs about Model/Replication.v + Model/ReplicationLive.v.
   Part 1  bounded progress of the outgoing loop towards one peer once its link has healed (repaired order);
   Part 2  what the receiver holds afterwards (Model/Decider.v, the status lattice of C04). *)
From Bobo Require Import Base.Prelude Base.History Model.Pattern Model.Run Model.Decider Model.PredLang Model.Converge Model.ConvergeC.
From Bobo Require Import Proofs.RunProofs Proofs.DeciderLemmas Proofs.DeciderProofs Proofs.StepProofs Proofs.RemoteProofs
                         Proofs.ConvergeProofs Proofs.JoinProofs Proofs.LocalProofs.
(* Model/Outgoing.v and Model/Decider.v both define note, mkNote, mkCfg, run: the outgoing side is imported last,
   so the unqualified names are its; the decider's are written Decider.note, Decider.mkNote. *)
From Bobo Require Import Model.Outgoing Model.Replication Model.ReplicationLive.
From Bobo Require Import Proofs.OutgoingProofs Proofs.ReplicationProofs.

(* ------------------------------------------------------------------ small facts *)
Lemma firstn_snoc_in {A} (l : list A) x r y : In y (firstn r l) -> In y (firstn r (l ++ [x])).
Proof.
  revert r; induction l as [|h l IH]; intros [|r] H; simpl in *; try contradiction.
  destruct H as [H|H]; [left; exact H | right; apply IH; exact H].
Qed.

Lemma nth_error_firstn_lt {A} (l : list A) : forall k idx, (idx < k)%nat -> nth_error (firstn k l) idx = nth_error l idx.
Proof.
  induction l as [|x l IH]; intros [|k] [|idx] H; simpl; try reflexivity; try lia. apply IH. lia.
Qed.

Lemma incl_nil_eq {A} (l : list A) : incl l [] -> l = [].
Proof. destruct l as [|x l]; [reflexivity|]. intro H. exfalso. apply (H x). left. reflexivity. Qed.

Lemma vacuous_spec n : vacuous n <-> n_c n = [] /\ n_h n = [] /\ n_u n = [].
Proof.
  unfold vacuous, note_in. simpl. split.
  - intros (A & B & C). repeat split; apply incl_nil_eq; assumption.
  - intros (A & B & C). rewrite A, B, C. repeat split; apply incl_refl.
Qed.

Lemma length_zero_nil {A} (l : list A) : n2z (length l) = 0 -> l = [].
Proof. destruct l; [reflexivity|]. unfold n2z. simpl. lia. Qed.

Lemma size_stash_zero p : size_stash p = 0 -> stash_empty p.
Proof.
  unfold size_stash, stash_empty. intro H.
  assert (A : 0 <= n2z (length (st_c p))) by (unfold n2z; lia).
  assert (B : 0 <= n2z (length (st_h p))) by (unfold n2z; lia).
  assert (C : 0 <= n2z (length (st_u p))) by (unfold n2z; lia).
  repeat split; apply length_zero_nil; lia.
Qed.

Lemma stash_empty_note p n : stash_empty p -> note_in n (stash p) -> vacuous n.
Proof. intros (A & B & C). unfold vacuous, stash, note_in. simpl. rewrite A, B, C. auto. Qed.

Lemma stash_empty_clear p : stash_empty (clear_stash p).
Proof. repeat split. Qed.

Lemma length_set_nth' {A} (l : list A) k x : length (set_nth k x l) = length l.
Proof. revert k; induction l as [|y l IH]; intros [|k]; simpl; auto. Qed.

Lemma length_upd_peer k f ps : length (upd_peer k f ps) = length ps.
Proof. unfold upd_peer. destruct (nth_error ps k); [apply length_set_nth'|reflexivity]. Qed.

(* the per-peer decision, case by case (lcv, lav: the values read) *)
Lemma decide_cases c now qe lcv lav p :
  let d := decide c now qe (with_reads lcv lav p) in
  (reached (cv_pr c) (now - lcv) (p_resync c) = true /\
     ((reached (cv_ar c) (now - lav) (a_resync c) = true /\ d = Some RESYNC) \/
      (reached (cv_ar c) (now - lav) (a_resync c) = false /\ d = None))) \/
  (reached (cv_pr c) (now - lcv) (p_resync c) = false /\
     ((qe = false /\ d = Some SYNC) \/
      (qe = true /\ size_stash p = 0 /\ (d = Some PING \/ d = None)) \/
      (qe = true /\ 0 < size_stash p /\ reached (cv_as c) (now - lav) (a_stash c) = true /\ d = Some SYNC) \/
      (qe = true /\ 0 < size_stash p /\ reached (cv_as c) (now - lav) (a_stash c) = false /\ d = None))).
Proof.
  cbv zeta. unfold decide. simpl lc. simpl la.
  replace (size_stash (with_reads lcv lav p)) with (size_stash p) by reflexivity.
  pose proof (size_stash_nonneg p) as Hs.
  destruct (reached (cv_pr c) (now - lcv) (p_resync c)).
  - left. split; [reflexivity|]. destruct (reached (cv_ar c) (now - lav) (a_resync c)); auto.
  - right. split; [reflexivity|]. destruct qe; simpl.
    + destruct (Z.eqb_spec (size_stash p) 0) as [Hz|Hz].
      * right; left. split; [reflexivity|]. split; [exact Hz|].
        rewrite Hz. simpl. rewrite Bool.andb_true_r.
        destruct (reached (cv_pp c) (now - lcv) (p_ping c)); simpl.
        -- destruct (reached (cv_ap c) (now - lav) (a_ping c)); auto.
        -- auto.
      * rewrite Bool.andb_false_r. simpl.
        assert (Hp : 0 < size_stash p) by lia.
        destruct (Z.ltb_spec 0 (size_stash p)) as [_|Hn]; [|lia]. simpl.
        destruct (reached (cv_as c) (now - lav) (a_stash c)).
        -- right; right; left. auto.
        -- right; right; right. auto.
    + left. rewrite Bool.andb_false_r. simpl. auto.
Qed.

(* ------------------------------------------------------------------ where peer j stands in the iteration *)
Inductive jst :=
| JUndec                                            (* its decision has not begun *)
| JRead (lcv : Z)                                   (* last_comms read, last_attempt not yet *)
| JBound (m : mode)                                 (* in outlist with this message type *)
| JSend (m : mode) (pay : note) (seen : nat)        (* message built, not yet handed over *)
| JWr (t : Z)                                       (* delivered; last_comms about to be written *)
| JDone.                                            (* served, or nothing was chosen for it *)

Fixpoint ol_mode (j : nat) (ol : list (nat * mode)) : option mode :=
  match ol with
  | [] => None
  | (k, m) :: r => if Nat.eqb k j then Some m else ol_mode j r
  end.

Definition bound_of (j : nat) (ol : list (nat * mode)) : jst :=
  match ol_mode j ol with Some m => JBound m | None => JDone end.

Definition jstat_of (j : nat) (g : gstate) : jst :=
  match g_pc g with
  | PIdle => JDone
  | PRdLc k => if Nat.leb k j then JUndec else bound_of j (g_ol g)
  | PRdLa k lcv | PRdQe k lcv _ =>
      if Nat.ltb k j then JUndec else if Nat.eqb k j then JRead lcv else bound_of j (g_ol g)
  | PPrep => bound_of j (g_ol g)
  | PSend k m _ pay seen => if Nat.eqb k j then JSend m pay seen else bound_of j (g_ol g)
  | PWrLc k _ t => if Nat.eqb k j then JWr t else bound_of j (g_ol g)
  | PWrLa k _ => if Nat.eqb k j then JDone else bound_of j (g_ol g)
  end.

Lemma ol_mode_none j ol : ol_mode j ol = None <-> ~ In j (map fst ol).
Proof.
  induction ol as [|[k m] r IH]; simpl; [tauto|].
  destruct (Nat.eqb_spec k j) as [->|Hne].
  - split; [discriminate | intro H; exfalso; apply H; left; reflexivity].
  - rewrite IH. split; intro H; [intros [H'|H']; [congruence | tauto] | tauto].
Qed.

Lemma ol_mode_snoc j ol k m :
  ol_mode j (ol ++ [(k, m)]) =
  match ol_mode j ol with Some x => Some x | None => if Nat.eqb k j then Some m else None end.
Proof.
  induction ol as [|[k0 m0] r IH]; simpl; [reflexivity|].
  destruct (Nat.eqb k0 j); [reflexivity | exact IH].
Qed.

Section Live.
Variable c : tcfg.
Variable j : nat.

Notation jstat := (jstat_of j).
Notation bound_st := (bound_of j).

(* the note is waiting for a SYNC to j *)
Definition pend (g : gstate) (p : peer) (n : note) : Prop := note_in n (stash p) \/ g_cache g = Some n.
(* nothing is on its way: the note sits in the backlog, or only the RESYNC period vouches for it *)
Definition lazyX (g : gstate) (p : peer) (n : note) : Prop := note_in n (stash p) \/ in_resync_period c g p.

Definition base (r : nat) (g : gstate) (idx : nat) (n : note) : Prop :=
  delivered_to g j idx n \/ vacuous n \/ In n (firstn r (g_queue g)).

Definition Xcl (m0 : nat) (d : bool) (g : gstate) (p : peer) (n : note) (st : jst) : Prop :=
  match st with
  | JUndec => d = false /\ (pend g p n \/ in_resync_period c g p)
  | JRead lcv => d = false /\ (reached (cv_pr c) (g_now g - lcv) (p_resync c) = true \/ pend g p n)
  | JBound RESYNC => True
  | JBound SYNC => pend g p n
  | JBound PING => False
  | JSend RESYNC _ seen => (m0 <= seen)%nat
  | JSend SYNC pay _ => note_in n pay
  | JSend PING _ _ => False
  | JWr _ => False
  | JDone => d = false /\ lazyX g p n
  end.

Definition Scl (d : bool) (p : peer) (st : jst) : Prop :=
  match st with
  | JUndec | JDone | JWr _ => d = true -> stash_empty p
  | JRead lcv => (d = true -> stash_empty p) /\ lc p <= lcv
  | JBound PING | JSend RESYNC _ _ | JSend PING _ _ => stash_empty p
  | JBound _ => True
  | JSend SYNC _ _ => True
  end.

Definition LInv (m0 r : nat) (d : bool) (g : gstate) : Prop :=
  KInv c g /\ (m0 <= length (g_emitted g))%nat /\ (d = true -> r = 0%nat) /\ (j < length (g_peers g))%nat /\
  forall p, nth_error (g_peers g) j = Some p ->
    Scl d p (jstat g) /\
    forall idx n, (idx < m0)%nat -> nth_error (g_emitted g) idx = Some n ->
      base r g idx n \/ Xcl m0 d g p n (jstat g).

(* ---- the frame: a step that leaves j's standing, backlog and item alone *)
Lemma L_frame m0 r d g g' :
  KInv c g' ->
  jstat g' = jstat g -> g_cache g' = g_cache g -> g_now g' = g_now g ->
  (forall n, In n (firstn r (g_queue g)) -> In n (firstn r (g_queue g'))) ->
  (forall e, In e (g_log g) -> In e (g_log g')) ->
  g_clock g <= g_clock g' ->
  (forall idx n, (idx < m0)%nat -> nth_error (g_emitted g') idx = Some n -> nth_error (g_emitted g) idx = Some n) ->
  (length (g_emitted g) <= length (g_emitted g'))%nat ->
  length (g_peers g') = length (g_peers g) ->
  (forall p', nth_error (g_peers g') j = Some p' ->
     exists p, nth_error (g_peers g) j = Some p /\ st_c p' = st_c p /\ st_h p' = st_h p /\ st_u p' = st_u p /\
               lc p' <= lc p) ->
  LInv m0 r d g -> LInv m0 r d g'.
Proof.
  intros HK Hst Hca Hnow Hq Hlog Hclk Hem Hlen Hpl Hp (K & Hm0 & Hd & Hj & H).
  split; [exact HK|]. split; [lia|]. split; [exact Hd|]. split; [lia|].
  intros p' Hp'. destruct (Hp p' Hp') as (p & Hpj & Ec & Eh & Eu & Hlc).
  destruct (H p Hpj) as [HS HX].
  assert (Hstash : stash p' = stash p) by (unfold stash; rewrite Ec, Eh, Eu; reflexivity).
  assert (Hse : stash_empty p -> stash_empty p') by (unfold stash_empty; rewrite Ec, Eh, Eu; auto).
  assert (Hres : in_resync_period c g p -> in_resync_period c g' p').
  { unfold in_resync_period. intro R. eapply reached_mono; [|exact R]. lia. }
  assert (Hpend : forall n, pend g p n -> pend g' p' n).
  { intros n [A|A]; [left; rewrite Hstash; exact A | right; rewrite Hca; exact A]. }
  rewrite Hst. split.
  - destruct (jstat g) as [| lcv | [| |] | [| |] pay seen | t |]; simpl in *; auto.
    destruct HS as [A B]. split; [auto | lia].
  - intros idx n Hidx Hn. specialize (HX idx n Hidx (Hem idx n Hidx Hn)).
    destruct HX as [[B|[B|B]]|X].
    + left. left. eapply delivered_mono; eauto.
    + left. right. left. exact B.
    + left. right. right. apply Hq. exact B.
    + right. destruct (jstat g) as [| lcv | [| |] | [| |] pay seen | t |]; simpl in *; auto.
      * destruct X as [A [B|B]]; split; auto.
      * rewrite Hnow. destruct X as [A [B|B]]; split; auto.
      * destruct X as [A [B|B]]; split; auto; [left; rewrite Hstash; exact B | right; auto].
Qed.

(* ---- the other threads *)
Lemma L_enq m0 r d g n : LInv m0 r d g -> LInv m0 r d (mstep true c g (XEnq n)).
Proof.
  intro L. pose proof L as (K & Hm0 & _).
  eapply L_frame; [apply KInv_enq; exact K | | | | | | | | | | | exact L]; simpl; auto; try lia.
  - intros x Hx. apply firstn_snoc_in. exact Hx.
  - intros idx x Hidx Hx. rewrite nth_error_app1 in Hx by lia. exact Hx.
  - rewrite app_length. simpl. lia.
  - intros p' Hp'. exists p'. repeat split; auto; lia.
Qed.

Lemma L_addr m0 r d g from caddr : LInv m0 r d g -> LInv m0 r d (mstep true c g (XAddr from caddr)).
Proof.
  intro L. pose proof L as (K & _).
  eapply L_frame; [apply KInv_addr; exact K | | | | | | | | | | | exact L]; simpl; auto; try lia.
  - apply length_upd_peer.
  - intros p' Hp'. rewrite nth_error_upd_peer in Hp'. destruct (Nat.eqb_spec j from) as [->|Hne].
    + destruct (nth_error (g_peers g) from) as [q|] eqn:Eq; simpl in Hp'; [|discriminate].
      inversion Hp'. exists q. split; [reflexivity|]. destruct (caddr =? addr q); simpl; repeat split; auto; lia.
    + exists p'. repeat split; auto; lia.
Qed.

Lemma L_reset m0 r d g from : LInv m0 r d g -> LInv m0 r d (mstep true c g (XReset from)).
Proof.
  intro L. pose proof L as (K & _ & _ & _ & _).
  pose proof (KInv_reset true c g from K) as K'.
  simpl in *. destruct (nth_error (g_peers g) from) as [q|] eqn:Eq; [|exact L].
  eapply L_frame; [exact K' | | | | | | | | | | | exact L]; simpl; auto; try lia.
  - apply length_set_nth'.
  - intros p' Hp'. rewrite nth_error_set_nth in Hp'. destruct (Nat.eqb_spec j from) as [->|Hne].
    + rewrite Eq in Hp'. inversion Hp'. exists q. split; [exact Eq|]. simpl. repeat split; auto.
      destruct K as [S _]. destruct S as [Slc _ _ _ _ _ _ _]. eapply Slc; eauto.
    + exists p'. repeat split; auto; lia.
Qed.

(* ---- the outgoing thread, step by step *)
Lemma set_pc_frame m0 r d g pc' :
  KInv c (set_pc g pc') -> jstat (set_pc g pc') = jstat g -> LInv m0 r d g -> LInv m0 r d (set_pc g pc').
Proof.
  intros K' Hst L.
  eapply L_frame; [exact K' | exact Hst | | | | | | | | | | exact L]; simpl; auto; try lia.
  intros p' Hp'. exists p'. repeat split; auto; lia.
Qed.

Lemma jstat_next_ge g' k n : g_pc g' = next_dec n (S k) -> (j <= k)%nat -> jstat g' = bound_st (g_ol g').
Proof.
  intros Hpc Hle. unfold jstat_of, next_dec in *. destruct (S k <? n)%nat; rewrite Hpc; [|reflexivity].
  destruct (Nat.leb_spec (S k) j); [lia | reflexivity].
Qed.

Lemma jstat_next_lt g' k n : g_pc g' = next_dec n (S k) -> (k < j)%nat -> (j < n)%nat -> jstat g' = JUndec.
Proof.
  intros Hpc Hlt Hn. unfold jstat_of, next_dec in *. destruct (Nat.ltb_spec (S k) n); [|lia]. rewrite Hpc.
  destruct (Nat.leb_spec (S k) j); [reflexivity | lia].
Qed.

Lemma L_start m0 r d g t snap outc :
  LInv m0 r d g -> g_pc g = PIdle -> g_clock g <= t -> LInv m0 (Nat.pred r) d (ostep true c g t snap outc).
Proof.
  intros (K & Hm0 & Hd & Hj & H) Hpc Hclk.
  pose proof (KInv_start c g t snap outc K Hpc Hclk) as K'.
  assert (Hst : jstat g = JDone) by (unfold jstat_of; rewrite Hpc; reflexivity).
  unfold ostep in *. rewrite Hpc in *.
  assert (Hnd : next_dec (length (g_peers g)) 0 = PRdLc 0).
  { unfold next_dec. destruct (Nat.ltb_spec 0 (length (g_peers g))); [reflexivity | lia]. }
  destruct (g_queue g) as [|x q'] eqn:Eq.
  - split; [exact K'|]. split; [exact Hm0|]. split; [intro Hx; rewrite (Hd Hx); reflexivity|]. split; [exact Hj|].
    simpl. intros p Hp. destruct (H p Hp) as [HS HX]. rewrite Hst in HS, HX.
    unfold jstat_of. simpl. rewrite Hnd. simpl. split; [exact HS|].
    intros idx n Hidx Hn. destruct (HX idx n Hidx Hn) as [[B|[B|B]]|X].
    + left. left. exact B.
    + left. right. left. exact B.
    + exfalso. rewrite Eq in B. destruct r; exact B.
    + right. simpl in X. destruct X as [Hdf [X|X]]; split; auto.
      * left. left. exact X.
      * right. unfold in_resync_period in *. simpl. eapply reached_mono; [|exact X]. lia.
  - split; [exact K'|]. split; [exact Hm0|]. split; [intro Hx; rewrite (Hd Hx); reflexivity|]. split; [exact Hj|].
    simpl. intros p Hp. destruct (H p Hp) as [HS HX]. rewrite Hst in HS, HX.
    unfold jstat_of. simpl. rewrite Hnd. simpl. split; [exact HS|].
    intros idx n Hidx Hn. destruct (HX idx n Hidx Hn) as [[B|[B|B]]|X].
    + left. left. exact B.
    + left. right. left. exact B.
    + rewrite Eq in B. destruct r as [|r']; [contradiction|]. simpl in B. destruct B as [->|B].
      * right. split; [destruct d; [specialize (Hd eq_refl); discriminate | reflexivity]|].
        left. right. reflexivity.
      * left. right. right. exact B.
    + right. simpl in X. destruct X as [Hdf [X|X]]; split; auto.
      * left. left. exact X.
      * right. unfold in_resync_period in *. simpl. eapply reached_mono; [|exact X]. lia.
Qed.

Lemma L_rdlc m0 r d g k t snap outc :
  LInv m0 r d g -> g_pc g = PRdLc k -> LInv m0 r d (ostep true c g t snap outc).
Proof.
  intros L Hpc. pose proof L as (K & Hm0 & Hd & Hj & H).
  pose proof (KInv_rdlc c g k t snap outc K Hpc) as K'.
  unfold ostep in *. rewrite Hpc in *.
  destruct (nth_error (g_peers g) k) as [pk|] eqn:Ek.
  - destruct (Nat.eq_dec k j) as [->|Hne].
    + (* last_comms of j is read *)
      assert (Hst : jstat g = JUndec).
      { unfold jstat_of. rewrite Hpc. rewrite Nat.leb_refl. reflexivity. }
      assert (Hst' : jstat (set_pc g (PRdLa j (lc pk))) = JRead (lc pk)).
      { unfold jstat_of. simpl. rewrite Nat.ltb_irrefl, Nat.eqb_refl. reflexivity. }
      destruct K as [S _]. destruct S as [_ Sclk _ _ _ _ _ _].
      assert (Hck : g_clock g = g_now g) by (apply (Sclk j); rewrite Hpc; reflexivity).
      split; [exact K'|]. split; [exact Hm0|]. split; [exact Hd|]. split; [exact Hj|].
      simpl g_peers. intros p Hp. rewrite Hp in Ek. inversion Ek; subst pk.
      destruct (H p Hp) as [HS HX]. rewrite Hst in HS, HX. rewrite Hst'. split.
      * simpl. split; [exact HS | lia].
      * intros idx n Hidx Hn. destruct (HX idx n Hidx Hn) as [B|X]; [left; exact B|].
        right. simpl in X. destruct X as [Hdf [X|X]]; split; auto.
        left. unfold in_resync_period in X. rewrite Hck in X. exact X.
    + apply set_pc_frame; [exact K' | | exact L].
      unfold jstat_of. simpl. rewrite Hpc.
      destruct (Nat.leb_spec k j), (Nat.ltb_spec k j); try lia; try reflexivity.
      destruct (Nat.eqb_spec k j); [contradiction | reflexivity].
  - apply set_pc_frame; [exact K' | | exact L].
    unfold jstat_of. simpl. rewrite Hpc. apply nth_error_None in Ek.
    destruct (Nat.leb_spec k j); [lia | reflexivity].
Qed.

Lemma bound_st_snoc ol k m : k <> j -> bound_st (ol ++ [(k, m)]) = bound_st ol.
Proof.
  intro Hne. unfold bound_of. rewrite ol_mode_snoc. destruct (ol_mode j ol); [reflexivity|].
  destruct (Nat.eqb_spec k j); [contradiction | reflexivity].
Qed.

(* the decision for another peer *)
Lemma L_decided_other m0 r d g k lcv lav :
  LInv m0 r d g -> g_pc g = PRdLa k lcv -> k <> j -> KInv c (decided c g k lcv lav (g_qe g)) ->
  LInv m0 r d (decided c g k lcv lav (g_qe g)).
Proof.
  intros L Hpc Hne K'. pose proof L as (K & Hm0 & Hd & Hj & H).
  unfold decided in *. destruct (nth_error (g_peers g) k) as [pk|] eqn:Ek.
  - set (ol' := match decide c (g_now g) (g_qe g) (with_reads lcv lav pk) with
                | Some m => g_ol g ++ [(k, m)] | None => g_ol g end) in *.
    eapply L_frame; [exact K' | | | | | | | | | | | exact L]; simpl; auto; try lia.
    + destruct (Nat.lt_ge_cases k j) as [Hlt|Hge].
      * rewrite (jstat_next_lt _ k (length (g_peers g))); [|reflexivity|exact Hlt|exact Hj].
        unfold jstat_of. rewrite Hpc. destruct (Nat.ltb_spec k j); [reflexivity | lia].
      * rewrite (jstat_next_ge _ k (length (g_peers g))); [|reflexivity|lia]. simpl.
        unfold jstat_of. rewrite Hpc. destruct (Nat.ltb_spec k j); [lia|].
        destruct (Nat.eqb_spec k j); [contradiction|].
        unfold ol'. destruct (decide c (g_now g) (g_qe g) (with_reads lcv lav pk)); [|reflexivity].
        apply bound_st_snoc. exact Hne.
    + intros p' Hp'. exists p'. repeat split; auto; lia.
  - apply set_pc_frame; [exact K' | | exact L].
    unfold jstat_of. simpl. rewrite Hpc. apply nth_error_None in Ek.
    destruct (Nat.ltb_spec k j); [lia|]. destruct (Nat.eqb_spec k j); [contradiction | reflexivity].
Qed.

(* the decision for j: the only place where the retry intervals matter *)
Lemma L_decided_j m0 r d g lcv p :
  LInv m0 r d g -> g_pc g = PRdLa j lcv -> nth_error (g_peers g) j = Some p ->
  KInv c (decided c g j lcv (la p) (g_qe g)) ->
  LInv m0 r (if Nat.eqb r 0 && due_peer c (g_now g) lcv (g_qe g) p then true else d)
       (decided c g j lcv (la p) (g_qe g)).
Proof.
  intros L Hpc Hp K'. pose proof L as (K & Hm0 & Hd & Hj & H).
  destruct (H p Hp) as [HS HX].
  assert (Hst : jstat g = JRead lcv).
  { unfold jstat_of. rewrite Hpc, Nat.ltb_irrefl, Nat.eqb_refl. reflexivity. }
  rewrite Hst in HS, HX. simpl in HS. destruct HS as [HSe Hlc].
  destruct K as [S _]. destruct S as [_ Sclk Sqe _ Sdec _ _ _].
  assert (Hck : g_clock g = g_now g) by (apply (Sclk j); rewrite Hpc; reflexivity).
  assert (Hnone : ol_mode j (g_ol g) = None).
  { apply ol_mode_none. intro Hin. specialize (Sdec j j). rewrite Hpc in Sdec. specialize (Sdec eq_refl Hin). lia. }
  set (d' := if Nat.eqb r 0 && due_peer c (g_now g) lcv (g_qe g) p then true else d).
  assert (Hd' : d' = true -> r = 0%nat).
  { unfold d'. destruct (Nat.eqb_spec r 0); simpl; [auto|]. exact Hd. }
  unfold decided in *. rewrite Hp in *.
  set (dcs := decide c (g_now g) (g_qe g) (with_reads lcv (la p) p)) in *.
  set (ol' := match dcs with Some m => g_ol g ++ [(j, m)] | None => g_ol g end) in *.
  set (g' := mkG (g_peers g) (g_queue g) (next_dec (length (g_peers g)) (S j)) (g_now g) ol' (g_cache g) (g_qe g)
                 (g_clock g) (g_emitted g) (g_log g)) in *.
  assert (Hst' : jstat g' = match dcs with Some m => JBound m | None => JDone end).
  { rewrite (jstat_next_ge g' j (length (g_peers g))); [|reflexivity|lia]. simpl. unfold ol', bound_of.
    destruct dcs as [m|]; [|rewrite Hnone; reflexivity].
    rewrite ol_mode_snoc, Hnone, Nat.eqb_refl. reflexivity. }
  (* what the decision can be *)
  pose proof (decide_cases c (g_now g) (g_qe g) lcv (la p) p) as Hc. cbv zeta in Hc. fold dcs in Hc.
  assert (Hres : reached (cv_pr c) (g_now g - lcv) (p_resync c) = true -> in_resync_period c g' p).
  { intro R. unfold in_resync_period, g'. simpl. rewrite Hck. eapply reached_mono; [|exact R]. lia. }
  assert (Hcache : forall n, g_qe g = true -> g_cache g = Some n -> False).
  { intros n Hq Hcn. rewrite Sqe, Hcn in Hq. discriminate. }
  split; [exact K'|]. split; [exact Hm0|]. split; [exact Hd'|]. split; [exact Hj|].
  change (g_peers g') with (g_peers g). intros p0 Hp0. rewrite Hp in Hp0. inversion Hp0; subst p0. clear Hp0.
  rewrite Hst'.
  assert (Hbase : forall idx n, base r g idx n -> base r g' idx n) by (intros idx n B; exact B).
  destruct Hc as [[Hpr [[Har Hdc]|[Har Hdc]]] | [Hpr [[Hqe Hdc] | [[Hqe [Hsz Hdc]] | [[Hqe [Hsz [Has Hdc]]] | [Hqe [Hsz [Has Hdc]]]]]]]].
  - (* RESYNC period, due *)
    rewrite Hdc. split; [exact I|]. intros idx n Hidx Hn. destruct (HX idx n Hidx Hn) as [B|X]; [left; exact B|].
    right. exact I.
  - (* RESYNC period, the attempt interval has not elapsed: nothing is sent, d keeps its value *)
    rewrite Hdc.
    assert (Hdd : d' = d).
    { unfold d', due_peer. rewrite Hpr, Har, Bool.andb_false_r. reflexivity. }
    rewrite Hdd. split; [exact HSe|].
    intros idx n Hidx Hn. destruct (HX idx n Hidx Hn) as [B|X]; [left; exact B|].
    right. simpl in X. destruct X as [Hdf _]. split; [exact Hdf|]. right. apply Hres. exact Hpr.
  - (* an item was taken: SYNC *)
    rewrite Hdc. split; [exact I|]. intros idx n Hidx Hn. destruct (HX idx n Hidx Hn) as [B|X]; [left; exact B|].
    right. simpl in X. destruct X as [_ [X|X]]; [congruence | exact X].
  - (* no item, empty backlog: PING or nothing *)
    assert (Hse : stash_empty p) by (apply size_stash_zero; exact Hsz).
    assert (Hall : forall idx n, (idx < m0)%nat -> nth_error (g_emitted g') idx = Some n -> base r g' idx n).
    { intros idx n Hidx Hn. destruct (HX idx n Hidx Hn) as [B|X]; [exact B|].
      simpl in X. destruct X as [_ [X|[X|X]]]; [congruence | | exfalso; eapply Hcache; eauto].
      right. left. eapply stash_empty_note; eauto. }
    destruct Hdc as [Hdc|Hdc]; rewrite Hdc; (split; [simpl; auto|]); intros idx n Hidx Hn; left; apply Hall; assumption.
  - (* no item, backlog due: SYNC *)
    rewrite Hdc. split; [exact I|]. intros idx n Hidx Hn. destruct (HX idx n Hidx Hn) as [B|X]; [left; exact B|].
    right. simpl in X. destruct X as [_ [X|X]]; [congruence | exact X].
  - (* no item, backlog not yet due: nothing is sent, d keeps its value *)
    rewrite Hdc.
    assert (Hdd : d' = d).
    { unfold d', due_peer. rewrite Hpr, Hqe, Has. simpl.
      destruct (Z.eqb_spec (size_stash p) 0); [lia|]. simpl. rewrite Bool.andb_false_r. reflexivity. }
    rewrite Hdd. split; [exact HSe|].
    intros idx n Hidx Hn. destruct (HX idx n Hidx Hn) as [B|X]; [left; exact B|].
    right. simpl in X. destruct X as [Hdf [X|[X|X]]]; [congruence | | exfalso; eapply Hcache; eauto].
    split; [exact Hdf|]. left. exact X.
Qed.

Lemma bound_st_cons_other k m rest : k <> j -> bound_st ((k, m) :: rest) = bound_st rest.
Proof. intro Hne. unfold bound_of. simpl. destruct (Nat.eqb_spec k j); [contradiction | reflexivity]. Qed.

Lemma L_prep m0 r d g t snap outc :
  LInv m0 r d g -> g_pc g = PPrep -> LInv m0 r d (ostep true c g t snap outc).
Proof.
  intros L Hpc. pose proof L as (K & Hm0 & Hd & Hj & H).
  pose proof (KInv_prep c g t snap outc K Hpc) as K'.
  assert (Hst : jstat g = bound_st (g_ol g)) by (unfold jstat_of; rewrite Hpc; reflexivity).
  unfold ostep in *. rewrite Hpc in *.
  destruct (g_ol g) as [|[k m] rest] eqn:Eol.
  - apply set_pc_frame; [exact K' | | exact L]. rewrite Hst. reflexivity.
  - destruct (nth_error (g_peers g) k) as [pk|] eqn:Ek.
    + cbv zeta in *. simpl (if true then _ else _) in *.
      replace (match m with SYNC => (g_cache g, g_queue g) | _ => (g_cache g, g_queue g) end)
        with (g_cache g, g_queue g) in * by (destruct m; reflexivity).
      destruct (Nat.eq_dec k j) as [->|Hne].
      * (* the message for j is built *)
        split; [exact K'|]. split; [exact Hm0|]. split; [exact Hd|].
        split; [simpl; rewrite length_set_nth'; exact Hj|].
        simpl g_peers. intros p' Hp'. rewrite nth_error_set_nth, Nat.eqb_refl, Ek in Hp'. inversion Hp'; subst p'.
        destruct (H pk Ek) as [HS HX]. rewrite Hst in HS, HX. unfold bound_of in HS, HX. simpl in HS, HX.
        rewrite Nat.eqb_refl in HS, HX.
        unfold jstat_of. simpl g_pc. cbv iota. rewrite Nat.eqb_refl. split.
        -- destruct m; simpl; [exact I | exact HS | apply stash_empty_clear].
        -- intros idx n Hidx Hn. simpl in Hn. destruct (HX idx n Hidx Hn) as [B|X]; [left; exact B|].
           right. destruct m; simpl in *.
           ++ destruct X as [X|X]; [apply note_in_app_r; exact X | rewrite X; simpl; apply note_in_app_l].
           ++ exact X.
           ++ exact Hm0.
      * eapply L_frame; [exact K' | | | | | | | | | | | exact L]; simpl; auto; try lia.
        -- rewrite Hst. unfold jstat_of. simpl. destruct (Nat.eqb_spec k j); [contradiction|].
           symmetry. apply bound_st_cons_other. exact Hne.
        -- apply length_set_nth'.
        -- intros p' Hp'. rewrite nth_error_set_nth in Hp'. destruct (Nat.eqb_spec j k); [congruence|].
           exists p'. repeat split; auto; lia.
    + assert (Hne : k <> j).
      { intros ->. apply nth_error_None in Ek. lia. }
      eapply L_frame; [exact K' | | | | | | | | | | | exact L]; simpl; auto; try lia.
      * rewrite Hst. unfold jstat_of. simpl. symmetry. apply bound_st_cons_other. exact Hne.
      * intros p' Hp'. exists p'. repeat split; auto; lia.
Qed.

Lemma L_send m0 r d g k m fl pay seen t snap outc :
  LInv m0 r d g -> g_pc g = PSend k m fl pay seen -> g_clock g <= t -> (k = j -> outc = 0) ->
  LInv m0 r d (ostep true c g t snap outc).
Proof.
  intros L Hpc Hclk Hheal. pose proof L as (K & Hm0 & Hd & Hj & H).
  pose proof (KInv_send c g k m fl pay seen t snap outc K Hpc Hclk) as K'.
  unfold ostep in *. rewrite Hpc in *.
  destruct (nth_error (g_peers g) k) as [pk|] eqn:Ek.
  - destruct (Nat.eq_dec k j) as [->|Hne].
    + (* the message for j is handed over and delivered *)
      rewrite (Hheal eq_refl) in *. change (err_of 0) with 0%nat in *. change (visible 0) with true in *.
      cbv iota in *.
      split; [exact K'|]. split; [exact Hm0|]. split; [exact Hd|].
      split; [simpl; rewrite length_set_nth'; exact Hj|].
      simpl g_peers. intros p' Hp'. rewrite nth_error_set_nth, Nat.eqb_refl, Ek in Hp'. inversion Hp'; subst p'. clear Hp'.
      destruct (H pk Ek) as [HS HX].
      assert (Hst : jstat g = JSend m pay seen) by (unfold jstat_of; rewrite Hpc, Nat.eqb_refl; reflexivity).
      rewrite Hst in HS, HX.
      unfold jstat_of. simpl g_pc. cbv iota. rewrite Nat.eqb_refl. split.
      * simpl. intros _. destruct m; simpl in *; [apply stash_empty_clear | exact HS | exact HS].
      * intros idx n Hidx Hn. simpl in Hn. left. destruct (HX idx n Hidx Hn) as [[B|[B|B]]|X].
        -- left. eapply delivered_mono; [|exact B]. simpl. auto.
        -- right. left. exact B.
        -- right. right. exact B.
        -- left. eexists. split; [simpl; left; reflexivity|]. simpl. split; [reflexivity|]. split; [reflexivity|].
           destruct m; simpl in X; [left; auto | contradiction | right; split; [reflexivity | lia]].
    + eapply L_frame; [exact K' | | | | | | | | | | | exact L]; simpl; auto; try lia.
      * unfold jstat_of. rewrite Hpc. destruct (Nat.eqb_spec k j); [contradiction|].
        destruct (err_of outc); simpl; destruct (Nat.eqb_spec k j); try contradiction; reflexivity.
      * apply length_set_nth'.
      * intros p' Hp'. rewrite nth_error_set_nth in Hp'. destruct (Nat.eqb_spec j k); [congruence|].
        exists p'. repeat split; auto; lia.
  - assert (Hne : k <> j).
    { intros ->. apply nth_error_None in Ek. lia. }
    apply set_pc_frame; [exact K' | | exact L].
    unfold jstat_of. simpl. rewrite Hpc. destruct (Nat.eqb_spec k j); [contradiction | reflexivity].
Qed.

Lemma L_wrlc m0 r d g k fl t' t snap outc :
  LInv m0 r d g -> g_pc g = PWrLc k fl t' -> LInv m0 r d (ostep true c g t snap outc).
Proof.
  intros L Hpc. pose proof L as (K & Hm0 & Hd & Hj & H).
  pose proof (KInv_wrlc c g k fl t' t snap outc K Hpc) as K'.
  unfold ostep in *. rewrite Hpc in *.
  destruct (Nat.eq_dec k j) as [->|Hne].
  - split; [exact K'|]. split; [exact Hm0|]. split; [exact Hd|].
    split; [simpl; rewrite length_upd_peer; exact Hj|].
    simpl g_peers. intros p' Hp'. rewrite nth_error_upd_peer, Nat.eqb_refl in Hp'.
    destruct (nth_error (g_peers g) j) as [p|] eqn:Ep; simpl in Hp'; [|discriminate]. inversion Hp'; subst p'. clear Hp'.
    destruct (H p eq_refl) as [HS HX].
    assert (Hst : jstat g = JWr t') by (unfold jstat_of; rewrite Hpc, Nat.eqb_refl; reflexivity).
    rewrite Hst in HS, HX. unfold jstat_of. simpl g_pc. cbv iota. rewrite Nat.eqb_refl. split.
    + simpl in *. intro Hx. specialize (HS Hx). destruct fl; exact HS.
    + intros idx n Hidx Hn. simpl in Hn. destruct (HX idx n Hidx Hn) as [B|X]; [left; exact B | contradiction].
  - eapply L_frame; [exact K' | | | | | | | | | | | exact L]; simpl; auto; try lia.
    + unfold jstat_of. simpl. rewrite Hpc. destruct (Nat.eqb_spec k j); [contradiction | reflexivity].
    + apply length_upd_peer.
    + intros p' Hp'. rewrite nth_error_upd_peer in Hp'. destruct (Nat.eqb_spec j k); [congruence|].
      exists p'. repeat split; auto; lia.
Qed.

Lemma L_wrla m0 r d g k t' t snap outc :
  LInv m0 r d g -> g_pc g = PWrLa k t' -> LInv m0 r d (ostep true c g t snap outc).
Proof.
  intros L Hpc. pose proof L as (K & Hm0 & Hd & Hj & H).
  pose proof (KInv_wrla c g k t' t snap outc K Hpc) as K'.
  assert (Hnot : ~ In k (map fst (g_ol g))).
  { destruct K as [S _]. destruct S as [_ _ _ _ _ Stgt _ _]. apply Stgt. rewrite Hpc. reflexivity. }
  unfold ostep in *. rewrite Hpc in *.
  eapply L_frame; [exact K' | | | | | | | | | | | exact L]; simpl; auto; try lia.
  - unfold jstat_of. simpl. rewrite Hpc. destruct (Nat.eqb_spec k j) as [->|Hne]; [|reflexivity].
    unfold bound_of. apply ol_mode_none in Hnot. rewrite Hnot. reflexivity.
  - apply length_upd_peer.
  - intros p' Hp'. rewrite nth_error_upd_peer in Hp'. destruct (Nat.eqb_spec j k) as [->|Hne].
    + destruct (nth_error (g_peers g) k) as [p|] eqn:Ep; simpl in Hp'; [|discriminate]. inversion Hp'.
      exists p. simpl. repeat split; auto; lia.
    + exists p'. repeat split; auto; lia.
Qed.

(* ---- one action of a healing phase *)
Theorem LInv_step m0 r d g a :
  LInv m0 r d g -> heal_ok j g a ->
  LInv m0 (fst (track1 c j g a (r, d))) (snd (track1 c j g a (r, d))) (mstep true c g a).
Proof.
  intros L [Hok Hheal]. destruct a as [n|from caddr|from|t snap outc]; simpl track1.
  - apply L_enq. exact L.
  - apply L_addr. exact L.
  - apply L_reset. exact L.
  - simpl in Hok, Hheal. simpl mstep. unfold starting, deciding. destruct (g_pc g) eqn:Hpc; simpl fst; simpl snd.
    + apply L_start; auto.
    + eapply L_rdlc; eauto.
    + (* last_attempt read: the decision *)
      pose proof L as (K & _ & _ & Hj & _).
      assert (K' : KInv c (mstep true c g (OStep t snap outc))).
      { apply KInv_step; [exact K|]. simpl. rewrite Hpc. simpl. discriminate. }
      simpl in K'. unfold ostep in *. rewrite Hpc in *.
      destruct (Nat.eqb_spec k j) as [->|Hne].
      * destruct (nth_error (g_peers g) j) as [p|] eqn:Ep; [|apply nth_error_None in Ep; lia].
        pose proof (L_decided_j m0 r d g lcv p L Hpc Ep K') as L'.
        unfold due_at. rewrite Hpc, Nat.eqb_refl, Ep. simpl andb.
        destruct (Nat.eqb r 0); simpl andb in *; [|exact L'].
        destruct (due_peer c (g_now g) lcv (g_qe g) p); exact L'.
      * simpl andb. cbv iota.
        destruct (nth_error (g_peers g) k) as [p|] eqn:Ep.
        -- apply L_decided_other; auto.
        -- pose proof (L_decided_other m0 r d g k lcv 0 L Hpc Hne) as L'. unfold decided in L'. rewrite Ep in L'.
           apply L'. exact K'.
    + destruct L as (K & _). destruct K as [S _]. destruct S. rewrite Hpc in *. contradiction.
    + apply L_prep; auto.
    + eapply L_send; eauto.
    + eapply L_wrlc; eauto.
    + eapply L_wrla; eauto.
Qed.

Theorem LInv_run m0 : forall acts r d g,
  LInv m0 r d g -> sched_ok (heal_ok j) true c g acts ->
  LInv m0 (fst (track c j g acts (r, d))) (snd (track c j g acts (r, d))) (mrun true c g acts).
Proof.
  induction acts as [|a rest IH]; intros r d g L Hs; simpl; [exact L|].
  destruct Hs as [Ha Hs]. pose proof (LInv_step m0 r d g a L Ha) as L'.
  destruct (track1 c j g a (r, d)) as [r' d'] eqn:Et. simpl in L'. apply IH; assumption.
Qed.

(* the healing point: the loop is at the top of an iteration *)
Lemma LInv_init g :
  KInv c g -> g_pc g = PIdle -> (j < length (g_peers g))%nat ->
  LInv (length (g_emitted g)) (length (g_queue g)) false g.
Proof.
  intros K Hpc Hj. split; [exact K|]. split; [lia|]. split; [discriminate|]. split; [exact Hj|].
  intros p Hp. assert (Hst : jstat g = JDone) by (unfold jstat_of; rewrite Hpc; reflexivity). rewrite Hst.
  split; [simpl; discriminate|].
  intros idx n _ Hn. destruct K as [_ K]. destruct (K j p Hp) as (K1 & _ & _).
  destruct (K1 idx n Hn) as [[A|[A|[A|A]]]|A].
  - left. left. exact A.
  - left. right. right. rewrite firstn_all. exact A.
  - right. simpl. split; [reflexivity|]. left. exact A.
  - unfold in_flight in A. rewrite Hpc in A. destruct A as [_ []].
  - right. simpl. split; [reflexivity|]. right. exact A.
Qed.

(* what the invariant says once d = true and the loop is between two iterations *)
Lemma LInv_final m0 r g :
  LInv m0 r true g -> g_pc g = PIdle ->
  forall p, nth_error (g_peers g) j = Some p ->
    stash_empty p /\
    forall idx n, (idx < m0)%nat -> nth_error (g_emitted g) idx = Some n -> delivered_to g j idx n \/ vacuous n.
Proof.
  intros (K & Hm0 & Hd & Hj & H) Hpc p Hp. destruct (H p Hp) as [HS HX].
  assert (Hst : jstat g = JDone) by (unfold jstat_of; rewrite Hpc; reflexivity). rewrite Hst in HS, HX.
  split; [apply HS; reflexivity|].
  intros idx n Hidx Hn. rewrite (Hd eq_refl) in HX. destruct (HX idx n Hidx Hn) as [[B|[B|B]]|X]; auto.
  - contradiction.
  - simpl in X. destruct X as [X _]. discriminate.
Qed.

Lemma KInv_reach ps q clock g :
  (forall k p, nth_error ps k = Some p -> 0 <= lc p) ->
  reach true c act_ok (ginit ps q clock) g -> KInv c g.
Proof.
  intros Hps Hr. induction Hr as [|g a Hr IH Hok]; [apply KInv_init; exact Hps | apply KInv_step; assumption].
Qed.

Lemma emitted_mono : forall acts g idx n,
  nth_error (g_emitted g) idx = Some n -> nth_error (g_emitted (mrun true c g acts)) idx = Some n.
Proof.
  induction acts as [|a rest IH]; intros g idx n Hn; simpl; [exact Hn|]. apply IH.
  destruct a as [x|from caddr|from|t snap outc]; simpl.
  - rewrite nth_error_app1; [exact Hn | apply nth_error_lt in Hn; exact Hn].
  - exact Hn.
  - destruct (nth_error (g_peers g) from); exact Hn.
  - unfold ostep. destruct (g_pc g); simpl; try exact Hn.
    + destruct (g_queue g); exact Hn.
    + destruct (nth_error (g_peers g) k); exact Hn.
    + destruct (nth_error (g_peers g) k); [|exact Hn]. unfold decided. destruct (nth_error (g_peers g) k); exact Hn.
    + unfold decided. destruct (nth_error (g_peers g) k); exact Hn.
    + destruct (g_ol g) as [|[k m] rest']; [exact Hn|]. destruct (nth_error (g_peers g) k); [|exact Hn].
      destruct m; exact Hn.
    + destruct (nth_error (g_peers g) k); exact Hn.
Qed.

(* ---- (1) bounded progress, general form: the healing phase may contain iterations in which a retry
   interval holds j's message back; what counts is the first iteration, from the max(L,1)-th on (L = length of
   the queue at the healing point), whose decision for j finds the interval elapsed *)
Theorem heal_progress_track ps q clock g0 acts :
  (forall k p, nth_error ps k = Some p -> 0 <= lc p) ->
  reach true c act_ok (ginit ps q clock) g0 -> g_pc g0 = PIdle -> (j < length (g_peers g0))%nat ->
  sched_ok (heal_ok j) true c g0 acts ->
  g_pc (mrun true c g0 acts) = PIdle ->
  snd (track c j g0 acts (length (g_queue g0), false)) = true ->
  forall p, nth_error (g_peers (mrun true c g0 acts)) j = Some p ->
    stash_empty p /\
    forall idx n, nth_error (g_emitted g0) idx = Some n -> delivered_to (mrun true c g0 acts) j idx n \/ vacuous n.
Proof.
  intros Hps Hr Hpc Hj Hs Hend Hd p Hp.
  pose proof (LInv_init g0 (KInv_reach ps q clock g0 Hps Hr) Hpc Hj) as L0.
  pose proof (LInv_run _ acts _ _ g0 L0 Hs) as L. rewrite Hd in L.
  destruct (LInv_final _ _ _ L Hend p Hp) as [A B]. split; [exact A|].
  intros idx n Hn. apply B; [apply nth_error_lt in Hn; exact Hn | apply emitted_mono; exact Hn].
Qed.

(* ---- (1) in its simple form: every decision for j finds the retry intervals elapsed *)
Lemma peers_length_step g a : length (g_peers (mstep true c g a)) = length (g_peers g).
Proof.
  destruct a as [x|from caddr|from|t snap outc]; simpl.
  - reflexivity.
  - apply length_upd_peer.
  - destruct (nth_error (g_peers g) from); [apply length_set_nth' | reflexivity].
  - unfold ostep. destruct (g_pc g); simpl; try reflexivity.
    + destruct (g_queue g); reflexivity.
    + destruct (nth_error (g_peers g) k); reflexivity.
    + destruct (nth_error (g_peers g) k); [|reflexivity]. unfold decided. destruct (nth_error (g_peers g) k); reflexivity.
    + unfold decided. destruct (nth_error (g_peers g) k); reflexivity.
    + destruct (g_ol g) as [|[k m] rest']; [reflexivity|]. destruct (nth_error (g_peers g) k); [|reflexivity].
      destruct m; simpl; apply length_set_nth'.
    + destruct (nth_error (g_peers g) k); [|reflexivity]. simpl. apply length_set_nth'.
    + apply length_upd_peer.
    + apply length_upd_peer.
Qed.

Definition undecided (g : gstate) : Prop :=
  match g_pc g with PRdLc k | PRdLa k _ => (k <= j)%nat | _ => False end.

Definition TInv (L i r : nat) (d : bool) (g : gstate) : Prop :=
  (j < length (g_peers g))%nat /\ r = (L - i)%nat /\
  (d = true \/ (i < Nat.max L 1)%nat \/ (r = 0%nat /\ undecided g)).

Definition iter_inc (g : gstate) (a : act) : nat :=
  match a with OStep _ _ _ => if starting g then 1%nat else 0%nat | _ => 0%nat end.

Lemma TInv_step L i r d g a :
  TInv L i r d g -> due_ok c j g a ->
  TInv L (i + iter_inc g a) (fst (track1 c j g a (r, d))) (snd (track1 c j g a (r, d))) (mstep true c g a).
Proof.
  intros (Hj & Hr & H) Hdue. split; [rewrite peers_length_step; exact Hj|].
  destruct a as [x|from caddr|from|t snap outc]; simpl iter_inc; simpl track1; simpl fst; simpl snd.
  - rewrite Nat.add_0_r. split; [exact Hr|]. destruct H as [H|[H|[H1 H2]]]; auto.
  - rewrite Nat.add_0_r. split; [exact Hr|]. destruct H as [H|[H|[H1 H2]]]; auto.
  - rewrite Nat.add_0_r. split; [exact Hr|]. destruct H as [H|[H|[H1 H2]]]; auto.
    right. right. split; [exact H1|]. unfold undecided in *. simpl. destruct (nth_error (g_peers g) from); exact H2.
  - simpl in Hdue. unfold starting, deciding in *. simpl mstep. unfold ostep.
    destruct (g_pc g) eqn:Hpc; simpl fst; simpl snd.
    + (* an iteration starts *)
      split; [lia|]. destruct H as [H|[H|[_ H2]]].
      * left. exact H.
      * destruct (Nat.lt_ge_cases (i + 1) (Nat.max L 1)) as [Hlt|Hge]; [right; left; exact Hlt|].
        right. right. split; [lia|].
        assert (Hnd : next_dec (length (g_peers g)) 0 = PRdLc 0).
        { unfold next_dec. destruct (Nat.ltb_spec 0 (length (g_peers g))); [reflexivity | lia]. }
        unfold undecided. destruct (g_queue g); simpl; rewrite Hnd; lia.
      * unfold undecided in H2. rewrite Hpc in H2. contradiction.
    + rewrite Nat.add_0_r. split; [exact Hr|]. destruct H as [H|[H|[H1 H2]]]; auto.
      right. right. split; [exact H1|]. unfold undecided in *. rewrite Hpc in H2.
      destruct (nth_error (g_peers g) k) as [p|] eqn:Ep; [simpl; exact H2 | apply nth_error_None in Ep; lia].
    + rewrite Nat.add_0_r.
      destruct (Nat.eqb_spec k j) as [->|Hne]; simpl andb.
      * destruct H as [H|[H|[H1 H2]]].
        -- split; [destruct (Nat.eqb r 0 && due_at c j g); exact Hr|]. left.
           destruct (Nat.eqb r 0 && due_at c j g); [reflexivity | exact H].
        -- split; [destruct (Nat.eqb r 0 && due_at c j g); exact Hr|]. right. left. exact H.
        -- rewrite (Hdue eq_refl). rewrite H1. simpl. split; [lia|]. left. reflexivity.
      * cbv iota. simpl fst. simpl snd. split; [exact Hr|]. destruct H as [H|[H|[H1 H2]]]; auto.
        right. right. split; [exact H1|]. unfold undecided in *. rewrite Hpc in H2.
        destruct (nth_error (g_peers g) k) as [p|] eqn:Ep; [|apply nth_error_None in Ep; lia].
        unfold decided. rewrite Ep. simpl. unfold next_dec.
        destruct (Nat.ltb_spec (S k) (length (g_peers g))); [lia | lia].
    + rewrite Nat.add_0_r. split; [exact Hr|]. destruct H as [H|[H|[H1 H2]]]; auto.
      unfold undecided in H2. rewrite Hpc in H2. contradiction.
    + rewrite Nat.add_0_r. split; [exact Hr|]. destruct H as [H|[H|[H1 H2]]]; auto.
      unfold undecided in H2. rewrite Hpc in H2. contradiction.
    + rewrite Nat.add_0_r. split; [exact Hr|]. destruct H as [H|[H|[H1 H2]]]; auto.
      unfold undecided in H2. rewrite Hpc in H2. contradiction.
    + rewrite Nat.add_0_r. split; [exact Hr|]. destruct H as [H|[H|[H1 H2]]]; auto.
      unfold undecided in H2. rewrite Hpc in H2. contradiction.
    + rewrite Nat.add_0_r. split; [exact Hr|]. destruct H as [H|[H|[H1 H2]]]; auto.
      unfold undecided in H2. rewrite Hpc in H2. contradiction.
Qed.

Lemma TInv_run L : forall acts i r d g,
  TInv L i r d g -> sched_ok (due_ok c j) true c g acts ->
  TInv L (i + iters c g acts) (fst (track c j g acts (r, d))) (snd (track c j g acts (r, d))) (mrun true c g acts).
Proof.
  induction acts as [|a rest IH]; intros i r d g T Hs; simpl; [rewrite Nat.add_0_r; exact T|].
  destruct Hs as [Ha Hs]. pose proof (TInv_step L i r d g a T Ha) as T'.
  destruct (track1 c j g a (r, d)) as [r' d'] eqn:Et. simpl in T'.
  specialize (IH _ _ _ _ T' Hs).
  replace (i + (match a with OStep _ _ _ => if starting g then 1 else 0 | _ => 0 end + iters c (mstep true c g a) rest))%nat
    with (i + iter_inc g a + iters c (mstep true c g a) rest)%nat by (unfold iter_inc; lia).
  exact IH.
Qed.

Theorem track_all_due g0 acts :
  g_pc g0 = PIdle -> (j < length (g_peers g0))%nat ->
  sched_ok (due_ok c j) true c g0 acts ->
  g_pc (mrun true c g0 acts) = PIdle ->
  (Nat.max (length (g_queue g0)) 1 <= iters c g0 acts)%nat ->
  snd (track c j g0 acts (length (g_queue g0), false)) = true.
Proof.
  intros Hpc Hj Hs Hend Hn.
  assert (T0 : TInv (length (g_queue g0)) 0 (length (g_queue g0)) false g0).
  { split; [exact Hj|]. split; [lia|]. right. left. lia. }
  pose proof (TInv_run _ acts _ _ _ g0 T0 Hs) as (_ & _ & [H|[H|[_ H]]]).
  - exact H.
  - simpl in H. lia.
  - unfold undecided in H. rewrite Hend in H. contradiction.
Qed.

Theorem heal_progress ps q clock g0 acts :
  (forall k p, nth_error ps k = Some p -> 0 <= lc p) ->
  reach true c act_ok (ginit ps q clock) g0 -> g_pc g0 = PIdle -> (j < length (g_peers g0))%nat ->
  sched_ok (heal_ok j) true c g0 acts -> sched_ok (due_ok c j) true c g0 acts ->
  g_pc (mrun true c g0 acts) = PIdle ->
  (Nat.max (length (g_queue g0)) 1 <= iters c g0 acts)%nat ->
  forall p, nth_error (g_peers (mrun true c g0 acts)) j = Some p ->
    stash_empty p /\
    forall idx n, nth_error (g_emitted g0) idx = Some n -> delivered_to (mrun true c g0 acts) j idx n \/ vacuous n.
Proof.
  intros Hps Hr Hpc Hj Hs Hd Hend Hn.
  eapply heal_progress_track; eauto. apply track_all_due; assumption.
Qed.
End Live.

(* ================================================================== Part 2: the receiver *)
(* The outgoing model never looks into a note: the numbers in it are labels.  Here they label run RECORDS
   (tbl : label -> record), so that a payload of the outgoing model denotes a message of the decider model. *)
Section Recv.
  Variable E : Type.
  Variable owner : Z -> Z * Z.
  Variable cfg : Decider.config E.
  Variable tbl : Z -> rserial E.
  Variable i : nat.            (* the sender's number (a tag in the facts) *)
  Variable j : nat.            (* the receiver's index among the sender's peers *)

  Definition conc (n : Outgoing.note) : Decider.note E :=
    Decider.mkNote (map tbl (n_c n)) (map tbl (n_h n)) (map tbl (n_u n)).

  (* the receiver's life: local events and messages from anyone, in any order; ms = the messages applied so far *)
  Inductive rrun : dstate E -> list (Decider.note E) -> dstate E -> Prop :=
  | RR_nil s : rrun s [] s
  | RR_local s ms s1 e s2 n :
      rrun s ms s1 -> local_step cfg s1 e = Ok (s2, n) -> room cfg s1 n -> note_owned E owner n -> rrun s ms s2
  | RR_msg s ms s1 m s2 n :
      rrun s ms s1 -> remote_apply cfg s1 m = (s2, n) -> room cfg s1 m -> wf_msg owner cfg m -> rrun s (m :: ms) s2.

  Hypothesis nonsingle : forall ph pat p, get_pattern cfg ph pat = Some p -> p_single p = false.
  Hypothesis cfgwf : cfg_wf E cfg.
  Hypothesis caching : c_maxcache cfg <> O.

  Definition rgood (s : dstate E) : Prop := DeciderProofs.Inv E cfg (d_runs s) /\ owner_ok owner (d_runs s).

  Lemma rrun_good s0 ms s : rgood s0 -> rrun s0 ms s -> rgood s.
  Proof.
    intros G0 R. induction R as [s|s ms s1 e s2 n R IH Hl Hroom Hown|s ms s1 m s2 n R IH Hr Hroom Hwf]; [exact G0| |].
    - destruct (IH G0) as [Hinv Hok].
      destruct (local_mono_truthful E owner cfg i s1 s2 e n cfgwf caching Hroom Hown Hinv Hok Hl) as (_ & _ & A & B).
      split; assumption.
    - destruct (IH G0) as [Hinv Hok].
      destruct (remote_join E owner cfg i s1 s2 m n nonsingle caching Hroom Hwf Hinv Hok Hr) as (_ & A & B).
      split; assumption.
  Qed.

  (* every fact of every applied message has been reached, and stays reached *)
  Lemma rrun_reached s0 ms s :
    rgood s0 -> rrun s0 ms s ->
    forall m f, In m ms -> In f (mfacts i m) -> st_le (snd f) (cstatus owner s (snd (fst f))) = true.
  Proof.
    intros G0 R. induction R as [s|s ms s1 e s2 n R IH Hl Hroom Hown|s ms s1 m s2 n R IH Hr Hroom Hwf];
      intros m0 f Hm Hf.
    - contradiction.
    - destruct (rrun_good _ _ _ G0 R) as [Hinv Hok].
      destruct (local_mono_truthful E owner cfg i s1 s2 e n cfgwf caching Hroom Hown Hinv Hok Hl) as (Hmono & _).
      eapply st_le_trans; [apply (IH G0 m0 f Hm Hf) | apply Hmono].
    - destruct (rrun_good _ _ _ G0 R) as [Hinv Hok].
      destruct (remote_join E owner cfg i s1 s2 m n nonsingle caching Hroom Hwf Hinv Hok Hr) as (Hjoin & _).
      rewrite Hjoin. destruct Hm as [->|Hm].
      + apply join_facts_ge_fact; [exact Hf | reflexivity].
      + eapply st_le_trans; [apply (IH G0 m0 f Hm Hf) | apply join_facts_ge].
  Qed.

  Lemma in_map_incl (a b : list Z) r : incl a b -> In r (map tbl a) -> In r (map tbl b).
  Proof. intros Hi Hr. apply in_map_iff in Hr. destruct Hr as [x [<- Hx]]. apply in_map. apply Hi. exact Hx. Qed.

  Lemma mfacts_conc_in n m f : note_in n m -> In f (mfacts i (conc n)) -> In f (mfacts i (conc m)).
  Proof.
    intros (A & B & C). unfold mfacts, conc. simpl. rewrite !in_app_iff, !in_map_iff.
    intros [[r [Hf Hr]]|[[r [Hf Hr]]|[r [Hf Hr]]]]; [left | right; left | right; right]; exists r; (split; [exact Hf|]);
      eapply in_map_incl; eauto.
  Qed.

  Lemma mfacts_conc_vacuous n : vacuous n -> mfacts i (conc n) = [].
  Proof. intro V. apply vacuous_spec in V. destruct V as (A & B & C). unfold mfacts, conc. rewrite A, B, C. reflexivity. Qed.

  (* the two interface premises between sender, network and receiver *)
  (* every SYNC / RESYNC that names a run and reached the socket layer for j has been applied by j
     (_update hands a message to the decider iff one of its three lists is non-empty) *)
  Definition applied_all (g : gstate) (ms : list (Decider.note E)) : Prop :=
    forall a, In (HAtt a) (g_log g) -> s_peer a = j -> s_vis a = true -> s_mode a <> PING -> ~ vacuous (s_pay a) ->
              In (conc (s_pay a)) ms.
  (* a snapshot is at least as advanced as every note reported before it was taken (C12: runs only move forward;
     finished runs are remembered) *)
  Definition snapshots_cover (g : gstate) : Prop :=
    forall a idx n f, In (HAtt a) (g_log g) -> s_peer a = j -> s_mode a = RESYNC -> (idx < s_seen a)%nat ->
      nth_error (g_emitted g) idx = Some n -> In f (mfacts i (conc n)) ->
      exists f', In f' (mfacts i (conc (s_pay a))) /\ snd (fst f') = snd (fst f) /\ st_le (snd f) (snd f') = true.

  Theorem delivered_reaches g sj0 ms sj :
    rgood sj0 -> rrun sj0 ms sj -> applied_all g ms -> snapshots_cover g ->
    forall idx n, nth_error (g_emitted g) idx = Some n -> delivered_to g j idx n \/ vacuous n ->
    forall f, In f (mfacts i (conc n)) -> st_le (snd f) (cstatus owner sj (snd (fst f))) = true.
  Proof.
    intros G0 R Happ Hsnap idx n Hn [[e [Hin Hc]]|V] f Hf.
    - destruct e as [a|x]; [|contradiction]. simpl in Hc. destruct Hc as (Hp & Hv & [[Hm Hni]|[Hm Hlt]]).
      + assert (Hf2 : In f (mfacts i (conc (s_pay a)))) by (eapply mfacts_conc_in; eauto).
        eapply (rrun_reached sj0 ms sj G0 R (conc (s_pay a))); [|exact Hf2].
        apply Happ; auto; [rewrite Hm; discriminate|].
        intro V. rewrite (mfacts_conc_vacuous _ V) in Hf2. contradiction.
      + destruct (Hsnap a idx n f Hin Hp Hm Hlt Hn Hf) as (f' & Hf' & Hid & Hle).
        eapply st_le_trans; [exact Hle|]. rewrite <- Hid.
        eapply (rrun_reached sj0 ms sj G0 R (conc (s_pay a))); [|exact Hf'].
        apply Happ; auto; [rewrite Hm; discriminate|].
        intro V. rewrite (mfacts_conc_vacuous _ V) in Hf'. contradiction.
    - rewrite (mfacts_conc_vacuous n V) in Hf. contradiction.
  Qed.

  (* ---- the sender's side of "superseded by a full state transfer": a snapshot of the sender's decider is at
     least as advanced as every note that decider reported before *)
  (* every fact of the note a local step reports holds in the state after the step *)
  Lemma local_note_reached (s s' : dstate E) (e : E) (n : Decider.note E) :
    room cfg s n -> note_owned E owner n -> DeciderProofs.Inv E cfg (d_runs s) ->
    local_step cfg s e = Ok (s', n) ->
    forall f, In f (mfacts i n) -> st_le (snd f) (cstatus owner s' (snd (fst f))) = true.
  Proof.
    intros [Hrc Hrh] Hown_n Hinv H.
    pose proof (Inv_local_step E cfg s s' e n cfgwf H Hinv) as Hinv'.
    unfold local_step in H.
    set (ks := flat_map (run_event e) (rt_all (d_runs s))) in *.
    destruct (start_runs cfg e (cfg_pats cfg) (rt_filter_map (after_event e) (d_runs s)) (d_next s))
      as [[[[rt2 n2] pc] pu]|] eqn:Es; [|discriminate].
    injection H as <- <-. simpl in *.
    set (comp := map ser (sel KComp ks ++ pc)) in *.
    set (hlt := map ser (sel KHalt ks)) in *.
    set (upd := map ser (sel KUpd ks ++ pu)) in *.
    rewrite (cache_push_room E cfg comp (d_cc s)) by exact Hrc.
    rewrite (cache_push_room E cfg hlt (d_ch s)) by exact Hrh.
    assert (Hb : forall ph pat, bucket ph pat rt2 =
                  flat_map (fun r => optl (after_event e r)) (bucket ph pat (d_runs s)) ++ filter (in_key E ph pat) pu).
    { intros ph pat. rewrite (start_runs_bucket E _ _ _ _ _ _ _ _ _ ph pat Es), bucket_filter_map. reflexivity. }
    intros f Hf. unfold mfacts in Hf. simpl in Hf. rewrite !in_app_iff, !in_map_iff in Hf.
    destruct Hf as [[rc [<- Hin]]|[[rc [<- Hin]]|[rc [<- Hin]]]]; simpl; unfold cstatus; simpl;
      rewrite !ids_of_app, !zmem_app.
    - assert (Hz : zmem (s_id rc) (ids_of comp) = true) by (apply zmem_in; unfold ids_of; apply in_map; exact Hin).
      rewrite Hz, Bool.orb_true_r. reflexivity.
    - destruct (zmem (s_id rc) (ids_of (d_cc s)) || zmem (s_id rc) (ids_of comp)); [reflexivity|].
      assert (Hz : zmem (s_id rc) (ids_of hlt) = true) by (apply zmem_in; unfold ids_of; apply in_map; exact Hin).
      rewrite Hz, Bool.orb_true_r. reflexivity.
    - destruct (zmem (s_id rc) (ids_of (d_cc s)) || zmem (s_id rc) (ids_of comp)); [reflexivity|].
      destruct (zmem (s_id rc) (ids_of (d_ch s)) || zmem (s_id rc) (ids_of hlt)); [reflexivity|].
      assert (Hkey : owner (s_id rc) = (s_ph rc, s_pat rc)).
      { unfold note_owned in Hown_n. rewrite Forall_forall in Hown_n. apply Hown_n. simpl.
        apply in_or_app. right. apply in_or_app. right. exact Hin. }
      unfold upd in Hin. apply in_map_iff in Hin. destruct Hin as [x [<- Hx]]. simpl in *. rewrite Hkey. simpl.
      assert (Hin' : In x (bucket (r_ph x) (p_name (r_pat x)) rt2)).
      { rewrite Hb, in_app_iff. apply in_app_or in Hx. destruct Hx as [Hx|Hx].
        - left. apply sel_in in Hx. unfold ks in Hx. apply in_flat_map in Hx. destruct Hx as [r [Hr Hre]].
          apply run_event_in in Hre. destruct Hre as [Hp Hk].
          assert (Hnh : r_halted x = false).
          { unfold kind_of in Hk. destruct (r_halted x); [destruct (is_complete x); discriminate | reflexivity]. }
          assert (Ha : after_event e r = Some x) by (unfold after_event; rewrite Hp, Hnh; reflexivity).
          destruct (after_event_some E e r x Ha) as (_ & Hph & Hpat & _).
          apply in_flat_map. exists r. split; [|rewrite Ha; left; reflexivity].
          destruct Hinv as [Hwf [Hk' _]]. destruct (in_all_bucket E _ r Hwf Hr) as [ph [pat Hb']].
          destruct (Hk' _ _ _ Hb') as [<- <-]. rewrite Hph, Hpat. exact Hb'.
        - right. apply filter_In. split; [exact Hx|]. unfold in_key. rewrite !Z.eqb_refl. reflexivity. }
      unfold run_at. rewrite (find_nodup_id E _ x (r_id x)); [exact (st_le_refl (Active (r_idx x) (hsize (r_hist x)))) | | exact Hin' | reflexivity].
      destruct Hinv' as [_ [_ [Hn _]]]. apply Hn.
  Qed.

  (* a snapshot says of every run exactly what its decider holds *)
  Lemma snapshot_truthful (s : dstate E) id :
    cstatus owner s id <> Absent ->
    exists f, In f (mfacts i (snapshot s)) /\ snd (fst f) = id /\ snd f = cstatus owner s id.
  Proof.
    unfold cstatus, mfacts, snapshot. simpl. intro H.
    destruct (zmem id (ids_of (d_cc s))) eqn:Ec.
    - apply zmem_in in Ec. unfold ids_of in Ec. apply in_map_iff in Ec. destruct Ec as [rc [Hid Hrc]].
      exists (i, s_id rc, Completed). split; [|simpl; auto]. apply in_or_app. left. apply in_map_iff. exists rc. auto.
    - destruct (zmem id (ids_of (d_ch s))) eqn:Eh.
      + apply zmem_in in Eh. unfold ids_of in Eh. apply in_map_iff in Eh. destruct Eh as [rc [Hid Hrc]].
        exists (i, s_id rc, Halted). split; [|simpl; auto]. apply in_or_app. right. apply in_or_app. left.
        apply in_map_iff. exists rc. auto.
      + destruct (run_at (fst (owner id)) (snd (owner id)) id (d_runs s)) as [r|] eqn:Er; [|congruence].
        unfold run_at in Er. apply find_some in Er. destruct Er as [Hin Hid]. apply Z.eqb_eq in Hid.
        exists (i, s_id (ser r), Active (s_idx (ser r)) (hsize (s_hist (ser r)))). split; [|simpl; auto].
        apply in_or_app. right. apply in_or_app. right. apply in_map_iff. exists (ser r). split; [reflexivity|].
        apply in_map. eapply in_bucket_all. exact Hin.
  Qed.

  (* the sender's decider: local events (each reporting a note) and messages from anyone; ns = the notes reported so
     far, oldest first *)
  Inductive srun : dstate E -> list (Decider.note E) -> dstate E -> Prop :=
  | SR_nil s : srun s [] s
  | SR_local s ns s1 e s2 n :
      srun s ns s1 -> local_step cfg s1 e = Ok (s2, n) -> room cfg s1 n -> note_owned E owner n -> srun s (ns ++ [n]) s2
  | SR_msg s ns s1 m s2 n :
      srun s ns s1 -> remote_apply cfg s1 m = (s2, n) -> room cfg s1 m -> wf_msg owner cfg m -> srun s ns s2.

  Lemma srun_good s0 ns s : rgood s0 -> srun s0 ns s -> rgood s.
  Proof.
    intros G0 R. induction R as [s|s ns s1 e s2 n R IH Hl Hroom Hown|s ns s1 m s2 n R IH Hr Hroom Hwf]; [exact G0| |].
    - destruct (IH G0) as [Hinv Hok].
      destruct (local_mono_truthful E owner cfg i s1 s2 e n cfgwf caching Hroom Hown Hinv Hok Hl) as (_ & _ & A & B).
      split; assumption.
    - destruct (IH G0) as [Hinv Hok].
      destruct (remote_join E owner cfg i s1 s2 m n nonsingle caching Hroom Hwf Hinv Hok Hr) as (_ & A & B).
      split; assumption.
  Qed.

  (* C12 at the sender, over histories: whatever a note reported still holds, or more *)
  Lemma srun_covers s0 ns s :
    rgood s0 -> srun s0 ns s ->
    forall n f, In n ns -> In f (mfacts i n) -> st_le (snd f) (cstatus owner s (snd (fst f))) = true.
  Proof.
    intros G0 R. induction R as [s|s ns s1 e s2 n R IH Hl Hroom Hown|s ns s1 m s2 n R IH Hr Hroom Hwf];
      intros n0 f Hn Hf.
    - contradiction.
    - destruct (srun_good _ _ _ G0 R) as [Hinv Hok]. apply in_app_or in Hn. destruct Hn as [Hn|[<-|[]]].
      + destruct (local_mono_truthful E owner cfg i s1 s2 e n cfgwf caching Hroom Hown Hinv Hok Hl) as (Hmono & _).
        eapply st_le_trans; [apply (IH G0 n0 f Hn Hf) | apply Hmono].
      + eapply local_note_reached; eauto.
    - destruct (srun_good _ _ _ G0 R) as [Hinv Hok].
      destruct (remote_join E owner cfg i s1 s2 m n nonsingle caching Hroom Hwf Hinv Hok Hr) as (Hjoin & _).
      rewrite Hjoin. eapply st_le_trans; [apply (IH G0 n0 f Hn Hf) | apply join_facts_ge].
  Qed.

  (* the wiring of decider and tcp at the sender: the notes handed to on_decider_update are the decider's notes, in
     order; a RESYNC payload is decider.snapshot() taken when exactly s_seen notes had been reported *)
  Definition sender_wired (g : gstate) (si0 : dstate E) : Prop :=
    exists ns, (forall idx n, nth_error (g_emitted g) idx = Some n -> nth_error ns idx = Some (conc n)) /\
      forall a, In (HAtt a) (g_log g) -> s_peer a = j -> s_mode a = RESYNC ->
        exists sa, srun si0 (firstn (s_seen a) ns) sa /\ conc (s_pay a) = snapshot sa.

  Theorem wired_snapshots_cover g si0 : rgood si0 -> sender_wired g si0 -> snapshots_cover g.
  Proof.
    intros G0 (ns & Hem & Hsn) a idx n f Hin Hp Hm Hlt Hn Hf.
    destruct (Hsn a Hin Hp Hm) as (sa & Hrun & Hpay).
    assert (Hns : In (conc n) (firstn (s_seen a) ns)).
    { specialize (Hem idx n Hn). apply nth_error_In with (n := idx). rewrite nth_error_firstn_lt; [exact Hem | exact Hlt]. }
    pose proof (srun_covers si0 _ sa G0 Hrun (conc n) f Hns Hf) as Hle.
    destruct (snapshot_truthful sa (snd (fst f))) as (f' & Hf' & Hid & Hst).
    { intro Habs. rewrite Habs in Hle. unfold mfacts in Hf. rewrite !in_app_iff, !in_map_iff in Hf.
      destruct Hf as [[rc [<- _]]|[[rc [<- _]]|[rc [<- _]]]]; simpl in Hle; discriminate. }
    exists f'. rewrite Hpay. split; [exact Hf'|]. split; [exact Hid|]. rewrite Hst. exact Hle.
  Qed.

  (* the same in the property's words *)
  Definition at_least (sj : dstate E) (rc : rserial E) : Prop :=
    exists r, run_at (fst (owner (s_id rc))) (snd (owner (s_id rc))) (s_id rc) (d_runs sj) = Some r /\
              ((s_idx rc < r_idx r)%nat \/ (s_idx rc = r_idx r /\ (hsize (s_hist rc) <= hsize (r_hist r))%nat)).

  Lemma reached_words (sj : dstate E) (n : Decider.note E) :
    (forall f, In f (mfacts i n) -> st_le (snd f) (cstatus owner sj (snd (fst f))) = true) ->
    (forall rc, In rc (n_comp n) -> zmem (s_id rc) (ids_of (d_cc sj)) = true) /\
    (forall rc, In rc (n_halt n) -> remembered E sj (s_id rc) = true) /\
    (forall rc, In rc (n_upd n) -> remembered E sj (s_id rc) = true \/ at_least sj rc).
  Proof.
    intro H. split; [|split]; intros rc Hrc.
    - assert (Hf : In (i, s_id rc, Completed) (mfacts i n)).
      { unfold mfacts. apply in_or_app. left. apply in_map_iff. exists rc. auto. }
      specialize (H _ Hf). simpl in H. unfold cstatus in H.
      destruct (zmem (s_id rc) (ids_of (d_cc sj))); [reflexivity|].
      destruct (zmem (s_id rc) (ids_of (d_ch sj))); [discriminate|].
      destruct (run_at _ _ _ _); discriminate.
    - assert (Hf : In (i, s_id rc, Halted) (mfacts i n)).
      { unfold mfacts. apply in_or_app. right. apply in_or_app. left. apply in_map_iff. exists rc. auto. }
      specialize (H _ Hf). simpl in H. unfold cstatus, remembered in *.
      destruct (zmem (s_id rc) (ids_of (d_cc sj))); [reflexivity|].
      destruct (zmem (s_id rc) (ids_of (d_ch sj))); [reflexivity|].
      destruct (run_at _ _ _ _); discriminate.
    - assert (Hf : In (i, s_id rc, Active (s_idx rc) (hsize (s_hist rc))) (mfacts i n)).
      { unfold mfacts. apply in_or_app. right. apply in_or_app. right. apply in_map_iff. exists rc. auto. }
      specialize (H _ Hf). simpl in H. unfold cstatus, remembered, at_least in *.
      destruct (zmem (s_id rc) (ids_of (d_cc sj))); [left; reflexivity|].
      destruct (zmem (s_id rc) (ids_of (d_ch sj))); [left; reflexivity|].
      destruct (run_at _ _ _ _) as [r|]; [|discriminate].
      right. exists r. split; [reflexivity|]. simpl in H. apply Bool.orb_true_iff in H. destruct H as [H|H].
      + left. apply Nat.ltb_lt. exact H.
      + right. apply Bool.andb_true_iff in H. destruct H as [H1 H2]. apply Nat.eqb_eq in H1. apply Nat.leb_le in H2. auto.
  Qed.
End Recv.

(* ================================================================== Part 1b: j is in contact afterwards *)
Section Contact.
Variable c : tcfg.
Variable j : nat.
Hypothesis pr_pos : 0 < p_resync c.

Notation jstat := (jstat_of j).
Notation bound_st := (bound_of j).

Definition Ccl (u : bool) (g : gstate) (p : peer) (st : jst) : Prop :=
  match st with
  | JRead lcv => u = true -> lcv = lc p
  | JWr t => u = true -> g_now g <= t
  | JDone => u = true -> reached (cv_pr c) (g_now g - lc p) (p_resync c) = false
  | _ => True
  end.

Definition CInv (u : bool) (g : gstate) : Prop :=
  KInv c g /\ (g_pc g <> PIdle -> g_now g <= g_clock g) /\ (j < length (g_peers g))%nat /\
  forall p, nth_error (g_peers g) j = Some p -> Ccl u g p (jstat g).

Lemma Ccl_false g p st : Ccl false g p st.
Proof. destruct st; simpl; auto; discriminate. Qed.

Lemma C_frame u g g' :
  KInv c g' -> jstat g' = jstat g -> g_now g' = g_now g ->
  (g_pc g' <> PIdle -> g_now g' <= g_clock g') ->
  length (g_peers g') = length (g_peers g) ->
  (forall p', nth_error (g_peers g') j = Some p' -> exists p, nth_error (g_peers g) j = Some p /\ lc p' = lc p) ->
  CInv u g -> CInv u g'.
Proof.
  intros K' Hst Hnow Hclk Hlen Hp (K & Hc & Hj & H).
  split; [exact K'|]. split; [exact Hclk|]. split; [lia|].
  intros p' Hp'. destruct (Hp p' Hp') as (p & Hpj & Hlc). specialize (H p Hpj). rewrite Hst.
  destruct (jstat g); simpl in *; auto; rewrite ?Hnow, ?Hlc; exact H.
Qed.

Lemma C_set_pc u g pc' :
  KInv c (set_pc g pc') -> jstat (set_pc g pc') = jstat g -> (pc' <> PIdle -> g_pc g <> PIdle) ->
  CInv u g -> CInv u (set_pc g pc').
Proof.
  intros K' Hst Hpc C. pose proof C as (_ & Hc & _).
  eapply C_frame; [exact K' | exact Hst | | | | | exact C]; simpl; auto.
  intros p' Hp'. exists p'. auto.
Qed.

Theorem CInv_step u g a :
  CInv u g -> heal_ok j g a -> CInv (ctrack1 c j g a u) (mstep true c g a).
Proof.
  intros C [Hok Hheal]. pose proof C as (K & Hc & Hj & H).
  assert (K' : KInv c (mstep true c g a)) by (apply KInv_step; assumption).
  destruct a as [x|from caddr|from|t snap outc]; simpl ctrack1.
  - eapply C_frame; [exact K' | | | | | | exact C]; simpl; auto. intros p' Hp'. exists p'. auto.
  - eapply C_frame; [exact K' | | | | | | exact C]; simpl; auto; [apply length_upd_peer|].
    intros p' Hp'. rewrite nth_error_upd_peer in Hp'. destruct (Nat.eqb_spec j from) as [->|Hne].
    + destruct (nth_error (g_peers g) from) as [q|] eqn:Eq; simpl in Hp'; [|discriminate].
      inversion Hp'. exists q. split; [reflexivity|]. destruct (caddr =? addr q); reflexivity.
    + exists p'. auto.
  - simpl in *. destruct (nth_error (g_peers g) from) as [q|] eqn:Eq.
    + destruct (Nat.eqb_spec from j) as [->|Hne].
      * split; [exact K'|]. split; [exact Hc|]. split; [simpl; rewrite length_set_nth'; exact Hj|].
        intros p' _. apply Ccl_false.
      * eapply C_frame; [exact K' | | | | | | exact C]; simpl; auto; [apply length_set_nth'|].
        intros p' Hp'. rewrite nth_error_set_nth in Hp'. destruct (Nat.eqb_spec j from); [congruence|]. exists p'. auto.
    + destruct (Nat.eqb_spec from j) as [->|Hne]; [apply nth_error_None in Eq; lia | exact C].
  - simpl in Hok, Hheal, K'. simpl mstep. unfold starting, deciding. unfold ostep in *.
    destruct (g_pc g) eqn:Hpc.
    + (* start *)
      assert (Hnd : next_dec (length (g_peers g)) 0 = PRdLc 0).
      { unfold next_dec. destruct (Nat.ltb_spec 0 (length (g_peers g))); [reflexivity | lia]. }
      split; [exact K'|].
      split; [destruct (g_queue g); simpl; lia|]. split; [destruct (g_queue g); exact Hj|].
      intros p' _. unfold jstat_of. destruct (g_queue g); simpl; rewrite Hnd; simpl; exact I.
    + (* last_comms read *)
      destruct (nth_error (g_peers g) k) as [pk|] eqn:Ek.
      * destruct (Nat.eq_dec k j) as [->|Hne].
        -- split; [exact K'|]. split; [intros _; apply Hc; discriminate|]. split; [exact Hj|].
           simpl g_peers. intros p Hp. rewrite Hp in Ek. inversion Ek; subst pk.
           unfold jstat_of. simpl. rewrite Nat.ltb_irrefl, Nat.eqb_refl. simpl. auto.
        -- apply C_set_pc; [exact K' | | rewrite Hpc; discriminate | exact C].
           unfold jstat_of. simpl. rewrite Hpc.
           destruct (Nat.leb_spec k j), (Nat.ltb_spec k j); try lia; try reflexivity.
           destruct (Nat.eqb_spec k j); [contradiction | reflexivity].
      * apply C_set_pc; [exact K' | | rewrite Hpc; discriminate | exact C].
        unfold jstat_of. simpl. rewrite Hpc. apply nth_error_None in Ek.
        destruct (Nat.leb_spec k j); [lia | reflexivity].
    + (* last_attempt read: the decision *)
      assert (Hcl : g_now g <= g_clock g) by (apply Hc; discriminate).
      destruct (Nat.eqb_spec k j) as [->|Hne].
      * destruct (nth_error (g_peers g) j) as [p|] eqn:Ep; [|apply nth_error_None in Ep; lia].
        specialize (H p eq_refl).
        assert (Hst : jstat g = JRead lcv).
        { unfold jstat_of. rewrite Hpc, Nat.ltb_irrefl, Nat.eqb_refl. reflexivity. }
        rewrite Hst in H. simpl in H.
        destruct K as [S _]. destruct S as [_ _ _ _ Sdec _ _ _].
        assert (Hnone : ol_mode j (g_ol g) = None).
        { apply ol_mode_none. intro Hin. specialize (Sdec j j). rewrite Hpc in Sdec. specialize (Sdec eq_refl Hin). lia. }
        unfold due_at. rewrite Hpc, Nat.eqb_refl, Ep. simpl andb.
        unfold decided in *. rewrite Ep in *.
        set (dcs := decide c (g_now g) (g_qe g) (with_reads lcv (la p) p)) in *.
        set (ol' := match dcs with Some m => g_ol g ++ [(j, m)] | None => g_ol g end) in *.
        set (g' := mkG (g_peers g) (g_queue g) (next_dec (length (g_peers g)) (S j)) (g_now g) ol' (g_cache g)
                       (g_qe g) (g_clock g) (g_emitted g) (g_log g)) in *.
        assert (Hst' : jstat g' = match dcs with Some m => JBound m | None => JDone end).
        { rewrite (jstat_next_ge j g' j (length (g_peers g))); [|reflexivity|lia]. simpl. unfold ol', bound_of.
          destruct dcs as [m|]; [|rewrite Hnone; reflexivity].
          rewrite ol_mode_snoc, Hnone, Nat.eqb_refl. reflexivity. }
        split; [exact K'|]. split; [intros _; exact Hcl|]. split; [exact Hj|].
        change (g_peers g') with (g_peers g). intros p0 Hp0. rewrite Ep in Hp0. inversion Hp0; subst p0.
        rewrite Hst'.
        pose proof (decide_cases c (g_now g) (g_qe g) lcv (la p) p) as Hd. cbv zeta in Hd. fold dcs in Hd.
        destruct dcs as [m|]; [destruct m; exact I|].
        simpl. intro Hu. apply Bool.andb_true_iff in Hu. destruct Hu as [Hu Hdue].
        rewrite <- (H Hu). change (g_now g') with (g_now g).
        unfold due_peer in Hdue.
        destruct Hd as [[Hpr [[_ Hx]|[Har _]]] | [Hpr _]]; [discriminate | | exact Hpr].
        rewrite Hpr, Har in Hdue. discriminate.
      * simpl andb. cbv iota.
        assert (Hsame : forall g', g_pc g' = next_dec (length (g_peers g)) (S k) ->
                  forall ol', g_ol g' = ol' -> (forall m, ol' = g_ol g ++ [(k, m)] \/ ol' = g_ol g) -> True) by auto.
        destruct (nth_error (g_peers g) k) as [p|] eqn:Ep.
        -- unfold decided in *. rewrite Ep in *.
           set (ol' := match decide c (g_now g) (g_qe g) (with_reads lcv (la p) p) with
                       | Some m => g_ol g ++ [(k, m)] | None => g_ol g end) in *.
           eapply C_frame; [exact K' | | | | | | exact C]; simpl; auto.
           ++ destruct (Nat.lt_ge_cases k j) as [Hlt|Hge].
              ** rewrite (jstat_next_lt j _ k (length (g_peers g))); [|reflexivity|exact Hlt|exact Hj].
                 unfold jstat_of. rewrite Hpc. destruct (Nat.ltb_spec k j); [reflexivity | lia].
              ** rewrite (jstat_next_ge j _ k (length (g_peers g))); [|reflexivity|lia]. simpl.
                 unfold jstat_of. rewrite Hpc. destruct (Nat.ltb_spec k j); [lia|].
                 destruct (Nat.eqb_spec k j); [contradiction|].
                 unfold ol'. destruct (decide c (g_now g) (g_qe g) (with_reads lcv (la p) p)); [|reflexivity].
                 apply bound_st_snoc. exact Hne.
           ++ intros p' Hp'. exists p'. auto.
        -- apply C_set_pc; [exact K' | | rewrite Hpc; discriminate | exact C].
           unfold jstat_of. simpl. rewrite Hpc. apply nth_error_None in Ep.
           destruct (Nat.ltb_spec k j); [lia|]. destruct (Nat.eqb_spec k j); [contradiction | reflexivity].
    + destruct K as [S _]. destruct S. rewrite Hpc in *. contradiction.
    + (* next entry of outlist *)
      assert (Hcl : g_now g <= g_clock g) by (apply Hc; discriminate).
      assert (Hst : jstat g = bound_st (g_ol g)) by (unfold jstat_of; rewrite Hpc; reflexivity).
      destruct (g_ol g) as [|[k m] rest] eqn:Eol.
      * eapply C_frame; [exact K' | | | | | | exact C]; simpl; auto;
          try (rewrite Hst; reflexivity); try congruence;
          try (intros p' Hp'; exists p'; split; [exact Hp' | reflexivity]).
      * destruct (nth_error (g_peers g) k) as [pk|] eqn:Ek.
        -- cbv zeta in *. simpl (if true then _ else _) in *.
           replace (match m with SYNC => (g_cache g, g_queue g) | _ => (g_cache g, g_queue g) end)
             with (g_cache g, g_queue g) in * by (destruct m; reflexivity).
           destruct (Nat.eq_dec k j) as [->|Hne].
           ++ split; [exact K'|]. split; [intros _; exact Hcl|]. split; [simpl; rewrite length_set_nth'; exact Hj|].
              intros p' _. unfold jstat_of. simpl g_pc. cbv iota. rewrite Nat.eqb_refl. exact I.
           ++ eapply C_frame; [exact K' | | | | | | exact C]; simpl; auto.
              ** rewrite Hst. unfold jstat_of. simpl. destruct (Nat.eqb_spec k j); [contradiction|].
                 symmetry. apply bound_st_cons_other. exact Hne.
              ** apply length_set_nth'.
              ** intros p' Hp'. rewrite nth_error_set_nth in Hp'. destruct (Nat.eqb_spec j k); [congruence|].
                 exists p'. auto.
        -- assert (Hne : k <> j) by (intros ->; apply nth_error_None in Ek; lia).
           eapply C_frame; [exact K' | | | | | | exact C]; simpl; auto.
           ++ rewrite Hst. unfold jstat_of. simpl. symmetry. apply bound_st_cons_other. exact Hne.
           ++ intros p' Hp'. exists p'. auto.
    + (* send *)
      assert (Hcl : g_now g <= g_clock g) by (apply Hc; discriminate).
      specialize (Hok eq_refl).
      destruct (nth_error (g_peers g) k) as [pk|] eqn:Ek.
      * destruct (Nat.eq_dec k j) as [->|Hne].
        -- rewrite (Hheal eq_refl) in *. change (err_of 0) with 0%nat in *. cbv iota in *.
           split; [exact K'|]. split; [simpl; intros _; lia|]. split; [simpl; rewrite length_set_nth'; exact Hj|].
           intros p' _. unfold jstat_of. simpl g_pc. cbv iota. rewrite Nat.eqb_refl. simpl. intros _. lia.
        -- eapply C_frame; [exact K' | | | | | | exact C]; simpl; auto; try lia.
           ++ unfold jstat_of. rewrite Hpc. destruct (Nat.eqb_spec k j); [contradiction|].
              destruct (err_of outc); simpl; destruct (Nat.eqb_spec k j); try contradiction; reflexivity.
           ++ apply length_set_nth'.
           ++ intros p' Hp'. rewrite nth_error_set_nth in Hp'. destruct (Nat.eqb_spec j k); [congruence|].
              exists p'. auto.
      * assert (Hne : k <> j) by (intros ->; apply nth_error_None in Ek; lia).
        apply C_set_pc; [exact K' | | rewrite Hpc; discriminate | exact C].
        unfold jstat_of. simpl. rewrite Hpc. destruct (Nat.eqb_spec k j); [contradiction | reflexivity].
    + (* last_comms written *)
      assert (Hcl : g_now g <= g_clock g) by (apply Hc; discriminate).
      destruct (Nat.eq_dec k j) as [->|Hne].
      * split; [exact K'|]. split; [intros _; exact Hcl|]. split; [simpl; rewrite length_upd_peer; exact Hj|].
        simpl g_peers. intros p' Hp'. rewrite nth_error_upd_peer, Nat.eqb_refl in Hp'.
        destruct (nth_error (g_peers g) j) as [p|] eqn:Ep; simpl in Hp'; [|discriminate]. inversion Hp'; subst p'.
        specialize (H p eq_refl).
        assert (Hst : jstat g = JWr t0) by (unfold jstat_of; rewrite Hpc, Nat.eqb_refl; reflexivity).
        rewrite Hst in H. simpl in H.
        unfold jstat_of. simpl g_pc. cbv iota. rewrite Nat.eqb_refl. simpl. intro Hu. specialize (H Hu).
        apply reached_lt. destruct flagged; simpl; lia.
      * eapply C_frame; [exact K' | | | | | | exact C]; simpl; auto.
        -- unfold jstat_of. simpl. rewrite Hpc. destruct (Nat.eqb_spec k j); [contradiction | reflexivity].
        -- apply length_upd_peer.
        -- intros p' Hp'. rewrite nth_error_upd_peer in Hp'. destruct (Nat.eqb_spec j k); [congruence|]. exists p'. auto.
    + (* last_attempt written *)
      assert (Hcl : g_now g <= g_clock g) by (apply Hc; discriminate).
      assert (Hnot : ~ In k (map fst (g_ol g))).
      { destruct K as [S _]. destruct S as [_ _ _ _ _ Stgt _ _]. apply Stgt. rewrite Hpc. reflexivity. }
      eapply C_frame; [exact K' | | | | | | exact C]; simpl; auto.
      * unfold jstat_of. simpl. rewrite Hpc. destruct (Nat.eqb_spec k j) as [->|Hne]; [|reflexivity].
        unfold bound_of. apply ol_mode_none in Hnot. rewrite Hnot. reflexivity.
      * apply length_upd_peer.
      * intros p' Hp'. rewrite nth_error_upd_peer in Hp'. destruct (Nat.eqb_spec j k) as [->|Hne].
        -- destruct (nth_error (g_peers g) k) as [p|] eqn:Ep; simpl in Hp'; [|discriminate]. inversion Hp'.
           exists p. auto.
        -- exists p'. auto.
Qed.

Theorem CInv_run : forall acts u g,
  CInv u g -> sched_ok (heal_ok j) true c g acts -> CInv (ctrack c j g acts u) (mrun true c g acts).
Proof.
  induction acts as [|a rest IH]; intros u g C Hs; simpl; [exact C|].
  destruct Hs as [Ha Hs]. apply IH; [apply CInv_step; assumption | exact Hs].
Qed.

(* at the end of an iteration whose decision for j found the retry intervals elapsed, with every send to j
   delivered and no RESET from j handled meanwhile: measured with the clock reading that iteration decided with,
   j is within the resynchronisation period (it is not owed a RESYNC) *)
Theorem heal_contact ps q clock g0 acts :
  (forall k p, nth_error ps k = Some p -> 0 <= lc p) ->
  reach true c act_ok (ginit ps q clock) g0 -> g_pc g0 = PIdle -> (j < length (g_peers g0))%nat ->
  sched_ok (heal_ok j) true c g0 acts ->
  g_pc (mrun true c g0 acts) = PIdle ->
  ctrack c j g0 acts false = true ->
  forall p, nth_error (g_peers (mrun true c g0 acts)) j = Some p ->
    reached (cv_pr c) (g_now (mrun true c g0 acts) - lc p) (p_resync c) = false.
Proof.
  intros Hps Hr Hpc Hj Hs Hend Hu p Hp.
  assert (C0 : CInv false g0).
  { split; [eapply KInv_reach; eauto|]. split; [intro H; contradiction|]. split; [exact Hj|].
    intros p0 _. apply Ccl_false. }
  pose proof (CInv_run acts false g0 C0 Hs) as (_ & _ & _ & H). rewrite Hu in H.
  specialize (H p Hp). unfold jstat_of in H. rewrite Hend in H. simpl in H. apply H. reflexivity.
Qed.

(* simple form: all decisions due, no RESET from j, at least one iteration *)
Lemma ctrack_all_due : forall acts i u g,
  (u = true \/ i = 0%nat) ->
  sched_ok (due_ok c j) true c g acts -> sched_ok (no_reset j) true c g acts ->
  ctrack c j g acts u = true \/ (i + iters c g acts = 0)%nat.
Proof.
  induction acts as [|a rest IH]; intros i u g H Hd Hn; simpl.
  - destruct H as [H|H]; [left; exact H | right; lia].
  - destruct Hd as [Hda Hd]. destruct Hn as [Hna Hn].
    set (inc := match a with OStep _ _ _ => if starting g then 1%nat else 0%nat | _ => 0%nat end).
    replace (i + (inc + iters c (mstep true c g a) rest))%nat with ((i + inc) + iters c (mstep true c g a) rest)%nat by lia.
    apply IH; [|exact Hd|exact Hn].
    unfold inc. destruct a as [x|from caddr|from|t snap outc]; simpl in *.
    + destruct H; [left | right]; auto; lia.
    + destruct H; [left | right]; auto; lia.
    + destruct (Nat.eqb_spec from j); [contradiction|]. destruct H; [left | right]; auto; lia.
    + destruct (starting g); [left; reflexivity|].
      destruct (deciding j g) eqn:Ed.
      * rewrite (Hda eq_refl), Bool.andb_true_r. destruct H; [left | right]; auto; lia.
      * destruct H; [left | right]; auto; lia.
Qed.
End Contact.

(* ================================================================== the two halves together *)
Lemma peers_length_run c : forall acts g, length (g_peers (mrun true c g acts)) = length (g_peers g).
Proof.
  induction acts as [|a rest IH]; intro g; simpl; [reflexivity|]. rewrite IH. apply peers_length_step.
Qed.

Theorem heal_contact_simple c j ps q clock g0 acts :
  0 < p_resync c ->
  (forall k p, nth_error ps k = Some p -> 0 <= lc p) ->
  reach true c act_ok (ginit ps q clock) g0 -> g_pc g0 = PIdle -> (j < length (g_peers g0))%nat ->
  sched_ok (heal_ok j) true c g0 acts -> sched_ok (due_ok c j) true c g0 acts -> sched_ok (no_reset j) true c g0 acts ->
  g_pc (mrun true c g0 acts) = PIdle -> (1 <= iters c g0 acts)%nat ->
  forall p, nth_error (g_peers (mrun true c g0 acts)) j = Some p ->
    reached (cv_pr c) (g_now (mrun true c g0 acts) - lc p) (p_resync c) = false.
Proof.
  intros Hpr Hps Hr Hpc Hj Hs Hd Hn Hend Hit.
  eapply heal_contact; eauto.
  destruct (ctrack_all_due c j acts 0 false g0 (or_intror eq_refl) Hd Hn) as [H|H]; [exact H | lia].
Qed.

Section Both.
  Variable E : Type.
  Variable owner : Z -> Z * Z.
  Variable cfg : Decider.config E.
  Variable tbl : Z -> rserial E.
  Variable i : nat.
  Variable c : tcfg.
  Variable j : nat.

  (* after the healing phase: what the receiver holds, for every note the sender reported before the healing point *)
  Theorem heal_receiver_track ps q clock g0 acts sj0 ms sj :
    (forall ph pat p, get_pattern cfg ph pat = Some p -> p_single p = false) -> cfg_wf E cfg -> c_maxcache cfg <> O ->
    (forall k p, nth_error ps k = Some p -> 0 <= lc p) ->
    reach true c act_ok (ginit ps q clock) g0 -> g_pc g0 = PIdle -> (j < length (g_peers g0))%nat ->
    sched_ok (heal_ok j) true c g0 acts ->
    g_pc (mrun true c g0 acts) = PIdle ->
    snd (track c j g0 acts (length (g_queue g0), false)) = true ->
    rgood E owner cfg sj0 -> rrun E owner cfg sj0 ms sj ->
    applied_all E tbl j (mrun true c g0 acts) ms -> snapshots_cover E tbl i j (mrun true c g0 acts) ->
    forall idx n, nth_error (g_emitted g0) idx = Some n ->
      (forall rc, In rc (n_comp (conc E tbl n)) -> zmem (s_id rc) (ids_of (d_cc sj)) = true) /\
      (forall rc, In rc (n_halt (conc E tbl n)) -> remembered E sj (s_id rc) = true) /\
      (forall rc, In rc (n_upd (conc E tbl n)) -> remembered E sj (s_id rc) = true \/ at_least E owner sj rc).
  Proof.
    intros Hns Hwf Hca Hps Hr Hpc Hj Hs Hend Hd G0 R Happ Hsnap idx n Hn.
    apply (reached_words E owner i). intros f Hf.
    destruct (nth_error (g_peers (mrun true c g0 acts)) j) as [p|] eqn:Ep.
    2:{ apply nth_error_None in Ep. rewrite peers_length_run in Ep. lia. }
    destruct (heal_progress_track c j ps q clock g0 acts Hps Hr Hpc Hj Hs Hend Hd p Ep) as [_ Hdel].
    eapply (delivered_reaches E owner cfg tbl i j Hns Hwf Hca); eauto.
    apply emitted_mono. exact Hn.
  Qed.

  Theorem heal_receiver ps q clock g0 acts sj0 ms sj :
    (forall ph pat p, get_pattern cfg ph pat = Some p -> p_single p = false) -> cfg_wf E cfg -> c_maxcache cfg <> O ->
    (forall k p, nth_error ps k = Some p -> 0 <= lc p) ->
    reach true c act_ok (ginit ps q clock) g0 -> g_pc g0 = PIdle -> (j < length (g_peers g0))%nat ->
    sched_ok (heal_ok j) true c g0 acts -> sched_ok (due_ok c j) true c g0 acts ->
    g_pc (mrun true c g0 acts) = PIdle ->
    (Nat.max (length (g_queue g0)) 1 <= iters c g0 acts)%nat ->
    rgood E owner cfg sj0 -> rrun E owner cfg sj0 ms sj ->
    applied_all E tbl j (mrun true c g0 acts) ms -> snapshots_cover E tbl i j (mrun true c g0 acts) ->
    forall idx n, nth_error (g_emitted g0) idx = Some n ->
      (forall rc, In rc (n_comp (conc E tbl n)) -> zmem (s_id rc) (ids_of (d_cc sj)) = true) /\
      (forall rc, In rc (n_halt (conc E tbl n)) -> remembered E sj (s_id rc) = true) /\
      (forall rc, In rc (n_upd (conc E tbl n)) -> remembered E sj (s_id rc) = true \/ at_least E owner sj rc).
  Proof.
    intros Hns Hwf Hca Hps Hr Hpc Hj Hs Hdue Hend Hit. eapply heal_receiver_track; eauto.
    apply track_all_due; assumption.
  Qed.
  (* ... with the sender's half of "superseded by a full state transfer" proved instead of assumed: the sender is a
     run of the decider model too (configuration cfgS: the same phenomena, its own id supply), wired to its tcp layer *)
  Variable cfgS : Decider.config E.

  Theorem heal_receiver_wired_track ps q clock g0 acts sj0 ms sj si0 :
    (forall ph pat p, get_pattern cfg ph pat = Some p -> p_single p = false) -> cfg_wf E cfg -> c_maxcache cfg <> O ->
    (forall ph pat p, get_pattern cfgS ph pat = Some p -> p_single p = false) -> cfg_wf E cfgS -> c_maxcache cfgS <> O ->
    (forall k p, nth_error ps k = Some p -> 0 <= lc p) ->
    reach true c act_ok (ginit ps q clock) g0 -> g_pc g0 = PIdle -> (j < length (g_peers g0))%nat ->
    sched_ok (heal_ok j) true c g0 acts ->
    g_pc (mrun true c g0 acts) = PIdle ->
    snd (track c j g0 acts (length (g_queue g0), false)) = true ->
    rgood E owner cfg sj0 -> rrun E owner cfg sj0 ms sj ->
    applied_all E tbl j (mrun true c g0 acts) ms ->
    rgood E owner cfgS si0 -> sender_wired E owner cfgS tbl j (mrun true c g0 acts) si0 ->
    forall idx n, nth_error (g_emitted g0) idx = Some n ->
      (forall rc, In rc (n_comp (conc E tbl n)) -> zmem (s_id rc) (ids_of (d_cc sj)) = true) /\
      (forall rc, In rc (n_halt (conc E tbl n)) -> remembered E sj (s_id rc) = true) /\
      (forall rc, In rc (n_upd (conc E tbl n)) -> remembered E sj (s_id rc) = true \/ at_least E owner sj rc).
  Proof.
    intros Hns Hwf Hca HnsS HwfS HcaS Hps Hr Hpc Hj Hs Hend Hd G0 R Happ GS HW.
    eapply heal_receiver_track; eauto.
    eapply (wired_snapshots_cover E owner cfgS tbl i j HnsS HwfS HcaS); eauto.
  Qed.

  Theorem heal_receiver_wired ps q clock g0 acts sj0 ms sj si0 :
    (forall ph pat p, get_pattern cfg ph pat = Some p -> p_single p = false) -> cfg_wf E cfg -> c_maxcache cfg <> O ->
    (forall ph pat p, get_pattern cfgS ph pat = Some p -> p_single p = false) -> cfg_wf E cfgS -> c_maxcache cfgS <> O ->
    (forall k p, nth_error ps k = Some p -> 0 <= lc p) ->
    reach true c act_ok (ginit ps q clock) g0 -> g_pc g0 = PIdle -> (j < length (g_peers g0))%nat ->
    sched_ok (heal_ok j) true c g0 acts -> sched_ok (due_ok c j) true c g0 acts ->
    g_pc (mrun true c g0 acts) = PIdle ->
    (Nat.max (length (g_queue g0)) 1 <= iters c g0 acts)%nat ->
    rgood E owner cfg sj0 -> rrun E owner cfg sj0 ms sj ->
    applied_all E tbl j (mrun true c g0 acts) ms ->
    rgood E owner cfgS si0 -> sender_wired E owner cfgS tbl j (mrun true c g0 acts) si0 ->
    forall idx n, nth_error (g_emitted g0) idx = Some n ->
      (forall rc, In rc (n_comp (conc E tbl n)) -> zmem (s_id rc) (ids_of (d_cc sj)) = true) /\
      (forall rc, In rc (n_halt (conc E tbl n)) -> remembered E sj (s_id rc) = true) /\
      (forall rc, In rc (n_upd (conc E tbl n)) -> remembered E sj (s_id rc) = true \/ at_least E owner sj rc).
  Proof.
    intros Hns Hwf Hca HnsS HwfS HcaS Hps Hr Hpc Hj Hs Hdue Hend Hit. eapply heal_receiver_wired_track; eauto.
    apply track_all_due; assumption.
  Qed.
End Both.

