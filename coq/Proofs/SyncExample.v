(* C03: the hypotheses of C03_replicas_equal are satisfiable - a concrete two-instance cluster with a SINGLETON
   pattern a ; b, event a at instance 0, event b at instance 1. *)
From Bobo Require Import Base.Prelude Base.History Model.Pattern Model.Run Model.Decider Model.Cluster Model.PredLang.
From Bobo Require Import Proofs.DeciderLemmas Proofs.DeciderProofs Proofs.SyncProofs.

Definition ex_cd : cdesc :=
  CD [(1, [PD 1 [BD [PDataEq 1] 1 false false false false; BD [PDataEq 2] 2 false false false false] [] [] true])] 5 1000.
Definition ex_cfg : config ev := mk_cfg ex_cd.
Definition ex_gen (k n : nat) : Z := 1000 * Z.of_nat (S k) + Z.of_nat n.
Definition ex_inp : list (nat * ev) := [(0%nat, mkEv 0 0 0 1 0 0); (1%nat, mkEv 1 1 0 2 0 0)].

Lemma ex_cfg_wf : cfg_wf ev ex_cfg.
Proof.
  split; simpl.
  - constructor; [intros []|constructor].
  - constructor; [|constructor]. simpl. constructor; [intros []|constructor].
Qed.

Definition ex_pat : pattern ev :=
  mk_pattern (PD 1 [BD [PDataEq 1] 1 false false false false; BD [PDataEq 2] 2 false false false false] [] [] true).

Lemma ex_get ph pat p : get_pattern ex_cfg ph pat = Some p -> ph = 1 /\ pat = 1 /\ p = ex_pat.
Proof.
  unfold get_pattern, ex_cfg, mk_cfg. simpl.
  destruct (Z.eqb_spec ph 1) as [->|]; [|discriminate]. cbn.
  destruct pat as [|q|q]; try discriminate. destruct q as [q|q|]; try discriminate. intros [= <-]. auto.
Qed.

Lemma ex_single2 : forall ph pat p, get_pattern ex_cfg ph pat = Some p -> p_single p = true -> (2 <= length (p_blocks p))%nat.
Proof. intros ph pat p H _. apply ex_get in H. destruct H as [_ [_ ->]]. simpl. lia. Qed.

Lemma ex_known j rc : s_ph rc = 1 -> s_pat rc = 1 -> known ev (icfg ex_cfg ex_gen j) rc.
Proof. intros H1 H2. exists ex_pat. rewrite H1, H2. reflexivity. Qed.

Lemma ex_crun_some : exists ss ns, crun ex_cfg ex_gen (repeat d_init 2) ex_inp = Some (ss, ns).
Proof. vm_compute. eexists; eexists; reflexivity. Qed.

Ltac ex_known_tac := repeat constructor; exists ex_pat; reflexivity.

Lemma ex_crun_ok : crun_ok ev ex_cfg ex_gen (repeat d_init 2) ex_inp.
Proof.
  cbn [crun_ok ex_inp]. split.
  - (* event a at instance 0: a run of the singleton pattern starts *)
    intros si si' n Hn Hl. cbn in Hn. injection Hn as <-.
    vm_compute in Hl. injection Hl as <- <-. cbn [n_comp n_halt n_upd].
    split; [cbn; constructor|]. split; [intros k r _ []|].
    split; [ex_known_tac|]. split; [ex_known_tac|]. split; [ex_known_tac|].
    intros j sj Hj Hnj. destruct j as [|[|j]]; [congruence| |destruct j; discriminate].
    cbn in Hnj. injection Hnj as <-. vm_compute. reflexivity.
  - destruct (cstep ex_cfg ex_gen (repeat d_init 2) 0 (mkEv 0 0 0 1 0 0)) as [[ss1 n1]|] eqn:Ec; [|exact I].
    vm_compute in Ec. injection Ec as <- _. cbn [crun_ok]. split.
    + (* event b at instance 1, which holds the replicated run: it completes there *)
      intros si si' n Hn Hl. cbn in Hn. injection Hn as <-.
      vm_compute in Hl. injection Hl as <- <-. cbn [n_comp n_halt n_upd].
      split; [cbn; repeat constructor; intros []|].
      split. { intros k r Hk Hin. cbn in Hin. destruct Hin as [<-|[]]. cbn [r_id]. unfold ex_gen. lia. }
      split; [ex_known_tac|]. split; [ex_known_tac|]. split; [ex_known_tac|].
      intros j sj Hj Hnj. destruct j as [|[|j]]; [|congruence|destruct j; discriminate].
      cbn in Hnj. injection Hnj as <-. vm_compute. reflexivity.
    + destruct (cstep _ _ _ _ _) as [[ss2 n2]|]; exact I.
Qed.

(* and the conclusion computed directly: both replicas hold no run at the end, and held the same run in between *)
Lemma ex_tables : match crun ex_cfg ex_gen (repeat d_init 2) ex_inp with
                  | Some (ss, ns) => map (fun s => length (rt_all (d_runs s))) ss = [0%nat; 0%nat] /\ length ns = 2%nat
                  | None => False end.
Proof. vm_compute. split; reflexivity. Qed.
