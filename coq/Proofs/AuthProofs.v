From Bobo Require Import Base.Prelude Model.Recv Model.Auth Proofs.RecvProofs.

(* ---------- string equality ---------- *)
Lemma zlist_eqb_refl a : zlist_eqb a a = true.
Proof. induction a as [|x a IH]; simpl; [reflexivity|]. now rewrite Z.eqb_refl, IH. Qed.

Lemma zlist_eqb_eq a b : zlist_eqb a b = true <-> a = b.
Proof.
  split.
  - revert b. induction a as [|x a IH]; intros [|y b] H; simpl in H; try discriminate; [reflexivity|].
    apply andb_true_iff in H. destruct H as [H1 H2]. apply Z.eqb_eq in H1. apply IH in H2. now subst.
  - intros ->. apply zlist_eqb_refl.
Qed.

Lemma is_data_not_ping ty : is_data ty = true -> (ty =? TYPE_PING) = false.
Proof.
  unfold is_data, TYPE_SYNC, TYPE_RESYNC, TYPE_PING. intros H. apply orb_true_iff in H.
  apply Z.eqb_neq. destruct H as [H | H]; apply Z.eqb_eq in H; lia.
Qed.

Section AuthFacts.
  Variable msg : Type.
  Variable parse : str -> option msg.
  Variable decrypt : list Z -> option str.

  Notation handle := (handle msg parse).
  Notation handle_unfixed := (handle_unfixed msg parse).
  Notation wellformedb := (wellformedb msg parse).
  Notation istate := (istate msg).

  (* ---------- rejection changes nothing ---------- *)
  Lemma reject_is_identity_lem (st : istate) addr pt r :
    snd (handle st addr pt) = Rej r -> fst (handle st addr pt) = st.
  Proof.
    unfold Auth.handle. destruct pt as [s|]; [|reflexivity].
    destruct (split_plaintext s) as [| |urn id ty fl js]; try reflexivity.
    destruct (find_peer urn (s_peers st)) as [d|]; [|reflexivity].
    destruct (negb (str_eqb id (p_key d))); [reflexivity|].
    destruct (is_data ty).
    - destruct (parse js) as [m|]; [|reflexivity].
      destruct (qfull msg st); simpl; discriminate.
    - destruct (ty =? TYPE_PING); [simpl; discriminate | reflexivity].
  Qed.

  (* every input that is not an authenticated well-formed message is rejected, nothing changes *)
  Lemma not_wellformed_rejected_lem (st : istate) addr pt :
    wellformedb (s_peers st) pt = false -> exists r, handle st addr pt = (st, Rej r).
  Proof.
    unfold Auth.handle, Auth.wellformedb. destruct pt as [s|]; [|eexists; reflexivity].
    destruct (split_plaintext s) as [| |urn id ty fl js]; try (eexists; reflexivity).
    destruct (find_peer urn (s_peers st)) as [d|]; [|eexists; reflexivity].
    destruct (str_eqb id (p_key d)); simpl; [|eexists; reflexivity].
    destruct (is_data ty) eqn:Ed.
    - rewrite (is_data_not_ping ty Ed). simpl.
      destruct (parse js) as [m|]; [discriminate | eexists; reflexivity].
    - rewrite orb_false_r. intros ->. eexists; reflexivity.
  Qed.

  (* the listed reasons, one by one (for all plaintexts / byte strings) *)
  Lemma reject_reasons_lem (st : istate) addr :
    handle st addr None = (st, Rej RDecrypt)
    /\ (forall s, split_plaintext s = SplitShort -> handle st addr (Some s) = (st, Rej RSplit))
    /\ (forall s, split_plaintext s = SplitBadInt -> handle st addr (Some s) = (st, Rej RInt))
    /\ (forall s urn id ty fl js, split_plaintext s = SplitOk urn id ty fl js ->
          find_peer urn (s_peers st) = None -> handle st addr (Some s) = (st, Rej RUrn))
    /\ (forall s urn id ty fl js d, split_plaintext s = SplitOk urn id ty fl js ->
          find_peer urn (s_peers st) = Some d -> id <> p_key d -> handle st addr (Some s) = (st, Rej RKey))
    /\ (forall s urn id ty fl js d, split_plaintext s = SplitOk urn id ty fl js ->
          find_peer urn (s_peers st) = Some d -> id = p_key d ->
          ty <> TYPE_SYNC -> ty <> TYPE_PING -> ty <> TYPE_RESYNC -> handle st addr (Some s) = (st, Rej RType))
    /\ (forall s urn id ty fl js d, split_plaintext s = SplitOk urn id ty fl js ->
          find_peer urn (s_peers st) = Some d -> id = p_key d ->
          (ty = TYPE_SYNC \/ ty = TYPE_RESYNC) -> parse js = None -> handle st addr (Some s) = (st, Rej RPayload)).
  Proof.
    unfold Auth.handle.
    split; [reflexivity|].
    split; [intros s ->; reflexivity|].
    split; [intros s ->; reflexivity|].
    split; [intros s urn id ty fl js -> ->; reflexivity|].
    split.
    { intros s urn id ty fl js d -> -> Hk.
      destruct (str_eqb id (p_key d)) eqn:E; [apply zlist_eqb_eq in E; contradiction | reflexivity]. }
    split.
    { intros s urn id ty fl js d -> -> -> H0 H1 H2. unfold str_eqb. rewrite zlist_eqb_refl. simpl.
      assert (Ed : is_data ty = false).
      { unfold is_data. apply orb_false_iff. split; apply Z.eqb_neq; assumption. }
      rewrite Ed. apply Z.eqb_neq in H1. rewrite H1. reflexivity. }
    intros s urn id ty fl js d -> -> -> Hty Hp. unfold str_eqb. rewrite zlist_eqb_refl. simpl.
    assert (Ed : is_data ty = true).
    { unfold is_data. apply orb_true_iff. destruct Hty as [-> | ->]; [left | right]; reflexivity. }
    rewrite Ed, Hp. reflexivity.
  Qed.

  (* ---------- acceptance: the exact conjunction, and the exact effect ---------- *)
  Lemma changed_only_if_wellformed_lem (st : istate) addr pt :
    fst (handle st addr pt) <> st -> wellformedb (s_peers st) pt = true.
  Proof.
    intros H. destruct (wellformedb (s_peers st) pt) eqn:E; [reflexivity|].
    destruct (not_wellformed_rejected_lem st addr pt E) as [r Hr]. rewrite Hr in H. now elim H.
  Qed.

  Lemma accept_characterisation_lem (st : istate) addr pt :
    wellformedb (s_peers st) pt = true ->
    exists s urn id ty fl js d,
      pt = Some s /\ split_plaintext s = SplitOk urn id ty fl js /\
      find_peer urn (s_peers st) = Some d /\ id = p_key d /\
      ((ty = TYPE_PING /\
        handle st addr pt = (mkS (touch urn addr fl (s_peers st)) (s_queue st) (s_qmax st), Accepted))
       \/
       ((ty = TYPE_SYNC \/ ty = TYPE_RESYNC) /\ exists m, parse js = Some m /\
        handle st addr pt =
        if qfull msg st
        then (mkS (upd_peer urn (set_addr addr) (s_peers st)) (s_queue st) (s_qmax st), Dropped)
        else (mkS (touch urn addr fl (s_peers st)) (s_queue st ++ [m]) (s_qmax st), Accepted))).
  Proof.
    unfold Auth.wellformedb, Auth.handle. destruct pt as [s|]; [|discriminate].
    destruct (split_plaintext s) as [| |urn id ty fl js] eqn:Es; try discriminate.
    destruct (find_peer urn (s_peers st)) as [d|] eqn:Ef; [|discriminate].
    intros H. apply andb_true_iff in H. destruct H as [Hk Hty].
    exists s, urn, id, ty, fl, js, d.
    split; [reflexivity|]. split; [exact Es|]. split; [exact Ef|].
    split; [now apply zlist_eqb_eq|].
    rewrite Hk. simpl.
    destruct (is_data ty) eqn:Ed.
    - right. rewrite (is_data_not_ping ty Ed) in Hty. simpl in Hty.
      split.
      { unfold is_data in Ed. apply orb_true_iff in Ed. destruct Ed as [E | E]; apply Z.eqb_eq in E; auto. }
      destruct (parse js) as [m|]; [|discriminate]. exists m. split; reflexivity.
    - left. rewrite andb_false_l, orb_false_r in Hty. rewrite Hty. apply Z.eqb_eq in Hty.
      split; [exact Hty | reflexivity].
  Qed.

  Lemma accepted_iff_lem (st : istate) addr pt :
    snd (handle st addr pt) = Accepted ->
    wellformedb (s_peers st) pt = true.
  Proof.
    intros H. destruct (wellformedb (s_peers st) pt) eqn:E; [reflexivity|].
    destruct (not_wellformed_rejected_lem st addr pt E) as [r Hr]. rewrite Hr in H. discriminate H.
  Qed.

  (* what an accepted message can change: only the named peer, only address and contact times *)
  Definition same_but_contact (urn : str) (p q : peer) : Prop :=
    p_urn q = p_urn p /\ p_key q = p_key p /\ p_fr q = p_fr p /\ p_stash q = p_stash p /\
    (str_eqb (p_urn p) urn = false -> q = p).

  Lemma upd_peer_frame urn f ps :
    (forall p, p_urn (f p) = p_urn p /\ p_key (f p) = p_key p /\ p_fr (f p) = p_fr p /\ p_stash (f p) = p_stash p) ->
    Forall2 (same_but_contact urn) ps (upd_peer urn f ps).
  Proof.
    intros Hf. induction ps as [|p ps IH]; simpl; constructor; [|exact IH].
    unfold same_but_contact. destruct (str_eqb (p_urn p) urn) eqn:E.
    - destruct (Hf p) as [H1 [H2 [H3 H4]]]. repeat split; try assumption. discriminate.
    - repeat split; reflexivity.
  Qed.

  Lemma set_addr_frame a p :
    p_urn (set_addr a p) = p_urn p /\ p_key (set_addr a p) = p_key p /\
    p_fr (set_addr a p) = p_fr p /\ p_stash (set_addr a p) = p_stash p.
  Proof. unfold set_addr. destruct (str_eqb a (p_addr p)); simpl; repeat split; reflexivity. Qed.

  Lemma clear_last_frame p :
    p_urn (clear_last p) = p_urn p /\ p_key (clear_last p) = p_key p /\
    p_fr (clear_last p) = p_fr p /\ p_stash (clear_last p) = p_stash p.
  Proof. unfold clear_last. simpl. repeat split; reflexivity. Qed.

  Lemma same_but_contact_trans urn ps qs rs :
    Forall2 (same_but_contact urn) ps qs -> Forall2 (same_but_contact urn) qs rs ->
    Forall2 (same_but_contact urn) ps rs.
  Proof.
    intros H. revert rs. induction H as [|p q ps qs Hpq Hrest IH]; intros rs H2; inversion H2; subst; constructor.
    - match goal with Hq : same_but_contact urn q ?r |- _ => rename Hq into Hqr end.
      destruct Hpq as [A1 [A2 [A3 [A4 A5]]]]. destruct Hqr as [B1 [B2 [B3 [B4 B5]]]].
      unfold same_but_contact. repeat split; try congruence.
      intros E. rewrite B5; [now apply A5 | now rewrite A1].
    - now apply IH.
  Qed.

  Lemma touch_frame_lem urn addr fl ps : Forall2 (same_but_contact urn) ps (touch urn addr fl ps).
  Proof.
    unfold touch. destruct (has_reset fl).
    - eapply same_but_contact_trans.
      + apply upd_peer_frame. apply set_addr_frame.
      + apply upd_peer_frame. apply clear_last_frame.
    - apply upd_peer_frame. apply set_addr_frame.
  Qed.

  (* ---------- the accept loop ---------- *)
  Definition bad_client (c : rcfg) (st : istate) (cl : client) : Prop :=
    forall b, session_outcome c (snd cl) = Deliver b -> wellformedb (s_peers st) (decrypt b) = false.

  Lemma serve_bad_identity c (st : istate) bads rest :
    r_client_to c = true -> Forall (bad_client c st) bads ->
    serve msg decrypt handle c st (bads ++ rest) = serve msg decrypt handle c st rest.
  Proof.
    intros Hto H. induction H as [|cl bads Hb Hrest IH]; [reflexivity|].
    destruct cl as [addr sc]. simpl.
    pose proof (session_never_hangs c sc Hto) as Hn.
    destruct (session_outcome c sc) as [b| | | |] eqn:Eo; try exact IH; [|contradiction].
    specialize (Hb b Eo). simpl in Hb.
    destruct (not_wellformed_rejected_lem st addr (decrypt b) Hb) as [r Hr]. rewrite Hr. simpl. exact IH.
  Qed.

  Lemma listener_survives_lem c (st : istate) bads addr sc buf :
    r_client_to c = true -> Forall (bad_client c st) bads ->
    session_outcome c sc = Deliver buf ->
    serve msg decrypt handle c st (bads ++ [(addr, sc)]) = fst (handle st addr (decrypt buf)).
  Proof.
    intros Hto Hb Ho. rewrite (serve_bad_identity c st bads _ Hto Hb). simpl. now rewrite Ho.
  Qed.

  (* ... with the valid message arriving in any admissible cut (C10) and being a data message:
     it is in the queue afterwards *)
  Lemma listener_survives_enqueued_lem c (st : istate) bads addr a m chunks rest clock s urn id ty fl js d pl :
    r_client_to c = true -> r_end_on_all c = true ->
    Forall (bad_client c st) bads ->
    end_test c m = true -> chunks <> [] -> concat chunks = m -> Forall (chunk_ok c) chunks ->
    no_premature c chunks -> timely c a (length chunks) clock ->
    decrypt m = Some s -> split_plaintext s = SplitOk urn id ty fl js ->
    find_peer urn (s_peers st) = Some d -> id = p_key d ->
    (ty = TYPE_SYNC \/ ty = TYPE_RESYNC) -> parse js = Some pl -> qfull msg st = false ->
    serve msg decrypt handle c st (bads ++ [(addr, (map Bytes chunks ++ rest, a :: clock))])
    = mkS (touch urn addr fl (s_peers st)) (s_queue st ++ [pl]) (s_qmax st).
  Proof.
    intros Hto Hall Hb Hm Hne Hcat Hok Hpre Ht Hd Hs Hf Hk Hty Hp Hq.
    assert (Ho : session_outcome c (map Bytes chunks ++ rest, a :: clock) = Deliver m).
    { unfold session_outcome, session. simpl.
      apply (delivery_any_cut_lem c a m chunks rest clock); assumption. }
    rewrite (listener_survives_lem c st bads addr _ m Hto Hb Ho).
    rewrite Hd. unfold Auth.handle. rewrite Hs, Hf. subst id. unfold str_eqb. rewrite zlist_eqb_refl. simpl.
    assert (Ed : is_data ty = true).
    { unfold is_data. apply orb_true_iff. destruct Hty as [-> | ->]; [left | right]; reflexivity. }
    rewrite Ed, Hp, Hq. reflexivity.
  Qed.
End AuthFacts.

(* ---------- D8 on the model of the pinned commit ---------- *)
Definition d8_peer : peer := mkP [100] [107] [49] 50 60 true [0; 0; 0].        (* urn "d", key "k", addr "1" *)
Definition d8_state : istate Z := mkS [d8_peer] [] 0.
(* "d k 0 0 x": SYNC with a payload that does not parse *)
Definition d8_bad_payload : str := [100; 32; 107; 32; 48; 32; 48; 32; 120].
(* "d k 7 1 {}": unknown type 7 with the RESET flag *)
Definition d8_unknown_type : str := [100; 32; 107; 32; 55; 32; 49; 32; 123; 125].
Definition no_parse : str -> option Z := fun _ => None.

Lemma d8_refuted_lem :
  (exists (st : istate Z) addr pt,
      wellformedb Z no_parse (s_peers st) pt = false /\
      map p_addr (s_peers (fst (handle_unfixed Z no_parse st addr pt))) <> map p_addr (s_peers st))
  /\
  (exists (st : istate Z) addr pt,
      wellformedb Z no_parse (s_peers st) pt = false /\
      map p_lc (s_peers (fst (handle_unfixed Z no_parse st addr pt))) <> map p_lc (s_peers st)).
Proof.
  split.
  - exists d8_state, [50], (Some d8_bad_payload). split; [vm_compute; reflexivity | vm_compute; discriminate].
  - exists d8_state, [49], (Some d8_unknown_type). split; [vm_compute; reflexivity | vm_compute; discriminate].
Qed.

(* the same inputs leave the repaired model's state untouched (non-vacuity of reject_is_identity) *)
Lemma d8_fixed_example :
  fst (handle Z no_parse d8_state [50] (Some d8_bad_payload)) = d8_state /\
  fst (handle Z no_parse d8_state [49] (Some d8_unknown_type)) = d8_state.
Proof. split; vm_compute; reflexivity. Qed.

(* ---------- D6 seen from C11: a silent client stops the listener of the pinned commit ---------- *)
Definition d6_ping : str := [100; 32; 107; 32; 49; 32; 49; 32; 123; 125].      (* "d k 1 1 {}": PING with RESET *)
Definition d6_decrypt (b : list Z) : option str := if zlist_eqb b d5_msg then Some d6_ping else None.

Lemma silent_client_stops_listener_unfixed_lem :
  exists c (st : istate Z) silent good,
    r_client_to c = false /\
    serve Z d6_decrypt (handle Z no_parse) c st [good] <> st /\
    serve Z d6_decrypt (handle Z no_parse) c st [silent; good] = st.
Proof.
  exists (mkR 52 MARKER 3 2048 true false), d8_state,
         ([57], ([Timeout], [100; 100])), ([50], ([Bytes d5_msg], [200; 200])).
  split; [reflexivity|]. split; [vm_compute; discriminate | vm_compute; reflexivity].
Qed.
