(* Decider-level half of C06 / C07: what a receiver holds after it has applied a message (in particular a
   RESYNC snapshot) of a sender.  Separate from ReplicationProofs.v only because Model/Outgoing.v and
   Model/Decider.v both define `note`, `mkNote`, `mkCfg`, `run`. *)
From Bobo Require Import Base.Prelude Base.History Model.Pattern Model.Run Model.Decider.
From Bobo Require Import Proofs.RunProofs Proofs.DeciderLemmas Proofs.DeciderProofs Proofs.StepProofs Proofs.RemoteProofs.

Section ReplicationDecider.
  Variable E : Type.
  Notation run := (run E).
  Notation runtab := (runtab E).
  Notation pattern := (pattern E).
  Notation config := (config E).
  Notation dstate := (dstate E).
  Notation rserial := (rserial E).
  Notation note := (note E).

  (* the local run r is at least as far as the record rc: further along the pattern, or at the same block with
     at least as many accepted events *)
  Definition pos_le (rc : rserial) (r : run) : Prop :=
    (s_idx rc < r_idx r)%nat \/ (s_idx rc = r_idx r /\ (hsize (s_hist rc) <= hsize (r_hist r))%nat).

  Definition holds_active (rt : runtab) (rc : rserial) : Prop :=
    exists r, In r (bucket (s_ph rc) (s_pat rc) rt) /\ r_id r = s_id rc /\ pos_le rc r.

  Lemma pos_le_run_le rc (r r' : run) : pos_le rc r -> run_le E r r' -> pos_le rc r'.
  Proof. unfold pos_le, run_le. intros H (_ & _ & _ & H'). lia. Qed.

  Lemma not_ahead_pos_le rc (rl : run) : ahead true rc rl = false -> pos_le rc rl.
  Proof.
    unfold ahead, pos_le. intro H. apply orb_false_iff in H. destruct H as [H1 H2]. apply Nat.ltb_ge in H1.
    simpl in H2. destruct (Nat.eqb_spec (r_idx rl) (s_idx rc)) as [Heq|Hne]; simpl in H2.
    - apply Nat.ltb_ge in H2. right. split; [symmetry; exact Heq | exact H2].
    - left. lia.
  Qed.

  (* after the `updated` records of a message have been applied, every record of a known non-singleton pattern
     is matched by an active run with the same id that is at least as far *)
  Lemma apply_updated_reaches cfg recs : forall (rt rt' : runtab) out,
    Inv E cfg rt -> apply_updated cfg true recs rt = (rt', out) ->
    forall rc p, In rc recs -> get_pattern cfg (s_ph rc) (s_pat rc) = Some p -> p_single p = false ->
    holds_active rt' rc.
  Proof.
    induction recs as [|rc0 rest IH]; intros rt rt' out Hinv H rc p Hin Hg Hns; [contradiction|].
    simpl in H. destruct (get_pattern cfg (s_ph rc0) (s_pat rc0)) as [p0|] eqn:Eg0.
    2:{ destruct Hin as [->|Hin]; [congruence|]. eapply IH; eauto. }
    pose proof (get_pattern_name E _ _ _ _ Eg0) as Hname0.
    destruct (if p_single p0 then hd_error (bucket (s_ph rc0) (p_name p0) rt)
              else run_at (s_ph rc0) (s_pat rc0) (s_id rc0) rt) as [rl|] eqn:Erl.
    - destruct (apply_updated cfg true rest _) as [rt2 out2] eqn:Ea. cbn in H. injection H as <- _.
      set (rl' := if ahead true rc0 rl then set_block rl (s_idx rc0) (s_hist rc0) else rl) in *.
      assert (Hinb : In rl (bucket (s_ph rc0) (p_name p0) rt)).
      { destruct (p_single p0); [now apply hd_error_in|].
        unfold run_at in Erl. apply find_some in Erl. rewrite Hname0. tauto. }
      pose proof Hinv as [Hwf [Hk Hrest]]. destruct (Hk _ _ _ Hinb) as [Hph Hpat].
      assert (Hinv' : Inv E cfg (rt_replace (s_ph rc0) (p_name p0) rl' rt)).
      { apply Inv_replace; [| |exact Hinv]; unfold rl'; destruct (ahead true rc0 rl); simpl; auto. }
      destruct Hin as [->|Hin]; [|eapply IH; eauto].
      rewrite Hg in Eg0. injection Eg0 as <-. rewrite Hns in Erl.
      assert (Hid : r_id rl = s_id rc).
      { unfold run_at in Erl. apply find_some in Erl. destruct Erl as [_ He]. now apply Z.eqb_eq in He. }
      assert (Hin1 : In rl' (bucket (s_ph rc) (s_pat rc) (rt_replace (s_ph rc) (p_name p) rl' rt))).
      { rewrite bucket_replace. unfold same. rewrite Hname0, !Z.eqb_refl. simpl.
        apply in_map_iff. exists rl. split; [|rewrite <- Hname0; exact Hinb].
        assert (Hid' : r_id rl' = r_id rl) by (unfold rl'; destruct (ahead true rc rl); reflexivity).
        rewrite Hid', Z.eqb_refl. reflexivity. }
      assert (Hpos : pos_le rc rl').
      { unfold rl'. destruct (ahead true rc rl) eqn:Ah; [|now apply not_ahead_pos_le].
        unfold pos_le. simpl. right. split; [reflexivity | lia]. }
      destruct (apply_updated_never_backwards E cfg true rest _ _ _ (s_ph rc) (s_pat rc) Hinv' Ea rl' Hin1)
        as [r2 [Hr2 Hle]].
      exists r2. split; [exact Hr2|]. split; [|eapply pos_le_run_le; eauto].
      destruct Hle as [Hi _]. rewrite Hi. unfold rl'. destruct (ahead true rc rl); simpl; exact Hid.
    - destruct (apply_updated cfg true rest _) as [rt2 out2] eqn:Ea. cbn in H. injection H as <- _.
      set (nr := remote_run (s_id rc0) (s_ph rc0) p0 (s_idx rc0) (s_hist rc0)) in *.
      assert (Hinv' : Inv E cfg (match rt_add (s_ph rc0) (s_pat rc0) nr rt with Ok t => t | Exn _ => rt end)).
      { destruct (rt_add (s_ph rc0) (s_pat rc0) nr rt) as [rt1|] eqn:Eadd; [|exact Hinv].
        eapply Inv_add; eauto.
        intros q Hq Hsq. rewrite Eg0 in Hq. injection Hq as <-. rewrite Hsq in Erl. rewrite <- Hname0.
        destruct (bucket (s_ph rc0) (p_name p0) rt); [reflexivity|discriminate]. }
      destruct Hin as [->|Hin]; [|eapply IH; eauto].
      rewrite Hg in Eg0. injection Eg0 as <-. rewrite Hns in Erl.
      destruct (rt_add_ok E (s_ph rc) (s_pat rc) nr rt Erl) as [rt1 Eadd]. rewrite Eadd in *.
      assert (Hin1 : In nr (bucket (s_ph rc) (s_pat rc) rt1)).
      { rewrite (bucket_add E _ _ _ _ _ (s_ph rc) (s_pat rc) Eadd). unfold same. rewrite !Z.eqb_refl. simpl.
        apply in_or_app. right. now left. }
      destruct (apply_updated_never_backwards E cfg true rest _ _ _ (s_ph rc) (s_pat rc) Hinv' Ea nr Hin1)
        as [r2 [Hr2 Hle]].
      exists r2. split; [exact Hr2|]. split.
      + destruct Hle as [Hi _]. rewrite Hi. reflexivity.
      + eapply pos_le_run_le; [|exact Hle]. unfold pos_le, nr. simpl. right. split; [reflexivity | lia].
  Qed.

  (* what the filter removes from the `updated` list, and why *)
  Lemma filter_upd_complete cfg (s : dstate) (m : note) rc :
    In rc (n_upd m) ->
    In rc (n_upd (filter_msg cfg s m)) \/
    zmem (s_id rc) (ids_of (n_comp m)) = true \/ zmem (s_id rc) (ids_of (n_halt m)) = true \/
    (c_maxcache cfg <> O /\ remembered E s (s_id rc) = true).
  Proof.
    intro Hin. unfold filter_msg, remembered.
    destruct (zmem (s_id rc) (ids_of (n_comp m))) eqn:E1; [right; left; reflexivity|].
    destruct (zmem (s_id rc) (ids_of (n_halt m))) eqn:E2; [right; right; left; reflexivity|].
    destruct (c_maxcache cfg) eqn:Em; simpl.
    - left. apply filter_In. split; [exact Hin|]. now rewrite E1, E2.
    - destruct (zmem (s_id rc) (ids_of (d_cc s))) eqn:E3; [right; right; right; split; [discriminate|reflexivity]|].
      destruct (zmem (s_id rc) (ids_of (d_ch s))) eqn:E4; [right; right; right; split; [discriminate|reflexivity]|].
      left. apply filter_In. split; [apply filter_In; split; [exact Hin|now rewrite E1, E2]|]. now rewrite E3, E4.
  Qed.

  (* ---- C06 snapshot_supersedes, active half: after ANY message m (a snapshot in particular) has been applied,
     every run that m reports as active is, at the receiver, finished (named so by m itself, or remembered from
     before) or active at least as far *)
  Theorem message_supersedes_active cfg (s s' : dstate) (m n : note) rc p :
    Inv E cfg (d_runs s) -> remote_apply cfg s m = (s', n) ->
    In rc (n_upd m) -> get_pattern cfg (s_ph rc) (s_pat rc) = Some p -> p_single p = false ->
    In (s_id rc) (ids_of (n_comp m)) \/ In (s_id rc) (ids_of (n_halt m)) \/
    (c_maxcache cfg <> O /\ remembered E s (s_id rc) = true) \/
    holds_active (d_runs s') rc.
  Proof.
    intros Hinv H Hin Hg Hns.
    destruct (filter_upd_complete cfg s m rc Hin) as [Hf|[Hc|[Hh|Hr]]].
    - right; right; right. unfold remote_apply, remote_apply_gen in H.
      destruct (apply_finished cfg true _ (d_runs s) _ _) as [[[rt1 cc1] ch1] comp] eqn:E1.
      destruct (apply_finished cfg false _ rt1 cc1 ch1) as [[[rt2 cc2] ch2] hlt] eqn:E2.
      destruct (apply_updated cfg true _ rt2) as [rt3 upd] eqn:E3.
      injection H as <- _. simpl.
      eapply apply_updated_reaches; [| exact E3 | exact Hf | exact Hg | exact Hns].
      eapply Inv_apply_finished; [exact E2|]. eapply Inv_apply_finished; [exact E1 | exact Hinv].
    - left. now apply zmem_in.
    - right; left. now apply zmem_in.
    - right; right; left. exact Hr.
  Qed.

  (* ---- finished half: with no singleton pattern the two memories are extended by exactly the filtered lists *)
  Definition no_singleton (cfg : config) : Prop :=
    forall ph pat p, get_pattern cfg ph pat = Some p -> p_single p = false.

  Lemma apply_finished_caches cfg which recs : forall (rt : runtab) cc ch rt' cc' ch' out,
    no_singleton cfg -> apply_finished cfg which recs rt cc ch = (rt', cc', ch', out) -> cc' = cc /\ ch' = ch.
  Proof.
    induction recs as [|rc rest IH]; intros rt cc ch rt' cc' ch' out Hns H.
    - simpl in H. injection H as _ <- <- _. auto.
    - simpl in H. destruct (get_pattern cfg (s_ph rc) (s_pat rc)) as [p|] eqn:Eg; [|eapply IH; eauto].
      rewrite (Hns _ _ _ Eg) in H.
      destruct (apply_finished cfg which rest _ cc ch) as [[[rt2 cc2] ch2] out2] eqn:Ea. cbn in H.
      injection H as _ <- <- _. eapply IH; eauto.
  Qed.

  Lemma dq_push_length maxlen (x : rserial) l :
    (length l < maxlen)%nat -> length (dq_push maxlen x l) = S (length l).
  Proof.
    intro Hl. unfold dq_push. destruct maxlen as [|k]; [lia|].
    rewrite app_length. simpl. replace (length l + 1 - S k)%nat with 0%nat by lia. simpl.
    rewrite app_length. simpl. lia.
  Qed.

  Lemma cache_push_in cfg (xs : list rserial) : forall l y,
    (length l + length xs <= c_maxcache cfg)%nat ->
    (In y (cache_push cfg l xs) <-> In y l \/ In y xs).
  Proof.
    unfold cache_push. induction xs as [|x xs IH]; intros l y Hl; simpl.
    - tauto.
    - simpl in Hl. rewrite IH.
      + rewrite (dq_push_in E) by lia. simpl. intuition.
      + rewrite dq_push_length by lia. lia.
  Qed.

  Lemma filter_length_le' {A} (f : A -> bool) (l : list A) : (length (filter f l) <= length l)%nat.
  Proof. induction l as [|a l IH]; simpl; [lia|]. destruct (f a); simpl; lia. Qed.

  Lemma zmem_ids_in (id : Z) (l : list rserial) : zmem id (ids_of l) = true <-> exists x, In x l /\ s_id x = id.
  Proof.
    rewrite zmem_in. unfold ids_of. rewrite in_map_iff. split; intros [x [A B]]; exists x; auto.
  Qed.

  (* every run that m reports as completed is remembered as completed afterwards; every run that m reports as
     halted is remembered afterwards (as halted, or as completed: completion wins); nothing remembered before is
     forgotten - provided the memories are enabled and do not overflow *)
  Theorem message_supersedes_finished cfg (s s' : dstate) (m n : note) :
    no_singleton cfg -> c_maxcache cfg <> O ->
    (length (d_cc s) + length (n_comp m) <= c_maxcache cfg)%nat ->
    (length (d_ch s) + length (n_halt m) <= c_maxcache cfg)%nat ->
    remote_apply cfg s m = (s', n) ->
    (forall rc, In rc (n_comp m) -> zmem (s_id rc) (ids_of (d_cc s')) = true) /\
    (forall rc, In rc (n_halt m) -> remembered E s' (s_id rc) = true) /\
    (forall id, remembered E s id = true -> remembered E s' id = true).
  Proof.
    intros Hns Hmc Hlc Hlh H. unfold remote_apply, remote_apply_gen in H.
    set (m1 := filter_msg cfg s m) in *.
    destruct (apply_finished cfg true _ (d_runs s) _ _) as [[[rt1 cc1] ch1] comp] eqn:E1.
    destruct (apply_finished cfg false _ rt1 cc1 ch1) as [[[rt2 cc2] ch2] hlt] eqn:E2.
    destruct (apply_updated cfg true _ rt2) as [rt3 upd] eqn:E3.
    injection H as <- _.
    destruct (apply_finished_caches _ _ _ _ _ _ _ _ _ _ Hns E1) as [-> ->].
    destruct (apply_finished_caches _ _ _ _ _ _ _ _ _ _ Hns E2) as [-> ->].
    assert (Hm1c : forall rc, In rc (n_comp m1) <-> In rc (n_comp m) /\ zmem (s_id rc) (ids_of (d_cc s)) = false).
    { intro rc. unfold m1, filter_msg. destruct (c_maxcache cfg); [congruence|]. simpl.
      rewrite filter_In, negb_true_iff. tauto. }
    assert (Hlen1 : (length (n_comp m1) <= length (n_comp m))%nat).
    { unfold m1, filter_msg. destruct (c_maxcache cfg); [lia|]. simpl. apply filter_length_le'. }
    assert (Hlen2 : (length (n_halt m1) <= length (n_halt m))%nat).
    { unfold m1, filter_msg. destruct (c_maxcache cfg); simpl.
      - apply filter_length_le'.
      - eapply Nat.le_trans; apply filter_length_le'. }
    assert (Hcc : forall y, In y (cache_push cfg (d_cc s) (n_comp m1)) <-> In y (d_cc s) \/ In y (n_comp m1))
      by (intro y; apply cache_push_in; lia).
    assert (Hch : forall y, In y (cache_push cfg (d_ch s) (n_halt m1)) <-> In y (d_ch s) \/ In y (n_halt m1))
      by (intro y; apply cache_push_in; lia).
    assert (HC : forall rc, In rc (n_comp m) -> zmem (s_id rc) (ids_of (cache_push cfg (d_cc s) (n_comp m1))) = true).
    { intros rc Hin. apply zmem_ids_in.
      destruct (zmem (s_id rc) (ids_of (d_cc s))) eqn:Ez.
      - apply zmem_ids_in in Ez. destruct Ez as [x [Hx Hid]]. exists x. split; [apply Hcc; left; exact Hx | exact Hid].
      - exists rc. split; [apply Hcc; right; apply Hm1c; auto | reflexivity]. }
    split; [exact HC|]. split.
    - intros rc Hin. unfold remembered. simpl.
      destruct (zmem (s_id rc) (ids_of (n_comp m))) eqn:Ec.
      + apply zmem_ids_in in Ec. destruct Ec as [x [Hx Hid]]. rewrite <- Hid. rewrite (HC x Hx). reflexivity.
      + destruct (zmem (s_id rc) (ids_of (d_cc s))) eqn:Ez.
        * apply zmem_ids_in in Ez. destruct Ez as [x [Hx Hid]].
          assert (Hz : zmem (s_id rc) (ids_of (cache_push cfg (d_cc s) (n_comp m1))) = true).
          { apply zmem_ids_in. exists x. split; [apply Hcc; left; exact Hx | exact Hid]. }
          rewrite Hz. reflexivity.
        * destruct (zmem (s_id rc) (ids_of (d_ch s))) eqn:Eh.
          -- apply zmem_ids_in in Eh. destruct Eh as [x [Hx Hid]].
             assert (Hz : zmem (s_id rc) (ids_of (cache_push cfg (d_ch s) (n_halt m1))) = true).
             { apply zmem_ids_in. exists x. split; [apply Hch; left; exact Hx | exact Hid]. }
             rewrite Hz. apply orb_true_r.
          -- assert (Hin1 : In rc (n_halt m1)).
             { unfold m1, filter_msg. destruct (c_maxcache cfg); [congruence|]. simpl.
               apply filter_In. split; [apply filter_In; split; [exact Hin | now rewrite Ec]|]. now rewrite Ez, Eh. }
             assert (Hz : zmem (s_id rc) (ids_of (cache_push cfg (d_ch s) (n_halt m1))) = true).
             { apply zmem_ids_in. exists rc. split; [apply Hch; right; exact Hin1 | reflexivity]. }
             rewrite Hz. apply orb_true_r.
    - intros id Hr. unfold remembered in *. simpl. apply orb_true_iff in Hr. apply orb_true_iff.
      destruct Hr as [Hr|Hr]; apply zmem_ids_in in Hr; destruct Hr as [x [Hx Hid]]; [left|right]; apply zmem_ids_in;
        exists x; (split; [|exact Hid]); [apply Hcc | apply Hch]; left; exact Hx.
  Qed.

  (* ---- C07: a restarted instance (empty decider) that applies a survivor's snapshot holds exactly the runs the
     snapshot reports as active: each of them at least as far, and nothing else *)
  Theorem fresh_restores cfg (m n : note) (s' : dstate) :
    remote_apply cfg d_init m = (s', n) ->
    (forall rc p, In rc (n_upd m) -> get_pattern cfg (s_ph rc) (s_pat rc) = Some p -> p_single p = false ->
                  ~ In (s_id rc) (ids_of (n_comp m)) -> ~ In (s_id rc) (ids_of (n_halt m)) ->
                  holds_active (d_runs s') rc) /\
    (forall ph pat r', In r' (bucket ph pat (d_runs s')) ->
                       exists rc, In rc (n_upd m) /\ s_id rc = r_id r' /\
                                  ~ In (r_id r') (ids_of (n_comp m)) /\ ~ In (r_id r') (ids_of (n_halt m))).
  Proof.
    intro H. split.
    - intros rc p Hin Hg Hns Hc Hh.
      destruct (message_supersedes_active cfg d_init s' m n rc p (Inv_nil E cfg) H Hin Hg Hns) as [A|[A|[[_ A]|A]]];
        try contradiction; [discriminate | exact A].
    - intros ph pat r' Hr'. pose proof H as H0. unfold remote_apply, remote_apply_gen in H.
      destruct (apply_finished cfg true _ (d_runs d_init) _ _) as [[[rt1 cc1] ch1] comp] eqn:E1.
      destruct (apply_finished cfg false _ rt1 cc1 ch1) as [[[rt2 cc2] ch2] hlt] eqn:E2.
      destruct (apply_updated cfg true _ rt2) as [rt3 upd] eqn:E3.
      injection H as <- _. simpl in Hr'.
      destruct (apply_updated_origin E cfg true _ _ _ _ ph pat r' E3 Hr') as [[r [Hr Hid]]|[rc [Hrc Hid]]].
      + exfalso. eapply (apply_finished_subset E) in Hr; [|exact E2].
        eapply (apply_finished_subset E) in Hr; [|exact E1]. simpl in Hr. exact Hr.
      + pose proof (halt_beats_progress E _ _ _ _ Hrc) as [H1 H2].
        apply filter_upd_spec in Hrc. destruct Hrc as [Hrc _].
        exists rc. rewrite <- Hid. auto.
  Qed.
  (* ---- the same two facts for m = snapshot of a sender si, in the sender's terms *)
  Corollary snapshot_supersedes_active cfg (si sj sj' : dstate) (n : note) (r : run) p :
    Inv E cfg (d_runs sj) -> remote_apply cfg sj (snapshot si) = (sj', n) ->
    In r (rt_all (d_runs si)) -> get_pattern cfg (r_ph r) (p_name (r_pat r)) = Some p -> p_single p = false ->
    In (r_id r) (ids_of (d_cc si)) \/ In (r_id r) (ids_of (d_ch si)) \/
    (c_maxcache cfg <> O /\ remembered E sj (r_id r) = true) \/
    holds_active (d_runs sj') (ser r).
  Proof.
    intros Hinv H Hin Hg Hns.
    apply (message_supersedes_active cfg sj sj' (snapshot si) n (ser r) p Hinv H); [|exact Hg|exact Hns].
    unfold snapshot. simpl. apply in_map. exact Hin.
  Qed.

  Corollary snapshot_supersedes_finished cfg (si sj sj' : dstate) (n : note) :
    no_singleton cfg -> c_maxcache cfg <> O ->
    (length (d_cc sj) + length (d_cc si) <= c_maxcache cfg)%nat ->
    (length (d_ch sj) + length (d_ch si) <= c_maxcache cfg)%nat ->
    remote_apply cfg sj (snapshot si) = (sj', n) ->
    (forall rc, In rc (d_cc si) -> zmem (s_id rc) (ids_of (d_cc sj')) = true) /\
    (forall rc, In rc (d_ch si) -> remembered E sj' (s_id rc) = true) /\
    (forall id, remembered E sj id = true -> remembered E sj' id = true).
  Proof. intros Hns Hmc Hc Hh H. exact (message_supersedes_finished cfg sj sj' (snapshot si) n Hns Hmc Hc Hh H). Qed.
End ReplicationDecider.
