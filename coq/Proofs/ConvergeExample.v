(* C04: the hypotheses of C04_model_convergence are satisfiable - two deciders, a non-singleton pattern a ; b,
   event a at instance 0, its note delivered to instance 1: everything announced has been delivered and both hold
   the run at the same status. *)
From Bobo Require Import Base.Prelude Base.History Model.Pattern Model.Run Model.Decider Model.Cluster Model.PredLang.
From Bobo Require Import Model.Converge Model.ConvergeC.
From Bobo Require Import Proofs.DeciderLemmas Proofs.DeciderProofs Proofs.LocalProofs Proofs.SimProofs.

Definition cx_cd : cdesc :=
  CD [(1, [PD 1 [BD [PDataEq 1] 1 false false false false; BD [PDataEq 2] 2 false false false false] [] [] false])] 5 1000.
Definition cx_cfg : config ev := mk_cfg cx_cd.
Definition cx_gen (k n : nat) : Z := 1000 * Z.of_nat (S k) + Z.of_nat n.
Definition cx_owner (_ : Z) : Z * Z := (1, 1).
Definition cx_e0 : ev := mkEv 0 0 0 1 0 0.

Definition cx_s1 : dstate ev :=
  match local_step (icfg cx_cfg cx_gen 0) d_init cx_e0 with Ok (s, _) => s | Exn _ => d_init end.
Definition cx_n1 : note ev :=
  match local_step (icfg cx_cfg cx_gen 0) d_init cx_e0 with Ok (_, n) => n | Exn _ => mkNote [] [] [] end.
Definition cx_s1' : dstate ev := fst (remote_apply (icfg cx_cfg cx_gen 1) d_init cx_n1).

Definition cx_c1 : ccl ev := mkC ev (fun k => if Nat.eqb k 0 then cx_s1 else d_init) (mfacts 0 cx_n1).
Definition cx_c2 : ccl ev :=
  mkC ev (fun k => if Nat.eqb k 0 then cx_s1 else if Nat.eqb k 1 then cx_s1' else d_init) (mfacts 0 cx_n1).

Lemma cx_pat ph pat p : get_pattern cx_cfg ph pat = Some p -> p_single p = false.
Proof.
  unfold get_pattern, cx_cfg, mk_cfg. simpl.
  destruct (Z.eqb_spec ph 1) as [->|]; [|discriminate]. cbn.
  destruct pat as [|q|q]; try discriminate. destruct q as [q|q|]; try discriminate. intros [= <-]. reflexivity.
Qed.

Lemma cx_cfg_wf : cfg_wf ev cx_cfg.
Proof.
  split; simpl.
  - constructor; [intros []|constructor].
  - constructor; [|constructor]. simpl. constructor; [intros []|constructor].
Qed.

Lemma cx_step1 : local_step (icfg cx_cfg cx_gen 0) d_init cx_e0 = Ok (cx_s1, cx_n1).
Proof. vm_compute. reflexivity. Qed.

Lemma cx_n1_upd : n_comp cx_n1 = [] /\ n_halt cx_n1 = [] /\ map (@s_id ev) (n_upd cx_n1) = [1000] /\
                  map (@s_ph ev) (n_upd cx_n1) = [1] /\ map (@s_pat ev) (n_upd cx_n1) = [1].
Proof. vm_compute. repeat split; reflexivity. Qed.

Lemma cx_step2 : remote_apply (icfg cx_cfg cx_gen 1) d_init cx_n1 = (cx_s1', snd (remote_apply (icfg cx_cfg cx_gen 1) d_init cx_n1)).
Proof. unfold cx_s1'. destruct (remote_apply _ _ _). reflexivity. Qed.

Lemma cx_csteps : csteps ev cx_owner cx_cfg cx_gen (c_init ev) cx_c2.
Proof.
  eapply CS_step; [eapply CS_step; [apply CS_refl|]|].
  - (* event a at instance 0 *)
    apply (C_local ev cx_owner cx_cfg cx_gen 0 (c_init ev) cx_c1 cx_e0 cx_n1).
    + exact cx_step1.
    + vm_compute. split; repeat constructor.
    + unfold note_owned. vm_compute. repeat constructor.
    + intros k Hk. simpl. destruct k; [congruence|reflexivity].
    + reflexivity.
  - (* its note is delivered to instance 1 *)
    apply (C_deliver ev cx_owner cx_cfg cx_gen 0 1 cx_c1 cx_c2 cx_n1 (snd (remote_apply (icfg cx_cfg cx_gen 1) d_init cx_n1))).
    + intros f Hf. exact Hf.
    + unfold wf_msg, wf_rec. vm_compute. repeat split; repeat constructor.
      eexists. reflexivity.
    + vm_compute. split; repeat constructor.
    + exact cx_step2.
    + intros k Hk. simpl. destruct k as [|[|k]]; [reflexivity|congruence|reflexivity].
    + reflexivity.
Qed.

Lemma cx_all_delivered : all_delivered 2 (abs ev cx_owner cx_c2).
Proof.
  intros f j Hj Hf.
  assert (Hem : a_emitted (abs ev cx_owner cx_c2) = [(0%nat, 1000, Active 1 1)]) by (vm_compute; reflexivity).
  rewrite Hem in Hf. destruct Hf as [<-|[]]. cbn [fst snd].
  destruct j as [|[|j]]; [vm_compute; reflexivity|vm_compute; reflexivity|lia].
Qed.

Lemma cx_statuses : cstatus cx_owner (c_st ev cx_c2 0) 1000 = Active 1 1 /\ cstatus cx_owner (c_st ev cx_c2 1) 1000 = Active 1 1.
Proof. split; vm_compute; reflexivity. Qed.

(* ---- C05: ... then event b at instance 1 completes the run there, and the old note arrives once more ---- *)
Definition cx_e1 : ev := mkEv 1 1 0 2 0 0.
Definition cx_s2' : dstate ev :=
  match local_step (icfg cx_cfg cx_gen 1) cx_s1' cx_e1 with Ok (s, _) => s | Exn _ => d_init end.
Definition cx_n2 : note ev :=
  match local_step (icfg cx_cfg cx_gen 1) cx_s1' cx_e1 with Ok (_, n) => n | Exn _ => mkNote [] [] [] end.
Definition cx_s3' : dstate ev := fst (remote_apply (icfg cx_cfg cx_gen 1) cx_s2' cx_n1).

Definition cx_c3 : ccl ev :=
  mkC ev (fun k => if Nat.eqb k 0 then cx_s1 else if Nat.eqb k 1 then cx_s2' else d_init) (mfacts 0 cx_n1 ++ mfacts 1 cx_n2).
Definition cx_c4 : ccl ev :=
  mkC ev (fun k => if Nat.eqb k 0 then cx_s1 else if Nat.eqb k 1 then cx_s3' else d_init) (mfacts 0 cx_n1 ++ mfacts 1 cx_n2).

Lemma cx_step3 : local_step (icfg cx_cfg cx_gen 1) cx_s1' cx_e1 = Ok (cx_s2', cx_n2).
Proof. vm_compute. reflexivity. Qed.

Lemma cx_step4 : remote_apply (icfg cx_cfg cx_gen 1) cx_s2' cx_n1 = (cx_s3', snd (remote_apply (icfg cx_cfg cx_gen 1) cx_s2' cx_n1)).
Proof. unfold cx_s3'. destruct (remote_apply _ _ _). reflexivity. Qed.

Lemma cx_good2 : good ev cx_owner cx_cfg cx_gen cx_c2.
Proof.
  apply (csteps_refine ev cx_owner cx_cfg cx_gen cx_pat cx_cfg_wf) with (c := c_init ev).
  - discriminate.
  - apply good_init.
  - exact cx_csteps.
Qed.

Lemma cx_csteps_more : csteps ev cx_owner cx_cfg cx_gen cx_c2 cx_c4.
Proof.
  eapply CS_step; [eapply CS_step; [apply CS_refl|]|].
  - apply (C_local ev cx_owner cx_cfg cx_gen 1 cx_c2 cx_c3 cx_e1 cx_n2).
    + exact cx_step3.
    + vm_compute. split; repeat constructor.
    + unfold note_owned. vm_compute. repeat constructor.
    + intros k Hk. simpl. destruct k as [|[|k]]; [reflexivity|congruence|reflexivity].
    + reflexivity.
  - (* the stale note of the first step, delivered again after the run completed at instance 1 *)
    apply (C_deliver ev cx_owner cx_cfg cx_gen 0 1 cx_c3 cx_c4 cx_n1 (snd (remote_apply (icfg cx_cfg cx_gen 1) cx_s2' cx_n1))).
    + intros f Hf. change (In f (mfacts 0 cx_n1 ++ mfacts 1 cx_n2)). apply in_or_app. now left.
    + unfold wf_msg, wf_rec. vm_compute. repeat split; repeat constructor. eexists. reflexivity.
    + vm_compute. split; repeat constructor.
    + exact cx_step4.
    + intros k Hk. simpl. destruct k as [|[|k]]; [reflexivity|congruence|reflexivity].
    + reflexivity.
Qed.

Lemma cx_completed : cstatus cx_owner (c_st ev cx_c3 1) 1000 = Completed /\ cstatus cx_owner (c_st ev cx_c4 1) 1000 = Completed /\
                     rt_all (d_runs (c_st ev cx_c4 1)) = [].
Proof. repeat split; vm_compute; reflexivity. Qed.
