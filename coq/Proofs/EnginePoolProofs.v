(* C02 with the asynchronous (pool) action handlers: conservation, quiescence and progress of Model/EnginePool.v. *)
From Bobo Require Import Base.Prelude Base.History Model.Pattern Model.Run Model.Decider Model.PredLang Model.Engine
                         Model.EnginePool.
From Bobo Require Import Proofs.EngineProofs.
From Bobo Require Model.Action Proofs.ActionProofs.
From Coq Require Import Permutation.

(* ---------------------------------------------------------------- loops: anything every call preserves, the loop preserves *)
Section LoopFacts.
  Context {St : Type}.
  Variable P : St -> Prop.
  Variable f : St -> St * bool.
  Hypothesis Hf : forall s, P s -> P (fst (f s)).

  Lemma loop_while_g_pres fuel : forall s, P s -> P (loop_while_g f fuel s).
  Proof.
    induction fuel as [|k IH]; intros s H; simpl; [exact H|].
    specialize (Hf s H). destruct (f s) as [s' b]. simpl in Hf. destruct b; auto.
  Qed.

  Lemma loop_times_g_pres early n : forall s, P s -> P (loop_times_g f early n s).
  Proof.
    induction n as [|k IH]; intros s H; simpl; [exact H|].
    specialize (Hf s H). destruct (f s) as [s' b]. simpl in Hf. destruct (negb b && early); auto.
  Qed.

  Lemma run_task_g_pres times early fuel s : P s -> P (run_task_g f times early fuel s).
  Proof. intro H. unfold run_task_g. destruct times; [now apply loop_while_g_pres|now apply loop_times_g_pres]. Qed.
End LoopFacts.

(* Engine.v's loops are the instance at estate *)
Lemma loop_while_is_g f fuel : forall s, loop_while f fuel s = loop_while_g f fuel s.
Proof. induction fuel as [|k IH]; intro s; simpl; [reflexivity|]. destruct (f s) as [s' b]. destruct b; auto. Qed.
Lemma loop_times_is_g f early n : forall s, loop_times f early n s = loop_times_g f early n s.
Proof. induction n as [|k IH]; intro s; simpl; [reflexivity|]. destruct (f s) as [s' b]. destruct (negb b && early); auto. Qed.
Lemma run_task_is_g f times early fuel s : run_task f times early fuel s = run_task_g f times early fuel s.
Proof. unfold run_task, run_task_g. destruct times; [apply loop_while_is_g|apply loop_times_is_g]. Qed.

Lemma run_task_pres (P : estate -> Prop) f times early fuel :
  (forall s, P s -> P (fst (f s))) -> forall s, P s -> P (run_task f times early fuel s).
Proof. intros Hf s H. rewrite run_task_is_g. now apply run_task_g_pres. Qed.

(* the first call of a task in a cycle is unconditional *)
Lemma run_task_g_first {St} (f : St -> St * bool) times early fuel s :
  run_task_g f times early (S fuel) s =
  let '(s', b) := f s in
  match times with
  | O => if b then loop_while_g f fuel s' else s'
  | S k => if negb b && early then s' else loop_times_g f early k s'
  end.
Proof. unfold run_task_g. destruct times; simpl; destruct (f s); reflexivity. Qed.

Lemma fm_app {A B} (f : A -> list B) l1 l2 : flat_map f (l1 ++ l2) = flat_map f l1 ++ flat_map f l2.
Proof. induction l1; simpl; [reflexivity|]. now rewrite IHl1, app_assoc. Qed.

Ltac same Eq := simpl; first [assumption | rewrite Eq; assumption | rewrite <- Eq; assumption].

Section PoolInv.
  Variable cfg : config ev.
  Variable c : ecfg.

  Notation G p := (gh (base p)).

  (* ---------------------------------------------------------------- (a) conservation *)
  Record PInv (p : pstate) : Prop := {
    (* every item put into the receiver becomes exactly one event, same data, FIFO order *)
    v_stream : map proj_item (g_entry (G p)) =
               map proj_ev (g_seen (G p)) ++ map proj_ev (q_d (base p)) ++ map proj_item (q_r (base p));
    (* every completed record becomes exactly one complex event, in order; the rest waits in the producer queue *)
    v_complex : g_completed (G p) = map (fun x => (snd (fst x), snd x)) (g_complex (G p)) ++ q_p (base p);
    (* the forwarder receives exactly the local complex events (all of them when local_only is off) *)
    v_fwd_in : g_fwd_in (G p) =
               flat_map (fun x => if snd x || negb (local_only c) then [fst (fst x)] else []) (g_complex (G p));
    v_fwd : g_fwd_in (G p) = g_handled (G p) ++ q_f (base p);
    (* one execution (job handed to the pool) per handled complex event of a phenomenon that has an action *)
    v_exec : g_exec (G p) = flat_map (exec_of c) (g_handled (G p));
    (* every job is in exactly one place: finished (in completion order) or in flight *)
    v_resp : Permutation (g_exec (G p)) (p_done p ++ infl p);
    (* finished jobs' responses leave the response queue oldest first, each becoming exactly one action event *)
    v_done : p_done p = map snd (g_aevents (G p)) ++ q_h (base p);
    (* complex and action events re-enter the stream exactly once each *)
    v_feed_c : flat_map (kind_items 1) (g_entry (G p)) = map (fun x => fst (fst x)) (g_complex (G p));
    v_feed_a : flat_map (kind_items 2) (g_entry (G p)) = map fst (g_aevents (G p));
    (* what the events carry *)
    v_cev : Forall (fun x => let '(ce, r, _) := x in
                             ev_kind ce = 1 /\ ev_ph ce = s_ph r /\ ev_pat ce = s_pat r /\
                             ev_data ce = match datagen c (s_ph r) with Some d => d | None => -1 end)
                   (g_complex (G p));
    v_aev : Forall (fun x => ev_kind (fst x) = 2 /\ ev_data (fst x) = h_data (snd x) /\
                             ev_ph (fst x) = ev_ph (h_cev (snd x)) /\ ev_pat (fst x) = ev_pat (h_cev (snd x)))
                   (g_aevents (G p))
  }.

  Lemma PInv_init : PInv p_init.
  Proof. constructor; simpl; try reflexivity; constructor. Qed.

  Lemma PInv_add p d : PInv p -> PInv (on_base (fun s => add_item s (IData d)) p).
  Proof.
    intros [H1 H2 H3 H4 H5 H6 H7 H8 H9 H10 H11]. constructor; try assumption; simpl.
    - rewrite !map_app, H1. simpl. now rewrite <- !app_assoc.
    - rewrite fm_app. simpl. now rewrite app_nil_r.
    - rewrite fm_app. simpl. now rewrite app_nil_r.
  Qed.

  Lemma PInv_recv p : PInv p -> PInv (fst (lift recv_update p)).
  Proof.
    intros [H1 H2 H3 H4 H5 H6 H7 H8 H9 H10 H11]. unfold lift, recv_update.
    destruct (q_r (base p)) as [|[d|e] rest] eqn:Eq; simpl.
    - constructor; same Eq.
    - constructor; try assumption; simpl. rewrite H1. simpl. rewrite !map_app. simpl. now rewrite <- !app_assoc.
    - constructor; try assumption; simpl. rewrite H1. simpl. rewrite !map_app. simpl. now rewrite <- !app_assoc.
  Qed.

  Lemma PInv_dec p : PInv p -> PInv (fst (lift (dec_update cfg) p)).
  Proof.
    intros [H1 H2 H3 H4 H5 H6 H7 H8 H9 H10 H11]. unfold lift, dec_update.
    destruct (q_d (base p)) as [|e rest] eqn:Eq; simpl.
    - constructor; same Eq.
    - destruct (local_step cfg (dec (base p)) e) as [[d' n]|k]; simpl; constructor; try assumption; simpl.
      + rewrite H1. simpl. rewrite !map_app. simpl. now rewrite <- !app_assoc.
      + rewrite H2. now rewrite app_assoc.
      + rewrite H1. simpl. rewrite !map_app. simpl. now rewrite <- !app_assoc.
  Qed.

  Lemma PInv_remote p m : PInv p -> PInv (on_base (fun s => remote_note cfg s m) p).
  Proof.
    intros [H1 H2 H3 H4 H5 H6 H7 H8 H9 H10 H11]. unfold on_base, remote_note.
    destruct (remote_apply cfg (dec (base p)) m) as [d' n]. constructor; try assumption; simpl.
    rewrite H2. now rewrite app_assoc.
  Qed.

  Lemma PInv_prod p : PInv p -> PInv (fst (lift (prod_update c) p)).
  Proof.
    intros [H1 H2 H3 H4 H5 H6 H7 H8 H9 H10 H11]. unfold lift, prod_update.
    destruct (q_p (base p)) as [|[r loc] rest] eqn:Eq; [simpl; constructor; same Eq|].
    simpl. constructor; try assumption; simpl.
    - rewrite !map_app, H1. simpl. now rewrite <- !app_assoc.
    - rewrite H2, map_app. simpl. now rewrite <- app_assoc.
    - rewrite fm_app. simpl. destruct (loc || negb (local_only c)); rewrite H3; [reflexivity|now rewrite !app_nil_r].
    - destruct (loc || negb (local_only c)); [rewrite H4; now rewrite app_assoc|exact H4].
    - rewrite fm_app, H8, map_app. simpl. reflexivity.
    - rewrite fm_app, H9. simpl. now rewrite app_nil_r.
    - apply Forall_app. split; [exact H10|]. constructor; [|constructor]. simpl. auto.
  Qed.

  (* handing a complex event to the pool handler: the job is in flight, nothing else moves *)
  Lemma PInv_handle p : PInv p -> PInv (fst (fwd_handle_pool c p)).
  Proof.
    intros [H1 H2 H3 H4 H5 H6 H7 H8 H9 H10 H11]. unfold fwd_handle_pool.
    destruct (q_f (base p)) as [|ce rest] eqn:Eq; [simpl; constructor; same Eq|].
    destruct (act c (ev_ph ce)) as [a|] eqn:Ea; simpl; constructor; try assumption; simpl.
    - rewrite H4. now rewrite <- app_assoc.
    - rewrite fm_app, H5. simpl. unfold exec_of. rewrite Ea. simpl. reflexivity.
    - rewrite app_assoc. apply Permutation_app_tail. exact H6.
    - rewrite H4. now rewrite <- app_assoc.
    - rewrite fm_app, H5. simpl. unfold exec_of. rewrite Ea. simpl. now rewrite ?app_nil_r.
  Qed.

  (* one poll of the handler: the oldest response becomes one action event, which re-enters the receiver *)
  Lemma PInv_responses p : PInv p -> PInv (fst (fwd_responses p)).
  Proof.
    intros [H1 H2 H3 H4 H5 H6 H7 H8 H9 H10 H11]. unfold fwd_responses.
    destruct (q_h (base p)) as [|h rest] eqn:Eq; [simpl; constructor; same Eq|].
    simpl. constructor; try assumption; simpl.
    - rewrite !map_app, H1. simpl. now rewrite <- !app_assoc.
    - rewrite H7, map_app. simpl. now rewrite <- app_assoc.
    - rewrite fm_app, H8. simpl. now rewrite app_nil_r.
    - rewrite fm_app, H9, map_app. simpl. reflexivity.
    - apply Forall_app. split; [exact H11|]. constructor; [|constructor]. simpl. auto.
  Qed.

  Lemma PInv_fwd p : PInv p -> PInv (fst (fwd_update_pool c p)).
  Proof.
    intro H. unfold fwd_update_pool.
    pose proof (PInv_handle p H) as H1. destruct (fwd_handle_pool c p) as [p1 b1]. simpl in H1.
    pose proof (PInv_responses p1 H1) as H2. destruct (fwd_responses p1) as [p2 b2]. exact H2.
  Qed.

  (* a worker finishes, ANY in-flight job: its response joins the tail of the response queue *)
  Lemma PInv_complete p k : PInv p -> PInv (complete k p).
  Proof.
    intros [H1 H2 H3 H4 H5 H6 H7 H8 H9 H10 H11]. unfold complete.
    destruct (nth_error (infl p) k) as [r|] eqn:En; [|constructor; assumption].
    constructor; try assumption; simpl.
    - apply perm_trans with (1 := H6). rewrite <- app_assoc. apply Permutation_app_head.
      apply perm_trans with (r :: Action.remove_nth k (infl p)); [now apply ActionProofs.remove_nth_perm|].
      reflexivity.
    - rewrite H7. now rewrite app_assoc.
  Qed.

  (* ---------- every interleaving at the grain of single task updates, worker completions anywhere ---------- *)
  Lemma PInv_mstep p o : PInv p -> PInv (mstep cfg c p o).
  Proof.
    intro H. destruct o; simpl.
    - now apply PInv_add.
    - now apply PInv_remote.
    - now apply PInv_complete.
    - now apply PInv_recv.
    - now apply PInv_dec.
    - now apply PInv_prod.
    - now apply PInv_handle.
    - now apply PInv_responses.
  Qed.

  Theorem PInv_micro_reachable ops : PInv (mapply cfg c p_init ops).
  Proof.
    unfold mapply. assert (G : forall p, PInv p -> PInv (fold_left (mstep cfg c) ops p)).
    { induction ops as [|o rest IH]; intros p H; simpl; [exact H|]. apply IH. now apply PInv_mstep. }
    apply G, PInv_init.
  Qed.

  (* ---------- BoboEngine.update ---------- *)
  Lemma lift_fst f s i d : fst (lift f (mkP s i d)) = mkP (fst (f s)) i d.
  Proof. reflexivity. Qed.

  Theorem PInv_engine_update p : PInv p -> PInv (engine_update_pool cfg c p).
  Proof.
    intro H. unfold engine_update_pool. destruct p as [s i d]. simpl base. simpl infl. simpl p_done.
    apply run_task_g_pres; [apply PInv_fwd|].
    apply (run_task_pres (fun s => PInv (mkP s i d))); [intros s' H'; rewrite <- lift_fst; now apply PInv_prod|].
    apply (run_task_pres (fun s => PInv (mkP s i d))); [intros s' H'; rewrite <- lift_fst; now apply PInv_dec|].
    apply (run_task_pres (fun s => PInv (mkP s i d))); [intros s' H'; rewrite <- lift_fst; now apply PInv_recv|].
    exact H.
  Qed.

  Lemma PInv_pstep p o : PInv p -> PInv (pstep cfg c p o).
  Proof.
    intro H. destruct o; simpl; [now apply PInv_add|now apply PInv_engine_update|now apply PInv_complete|now apply PInv_remote].
  Qed.

  (* every interleaving of add_data, update(), worker completions (any job, any time) and remote notes *)
  Theorem PInv_reachable ops : PInv (papply cfg c p_init ops).
  Proof.
    unfold papply. assert (G : forall p, PInv p -> PInv (fold_left (pstep cfg c) ops p)).
    { induction ops as [|o rest IH]; intros p H; simpl; [exact H|]. apply IH. now apply PInv_pstep. }
    apply G, PInv_init.
  Qed.

  (* ---------- consequences in the property's words ---------- *)
  (* every job is in exactly one of: reported by an action event, response queue, in flight *)
  Theorem jobs_conserved p :
    PInv p -> Permutation (flat_map (exec_of c) (g_handled (G p)))
                          (map snd (g_aevents (G p)) ++ q_h (base p) ++ infl p).
  Proof. intros H. rewrite <- (v_exec p H), app_assoc, <- (v_done p H). exact (v_resp p H). Qed.

  Theorem jobs_counted p :
    PInv p -> (length (g_exec (G p)) = length (g_aevents (G p)) + length (q_h (base p)) + length (infl p))%nat.
  Proof.
    intro H. rewrite (Permutation_length (v_resp p H)), (v_done p H), !app_length, map_length. lia.
  Qed.

  (* each action event reports a job that was really handed over, for a handled complex event of a phenomenon with
     an action, and carries THAT job's action name, success flag and data, and its complex event's names *)
  Theorem action_event_reports_own_job p ae r :
    PInv p -> In (ae, r) (g_aevents (G p)) ->
    exists a, In (h_cev r) (g_handled (G p)) /\ act c (ev_ph (h_cev r)) = Some a /\
              r = mkResp (a_name a) (h_cev r) (a_ok a) (a_data a) /\
              ev_kind ae = 2 /\ ev_data ae = a_data a /\ ev_ph ae = ev_ph (h_cev r) /\ ev_pat ae = ev_pat (h_cev r).
  Proof.
    intros H Hin.
    assert (Hr : In r (g_exec (G p))).
    { apply (Permutation_in r (Permutation_sym (v_resp p H))). apply in_or_app. left. rewrite (v_done p H).
      apply in_or_app. left. apply in_map_iff. exists (ae, r). auto. }
    rewrite (v_exec p H) in Hr. apply in_flat_map in Hr. destruct Hr as [ce [Hce Hx]].
    unfold exec_of in Hx. destruct (act c (ev_ph ce)) as [a|] eqn:Ea; [|contradiction].
    destruct Hx as [Hx|[]]. subst r. simpl. exists a. rewrite Ea.
    pose proof (v_aev p H) as Hf. rewrite Forall_forall in Hf. specialize (Hf _ Hin). simpl in Hf.
    destruct Hf as [K1 [K2 [K3 K4]]]. repeat split; auto.
  Qed.

  (* ---------------------------------------------------------------- (b) quiescence *)
  Definition pquiescent (p : pstate) : Prop :=
    q_r (base p) = [] /\ q_d (base p) = [] /\ q_p (base p) = [] /\ q_f (base p) = [] /\
    q_h (base p) = [] /\ infl p = [].

  Theorem pool_one_to_one_at_quiescence p :
    PInv p -> pquiescent p ->
    map proj_item (g_entry (G p)) = map proj_ev (g_seen (G p)) /\
    g_completed (G p) = map (fun x => (snd (fst x), snd x)) (g_complex (G p)) /\
    g_exec (G p) = flat_map (exec_of c)
                     (flat_map (fun x => if snd x || negb (local_only c) then [fst (fst x)] else []) (g_complex (G p))) /\
    Permutation (g_exec (G p)) (map snd (g_aevents (G p))) /\
    flat_map (kind_items 1) (g_entry (G p)) = map (fun x => fst (fst x)) (g_complex (G p)) /\
    flat_map (kind_items 2) (g_entry (G p)) = map fst (g_aevents (G p)).
  Proof.
    intros [H1 H2 H3 H4 H5 H6 H7 H8 H9 H10 H11] [Q1 [Q2 [Q3 [Q4 [Q5 Q6]]]]].
    rewrite Q1, Q2 in H1. rewrite Q3 in H2. rewrite Q4 in H4. rewrite Q5 in H7. rewrite Q6 in H6.
    simpl in *. rewrite !app_nil_r in *. repeat split; auto.
    - rewrite H5, <- H4, H3. reflexivity.
    - rewrite <- H7. exact H6.
  Qed.

  (* ---------------------------------------------------------------- (c) progress *)
  (* what the other steps leave alone *)
  Definition hview (s : estate) := (q_h s, g_aevents (gh s)).

  Lemma recv_hview s : hview (fst (recv_update s)) = hview s.
  Proof. unfold recv_update. destruct (q_r s) as [|[d|e] rest]; reflexivity. Qed.
  Lemma dec_hview s : hview (fst (dec_update cfg s)) = hview s.
  Proof.
    unfold dec_update. destruct (q_d s) as [|e rest]; [reflexivity|].
    destruct (local_step cfg (dec s) e) as [[d' n]|k]; reflexivity.
  Qed.
  Lemma prod_hview s : hview (fst (prod_update c s)) = hview s.
  Proof. unfold prod_update. destruct (q_p s) as [|[r l] rest]; reflexivity. Qed.
  Lemma handle_hview p : hview (base (fst (fwd_handle_pool c p))) = hview (base p).
  Proof.
    unfold fwd_handle_pool. destruct (q_f (base p)) as [|ce rest]; [reflexivity|].
    destruct (act c (ev_ph ce)); reflexivity.
  Qed.

  (* action events are only ever appended *)
  Definition aev_ext (a0 : list (ev * hresp)) (p : pstate) : Prop := exists more, g_aevents (G p) = a0 ++ more.

  Lemma fwd_aev_ext a0 p : aev_ext a0 p -> aev_ext a0 (fst (fwd_update_pool c p)).
  Proof.
    intros [more Hm]. unfold fwd_update_pool.
    pose proof (handle_hview p) as Hh. destruct (fwd_handle_pool c p) as [p1 b1]. simpl in Hh.
    unfold hview in Hh. injection Hh as Hq Ha.
    unfold fwd_responses. destruct (q_h (base p1)) as [|h rest]; simpl.
    - exists more. now rewrite Ha.
    - exists (more ++ [(mkEv (e_next (base p1)) (e_next (base p1)) 2 (h_data h) (ev_ph (h_cev h)) (ev_pat (h_cev h)), h)]).
      rewrite Ha, Hm. now rewrite app_assoc.
  Qed.

  (* one forwarder update with a waiting response takes the OLDEST one, whatever the forwarder queue holds *)
  Lemma fwd_update_takes_head p h rest :
    q_h (base p) = h :: rest ->
    exists ae, g_aevents (gh (base (fst (fwd_update_pool c p)))) = g_aevents (G p) ++ [(ae, h)] /\
               q_h (base (fst (fwd_update_pool c p))) = rest /\
               snd (fwd_update_pool c p) = true /\
               ev_kind ae = 2 /\ ev_data ae = h_data h.
  Proof.
    intro Hq. unfold fwd_update_pool.
    pose proof (handle_hview p) as Hh. destruct (fwd_handle_pool c p) as [p1 b1]. simpl in Hh.
    unfold hview in Hh. injection Hh as Hq1 Ha. rewrite Hq in Hq1.
    unfold fwd_responses. rewrite Hq1. simpl.
    eexists. rewrite Ha. repeat split. apply orb_true_r.
  Qed.

  (* BoboEngine.update reaches the forwarder with the response queue it started with *)
  Lemma before_forwarder (s : estate) :
    let s1 := run_task recv_update (t_r c) (early c) (S (length (q_r s))) s in
    let s2 := run_task (dec_update cfg) (t_d c) (early c) (S (length (q_d s1))) s1 in
    let s3 := run_task (prod_update c) (t_p c) (early c) (S (length (q_p s2))) s2 in
    hview s3 = hview s.
  Proof.
    intros s1 s2 s3. subst s3.
    apply (run_task_pres (fun x => hview x = hview s)); [intros x Hx; now rewrite prod_hview|].
    subst s2. apply (run_task_pres (fun x => hview x = hview s)); [intros x Hx; now rewrite dec_hview|].
    subst s1. apply (run_task_pres (fun x => hview x = hview s)); [intros x Hx; now rewrite recv_hview|].
    reflexivity.
  Qed.

  (* (c) a cycle that starts with a non-empty response queue turns its oldest response into an action event -
     for EVERY configuration and whatever the four task queues hold, in particular when all of them are empty *)
  Theorem update_delivers_oldest_response p h rest :
    q_h (base p) = h :: rest ->
    exists ae more,
      g_aevents (gh (base (engine_update_pool cfg c p))) = g_aevents (G p) ++ (ae, h) :: more /\
      ev_kind ae = 2 /\ ev_data ae = h_data h.
  Proof.
    intro Hq. unfold engine_update_pool.
    pose proof (before_forwarder (base p)) as Hb. cbv zeta in Hb.
    set (s3 := run_task (prod_update c) _ _ _ _) in *.
    unfold hview in Hb. injection Hb as Hq3 Ha3. rewrite Hq in Hq3.
    rewrite run_task_g_first.
    destruct (fwd_update_takes_head (mkP s3 (infl p) (p_done p)) h rest Hq3) as [ae [Ha [_ [Hb [K1 K2]]]]].
    simpl base in Ha. rewrite Ha3 in Ha.
    destruct (fwd_update_pool c (mkP s3 (infl p) (p_done p))) as [p' b]. simpl in Ha, Hb. subst b.
    assert (He : aev_ext (g_aevents (G p) ++ [(ae, h)]) p') by (exists []; now rewrite app_nil_r).
    assert (Hfin : aev_ext (g_aevents (G p) ++ [(ae, h)])
                     match t_f c with
                     | O => loop_while_g (fwd_update_pool c) (length (q_f s3) + length (q_h s3)) p'
                     | S k => if negb true && early c then p' else loop_times_g (fwd_update_pool c) (early c) k p'
                     end).
    { destruct (t_f c) as [|k]; simpl.
      - apply loop_while_g_pres; [apply fwd_aev_ext|exact He].
      - apply loop_times_g_pres; [apply fwd_aev_ext|exact He]. }
    destruct Hfin as [more Hm]. exists ae, more. rewrite Hm, <- app_assoc. simpl. auto.
  Qed.

  (* ---------- no response is stranded: position i of the completion log is action event i after enough cycles ---------- *)
  Lemma fwd_done_same p : p_done (fst (fwd_update_pool c p)) = p_done p.
  Proof.
    unfold fwd_update_pool, fwd_handle_pool, fwd_responses.
    destruct (q_f (base p)) as [|ce rest]; [|destruct (act c (ev_ph ce))]; simpl;
      match goal with |- context [match ?q with [] => _ | _ :: _ => _ end] => destruct q end; reflexivity.
  Qed.

  Lemma update_done_same p : p_done (engine_update_pool cfg c p) = p_done p.
  Proof.
    unfold engine_update_pool.
    apply (run_task_g_pres (fun x => p_done x = p_done p)); [intros x Hx; now rewrite fwd_done_same|reflexivity].
  Qed.

  Lemma update_aev_ext p : aev_ext (g_aevents (G p)) (engine_update_pool cfg c p).
  Proof.
    unfold engine_update_pool.
    pose proof (before_forwarder (base p)) as Hb. cbv zeta in Hb.
    set (s3 := run_task (prod_update c) _ _ _ _) in *. unfold hview in Hb. injection Hb as _ Ha3.
    apply run_task_g_pres; [apply fwd_aev_ext|]. exists []. simpl. now rewrite app_nil_r.
  Qed.

  Lemma pstep_done_ext p o : exists ext, p_done (pstep cfg c p o) = p_done p ++ ext.
  Proof.
    destruct o; simpl.
    - exists []. now rewrite app_nil_r.
    - exists []. now rewrite update_done_same, app_nil_r.
    - unfold complete. destruct (nth_error (infl p) k) as [r|]; [exists [r]; reflexivity|exists []; now rewrite app_nil_r].
    - exists []. now rewrite app_nil_r.
  Qed.

  Lemma pstep_aev_mono p o : (length (g_aevents (G p)) <= length (g_aevents (G (pstep cfg c p o))))%nat.
  Proof.
    destruct o; simpl; try lia.
    - destruct (update_aev_ext p) as [more Hm]. rewrite Hm, app_length. lia.
    - unfold complete. destruct (nth_error (infl p) k); simpl; lia.
    - unfold remote_note. destruct (remote_apply cfg (dec (base p)) m). simpl. lia.
  Qed.

  Fixpoint count_updates (ops : list pop) : nat :=
    match ops with [] => O | PUpdate :: rest => S (count_updates rest) | _ :: rest => count_updates rest end.

  (* the i-th job to finish is reported by the i-th action event once update() has been called (i + 1 - delivered)
     times, whatever happens in between (more input, more completions, remote notes), for every configuration *)
  Theorem response_delivered_within p i h :
    PInv p -> nth_error (p_done p) i = Some h ->
    forall ops, (i < count_updates ops + length (g_aevents (G p)))%nat ->
    nth_error (map snd (g_aevents (G (papply cfg c p ops)))) i = Some h.
  Proof.
    intros H Hn ops. revert p H Hn. unfold papply.
    induction ops as [|o rest IH]; intros p H Hn Hc; simpl in *.
    - rewrite (v_done p H) in Hn. rewrite nth_error_app1 in Hn by (rewrite map_length; lia). exact Hn.
    - apply IH.
      + now apply PInv_pstep.
      + destruct (pstep_done_ext p o) as [ext He]. rewrite He. rewrite nth_error_app1; [exact Hn|].
        apply nth_error_Some. congruence.
      + pose proof (pstep_aev_mono p o) as Hm.
        destruct o; simpl in *; try lia.
        (* an update: if response i is still waiting, the response queue is not empty, and one is taken *)
        destruct (Nat.lt_ge_cases i (length (g_aevents (G p)))) as [Hlt|Hge]; [lia|].
        assert (Hq : q_h (base p) <> []).
        { intro Hq. rewrite (v_done p H), Hq, app_nil_r in Hn.
          assert (i < length (map snd (g_aevents (G p))))%nat by (apply nth_error_Some; congruence).
          rewrite map_length in *. lia. }
        destruct (q_h (base p)) as [|h0 r0] eqn:Eq; [congruence|].
        destruct (update_delivers_oldest_response p h0 r0 Eq) as [ae [more [Ha _]]].
        rewrite Ha, app_length. simpl. lia.
  Qed.

  (* ---------- `while forwarder.update()` ends because nothing is left, never because the fuel ran out ---------- *)
  Definition fuel_ok_g {St} (f : St -> St * bool) (measure : St -> nat) : Prop :=
    forall s, snd (f s) = true -> (measure (fst (f s)) < measure s)%nat.

  Lemma loop_while_g_fuel_enough {St} (f : St -> St * bool) measure :
    fuel_ok_g f measure -> forall fuel s, (measure s < fuel)%nat -> loop_while_g f fuel s = loop_while_g f (S fuel) s.
  Proof.
    intro Hok. induction fuel as [|k IH]; intros s Hm; [lia|].
    cbn [loop_while_g]. specialize (Hok s). destruct (f s) as [s' b]. simpl in Hok. destruct b; [|reflexivity].
    specialize (Hok eq_refl). rewrite (IH s') by lia. reflexivity.
  Qed.

  Lemma loop_while_g_ends {St} (f : St -> St * bool) measure (Q : St -> Prop) :
    fuel_ok_g f measure -> (forall s, snd (f s) = false -> Q (fst (f s))) ->
    forall fuel s, (measure s < fuel)%nat -> Q (loop_while_g f fuel s).
  Proof.
    intros Hok HQ. induction fuel as [|k IH]; intros s Hm; [lia|].
    cbn [loop_while_g]. specialize (Hok s). specialize (HQ s). destruct (f s) as [s' b]. simpl in Hok, HQ.
    destruct b; [apply IH; specialize (Hok eq_refl); lia|now apply HQ].
  Qed.

  Lemma fwd_pool_fuel : fuel_ok_g (fwd_update_pool c) (fun p => (length (q_f (base p)) + length (q_h (base p)))%nat).
  Proof.
    intro p. unfold fwd_update_pool, fwd_handle_pool, fwd_responses.
    destruct (q_f (base p)) as [|ce rest] eqn:Ef; [|destruct (act c (ev_ph ce))]; simpl;
      destruct (q_h (base p)) as [|h hr] eqn:Eh; simpl; rewrite ?Ef, ?Eh; simpl; intro Hb; try discriminate; lia.
  Qed.

  Lemma fwd_pool_false p :
    snd (fwd_update_pool c p) = false ->
    q_f (base (fst (fwd_update_pool c p))) = [] /\ q_h (base (fst (fwd_update_pool c p))) = [].
  Proof.
    unfold fwd_update_pool, fwd_handle_pool, fwd_responses.
    destruct (q_f (base p)) as [|ce rest] eqn:Ef; [|destruct (act c (ev_ph ce))]; simpl;
      destruct (q_h (base p)) as [|h hr] eqn:Eh; simpl; rewrite ?Ef, ?Eh; intro Hb; try discriminate; auto.
  Qed.

  (* with times_forwarder = 0 a cycle empties the forwarder queue AND the response queue *)
  Theorem update_while_drains_responses p :
    t_f c = O ->
    q_f (base (engine_update_pool cfg c p)) = [] /\ q_h (base (engine_update_pool cfg c p)) = [].
  Proof.
    intro Ht. unfold engine_update_pool. rewrite Ht. unfold run_task_g.
    apply (loop_while_g_ends _ _ (fun x => q_f (base x) = [] /\ q_h (base x) = []) fwd_pool_fuel fwd_pool_false).
    simpl. lia.
  Qed.

  (* ---------- update() is one particular sequence of the small steps, so the small-step theorem covers it ---------- *)
  Lemma mapply_app p a b : mapply cfg c p (a ++ b) = mapply cfg c (mapply cfg c p a) b.
  Proof. unfold mapply. apply fold_left_app. Qed.

  Theorem update_is_micro_sequence p : exists ms, engine_update_pool cfg c p = mapply cfg c p ms.
  Proof.
    unfold engine_update_pool. destruct p as [s i d]. simpl base. simpl infl. simpl p_done.
    set (p0 := mkP s i d).
    apply (run_task_g_pres (fun x => exists ms, x = mapply cfg c p0 ms)).
    { intros x [ms Hx]. exists (ms ++ [MFwdHandle; MFwdResponses]). rewrite mapply_app, <- Hx. simpl.
      unfold fwd_update_pool. destruct (fwd_handle_pool c x) as [p1 b1]. simpl.
      destruct (fwd_responses p1) as [p2 b2]. reflexivity. }
    apply (run_task_pres (fun x => exists ms, mkP x i d = mapply cfg c p0 ms)).
    { intros x [ms Hx]. exists (ms ++ [MProd]). rewrite mapply_app, <- Hx. reflexivity. }
    apply (run_task_pres (fun x => exists ms, mkP x i d = mapply cfg c p0 ms)).
    { intros x [ms Hx]. exists (ms ++ [MDec]). rewrite mapply_app, <- Hx. reflexivity. }
    apply (run_task_pres (fun x => exists ms, mkP x i d = mapply cfg c p0 ms)).
    { intros x [ms Hx]. exists (ms ++ [MRecv]). rewrite mapply_app, <- Hx. reflexivity. }
    exists []. reflexivity.
  Qed.
End PoolInv.

(* ---------------------------------------------------------------- the idle fast path *)
(* a;b with an action, both data in, two cycles (all task queues empty, the job still running), then the worker
   finishes: one response waits in the handler's queue and nothing waits anywhere else *)
Definition idle_ed : edesc :=
  ED (CD [(1, [PD 1 [BD [PDataEq 1] 1 false false false false; BD [PDataEq 2] 2 false false false false]
                  [] [] false])] 0 100) 0 0 0 0 true true [(1, 77)] [(1, (5, true, 9))].
Definition idle_ops : list pop := [PAdd 1; PAdd 2; PUpdate; PUpdate; PComplete 0].
Definition idle_state : pstate := papply (mk_cfg (ed_cfg idle_ed)) (mk_ecfg idle_ed) p_init idle_ops.

Lemma idle_state_facts :
  tasks_idle (base idle_state) = true /\ length (q_h (base idle_state)) = 1%nat /\ infl idle_state = [] /\
  length (g_exec (gh (base idle_state))) = 1%nat /\ g_aevents (gh (base idle_state)) = [].
Proof. vm_compute. repeat split. Qed.

Lemma idle_state_queue : exists h, q_h (base idle_state) = [h].
Proof. vm_compute. eexists. reflexivity. Qed.

(* with "skip the round when no task has anything queued" the response is never collected ... *)
Lemma idle_fast_path_no_change :
  engine_update_idle_fast (mk_cfg (ed_cfg idle_ed)) (mk_ecfg idle_ed) idle_state = idle_state.
Proof. unfold engine_update_idle_fast. destruct idle_state_facts as [-> _]. reflexivity. Qed.

Theorem idle_fast_path_strands_response :
  forall n, Nat.iter n (engine_update_idle_fast (mk_cfg (ed_cfg idle_ed)) (mk_ecfg idle_ed)) idle_state = idle_state.
Proof.
  induction n as [|k IH]; [reflexivity|].
  change (Nat.iter (S k) ?f ?x) with (f (Nat.iter k f x)). rewrite IH. exact idle_fast_path_no_change.
Qed.

(* ... so the progress statement, which holds of what the code does, is false of that variant *)
Theorem progress_false_for_idle_fast_path :
  ~ (forall cfg c p h rest,
       q_h (base p) = h :: rest ->
       exists ae more,
         g_aevents (gh (base (engine_update_idle_fast cfg c p))) = g_aevents (gh (base p)) ++ (ae, h) :: more).
Proof.
  intro H.
  destruct idle_state_queue as [h Eq].
  destruct (H (mk_cfg (ed_cfg idle_ed)) (mk_ecfg idle_ed) idle_state h [] Eq) as [ae [more Hm]].
  rewrite idle_fast_path_no_change in Hm.
  destruct idle_state_facts as [_ [_ [_ [_ Ha]]]]. rewrite Ha in Hm. discriminate Hm.
Qed.

(* and on the same state the real cycle delivers it and reaches quiescence with 1 : 1 : 1 : 1 *)
Lemma idle_state_real_update :
  let p := engine_update_pool (mk_cfg (ed_cfg idle_ed)) (mk_ecfg idle_ed) idle_state in
  length (g_aevents (gh (base p))) = 1%nat /\ q_h (base p) = [] /\ infl p = [].
Proof. vm_compute. repeat split. Qed.
