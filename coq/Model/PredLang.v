(* Concrete events and a small deep-embedded predicate language used by the correspondence
   check (harness/predlang.py builds the same predicates as real Python callables).
   Theorems are about arbitrary Gallina predicates; this file only instantiates them. *)
From Bobo Require Import Base.Prelude Base.History Model.Pattern Model.Run Model.Decider.

Record ev := mkEv { ev_id : Z; ev_ts : Z; ev_kind : Z (* 0 simple 1 complex 2 action *);
                    ev_data : Z; ev_ph : Z; ev_pat : Z }.

Inductive pexpr :=
| PConst (b : bool)
| PDataEq (k : Z)
| PDataIn (ks : list Z)
| PKind (k : Z)
| PHistSizeGe (n : nat)
| PGroupSizeGe (g : Z) (n : nat)
| PLastDataPlus (g : Z) (d : Z)        (* group g non-empty and e.data = last(g).data + d *)
| PTsGapLe (d : Z)                      (* history non-empty and e.ts - max ts of history <= d *)
| PTsSinceFirstGe (d : Z)               (* history non-empty and e.ts - min ts of history >= d *)
| PComplexOf (ph pat : Z)               (* complex event of this phenomenon/pattern *)
| PRaiseOn (tss : list Z) (p : pexpr)   (* raises when e.ts is listed, otherwise p *)
| PFalseOn (tss : list Z) (p : pexpr)   (* False when e.ts is listed, otherwise p *)
| PRaiseIfGroupGe (g : Z) (n : nat) (p : pexpr)   (* raises when the RUN's history holds >= n events in group g, otherwise p *)
| PFalseIfGroupGe (g : Z) (n : nat) (p : pexpr)
| PAnd (a b : pexpr) | POr (a b : pexpr) | PNot (a : pexpr).

Definition of_bool (b : bool) : pres := if b then PTrue else PFalse.

Definition hmax_ts (h : history ev) : option Z :=
  fold_left (fun o e => match o with None => Some (ev_ts e) | Some m => Some (Z.max m (ev_ts e)) end)
            (hall h) None.

Definition hmin_ts (h : history ev) : option Z :=
  fold_left (fun o e => match o with None => Some (ev_ts e) | Some m => Some (Z.min m (ev_ts e)) end)
            (hall h) None.

Fixpoint interp (p : pexpr) (e : ev) (h : history ev) : pres :=
  match p with
  | PConst b => of_bool b
  | PDataEq k => of_bool (ev_data e =? k)
  | PDataIn ks => of_bool (existsb (Z.eqb (ev_data e)) ks)
  | PKind k => of_bool (ev_kind e =? k)
  | PHistSizeGe n => of_bool (Nat.leb n (hsize h))
  | PGroupSizeGe g n => of_bool (Nat.leb n (length (hgroup g h)))
  | PLastDataPlus g d => match rev (hgroup g h) with
                         | [] => PFalse
                         | l :: _ => of_bool (ev_data e =? ev_data l + d)
                         end
  | PTsGapLe d => match hmax_ts h with None => PFalse | Some m => of_bool (ev_ts e - m <=? d) end
  | PTsSinceFirstGe d => match hmin_ts h with None => PFalse | Some m => of_bool (d <=? ev_ts e - m) end
  | PComplexOf ph pat => of_bool ((ev_kind e =? 1) && (ev_ph e =? ph) && (ev_pat e =? pat))
  | PRaiseOn tss q => if existsb (Z.eqb (ev_ts e)) tss then PRaise else interp q e h
  | PFalseOn tss q => if existsb (Z.eqb (ev_ts e)) tss then PFalse else interp q e h
  | PRaiseIfGroupGe g n q => if Nat.leb n (length (hgroup g h)) then PRaise else interp q e h
  | PFalseIfGroupGe g n q => if Nat.leb n (length (hgroup g h)) then PFalse else interp q e h
  | PAnd a b => match interp a e h with PTrue => interp b e h | r => r end
  | POr a b => match interp a e h with PFalse => interp b e h | r => r end
  | PNot a => match interp a e h with PTrue => PFalse | PFalse => PTrue | PRaise => PRaise end
  end.

(* pattern descriptions as printed by the harness *)
Record bdesc := BD { bd_preds : list pexpr; bd_group : Z; bd_strict : bool; bd_loop : bool; bd_neg : bool; bd_opt : bool }.
Record pdesc := PD { pd_name : Z; pd_blocks : list bdesc; pd_pre : list pexpr; pd_halt : list pexpr; pd_single : bool }.

Definition mk_block (b : bdesc) : block ev :=
  mkBlock (map interp (bd_preds b)) (bd_group b) (bd_strict b) (bd_loop b) (bd_neg b) (bd_opt b).
Definition mk_pattern (p : pdesc) : pattern ev :=
  mkPattern (pd_name p) (map mk_block (pd_blocks p)) (map interp (pd_pre p)) (map interp (pd_halt p)) (pd_single p).

Record cdesc := CD { cd_phen : list (Z * list pdesc); cd_maxcache : nat; cd_idbase : Z }.
Definition mk_cfg (c : cdesc) : config ev :=
  mkCfg (map (fun pp => (fst pp, map mk_pattern (snd pp))) (cd_phen c)) (cd_maxcache c)
        (fun n => cd_idbase c + Z.of_nat n).

(* ---------- flat encodings of observations ---------- *)
Definition enc_list {A} (f : A -> list Z) (l : list A) : list Z := n2z (length l) :: concat (map f l).
Definition enc_hist (h : history ev) : list Z :=
  enc_list (fun ge => fst ge :: enc_list (fun e => [ev_id e]) (snd ge)) h.
Definition enc_ser (r : rserial ev) : list Z :=
  [s_id r; s_ph r; s_pat r; n2z (s_idx r)] ++ enc_hist (s_hist r).
Definition enc_note (n : note ev) : list Z :=
  enc_list enc_ser (n_comp n) ++ enc_list enc_ser (n_halt n) ++ enc_list enc_ser (n_upd n).
Definition enc_run (r : run ev) : list Z :=
  [r_id r; r_ph r; p_name (r_pat r); n2z (r_idx r); b2z (r_halted r)] ++ enc_hist (r_hist r).
Definition enc_state (s : dstate ev) : list Z :=
  enc_list enc_run (rt_all (d_runs s)) ++ enc_list enc_ser (d_cc s) ++ enc_list enc_ser (d_ch s).

(* ---------- decider operation sequences ---------- *)
Inductive dop := OLocal (e : ev) | ORemote (m : note ev).

Definition exn_code (k : exn) : Z := match k with EPred => 1 | EIndex => 2 | EDupRun => 3 end.

Fixpoint run_dops (cfg : config ev) (s : dstate ev) (ops : list dop) : list Z :=
  match ops with
  | [] => []
  | OLocal e :: rest =>
    match local_step cfg s e with
    | Ok (s', n) => (-7) :: enc_note n ++ enc_state s' ++ run_dops cfg s' rest
    | Exn k => [-9; exn_code k]
    end
  | ORemote m :: rest =>
    let '(s', n) := remote_apply cfg s m in
    (-8) :: enc_note n ++ enc_state s' ++ run_dops cfg s' rest
  end.

Definition run_decider (inp : cdesc * list dop) : list Z :=
  run_dops (mk_cfg (fst inp)) d_init (snd inp).

(* a single run against a stream: used for C19 (walk never leaves the block list) *)
Definition enc_res (r : res (run ev * bool)) : list Z :=
  match r with
  | Ok (r', ch) => 0 :: b2z ch :: enc_run r'
  | Exn k => [exn_code k]
  end.

(* ---------- C04: statuses of a given list of run ids after every operation ---------- *)
From Bobo Require Import Model.Converge.
Definition enc_st (s : st) : list Z :=
  match s with Absent => [0; 0; 0] | Active i n => [1; n2z i; n2z n] | Halted => [2; 0; 0] | Completed => [3; 0; 0] end.

Fixpoint run_dops_status (cfg : config ev) (ids : list Z) (s : dstate ev) (ops : list dop) : list Z :=
  match ops with
  | [] => []
  | OLocal e :: rest =>
    match local_step cfg s e with
    | Ok (s', n) => concat (map (fun id => enc_st (status s' id)) ids) ++ run_dops_status cfg ids s' rest
    | Exn k => [-9; exn_code k]
    end
  | ORemote m :: rest =>
    let '(s', n) := remote_apply cfg s m in
    concat (map (fun id => enc_st (status s' id) ++ enc_st (msg_status m id)) ids) ++ run_dops_status cfg ids s' rest
  end.

Definition run_decider_status (inp : cdesc * list Z * list dop) : list Z :=
  let '(cd, ids, ops) := inp in run_dops_status (mk_cfg cd) ids d_init ops.
