(* C04: the status lattice and an abstract replication system over it.  No proofs here.
   status of a run at an instance:  Absent < Active(i,n) < Halted < Completed,
   Active ordered lexicographically by (block index, history size). *)
From Bobo Require Import Base.Prelude Base.History Model.Pattern Model.Run Model.Decider.

Inductive st := Absent | Active (i n : nat) | Halted | Completed.

Definition st_le (a b : st) : bool :=
  match a, b with
  | Absent, _ => true
  | _, Absent => false
  | Active i n, Active j m => Nat.ltb i j || (Nat.eqb i j && Nat.leb n m)
  | Active _ _, _ => true
  | Halted, Active _ _ => false
  | Halted, _ => true
  | Completed, Completed => true
  | Completed, _ => false
  end.

Definition st_max (a b : st) : st := if st_le a b then b else a.

(* ---------- abstract system ---------- *)
(* a fact: instance i announced that run id has status s *)
Definition fact := (nat * Z * st)%type.

Record asys := mkA {
  a_status : nat -> Z -> st;          (* what each instance believes about each run *)
  a_emitted : list fact }.            (* everything ever announced (notes and snapshots), by anyone *)

(* join a list of facts about run id into a status *)
Definition join_facts (id : Z) (fs : list fact) (s0 : st) : st :=
  fold_left (fun acc f => if Z.eqb (snd (fst f)) id then st_max acc (snd f) else acc) fs s0.

Inductive astep : asys -> asys -> Prop :=
(* instance i processes an input: its statuses only grow, nobody else changes, and every changed status is
   announced (announcing more - unchanged or older statuses - is harmless) *)
| A_local i (a b : asys) (extra : list fact) :
    (forall id, st_le (a_status a i id) (a_status b i id) = true) ->
    (forall k id, k <> i -> a_status b k id = a_status a k id) ->
    (forall id, a_status b i id <> a_status a i id -> In (i, id, a_status b i id) extra) ->
    a_emitted b = a_emitted a ++ extra ->
    astep a b
(* instance j handles a message: ANY list of facts announced earlier (this covers delay, reordering,
   duplication, the backlog merge and snapshots); each run's status becomes the maximum *)
| A_deliver j (a b : asys) (m : list fact) :
    (forall f, In f m -> In f (a_emitted a)) ->
    (forall id, a_status b j id = join_facts id m (a_status a j id)) ->
    (forall k id, k <> j -> a_status b k id = a_status a k id) ->
    a_emitted b = a_emitted a ->
    astep a b.

Inductive asteps : asys -> asys -> Prop :=
| AS_refl a : asteps a a
| AS_step a b c : asteps a b -> astep b c -> asteps a c.

Definition a_init : asys := mkA (fun _ _ => Absent) [].

(* all announcements have reached every instance *)
(* (among the n instances of the cluster) *)
Definition all_delivered (n : nat) (a : asys) : Prop :=
  forall f j, (j < n)%nat -> In f (a_emitted a) -> st_le (snd f) (a_status a j (snd (fst f))) = true.

(* ---------- the status of a run in the concrete decider model ---------- *)
Section Status.
  Variable E : Type.
  Definition status (s : dstate E) (id : Z) : st :=
    if zmem id (ids_of (d_cc s)) then Completed
    else if zmem id (ids_of (d_ch s)) then Halted
    else match find (fun r => Z.eqb (r_id r) id) (rt_all (d_runs s)) with
         | Some r => Active (r_idx r) (hsize (r_hist r))
         | None => Absent
         end.

  (* the facts a message carries *)
  Definition msg_status (m : note E) (id : Z) : st :=
    if zmem id (ids_of (n_comp m)) then Completed
    else if zmem id (ids_of (n_halt m)) then Halted
    else match find (fun r => Z.eqb (s_id r) id) (n_upd m) with
         | Some r => Active (s_idx r) (hsize (s_hist r))
         | None => Absent
         end.
End Status.
Arguments status {E}. Arguments msg_status {E}.
