(* Model of BoboEngine.update with an ASYNCHRONOUS action handler (BoboActionHandlerMultithreading /
   BoboActionHandlerMultiprocessing of bobocep/cep/action/handler.py).  Receiver, decider, producer, the
   wiring, the ghost logs and the round-robin loops are those of Model/Engine.v (reused, not copied); what
   changes is the forwarder:

     BoboForwarder.update():                          (forwarder.py)
         handle   = self._update_handler()            one complex event off the forwarder queue; if its phenomenon
                                                      has an action: handler.handle(action, event), which for the pool
                                                      handlers is pool.starmap_async(...) - the job is IN FLIGHT,
                                                      nothing is put into the response queue by this call
         response = self._update_responses()          ONE handler.get_handler_response() (head of the handler's
                                                      response queue, or None) -> one BoboEventAction -> subscribers
                                                      (the receiver: the action event re-enters the stream)
         return handle or response

   So EVERY forwarder update polls the handler once, whether or not the forwarder queue held something, and
   takes at most one response, oldest first.  BoboForwarder.size() is the forwarder QUEUE only; the handler's
   response queue and the jobs in flight are visible to nobody who looks at task sizes (handler.size() is the
   response queue).  A worker finishing (`_pool_execute_action`: execute, build the response, queue.put) is the
   environment's operation `Complete k`: job k of the in-flight list, any k, any time.

   Not modelled: queue bounds (max_size = 0, the default, everywhere), actions that raise, pickling.
   No proofs in this file. *)
From Bobo Require Import Base.Prelude Base.History Model.Pattern Model.Run Model.Decider Model.PredLang Model.Engine.
From Bobo Require Model.Action.      (* remove_nth: the in-flight list of C20's handler model *)

Record pstate := mkP {
  base : estate;            (* Engine.estate; its q_h is the pool handler's response queue *)
  infl : list hresp;        (* jobs handed to the pool whose worker has not finished, in submission order,
                               each written as the response its worker will put *)
  p_done : list hresp }.    (* ghost: responses put into the response queue by workers, in completion order *)

Definition p_init : pstate := mkP e_init [] [].

Definition on_base (f : estate -> estate) (p : pstate) : pstate := mkP (f (base p)) (infl p) (p_done p).
Definition lift (f : estate -> estate * bool) (p : pstate) : pstate * bool :=
  (mkP (fst (f (base p))) (infl p) (p_done p), snd (f (base p))).

(* _update_handler with a pool handler: the job goes in flight; the execution is logged when it is handed over *)
Definition fwd_handle_pool (c : ecfg) (p : pstate) : pstate * bool :=
  let s := base p in
  match q_f s with
  | [] => (p, false)
  | ce :: rest =>
    let g := gh s in
    match act c (ev_ph ce) with
    | Some a =>
      let r := mkResp (a_name a) ce (a_ok a) (a_data a) in
      (mkP (mkE (q_r s) (q_d s) (q_p s) rest (q_h s) (dec s) (e_next s)
                (mkGhost (g_entry g) (g_seen g) (g_completed g) (g_complex g) (g_fwd_in g) (g_handled g ++ [ce])
                         (g_exec g ++ [r]) (g_aevents g)))
           (infl p ++ [r]) (p_done p), true)
    | None =>
      (mkP (mkE (q_r s) (q_d s) (q_p s) rest (q_h s) (dec s) (e_next s)
                (mkGhost (g_entry g) (g_seen g) (g_completed g) (g_complex g) (g_fwd_in g) (g_handled g ++ [ce])
                         (g_exec g) (g_aevents g)))
           (infl p) (p_done p), true)
    end
  end.

(* _update_responses: one get_handler_response() *)
Definition fwd_responses (p : pstate) : pstate * bool :=
  let s := base p in
  match q_h s with
  | [] => (p, false)
  | h :: rest =>
    let ae := mkEv (e_next s) (e_next s) 2 (h_data h) (ev_ph (h_cev h)) (ev_pat (h_cev h)) in
    let g := gh s in
    (mkP (mkE (q_r s ++ [IEvent ae]) (q_d s) (q_p s) (q_f s) rest (dec s) (e_next s + 1)
              (mkGhost (g_entry g ++ [IEvent ae]) (g_seen g) (g_completed g) (g_complex g) (g_fwd_in g) (g_handled g)
                       (g_exec g) (g_aevents g ++ [(ae, h)])))
         (infl p) (p_done p), true)
  end.

(* BoboForwarder.update *)
Definition fwd_update_pool (c : ecfg) (p : pstate) : pstate * bool :=
  let '(p1, b1) := fwd_handle_pool c p in
  let '(p2, b2) := fwd_responses p1 in
  (p2, b1 || b2).

(* the worker running in-flight job k finishes: its response goes to the tail of the handler's queue *)
Definition complete (k : nat) (p : pstate) : pstate :=
  match nth_error (infl p) k with
  | Some r =>
    let s := base p in
    mkP (mkE (q_r s) (q_d s) (q_p s) (q_f s) (q_h s ++ [r]) (dec s) (e_next s) (gh s))
        (Action.remove_nth k (infl p)) (p_done p ++ [r])
  | None => p
  end.

(* the loops of BoboEngine.update over any state type (Engine.loop_while / loop_times are the instance at estate) *)
Section Loops.
  Context {St : Type}.
  Fixpoint loop_while_g (f : St -> St * bool) (fuel : nat) (s : St) : St :=
    match fuel with
    | O => s
    | S k => let '(s', b) := f s in if b then loop_while_g f k s' else s'
    end.
  Fixpoint loop_times_g (f : St -> St * bool) (early : bool) (n : nat) (s : St) : St :=
    match n with
    | O => s
    | S k => let '(s', b) := f s in if negb b && early then s' else loop_times_g f early k s'
    end.
  Definition run_task_g (f : St -> St * bool) (times : nat) (early : bool) (fuel : nat) (s : St) : St :=
    match times with O => loop_while_g f fuel s | _ => loop_times_g f early times s end.
End Loops.

(* BoboEngine.update: receiver, decider, producer exactly as in Engine.engine_update (they touch neither the
   handler nor the jobs in flight); then the forwarder, UNCONDITIONALLY - also when all four task queues are
   empty.  A forwarder update reports a change iff it took a complex event or a response, so the while loop
   makes at most |forwarder queue| + |response queue| productive calls and one unproductive one. *)
Definition engine_update_pool (cfg : config ev) (c : ecfg) (p : pstate) : pstate :=
  let s := base p in
  let s1 := run_task recv_update (t_r c) (early c) (S (length (q_r s))) s in
  let s2 := run_task (dec_update cfg) (t_d c) (early c) (S (length (q_d s1))) s1 in
  let s3 := run_task (prod_update c) (t_p c) (early c) (S (length (q_p s2))) s2 in
  run_task_g (fwd_update_pool c) (t_f c) (early c) (S (length (q_f s3) + length (q_h s3)))
             (mkP s3 (infl p) (p_done p)).

(* ---------- operations of the environment ---------- *)
Inductive pop := PAdd (d : Z) | PUpdate | PComplete (k : nat) | PRemote (m : note ev).

Definition pstep (cfg : config ev) (c : ecfg) (p : pstate) (o : pop) : pstate :=
  match o with
  | PAdd d => on_base (fun s => add_item s (IData d)) p
  | PUpdate => engine_update_pool cfg c p
  | PComplete k => complete k p
  | PRemote m => on_base (fun s => remote_note cfg s m) p
  end.

Definition papply (cfg : config ev) (c : ecfg) (p : pstate) (ops : list pop) : pstate :=
  fold_left (pstep cfg c) ops p.

(* the same at the grain of single task updates and single halves of the forwarder update: a worker may finish
   (and a producer thread may call add_data) between ANY two of these, also in the middle of engine.update() *)
Inductive mop := MAdd (d : Z) | MRemote (m : note ev) | MComplete (k : nat)
               | MRecv | MDec | MProd | MFwdHandle | MFwdResponses.

Definition mstep (cfg : config ev) (c : ecfg) (p : pstate) (o : mop) : pstate :=
  match o with
  | MAdd d => on_base (fun s => add_item s (IData d)) p
  | MRemote m => on_base (fun s => remote_note cfg s m) p
  | MComplete k => complete k p
  | MRecv => fst (lift recv_update p)
  | MDec => fst (lift (dec_update cfg) p)
  | MProd => fst (lift (prod_update c) p)
  | MFwdHandle => fst (fwd_handle_pool c p)
  | MFwdResponses => fst (fwd_responses p)
  end.

Definition mapply (cfg : config ev) (c : ecfg) (p : pstate) (ops : list mop) : pstate :=
  fold_left (mstep cfg c) ops p.

(* ---------- a variant that is NOT what the code does (used only to show that the progress theorem
   distinguishes it): "nothing queued in any task: no work to do this round" ---------- *)
Definition tasks_idle (s : estate) : bool :=
  match q_r s, q_d s, q_p s, q_f s with [], [], [], [] => true | _, _, _, _ => false end.

Definition engine_update_idle_fast (cfg : config ev) (c : ecfg) (p : pstate) : pstate :=
  if tasks_idle (base p) then p else engine_update_pool cfg c p.

(* ---------- correspondence entry point ---------- *)
(* after every operation: -5, size() of receiver, decider, producer, forwarder, handler.size(), jobs in flight,
   then how many events the receiver published, complex events, executions, action events so far;
   at the end the full logs as in Engine.enc_estate *)
Definition enc_pobs (p : pstate) : list Z :=
  let s := base p in
  [-5; n2z (length (q_r s)); n2z (length (q_d s)); n2z (length (q_p s)); n2z (length (q_f s)); n2z (length (q_h s));
   n2z (length (infl p));
   n2z (length (g_seen (gh s) ++ q_d s)); n2z (length (g_complex (gh s))); n2z (length (g_exec (gh s)));
   n2z (length (g_aevents (gh s)))].

Fixpoint run_pops (cfg : config ev) (c : ecfg) (p : pstate) (ops : list pop) : list Z :=
  match ops with
  | [] => enc_estate (base p)
  | o :: rest => let p' := pstep cfg c p o in enc_pobs p' ++ run_pops cfg c p' rest
  end.

Definition run_C02pool (inp : edesc * list pop) : list Z :=
  run_pops (mk_cfg (ed_cfg (fst inp))) (mk_ecfg (fst inp)) p_init (snd inp).
