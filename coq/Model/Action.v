(* Model of bobocep/cep/action/common/multi.py (BoboActionMultiSequential.execute),
   bobocep/cep/action/handler.py (the three handlers: handle / worker completion /
   get_handler_response) and bobocep/cep/engine/forwarder/forwarder.py
   (on_producer_update, update = _update_handler ; _update_responses).
   Names (action, phenomenon, pattern), event ids and data values are Z codes.
   No proofs in this file. *)
From Bobo Require Import Base.Prelude.

(* ------------------------------------------------------------------ multi action *)

(* One sub-action = the (success, data) tuple its execute() returns. *)
Notation outcome := (bool * Z)%type (only parsing).

(* The loop of BoboActionMultiSequential.execute, started at sub-action number i with the
   locals success / data; log = indices of the sub-actions whose execute() was called, in
   call order (the harness' sub-actions record this).
       for action in self._actions:
           output = action.execute(event); data.append(output)
           if not output[0]:
               success = False
               if self._stop_on_fail: break
       return success, data                                                        *)
Fixpoint multi_loop (stop : bool) (outs : list outcome) (i : nat)
         (success : bool) (data : list outcome) (log : list nat)
  : bool * list outcome * list nat :=
  match outs with
  | [] => (success, data, log)
  | o :: rest =>
      let data' := data ++ [o] in
      let log' := log ++ [i] in
      if fst o then multi_loop stop rest (S i) success data' log'
      else if stop then (false, data', log')
           else multi_loop stop rest (S i) false data' log'
  end.

Definition multi_run (stop : bool) (outs : list outcome) : bool * list outcome * list nat :=
  multi_loop stop outs 0%nat true [] [].

(* what execute() returns *)
Definition multi_exec (stop_on_fail : bool) (outcomes : list outcome) : bool * list outcome :=
  fst (multi_run stop_on_fail outcomes).

(* which sub-actions were executed, in order *)
Definition multi_trace (stop_on_fail : bool) (outcomes : list outcome) : list nat :=
  snd (multi_run stop_on_fail outcomes).

Definition enc_outcomes (l : list outcome) : list Z :=
  concat (map (fun o => [b2z (fst o); snd o]) l).

(* correspondence entry: (stop_on_fail, outcomes) ->
   success :: #reported :: (success_i, data_i)* ++ #executed :: executed indices *)
Definition run_C20_multi (inp : bool * list outcome) : list Z :=
  let '(s, data, log) := multi_run (fst inp) (snd inp) in
  b2z s :: n2z (length data) :: enc_outcomes data ++ n2z (length log) :: map n2z log.

(* ------------------------------------------------------------------ handlers *)

(* the complex event object that travels with the action *)
Record cevent := mkCE { ce_id : Z; ce_phen : Z; ce_patt : Z }.

(* One handle(action, event) call: the action's name, the complex event, and what
   action.execute(event) returns. *)
Record job := mkJob { j_name : Z; j_event : cevent; j_succ : bool; j_data : Z }.

(* BoboHandlerResponse *)
Record response := mkResp { r_name : Z; r_event : cevent; r_succ : bool; r_data : Z }.

(* hres = BoboHandlerResponse(action_name=action.name, complex_event=event,
                               success=action_ret[0], data=action_ret[1]) *)
Definition respond (j : job) : response :=
  mkResp (j_name j) (j_event j) (j_succ j) (j_data j).

Inductive hkind := Blocking | Pool.

Record hstate := mkH {
  h_inflight : list job;         (* handed to the pool, worker not finished yet *)
  h_queue : list response;       (* the handler's response queue *)
  h_delivered : list response    (* returned by get_handler_response so far (ghost) *)
}.
Definition h_init : hstate := mkH [] [] [].

Inductive hop :=
| Handle (j : job)       (* handler.handle(action, event) *)
| Complete (k : nat)     (* pool: the worker running the k-th in-flight job finishes (oracle) *)
| Get.                   (* handler.get_handler_response() *)

Inductive hres :=
| RAccepted              (* handle() returned normally *)
| RRejected              (* handle() raised BoboActionHandlerError (queue full) *)
| RNone                  (* get_handler_response() returned None *)
| RGot (r : response)
| RStep.                 (* worker completion: nothing is returned to anybody *)

(* full(): max_size > 0 and qsize >= max_size  (Queue(max_size).full() for the blocking
   handler, the explicit test in the pool handlers) *)
Definition q_full (max_size : Z) (q : list response) : bool :=
  (0 <? max_size) && (max_size <=? n2z (length q)).

Fixpoint remove_nth {A} (k : nat) (l : list A) : list A :=
  match l, k with
  | [], _ => []
  | _ :: t, O => t
  | x :: t, S k' => x :: remove_nth k' t
  end.

Definition hstep (kind : hkind) (max_size : Z) (s : hstate) (o : hop) : hstate * hres :=
  match o with
  | Handle j =>
      match kind with
      | Blocking =>
          (* execute inline, build the response, then: if not full put else raise *)
          if q_full max_size (h_queue s) then (s, RRejected)
          else (mkH (h_inflight s) (h_queue s ++ [respond j]) (h_delivered s), RAccepted)
      | Pool =>
          (* size test first, then starmap_async *)
          if q_full max_size (h_queue s) then (s, RRejected)
          else (mkH (h_inflight s ++ [j]) (h_queue s) (h_delivered s), RAccepted)
      end
  | Complete k =>
      match kind with
      | Blocking => (s, RStep)
      | Pool =>
          match nth_error (h_inflight s) k with
          | Some j =>
              (* _pool_execute_action: the worker's queue is unbounded, full() is False *)
              (mkH (remove_nth k (h_inflight s)) (h_queue s ++ [respond j]) (h_delivered s), RStep)
          | None => (s, RStep)
          end
      end
  | Get =>
      match h_queue s with
      | [] => (s, RNone)
      | r :: q => (mkH (h_inflight s) q (h_delivered s ++ [r]), RGot r)
      end
  end.

(* run an op sequence; collect the per-op results and (ghost) the jobs whose handle()
   returned normally, in submission order *)
Fixpoint hrun (kind : hkind) (max_size : Z) (s : hstate) (ops : list hop)
  : hstate * list hres * list job :=
  match ops with
  | [] => (s, [], [])
  | o :: rest =>
      let '(s1, r) := hstep kind max_size s o in
      let '(s2, rs, acc) := hrun kind max_size s1 rest in
      (s2, r :: rs,
       match o, r with
       | Handle j, RAccepted => j :: acc
       | _, _ => acc
       end)
  end.

Definition hfinal kind max_size ops : hstate := fst (fst (hrun kind max_size h_init ops)).
Definition hresults kind max_size ops : list hres := snd (fst (hrun kind max_size h_init ops)).
Definition haccepted kind max_size ops : list job := snd (hrun kind max_size h_init ops).

(* every job of a Handle op, accepted or not *)
Fixpoint hsubmitted (ops : list hop) : list job :=
  match ops with
  | [] => []
  | Handle j :: rest => j :: hsubmitted rest
  | _ :: rest => hsubmitted rest
  end.

Definition enc_resp (r : response) : list Z :=
  [r_name r; ce_id (r_event r); ce_phen (r_event r); ce_patt (r_event r); b2z (r_succ r); r_data r].

Definition enc_hres (r : hres) : list Z :=
  match r with
  | RAccepted => [1]
  | RRejected => [2]
  | RNone => [0]
  | RGot x => 3 :: enc_resp x
  | RStep => []
  end.

Definition z2kind (z : Z) : hkind := if z =? 0 then Blocking else Pool.

(* correspondence entry: (kind 0/1, max_size, observed ops, extra ops to quiescence) ->
   results of the observed ops, -1, then after the extra ops:
   #in-flight, #queued, #delivered, delivered responses in delivery order *)
Definition run_C20_handler (inp : Z * Z * list hop * list hop) : list Z :=
  let '(k, m, ops, extra) := inp in
  let '(s1, rs, _) := hrun (z2kind k) m h_init ops in
  let '(s2, _, _) := hrun (z2kind k) m s1 extra in
  concat (map enc_hres rs) ++
  (-1) :: n2z (length (h_inflight s2)) :: n2z (length (h_queue s2)) ::
  n2z (length (h_delivered s2)) :: concat (map enc_resp (h_delivered s2)).

(* ------------------------------------------------------------------ forwarder *)

(* BoboEventAction as far as the property fixes it (event id and timestamp come from the
   generators and are not part of it) *)
Record aevent := mkAE { ae_name : Z; ae_succ : bool; ae_data : Z; ae_phen : Z; ae_patt : Z }.

(* _update_responses: one response -> one action event *)
Definition action_event (r : response) : aevent :=
  mkAE (r_name r) (r_succ r) (r_data r) (ce_phen (r_event r)) (ce_patt (r_event r)).

(* an action: its name and what execute(event) returns for a given complex event *)
Record action := mkAct { a_name : Z; a_exec : cevent -> outcome }.

Definition job_of (a : action) (e : cevent) : job :=
  mkJob (a_name a) e (fst (a_exec a e)) (snd (a_exec a e)).

(* self._phenomena: name -> phenomenon (only its optional action matters here) *)
Definition phenomena := list (Z * option action).

Fixpoint lookup_phen (ps : phenomena) (name : Z) : option (option action) :=
  match ps with
  | [] => None
  | (n, a) :: rest => if n =? name then Some a else lookup_phen rest name
  end.

Record fcfg := mkF {
  f_kind : hkind; f_hmax : Z;      (* the handler *)
  f_phen : phenomena;
  f_local_only : bool;
  f_max : Z                        (* the forwarder's own queue bound *)
}.

Record fstate := mkFS {
  f_queue : list cevent;           (* complex events waiting for their action *)
  f_h : hstate;
  f_out : list aevent              (* action events given to the subscribers, in order (ghost) *)
}.
Definition f_init : fstate := mkFS [] h_init [].

Inductive fop :=
| Produce (e : cevent) (local : bool)   (* on_producer_update(event, local) *)
| FUpdate (mid : list nat)              (* update(); the pool workers `mid` finish between its
                                           _update_handler and _update_responses halves (oracle) *)
| FComplete (k : nat).                  (* a pool worker finishes between two calls (oracle) *)

Inductive fres :=
| FNothing            (* on_producer_update returned / a worker finished *)
| FRaised             (* BoboForwarderError / BoboActionHandlerError came out of the call *)
| FBool (b : bool).   (* update() returned b *)

Definition cq_full (max_size : Z) (q : list cevent) : bool :=
  (0 <? max_size) && (max_size <=? n2z (length q)).

(* _update_handler: (state, Some returned-bool | None = raised) *)
Definition f_update_handler (c : fcfg) (s : fstate) : fstate * option bool :=
  match f_queue s with
  | [] => (s, Some false)
  | e :: q =>
      match lookup_phen (f_phen c) (ce_phen e) with
      | Some (Some a) =>
          let '(h', r) := hstep (f_kind c) (f_hmax c) (f_h s) (Handle (job_of a e)) in
          match r with
          | RRejected => (mkFS q h' (f_out s), None)
          | _ => (mkFS q h' (f_out s), Some true)
          end
      | _ => (mkFS q (f_h s) (f_out s), Some true)
      end
  end.

(* _update_responses *)
Definition f_update_responses (c : fcfg) (s : fstate) : fstate * bool :=
  let '(h', r) := hstep (f_kind c) (f_hmax c) (f_h s) Get in
  match r with
  | RGot x => (mkFS (f_queue s) h' (f_out s ++ [action_event x]), true)
  | _ => (s, false)
  end.

Definition h_completes (kind : hkind) (m : Z) (h : hstate) (ks : list nat) : hstate :=
  fold_left (fun h k => fst (hstep kind m h (Complete k))) ks h.

Definition fstep (c : fcfg) (s : fstate) (o : fop) : fstate * fres :=
  match o with
  | Produce e local =>
      if negb local && f_local_only c then (s, FNothing)
      else if cq_full (f_max c) (f_queue s) then (s, FRaised)
      else (mkFS (f_queue s ++ [e]) (f_h s) (f_out s), FNothing)
  | FUpdate mid =>
      match f_update_handler c s with
      | (s1, None) => (s1, FRaised)
      | (s1, Some b1) =>
          let s1' := mkFS (f_queue s1) (h_completes (f_kind c) (f_hmax c) (f_h s1) mid) (f_out s1) in
          let '(s2, b2) := f_update_responses c s1' in (s2, FBool (b1 || b2))
      end
  | FComplete k =>
      (mkFS (f_queue s) (fst (hstep (f_kind c) (f_hmax c) (f_h s) (Complete k))) (f_out s), FNothing)
  end.

Fixpoint frun (c : fcfg) (s : fstate) (ops : list fop) : fstate * list fres :=
  match ops with
  | [] => (s, [])
  | o :: rest =>
      let '(s1, r) := fstep c s o in
      let '(s2, rs) := frun c s1 rest in
      (s2, r :: rs)
  end.

Definition enc_fres (r : fres) : list Z :=
  match r with
  | FNothing => []
  | FRaised => [2]
  | FBool b => [b2z b]
  end.

Definition enc_aevent (e : aevent) : list Z :=
  [ae_name e; b2z (ae_succ e); ae_data e; ae_phen e; ae_patt e].

(* actions of the correspondence: outcome looked up by complex-event id in a table *)
Fixpoint tab_lookup (tab : list (Z * outcome)) (k : Z) : outcome :=
  match tab with
  | [] => (false, -1)
  | (i, o) :: rest => if i =? k then o else tab_lookup rest k
  end.
Definition tab_action (name : Z) (tab : list (Z * outcome)) : action :=
  mkAct name (fun e => tab_lookup tab (ce_id e)).

(* correspondence entry:
   (handler kind, handler max_size, forwarder max_size, local_only),
   phenomena as (name, None | Some (action name, outcome table)), observed ops, extra ops ->
   results of the observed ops, -1, then after the extra ops:
   #forwarder queue, #in-flight, #handler queue, #action events, the action events in order *)
Definition run_C20_fwd
  (inp : (Z * Z * Z * bool) * list (Z * option (Z * list (Z * outcome))) * list fop * list fop)
  : list Z :=
  let '(cf, ps, ops, extra) := inp in
  let '(k, hm, fm, lo) := cf in
  let c := mkF (z2kind k) hm
               (map (fun p => (fst p, option_map (fun a => tab_action (fst a) (snd a)) (snd p))) ps)
               lo fm in
  let '(s1, rs) := frun c f_init ops in
  let '(s2, _) := frun c s1 extra in
  concat (map enc_fres rs) ++
  (-1) :: n2z (length (f_queue s2)) :: n2z (length (h_inflight (f_h s2))) ::
  n2z (length (h_queue (f_h s2))) :: n2z (length (f_out s2)) ::
  concat (map enc_aevent (f_out s2)).
