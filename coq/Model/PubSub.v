(* The publish / subscribe wiring of the engine tasks (receiver, decider, producer, forwarder, distributed component):

      def subscribe(self, subscriber):
          with self._lock:
              if subscriber not in self._subscribers:
                  self._subscribers.append(subscriber)

   and a notification is one callback per entry of the list, in list order.  Subscribers are identified by a number.
   `dedupe = false` is the variant that appends without the membership test.  No proofs here. *)
From Bobo Require Import Base.Prelude.

Definition zmemb (x : Z) (l : list Z) : bool := existsb (Z.eqb x) l.

Definition subscribe (dedupe : bool) (subs : list Z) (x : Z) : list Z :=
  if dedupe && zmemb x subs then subs else subs ++ [x].

Definition subscribe_all (dedupe : bool) (calls : list Z) : list Z := fold_left (subscribe dedupe) calls [].

(* one notification: the callbacks made, in order *)
Definition publish (subs : list Z) : list Z := subs.

(* correspondence entry point: the subscribe calls -> who is called back by ONE notification, in order *)
Definition run_C02_pubsub (calls : list Z) : list Z := publish (subscribe_all true calls).
