(* N deciders with synchronous replication: every local note is applied by every other live instance
   before the next input (the premise of C03).  No proofs here. *)
From Bobo Require Import Base.Prelude Base.History Model.Pattern Model.Run Model.Decider Model.PredLang.

Section Cluster.
  Variable E : Type.

  (* every instance runs the same phenomena; instance k draws run ids from its own supply *)
  Definition icfg (cfg : config E) (gen : nat -> nat -> Z) (k : nat) : config E :=
    mkCfg (c_phen cfg) (c_maxcache cfg) (gen k).

  (* apply a note at every instance except the sender *)
  Fixpoint deliver (cfg : config E) (gen : nat -> nat -> Z) (from : nat) (k : nat) (ss : list (dstate E)) (n : note E)
    : list (dstate E) :=
    match ss with
    | [] => []
    | s :: rest =>
      (if Nat.eqb k from then s else fst (remote_apply (icfg cfg gen k) s n)) :: deliver cfg gen from (S k) rest n
    end.

  (* an external event routed to instance i *)
  Definition cstep (cfg : config E) (gen : nat -> nat -> Z) (ss : list (dstate E)) (i : nat) (e : E)
    : option (list (dstate E) * note E) :=
    match nth_error ss i with
    | None => None
    | Some s =>
      match local_step (icfg cfg gen i) s e with
      | Exn _ => None
      | Ok (s', n) =>
        let ss1 := firstn i ss ++ s' :: skipn (S i) ss in
        Some (deliver cfg gen i 0 ss1 n, n)
      end
    end.

  Fixpoint crun (cfg : config E) (gen : nat -> nat -> Z) (ss : list (dstate E)) (inp : list (nat * E))
    : option (list (dstate E) * list (note E)) :=
    match inp with
    | [] => Some (ss, [])
    | (i, e) :: rest =>
      match cstep cfg gen ss i e with
      | None => None
      | Some (ss', n) => match crun cfg gen ss' rest with
                         | Some (ss'', ns) => Some (ss'', n :: ns)
                         | None => None
                         end
      end
    end.
End Cluster.
Arguments icfg {E}. Arguments deliver {E}. Arguments cstep {E}. Arguments crun {E}.

(* correspondence entry point: N instances, id supply of instance k = idbase*(k+1) + n;
   crash = the instance stops receiving input and notes (it is simply dropped from the list by the harness
   re-indexing; the model keeps it but it is never routed to, which is observationally the same for the survivors) *)
Definition cl_gen (base : Z) (k n : nat) : Z := base * (Z.of_nat k + 1) + Z.of_nat n.

Definition run_cluster (inp : cdesc * nat * list (nat * ev)) : list Z :=
  let '(cd, n, evs) := inp in
  let cfg := mk_cfg cd in
  match crun cfg (cl_gen (cd_idbase cd)) (repeat d_init n) evs with
  | None => [-9]
  | Some (ss, notes) =>
    concat (map (fun s => (-6) :: enc_list enc_run (rt_all (d_runs s))) ss)
    ++ (-4) :: concat (map enc_note notes)
  end.
