(* Declarative specification of the documented run semantics (docs/phenomena.rst), one rule per
   sentence.  This file is the *specification* that Model/Run.v is proved to refine; it contains no
   executable code of its own beyond the helper definitions of Run.v (halt, add_event, move_forward). *)
From Bobo Require Import Base.Prelude Base.History Model.Pattern Model.Run.

Section Spec.
  Variable E : Type.
  Notation run := (run E).
  Notation block := (block E).

  (* "If any predicate in a block evaluates to True, the event is accepted" *)
  Definition accepts (b : block) (r : run) (e : E) : Prop := any_sc (b_preds b) e (r_hist r) = PTrue.
  Definition rejects (b : block) (r : run) (e : E) : Prop := any_sc (b_preds b) e (r_hist r) = PFalse.

  Definition plain (b : block) : Prop := b_loop b = false /\ b_neg b = false /\ b_opt b = false.

  (* the event [e] offered to run [r] standing at blocks [b :: rest] (block number i) *)
  Inductive block_spec (r : run) (e : E) : list block -> nat -> run -> bool -> Prop :=
  (* plain block: accept and move to the next block *)
  | S_accept b rest i : plain b -> accepts b r e ->
      block_spec r e (b :: rest) i (move_forward r e b i) true
  (* "Relaxed contiguity means that the pattern can tolerate events ... which it does not require" *)
  | S_wait b rest i : plain b -> rejects b r e -> b_strict b = false ->
      block_spec r e (b :: rest) i r false
  (* "Strict contiguity means that the pattern should halt" *)
  | S_halt b rest i : plain b -> rejects b r e -> b_strict b = true ->
      block_spec r e (b :: rest) i (halt r) true
  (* "Negated blocks ... predicate success is based on whether it returns False" *)
  | S_neg_advance b rest i : b_loop b = false -> b_neg b = true -> rejects b r e ->
      block_spec r e (b :: rest) i (move_forward r e b i) true
  | S_neg_hit_strict b rest i : b_loop b = false -> b_neg b = true -> accepts b r e -> b_strict b = true ->
      block_spec r e (b :: rest) i (halt r) true
  | S_neg_hit_relaxed b rest i : b_loop b = false -> b_neg b = true -> accepts b r e -> b_strict b = false ->
      block_spec r e (b :: rest) i r false
  (* "Optional blocks may be satisfied by an event but, if not, then the event is also checked
      against the subsequent block" *)
  | S_opt_accept b rest i : b_loop b = false -> b_neg b = false -> b_opt b = true -> accepts b r e ->
      block_spec r e (b :: rest) i (move_forward r e b i) true
  | S_opt_skip b rest i r' c : b_loop b = false -> b_neg b = false -> b_opt b = true -> rejects b r e ->
      block_spec r e rest (S i) r' c -> block_spec r e (b :: rest) i r' c
  (* "Looping blocks enable both the current block and next block to be potential paths" *)
  | S_loop_accept b rest i : b_loop b = true -> accepts b r e ->
      block_spec r e (b :: rest) i (add_event r e b) true
  | S_loop_halt b rest i : b_loop b = true -> rejects b r e -> b_strict b = true ->
      block_spec r e (b :: rest) i (halt r) true
  | S_loop_skip b rest i r' c : b_loop b = true -> rejects b r e -> b_strict b = false ->
      block_spec r e rest (S i) r' c -> block_spec r e (b :: rest) i r' c.

  (* preconditions: "if an event does not successfully match against all predicates, then the pattern
     will halt"; haltconditions: "if an event successfully matches against any predicate, ... halt" *)
  Inductive run_spec (r : run) (e : E) : run -> bool -> Prop :=
  | RS_finished : r_halted r = true -> run_spec r e r false
  | RS_pre_fail pres_ : r_halted r = false ->
      eval_all (p_pre (r_pat r)) e (r_hist r) = Some pres_ -> forallb (fun b => b) pres_ = false ->
      run_spec r e (halt r) true
  | RS_halt_cond pres_ halts : r_halted r = false ->
      eval_all (p_pre (r_pat r)) e (r_hist r) = Some pres_ -> forallb (fun b => b) pres_ = true ->
      eval_all (p_halt (r_pat r)) e (r_hist r) = Some halts -> existsb (fun b => b) halts = true ->
      run_spec r e (halt r) true
  | RS_blocks pres_ halts r' c : r_halted r = false ->
      eval_all (p_pre (r_pat r)) e (r_hist r) = Some pres_ -> forallb (fun b => b) pres_ = true ->
      eval_all (p_halt (r_pat r)) e (r_hist r) = Some halts -> existsb (fun b => b) halts = false ->
      block_spec r e (skipn (r_idx r) (p_blocks (r_pat r))) (r_idx r) r' c ->
      run_spec r e r' c.
End Spec.
Arguments block_spec {E}. Arguments run_spec {E}. Arguments accepts {E}. Arguments rejects {E}. Arguments plain {E}.
