(* Model of what bobocep/dist/tcp.py does with the bytes of one incoming message once the receive
   loop (Model/Recv.v) has handed them to decrypt:
     _tcp_incoming_handle_client (from `plaintext = self._crypto.decrypt(all_bytes)` to `break`),
     _split_plaintext, the device lookup / key comparison, BoboDeviceManager.addr / clear_last,
     the incoming queue;  and the accept loop _tcp_incoming around it.
   Strings are lists of code points (Z).  decrypt (AES-GCM, crypto/aes.py) and the payload parser
   (_incoming_from_json) are Section variables; every exception is "rejected".  No proofs here.

   Assumptions of the model (the generators of harness/pC11.py respect them and say so):
   client addresses are what accept() returns - non-empty, no white space (BoboDevice.addr's setter
   strips and validates); integer fields have fewer than 4300 digits (CPython's int/str limit). *)
From Bobo Require Import Base.Prelude Model.Recv.

Definition str := list Z.
Definition str_eqb : str -> str -> bool := zlist_eqb.

(* ------------------------------------------------------------------ int(<str>) of CPython 3.12 *)
(* characters skipped around the number: the C isspace set, and the non-ASCII Unicode spaces *)
Definition is_space (c : Z) : bool :=
  ((9 <=? c) && (c <=? 13)) || (c =? 32) || (c =? 133) || (c =? 160) || (c =? 5760)
  || ((8192 <=? c) && (c <=? 8202)) || (c =? 8232) || (c =? 8233) || (c =? 8239) || (c =? 8287)
  || (c =? 12288).

(* first code point of every run of ten decimal digits (category Nd) above ASCII, Unicode 15.0 *)
Definition digit_bases : list Z :=
  [1632; 1776; 1984; 2406; 2534; 2662; 2790; 2918; 3046; 3174; 3302; 3430; 3558; 3664; 3792; 3872;
   4160; 4240; 6112; 6160; 6470; 6608; 6784; 6800; 6992; 7088; 7232; 7248; 42528; 43216; 43264; 43472;
   43504; 43600; 44016; 65296; 66720; 68912; 69734; 69872; 69942; 70096; 70384; 70736; 70864; 71248;
   71360; 71472; 71904; 72016; 72784; 73040; 73120; 73552; 92768; 92864; 93008; 120782; 120792; 120802;
   120812; 120822; 123200; 123632; 124144; 125264; 130032].

Definition digit_val (c : Z) : option Z :=
  if (48 <=? c) && (c <=? 57) then Some (c - 48)
  else match find (fun b => (b <=? c) && (c <=? b + 9)) digit_bases with
       | Some b => Some (c - b)
       | None => None
       end.

Fixpoint strip_l (s : str) : str :=
  match s with
  | c :: s' => if is_space c then strip_l s' else s
  | [] => []
  end.
Definition strip (s : str) : str := rev (strip_l (rev (strip_l s))).

(* digits with single underscores between digits; prev = the previous character was a digit *)
Fixpoint digits_val (s : str) (acc : Z) (prev : bool) : option Z :=
  match s with
  | [] => if prev then Some acc else None
  | c :: s' =>
      if c =? 95 then (if prev then digits_val s' acc false else None)
      else match digit_val c with
           | Some d => digits_val s' (10 * acc + d) true
           | None => None
           end
  end.

Definition parse_int (s : str) : option Z :=
  match strip s with
  | 43 :: r => digits_val r 0 false
  | 45 :: r => option_map Z.opp (digits_val r 0 false)
  | r => digits_val r 0 false
  end.

(* ------------------------------------------------------------------ _split_plaintext *)
(* text before the first space, text after it *)
Fixpoint cut_space (s : str) : option (str * str) :=
  match s with
  | [] => None
  | c :: s' => if c =? 32 then Some ([], s')
               else match cut_space s' with
                    | Some (a, b) => Some (c :: a, b)
                    | None => None
                    end
  end.

Inductive split_res :=
| SplitShort                                          (* fewer than four spaces: BoboDistributedError *)
| SplitBadInt                                         (* int() of type or flags: ValueError *)
| SplitOk (urn id : str) (ty fl : Z) (js : str).

Definition split_plaintext (s : str) : split_res :=
  match cut_space s with
  | None => SplitShort
  | Some (urn, r1) =>
    match cut_space r1 with
    | None => SplitShort
    | Some (id, r2) =>
      match cut_space r2 with
      | None => SplitShort
      | Some (ty, r3) =>
        match cut_space r3 with
        | None => SplitShort
        | Some (fl, js) =>
          match parse_int ty, parse_int fl with
          | Some t, Some f => SplitOk urn id t f js
          | _, _ => SplitBadInt
          end
        end
      end
    end
  end.

(* ------------------------------------------------------------------ peers *)
Record peer := mkP {
  p_urn : str; p_key : str;      (* BoboDevice.urn, .id_key (immutable) *)
  p_addr : str;                  (* BoboDevice.addr *)
  p_lc : Z; p_la : Z;            (* last_comms, last_attempt *)
  p_fr : bool;                   (* flag_reset *)
  p_stash : list Z               (* sizes of the three stash lists *)
}.

Definition find_peer (urn : str) (ps : list peer) : option peer :=
  find (fun p => str_eqb (p_urn p) urn) ps.
Definition upd_peer (urn : str) (f : peer -> peer) (ps : list peer) : list peer :=
  map (fun p => if str_eqb (p_urn p) urn then f p else p) ps.

(* if client_addr != device.addr: device.addr = client_addr *)
Definition set_addr (a : str) (p : peer) : peer :=
  if str_eqb a (p_addr p) then p
  else mkP (p_urn p) (p_key p) a (p_lc p) (p_la p) (p_fr p) (p_stash p).
(* BoboDeviceManager.clear_last *)
Definition clear_last (p : peer) : peer :=
  mkP (p_urn p) (p_key p) (p_addr p) 0 0 (p_fr p) (p_stash p).

Definition TYPE_SYNC : Z := 0.
Definition TYPE_PING : Z := 1.
Definition TYPE_RESYNC : Z := 2.
Definition is_data (ty : Z) : bool := (ty =? TYPE_SYNC) || (ty =? TYPE_RESYNC).
(* (pt_flags & _FLAG_RESET) == _FLAG_RESET, Python's & on unbounded two's complement ints *)
Definition has_reset (fl : Z) : bool := Z.land fl 1 =? 1.

Inductive reason := RDecrypt | RSplit | RInt | RUrn | RKey | RType | RPayload.
Inductive verdict :=
| Accepted
| Dropped                  (* well-formed, authenticated, but "Incoming queue is full." *)
| Rej (r : reason).

Section Handle.
  Variable msg : Type.                       (* a parsed payload: {completed, halted, updated} *)
  Variable parse : str -> option msg.        (* _incoming_from_json; None = it raised *)

  Record istate := mkS {
    s_peers : list peer;                     (* self._devices, insertion order *)
    s_queue : list msg;                      (* self._queue_incoming, oldest first *)
    s_qmax : Z                               (* max_size_incoming; <= 0: unbounded *)
  }.

  (* Queue.full() *)
  Definition qfull (st : istate) : bool := (0 <? s_qmax st) && (s_qmax st <=? Z.of_nat (length (s_queue st))).

  Definition touch (urn addr : str) (fl : Z) (ps : list peer) : list peer :=
    let ps1 := upd_peer urn (set_addr addr) ps in
    if has_reset fl then upd_peer urn clear_last ps1 else ps1.

  (* The code with D8 repaired: everything is validated before the first change. *)
  Definition handle (st : istate) (addr : str) (pt : option str) : istate * verdict :=
    match pt with
    | None => (st, Rej RDecrypt)
    | Some s =>
      match split_plaintext s with
      | SplitShort => (st, Rej RSplit)
      | SplitBadInt => (st, Rej RInt)
      | SplitOk urn id ty fl js =>
        match find_peer urn (s_peers st) with
        | None => (st, Rej RUrn)
        | Some d =>
          if negb (str_eqb id (p_key d)) then (st, Rej RKey)
          else if is_data ty then
            match parse js with
            | None => (st, Rej RPayload)
            | Some m =>
                if qfull st
                then (mkS (upd_peer urn (set_addr addr) (s_peers st)) (s_queue st) (s_qmax st), Dropped)
                else (mkS (touch urn addr fl (s_peers st)) (s_queue st ++ [m]) (s_qmax st), Accepted)
            end
          else if ty =? TYPE_PING then
            (mkS (touch urn addr fl (s_peers st)) (s_queue st) (s_qmax st), Accepted)
          else (st, Rej RType)
        end
      end
    end.

  (* The code at the pinned commit (D8): the address is overwritten as soon as the key matches;
     a payload that does not parse raises after that; an unknown type is not rejected at all
     (nothing is enqueued, but the RESET flag still clears the contact times). *)
  Definition handle_unfixed (st : istate) (addr : str) (pt : option str) : istate * verdict :=
    match pt with
    | None => (st, Rej RDecrypt)
    | Some s =>
      match split_plaintext s with
      | SplitShort => (st, Rej RSplit)
      | SplitBadInt => (st, Rej RInt)
      | SplitOk urn id ty fl js =>
        match find_peer urn (s_peers st) with
        | None => (st, Rej RUrn)
        | Some d =>
          if negb (str_eqb id (p_key d)) then (st, Rej RKey)
          else
            let ps1 := upd_peer urn (set_addr addr) (s_peers st) in
            if is_data ty then
              match parse js with
              | None => (mkS ps1 (s_queue st) (s_qmax st), Rej RPayload)
              | Some m =>
                  if qfull st then (mkS ps1 (s_queue st) (s_qmax st), Dropped)
                  else (mkS (touch urn addr fl (s_peers st)) (s_queue st ++ [m]) (s_qmax st), Accepted)
              end
            else
              (mkS (touch urn addr fl (s_peers st)) (s_queue st) (s_qmax st),
               if ty =? TYPE_PING then Accepted else Rej RType)
        end
      end
    end.

  (* Specification-level notion, independent of either version of the code: the plaintext exists
     (authenticated decryption succeeded), has a header, names a known device with that device's
     key, has a known type, and, for SYNC/RESYNC, a payload that parses. *)
  Definition wellformedb (ps : list peer) (pt : option str) : bool :=
    match pt with
    | None => false
    | Some s =>
      match split_plaintext s with
      | SplitOk urn id ty fl js =>
        match find_peer urn ps with
        | Some d => str_eqb id (p_key d) &&
                    ((ty =? TYPE_PING) || (is_data ty && match parse js with Some _ => true | None => false end))
        | None => false
        end
      | _ => false
      end
    end.

  (* ---------------------------------------------------------------- the accept loop *)
  Variable decrypt : list Z -> option str.   (* crypto.decrypt; None = ValueError (MAC check failed, ...) *)

  (* one client: address, what the network does, the clock readings during the connection *)
  Definition client := (str * (list read * list Z))%type.

  (* _tcp_incoming with the handler `h`: clients one after another; whatever a client's handling
     raises is caught; a handler that hangs is the end of the loop *)
  Fixpoint serve (h : istate -> str -> option str -> istate * verdict)
           (c : rcfg) (st : istate) (clients : list client) : istate :=
    match clients with
    | [] => st
    | (addr, sc) :: cs =>
        match session_outcome c sc with
        | Hang => st
        | Deliver buf => serve h c (fst (h st addr (decrypt buf))) cs
        | _ => serve h c st cs
        end
    end.
End Handle.

Arguments mkS {msg}.
Arguments s_peers {msg}.
Arguments s_queue {msg}.
Arguments s_qmax {msg}.

(* ------------------------------------------------------------------ correspondence entry points *)
(* peers: (urn, key, addr), (last_comms, last_attempt, flag_reset, [stash sizes]) *)
Definition mk_peer (x : (str * str * str) * (Z * Z * bool * list Z)) : peer :=
  let '((u, k, a), (lc, la, fr, stz)) := x in mkP u k a lc la fr stz.

Definition enc_peer (p : peer) : list Z :=
  p_addr p ++ [-1; p_lc p; p_la p; b2z (p_fr p)] ++ p_stash p ++ [-2].

Definition enc_state (st : istate Z) : list Z :=
  concat (map enc_peer (s_peers st)) ++ [Z.of_nat (length (s_queue st))].

(* input: (peers, (queue length, qmax)), (client address, (plaintext or None, payload parses)), repaired?
   output: the peers' state and the queue length after the message *)
Definition run_C11 (inp : (list ((str * str * str) * (Z * Z * bool * list Z)) * (Z * Z))
                          * (str * (option str * bool)) * bool) : list Z :=
  let '((ps, (ql, qmax)), (addr, (pt, pok)), fixed) := inp in
  let parse := fun _ : str => if pok then Some 0 else None in
  let st := mkS (map mk_peer ps) (repeat 0 (Z.to_nat ql)) qmax in
  let h := if fixed then handle Z parse else handle_unfixed Z parse in
  enc_state (fst (h st addr pt)).

(* the accept loop: input ((min_length, timeout_receive, recv_bytes), (end_on_all, client_timeout, d8 repaired)),
   peers, clients; a client is (address, (stream, spec), clock, (plaintext of exactly `stream` or None,
   its payload parses)).  decrypt and the payload parser are the tables these entries define; any other
   byte string fails to decrypt.
   output: the state after the last client, -3, then the outcome code of every client's receive loop *)
Fixpoint lookup {A} (k : list Z) (tab : list (list Z * A)) : option A :=
  match tab with
  | [] => None
  | (k', v) :: tab' => if zlist_eqb k k' then Some v else lookup k tab'
  end.

Definition lclient := (str * (list Z * list Z) * list Z * (option str * bool))%type.

Definition dtab (cls : list lclient) : list (list Z * option str) :=
  map (fun cl : lclient => let '(_, (stream, _), _, (pt, _)) := cl in (stream, pt)) cls.
Definition ptab (cls : list lclient) : list (str * bool) :=
  flat_map (fun cl : lclient =>
              let '(_, _, _, (pt, pok)) := cl in
              match pt with
              | Some s => match split_plaintext s with
                          | SplitOk _ _ _ _ js => [(js, pok)]
                          | _ => []
                          end
              | None => []
              end) cls.

Definition run_C11_listen
  (inp : ((Z * Z * Z) * (bool * bool * bool))
         * list ((str * str * str) * (Z * Z * bool * list Z))
         * list lclient) : list Z :=
  let '(((mn, trecv, n), (onall, cto, fixed)), ps, cls) := inp in
  let c := mkR mn MARKER trecv (Z.to_nat n) onall cto in
  let decrypt := fun buf : list Z => match lookup buf (dtab cls) with Some pt => pt | None => None end in
  let parse := fun js : str => match lookup js (ptab cls) with Some true => Some 0 | _ => None end in
  let h := if fixed then handle Z parse else handle_unfixed Z parse in
  let clients := map (fun cl : lclient =>
                        let '(addr, (stream, spec), clock, _) := cl in (addr, (mk_script stream spec, clock))) cls in
  enc_state (serve Z decrypt h c (mkS (map mk_peer ps) [] 0) clients)
  ++ [-3] ++ map (fun o => hd 0 (enc_outcome [] o)) (listen c (map snd clients)).
