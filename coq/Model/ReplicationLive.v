(* C06, healing half: the vocabulary of the liveness statements about Model/Replication.v.  No proofs here.

   A HEALING PHASE for peer j is a schedule (list of act) in which
     - the clock never steps back (act_ok), and
     - every message the outgoing thread hands to the socket layer FOR PEER j is delivered (outcome 0);
   everything else is free: enqueues, address refreshes and RESETs handled by the incoming thread at any point,
   sends to OTHER peers failing in any way, arbitrary snapshots, arbitrary clock readings.

   What the code needs of the clock (read off _tcp_outgoing) is `due_at`: at the moment the decision for j is
   taken (last_attempt of j is read), the retry interval that applies is not what holds the message back -
        j in the RESYNC period (now - last_comms reached period_resync, last_comms as read):
              now - last_attempt has reached attempt_resync;
        otherwise:  the iteration holds a queue item, or j's backlog is empty, or
              now - last_attempt has reached attempt_stash.
   Iterations in which this is false are allowed in a healing phase; they make no progress for j and do no harm.

   `track` follows a healing phase with two numbers: r, how many of the queue positions that existed at the
   healing point have not been taken yet, and d, "an iteration that started with at most one such position left
   has taken its decision for j with due_at true".  The theorem says that d = true at the end of an iteration
   means everything reported before the healing point has been delivered to j. *)
From Bobo Require Import Base.Prelude Model.Outgoing Model.Replication.

Section Live.
  Variable c : tcfg.
  Variable j : nat.

  (* one action of a healing phase for j *)
  Definition heal_ok (g : gstate) (a : act) : Prop :=
    act_ok g a /\
    match a with
    | OStep _ _ outc => match g_pc g with PSend k _ _ _ _ => k = j -> outc = 0 | _ => True end
    | _ => True
    end.

  (* the incoming thread handles no RESET from j *)
  Definition no_reset (g : gstate) (a : act) : Prop :=
    match a with XReset f => f <> j | _ => True end.

  (* the retry intervals do not hold back what j is waiting for; evaluated in the state in which the outgoing
     thread is about to read last_attempt of j (repaired order: the mode is chosen in that step) *)
  Definition due_peer (now lcv : Z) (qe : bool) (p : peer) : bool :=
    if reached (cv_pr c) (now - lcv) (p_resync c)
    then reached (cv_ar c) (now - la p) (a_resync c)
    else negb qe || (size_stash p =? 0) || reached (cv_as c) (now - la p) (a_stash c).

  Definition due_at (g : gstate) : bool :=
    match g_pc g with
    | PRdLa k lcv =>
        Nat.eqb k j && match nth_error (g_peers g) j with
                       | Some p => due_peer (g_now g) lcv (g_qe g) p
                       | None => false
                       end
    | _ => false
    end.

  (* the decision for j is about to be taken *)
  Definition deciding (g : gstate) : bool :=
    match g_pc g with PRdLa k _ => Nat.eqb k j | _ => false end.

  Definition starting (g : gstate) : bool :=
    match g_pc g with PIdle => true | _ => false end.

  (* (r, d) across one action *)
  Definition track1 (g : gstate) (a : act) (rd : nat * bool) : nat * bool :=
    match a with
    | OStep _ _ _ =>
        if starting g then (Nat.pred (fst rd), snd rd)
        else if deciding g && Nat.eqb (fst rd) 0 && due_at g then (fst rd, true)
        else rd
    | _ => rd
    end.

  Fixpoint track (g : gstate) (acts : list act) (rd : nat * bool) : nat * bool :=
    match acts with
    | [] => rd
    | a :: r => track (mstep true c g a) r (track1 g a rd)
    end.

  (* number of iterations started *)
  Fixpoint iters (g : gstate) (acts : list act) : nat :=
    match acts with
    | [] => O
    | a :: r =>
        ((match a with OStep _ _ _ => if starting g then 1 else 0 | _ => 0 end) + iters (mstep true c g a) r)%nat
    end.

  (* the clock premise in its simple form: at every decision for j the retry intervals have elapsed *)
  Definition due_ok (g : gstate) (a : act) : Prop :=
    match a with
    | OStep _ _ _ => deciding g = true -> due_at g = true
    | _ => True
    end.

  (* u: "the running iteration (or the one that has just ended) took its decision for j with due_at true and no
     RESET from j has been handled since it started" *)
  Definition ctrack1 (g : gstate) (a : act) (u : bool) : bool :=
    match a with
    | XReset f => if Nat.eqb f j then false else u
    | OStep _ _ _ => if starting g then true else if deciding g then u && due_at g else u
    | _ => u
    end.

  Fixpoint ctrack (g : gstate) (acts : list act) (u : bool) : bool :=
    match acts with
    | [] => u
    | a :: r => ctrack (mstep true c g a) r (ctrack1 g a u)
    end.

  (* a note that names no run reports nothing *)
  Definition vacuous (n : note) : Prop := note_in n empty_note.

  (* j's backlog is empty *)
  Definition stash_empty (p : peer) : Prop := st_c p = [] /\ st_h p = [] /\ st_u p = [].
End Live.
