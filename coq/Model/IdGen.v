(* Model of bobocep/cep/gen/event_id.py: BoboGenEventIDUnique.generate.
   State = (_last, _count); the clock reading int(time()) is an explicit input.
   Strings are lists of character codes (Z). *)
From Bobo Require Import Base.Prelude.
From Coq Require Import DecimalPos.

Record gstate := mkG { g_last : Z; g_count : Z }.
Definition g_init : gstate := mkG 0 0.

(* The code as it is now (after the fix for D12): now = max(int(time()), _last) *)
Definition gen (s : gstate) (clock : Z) : gstate * (Z * Z) :=
  let now := Z.max clock (g_last s) in
  if now =? g_last s
  then (mkG (g_last s) (g_count s + 1), (now, g_count s + 1))
  else (mkG now 0, (now, 0)).

(* The code as it was at the pinned commit: no max *)
Definition gen_unfixed (s : gstate) (now : Z) : gstate * (Z * Z) :=
  if now =? g_last s
  then (mkG (g_last s) (g_count s + 1), (now, g_count s + 1))
  else (mkG now 0, (now, 0)).

Fixpoint gen_all (g : gstate -> Z -> gstate * (Z * Z)) (s : gstate) (clock : list Z) : list (Z * Z) :=
  match clock with
  | [] => []
  | c :: cs => let '(s', id) := g s c in id :: gen_all g s' cs
  end.

(* str(int) *)
Fixpoint udigits (d : Decimal.uint) : list Z :=
  match d with
  | Decimal.Nil => []
  | Decimal.D0 d => 48 :: udigits d | Decimal.D1 d => 49 :: udigits d
  | Decimal.D2 d => 50 :: udigits d | Decimal.D3 d => 51 :: udigits d
  | Decimal.D4 d => 52 :: udigits d | Decimal.D5 d => 53 :: udigits d
  | Decimal.D6 d => 54 :: udigits d | Decimal.D7 d => 55 :: udigits d
  | Decimal.D8 d => 56 :: udigits d | Decimal.D9 d => 57 :: udigits d
  end.

Definition dec (z : Z) : list Z :=
  match z with
  | Z0 => [48]
  | Zpos p => udigits (Pos.to_uint p)
  | Zneg p => 45 :: udigits (Pos.to_uint p)
  end.

Definition USCORE : Z := 95.

(* "{}_{}_{}".format(urn, now, count)  /  "{}_{}".format(now, count) *)
Definition render (urn : option (list Z)) (id : Z * Z) : list Z :=
  match urn with
  | Some u => u ++ USCORE :: dec (fst id) ++ USCORE :: dec (snd id)
  | None => dec (fst id) ++ USCORE :: dec (snd id)
  end.

Definition ids (urn : option (list Z)) (clock : list Z) : list (list Z) :=
  map (render urn) (gen_all gen g_init clock).

(* correspondence entry point: ids separated by newline (10) *)
Definition run_C16 (inp : option (list Z) * list Z) : list Z :=
  concat (map (fun s => s ++ [10]) (ids (fst inp) (snd inp))).
